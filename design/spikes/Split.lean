/-! C14 spike: slow path of ValidNamesSplit as a byte loop, and the no-loss law. -/
namespace SpikeSplit
abbrev Bytes := List UInt8
def Q : UInt8 := 39   -- '\''

structure St where
  tmp : Bytes := []
  res : List Bytes := []
  inQ : Bool := false        -- isParseSingleQuotes; stack holds exactly one quote iff inQ
deriving Repr

/-- one iteration of the `for i := 0; i < l; i++` body (stack folded into `inQ`: it holds ≤ 1 element) -/
def stepB (sep : UInt8) (s : St) (v : UInt8) : St :=
  -- append rule
  let tmp1 := if !s.inQ && v != sep then s.tmp ++ [v] else if s.inQ then s.tmp ++ [v] else s.tmp
  if !s.inQ && v == Q then { s with tmp := tmp1, inQ := true }            -- open quote; continue
  else if s.inQ && v == Q then { s with tmp := tmp1, inQ := false }       -- close quote; continue
  else if v == sep && !s.inQ then { s with tmp := [], res := s.res ++ [tmp1] }
  else { s with tmp := tmp1 }

def slow (sep : UInt8) (s : Bytes) : List Bytes :=
  let st := s.foldl (stepB sep) {}
  if st.tmp.isEmpty then st.res else st.res ++ [st.tmp]

def join (sep : UInt8) : List Bytes → Bytes
  | [] => []
  | [a] => a
  | a :: b :: rest => a ++ [sep] ++ join sep (b :: rest)

theorem join_snoc (sep : UInt8) (l : List Bytes) (a b : Bytes) :
    join sep (l ++ [a, b]) = join sep (l ++ [a]) ++ [sep] ++ b := by
  induction l with
  | nil => simp [join]
  | cons x l ih =>
    cases l with
    | nil => simp [join]
    | cons y l => simp only [List.cons_append, join] at ih ⊢; rw [ih]; simp [List.append_assoc]

theorem join_snoc_app (sep : UInt8) (l : List Bytes) (a : Bytes) (v : UInt8) :
    join sep (l ++ [a ++ [v]]) = join sep (l ++ [a]) ++ [v] := by
  induction l with
  | nil => simp [join]
  | cons x l ih =>
    cases l with
    | nil => simp [join, List.append_assoc]
    | cons y l => simp only [List.cons_append, join] at ih ⊢; rw [ih]; simp [List.append_assoc]

/-- loop invariant: pieces so far, plus the open piece, re-join to the consumed prefix -/
theorem fold_inv (sep : UInt8) (hs : sep ≠ Q) (p : Bytes) (st : St) (rest : Bytes)
    (h : join sep (st.res ++ [st.tmp]) = p) :
    let st' := rest.foldl (stepB sep) st
    join sep (st'.res ++ [st'.tmp]) = p ++ rest := by
  induction rest generalizing st p with
  | nil => simpa using h
  | cons v rest ih =>
    simp only [List.foldl_cons]
    have key : join sep ((stepB sep st v).res ++ [(stepB sep st v).tmp]) = p ++ [v] := by
      unfold stepB
      by_cases hq : st.inQ <;> by_cases hv : v = Q <;> by_cases hsep : v = sep <;>
        simp_all [join_snoc_app, join_snoc]
    have := ih (p ++ [v]) (stepB sep st v) key
    simpa [List.append_assoc] using this

theorem C14_split_noloss_slow (sep : UInt8) (hs : sep ≠ Q) (s : Bytes) :
    join sep (slow sep s) = s ∨ join sep (slow sep s) ++ [sep] = s ∨ (slow sep s = [] ∧ s = []) := by
  have h := fold_inv sep hs [] {} s (by simp [join])
  simp only [List.nil_append] at h
  unfold slow
  generalize s.foldl (stepB sep) {} = st at h ⊢
  by_cases he : st.tmp.isEmpty
  · simp only [he, if_true]
    have ht : st.tmp = [] := by simpa using he
    rw [ht] at h
    cases hr : st.res with
    | nil => right; right; rw [hr] at h; simp [join] at h; exact ⟨rfl, h⟩
    | cons a l =>
      right; left
      rw [hr] at h
      -- join (res ++ [[]]) = join res ++ [sep]
      have : ∀ (l : List Bytes) (a : Bytes), join sep ((a :: l) ++ [[]]) = join sep (a :: l) ++ [sep] := by
        intro l
        induction l with
        | nil => intro a; simp [join]
        | cons b l ih => intro a; simp only [List.cons_append, join] at ih ⊢; rw [ih b]; simp [List.append_assoc]
      rw [← this]; exact h
  · simp only [he]; left; simpa using h
#print axioms C14_split_noloss_slow
end SpikeSplit
