namespace Spike
abbrev Bytes := List UInt8

mutual
inductive GoVal where
  | str (s : Bytes)
  | int (z : Int)
  | ptr (t : Option GoVal)
  | slice (isNil : Bool) (elems : GoVals)
  | struct (name : Bytes) (fields : Fields)
inductive GoVals where
  | nil
  | cons (v : GoVal) (vs : GoVals)
inductive Fields where
  | nil
  | cons (name : Bytes) (exported : Bool) (rules : List Bytes) (v : GoVal) (fs : Fields)
end

mutual
def GoVal.isZero : GoVal → Bool
  | .str s => s.isEmpty
  | .int z => z == 0
  | .ptr t => t.isNone
  | .slice n _ => n
  | .struct _ fs => fs.allZero
def Fields.allZero : Fields → Bool
  | .nil => true
  | .cons _ _ _ v fs => v.isZero && fs.allZero
end

structure Clause where
  path : Bytes
  rule : Bytes
deriving DecidableEq, Repr

def req : Bytes := "required".toUTF8.toList

-- code-shaped walker: accumulates into a buffer (list), like errBuf
mutual
def walk (path : Bytes) (v : GoVal) (buf : List Clause) : List Clause :=
  match v with
  | .ptr (some t) => walk path t buf
  | .struct _ fs => walkFields path fs buf
  | _ => buf
def walkFields (path : Bytes) (fs : Fields) (buf : List Clause) : List Clause :=
  match fs with
  | .nil => buf
  | .cons n ex rules v rest =>
    let buf1 := if ex && rules.contains req then
        (if v.isZero then buf ++ [⟨path ++ [46] ++ n, req⟩]
         else descend (path ++ [46] ++ n) v buf)
      else buf
    walkFields path rest buf1
def descend (path : Bytes) (v : GoVal) (buf : List Clause) : List Clause :=
  match v with
  | .slice _ es => walkElems path 0 es buf
  | .ptr (some t) => walk path t buf
  | .struct _ fs => walkFields path fs buf
  | _ => buf
def walkElems (path : Bytes) (i : Nat) (es : GoVals) (buf : List Clause) : List Clause :=
  match es with
  | .nil => buf
  | .cons v rest => walkElems path (i+1) rest (walk (path ++ [91] ++ (toString i).toUTF8.toList ++ [93]) v buf)
end

-- spec: declarative list of violations
mutual
def viol (path : Bytes) (v : GoVal) : List Clause :=
  match v with
  | .ptr (some t) => viol path t
  | .struct _ fs => violFields path fs
  | _ => []
def violFields (path : Bytes) (fs : Fields) : List Clause :=
  match fs with
  | .nil => []
  | .cons n ex rules v rest =>
    (if ex && rules.contains req then
        (if v.isZero then [⟨path ++ [46] ++ n, req⟩]
         else violDesc (path ++ [46] ++ n) v)
      else []) ++ violFields path rest
def violDesc (path : Bytes) (v : GoVal) : List Clause :=
  match v with
  | .slice _ es => violElems path 0 es
  | .ptr (some t) => viol path t
  | .struct _ fs => violFields path fs
  | _ => []
def violElems (path : Bytes) (i : Nat) (es : GoVals) : List Clause :=
  match es with
  | .nil => []
  | .cons v rest => viol (path ++ [91] ++ (toString i).toUTF8.toList ++ [93]) v ++ violElems path (i+1) rest
end


mutual
theorem walk_eq (path : Bytes) (v : GoVal) (buf : List Clause) : walk path v buf = buf ++ viol path v := by
  cases v with
  | str s => simp [walk, viol]
  | int z => simp [walk, viol]
  | ptr t => cases t with
    | none => simp [walk, viol]
    | some t => simp only [walk, viol]; exact walk_eq path t buf
  | slice n es => simp [walk, viol]
  | struct nm fs => simp only [walk, viol]; exact walkFields_eq path fs buf
theorem desc_eq (path : Bytes) (v : GoVal) (buf : List Clause) : descend path v buf = buf ++ violDesc path v := by
  cases v with
  | str s => simp [descend, violDesc]
  | int z => simp [descend, violDesc]
  | ptr t => cases t with
    | none => simp [descend, violDesc]
    | some t => simp only [descend, violDesc]; exact walk_eq path t buf
  | slice n es => simp only [descend, violDesc]; exact walkElems_eq path 0 es buf
  | struct nm fs => simp only [descend, violDesc]; exact walkFields_eq path fs buf
theorem walkFields_eq (path : Bytes) (fs : Fields) (buf : List Clause) : walkFields path fs buf = buf ++ violFields path fs := by
  cases fs with
  | nil => simp [walkFields, violFields]
  | cons n ex rules v rest =>
    simp only [walkFields, violFields]
    rw [walkFields_eq path rest]
    split
    · split
      · simp
      · rw [desc_eq]; simp
    · simp
theorem walkElems_eq (path : Bytes) (i : Nat) (es : GoVals) (buf : List Clause) : walkElems path i es buf = buf ++ violElems path i es := by
  cases es with
  | nil => simp [walkElems, violElems]
  | cons v rest => simp only [walkElems, violElems]; rw [walkElems_eq path (i+1) rest, walk_eq]; simp
end
#print axioms walk_eq
end Spike
