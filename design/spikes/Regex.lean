namespace SpikeRe
abbrev Rune := Nat

inductive Re where
  | bol | eol
  | cls (ranges : List (Nat × Nat))
  | anyNotNL
  | cat (rs : List Re)
  | alt (rs : List Re)
  | star (r : Re)
  | plus (r : Re)
  | rep (r : Re) (n : Nat)

def inCls (ranges : List (Nat × Nat)) (c : Rune) : Bool := ranges.any fun (lo, hi) => lo ≤ c && c ≤ hi

inductive Star (R : Nat → Nat → Prop) : Nat → Nat → Prop
  | refl (i) : Star R i i
  | step {i k j} : R i k → Star R k j → Star R i j

def Iter (R : Nat → Nat → Prop) : Nat → Nat → Nat → Prop
  | 0, i, j => i = j
  | n+1, i, j => ∃ k, R i k ∧ Iter R n k j

mutual
def Span (w : List Rune) : Re → Nat → Nat → Prop
  | .bol, i, j => i = 0 ∧ j = 0
  | .eol, i, j => i = w.length ∧ j = i
  | .cls rs, i, j => j = i + 1 ∧ ∃ c, w[i]? = some c ∧ inCls rs c = true
  | .anyNotNL, i, j => j = i + 1 ∧ ∃ c, w[i]? = some c ∧ c ≠ 10
  | .cat rs, i, j => SpanCat w rs i j
  | .alt rs, i, j => SpanAlt w rs i j
  | .star r, i, j => Star (Span w r) i j
  | .plus r, i, j => ∃ k, Span w r i k ∧ Star (Span w r) k j
  | .rep r n, i, j => Iter (Span w r) n i j
def SpanCat (w : List Rune) : List Re → Nat → Nat → Prop
  | [], i, j => i = j
  | r :: rs, i, j => ∃ k, Span w r i k ∧ SpanCat w rs k j
def SpanAlt (w : List Rune) : List Re → Nat → Nat → Prop
  | [], _, _ => False
  | r :: rs, i, j => Span w r i j ∨ SpanAlt w rs i j
end

def MatchString (r : Re) (w : List Rune) : Prop := ∃ i j, Span w r i j

def digit : Re := .cls [(48,57)]
def IntRe : Re := .cat [.bol, .plus digit, .eol]

def isDigit (c : Rune) : Bool := 48 ≤ c && c ≤ 57

theorem span_digit (w : List Rune) (i j : Nat) : Span w digit i j ↔ j = i+1 ∧ ∃ c, w[i]? = some c ∧ isDigit c = true := by
  simp [digit, Span, inCls, isDigit]

-- star of a single-char class from i to j: all chars in [i,j) satisfy
theorem star_cls (w : List Rune) (p : Rune → Bool) (R : Nat → Nat → Prop)
    (hR : ∀ i j, R i j ↔ j = i+1 ∧ ∃ c, w[i]? = some c ∧ p c = true) (i j : Nat) :
    Star R i j ↔ i ≤ j ∧ j ≤ max i w.length ∧ ∀ k, i ≤ k → k < j → ∃ c, w[k]? = some c ∧ p c = true := by
  constructor
  · intro h
    induction h with
    | refl i => refine ⟨Nat.le_refl _, Nat.le_max_left _ _, ?_⟩; intro k h1 h2; omega
    | @step i k j h1 _ ih =>
      obtain ⟨rfl, c, hc, hp⟩ := (hR _ _).1 h1
      obtain ⟨a, b, d⟩ := ih
      have hi : i < w.length := by
        rcases Nat.lt_or_ge i w.length with h | h
        · exact h
        · simp [List.getElem?_eq_none h] at hc
      refine ⟨by omega, by omega, ?_⟩
      intro k hk1 hk2
      rcases Nat.eq_or_lt_of_le hk1 with rfl | h
      · exact ⟨c, hc, hp⟩
      · exact d k (by omega) hk2
  · intro ⟨h1, h2, h3⟩
    induction hd : j - i generalizing i with
    | zero => have : i = j := by omega
              subst this; exact Star.refl _
    | succ n ih =>
      obtain ⟨c, hc, hp⟩ := h3 i (Nat.le_refl _) (by omega)
      refine Star.step ((hR i (i+1)).2 ⟨rfl, c, hc, hp⟩) (ih (i+1) (by omega) ?_ ?_ (by omega))
      · have hi : i < w.length := by
          rcases Nat.lt_or_ge i w.length with h | h
          · exact h
          · simp [List.getElem?_eq_none h] at hc
        omega
      · intro k hk1 hk2; exact h3 k (by omega) hk2

theorem IntRe_lang (w : List Rune) : MatchString IntRe w ↔ w ≠ [] ∧ w.all isDigit = true := by
  unfold MatchString IntRe
  simp only [Span, SpanCat]
  constructor
  · rintro ⟨i, j, k, ⟨rfl, rfl⟩, k2, ⟨m, hm, hs⟩, k3, ⟨rfl, rfl⟩, rfl⟩
    rw [star_cls w isDigit _ (span_digit w)] at hs
    obtain ⟨rfl, c, hc, hp⟩ := (span_digit w _ _).1 hm
    obtain ⟨a, b, d⟩ := hs
    constructor
    · intro h; subst h; simp at hc
    · rw [List.all_eq_true]; intro x hx
      obtain ⟨n, hn, rfl⟩ := List.getElem_of_mem hx
      rcases Nat.eq_zero_or_pos n with rfl | hpos
      · simp [List.getElem?_eq_getElem hn] at hc; subst hc; exact hp
      · obtain ⟨c', hc', hp'⟩ := d n (by omega) (by omega)
        simp [List.getElem?_eq_getElem hn] at hc'; subst hc'; exact hp'
  · rintro ⟨hne, hall⟩
    rw [List.all_eq_true] at hall
    have hlen : 0 < w.length := List.length_pos_iff.2 hne
    refine ⟨0, w.length, 0, ⟨rfl, rfl⟩, w.length, ⟨1, ?_, ?_⟩, w.length, ⟨rfl, rfl⟩, rfl⟩
    · exact (span_digit w 0 1).2 ⟨rfl, w[0], by simp [List.getElem?_eq_getElem hlen], hall _ (List.getElem_mem _)⟩
    · rw [star_cls w isDigit _ (span_digit w)]
      refine ⟨by omega, by omega, ?_⟩
      intro k hk1 hk2
      exact ⟨w[k], by simp [List.getElem?_eq_getElem hk2], hall _ (List.getElem_mem _)⟩
#print axioms IntRe_lang
end SpikeRe
