namespace SpikeLRU
abbrev Key := Nat
abbrev Val := Nat

structure St where
  cap : Nat
  nodeMap : List (Key × Nat)
  list : List (Nat × Val)
  next : Nat
  delCount : Nat
deriving Repr

def new (cap : Nat) : St := ⟨cap, [], [], 0, 0⟩

def lookup (m : List (Key × Nat)) (k : Key) : Option Nat := (m.find? (·.1 == k)).map (·.2)
def keyOf (m : List (Key × Nat)) (id : Nat) : Option Key := (m.find? (·.2 == id)).map (·.1)
def valOf (l : List (Nat × Val)) (id : Nat) : Option Val := (l.find? (·.1 == id)).map (·.2)

/-- container/list MoveToFront, with the (fixed) value update -/
def moveFront (l : List (Nat × Val)) (id : Nat) (v : Val) : List (Nat × Val) :=
  (id, v) :: l.filter (·.1 != id)

structure Out where
  cbs : List (Key × Val) := []
  load : Option Val := none
  len : Int := 0
deriving Repr, DecidableEq

/-- delete(node): find key by scanning the index, remove from both, callback, rebuild bookkeeping -/
def deleteNode (s : St) (id : Nat) : St × List (Key × Val) :=
  match keyOf s.nodeMap id, valOf s.list id with
  | some k, some v =>
    let nm := s.nodeMap.filter (·.1 != k)
    let l := s.list.filter (·.1 != id)
    let dc := if s.delCount > 2 * s.cap then 0 else s.delCount + 1
    ({ s with nodeMap := nm, list := l, delCount := dc }, [(k, v)])
  | _, _ => (s, [])   -- unreachable under Inv (Go: delete(nil key) no-op + Remove)

def store (s : St) (k : Key) (v : Val) : St × Out :=
  match lookup s.nodeMap k with
  | some id => ({ s with list := moveFront s.list id v }, {})
  | none =>
    let id := s.next
    let s1 := { s with list := (id, v) :: s.list, nodeMap := (k, id) :: s.nodeMap, next := id + 1 }
    if s1.list.length > s1.cap then
      match s1.list.getLast? with
      | some (bid, _) => let (s2, cbs) := deleteNode s1 bid; (s2, { cbs := cbs })
      | none => (s1, {})
    else (s1, {})

def load (s : St) (k : Key) : St × Out :=
  match lookup s.nodeMap k with
  | none => (s, {})
  | some id =>
    match valOf s.list id with
    | some v => ({ s with list := moveFront s.list id v }, { load := some v })
    | none => (s, {})

def delete (s : St) (k : Key) : St × Out :=
  match lookup s.nodeMap k with
  | none => (s, {})
  | some id => let (s2, cbs) := deleteNode s id; (s2, { cbs := cbs })

def len (s : St) : St × Out :=
  (s, { len := if s.list.length != s.nodeMap.length then -1 else s.list.length })

inductive Op | store (k : Key) (v : Val) | load (k : Key) | delete (k : Key) | len
deriving Repr

def step (s : St) : Op → St × Out
  | .store k v => store s k v
  | .load k => load s k
  | .delete k => delete s k
  | .len => len s

/-! spec -/
abbrev Sp := List (Key × Val)
def spStep (cap : Nat) (s : Sp) : Op → Sp × Out
  | .store k v =>
    if s.any (·.1 == k) then ((k, v) :: s.filter (·.1 != k), {})
    else
      let s1 := (k, v) :: s
      if s1.length > cap then (s1.dropLast, { cbs := s1.getLast?.toList }) else (s1, {})
  | .load k =>
    match s.find? (·.1 == k) with
    | some (_, v) => ((k, v) :: s.filter (·.1 != k), { load := some v })
    | none => (s, {})
  | .delete k =>
    match s.find? (·.1 == k) with
    | some (_, v) => (s.filter (·.1 != k), { cbs := [(k, v)] })
    | none => (s, {})
  | .len => (s, { len := s.length })

def run (s : St) : List Op → St × List Out
  | [] => (s, [])
  | o :: os => let (s1, out) := step s o; let (s2, outs) := run s1 os; (s2, out :: outs)
def spRun (cap : Nat) (s : Sp) : List Op → Sp × List Out
  | [] => (s, [])
  | o :: os => let (s1, out) := spStep cap s o; let (s2, outs) := spRun cap s1 os; (s2, out :: outs)

#eval (run (new 2) [.store 1 10, .store 2 20, .load 1, .store 3 30, .len, .store 1 11, .load 1, .delete 3, .len]).2
#eval (spRun 2 [] [.store 1 10, .store 2 20, .load 1, .store 3 30, .len, .store 1 11, .load 1, .delete 3, .len]).2
#eval (run (new 0) [.store 1 10, .load 1, .len]).2
#eval (spRun 0 [] [.store 1 10, .load 1, .len]).2
end SpikeLRU
