import Pgv
def step (line : String) : String :=
  match line.trimAscii.toString.splitOn " " with
  | ["add", a, b] => match a.toNat?, b.toNat? with
      | some x, some y => toString (x+y)
      | _, _ => "bad"
  | _ => "bad-op"
partial def loop (h : IO.FS.Stream) (out : IO.FS.Stream) : IO Unit := do
  let line ← h.getLine
  if line.isEmpty then return ()
  out.putStrLn (step line)
  loop h out
def main : IO Unit := do loop (← IO.getStdin) (← IO.getStdout)
