package main

import (
	"fmt"
	"math"
	"math/rand/v2"
	"net/url"
	"reflect"
	"strconv"
	"strings"

	"gitee.com/xuesongtao/protoc-go-valid/valid"
)

// One is the one-field carrier struct for single-rule cases.
type One[T any] struct{ F T }

var boundaryInts = []int64{math.MinInt64, math.MinInt64 + 1, -(1 << 53) - 1, -(1 << 53), -65536, -256, -129, -128, -127, -2, -1, 0, 1, 2, 3, 126, 127, 128, 129,
	254, 255, 256, 257, 65535, 65536, 1 << 31, 1<<53 - 1, 1 << 53, 1<<53 + 1, 1<<53 + 2, math.MaxInt64 - 1, math.MaxInt64}

var scalarKinds = []reflect.Kind{reflect.String, reflect.Int, reflect.Int8, reflect.Int16, reflect.Int32, reflect.Int64,
	reflect.Uint, reflect.Uint8, reflect.Uint16, reflect.Uint32, reflect.Uint64, reflect.Float32, reflect.Float64, reflect.Bool}

var strAlphabet = []string{"a", "b", "Z", "0", "1", "9", "中", "文", "é", "😀", " ", "-", ".", ",", "/", "'", "\"", "%", "&", "=", "+", "?", "#", "\xff", "\x00", "\n", "@", "_", ":", "(", ")", "|", "~", "X", "x",
	// text that is itself a percent-escape (survives one decoding, changes under a second one)
	"%41", "%25", "%2B", "%3D", "%e4%bd%a0"}

func randString(r *rand.Rand, maxLen int) string { return randFrom(r, strAlphabet, 0, maxLen) }

func clampInt(k reflect.Kind, z int64) int64 {
	switch k {
	case reflect.Int8:
		return int64(int8(z))
	case reflect.Int16:
		return int64(int16(z))
	case reflect.Int32:
		return int64(int32(z))
	}
	return z
}

func clampUint(k reflect.Kind, n uint64) uint64 {
	switch k {
	case reflect.Uint8:
		return uint64(uint8(n))
	case reflect.Uint16:
		return uint64(uint16(n))
	case reflect.Uint32:
		return uint64(uint32(n))
	}
	return n
}

// a value of the given scalar kind whose measure is `around` (when it fits), as interface{}
func scalarNear(r *rand.Rand, k reflect.Kind, around int64) interface{} {
	d := int64(r.IntN(3) - 1)
	z := around + d
	switch k {
	case reflect.String:
		n := z
		if n < 0 {
			n = int64(r.IntN(3))
		}
		if n > 40 {
			n = int64(r.IntN(40))
		}
		return randFrom(r, []string{"a", "中", "é", "😀", "\xff", "1", " "}, int(n), int(n))
	case reflect.Int:
		return int(z)
	case reflect.Int8:
		return int8(z)
	case reflect.Int16:
		return int16(z)
	case reflect.Int32:
		return int32(z)
	case reflect.Int64:
		return z
	case reflect.Uint:
		return uint(z)
	case reflect.Uint8:
		return uint8(z)
	case reflect.Uint16:
		return uint16(z)
	case reflect.Uint32:
		return uint32(z)
	case reflect.Uint64:
		return uint64(z)
	case reflect.Float32:
		f := float32(z)
		switch r.IntN(8) {
		case 0:
			f = math.Nextafter32(f, float32(math.Inf(1)))
		case 1:
			f = math.Nextafter32(f, float32(math.Inf(-1)))
		case 2:
			f += 0.5
		case 3:
			f = float32(math.Inf(r.IntN(2)*2 - 1))
		}
		return f
	case reflect.Float64:
		f := float64(z)
		switch r.IntN(10) {
		case 0:
			f = math.Nextafter(f, math.Inf(1))
		case 1:
			f = math.Nextafter(f, math.Inf(-1))
		case 2:
			f += 0.25
		case 3:
			f = math.Inf(r.IntN(2)*2 - 1)
		case 4:
			f = math.NaN()
		case 5:
			f = math.Copysign(0, -1)
		case 6:
			f = 5e-324
		}
		return f
	case reflect.Bool:
		return z%2 != 0
	}
	return nil
}

func sliceNear(r *rand.Rand, around int64) interface{} {
	n := around + int64(r.IntN(3)-1)
	if n < 0 || n > 30 {
		n = int64(r.IntN(4))
	}
	switch r.IntN(7) {
	case 3:
		// bytes of a multi-byte text: length in bytes, not in runes
		b := []byte(randFrom(r, []string{"中", "é", "a", "😀", "1"}, 0, 8))
		if int64(len(b)) > n && n >= 0 {
			b = b[:n]
		}
		for int64(len(b)) < n {
			b = append(b, 0xe4)
		}
		return b
	case 4:
		s := make([]int8, n)
		for i := range s {
			s[i] = int8(r.IntN(7) - 3)
		}
		return s
	case 5:
		s := make([]float64, n)
		for i := range s {
			s[i] = float64(r.IntN(5)) / 2
			if chance(r, 0.15) {
				s[i] = pick(r, []float64{0, math.Copysign(0, -1), math.NaN(), math.NaN(), math.Inf(1)}) // equal as numbers / unequal to itself, yet rendered apart / alike
			}
		}
		return s
	case 6:
		s := make([]bool, n)
		for i := range s {
			s[i] = chance(r, 0.5)
		}
		return s
	case 0:
		s := make([]int, n)
		for i := range s {
			s[i] = r.IntN(5)
		}
		return s
	case 1:
		s := make([]string, n)
		for i := range s {
			s[i] = pick(r, []string{"1", "2", "a", "", "07"})
		}
		return s
	default:
		s := make([]uint8, n)
		for i := range s {
			s[i] = uint8(r.IntN(3))
		}
		return s
	}
}

func randMsg(r *rand.Rand) string {
	switch r.IntN(10) {
	case 0, 1, 2, 3, 4:
		return ""
	case 5:
		return "|" + randFrom(r, []string{"m", "s", "g", " ", "x"}, 1, 5)
	case 6:
		return "|" + randFrom(r, []string{"必", "填", "龥", "一", "m", " "}, 1, 5)
	case 9:
		// text outside the CJK block the label test looks for: just below / above it, Hangul, full-width
		// punctuation, emoji, invalid UTF-8
		return "|" + randFrom(r, []string{"\u4dff", "\u9fa6", "한", "！", "😀", "﷼", "\xff", "m", " "}, 1, 4)
	case 7:
		return "|" + pick(r, []string{"m", "中", "=", "1"})
	case 8:
		if chance(r, 0.5) {
			return "|a=b"
		}
		// messages that begin and end with a single quote (the README's way of protecting a comma), paired or not
		if chance(r, 0.4) {
			// texts that contain or begin with the label strings themselves
			return "|" + pick(r, []string{"explain: x", "说明: x", "see the explain: column", "explain:", "x explain: y", "说明:", "a 说明: b", "explain"})
		}
		return "|" + pick(r, []string{"'a,b'", "'yes' or 'no'", "'x'", "''", "'admin' 或 'root'", "'m", "m'", "'a' 'b'"})
	}
	return "|" + randFrom(r, []string{"m", "(", ")", "~", "/", "=", "|", "中"}, 1, 4)
}

var sizeRules = []string{"to", "ge", "le", "oto", "gt", "lt", "eq", "noeq"}

// a size rule whose bound(s) lie around `m`
func sizeRuleNear(r *rand.Rand, m int64) string {
	rule := pick(r, sizeRules)
	b1 := m + int64(r.IntN(3)-1)
	if chance(r, 0.25) {
		b1 = pick(r, boundaryInts)
	}
	arg := strconv.FormatInt(b1, 10)
	if chance(r, 0.04) {
		// the same integer written differently: explicit sign, leading zeros
		switch {
		case b1 >= 0 && chance(r, 0.5):
			arg = "+" + arg
		case b1 >= 0:
			arg = pick(r, []string{"0", "00"}) + arg
		default:
			arg = "-0" + arg[1:]
		}
	}
	if rule == "to" || rule == "oto" {
		b2 := b1 + int64(r.IntN(5)-2)
		switch r.IntN(6) {
		case 0:
			b2 = pick(r, boundaryInts)
		case 1:
			b2 = m + int64(r.IntN(3)-1)
		}
		arg += "~" + strconv.FormatInt(b2, 10)
		if chance(r, 0.03) {
			arg = pick(r, []string{"1", "1~2~3", "a~b", "1~", "~", "", "1~x", "99999999999999999999~1", "+1~+3", " 1~2"})
		}
	} else if chance(r, 0.03) {
		arg = pick(r, []string{"", "abc", "1.5", "99999999999999999999", "-99999999999999999999", "+5", " 5", "0x10", "1_0"})
	}
	return rule + "=" + arg + randMsg(r)
}

func measureOf(v interface{}) int64 {
	rv := reflect.ValueOf(v)
	switch rv.Kind() {
	case reflect.String:
		return int64(len([]rune(rv.String())))
	case reflect.Int, reflect.Int8, reflect.Int16, reflect.Int32, reflect.Int64:
		return rv.Int()
	case reflect.Uint, reflect.Uint8, reflect.Uint16, reflect.Uint32, reflect.Uint64:
		return int64(rv.Uint())
	case reflect.Float32, reflect.Float64:
		f := rv.Float()
		if f != f || f > 9e18 || f < -9e18 {
			return 0
		}
		return int64(f)
	case reflect.Slice, reflect.Array:
		return int64(rv.Len())
	}
	return 0
}

// carriers of a (value, rules) pair: the four entry points (DESIGN.md C18)
const (
	carVar = iota
	carStruct
	carStructTag
	carMap
	carMapIface
	carSliceMap
	carUrl
	carCount
)

var carrierNames = []string{"var", "struct-rm", "struct-tag", "map", "map-iface", "slice-of-map", "url"}

func oneOf(v interface{}) interface{} {
	// &One[T]{F: v} for the dynamic type of v
	switch x := v.(type) {
	case string:
		return &One[string]{x}
	case int:
		return &One[int]{x}
	case int8:
		return &One[int8]{x}
	case int16:
		return &One[int16]{x}
	case int32:
		return &One[int32]{x}
	case int64:
		return &One[int64]{x}
	case uint:
		return &One[uint]{x}
	case uint8:
		return &One[uint8]{x}
	case uint16:
		return &One[uint16]{x}
	case uint32:
		return &One[uint32]{x}
	case uint64:
		return &One[uint64]{x}
	case float32:
		return &One[float32]{x}
	case float64:
		return &One[float64]{x}
	case bool:
		return &One[bool]{x}
	case []int:
		return &One[[]int]{x}
	case []string:
		return &One[[]string]{x}
	case []uint8:
		return &One[[]uint8]{x}
	case []int8:
		return &One[[]int8]{x}
	case []float64:
		return &One[[]float64]{x}
	case []bool:
		return &One[[]bool]{x}
	case [3]int:
		return &One[[3]int]{x}
	case NI8:
		return &One[NI8]{x}
	case NI16:
		return &One[NI16]{x}
	case NI32:
		return &One[NI32]{x}
	case NI64:
		return &One[NI64]{x}
	case NI:
		return &One[NI]{x}
	case NU8:
		return &One[NU8]{x}
	case NU16:
		return &One[NU16]{x}
	case NU32:
		return &One[NU32]{x}
	case NU64:
		return &One[NU64]{x}
	case NU:
		return &One[NU]{x}
	case NF32:
		return &One[NF32]{x}
	case NF64:
		return &One[NF64]{x}
	}
	panic(fmt.Sprintf("oneOf: %T", v))
}

func mapOf(v interface{}, key string) interface{} {
	m := reflect.MakeMap(reflect.MapOf(reflect.TypeOf(""), reflect.TypeOf(v)))
	m.SetMapIndex(reflect.ValueOf(key), reflect.ValueOf(v))
	return m.Interface()
}

func structTagOf(v interface{}, rules string) interface{} {
	t := reflect.StructOf([]reflect.StructField{{Name: "F", Type: reflect.TypeOf(v), Tag: reflect.StructTag("valid:" + strconv.Quote(rules))}})
	p := reflect.New(t)
	p.Elem().Field(0).Set(reflect.ValueOf(v))
	return p.Interface()
}

// carrierCase runs (value, rules) through one carrier. ok=false when the carrier cannot carry it.
func carrierCase(r *rand.Rand, carrier int, v interface{}, rules []string, tags []string, probeRule string) (Case, bool) {
	joined := strings.Join(rules, ",")
	probe := ""
	if probeRule != "" {
		probe = " " + N("probe", X(carrierNames[carrier]), X(probeRule), encodeValue(reflect.ValueOf(v)))
	}
	tags = append(append([]string{}, tags...), "carrier:"+carrierNames[carrier])
	switch carrier {
	case carVar:
		return varCase(v, rules, tags, probe), true
	case carStruct:
		return structCall{src: oneOf(v), outer: valid.RM{"F": joined}}.toCase(tags, probe), true
	case carStructTag:
		if strings.ContainsAny(joined, "\x00") {
			return Case{}, false
		}
		return structCall{src: structTagOf(v, joined)}.toCase(tags, probe), true
	case carMap:
		return mapCase(mapOf(v, "k"), valid.RM{"k": joined}, nil, tags, probe), true
	case carMapIface:
		return mapCase(map[string]interface{}{"k": v}, valid.RM{"k": joined}, nil, tags, probe), true
	case carSliceMap:
		s := reflect.MakeSlice(reflect.SliceOf(reflect.MapOf(reflect.TypeOf(""), reflect.TypeOf(v))), 0, 1)
		s = reflect.Append(s, reflect.ValueOf(mapOf(v, "k")))
		return mapCase(s.Interface(), valid.RM{"k": joined}, nil, tags, probe), true
	case carUrl:
		s, isStr := v.(string)
		if !isStr {
			return Case{}, false
		}
		u := "http://h.io/p?"
		enc := url.QueryEscape(s)
		if chance(r, 0.3) && !strings.ContainsAny(s, "&=%+?# ") {
			enc = s // raw
		}
		params := []string{"k=" + enc}
		if chance(r, 0.5) {
			params = append(params, "z=1")
		}
		if chance(r, 0.5) {
			params = append([]string{"a=" + url.QueryEscape(randString(r, 3))}, params...)
		}
		return urlCase(u+strings.Join(params, "&"), valid.RM{"k": joined}, tags, probe), true
	}
	return Case{}, false
}
