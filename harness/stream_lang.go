package main

import (
	"math/rand/v2"
	"strings"
	"time"

	"gitee.com/xuesongtao/protoc-go-valid/valid"
)

// C05: every format / content rule on members of its language, single-rune edits of members
// (near-misses are dense) and random strings; the implementation's verdict is judged against the
// independent recogniser of lean/PGV/Spec/Lang.lean, its whole error string against the model.

var langRules = []string{"phone", "email", "idcard", "int", "float", "year", "year2month", "date", "datetime", "in", "include", "ints", "unique", "prefix", "suffix", "ip", "ipv4", "ipv6", "json", "re"}

var okSeps = []string{"-", "/", ".", ":", " ", "+", "_", "#", "--", ""}

func langValue(r *rand.Rand, fam string) string {
	pool := fam
	switch fam {
	case "in", "include", "suffix":
		pool = "prefix"
	case "ipv4", "ipv6":
		pool = "ip"
	}
	s := fmtString(r, pool)
	for i := 0; i < 3 && chance(r, 0.25); i++ {
		s = mutate(r, s)
	}
	if chance(r, 0.05) {
		s = randString(r, 8)
	}
	return s
}

func langCase(r *rand.Rand) Case {
	for {
		fam := pick(r, langRules)
		v := langValue(r, fam)
		rule := fam
		switch fam {
		case "year2month", "date":
			if chance(r, 0.6) {
				sep := pick(r, okSeps)
				if chance(r, 0.1) {
					sep = pick(r, []string{"年", "a", "1", "T", "Jan", "_2", ".0"})
				}
				// the value is re-punctuated with the separator half of the time
				if chance(r, 0.6) {
					v = strings.NewReplacer("-", sep, "/", sep).Replace(v)
					if sep != "" && chance(r, 0.1) {
						v = strings.Replace(v, sep, sep+sep, 1) // a doubled separator (runs of spaces!)
					}
				}
				rule += "=" + quoteIf(r, sep)
			}
		case "datetime":
			if chance(r, 0.6) {
				n := 1 + r.IntN(3)
				var seps []string
				for i := 0; i < n; i++ {
					seps = append(seps, pick(r, okSeps[:9]))
				}
				if chance(r, 0.5) {
					d, t, c := seps[0], " ", ":"
					if n > 1 {
						t = seps[1]
					}
					if n > 2 {
						c = seps[2]
					}
					base := pick(r, []string{"2022-11-09 09:05:00", "2024-02-29 23:59:59", "2023-02-29 00:00:00", "2022-11-09 24:00:00", "2022-11-09 9:05:00", "2022-11-09 09:05:00.123"})
					v = strings.NewReplacer("-", d, " ", t, ":", c).Replace(base)
					if chance(r, 0.3) {
						v = mutate(r, v)
					}
				}
				rule += "='" + strings.Join(seps, ",") + "'"
			}
		case "in", "include":
			opts := []string{}
			for i, n := 0, 1+r.IntN(3); i < n; i++ {
				opts = append(opts, pick(r, []string{"abc", "ab", "x", "a/b", "'a/b'", "中文", "abd", "1", ""}))
			}
			if chance(r, 0.4) {
				o := v
				if strings.Contains(o, "/") {
					o = "'" + o + "'"
				}
				if !strings.ContainsAny(o, "()") || chance(r, 0.3) {
					opts[r.IntN(len(opts))] = o
				}
			}
			rule += "=(" + strings.Join(opts, "/") + ")"
		case "ints":
			if chance(r, 0.5) {
				sep := pick(r, []string{",", "-", "/", " ", "ab", "--"})
				if chance(r, 0.5) {
					v = strings.ReplaceAll(v, ",", sep)
				}
				rule += "=" + quoteIf(r, sep)
			}
		case "prefix", "suffix":
			rule += "=" + pick(r, []string{"ab", "abc", "中", "x", "bc", "c"})
		case "re":
			rule += "='" + pick(r, []string{`^\d+$`, `^[a-z]+$`, `it\'s`, `a,b`, `^.{2,4}$`, `a|b`}) + "'"
		}
		rule = withMsg(r, rule, ruleOpts{pMsg: 0.25})
		carrier := pick(r, []int{carVar, carVar, carStruct, carStructTag, carMap, carUrl})
		if cs, ok := carrierCase(r, carrier, v, []string{rule}, []string{"rule:" + fam}, rule); ok {
			return cs
		}
	}
}

// lang-exh: EVERY string over a small alphabet up to a length bound under the rules whose languages are
// made of these characters (no sampling: an off-by-one in a pattern or a splitter has no untried short input)
var langExhAlphabet = []byte{'0', '1', '9', '.', ',', '-', 'x', ' '}
var langExhRules = []string{"int", "float", "ints", "ints=-", "unique", "in=(1/10/0.1)", "prefix=1", "suffix=.0", "year", "ip", "ipv4"}

func langExhLen(tier string) int {
	if tier == "thorough" {
		return 6
	}
	return 4
}

func langExhString(i, n int) string {
	k := len(langExhAlphabet)
	for l, cnt := 1, k; l <= n; l, cnt = l+1, cnt*k {
		if i < cnt {
			b := make([]byte, l)
			for j := l - 1; j >= 0; j-- {
				b[j] = langExhAlphabet[i%k]
				i /= k
			}
			return string(b)
		}
		i -= cnt
	}
	return "0"
}

func langExhCount(n int) int {
	t, c := 0, len(langExhAlphabet)
	for l := 1; l <= n; l++ {
		t += c
		c *= len(langExhAlphabet)
	}
	return t
}

func init() {
	register(&Stream{
		Name: "lang-exh",
		Rule: "exhaustive: every non-empty string over {0 1 9 . , - x blank} up to length 4 (quick) / 6 (thorough) under int, float, ints (default and custom separator), unique, in, prefix, suffix, year, ip, ipv4 through Var; verdict judged against Spec.Lang, text against the model. non-trivial: the rule was violated; distinct by request",
		EnumSize: func(tier string) int { return len(langExhRules) * langExhCount(langExhLen(tier)) },
		Enum: func(i int, tier string) Case {
			rule := langExhRules[i%len(langExhRules)]
			v := langExhString(i/len(langExhRules), langExhLen(tier))
			fam := rule
			if j := strings.IndexByte(rule, '='); j >= 0 {
				fam = rule[:j]
			}
			cs, _ := carrierCase(caseRand(7, "lang-exh", i), carVar, v, []string{rule}, []string{"rule:" + fam}, rule)
			return cs
		},
	})
	register(&Stream{
		Name: "lang",
		Rule: "each format / content rule (phone email idcard int float year year2month date datetime in include ints unique prefix suffix ip ipv4 ipv6 json re) x members of its language, " +
			"1-3 single-rune edits of members (insert / delete / replace / transpose over digits, letters, CJK, punctuation, separators, quotes, NUL, newline, full-width digits) and random strings; " +
			"date separators from punctuation incl. empty and layout-significant ones (out of scope); through Var / Struct / Map / Url. The verdict is judged against Spec.Lang, the whole error string against the model. " +
			"non-trivial: the rule was violated; distinct by request",
		Size: map[string]int{"quick": 60000, "thorough": 1200000},
		Gen:  func(r *rand.Rand, tier string) Case { return langCase(r) },
	})
}

// timeparse: the hand transcription of time.Parse + Format back (lean/PGV/Model/TimeParse.lean) against the standard
// library itself, on layouts far beyond those GetTimeFmt builds.  No code of the repository runs here: the stream
// validates a piece of the trusted base (the model of the standard library the date theorems are about).
var tpLayoutPieces = []string{"2006", "01", "02", "15", "04", "05", "2006", "01", "02", "15", "04", "05",
	"-", "/", " ", "  ", ":", ".", ",", "_", "+", "#", "T", "年", "Jan", "Mon", "MST", "1", "2", "3", "4", "5", "PM", "pm", "-07", "-0700", "Z07", ".000", ".999", ",000",
	"x", "06", "03", "002", "_2", "__2", "0", "9", ".0", ".00x", "J", "M", "Z", "-", "--", "-0", "20", "200", "2006"}

func timeparseCase(r *rand.Rand) Case {
	var layout string
	switch r.IntN(4) {
	case 0:
		layout = valid.GetTimeFmt(pick(r, []int8{valid.YearFmt, valid.YearFmt | valid.MonthFmt, valid.DateFmt, valid.DateTimeFmt, valid.DateFmt | valid.HourFmt, valid.HourFmt | valid.MinFmt | valid.SecFmt}), pick(r, dateSeps), pick(r, dateSeps), pick(r, dateSeps))
	default:
		layout = randFrom(r, tpLayoutPieces, 0, 8)
	}
	tm := time.Date(pick(r, []int{0, 1, 99, 1996, 2000, 2024, 2023, 1900, 9999}), time.Month(1+r.IntN(12)), 1+r.IntN(31), r.IntN(24), r.IntN(60), r.IntN(60), 0, time.UTC)
	v := tm.Format(layout)
	if chance(r, 0.1) {
		v = pick(r, []string{"2023-02-29", "2024-02-29", "1900-02-29", "2000-02-29", "2024-04-31", "2024-13-01", "2024-00-10", "2024-01-00", "2024-01-32", "2024-01-01 24:00:00", "2024-01-01 23:60:00", "2024-01-01 23:59:60"})
	}
	for k := r.IntN(3); k > 0; k-- {
		if len(v) == 0 {
			break
		}
		i := r.IntN(len(v))
		switch r.IntN(7) {
		case 0:
			v = v[:i] + v[i+1:]
		case 1:
			v = v[:i] + pick(r, []string{"0", "1", "9", " ", "-", ":", ".", ",", "x", "+"}) + v[i:]
		case 2:
			v = v[:i] + pick(r, []string{"0", "3", "9", " ", "-"}) + v[i+1:]
		case 3:
			v += pick(r, []string{".5", ",25", ".", " ", "0", ".123456789012"})
		case 4:
			v = strings.Replace(v, " ", "  ", 1)
		case 5:
			v = strings.Replace(v, " 0", " ", 1)
		case 6:
			v = strings.Replace(v, "  ", " ", 1)
		}
	}
	ok := false
	func() {
		defer func() { _ = recover() }()
		t, err := time.Parse(layout, v)
		ok = err == nil && t.Format(layout) == v
	}()
	impl := "f"
	if ok {
		impl = "t"
	}
	return Case{Op: "timeparse " + X(layout) + " " + X(v), Impl: impl, Tags: []string{"tp:" + impl}, Nontrivial: ok}
}

func init() {
	register(&Stream{
		Name: "timeparse",
		Rule: "layouts made of 0-8 pieces (the six numeric elements, separators of every kind, every other layout keyword and near-keywords) or built by GetTimeFmt; values: a random instant formatted with the layout, impossible dates, then 0-2 edits (drop / insert / replace a byte, a fraction, doubled or halved blanks, one-digit hour). The standard library's time.Parse + Format back is compared with the transcription; layouts with an element the transcription does not know are counted out of scope. non-trivial: accepted; distinct by request",
		Size: map[string]int{"quick": 60000, "thorough": 1500000},
		Gen:  func(r *rand.Rand, tier string) Case { return timeparseCase(r) },
	})
}
