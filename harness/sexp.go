package main

import (
	"encoding/hex"
	"strconv"
	"strings"
)

// wire format helpers (see lean/PGV/Basic.lean)

func X(s string) string { return "x" + hex.EncodeToString([]byte(s)) }
func I(n int64) string  { return "#" + strconv.FormatInt(n, 10) }
func U(n uint64) string { return "#" + strconv.FormatUint(n, 10) }
func N(tag string, args ...string) string {
	if len(args) == 0 {
		return "(" + tag + ")"
	}
	return "(" + tag + " " + strings.Join(args, " ") + ")"
}
func L(args ...string) string { return N("l", args...) }
func XL(ss []string) string {
	out := make([]string, len(ss))
	for i, s := range ss {
		out[i] = X(s)
	}
	return L(out...)
}
func OptX(s *string) string {
	if s == nil {
		return "nil"
	}
	return X(*s)
}
func B(v bool) string {
	if v {
		return "#1"
	}
	return "#0"
}

// unhex a model reply atom for human-readable reports
func prettySexp(s string) string {
	var sb strings.Builder
	toks := strings.FieldsFunc(strings.NewReplacer("(", " ( ", ")", " ) ").Replace(s), func(r rune) bool { return r == ' ' })
	for i, t := range toks {
		if i > 0 && t != ")" && toks[i-1] != "(" {
			sb.WriteByte(' ')
		}
		if len(t) > 0 && t[0] == 'x' {
			if bs, err := hex.DecodeString(t[1:]); err == nil {
				sb.WriteString(strconv.Quote(string(bs)))
				continue
			}
		}
		sb.WriteString(t)
	}
	return sb.String()
}

func unhex(h string) string {
	b, err := hex.DecodeString(h)
	if err != nil {
		return ""
	}
	return string(b)
}
