package main

import (
	"math/rand/v2"
	"reflect"
	"strconv"
)

// C01: size/comparison rules.

func sizeCase(r *rand.Rand, carrier int, v interface{}, rule string) (Case, bool) {
	k := reflect.TypeOf(v).Kind().String()
	tags := []string{"kind:" + k, "rule:" + rule[:indexAny(rule, "=|")]}
	return carrierCase(r, carrier, v, []string{rule}, tags, rule)
}

func indexAny(s, chars string) int {
	for i := 0; i < len(s); i++ {
		for j := 0; j < len(chars); j++ {
			if s[i] == chars[j] {
				return i
			}
		}
	}
	return len(s)
}

// the exhaustive window: all int8 and all uint8 values x 8 rules x bounds.
var exhBoundsOne = func() []int64 {
	var b []int64
	for x := int64(-130); x <= 260; x++ {
		b = append(b, x)
	}
	return b
}()

func exhPairs(v int64) [][2]int64 {
	cands := []int64{v - 1, v, v + 1, -1, 0, 1, 127, 128, 255, 256}
	var ps [][2]int64
	for _, a := range cands {
		for _, c := range cands {
			ps = append(ps, [2]int64{a, c})
		}
	}
	for a := int64(-3); a <= 3; a++ {
		for c := int64(-3); c <= 3; c++ {
			ps = append(ps, [2]int64{a, c})
		}
	}
	return ps
}

// size of the exhaustive enumeration: for each of 512 values: 6 one-bound rules x 391 bounds + 2 two-bound rules x 149 pairs
const exhPerValue = 6*391 + 2*149

func sizeExh(i int, tier string) Case {
	vi := i / exhPerValue
	j := i % exhPerValue
	var v interface{}
	var m int64
	if vi < 256 {
		v, m = int8(vi-128), int64(vi-128)
	} else {
		v, m = uint8(vi-256), int64(vi-256)
	}
	var rule string
	if j < 6*391 {
		name := []string{"ge", "le", "gt", "lt", "eq", "noeq"}[j/391]
		rule = name + "=" + strconv.FormatInt(exhBoundsOne[j%391], 10)
	} else {
		j -= 6 * 391
		name := []string{"to", "oto"}[j/149]
		p := exhPairs(m)[j%149]
		rule = name + "=" + strconv.FormatInt(p[0], 10) + "~" + strconv.FormatInt(p[1], 10)
	}
	// a stratified tenth goes through the other carriers
	carrier := carVar
	if i%10 == 3 {
		carrier = []int{carStruct, carStructTag, carMap, carSliceMap}[(i/10)%4]
	}
	cs, _ := sizeCase(nil, carrier, v, rule)
	return cs
}

func init() {
	register(&Stream{
		Name: "size",
		Rule: "size rules to/ge/le/oto/gt/lt/eq/noeq x kinds {string (ASCII, 2/3/4-byte runes, invalid UTF-8), int8..int64, uint8..uint64, float32/64 " +
			"(±ulp, ±Inf, NaN, -0, subnormal, 2^53 neighbourhood), slices} x bounds at measure-1/measure/measure+1 and boundary constants (min>max included), " +
			"through Var/Struct(RM)/Struct(tag)/Map/Map(interface{})/[]Map/Url; malformed arguments at low weight. non-trivial: the call returned an error; distinct by request",
		Size: map[string]int{"quick": 120000, "thorough": 1500000},
		Gen: func(r *rand.Rand, tier string) Case {
			for {
				around := int64(r.IntN(12)) - 3
				if chance(r, 0.3) {
					around = pick(r, boundaryInts)
				}
				var v interface{}
				if chance(r, 0.15) {
					v = sliceNear(r, around)
				} else {
					v = scalarNear(r, pick(r, scalarKinds[:13]), around)
				}
				rule := sizeRuleNear(r, measureOf(v))
				if chance(r, 0.1) {
					v = asDefinedType(v) // a defined type (type Level int8) is measured like its underlying type
				}
				carrier := r.IntN(carCount)
				if chance(r, 0.4) {
					carrier = carVar
				}
				if cs, ok := sizeCase(r, carrier, v, rule); ok {
					return cs
				}
			}
		},
	})
	register(&Stream{
		Name: "iface-probe",
		Rule: "required and size rules on one (rule, value) pair carried by map[string]interface{} / map[string]T / Var / Struct: the verdict is judged against the spec " +
			"(required: violated iff the value is empty). non-trivial: the call returned an error; distinct by request",
		Size: map[string]int{"quick": 6000, "thorough": 100000},
		Gen: func(r *rand.Rand, tier string) Case {
			for {
				var v interface{}
				switch r.IntN(4) {
				case 0:
					v = ""
				case 1:
					v = scalarNear(r, pick(r, scalarKinds), 0)
				default:
					v = scalarNear(r, pick(r, scalarKinds), int64(r.IntN(6)))
				}
				rule := "required" + randMsg(r)
				if chance(r, 0.4) {
					rule = sizeRuleNear(r, measureOf(v))
				}
				carrier := pick(r, []int{carMapIface, carMapIface, carMap, carVar, carStruct, carSliceMap})
				k := reflect.TypeOf(v).Kind().String()
				if cs, ok := carrierCase(r, carrier, v, []string{rule}, []string{"kind:" + k}, rule); ok {
					return cs
				}
			}
		},
	})
	register(&Stream{
		Name: "size-exh",
		Rule: "EXHAUSTIVE window: all 256 int8 and all 256 uint8 values x {ge,le,gt,lt,eq,noeq} x every bound in [-130,260] and x {to,oto} x " +
			"{v-1,v,v+1,-1,0,1,127,128,255,256}^2 ∪ [-3,3]^2 (min>max included), through Var; every tenth case through Struct/Map carriers. " +
			"non-trivial: the rule was violated; distinct by request",
		EnumSize: func(tier string) int {
			if tier == "thorough" {
				return 512 * exhPerValue
			}
			return 512 * exhPerValue / 8 // quick: every 8th case (strided below)
		},
		Enum: func(i int, tier string) Case {
			if tier != "thorough" {
				i = i*8 + (i/1000)%8
			}
			return sizeExh(i, tier)
		},
	})
}

// defined numeric types: the verdict depends on the kind, not on the type's name
type (
	NI8  int8
	NI16 int16
	NI32 int32
	NI64 int64
	NI   int
	NU8  uint8
	NU16 uint16
	NU32 uint32
	NU64 uint64
	NU   uint
	NF32 float32
	NF64 float64
)

func asDefinedType(v interface{}) interface{} {
	switch x := v.(type) {
	case int8:
		return NI8(x)
	case int16:
		return NI16(x)
	case int32:
		return NI32(x)
	case int64:
		return NI64(x)
	case int:
		return NI(x)
	case uint8:
		return NU8(x)
	case uint16:
		return NU16(x)
	case uint32:
		return NU32(x)
	case uint64:
		return NU64(x)
	case uint:
		return NU(x)
	}
	// (defined float types are left out: the wire names a number by its kind, and fmt renders a defined float with %v
	// where the library renders a float64 with FormatFloat — the message echo would differ for large values)
	return v
}
