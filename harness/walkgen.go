package main

import (
	"errors"
	"fmt"
	"math"
	"math/rand/v2"
	"net/url"
	"os"
	"reflect"
	"strconv"
	"strings"
	"time"

	"gitee.com/xuesongtao/protoc-go-valid/valid"
)

// Generators of struct types, values, rule lists and calls for the walker streams
// (C02, C03, C04, C13, C16, C17, C18).  Types are synthesised with reflect.StructOf (any shape,
// unexported fields via PkgPath, several tag names) and mixed with the named types below (type
// names in paths, SetRule(rm, &T{})).

// ---- named types -------------------------------------------------------------------------------

type Leaf struct {
	Name  string  `valid:"required,to=1~5" alipay:"phone|bad phone"`
	Age   int8    `valid:"ge=0,le=120" alipay:"required"`
	Score float32 `valid:"oto=0~100"`
	Tags  []string `valid:"le=3,unique"`
	note  string
}

type Mid struct {
	Leaf   Leaf             `valid:"required" alipay:"exist"`
	PLeaf  *Leaf            `valid:"required|need pleaf"`
	Leaves []*Leaf          `valid:"exist" alipay:"required"`
	ByName map[string]Leaf  `valid:"exist"`
	ByID   map[int]*Leaf    `valid:"required"`
	Arr    [2]Leaf          `valid:"exist"`
	When   time.Time        `valid:"required"`
	PWhen  *time.Time       `valid:"required"`
	Plain  Leaf             // unmarked: never validated
	Kind   string           `valid:"in=(a/b/c)" wechat:"required"`
	A      string           `valid:"either=1"`
	B      int              `valid:"either=1"`
	P1     string           `valid:"botheq=2"`
	P2     string           `valid:"botheq=2"`
}

type Top struct {
	ID    uint32  `valid:"required,gt=0"`
	Mid   *Mid    `valid:"required"`
	Mids  []Mid   `valid:"exist"`
	PP    **Leaf  `valid:"exist"`
	Édit  string  `valid:"required|non-ascii exported"`
	Email string  `valid:"email"`
	C     string  `valid:"either=x"`
	D     string  `valid:"either=x"`
}

// Node is a recursive type: chains of any depth (the walker has no depth bound).
type Node struct {
	V    string  `valid:"required"`
	N    int     `valid:"le=5"`
	Next *Node   `valid:"exist"`
	Kids []*Node `valid:"exist"`
}

// Dept / Team refer to each other (mutual recursion): Team carries nothing but links (bare `exist`), and
// Dept's link field is declared in front of its first field with a rule.
type Dept struct {
	Teams []*Team         `valid:"exist"`
	Name  string          `valid:"required"`
	ByKey map[string]Team `valid:"exist"`
}

type Team struct {
	Dept *Dept   `valid:"exist"`
	Subs []*Team `valid:"exist"`
}

// embedding: an exported base (its fields are NOT promoted for validation: the embedded field is an ordinary field named
// after its type) and a package-private base (an unexported field: never looked at)
type Base struct {
	Name string `valid:"required,to=1~4"`
	Ids  []int  `valid:"unique"`
}

type pbase struct {
	Ids  []int  `valid:"unique"`
	Code string `valid:"int"`
}

type Order struct {
	Base  `valid:"required"`
	Name  string `valid:"required"`
	Extra *Base  `valid:"exist"`
}

type Priv struct {
	pbase `valid:"required"`
	X     string `valid:"required"`
}

// KS is a named string type (map keys of kind string that are not `string`).
type KS string

// two DISTINCT struct types that print alike ("main.Line"): function-local types of the same name.
// A rule set registered for one of them must not reach the other.
func lineTypeA() reflect.Type {
	type Line struct {
		Name string `valid:"required"`
		Qty  int    `valid:"to=1~5"`
	}
	return reflect.TypeOf(Line{})
}

func lineTypeB() reflect.Type {
	type Line struct {
		Name string `valid:"to=2~4"`
		Qty  int
		Note string `valid:"required"`
	}
	return reflect.TypeOf(Line{})
}

var lookAlikeTypes = []reflect.Type{lineTypeA(), lineTypeB()}

func chain(r *rand.Rand, depth int) *Node {
	var head *Node
	for i := 0; i < depth; i++ {
		n := &Node{V: pick(r, []string{"a", "a", "a", ""}), N: r.IntN(8), Next: head}
		if i == 0 || chance(r, 0.02) {
			n.V = ""
		}
		head = n
	}
	return head
}

// ---- strings for format rules ------------------------------------------------------------------

var fmtPools = map[string][]string{
	"phone":      {"13812345678", "19912345678", "12812345678", "1381234567", "138123456789", "1,123456789", "23812345678", "1381234567a"},
	"email":      {"a@b.co", "a.b-c+d@x-y.z.io", "a@b", "@b.co", "a@.co", "a..b@c.d", "a@b..c", "a_1@b_2.c_3", "a@b.c.", "é@b.co", "a b@c.d"},
	"idcard":     {"123456789012345", "123456789012345678", "12345678901234567X", "12345678901234567x", "1234567890123456", "12345678901234567Y", "X23456789012345678"},
	"year":       {"2022", "0000", "999", "20222", "abcd", "２０２２"},
	"year2month": {"2022-11", "2022-13", "2022-1", "2022/11", "202211", "2022-00"},
	"date":       {"2022  11 09", "2022 11 09", "2022-11-09", "2022-02-30", "2024-02-29", "2023-02-29", "2022/11/09", "2022-11-9", "20221109", "2022-11-09 ", "2022.11.09"},
	"datetime":   {"2022-11-09  9:05:00", "2022-11-09 09:05:00", "2022-11-09 9:05:00", "2022-11-09 09:05:00.123", "2022-11-09 24:00:00", "2022-11-09 23:59:60", "2022/11/09 09:05:00", "2022-11-09T09:05:00", "2022-11-09 09:05", "2022-11-09  09:05:00"},
	"int":        {"0", "123", "007", "-1", "+1", "12a", "1.0", " 1", "١٢٣", "9999999999999999999999"},
	"ints":       {"1,2,3", "1,2,", ",1", "1,,2", "1-2-3", "1, 2", "a,b", "10", "1/2/3"},
	"float":      {"1.5", "0.0", "1x5", ".5", "1.", "1.5.5", "-1.5", "1e5", "15", "1．5"},
	"ip":         {"1.2.3.4", "255.255.255.255", "256.1.1.1", "01.2.3.4", "1.2.3", "::1", "fe80::1", "::ffff:1.2.3.4", "0:0:0:0:0:ffff:102:304", "1.2.3.4.5", "fe80::1%eth0", "::g"},
	"unique":     {"1,2,3", "1,2,2", "a,b,a", "a", "a,,", ",", "a,A"},
	"json":       {"{'a':1}", "{\"a\":\"\x00\n\r\t\x1a\\\"}", "[" + strings.Repeat("1,", 200) + "1", "[" + strings.Repeat("1,", 200) + "1]", `{"a":1}`, `[1,2]`, `[1,2`, `null`, `"x"`, `{a:1}`, `1`, ``, ` {} `, `{"a":"é"}`},
	"prefix":     {"abc", "abd", "ab", "xabc", "abcabc", "中文", "中"},
	"path":       {"/tmp", "/etc/hostname", "/nonexistent/x", "/etc", ".", "", "/dev/null", "/etc/hostname/", "/etc/hostname/.", "/nonexistent/../etc/hostname", "/etc/hostname/../hostname", "/nonexistent/..", "/etc/hostname/../../tmp", "/etc//", "/etc/.", "/etc/../etc/hostname"},
	"re":         {"123", "abc", "a1", "it's", "a,b", "", "12345", "a\\'b", "a'b", "a\\b", "a\\\\'b"},
}

var mutateRunes = []string{"0", "9", "a", "X", "x", "中", " ", "-", "/", ":", ".", ",", "'", "@", "+", "_", "\x00", "\n", "１", "|", "="}

func mutate(r *rand.Rand, s string) string {
	rs := []rune(s)
	switch r.IntN(4) {
	case 0: // insert
		i := r.IntN(len(rs) + 1)
		ins := []rune(pick(r, mutateRunes))
		rs = append(rs[:i:i], append(ins, rs[i:]...)...)
	case 1: // delete
		if len(rs) > 0 {
			i := r.IntN(len(rs))
			rs = append(rs[:i:i], rs[i+1:]...)
		}
	case 2: // replace
		if len(rs) > 0 {
			i := r.IntN(len(rs))
			rs[i] = []rune(pick(r, mutateRunes))[0]
		}
	case 3: // transpose
		if len(rs) > 1 {
			i := r.IntN(len(rs) - 1)
			rs[i], rs[i+1] = rs[i+1], rs[i]
		}
	}
	return string(rs)
}

// a string aimed at the rule family `fam` ("" = any)
func fmtString(r *rand.Rand, fam string) string {
	pool, ok := fmtPools[fam]
	if !ok {
		keys := []string{"phone", "email", "idcard", "year", "year2month", "date", "datetime", "int", "ints", "float", "ip", "unique", "json", "prefix", "path", "re"}
		pool = fmtPools[pick(r, keys)]
	}
	s := pick(r, pool)
	if chance(r, 0.3) {
		s = mutate(r, s)
	}
	return s
}

// ---- rules -------------------------------------------------------------------------------------

type ruleOpts struct {
	pMsg       float64 // custom message
	pMalformed float64
	pUnknown   float64
	pCustom    float64 // lcustom / gcustom / gshadow / shadowed builtin
	pGroup     float64
	pNesting   float64 // required / exist
	pEmptyItem float64
}

var defaultRuleOpts = ruleOpts{pMsg: 0.3, pMalformed: 0.04, pUnknown: 0.04, pCustom: 0.06, pGroup: 0.08, pNesting: 0.25, pEmptyItem: 0.05}

var malformedRules = []string{"to=", "to=1", "to=a~b", "oto=1~2~3", "ge=", "ge=x", "in=", "in=)(", "in=(", "in=()", "include=(a", "re=", "re='", "re='a", "re='[a'",
	"datetime='a,b,c,d'", "datetime=','", "date=''", "ints=''", "=", "=5", "|msg", "required=", "exist=1", "either", "either=", "botheq", "eq=", "eq=1.5", "unique=x", "float=1", "prefix=", "suffix"}

func withMsg(r *rand.Rand, rule string, o ruleOpts) string {
	if chance(r, o.pMsg) {
		m := randMsg(r)
		if m == "" {
			m = "|msg"
		}
		return rule + m
	}
	return rule
}

func quoteIf(r *rand.Rand, s string) string {
	if strings.ContainsAny(s, ",") || chance(r, 0.3) {
		return "'" + s + "'"
	}
	return s
}

var dateSeps = []string{"-", "/", ".", "", ":", " ", "_", "+", ",", "T", "--", "年"}

// one rule item for a field whose type has kind k (value-aware where v is valid)
func randRuleItem(r *rand.Rand, k reflect.Kind, v reflect.Value, o ruleOpts) string {
	x := r.Float64()
	switch {
	case x < o.pMalformed:
		return pick(r, malformedRules)
	case x < o.pMalformed+o.pUnknown:
		return withMsg(r, pick(r, []string{"nosuch", "Required", "to2", "phone ", " phone", "len", "max=3"}), o)
	case x < o.pMalformed+o.pUnknown+o.pCustom:
		return withMsg(r, pick(r, []string{"lcustom", "lcustom=1", "gcustom", "gshadow=x", "lshadow"}), o)
	case x < o.pMalformed+o.pUnknown+o.pCustom+o.pGroup:
		return withMsg(r, pick(r, []string{"either", "botheq"})+"="+pick(r, []string{"1", "1", "2", "g"}), o)
	case x < o.pMalformed+o.pUnknown+o.pCustom+o.pGroup+o.pNesting:
		return withMsg(r, pick(r, []string{"required", "required", "exist"}), o)
	}
	m := int64(r.IntN(8))
	if v.IsValid() && !v.CanInterface() {
		v = reflect.Value{}
	}
	if v.IsValid() {
		m = measureOf(v.Interface())
	}
	str := k == reflect.String
	fam := r.IntN(10)
	if !str && fam >= 4 {
		fam = r.IntN(6)
	}
	switch fam {
	case 0, 1, 2:
		return sizeRuleNear(r, m)
	case 3:
		// in / include
		var opts []string
		for i, n := 0, 1+r.IntN(3); i < n; i++ {
			opts = append(opts, pick(r, []string{"a", "b", "1", "2", "0", "true", "1.5", "ab", "中", "", "x/y", "3"}))
		}
		if v.IsValid() && chance(r, 0.5) {
			s := fmt.Sprint(v.Interface())
			if len(s) < 12 {
				if strings.Contains(s, "/") {
					s = "'" + s + "'"
				}
				opts[r.IntN(len(opts))] = s
			}
		}
		key := "in"
		if chance(r, 0.35) {
			key = "include"
		}
		return withMsg(r, key+"=("+strings.Join(opts, "/")+")", o)
	case 4:
		return withMsg(r, pick(r, []string{"int", "float", "unique", "ints"}), o)
	case 5:
		if chance(r, 0.5) {
			return withMsg(r, "ints="+quoteIf(r, pick(r, []string{",", "-", "/", " ", "ab"})), o)
		}
		return withMsg(r, pick(r, []string{"int", "float", "unique"}), o)
	case 6:
		return withMsg(r, pick(r, []string{"phone", "email", "idcard", "ip", "ipv4", "ipv6", "json", "year"}), o)
	case 7:
		switch r.IntN(4) {
		case 0:
			return withMsg(r, "year2month"+optArg(r, quoteIf(r, pick(r, dateSeps))), o)
		case 1:
			return withMsg(r, "date"+optArg(r, quoteIf(r, pick(r, dateSeps))), o)
		default:
			n := r.IntN(4)
			if n == 0 {
				return withMsg(r, "datetime", o)
			}
			var seps []string
			for i := 0; i < n; i++ {
				seps = append(seps, pick(r, dateSeps[:10]))
			}
			return withMsg(r, "datetime='"+strings.Join(seps, ",")+"'", o)
		}
	case 8:
		p := pick(r, []string{`\d+`, `^\d+$`, `^[a-z]+$`, `it\'s`, `a,b`, `^.{2,4}$`, `[`, `a|b`, `中`, ``, `^a\\\'b$`, `^a\\'b$`, `a\\b`, `\Qa\'b\E`, `[^\']+`})
		return withMsg(r, "re='"+p+"'", o)
	default:
		switch r.IntN(4) {
		case 0:
			return withMsg(r, "prefix="+pick(r, []string{"ab", "abc", "中", "x", ""}), o)
		case 1:
			return withMsg(r, "suffix="+pick(r, []string{"bc", "abc", "文", "x", ""}), o)
		case 2:
			return withMsg(r, "file", o)
		}
		return withMsg(r, "dir", o)
	}
}

func optArg(r *rand.Rand, a string) string {
	if chance(r, 0.4) {
		return ""
	}
	return "=" + a
}

func randRuleList(r *rand.Rand, k reflect.Kind, v reflect.Value, maxRules int, o ruleOpts) string {
	n := r.IntN(maxRules + 1)
	var items []string
	for i := 0; i < n; i++ {
		if chance(r, o.pEmptyItem) {
			items = append(items, "")
			if chance(r, 0.3) {
				items = append(items, "", "")[:len(items)+1+r.IntN(2)] // two or three empty items in a row
			}
		}
		items = append(items, randRuleItem(r, k, v, o))
		if chance(r, 0.05) && len(items) > 0 { // repeated rule
			items = append(items, items[r.IntN(len(items))])
		}
	}
	return strings.Join(items, ",")
}

// ---- types -------------------------------------------------------------------------------------

var scalarTypes = []reflect.Type{
	reflect.TypeOf(""), reflect.TypeOf(""), reflect.TypeOf(""), reflect.TypeOf(int(0)), reflect.TypeOf(int8(0)), reflect.TypeOf(int16(0)), reflect.TypeOf(int32(0)),
	reflect.TypeOf(int64(0)), reflect.TypeOf(uint(0)), reflect.TypeOf(uint8(0)), reflect.TypeOf(uint16(0)), reflect.TypeOf(uint32(0)), reflect.TypeOf(uint64(0)),
	reflect.TypeOf(float32(0)), reflect.TypeOf(float64(0)), reflect.TypeOf(false),
}

var errorType = reflect.TypeOf((*error)(nil)).Elem()
var stringerType = reflect.TypeOf((*fmt.Stringer)(nil)).Elem()

var namedStructs = []reflect.Type{reflect.TypeOf(Leaf{}), reflect.TypeOf(Mid{}), reflect.TypeOf(Top{}), reflect.TypeOf(Node{}), reflect.TypeOf(Dept{}), reflect.TypeOf(Team{}), reflect.TypeOf(Order{}), reflect.TypeOf(Priv{})}

var fieldNames = []string{"A", "B", "C", "D", "E", "F", "G", "Édit", "Ünit", "Name", "Id"}

type wgen struct {
	r        *rand.Rand
	o        ruleOpts
	maxDepth int
	maxField int
	maxRules int
	pNested  float64
	// struct types generated for this case (candidates for typed rule sets)
	structs []reflect.Type
	wide    bool // allow a few very wide collections
	budget  int
	pBig    float64 // probability of boundary-size integers
	// pointers to structs handed out so far in this value, by type: one object may be reachable
	// under several paths (the walker visits it under each of them)
	shared map[reflect.Type][]reflect.Value
}

func (g *wgen) scalarType() reflect.Type { return pick(g.r, scalarTypes) }

// key types of maps whose elements are walked (paths are named by the key's rendering)
var mapKeyTypes = []reflect.Type{
	reflect.TypeOf(""), reflect.TypeOf(""), reflect.TypeOf(int(0)), reflect.TypeOf(int(0)), reflect.TypeOf(KS("")),
	reflect.TypeOf(uint8(0)), reflect.TypeOf(uint32(0)), reflect.TypeOf(int64(0)), reflect.TypeOf(true), reflect.TypeOf(float64(0)),
	reflect.TypeOf((*interface{})(nil)).Elem(), // keys of different dynamic types may render alike: 1 and "1", int8(7) and int64(7)
}

// elemOf: T, *T, **T or ***T
func (g *wgen) elemOf(st reflect.Type) reflect.Type {
	switch g.r.IntN(10) {
	case 0, 1, 2, 3:
		return st
	case 4, 5, 6:
		return reflect.PointerTo(st)
	case 7, 8:
		return reflect.PointerTo(reflect.PointerTo(st))
	}
	return reflect.PointerTo(reflect.PointerTo(reflect.PointerTo(st)))
}

// collOf: a slice, array or map (any key kind) of T / pointers to T, possibly nested once
func (g *wgen) collOf(st reflect.Type) reflect.Type {
	e := g.elemOf(st)
	switch g.r.IntN(10) {
	case 0, 1, 2:
		return reflect.SliceOf(e)
	case 3:
		return reflect.ArrayOf(1+g.r.IntN(2), e)
	case 4, 5, 6:
		return reflect.MapOf(pick(g.r, mapKeyTypes), e)
	case 7:
		return reflect.SliceOf(reflect.SliceOf(e))
	case 8:
		return reflect.MapOf(pick(g.r, mapKeyTypes), reflect.SliceOf(e))
	}
	return reflect.PointerTo(reflect.SliceOf(e))
}

func (g *wgen) nestedType(depth int) reflect.Type {
	var st reflect.Type
	if chance(g.r, 0.25) {
		st = pick(g.r, namedStructs[:2])
		if chance(g.r, 0.3) {
			st = pick(g.r, lookAlikeTypes)
		}
	} else {
		st = g.structType(depth - 1)
	}
	switch g.r.IntN(12) {
	case 0, 1, 2:
		return st
	case 3, 4:
		return reflect.PointerTo(st)
	case 5:
		return reflect.PointerTo(reflect.PointerTo(st))
	case 6:
		return reflect.SliceOf(st)
	case 7:
		return reflect.SliceOf(reflect.PointerTo(st))
	case 8:
		return reflect.ArrayOf(1+g.r.IntN(2), st)
	case 9:
		return reflect.MapOf(reflect.TypeOf(""), st)
	}
	return g.collOf(st)
}

// fillKey sets a map key of any of mapKeyTypes' kinds
func fillKey(r *rand.Rand, k reflect.Value) {
	switch k.Kind() {
	case reflect.Interface:
		k.Set(reflect.ValueOf(pick(r, []interface{}{1, "1", int8(1), int64(1), "a", 2, "2", uint8(2), true, "true", 1.0})))
	case reflect.String:
		k.SetString(pick(r, []string{"a", "b", "k", "中", ""}))
	case reflect.Int, reflect.Int8, reflect.Int16, reflect.Int32, reflect.Int64:
		k.SetInt(int64(r.IntN(6) - 1))
	case reflect.Uint, reflect.Uint8, reflect.Uint16, reflect.Uint32, reflect.Uint64:
		k.SetUint(uint64(pick(r, []int{0, 1, 2, 3, 200})))
	case reflect.Bool:
		k.SetBool(chance(r, 0.5))
	case reflect.Float32, reflect.Float64:
		k.SetFloat(pick(r, []float64{0, 0.5, 1, 2.25, -3, 1e21, 1e-7}))
	}
}

func (g *wgen) fieldType(depth int) reflect.Type {
	x := g.r.Float64()
	switch {
	case depth > 0 && x < g.pNested:
		return g.nestedType(depth)
	case x < g.pNested+0.08:
		return reflect.SliceOf(g.scalarType())
	case x < g.pNested+0.11:
		return reflect.ArrayOf(g.r.IntN(3), g.scalarType())
	case x < g.pNested+0.15:
		return reflect.MapOf(pick(g.r, []reflect.Type{reflect.TypeOf(""), reflect.TypeOf(int(0))}), g.scalarType())
	case x < g.pNested+0.19:
		return reflect.PointerTo(g.scalarType())
	case x < g.pNested+0.21:
		return reflect.TypeOf(time.Time{})
	case x < g.pNested+0.23:
		return reflect.TypeOf(&time.Time{})
	case x < g.pNested+0.25:
		return reflect.TypeOf((*interface{})(nil)).Elem()
	case x < g.pNested+0.26:
		return reflect.TypeOf(func() {})
	case x < g.pNested+0.27:
		return reflect.TypeOf(complex128(0))
	case x < g.pNested+0.285:
		return pick(g.r, []reflect.Type{reflect.TypeOf([]*time.Time(nil)), reflect.TypeOf([]*url.URL(nil)), reflect.TypeOf([]interface{}(nil)), reflect.TypeOf([]error(nil))})
	case x < g.pNested+0.30:
		return pick(g.r, []reflect.Type{reflect.TypeOf((*interface{})(nil)).Elem(), errorType, stringerType}) // interface-typed slots carry their static type on the wire
	}
	return g.scalarType()
}

func (g *wgen) tagFor(ft reflect.Type) reflect.StructTag {
	var parts []string
	if chance(g.r, 0.8) {
		if rl := randRuleList(g.r, ft.Kind(), reflect.Value{}, g.maxRules, g.o); rl != "" || chance(g.r, 0.2) {
			parts = append(parts, "valid:"+strconv.Quote(rl))
		}
	}
	if chance(g.r, 0.25) {
		parts = append(parts, "alipay:"+strconv.Quote(randRuleList(g.r, ft.Kind(), reflect.Value{}, 2, g.o)))
	}
	if chance(g.r, 0.1) {
		parts = append(parts, `json:"x,omitempty"`)
	}
	return reflect.StructTag(strings.Join(parts, " "))
}

func (g *wgen) structType(depth int) reflect.Type {
	n := 1 + g.r.IntN(g.maxField)
	if chance(g.r, 0.03) {
		n = 0
	}
	wideFrom := -1
	if depth >= 1 && chance(g.r, 0.012) {
		// a very wide struct: 60 … 75 plain fields in front, then the ordinary ones (field indices beyond 64)
		wideFrom = 60 + g.r.IntN(16)
	}
	used := map[string]bool{}
	var fs []reflect.StructField
	for i := 0; i < wideFrom; i++ {
		name := fmt.Sprintf("W%d", i)
		used[name] = true
		fs = append(fs, reflect.StructField{Name: name, Type: reflect.TypeOf(int8(0))})
	}
	for i := 0; i < n; i++ {
		name := pick(g.r, fieldNames)
		if used[name] {
			name = fmt.Sprintf("%s%d", name, i)
		}
		used[name] = true
		ft := g.fieldType(depth)
		f := reflect.StructField{Name: name, Type: ft, Tag: g.tagFor(ft)}
		if chance(g.r, 0.06) { // unexported
			f.Name = "x" + strings.ToLower(name)
			if used[f.Name] {
				continue
			}
			used[f.Name] = true
			f.PkgPath = "main"
		}
		fs = append(fs, f)
	}
	t := reflect.StructOf(fs)
	g.structs = append(g.structs, t)
	return t
}

// ---- values ------------------------------------------------------------------------------------

var smallInts = []int64{-3, -2, -1, 0, 0, 1, 1, 2, 3, 4, 5, 6, 7, 9, 12, 100, 127, 128, 255, 256}

func (g *wgen) fill(v reflect.Value, depth int) {
	r := g.r
	if !v.CanSet() || depth > 9 {
		return
	}
	switch v.Kind() {
	case reflect.String:
		switch r.IntN(10) {
		case 0, 1:
			// zero
		case 2, 3, 4:
			v.SetString(fmtString(r, ""))
		case 5:
			v.SetString(randString(r, 6))
		default:
			v.SetString(randFrom(r, []string{"a", "b", "1", "中", "é"}, 1, 6))
		}
	case reflect.Int, reflect.Int8, reflect.Int16, reflect.Int32, reflect.Int64:
		z := pick(r, smallInts)
		if chance(r, 0.05+g.pBig) {
			z = pick(r, boundaryInts)
		}
		v.SetInt(clampInt(v.Kind(), z))
	case reflect.Uint, reflect.Uint8, reflect.Uint16, reflect.Uint32, reflect.Uint64:
		z := pick(r, smallInts)
		if z < 0 {
			z = -z
		}
		n := uint64(z)
		if chance(r, 0.05+g.pBig) {
			n = uint64(pick(r, boundaryInts))
		}
		v.SetUint(clampUint(v.Kind(), n))
	case reflect.Float32, reflect.Float64:
		f := float64(pick(r, smallInts))
		switch r.IntN(12) {
		case 0:
			f += 0.5
		case 1:
			f = math.Nextafter(f, math.Inf(1))
		case 2:
			f = math.Copysign(0, -1)
		case 3:
			f = math.Inf(1)
		case 4:
			f = 0.1
		}
		v.SetFloat(f)
	case reflect.Bool:
		v.SetBool(chance(r, 0.6))
	case reflect.Slice:
		switch r.IntN(6) {
		case 0: // nil
		case 1:
			v.Set(reflect.MakeSlice(v.Type(), 0, 0))
		default:
			n := 1 + r.IntN(3)
			isWide := false
			if ek := v.Type().Elem().Kind(); g.wide && chance(r, 0.25) && g.budget > 0 && ek != reflect.Struct && ek != reflect.Slice && ek != reflect.Map {
				n = 60 + r.IntN(90) // wide collections: counters / limits that depend on the number of elements visited
				g.budget--
				isWide = true
			}
			s := reflect.MakeSlice(v.Type(), n, n)
			for i := 0; i < n; i++ {
				if isWide && v.Type().Elem().Kind() == reflect.Ptr && i < n-2 && chance(r, 0.95) {
					continue // mostly nil pointers
				}
				g.fill(s.Index(i), depth+1)
			}
			v.Set(s)
		}
	case reflect.Array:
		if chance(r, 0.8) {
			for i := 0; i < v.Len(); i++ {
				g.fill(v.Index(i), depth+1)
			}
		}
	case reflect.Map:
		switch r.IntN(6) {
		case 0:
		case 1:
			v.Set(reflect.MakeMap(v.Type()))
		default:
			n := 1 + r.IntN(3)
			m := reflect.MakeMap(v.Type())
			for i := 0; i < n; i++ {
				k := reflect.New(v.Type().Key()).Elem()
				fillKey(r, k)
				e := reflect.New(v.Type().Elem()).Elem()
				g.fill(e, depth+1)
				m.SetMapIndex(k, e)
			}
			v.Set(m)
		}
	case reflect.Ptr:
		if v.Type().Elem().Kind() == reflect.Struct && len(g.shared[v.Type()]) > 0 && chance(r, 0.12) {
			v.Set(pick(r, g.shared[v.Type()])) // the same object again, under another path
			return
		}
		if chance(r, 0.75) {
			p := reflect.New(v.Type().Elem())
			g.fill(p.Elem(), depth+1)
			v.Set(p)
			if p.Elem().Kind() == reflect.Struct && v.Type().Elem() != reflect.TypeOf(Node{}) && v.Type().Elem() != reflect.TypeOf(Dept{}) && v.Type().Elem() != reflect.TypeOf(Team{}) {
				if g.shared == nil {
					g.shared = map[reflect.Type][]reflect.Value{}
				}
				g.shared[v.Type()] = append(g.shared[v.Type()], p)
			}
		}
	case reflect.Struct:
		if v.Type() == timeType {
			if chance(r, 0.6) {
				v.Set(reflect.ValueOf(time.Date(2022, 11, 9, 1, 2, 3, 0, time.UTC)))
			}
			return
		}
		if chance(r, 0.12) {
			return // zero struct
		}
		for i := 0; i < v.NumField(); i++ {
			g.fill(v.Field(i), depth+1)
		}
		// equal / nearly equal pairs of same-typed fields (botheq members, cross-field comparisons)
		if v.NumField() >= 2 && chance(r, 0.3) {
			i, j := r.IntN(v.NumField()), r.IntN(v.NumField())
			if i != j && v.Field(i).Type() == v.Field(j).Type() && v.Field(j).CanSet() && v.Field(i).CanInterface() {
				v.Field(j).Set(v.Field(i))
				if chance(r, 0.5) {
					switch f := v.Field(j); f.Kind() {
					case reflect.Int, reflect.Int8, reflect.Int16, reflect.Int32, reflect.Int64:
						f.SetInt(f.Int() + 1)
					case reflect.Uint, reflect.Uint8, reflect.Uint16, reflect.Uint32, reflect.Uint64:
						f.SetUint(f.Uint() + 1)
					case reflect.String:
						f.SetString(f.String() + "x")
					case reflect.Float32, reflect.Float64:
						f.SetFloat(math.Nextafter(f.Float(), math.Inf(1)))
					}
				}
			}
		}
	case reflect.Interface:
		if v.Type() == errorType {
			// nil, an ordinary error, a typed nil pointer inside the interface (fmt prints it as <nil>)
			switch r.IntN(3) {
			case 1:
				v.Set(reflect.ValueOf(errors.New(pick(r, []string{"e", "1", "a"}))))
			case 2:
				v.Set(reflect.ValueOf((*os.PathError)(nil)))
			}
			return
		}
		if v.Type() == stringerType {
			switch r.IntN(4) {
			case 1:
				v.Set(reflect.ValueOf(&url.URL{Scheme: "h", Host: pick(r, []string{"a", "b"})}))
			case 2:
				v.Set(reflect.ValueOf((*time.Time)(nil)))
			case 3:
				v.Set(reflect.ValueOf((*url.URL)(nil)))
			}
			return
		}
		if v.Type().NumMethod() == 0 && chance(r, 0.15) {
			v.Set(reflect.ValueOf(pick(r, []interface{}{(*time.Time)(nil), (*url.URL)(nil), (*os.PathError)(nil), (*int)(nil), errors.New("e")})))
			return
		}
		switch r.IntN(4) {
		case 0:
		case 1:
			v.Set(reflect.ValueOf(randString(r, 3)))
		case 2:
			v.Set(reflect.ValueOf(r.IntN(4)))
		case 3:
			v.Set(reflect.ValueOf(1.5))
		}
	case reflect.Func:
		if chance(r, 0.9) {
			v.Set(reflect.ValueOf(func() {}))
		}
	case reflect.Complex128:
		v.SetComplex(complex(float64(r.IntN(2)), 0))
	}
}

// rule text adapted to the actual value of a field (for RM overrides, where the value is known)
func (g *wgen) ruleForValue(v reflect.Value) string {
	return randRuleList(g.r, v.Kind(), v, g.maxRules, g.o)
}

// ---- struct calls ------------------------------------------------------------------------------

type walkProfile struct {
	name     string
	o        ruleOpts
	maxDepth int
	maxField int
	maxRules int
	pNested  float64
	pOverride float64 // typed / outer RM
	pTag      float64 // non-default target tag
	pLocalFn  float64
	pTopColl  float64 // top-level slice / array / map / odd inputs
	wide      bool
	pBig      float64
	pChain    float64 // deep chains of the recursive named type
	pGroupObj float64 // dedicated group objects (groupCase)
}

func (p walkProfile) gen(r *rand.Rand) *wgen {
	return &wgen{r: r, o: p.o, maxDepth: p.maxDepth, maxField: p.maxField, maxRules: p.maxRules, pNested: p.pNested, wide: p.wide, budget: 2, pBig: p.pBig}
}

func structTypeTags(t reflect.Type) []string {
	return []string{fmt.Sprintf("fields:%d", min(t.NumField(), 6))}
}

// groupCase: one object type whose 2-3 same-typed fields share an either / botheq group, with the value
// assignments {all empty, one set, all equal, one differing by the smallest step}; the object alone, in
// a slice of 2-3 (different assignments), or nested.
// member kinds of either / botheq groups beyond scalars: emptiness is IsZero, equality is DeepEqual
var groupCompositeTypes = []reflect.Type{
	reflect.TypeOf(Leaf{}), reflect.TypeOf([3]uint8{}), reflect.TypeOf([2]string{}), reflect.TypeOf([]string(nil)),
	reflect.TypeOf(map[string]int(nil)), reflect.TypeOf((*int)(nil)), reflect.TypeOf((*Leaf)(nil)), reflect.TypeOf([]int(nil)),
}

func groupCase(r *rand.Rand) Case {
	t := pick(r, scalarTypes)
	composite := chance(r, 0.25)
	if composite {
		t = pick(r, groupCompositeTypes)
	}
	n := 2 + r.IntN(2)
	rule := pick(r, []string{"either", "botheq", "botheq"}) + "=" + pick(r, []string{"1", "g"})
	var fs []reflect.StructField
	for i := 0; i < n; i++ {
		rl := rule
		if chance(r, 0.2) {
			rl += "|msg"
		}
		if chance(r, 0.2) {
			rl = "required," + rl
		}
		fs = append(fs, reflect.StructField{Name: string(rune('A' + i)), Type: t, Tag: reflect.StructTag("valid:" + strconv.Quote(rl))})
	}
	if chance(r, 0.3) { // a second, independent group with the same id but the other rule name
		other := "either=1"
		if strings.HasPrefix(rule, "either") {
			other = "botheq=1"
		}
		for i := 0; i < 2; i++ {
			fs = append(fs, reflect.StructField{Name: string(rune('P' + i)), Type: t, Tag: reflect.StructTag("valid:" + strconv.Quote(other))})
		}
	}
	st := reflect.StructOf(fs)
	mk := func() reflect.Value {
		v := reflect.New(st).Elem()
		if composite {
			// all empty / one set / all the same value / one differing; "empty but not zero" values
			// (empty non-nil slices and maps) appear through fill
			g := &wgen{r: r}
			mkv := func() reflect.Value {
				x := reflect.New(t).Elem()
				for k := 0; k < 3 && x.IsZero(); k++ {
					g.fill(x, 0)
				}
				return x
			}
			base := mkv()
			mode := r.IntN(4)
			for i := 0; i < st.NumField(); i++ {
				switch {
				case mode == 0:
				case mode == 1 && i == 0, mode >= 2:
					v.Field(i).Set(base)
				}
			}
			if mode == 3 {
				v.Field(r.IntN(n)).Set(mkv())
			}
			return v
		}
		base := reflect.ValueOf(scalarNear(r, t.Kind(), pick(r, smallInts)))
		if chance(r, 0.4) {
			base = reflect.ValueOf(scalarNear(r, t.Kind(), pick(r, boundaryInts)))
		}
		mode := r.IntN(4)
		for i := 0; i < st.NumField(); i++ {
			f := v.Field(i)
			switch mode {
			case 0: // all empty
			case 1: // one set
				if i == 0 {
					f.Set(base.Convert(t))
				}
			default: // all equal (2) / one differing (3)
				f.Set(base.Convert(t))
			}
		}
		if mode == 3 {
			f := v.Field(r.IntN(n))
			switch f.Kind() {
			case reflect.Int, reflect.Int8, reflect.Int16, reflect.Int32, reflect.Int64:
				f.SetInt(f.Int() + 1)
			case reflect.Uint, reflect.Uint8, reflect.Uint16, reflect.Uint32, reflect.Uint64:
				f.SetUint(f.Uint() + 1)
			case reflect.String:
				f.SetString(f.String() + "x")
			case reflect.Float32:
				f.SetFloat(float64(math.Nextafter32(float32(f.Float()), float32(math.Inf(1)))))
			case reflect.Float64:
				f.SetFloat(math.Nextafter(f.Float(), math.Inf(1)))
			case reflect.Bool:
				f.SetBool(!f.Bool())
			}
		}
		return v
	}
	tags := []string{"top:group", "member:" + t.Kind().String()}
	if !composite && chance(r, 0.12) {
		// a parent whose own group has its members on both sides of a nested slice of group objects; the slice is
		// sometimes long enough for any bookkeeping bound on the number of pending groups (63 … 70 elements)
		rule2 := pick(r, []string{"either", "botheq"}) + "=" + pick(r, []string{"7", "1"})
		outer := reflect.StructOf([]reflect.StructField{
			{Name: "P", Type: t, Tag: reflect.StructTag("valid:" + strconv.Quote(rule2))},
			{Name: "L", Type: reflect.SliceOf(st), Tag: `valid:"exist"`},
			{Name: "Q", Type: t, Tag: reflect.StructTag("valid:" + strconv.Quote(rule2))}})
		k := pick(r, []int{1, 2, 3, 63, 64, 65, 70})
		o := reflect.New(outer)
		sl := reflect.MakeSlice(reflect.SliceOf(st), k, k)
		for i := 0; i < k; i++ {
			sl.Index(i).Set(mk())
		}
		o.Elem().Field(1).Set(sl)
		base := reflect.ValueOf(scalarNear(r, t.Kind(), pick(r, smallInts))).Convert(t)
		switch r.IntN(4) {
		case 1:
			o.Elem().Field(0).Set(base)
		case 2:
			o.Elem().Field(0).Set(base)
			o.Elem().Field(2).Set(base)
		case 3:
			o.Elem().Field(0).Set(base)
			o.Elem().Field(2).Set(reflect.ValueOf(scalarNear(r, t.Kind(), pick(r, smallInts))).Convert(t))
		}
		return structCall{src: o.Interface()}.toCase(append(tags, "src:straddle", fmt.Sprintf("elems:%d", k)), "")
	}
	switch r.IntN(4) {
	case 0:
		k := 2 + r.IntN(2)
		sl := reflect.MakeSlice(reflect.SliceOf(st), k, k)
		for i := 0; i < k; i++ {
			sl.Index(i).Set(mk())
		}
		return structCall{src: sl.Interface()}.toCase(append(tags, "src:[]T"), "")
	case 1:
		outer := reflect.StructOf([]reflect.StructField{
			{Name: "X", Type: st, Tag: `valid:"exist"`}, {Name: "L", Type: reflect.SliceOf(st), Tag: `valid:"exist"`}})
		o := reflect.New(outer)
		o.Elem().Field(0).Set(mk())
		sl := reflect.MakeSlice(reflect.SliceOf(st), 2, 2)
		sl.Index(0).Set(mk())
		sl.Index(1).Set(mk())
		o.Elem().Field(1).Set(sl)
		return structCall{src: o.Interface()}.toCase(append(tags, "src:nested"), "")
	}
	p := reflect.New(st)
	p.Elem().Set(mk())
	return structCall{src: p.Interface()}.toCase(append(tags, "src:*T"), "")
}

// walkerCase builds one Struct call according to the profile
func walkerCase(r *rand.Rand, p walkProfile) Case {
	if chance(r, p.pChain) {
		d := 1 + r.IntN(8)
		if chance(r, 0.4) {
			d = 60 + r.IntN(60) // deeper than any plausible built-in limit
		}
		return structCall{src: chain(r, d)}.toCase([]string{"top:chain", fmt.Sprintf("chain-depth:%d", d/20*20)}, "")
	}
	if chance(r, p.pGroupObj) {
		return groupCase(r)
	}
	g := p.gen(r)
	var t reflect.Type
	if chance(r, 0.2) {
		t = pick(r, namedStructs)
	} else {
		t = g.structType(g.maxDepth)
	}
	pv := reflect.New(t)
	g.fill(pv.Elem(), 0)
	call := structCall{}
	tags := []string{"top:" + kindLabel(t)}
	// top-level shape
	x := r.Float64()
	switch {
	case x < p.pTopColl && chance(r, 0.3):
		// any collection shape: slices / arrays / maps (every key kind) of T, *T, **T, ***T, nested once
		cv := reflect.New(g.collOf(t)).Elem()
		for k := 0; k < 3 && cv.IsZero(); k++ {
			g.fill(cv, 0)
		}
		call.src = cv.Interface()
		tags = append(tags, "src:coll-any", "coll:"+cv.Kind().String())
	case x < p.pTopColl*0.35:
		n := r.IntN(4)
		s := reflect.MakeSlice(reflect.SliceOf(reflect.PointerTo(t)), n, n)
		for i := 0; i < n; i++ {
			if chance(r, 0.8) {
				e := reflect.New(t)
				g.fill(e.Elem(), 0)
				s.Index(i).Set(e)
			}
		}
		call.src = s.Interface()
		tags = append(tags, "src:[]*T")
	case x < p.pTopColl*0.55:
		n := r.IntN(3)
		s := reflect.MakeSlice(reflect.SliceOf(t), n, n)
		for i := 0; i < n; i++ {
			g.fill(s.Index(i), 0)
		}
		call.src = s.Interface()
		tags = append(tags, "src:[]T")
	case x < p.pTopColl*0.7:
		m := reflect.MakeMap(reflect.MapOf(reflect.TypeOf(""), reflect.PointerTo(t)))
		for i, n := 0, r.IntN(3); i < n; i++ {
			e := reflect.New(t)
			g.fill(e.Elem(), 0)
			if chance(r, 0.15) {
				e = reflect.Zero(reflect.PointerTo(t))
			}
			m.SetMapIndex(reflect.ValueOf(pick(r, []string{"a", "b", "k"})), e)
		}
		call.src = m.Interface()
		tags = append(tags, "src:map")
	case x < p.pTopColl*0.8:
		a := reflect.New(reflect.ArrayOf(2, t)).Elem()
		g.fill(a.Index(0), 0)
		call.src = a.Interface()
		tags = append(tags, "src:[2]T")
	case x < p.pTopColl*0.86:
		call.src = reflect.Zero(reflect.PointerTo(t)).Interface() // typed nil
		tags = append(tags, "src:typed-nil")
	case x < p.pTopColl*0.9:
		call.src = nil
		tags = append(tags, "src:nil")
	case x < p.pTopColl*0.95:
		pp := reflect.New(reflect.PointerTo(t))
		pp.Elem().Set(pv)
		call.src = pp.Interface()
		tags = append(tags, "src:**T")
	case x < p.pTopColl:
		call.src = pick(r, []interface{}{5, "s", []int{1}, map[string]int{"a": 1}, 1.5, true, &[]string{"x"}[0]})
		tags = append(tags, "src:non-struct")
	default:
		if chance(r, 0.8) {
			call.src = pv.Interface()
			tags = append(tags, "src:*T")
		} else {
			call.src = pv.Elem().Interface()
			tags = append(tags, "src:T")
		}
	}
	if chance(r, p.pTag) {
		call.tag = pick(r, []string{"alipay", "wechat", "valid"})
		tags = append(tags, "tag:"+call.tag)
	}
	if chance(r, p.pOverride) {
		// outer rule set: field names of the outermost struct (plus a foreign name)
		rm := valid.RM{}
		for i := 0; i < t.NumField(); i++ {
			if chance(r, 0.5) {
				f := t.Field(i)
				rm[f.Name] = randRuleList(r, f.Type.Kind(), pv.Elem().Field(i), g.maxRules, g.o)
			}
		}
		if chance(r, 0.2) {
			rm["Nope"] = "required"
		}
		if chance(r, 0.1) {
			rm = valid.RM{}
		}
		call.outer = rm
		tags = append(tags, "rm:outer")
	}
	if chance(r, p.pOverride) {
		call.typed = map[interface{}]valid.RM{}
		cands := append([]reflect.Type{t}, g.structs...)
		cands = append(cands, namedStructs[0], namedStructs[1], lookAlikeTypes[0], lookAlikeTypes[1])
		for i, n := 0, 1+r.IntN(2); i < n; i++ {
			st := pick(r, cands)
			rm := valid.RM{}
			for j := 0; j < st.NumField(); j++ {
				if chance(r, 0.5) {
					f := st.Field(j)
					rm[f.Name] = randRuleList(r, f.Type.Kind(), reflect.Value{}, g.maxRules, g.o)
				}
			}
			if chance(r, 0.1) {
				rm = valid.RM{}
			}
			// one entry per type (Go map keyed by the pointer value: keep the first)
			dup := false
			for k := range call.typed {
				kt := reflect.TypeOf(k)
				for kt.Kind() == reflect.Ptr {
					kt = kt.Elem()
				}
				if kt == st {
					dup = true
				}
			}
			if !dup {
				// the key object: a pointer to the type, a nil pointer to it, a pointer to a pointer, or a value
				var keyObj interface{} = reflect.New(st).Interface()
				switch r.IntN(10) {
				case 0:
					keyObj = reflect.Zero(reflect.PointerTo(st)).Interface() // (*T)(nil)
				case 1:
					pp := reflect.New(reflect.PointerTo(st))
					pp.Elem().Set(reflect.New(st))
					keyObj = pp.Interface() // **T
				case 2:
					if st.Comparable() { // the key object is also the key of a Go map here
						keyObj = reflect.New(st).Elem().Interface() // T{}
					}
				}
				call.typed[keyObj] = rm
				if chance(r, 0.25) {
					// an earlier rule set for the same type, replaced by this one
					first := valid.RM{}
					for j := 0; j < st.NumField(); j++ {
						if chance(r, 0.5) {
							f := st.Field(j)
							first[f.Name] = randRuleList(r, f.Type.Kind(), reflect.Value{}, g.maxRules, g.o)
						}
					}
					if call.shadowed == nil {
						call.shadowed = map[reflect.Type]valid.RM{}
					}
					call.shadowed[st] = first
					tags = append(tags, "rm:set-twice")
				}
			}
		}
		tags = append(tags, "rm:typed")
	}
	if chance(r, p.pLocalFn) {
		call.local = map[string]string{"lcustom": "L1"}
		if chance(r, 0.5) {
			call.local["lshadow"] = "L2"
		}
		if chance(r, 0.3) {
			call.local[pick(r, []string{"phone", "to", "required", "gcustom", "int"})] = "L3"
		}
		tags = append(tags, "fns:local")
	}
	call.alt = chance(r, 0.5)
	return call.toCase(tags, "")
}

func kindLabel(t reflect.Type) string {
	if t.Name() != "" {
		return "named"
	}
	return "synth"
}

// ---- flat carriers with several keys -----------------------------------------------------------

func flatValue(r *rand.Rand) interface{} {
	k := pick(r, scalarKinds)
	if k == reflect.String {
		switch r.IntN(4) {
		case 0:
			return ""
		case 1:
			return randString(r, 5)
		}
		return fmtString(r, "")
	}
	z := pick(r, smallInts)
	return scalarNear(r, k, z)
}

func flatVarCase(r *rand.Rand, o ruleOpts) Case {
	var v interface{}
	switch r.IntN(12) {
	case 0:
		v = sliceNear(r, int64(r.IntN(4)))
	case 1:
		v = [3]int{r.IntN(2), r.IntN(2), r.IntN(3)}
	case 2:
		x := flatValue(r)
		p := reflect.New(reflect.TypeOf(x))
		p.Elem().Set(reflect.ValueOf(x))
		v = p.Interface()
	case 3:
		v = pick(r, []interface{}{nil, (*int)(nil), (*string)(nil), struct{}{}, map[string]int{"a": 1}, []interface{}{1}, func() {}, complex64(1), [][]int{{1}}, []*int{nil}})
	default:
		v = flatValue(r)
	}
	var rules []string
	k := reflect.Invalid
	rv := reflect.ValueOf(v)
	if rv.IsValid() {
		k = rv.Kind()
	}
	for i, n := 0, r.IntN(4); i < n; i++ {
		if chance(r, 0.3) {
			rules = append(rules, randRuleList(r, k, rv, 3, o))
		} else {
			rules = append(rules, randRuleItem(r, k, rv, o))
		}
	}
	return varCase(v, rules, []string{"carrier:var"}, "")
}

var flatKeys = []string{"a", "b", "c", "name", "id", "中", "", "a.b", "k[0]"}

func flatMapCase(r *rand.Rand, o ruleOpts) Case {
	rm := valid.RM{}
	for i, n := 0, 1+r.IntN(4); i < n; i++ {
		k := pick(r, flatKeys)
		rm[k] = randRuleList(r, reflect.String, reflect.Value{}, 3, o)
		if chance(r, 0.4) {
			rm[k] = "required," + rm[k]
		}
	}
	if chance(r, 0.03) {
		rm = valid.RM{}
	}
	mk := func() interface{} {
		switch r.IntN(7) {
		case 5, 6:
			// every element kind: bool, floats, unsigned, small ints, slices, arrays, pointers, named strings
			et := pick(r, []reflect.Type{reflect.TypeOf(true), reflect.TypeOf(float64(0)), reflect.TypeOf(float32(0)),
				reflect.TypeOf(uint8(0)), reflect.TypeOf(uint64(0)), reflect.TypeOf(int8(0)), reflect.TypeOf([]string(nil)),
				reflect.TypeOf([]int(nil)), reflect.TypeOf((*string)(nil)), reflect.TypeOf([2]int{}), reflect.TypeOf(KS(""))})
			g := &wgen{r: r}
			m := reflect.MakeMap(reflect.MapOf(reflect.TypeOf(""), et))
			for i, n := 0, r.IntN(4); i < n; i++ {
				e := reflect.New(et).Elem()
				g.fill(e, 0)
				m.SetMapIndex(reflect.ValueOf(pick(r, flatKeys)), e)
			}
			if chance(r, 0.3) {
				sl := reflect.MakeSlice(reflect.SliceOf(m.Type()), 1, 1)
				sl.Index(0).Set(m)
				return sl.Interface()
			}
			return m.Interface()
		case 0:
			m := map[string]interface{}{}
			for i, n := 0, r.IntN(4); i < n; i++ {
				m[pick(r, flatKeys)] = flatValue(r)
			}
			return m
		case 1:
			m := map[string]int{}
			for i, n := 0, r.IntN(4); i < n; i++ {
				m[pick(r, flatKeys)] = int(pick(r, smallInts))
			}
			return m
		default:
			m := map[string]string{}
			for i, n := 0, r.IntN(4); i < n; i++ {
				m[pick(r, flatKeys)] = flatValue2str(r)
			}
			if chance(r, 0.05) {
				m = nil
			}
			return m
		}
	}
	var src interface{}
	switch r.IntN(12) {
	case 0:
		src = []map[string]string{mk2(r), mk2(r)}
	case 1:
		src = []map[string]string{mk2(r), mk2(r), mk2(r)}
	case 2:
		src = pick(r, []interface{}{nil, 5, "s", []int{1}, map[int]string{1: "a"}, (*map[string]string)(nil), []interface{}{map[string]string{"a": ""}, 5}, [1]map[string]string{{"a": "x"}}})
	case 3:
		m := mk2(r)
		src = &m
	case 4:
		m := map[KS]string{}
		for k, v := range mk2(r) {
			m[KS(k)] = v
		}
		src = m
	case 5:
		m := map[KS]interface{}{}
		for k, v := range mk2(r) {
			m[KS(k)] = v
		}
		src = []map[KS]interface{}{m}
	default:
		src = mk()
	}
	var local map[string]string
	if chance(r, 0.2) {
		local = map[string]string{"lcustom": "L1", "lshadow": "L2"}
	}
	return mapCase(src, rm, local, []string{"carrier:map"}, "")
}

func flatValue2str(r *rand.Rand) string {
	switch r.IntN(4) {
	case 0:
		return ""
	case 1:
		return randString(r, 4)
	}
	return fmtString(r, "")
}

func mk2(r *rand.Rand) map[string]string {
	m := map[string]string{}
	for i, n := 0, r.IntN(4); i < n; i++ {
		m[pick(r, flatKeys[:5])] = flatValue2str(r)
	}
	return m
}

func flatUrlCase(r *rand.Rand, o ruleOpts) Case {
	rm := valid.RM{}
	for i, n := 0, 1+r.IntN(3); i < n; i++ {
		k := pick(r, flatKeys)
		rm[k] = randRuleList(r, reflect.String, reflect.Value{}, 3, o)
		if chance(r, 0.4) {
			rm[k] = "required," + rm[k]
		}
	}
	var params []string
	nParams := r.IntN(5)
	if chance(r, 0.02) {
		nParams = pick(r, []int{255, 256, 257, 300, 700}) // no entry point has a limit on the number of values
	}
	for i, n := 0, nParams; i < n; i++ {
		k := pick(r, flatKeys)
		v := flatValue2str(r)
		switch r.IntN(8) {
		case 0:
			params = append(params, k) // bare key
		case 1:
			params = append(params, k+"=") // empty value
		case 2:
			params = append(params, k+"="+v) // raw (may contain reserved characters)
		case 3:
			params = append(params, url.QueryEscape(k)+"="+url.QueryEscape(v)+"="+"x") // two '='
		default:
			params = append(params, url.QueryEscape(k)+"="+url.QueryEscape(v))
		}
	}
	u := pick(r, []string{"http://h.io/p", "https://a.b/c/d", "", "h", "http://h.io/p?x=1&"}) // the last one already has a query
	q := strings.Join(params, "&")
	full := u
	if q != "" || chance(r, 0.2) {
		if strings.Contains(u, "?") {
			full = u + q
		} else {
			full = u + "?" + q
		}
	}
	if chance(r, 0.1) {
		full = url.QueryEscape(full) // fully percent-encoded, as the pinned tests feed it
	}
	if chance(r, 0.04) {
		full += pick(r, []string{"%", "%zz", "%4", "%%", "+", "#frag", "?again=1"})
	}
	var src interface{} = full
	switch r.IntN(25) {
	case 0:
		src = &full
	case 1:
		src = pick(r, []interface{}{nil, (*string)(nil), 5, []byte("x")})
	}
	if chance(r, 0.2) {
		local := map[string]string{"lcustom": "L1"}
		if chance(r, 0.5) {
			local[pick(r, []string{"phone", "to", "int", "lshadow", "required"})] = "L3"
		}
		if chance(r, 0.15) {
			rm, local = valid.RM{}, map[string]string{"lcustom": "L1"}
		}
		return urlCaseFns(src, rm, local, []string{"carrier:url", "fns:local"}, "")
	}
	return urlCase(src, rm, []string{"carrier:url"}, "")
}
