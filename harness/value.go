package main

import (
	"fmt"
	"sync"
	"math"
	"reflect"
	"sort"
	"strconv"
	"strings"
	"time"
)

var timeType = reflect.TypeOf(time.Time{})
var tagNames = []string{"valid", "alipay", "wechat"}

// encCtx collects, while a value is encoded, the standard library's `%v` rendering of every node
// that is not a scalar, keyed by the node's fingerprint (lean/PGV/Model/Value.lean `GoVal.fp`).
// It answers the residual query `sprint`.  A fingerprint carried by two nodes that render
// differently (pointer identity is not on the wire) is marked ambiguous and answered "unknown".
type encCtx struct {
	sp  map[string]string
	amb map[string]bool
	val map[string]reflect.Value // a node carrying the fingerprint (for the `deepeq` residual)
}

func newEncCtx() *encCtx {
	return &encCtx{sp: map[string]string{}, amb: map[string]bool{}, val: map[string]reflect.Value{}}
}

// deepEqual answers reflect.DeepEqual(a.Interface(), b.Interface()) for two nodes named by their
// fingerprints: 1 equal, 0 different, 2 unknown
func (c *encCtx) deepEqual(a, b string) int {
	if c == nil || c.amb[a] || c.amb[b] {
		return 2
	}
	va, ok1 := c.val[a]
	vb, ok2 := c.val[b]
	if !ok1 || !ok2 {
		return 2
	}
	if reflect.DeepEqual(va.Interface(), vb.Interface()) {
		return 1
	}
	return 0
}

func (c *encCtx) record(fp string, v reflect.Value) {
	if c == nil || !v.IsValid() || !v.CanInterface() {
		return
	}
	var text string
	func() {
		defer func() {
			if r := recover(); r != nil {
				c.amb[fp] = true
			}
		}()
		text = fmt.Sprintf("%v", v.Interface())
	}()
	if old, ok := c.sp[fp]; ok && old != text {
		c.amb[fp] = true
	}
	c.sp[fp] = text
	c.val[fp] = v
}

// typeKey: the identity of a struct type on the wire.  It is Type.String() — unless two DISTINCT types
// of this process print alike (function-local types of the same name, same-named types of different
// packages): then the later ones get a numeric suffix.  The model keys rule sets and the type cache by it.
var (
	typeKeyMu   sync.Mutex
	typeKeySeen = map[string][]reflect.Type{}
)

func typeKey(t reflect.Type) string {
	s := t.String()
	typeKeyMu.Lock()
	defer typeKeyMu.Unlock()
	for i, u := range typeKeySeen[s] {
		if u == t {
			if i == 0 {
				return s
			}
			return s + "#" + strconv.Itoa(i)
		}
	}
	typeKeySeen[s] = append(typeKeySeen[s], t)
	if n := len(typeKeySeen[s]); n > 1 {
		return s + "#" + strconv.Itoa(n-1)
	}
	return s
}

func lenPref(s string) string { return strconv.Itoa(len(s)) + ":" + s }

// encodeValue renders a Go value in the wire format of lean/PGV/Driver/Value.lean, using only
// reflect (never the repository under test).
func encodeValue(v reflect.Value) string {
	s, _ := encodeValueCtx(v, nil)
	return s
}

// encodeValueCtx returns the wire form and the fingerprint of v
func encodeValueCtx(v reflect.Value, c *encCtx) (string, string) {
	s, fp := encodeValueCtx1(v, c)
	if c != nil && v.IsValid() && v.CanInterface() {
		if _, ok := c.val[fp]; !ok {
			c.val[fp] = v
		}
	}
	return s, fp
}

func encodeValueCtx1(v reflect.Value, c *encCtx) (string, string) {
	switch v.Kind() {
	case reflect.String:
		return N("str", X(v.String())), "s" + lenPref(v.String())
	case reflect.Bool:
		if v.Bool() {
			return N("bool", B(true)), "b1"
		}
		return N("bool", B(false)), "b0"
	case reflect.Int, reflect.Int8, reflect.Int16, reflect.Int32, reflect.Int64:
		return N("int", I(int64(bitsOf(v.Kind()))), I(v.Int())),
			"i" + strconv.Itoa(bitsOf(v.Kind())) + ":" + strconv.FormatInt(v.Int(), 10) + ";"
	case reflect.Uint, reflect.Uint8, reflect.Uint16, reflect.Uint32, reflect.Uint64:
		return N("uint", I(int64(bitsOf(v.Kind()))), U(v.Uint())),
			"u" + strconv.Itoa(bitsOf(v.Kind())) + ":" + strconv.FormatUint(v.Uint(), 10) + ";"
	case reflect.Float32, reflect.Float64:
		bits := 64
		if v.Kind() == reflect.Float32 {
			bits = 32
		}
		f := v.Float()
		own := strconv.FormatFloat(f, 'f', -1, bits)
		c.record("f"+strconv.Itoa(bits)+":"+own+";", v) // %v of a float differs from ToStr's 'f' format (map keys)
		return N("float", I(int64(bits)), U(math.Float64bits(f)),
			X(strconv.FormatFloat(f, 'f', -1, 64)), X(own)), "f" + strconv.Itoa(bits) + ":" + own + ";"
	case reflect.Ptr:
		t := v.Type().String()
		if v.IsNil() {
			fp := "p" + lenPref(t) + "n"
			c.record(fp, v)
			return N("ptr", X(t), "nil"), fp
		}
		es, efp := encodeValueCtx(v.Elem(), c)
		fp := "p" + lenPref(t) + efp
		c.record(fp, v)
		return N("ptr", X(t), es), fp
	case reflect.Interface:
		if v.IsNil() {
			return N("iface", X(v.Type().String()), "nil"), "In"
		}
		es, efp := encodeValueCtx(v.Elem(), c)
		c.record("I"+efp, v)
		return N("iface", X(v.Type().String()), es), "I" + efp
	case reflect.Slice:
		t := v.Type().String()
		args := []string{X(t), X(v.Type().Elem().String()), B(v.IsNil())}
		fp := "S" + lenPref(t)
		if v.IsNil() {
			fp += "n"
		} else {
			fp += "v"
		}
		fp += "["
		for i := 0; i < v.Len(); i++ {
			es, efp := encodeValueCtx(v.Index(i), c)
			args = append(args, es)
			fp += efp + ","
		}
		fp += "]"
		c.record(fp, v)
		return N("slice", args...), fp
	case reflect.Array:
		t := v.Type().String()
		args := []string{X(t), X(v.Type().Elem().String())}
		fp := "A" + lenPref(t) + "["
		for i := 0; i < v.Len(); i++ {
			es, efp := encodeValueCtx(v.Index(i), c)
			args = append(args, es)
			fp += efp + ","
		}
		fp += "]"
		c.record(fp, v)
		return N("array", args...), fp
	case reflect.Map:
		t := v.Type().String()
		args := []string{X(t), B(v.Type().Key().Kind() == reflect.String), B(v.IsNil())}
		var efps []string
		it := v.MapRange()
		for it.Next() {
			ks, kfp := encodeValueCtx(it.Key(), c)
			vs, vfp := encodeValueCtx(it.Value(), c)
			args = append(args, N("e", ks, vs))
			efps = append(efps, kfp+"="+vfp+",")
		}
		sort.Strings(efps)
		fp := "M" + lenPref(t)
		if v.IsNil() {
			fp += "n"
		} else {
			fp += "v"
		}
		fp += "{" + strings.Join(efps, "") + "}"
		c.record(fp, v)
		return N("map", args...), fp
	case reflect.Struct:
		t := v.Type()
		args := []string{X(typeKey(t)), X(t.Name()), B(t == timeType)}
		fp := "T" + lenPref(typeKey(t)) + "{"
		if t == timeType {
			// opaque: one synthetic field carrying zero-ness
			nz := !v.IsZero()
			args = append(args, N("f", X("wall"), B(false), B(false), N("tags"), N("bool", B(nz))))
			if nz {
				fp += lenPref("wall") + "b1,"
			} else {
				fp += lenPref("wall") + "b0,"
			}
			fp += "}"
			c.record(fp, v)
			return N("struct", args...), fp
		}
		for i := 0; i < t.NumField(); i++ {
			sf := t.Field(i)
			var tags []string
			for _, tn := range tagNames {
				if tv, ok := sf.Tag.Lookup(tn); ok {
					tags = append(tags, N("t", X(tn), X(tv)))
				}
			}
			fs, ffp := encodeValueCtx(v.Field(i), c)
			args = append(args, N("f", X(sf.Name), B(sf.PkgPath == ""), B(sf.Type == timeType), N("tags", tags...), fs))
			fp += lenPref(sf.Name) + ffp + ","
		}
		fp += "}"
		c.record(fp, v)
		return N("struct", args...), fp
	default:
		t := v.Type().String()
		fp := "O" + strconv.Itoa(int(v.Kind())) + ":" + lenPref(t)
		if v.IsZero() {
			fp += "z"
		} else {
			fp += "v"
		}
		c.record(fp, v)
		return N("other", I(int64(v.Kind())), X(t), X(v.Type().Name()), B(v.IsZero())), fp
	}
}

func bitsOf(k reflect.Kind) int {
	switch k {
	case reflect.Int8, reflect.Uint8:
		return 8
	case reflect.Int16, reflect.Uint16:
		return 16
	case reflect.Int32, reflect.Uint32, reflect.Float32:
		return 32
	case reflect.Int64, reflect.Uint64, reflect.Float64:
		return 64
	}
	return 0
}

// encodeSrc: what is passed as `src interface{}`
func encodeSrc(src interface{}) string {
	s, _ := encodeSrcCtx(src)
	return s
}

// encodeSrcCtx also returns the table answering `sprint` residual queries about this value
func encodeSrcCtx(src interface{}) (string, *encCtx) {
	c := newEncCtx()
	if src == nil {
		return "nil", c
	}
	s, _ := encodeValueCtx(reflect.ValueOf(src), c)
	return N("val", X(reflect.TypeOf(src).String()), s), c
}

func encodeRM(rm map[string]string) string {
	var kvs []string
	for k, v := range rm {
		kvs = append(kvs, N("kv", X(k), X(v)))
	}
	return N("rm", kvs...)
}

func encodeFns(tag string, fns map[string]string) string {
	var fs []string
	for n, m := range fns {
		fs = append(fs, N("fn", X(n), X(m)))
	}
	return N(tag, fs...)
}
