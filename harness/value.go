package main

import (
	"math"
	"reflect"
	"strconv"
	"time"
)

var timeType = reflect.TypeOf(time.Time{})
var tagNames = []string{"valid", "alipay", "wechat"}

// encodeValue renders a Go value in the wire format of lean/PGV/Driver/Value.lean, using only
// reflect (never the repository under test).
func encodeValue(v reflect.Value) string {
	switch v.Kind() {
	case reflect.String:
		return N("str", X(v.String()))
	case reflect.Bool:
		return N("bool", B(v.Bool()))
	case reflect.Int, reflect.Int8, reflect.Int16, reflect.Int32, reflect.Int64:
		return N("int", I(int64(bitsOf(v.Kind()))), I(v.Int()))
	case reflect.Uint, reflect.Uint8, reflect.Uint16, reflect.Uint32, reflect.Uint64:
		return N("uint", I(int64(bitsOf(v.Kind()))), U(v.Uint()))
	case reflect.Float32, reflect.Float64:
		bits := 64
		if v.Kind() == reflect.Float32 {
			bits = 32
		}
		f := v.Float()
		return N("float", I(int64(bits)), U(math.Float64bits(f)),
			X(strconv.FormatFloat(f, 'f', -1, 64)), X(strconv.FormatFloat(f, 'f', -1, bits)))
	case reflect.Ptr:
		if v.IsNil() {
			return N("ptr", X(v.Type().String()), "nil")
		}
		return N("ptr", X(v.Type().String()), encodeValue(v.Elem()))
	case reflect.Interface:
		if v.IsNil() {
			return N("iface", "nil")
		}
		return N("iface", encodeValue(v.Elem()))
	case reflect.Slice:
		args := []string{X(v.Type().String()), X(v.Type().Elem().String()), B(v.IsNil())}
		for i := 0; i < v.Len(); i++ {
			args = append(args, encodeValue(v.Index(i)))
		}
		return N("slice", args...)
	case reflect.Array:
		args := []string{X(v.Type().String()), X(v.Type().Elem().String())}
		for i := 0; i < v.Len(); i++ {
			args = append(args, encodeValue(v.Index(i)))
		}
		return N("array", args...)
	case reflect.Map:
		args := []string{X(v.Type().String()), B(v.Type().Key().Kind() == reflect.String), B(v.IsNil())}
		it := v.MapRange()
		for it.Next() {
			args = append(args, N("e", encodeValue(it.Key()), encodeValue(it.Value())))
		}
		return N("map", args...)
	case reflect.Struct:
		t := v.Type()
		args := []string{X(t.String()), X(t.Name()), B(t == timeType)}
		if t == timeType {
			// opaque: one synthetic field carrying zero-ness
			args = append(args, N("f", X("wall"), B(false), B(false), N("tags"), N("bool", B(!v.IsZero()))))
			return N("struct", args...)
		}
		for i := 0; i < t.NumField(); i++ {
			sf := t.Field(i)
			var tags []string
			for _, tn := range tagNames {
				if tv, ok := sf.Tag.Lookup(tn); ok {
					tags = append(tags, N("t", X(tn), X(tv)))
				}
			}
			args = append(args, N("f", X(sf.Name), B(sf.PkgPath == ""), B(sf.Type == timeType), N("tags", tags...), encodeValue(v.Field(i))))
		}
		return N("struct", args...)
	default:
		return N("other", I(int64(v.Kind())), X(v.Type().String()), X(v.Type().Name()), B(v.IsZero()))
	}
}

func bitsOf(k reflect.Kind) int {
	switch k {
	case reflect.Int8, reflect.Uint8:
		return 8
	case reflect.Int16, reflect.Uint16:
		return 16
	case reflect.Int32, reflect.Uint32, reflect.Float32:
		return 32
	case reflect.Int64, reflect.Uint64, reflect.Float64:
		return 64
	}
	return 0
}

// encodeSrc: what is passed as `src interface{}`
func encodeSrc(src interface{}) string {
	if src == nil {
		return "nil"
	}
	return N("val", X(reflect.TypeOf(src).String()), encodeValue(reflect.ValueOf(src)))
}

func encodeRM(rm map[string]string) string {
	var kvs []string
	for k, v := range rm {
		kvs = append(kvs, N("kv", X(k), X(v)))
	}
	return N("rm", kvs...)
}

func encodeFns(tag string, fns map[string]string) string {
	var fs []string
	for n, m := range fns {
		fs = append(fs, N("fn", X(n), X(m)))
	}
	return N(tag, fs...)
}
