package main

import (
	"math"
	"fmt"
	"math/rand/v2"
	"reflect"
	"strings"
	"sync"

	"gitee.com/xuesongtao/protoc-go-valid/valid"
)

// C08 / C11 / C12: histories of heterogeneous calls over a pool of struct types that is larger than
// any cache capacity used, under several cache implementations, sequentially and concurrently.  Every
// call's result is compared with the model's result for that call alone (fresh state).

// ---- a deterministic pool of struct types ------------------------------------------------------

var (
	poolOnce  sync.Once
	typePool  []reflect.Type
	poolSizeN = 700
)

func buildPool() {
	poolOnce.Do(func() {
		r := rand.New(rand.NewPCG(20240607, 99))
		g := &wgen{r: r, o: defaultRuleOpts, maxDepth: 2, maxField: 4, maxRules: 3, pNested: 0.15}
		seen := map[reflect.Type]bool{}
		for len(typePool) < poolSizeN {
			t := g.structType(1 + r.IntN(2))
			if !seen[t] && t.NumField() > 0 {
				seen[t] = true
				typePool = append(typePool, t)
			}
		}
	})
}

// struct types reachable from t's fields through pointers, slices, arrays and map elements (time.Time excluded)
func nestedStructTypes(t reflect.Type, depth int, out *[]reflect.Type) {
	if depth > 2 {
		return
	}
	for i := 0; i < t.NumField(); i++ {
		ft := t.Field(i).Type
		for k := 0; k < 4; k++ {
			switch ft.Kind() {
			case reflect.Ptr, reflect.Slice, reflect.Array, reflect.Map:
				ft = ft.Elem()
			}
		}
		if ft.Kind() == reflect.Struct && ft != timeType && ft.NumField() > 0 {
			*out = append(*out, ft)
			nestedStructTypes(ft, depth+1, out)
		}
	}
}

// rule objects that live across calls and are edited in place between them (same map, new contents)
var (
	sharedRMMu sync.Mutex
	sharedRMs  = map[reflect.Type]valid.RM{}
)

// historyCase: a Struct call on a pooled (or named, or fresh) type with a random configuration
func historyCase(r *rand.Rand, hot int) Case {
	buildPool()
	p := profRM
	g := p.gen(r)
	var t reflect.Type
	switch x := r.Float64(); {
	case x < 0.15:
		t = pick(r, namedStructs)
	case x < 0.75:
		t = typePool[r.IntN(hot)] // a hot subset: reuse is frequent
	case x < 0.95:
		t = typePool[r.IntN(len(typePool))] // the whole pool: more keys than any capacity
	default:
		t = g.structType(2)
	}
	var inner []reflect.Type
	nestedStructTypes(t, 0, &inner)
	if len(inner) > 0 && chance(r, 0.12) {
		// a type that is usually met as a sub-object, validated on its own (so that it enters the cache by itself,
		// before or after the types that contain it)
		t = pick(r, inner)
		inner = nil
		nestedStructTypes(t, 0, &inner)
	}
	pv := reflect.New(t)
	g.fill(pv.Elem(), 0)
	call := structCall{src: pv.Interface()}
	tags := []string{"top:" + kindLabel(t)}
	if chance(r, 0.45) {
		call.tag = pick(r, []string{"alipay", "wechat", "valid"})
		tags = append(tags, "tag:"+call.tag)
	}
	if chance(r, 0.35) {
		rm := valid.RM{}
		for i := 0; i < t.NumField(); i++ {
			if chance(r, 0.5) {
				f := t.Field(i)
				rm[f.Name] = randRuleList(r, f.Type.Kind(), pv.Elem().Field(i), 3, g.o)
			}
		}
		if sharedOn && chance(r, 0.25) {
			// the caller's long-lived rule object for this type: the same map as last time, edited in place
			sharedRMMu.Lock()
			old, ok := sharedRMs[t]
			if ok {
				for k := range old {
					if chance(r, 0.5) {
						delete(old, k)
					}
				}
				for k, v := range rm {
					old[k] = v
				}
				rm = old
			} else {
				sharedRMs[t] = rm
			}
			sharedRMMu.Unlock()
			tags = append(tags, "rm:shared-object")
		}
		if chance(r, 0.5) {
			call.outer = rm
			tags = append(tags, "rm:outer")
		} else {
			call.typed = map[interface{}]valid.RM{reflect.New(t).Interface(): rm}
			tags = append(tags, "rm:typed")
		}
	}
	if len(inner) > 0 && chance(r, 0.3) {
		// a rule set registered for the type of a sub-object (it applies wherever that type occurs below the root)
		nt := pick(r, inner)
		rm := valid.RM{}
		for i := 0; i < nt.NumField(); i++ {
			if f := nt.Field(i); f.PkgPath == "" && chance(r, 0.6) {
				rm[f.Name] = pick(r, []string{"required", "required|inner", "to=1~2", "ge=1", "exist", "required,le=3"})
			}
		}
		if call.typed == nil {
			call.typed = map[interface{}]valid.RM{}
		}
		if _, dup := call.typed[reflect.New(nt).Interface()]; !dup && nt != t {
			call.typed[reflect.New(nt).Interface()] = rm
			tags = append(tags, "rm:typed-inner")
		}
	}
	if chance(r, 0.25) {
		call.local = map[string]string{"lcustom": "L1"}
		if chance(r, 0.4) {
			call.local[pick(r, []string{"phone", "to", "int", "gcustom", "lshadow", "required"})] = "L3"
		}
		tags = append(tags, "fns:local")
	}
	call.alt = chance(r, 0.5)
	if slowOn && chance(r, 0.0015) {
		// a validation that is under way for a long time (its first rule is a slow per-call function) while the other
		// goroutines push hundreds of further types through the cache: the rest of its fields must still be judged
		t = g.structType(2)
		pv = reflect.New(t)
		rm := valid.RM{}
		first := true
		for i := 0; i < t.NumField(); i++ {
			f := t.Field(i)
			if f.PkgPath != "" {
				continue
			}
			if first {
				rm[f.Name], first = "lslow", false
			} else {
				rm[f.Name] = "required"
			}
		}
		// the first field holds a value (rules other than required are not evaluated on empty ones), the others are empty
		var f0 reflect.Value
		for i := 0; i < t.NumField(); i++ {
			if t.Field(i).PkgPath == "" {
				f0 = pv.Elem().Field(i)
				break
			}
		}
		for k := 0; k < 6 && f0.IsValid() && f0.IsZero(); k++ {
			g.fill(f0, 0)
		}
		if len(rm) >= 2 && f0.IsValid() && !f0.IsZero() {
			call = structCall{src: pv.Interface(), outer: rm, local: map[string]string{"lslow": slowMarker}}
			tags = []string{"top:slow-call"}
		}
	}
	return call.toCase(tags, "")
}

var slowOn bool

// sharedOn: only in sequential streams (one goroutine owns the long-lived rule objects)
var sharedOn bool

// guard2: guard for a pair of results obtained together
func guard2(f func() (string, string)) (a, b string) {
	defer func() {
		if r := recover(); r != nil {
			a = N("panic", X(fmt.Sprint(r)))
			b = a
		}
	}()
	return f()
}

// twoLiveCase: two validators of one kind alive at the same time in one goroutine — created, configured,
// then used one after the other.  Each result must be the result of that call alone.
func twoLiveCase(r *rand.Rand) Case {
	if chance(r, 0.5) {
		mk := func() (interface{}, []string) {
			v := flatValue(r)
			rv := reflect.ValueOf(v)
			var rules []string
			for i, n := 0, r.IntN(3); i < n; i++ {
				rules = append(rules, randRuleItem(r, rv.Kind(), rv, defaultRuleOpts))
			}
			return v, rules
		}
		x, rx := mk()
		y, ry := mk()
		ea, eb := guard2(func() (string, string) {
			a, b := valid.NewVVar(), valid.NewVVar()
			if len(rx) > 0 {
				a.SetRules(rx...)
			}
			if len(ry) > 0 {
				b.SetRules(ry...)
			}
			return errStr(a.Valid(x)), errStr(b.Valid(y))
		})
		if chance(r, 0.5) {
			return varCaseWith(x, rx, []string{"carrier:var", "two-live:first"}, "", ea)
		}
		return varCaseWith(y, ry, []string{"carrier:var", "two-live:second"}, "", eb)
	}
	buildPool()
	g := profRM.gen(r)
	mk := func() structCall {
		t := typePool[r.IntN(24)]
		pv := reflect.New(t)
		g.fill(pv.Elem(), 0)
		c := structCall{src: pv.Interface()}
		if chance(r, 0.5) {
			c.tag = pick(r, []string{"alipay", "wechat", "valid"})
		}
		if chance(r, 0.4) {
			rm := valid.RM{}
			for i := 0; i < t.NumField(); i++ {
				if chance(r, 0.5) {
					f := t.Field(i)
					rm[f.Name] = randRuleList(r, f.Type.Kind(), pv.Elem().Field(i), 3, g.o)
				}
			}
			c.outer = rm
		}
		if chance(r, 0.3) {
			c.local = map[string]string{"lcustom": "L1", pick(r, []string{"phone", "to", "int", "required"}): "L3"}
		}
		return c
	}
	ca, cb := mk(), mk()
	build := func(c structCall) *valid.VStruct {
		var vs *valid.VStruct
		if c.tag != "" {
			vs = valid.NewVStruct(c.tag)
		} else {
			vs = valid.NewVStruct()
		}
		if c.outer != nil {
			vs.SetRule(c.outer)
		}
		for n, m := range c.local {
			vs.SetValidFn(n, markerFn(m))
		}
		return vs
	}
	ea, eb := guard2(func() (string, string) {
		va, vb := build(ca), build(cb)
		return errStr(va.Valid(ca.src)), errStr(vb.Valid(cb.src))
	})
	pickC, impl, tag := ca, ea, "two-live:first"
	if chance(r, 0.5) {
		pickC, impl, tag = cb, eb, "two-live:second"
	}
	cfg := pickC.cfgSexp()
	src, sp := encodeSrcCtx(pickC.src)
	return Case{
		OpFn: func(ext string) string { return "struct " + cfg + " " + ext + " " + src },
		Impl: impl, Tags: []string{"top:pool", tag}, Nontrivial: impl != "nil", Sprint: sp,
	}
}

// ---- results handed out earlier must stay fixed -----------------------------------------------------

type retained struct {
	orig string // the string the library returned (possibly aliasing an internal buffer)
	copy string // hex copy taken at return time
	what string
}

var (
	retainMu   sync.Mutex
	retainedXs []retained
	retainOn   bool
)

// error VALUES handed out (not only their text): Error() must keep answering what it answered first
type retainedErr struct {
	err  error
	copy string
}

var retainedErrs []retainedErr

func retainError(err error) {
	if !retainOn || err == nil {
		return
	}
	retainMu.Lock()
	if len(retainedErrs) < 5000 {
		retainedErrs = append(retainedErrs, retainedErr{err, X(err.Error())})
	}
	retainMu.Unlock()
}

func retain(what, s string) {
	if !retainOn {
		return
	}
	retainMu.Lock()
	if len(retainedXs) < 20000 {
		retainedXs = append(retainedXs, retained{orig: s, copy: X(s), what: what})
	}
	retainMu.Unlock()
}

func retainedCases() []Case {
	retainMu.Lock()
	defer retainMu.Unlock()
	var out []Case
	bad := 0
	for _, x := range retainedXs {
		now := X(x.orig)
		if now != x.copy {
			bad++
			if bad <= 5 {
				out = append(out, Case{Op: "same " + x.copy, Impl: now, Tags: []string{"retained:" + x.what + ":changed"}, Nontrivial: true})
			}
		}
	}
	for _, x := range retainedErrs {
		if now := X(x.err.Error()); now != x.copy {
			bad++
			if bad <= 5 {
				out = append(out, Case{Op: "same " + x.copy, Impl: now, Tags: []string{"retained:error-value:changed"}, Nontrivial: true})
			}
		}
	}
	out = append(out, Case{Op: "same " + X(fmt.Sprintf("retained=%d changed=%d", len(retainedXs), 0)),
		Impl: X(fmt.Sprintf("retained=%d changed=%d", len(retainedXs), bad)), Tags: []string{"retained:summary"}, Nontrivial: true})
	return out
}

// a call whose outputs are kept: error string of a validation, tokens of ValidNamesSplit
func retainCase(r *rand.Rand) {
	rule := randRuleList(r, reflect.String, reflect.Value{}, 4, defaultRuleOpts)
	if chance(r, 0.7) {
		rule += ",re='a,b'|msg,in=('x,y'/z)"
	}
	// a panic here is the implementation's; it is observed (and judged) by the validation cases of the
	// stream, not by this bookkeeping
	defer func() { _ = recover() }()
	for _, tok := range valid.ValidNamesSplit(rule) {
		retain("token", tok)
	}
	if err := valid.Var(fmtString(r, ""), rule); err != nil {
		retain("error", err.Error())
		retainError(err)
	}
	if err := valid.Struct(&boomProbe{A: fmtString(r, "")}, valid.RM{"A": rule, "B": "required"}); err != nil {
		retainError(err)
	}
}

// dumps between validations: the dumper shares the builder pool with the validators; a value the standard
// encoder rejects (NaN, func) takes the dumper's fallback path
type dumpProbe struct {
	A string
	F float64
	G func()
	N *dumpProbe
}

func dumpAside(r *rand.Rand) {
	defer func() { _ = recover() }()
	v := &dumpProbe{A: randString(r, 4), F: pick(r, []float64{0, 1.5, math.NaN(), math.Inf(1)})}
	if chance(r, 0.3) {
		v.G = func() {}
	}
	if chance(r, 0.3) {
		v.N = &dumpProbe{F: math.NaN()}
	}
	if chance(r, 0.5) {
		_ = valid.GetDumpStructStr(v)
	} else {
		_ = valid.GetDumpStructStrForJson(v)
	}
}

// a call whose per-call function panics after an earlier rule of the same call has already written a clause: the panic
// is the caller's own (recovered here, not judged); the calls that FOLLOW are judged as usual and must not see
// anything of it
type boomProbe struct {
	A  string
	E1 string
	E2 string
	B  string
	C  int
}

// the object a panicking call was validating is validated again later, as an ordinary judged call
var lastBoom *boomProbe

func panicAside(r *rand.Rand) {
	defer func() { _ = recover() }()
	boom := func(errBuf *strings.Builder, validName, objName, fieldName string, tv reflect.Value) { panic("user function") }
	if chance(r, 0.5) {
		vs := valid.NewVStruct()
		vs.SetRule(valid.RM{"A": "to=1~2", "E1": "either=9", "E2": "either=9", "B": "lboom", "C": "ge=5"}) // a group is pending when B's function panics
		vs.SetValidFn("lboom", boom)
		p := &boomProbe{A: "abcdef", B: "x", C: 1}
		if sharedOn {
			lastBoom = p
		}
		_ = vs.Valid(p)
	} else {
		_ = valid.NewVVar().SetRules("to=1~2", "lboom").SetValidFn("lboom", boom).Valid("abcdef")
	}
}

// ---- cache implementations -------------------------------------------------------------------------

type missCache struct{}

func (missCache) Load(key interface{}) (interface{}, bool) { return nil, false }
func (missCache) Store(key, value interface{})             {}

func setCache(name string) {
	switch name {
	case "default":
	case "syncmap":
		valid.SetStructTypeCache(new(sync.Map))
	case "miss":
		valid.SetStructTypeCache(missCache{})
	default:
		var c int
		fmt.Sscanf(strings.TrimPrefix(name, "lru"), "%d", &c)
		valid.SetStructTypeCache(valid.NewLRU(c))
	}
}

func init() {
	histRule := "histories of Struct calls over a pool of 700 synthesised struct types (a hot subset of 24 for frequent reuse, the whole pool to overflow every capacity) and the named types, " +
		"x three tag names x outer / typed rule overrides x per-call functions; each result is compared with the model's result for that call alone. non-trivial: the call returned an error; distinct by request"
	for _, cfg := range []string{"default", "lru0", "lru1", "lru2", "lru3", "lru8", "syncmap", "miss"} {
		cfg := cfg
		q, t := 6000, 100000
		if cfg == "default" {
			q, t = 12000, 250000
		}
		register(&Stream{
			Name: "cache-" + cfg, Rule: "type cache = " + cfg + " (installed with SetStructTypeCache before the first call; one process per configuration); sequential " + histRule,
			Size: map[string]int{"quick": q, "thorough": t}, Workers: 1,
			Setup: func(string) { setCache(cfg); sharedOn = true },
			Gen:   func(r *rand.Rand, tier string) Case { return historyCase(r, 24) },
		})
	}
	register(&Stream{
		Name: "history", Rule: "sequential " + histRule + "; mixed with Var / Map / Url calls; error strings and ValidNamesSplit tokens handed out along the way are re-read after all later calls",
		Size: map[string]int{"quick": 20000, "thorough": 400000}, Workers: 1,
		Setup: func(string) { retainOn, sharedOn = true, true },
		Gen: func(r *rand.Rand, tier string) Case {
			if chance(r, 0.1) {
				retainCase(r)
			}
			if chance(r, 0.05) {
				dumpAside(r)
			}
			if chance(r, 0.03) {
				panicAside(r)
			}
			if lastBoom != nil && chance(r, 0.02) {
				// the very object whose validation was cut short by the caller's panic, validated again by its tags-free rule set
				return structCall{src: lastBoom, outer: valid.RM{"A": "to=1~2", "E1": "either=9", "E2": "either=9", "C": "ge=5"}}.toCase([]string{"top:after-panic"}, "")
			}
			switch r.IntN(9) {
			case 8:
				return twoLiveCase(r)
			case 0:
				return flatVarCase(r, defaultRuleOpts)
			case 1:
				return flatMapCase(r, defaultRuleOpts)
			case 2:
				return flatUrlCase(r, defaultRuleOpts)
			case 3:
				return walkerCase(r, profGroup)
			}
			return historyCase(r, 24)
		},
		Final: retainedCases,
	})
	register(&Stream{
		Name: "conc", Rule: "32 goroutines, each issuing its own stream of Struct (tags, overrides, per-call functions, shared hot types and the whole pool), Var, Map and Url calls at the same time; " +
			"every result is compared with the model's result for that call alone; built with -race in the C11 check. non-trivial: the call returned an error; distinct by request",
		Size: map[string]int{"quick": 40000, "thorough": 600000}, Workers: 32,
		Setup: func(string) { retainOn, slowOn = true, true },
		Gen: func(r *rand.Rand, tier string) Case {
			if chance(r, 0.05) {
				retainCase(r)
			}
			if chance(r, 0.02) {
				panicAside(r)
			}
			switch r.IntN(9) {
			case 8:
				return twoLiveCase(r)
			case 0:
				return flatVarCase(r, defaultRuleOpts)
			case 1:
				return flatMapCase(r, defaultRuleOpts)
			case 2:
				return flatUrlCase(r, defaultRuleOpts)
			}
			return historyCase(r, 24)
		},
		Final: retainedCases,
	})
	register(&Stream{
		Name: "conc-lru2", Rule: "as conc, with the type cache replaced by NewLRU(2) (continuous eviction under concurrency)",
		Size: map[string]int{"quick": 20000, "thorough": 300000}, Workers: 32,
		Setup: func(string) { setCache("lru2") },
		Gen:   func(r *rand.Rand, tier string) Case { return historyCase(r, 24) },
	})
}
