package main

import (
	"fmt"
	"math/rand/v2"
	"sort"
	"strings"
	"sync"
	"sync/atomic"
	"time"

	"gitee.com/xuesongtao/protoc-go-valid/valid"
)

// C10: the LRU cache under concurrent use.  Small histories (invoke / return stamps from one atomic
// clock) are searched for a linearization against a sequential bounded-LRU written here; the witness
// order is then replayed in the Lean driver, whose model and spec must reproduce every observed
// result.  Large histories are checked at quiescence.  The C10 check runs this stream under -race.

type cop struct {
	kind    byte // s g d n
	k, v    int
	inv, rt int64
	hit     bool
	val     int
	n       int
}

func (o cop) sexp() string {
	switch o.kind {
	case 's':
		return N("s", I(int64(o.k)), I(int64(o.v)))
	case 'g':
		return N("g", I(int64(o.k)))
	case 'd':
		return N("d", I(int64(o.k)))
	}
	return N("n")
}

// sequential spec: most recent first
type seqLRU struct {
	cap int
	ks  []int
	vs  []int
}

func (s *seqLRU) clone() *seqLRU {
	return &seqLRU{s.cap, append([]int{}, s.ks...), append([]int{}, s.vs...)}
}
func (s *seqLRU) idx(k int) int {
	for i, x := range s.ks {
		if x == k {
			return i
		}
	}
	return -1
}
func (s *seqLRU) remove(i int) {
	s.ks = append(s.ks[:i], s.ks[i+1:]...)
	s.vs = append(s.vs[:i], s.vs[i+1:]...)
}
func (s *seqLRU) front(k, v int) {
	s.ks = append([]int{k}, s.ks...)
	s.vs = append([]int{v}, s.vs...)
}

// apply o; returns whether the observed result is what the spec gives, and the spec's output as s-expression
func (s *seqLRU) apply(o cop) (bool, string) {
	switch o.kind {
	case 's':
		if i := s.idx(o.k); i >= 0 {
			s.remove(i)
			s.front(o.k, o.v)
			return true, N("cb")
		}
		s.front(o.k, o.v)
		if len(s.ks) > s.cap {
			l := len(s.ks) - 1
			out := N("cb", N("p", I(int64(s.ks[l])), I(int64(s.vs[l]))))
			s.remove(l)
			return true, out
		}
		return true, N("cb")
	case 'g':
		if i := s.idx(o.k); i >= 0 {
			v := s.vs[i]
			s.remove(i)
			s.front(o.k, v)
			return o.hit && o.val == v, N("hit", I(int64(v)))
		}
		return !o.hit, N("miss")
	case 'd':
		if i := s.idx(o.k); i >= 0 {
			out := N("cb", N("p", I(int64(s.ks[i])), I(int64(s.vs[i]))))
			s.remove(i)
			return true, out
		}
		return true, N("cb")
	}
	return o.n == len(s.ks), N("len", I(int64(len(s.ks))))
}

func (s *seqLRU) key() string { return fmt.Sprint(s.ks, s.vs) }

// WGL search: ops[i] may be linearized next if no other remaining op returned before it was invoked
func linearize(cap int, ops []cop) ([]int, []string, bool) {
	n := len(ops)
	done := make([]bool, n)
	var order []int
	var outs []string
	seen := map[string]bool{}
	var rec func(st *seqLRU, left int) bool
	rec = func(st *seqLRU, left int) bool {
		if left == 0 {
			return true
		}
		var mask strings.Builder
		for _, d := range done {
			if d {
				mask.WriteByte('1')
			} else {
				mask.WriteByte('0')
			}
		}
		key := mask.String() + st.key()
		if seen[key] {
			return false
		}
		seen[key] = true
		minRet := int64(1 << 62)
		for i, o := range ops {
			if !done[i] && o.rt < minRet {
				minRet = o.rt
			}
		}
		for i, o := range ops {
			if done[i] || o.inv > minRet {
				continue
			}
			st2 := st.clone()
			ok, out := st2.apply(o)
			if !ok {
				continue
			}
			done[i] = true
			order = append(order, i)
			outs = append(outs, out)
			if rec(st2, left-1) {
				return true
			}
			done[i] = false
			order = order[:len(order)-1]
			outs = outs[:len(outs)-1]
		}
		return false
	}
	ok := rec(&seqLRU{cap: cap}, n)
	return order, outs, ok
}

func lruConcCase(r *rand.Rand, tier string) Case {
	capN := r.IntN(9)
	small := chance(r, 0.7)
	g := 2 + r.IntN(3)
	perG := 3 + r.IntN(5)
	keys := 1 + r.IntN(4)
	if !small {
		g = 2 + r.IntN(15)
		perG = 500 + r.IntN(1500)
		keys = pick(r, []int{2, 3, capN + 1, 2*capN + 3, 64})
	}
	c := valid.NewLRU(capN)
	var clock int64
	all := make([][]cop, g)
	seeds := make([]uint64, g)
	for i := range seeds {
		seeds[i] = r.Uint64()
	}
	var wg sync.WaitGroup
	var panicked atomic.Value
	start := make(chan struct{})
	for gi := 0; gi < g; gi++ {
		wg.Add(1)
		go func(gi int) {
			defer wg.Done()
			defer func() {
				if e := recover(); e != nil {
					panicked.Store(fmt.Sprint(e))
				}
			}()
			rr := rand.New(rand.NewPCG(seeds[gi], uint64(gi)))
			<-start
			for j := 0; j < perG; j++ {
				o := cop{k: rr.IntN(keys), v: rr.IntN(3) + 10*gi}
				switch x := rr.IntN(10); {
				case x < 4:
					o.kind = 's'
				case x < 7:
					o.kind = 'g'
				case x < 9:
					o.kind = 'd'
				default:
					o.kind = 'n'
				}
				o.inv = atomic.AddInt64(&clock, 1)
				switch o.kind {
				case 's':
					c.Store(o.k, o.v)
				case 'g':
					v, ok := c.Load(o.k)
					o.hit = ok
					if ok {
						o.val = v.(int)
					}
				case 'd':
					c.Delete(o.k)
				case 'n':
					o.n = c.Len()
				}
				o.rt = atomic.AddInt64(&clock, 1)
				if small {
					all[gi] = append(all[gi], o)
				} else if o.kind == 'n' && (o.n < 0 || o.n > capN) {
					panicked.Store(fmt.Sprintf("Len() = %d with capacity %d", o.n, capN))
				}
				if !small && j%97 == 0 {
					_ = c.Dump()
				}
			}
		}(gi)
	}
	close(start)
	fin := make(chan struct{})
	go func() { wg.Wait(); close(fin) }()
	select {
	case <-fin:
	case <-time.After(20 * time.Second):
		return Case{Op: "same " + X("all goroutines return"), Impl: X("deadlock: goroutines still blocked after 20s"), Tags: []string{"lru-conc:deadlock"}, Nontrivial: true}
	}
	tags := []string{fmt.Sprintf("cap:%d", capN), fmt.Sprintf("goroutines:%d", min(g, 8)), map[bool]string{true: "history:small", false: "history:large"}[small]}
	if p := panicked.Load(); p != nil {
		return Case{Op: "same " + X("no panic, Len within [0,cap]"), Impl: X(p.(string)), Tags: tags, Nontrivial: true}
	}
	// quiescence: internal consistency and the capacity bound
	n := c.Len()
	dump := c.Dump()
	lines := 0
	if dump != "" {
		lines = strings.Count(dump, "\n") + 1
	}
	if n < 0 || n > capN || lines != n {
		return Case{Op: "same " + X("at quiescence 0 <= Len <= cap and Dump has Len entries"),
			Impl: X(fmt.Sprintf("Len=%d cap=%d dump-lines=%d", n, capN, lines)), Tags: tags, Nontrivial: true}
	}
	if !small {
		return Case{Op: "same " + X("quiescent-ok"), Impl: X("quiescent-ok"), Tags: tags, Nontrivial: true}
	}
	var ops []cop
	for _, l := range all {
		ops = append(ops, l...)
	}
	sort.Slice(ops, func(i, j int) bool { return ops[i].inv < ops[j].inv })
	order, outs, ok := linearize(capN, ops)
	if !ok {
		var sb strings.Builder
		for _, o := range ops {
			sb.WriteString(fmt.Sprintf("[%d,%d] %c k=%d v=%d hit=%v val=%d n=%d; ", o.inv, o.rt, o.kind, o.k, o.v, o.hit, o.val, o.n))
		}
		return Case{Op: "same " + X("linearizable"), Impl: X("NOT linearizable (cap " + fmt.Sprint(capN) + "): " + sb.String()), Tags: append(tags, "lin:none"), Nontrivial: true}
	}
	// the witness order, replayed in Lean: model and spec must give every observed / computed result
	var sx []string
	for _, i := range order {
		sx = append(sx, ops[i].sexp())
	}
	return Case{Op: "lru " + I(int64(capN)) + " " + N("l", sx...), Impl: N("l", outs...), Tags: append(tags, "lin:witness-replayed"), Nontrivial: true}
}

func init() {
	register(&Stream{
		Name: "lru-conc",
		Rule: "one LRUCache (capacity 0..8) hit by 2-16 goroutines with random Store/Load/Delete/Len/Dump streams over small and large key sets. Small histories (<= 4 goroutines x <= 7 ops, stamped by one atomic clock) " +
			"are searched for a linearization against a sequential LRU; the witness order is replayed in the Lean driver (model and spec must reproduce every result). Large histories (up to 16 x 2000 ops) are checked for " +
			"panics, deadlock, Len in [0,cap] during the run, and Len/Dump consistency at quiescence. non-trivial: every case; distinct by request",
		Size:    map[string]int{"quick": 3000, "thorough": 40000},
		Workers: 4,
		Gen:     func(r *rand.Rand, tier string) Case { return lruConcCase(r, tier) },
	})
}
