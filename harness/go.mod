module pgvh

go 1.23

require gitee.com/xuesongtao/protoc-go-valid v0.0.0

replace gitee.com/xuesongtao/protoc-go-valid => /repo
