// pgvh — the Go side of the correspondence check (T1) and the fact extractors (T2).
//
//	pgvh run -stream <name> -seed N -n N -tier quick|thorough -driver <path> -out <summary.json>
//	pgvh replay -stream <name> -seed N -index I -driver <path>
//	pgvh extract -repo /repo -out <dir>
//
// Every case is generated from a PRNG seeded by (seed, stream, index), run on the real
// implementation in-process (panics recovered), sent together with the implementation's result to
// the Lean driver, and classified from the driver's reply.
package main

import (
	"encoding/json"
	"flag"
	"fmt"
	"hash/fnv"
	"math/rand/v2"
	"os"
	"runtime"
	"sort"
	"strconv"
	"strings"
	"sync"
	"sync/atomic"
	"time"
)

type Case struct {
	OpFn       func(ext string) string // if set: request as a function of the residual table (ops with residuals)
	Op         string   // request: op and arguments
	Impl       string   // what the implementation returned (s-expression)
	Tags       []string // for the input-distribution report
	Nontrivial bool     // reached a non-default branch (stream-specific rule)
	Sprint     *encCtx  // answers to `sprint` residual queries about the case's value (may be nil)
}

type Stream struct {
	Name  string
	Rule  string                                // how cases are generated / what makes one non-trivial
	Fixed func() []Case                         // directed cases, run first (may be nil)
	Gen   func(r *rand.Rand, tier string) Case  // one random case
	Size  map[string]int                        // default number of random cases per tier
	// enumerated (exhaustive) streams: case i of EnumSize(tier); Gen is then unused
	Enum     func(i int, tier string) Case
	EnumSize func(tier string) int
	// Workers > 0 fixes the number of concurrent workers (1 = a sequential history); Setup runs once first
	Workers int
	Setup   func(tier string)
	// Final cases produced after all others (e.g. re-reading results handed out earlier)
	Final func() []Case
}

var streams = map[string]*Stream{}

func register(s *Stream) { streams[s.Name] = s }

type Failure struct {
	Kind   string `json:"kind"` // spec | corr | finding
	Stream string `json:"stream"`
	Seed   uint64 `json:"seed"`
	Index  int    `json:"index"` // -1-k for the k-th fixed case
	Op     string `json:"op"`
	Impl   string `json:"impl"`
	Model  string `json:"model"`
	Spec   string `json:"spec"`
	Scope  string `json:"scope"`
	Pretty string `json:"pretty"`
}

type Summary struct {
	Stalled            bool           `json:"stalled,omitempty"`
	Stream             string         `json:"stream"`
	Rule               string         `json:"rule"`
	Seed               uint64         `json:"seed"`
	Tier               string         `json:"tier"`
	Evaluations        int            `json:"evaluations"`
	DistinctNontrivial int            `json:"distinct_nontrivial"`
	InScope            int            `json:"in_scope"`
	OutOfScope         map[string]int `json:"out_of_scope"`
	FindingHits        map[string]int `json:"finding_hits"`
	SpecFailures       int            `json:"spec_failures"`
	CorrFailures       int            `json:"corr_failures"`
	Failures           []Failure      `json:"failures"`
	Dist               map[string]int `json:"distribution"`
	Samples            []string       `json:"samples"`
	WallS              float64        `json:"wall_s"`
	Error              string         `json:"error,omitempty"`
}

func caseRand(seed uint64, stream string, index int) *rand.Rand {
	h := fnv.New64a()
	h.Write([]byte(stream))
	return rand.New(rand.NewPCG(seed^h.Sum64(), uint64(index)*0x9E3779B97F4A7C15+1))
}

type collector struct {
	mu       sync.Mutex
	sum      *Summary
	distinct map[uint64]struct{}
	maxFail  int
}

// enough: the run may stop generating cases
func (c *collector) enough() bool {
	c.mu.Lock()
	defer c.mu.Unlock()
	return c.sum.SpecFailures >= 25
}

// progress is bumped whenever a case has been judged; the stall watchdog reads it
var progress atomic.Int64

func (c *collector) add(stream string, seed uint64, index int, cs Case, r Reply) {
	progress.Add(1)
	c.mu.Lock()
	defer c.mu.Unlock()
	s := c.sum
	s.Evaluations++
	for _, t := range cs.Tags {
		s.Dist[t]++
	}
	if cs.Nontrivial {
		h := fnv.New64a()
		h.Write([]byte(cs.Op))
		c.distinct[h.Sum64()] = struct{}{}
	}
	if len(s.Samples) < 5 && (cs.Nontrivial || index < 0) {
		s.Samples = append(s.Samples, prettySexp(cs.Op)+" | "+prettySexp(cs.Impl))
	}
	kind := ""
	switch {
	case r.Spec == "fails" && r.Scope == "in":
		kind = "spec"
		s.SpecFailures++
	case r.Spec == "fails" && len(r.Scope) > 3 && r.Scope[:3] == "kf:":
		kind = "finding"
		s.FindingHits[r.Scope[3:]]++
	case r.Spec == "fails":
		s.OutOfScope[r.Scope]++
	}
	if r.Scope == "in" {
		s.InScope++
	} else if r.Spec != "fails" {
		s.OutOfScope[r.Scope]++
	}
	if !r.Agree {
		s.CorrFailures++
		if kind == "" {
			kind = "corr"
		}
	}
	if kind != "" {
		f := Failure{Kind: kind, Stream: stream, Seed: seed, Index: index, Op: cs.Op, Impl: cs.Impl,
			Model: r.Model, Spec: r.Spec, Scope: r.Scope,
			Pretty: prettySexp(cs.Op) + "\n  impl : " + prettySexp(cs.Impl) + "\n  model: " + prettySexp(r.Model)}
		// keep the smallest failures of each kind
		s.Failures = append(s.Failures, f)
		if len(s.Failures) > 4*c.maxFail {
			c.trim()
		}
	}
}

func (c *collector) trim() {
	s := c.sum
	sort.SliceStable(s.Failures, func(i, j int) bool {
		a, b := s.Failures[i], s.Failures[j]
		if a.Kind != b.Kind {
			return kindRank(a.Kind) < kindRank(b.Kind)
		}
		return len(a.Op) < len(b.Op)
	})
	// keep at most maxFail per (kind, scope)
	cnt := map[string]int{}
	out := s.Failures[:0]
	for _, f := range s.Failures {
		k := f.Kind + "/" + f.Scope
		if cnt[k] < c.maxFail {
			out = append(out, f)
			cnt[k]++
		}
	}
	s.Failures = out
}

func kindRank(k string) int {
	switch k {
	case "spec":
		return 0
	case "corr":
		return 1
	}
	return 2
}

// ask sends one case to the driver (resolving residual queries) and fills cs.Op with the final request
func ask(d *Driver, cs *Case) (Reply, error) {
	if cs.OpFn == nil {
		return d.Ask(cs.Op + " | " + cs.Impl)
	}
	r, line, err := askWithExt(d, cs.Sprint, func(ext string) string { return cs.OpFn(ext) + " | " + cs.Impl })
	if i := strings.LastIndex(line, " | "); i >= 0 {
		cs.Op = line[:i]
	}
	return r, err
}

func runStream(st *Stream, seed uint64, n int, tier, driverPath string, workers int) *Summary {
	sum := &Summary{Stream: st.Name, Rule: st.Rule, Seed: seed, Tier: tier,
		OutOfScope: map[string]int{}, FindingHits: map[string]int{}, Dist: map[string]int{}}
	col := &collector{sum: sum, distinct: map[uint64]struct{}{}, maxFail: 5}
	start := time.Now()
	var fixed []Case
	if st.Fixed != nil {
		fixed = st.Fixed()
	}
	// stall watchdog: when no case at all completes for stallS seconds, the implementation does not
	// return (deadlock / livelock).  That is reported as a failing case with the goroutine dump, and the
	// run ends (the blocked goroutines cannot be recovered).
	stallS := 120
	if v, err := strconv.Atoi(os.Getenv("PGVH_STALL_S")); err == nil && v > 0 {
		stallS = v
	}
	stalled := make(chan struct{})
	stopWatch := make(chan struct{})
	// memory watchdog: the harness itself needs a few hundred MB; a heap of several GB means the
	// implementation allocates without bound (reported like a stall, before the OOM killer strikes)
	memLimit := uint64(6) << 30
	if v, err := strconv.Atoi(os.Getenv("PGVH_MEM_LIMIT_MB")); err == nil && v > 0 {
		memLimit = uint64(v) << 20
	}
	stallWhy := "no call returned"
	go func() {
		last, lastT := progress.Load(), time.Now()
		tk := time.NewTicker(time.Second)
		defer tk.Stop()
		for {
			select {
			case <-stopWatch:
				return
			case <-tk.C:
				var ms runtime.MemStats
				runtime.ReadMemStats(&ms)
				if ms.HeapAlloc > memLimit {
					stallWhy = fmt.Sprintf("the heap grew to %d MB (limit %d MB)", ms.HeapAlloc>>20, memLimit>>20)
					close(stalled)
					return
				}
				if p := progress.Load(); p != last {
					last, lastT = p, time.Now()
				} else if time.Since(lastT) > time.Duration(stallS)*time.Second {
					close(stalled)
					return
				}
			}
		}
	}()
	var wg sync.WaitGroup
	errs := make(chan error, workers)
	for w := 0; w < workers; w++ {
		wg.Add(1)
		go func(w int) {
			defer wg.Done()
			d, err := StartDriver(driverPath)
			if err != nil {
				errs <- err
				return
			}
			defer d.Close()
			if w == 0 {
				for k, cs := range fixed {
					r, err := ask(d, &cs)
					if err != nil {
						errs <- err
						return
					}
					col.add(st.Name, seed, -1-k, cs, r)
				}
			}
			if st.Gen == nil && st.Enum == nil {
				return
			}
			for i := w; i < n; i += workers {
				if col.enough() {
					return // plenty of failing cases already: more add nothing (and may each wait for a timeout)
				}
				var cs Case
				if st.Enum != nil {
					cs = st.Enum(i, tier)
				} else {
					cs = st.Gen(caseRand(seed, st.Name, i), tier)
				}
				r, err := ask(d, &cs)
				if err != nil {
					errs <- err
					return
				}
				col.add(st.Name, seed, i, cs, r)
			}
		}(w)
	}
	done := make(chan struct{})
	go func() { wg.Wait(); close(done) }()
	select {
	case <-done:
		close(stopWatch)
	case <-stalled:
		buf := make([]byte, 1<<20)
		buf = buf[:runtime.Stack(buf, true)]
		dump := string(buf)
		if len(dump) > 12000 {
			dump = dump[:12000]
		}
		col.mu.Lock()
		sum.SpecFailures++
		sum.Failures = append(sum.Failures, Failure{Kind: "spec", Stream: st.Name, Seed: seed, Index: 0,
			Op:   fmt.Sprintf("(stall: %s; watchdog %d s; %d cases had completed)", stallWhy, stallS, sum.Evaluations),
			Impl: X(dump), Model: "every call returns", Spec: "fails", Scope: "in",
			Pretty: fmt.Sprintf("STALL under stream %s: %s (watchdog: %d s without a completed call = deadlock or livelock; heap limit = unbounded allocation); goroutines:\n%s", st.Name, stallWhy, stallS, dump)})
		sum.DistinctNontrivial = len(col.distinct)
		sum.WallS = time.Since(start).Seconds()
		sum.Stalled = true
		col.mu.Unlock()
		return sum
	}
	if st.Final != nil {
		if d, err := StartDriver(driverPath); err == nil {
			for k, cs := range st.Final() {
				if r, err := ask(d, &cs); err == nil {
					col.add(st.Name, seed, -1000-k, cs, r)
				}
			}
			d.Close()
		}
	}
	select {
	case err := <-errs:
		sum.Error = err.Error()
	default:
	}
	col.trim()
	sum.DistinctNontrivial = len(col.distinct)
	sum.WallS = time.Since(start).Seconds()
	return sum
}

func main() {
	if len(os.Args) < 2 {
		fmt.Fprintln(os.Stderr, "usage: pgvh run|replay|extract|list ...")
		os.Exit(2)
	}
	switch os.Args[1] {
	case "list":
		names := []string{}
		for k := range streams {
			names = append(names, k)
		}
		sort.Strings(names)
		for _, k := range names {
			fmt.Println(k)
		}
	case "run":
		fs := flag.NewFlagSet("run", flag.ExitOnError)
		name := fs.String("stream", "", "stream name")
		seed := fs.Uint64("seed", 1, "seed")
		n := fs.Int("n", -1, "number of random cases (-1: tier default)")
		tier := fs.String("tier", "quick", "quick|thorough")
		driver := fs.String("driver", "", "path of pgvdriver")
		out := fs.String("out", "", "summary json")
		workers := fs.Int("workers", runtime.NumCPU(), "parallel workers")
		fs.Parse(os.Args[2:])
		st := streams[*name]
		if st == nil {
			fmt.Fprintln(os.Stderr, "unknown stream", *name)
			os.Exit(2)
		}
		cnt := *n
		if cnt < 0 {
			if st.Enum != nil {
				cnt = st.EnumSize(*tier)
			} else {
				cnt = st.Size[*tier]
			}
		}
		if st.Workers > 0 {
			*workers = st.Workers
		}
		if st.Setup != nil {
			st.Setup(*tier)
		}
		sum := runStream(st, *seed, cnt, *tier, *driver, *workers)
		data, _ := json.MarshalIndent(sum, "", " ")
		if *out != "" {
			os.WriteFile(*out, data, 0644)
		} else {
			os.Stdout.Write(data)
		}
		if sum.Error != "" {
			fmt.Fprintln(os.Stderr, "error:", sum.Error)
			os.Exit(2)
		}
	case "replay":
		fs := flag.NewFlagSet("replay", flag.ExitOnError)
		name := fs.String("stream", "", "stream name")
		seed := fs.Uint64("seed", 1, "seed")
		index := fs.Int("index", 0, "case index (negative: fixed case -1-k)")
		tier := fs.String("tier", "quick", "tier the case was generated in")
		driver := fs.String("driver", "", "path of pgvdriver")
		fs.Parse(os.Args[2:])
		st := streams[*name]
		if st == nil {
			fmt.Fprintln(os.Stderr, "unknown stream", *name)
			os.Exit(2)
		}
		if st.Setup != nil {
			st.Setup(*tier)
		}
		var cs Case
		if st.Workers == 1 && *index > 0 && st.Gen != nil {
			// a sequential history: the case depends on the calls before it — re-run them in order
			for i := 0; i < *index; i++ {
				_ = st.Gen(caseRand(*seed, st.Name, i), *tier)
			}
		}
		if *index <= -1000 && st.Final != nil {
			// a final case (results re-read after the whole history): re-run the history of the tier's size
			n := st.Size[*tier]
			for i := 0; i < n; i++ {
				_ = st.Gen(caseRand(*seed, st.Name, i), *tier)
			}
			fin := st.Final()
			k := -1000 - *index
			if k < len(fin) {
				cs = fin[k]
			} else {
				cs = fin[len(fin)-1]
			}
		} else if *index < 0 {
			cs = st.Fixed()[-1-*index]
		} else if st.Enum != nil {
			cs = st.Enum(*index, *tier)
		} else {
			cs = st.Gen(caseRand(*seed, st.Name, *index), *tier)
		}
		d, err := StartDriver(*driver)
		if err != nil {
			fmt.Fprintln(os.Stderr, err)
			os.Exit(2)
		}
		defer d.Close()
		r, err := ask(d, &cs)
		if err != nil {
			fmt.Fprintln(os.Stderr, err)
			os.Exit(2)
		}
		fmt.Println("op   :", prettySexp(cs.Op))
		fmt.Println("impl :", prettySexp(cs.Impl))
		fmt.Println("model:", prettySexp(r.Model))
		fmt.Printf("agree=%v spec=%s scope=%s\n", r.Agree, r.Spec, r.Scope)
		res := map[string]interface{}{"agree": r.Agree, "spec": r.Spec, "scope": r.Scope}
		data, _ := json.Marshal(res)
		fmt.Println("RESULT", string(data))
	case "extract":
		extractMain(os.Args[2:])
	default:
		fmt.Fprintln(os.Stderr, "unknown command")
		os.Exit(2)
	}
}
