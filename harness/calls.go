package main

import (
	"time"
	"fmt"
	"reflect"
	"sync/atomic"
	"strings"

	"gitee.com/xuesongtao/protoc-go-valid/valid"
)

// marker functions registered as custom validators: they always write one clause naming
// themselves, so the function a rule name resolved to is visible in the error.
// slowMarker: a per-call function that takes its time (a look-up, a remote check) before it answers
const slowMarker = "SLOW"

var slowDur = 1500 * time.Millisecond

func markerFn(marker string) valid.CommonValidFn {
	return func(errBuf *strings.Builder, validName, objName, fieldName string, tv reflect.Value) {
		if marker == slowMarker {
			time.Sleep(slowDur)
		}
		errBuf.WriteString(valid.GetJoinValidErrStr(objName, fieldName, "", "custom:"+marker+":"+validName))
	}
}

func fnMap(local map[string]string) valid.Name2FnMap {
	m := valid.Name2FnMap{}
	for n, mk := range local {
		m[n] = markerFn(mk)
	}
	return m
}

// global registrations (SetCustomerValidFn) happen once at process start, before any validation,
// as the properties require.  The names are fixed; streams may use them.
var globalFns = map[string]string{"gcustom": "G1", "gshadow": "G2"}

func init() {
	for n, mk := range globalFns {
		valid.SetCustomerValidFn(n, markerFn(mk))
	}
}

type structCall struct {
	src   interface{}
	tag   string                 // "" = default
	outer valid.RM               // SetRule(rm)
	typed map[interface{}]valid.RM // SetRule(rm, obj), keyed by a pointer to the struct type
	local map[string]string      // per-call marker functions
	alt   bool                   // go through the exported convenience wrapper of valid.go that fits the configuration
	// shadowed: a rule set registered for the same type BEFORE the one in typed (SetRule twice: the later call replaces the earlier)
	shadowed map[reflect.Type]valid.RM
}

// viaWrapper: the same call through Struct / StructForFn / StructForFns / NestedStructForRule / ValidateStruct /
// ValidStructForRule / ValidStructForMyValidFn when one of them expresses the configuration
func (c structCall) viaWrapper() (string, bool) {
	tagArgs := []string{}
	if c.tag != "" {
		tagArgs = []string{c.tag}
	}
	switch {
	case c.outer == nil && len(c.typed) == 0 && len(c.local) == 0:
		if c.tag == "" {
			return errStr(valid.Struct(c.src)), true
		}
		return errStr(valid.ValidateStruct(c.src, tagArgs...)), true
	case c.outer != nil && len(c.typed) == 0 && len(c.local) == 0:
		if c.tag == "" && len(c.outer)%2 == 0 {
			return errStr(valid.Struct(c.src, c.outer)), true
		}
		if len(c.outer)%3 == 0 {
			return errStr(valid.ValidStructForRule(c.outer, c.src, tagArgs...)), true
		}
		return errStr(valid.StructForFn(c.src, c.outer, tagArgs...)), true
	case c.outer != nil && len(c.typed) == 0 && len(c.local) > 0:
		return errStr(valid.StructForFns(c.src, c.outer, fnMap(c.local), tagArgs...)), true
	case c.outer == nil && len(c.typed) > 0 && len(c.local) == 0 && c.tag == "":
		return errStr(valid.NestedStructForRule(c.src, c.typed)), true
	case c.outer == nil && len(c.typed) == 0 && len(c.local) == 1:
		for n, mk := range c.local {
			return errStr(valid.ValidStructForMyValidFn(c.src, n, markerFn(mk), tagArgs...)), true
		}
	}
	return "", false
}

func (c structCall) run() string {
	return guard(func() string {
		if c.alt && len(c.shadowed) == 0 {
			if out, ok := c.viaWrapper(); ok {
				return out
			}
		}
		var vs *valid.VStruct
		if c.tag != "" {
			vs = valid.NewVStruct(c.tag)
		} else {
			vs = valid.NewVStruct()
		}
		outerLast := c.alt && len(c.typed) > 0 // the unscoped rule set registered after the typed ones (the order of SetRule calls does not matter)
		if c.outer != nil && !outerLast {
			vs.SetRule(c.outer)
		}
		for obj, rm := range c.typed {
			t := reflect.TypeOf(obj)
			for t.Kind() == reflect.Ptr {
				t = t.Elem()
			}
			if first, ok := c.shadowed[t]; ok {
				vs.SetRule(first, reflect.New(t).Elem().Interface()) // by value; replaced by the next call
			}
			vs.SetRule(rm, obj)
		}
		if c.outer != nil && outerLast {
			vs.SetRule(c.outer)
		}
		for n, mk := range c.local {
			vs.SetValidFn(n, markerFn(mk))
		}
		return errStr(vs.Valid(c.src))
	})
}

func (c structCall) cfgSexp() string {
	tag := c.tag
	if tag == "" {
		tag = "valid"
	}
	var typed []string
	for obj, rm := range c.typed {
		t := reflect.TypeOf(obj)
		for t.Kind() == reflect.Ptr {
			t = t.Elem()
		}
		typed = append(typed, N("t", X(typeKey(t)), encodeRM(rm)))
	}
	outer := map[string]string{}
	if c.outer != nil {
		outer = c.outer
	}
	return N("cfg", X(tag), N("typed", typed...), encodeRM(outer), encodeFns("lfns", c.local), encodeFns("gfns", globalFns))
}

// copyRM / sameRM: the caller's rule maps must come back unchanged
func copyRM(m map[string]string) map[string]string {
	if m == nil {
		return nil
	}
	out := make(map[string]string, len(m))
	for k, v := range m {
		out[k] = v
	}
	return out
}

// inputFP: canonical rendering of the caller's value (maps sorted) — the call must leave it unchanged
func inputFP(src interface{}) string {
	if src == nil {
		return "nil"
	}
	_, fp := encodeValueCtx(reflect.ValueOf(src), nil)
	return fp
}

// observed runs a call and reports, instead of its result, any modification of the caller's value or rule maps
func observed(src interface{}, rms []map[string]string, call func() string) string {
	before := inputFP(src)
	copies := make([]map[string]string, len(rms))
	for i, m := range rms {
		copies[i] = copyRM(m)
	}
	impl := call()
	if after := inputFP(src); after != before {
		return X("THE CALL MODIFIED ITS INPUT VALUE: before " + before + " after " + after)
	}
	for i, m := range rms {
		if !reflect.DeepEqual(m, copies[i]) {
			return X(fmt.Sprintf("THE CALL MODIFIED A RULE MAP OF THE CALLER: before %v after %v", copies[i], m))
		}
	}
	return impl
}

func (c structCall) ruleMaps() []map[string]string {
	rms := []map[string]string{c.outer}
	for _, rm := range c.typed {
		rms = append(rms, rm)
	}
	for _, rm := range c.shadowed {
		rms = append(rms, rm)
	}
	return rms
}

func (c structCall) toCase(tags []string, probe string) Case {
	impl := observed(c.src, c.ruleMaps(), c.run)
	cfg := c.cfgSexp()
	src, sp := encodeSrcCtx(c.src)
	return Case{
		OpFn: func(ext string) string { return "struct " + cfg + " " + ext + " " + src + probe },
		Impl: impl, Tags: tags, Nontrivial: impl != "nil", Sprint: sp,
	}
}

// varAltCounter alternates the API forms of a rule-less Var call (no SetRules call at all)
var varAltCounter atomic.Int64

func varCase(src interface{}, rules []string, tags []string, probe string) Case {
	impl := observed(src, nil, func() string {
		return guard(func() string {
			if len(rules) == 0 {
				// the same call without touching the rule table: a validator straight from the pool, or VarForFn
				switch varAltCounter.Add(1) % 3 {
				case 0:
					return errStr(valid.NewVVar().Valid(src))
				case 1:
					return errStr(valid.VarForFn(src, markerFn("unused")))
				}
			}
			return errStr(valid.Var(src, rules...))
		})
	})
	return varCaseWith(src, rules, tags, probe, impl)
}

// varCaseWith: the request for Var(src, rules...) with a result obtained by the caller
func varCaseWith(src interface{}, rules []string, tags []string, probe string, impl string) Case {
	s, sp := encodeSrcCtx(src)
	rs := make([]string, len(rules))
	for i, r := range rules {
		rs[i] = X(r)
	}
	return Case{
		OpFn: func(ext string) string {
			return "var " + N("rules", rs...) + " " + N("lfns") + " " + encodeFns("gfns", globalFns) + " " + ext + " " + s + probe
		},
		Impl: impl, Tags: tags, Nontrivial: impl != "nil", Sprint: sp,
	}
}

func mapCase(src interface{}, rm valid.RM, local map[string]string, tags []string, probe string) Case {
	impl := observed(src, []map[string]string{rm}, func() string {
		return guard(func() string {
			if local == nil {
				return errStr(valid.Map(src, rm))
			}
			return errStr(valid.MapFn(src, rm, fnMap(local)))
		})
	})
	s, sp := encodeSrcCtx(src)
	r := encodeRM(rm)
	return Case{
		OpFn: func(ext string) string {
			return "map " + r + " " + encodeFns("lfns", local) + " " + encodeFns("gfns", globalFns) + " " + ext + " " + s + probe
		},
		Impl: impl, Tags: tags, Nontrivial: impl != "nil", Sprint: sp,
	}
}

func urlCase(src interface{}, rm valid.RM, tags []string, probe string) Case {
	return urlCaseFns(src, rm, nil, tags, probe)
}

// urlCaseFns: Url with per-call functions (NewVUrl().SetRule(rm).SetValidFn(…).Valid(src); UrlForFn for a single one without rules)
func urlCaseFns(src interface{}, rm valid.RM, local map[string]string, tags []string, probe string) Case {
	impl := observed(nil, []map[string]string{rm}, func() string {
		return guard(func() string {
			if len(local) == 0 {
				return errStr(valid.Url(src, rm))
			}
			if len(rm) == 0 && len(local) == 1 {
				for n, mk := range local {
					return errStr(valid.UrlForFn(src, n, markerFn(mk)))
				}
			}
			vu := valid.NewVUrl().SetRule(rm)
			for n, mk := range local {
				vu.SetValidFn(n, markerFn(mk))
			}
			return errStr(vu.Valid(src))
		})
	})
	var s string
	switch v := src.(type) {
	case nil:
		s = "nil"
	case string:
		s = X(v)
	case *string:
		if v == nil {
			s = "nilptr"
		} else {
			s = X(*v)
		}
	default:
		s = "notstring"
	}
	r := encodeRM(rm)
	return Case{
		OpFn: func(ext string) string {
			return "url " + r + " " + encodeFns("lfns", local) + " " + encodeFns("gfns", globalFns) + " " + ext + " " + s + probe
		},
		Impl: impl, Tags: tags, Nontrivial: impl != "nil",
	}
}
