package main

import (
	"math/rand/v2"
	"strings"

	"gitee.com/xuesongtao/protoc-go-valid/valid"
)

// every other printable ASCII punctuation mark and a few control bytes, at lower weight: a splitter or parser
// that starts treating one of them specially (another quote character, an escape, a second separator) must show
var otherPunct = []string{"\"", "`", ";", ":", "[", "]", "{", "}", "<", ">", "!", "?", "#", "$", "%", "&", "*", "@", "^", "_", "\t", "\n", "\x00"}
var splitAlphabet = append([]string{",", ",", ",", ",", ",", ",", "'", "'", "'", "'", "|", "|", "=", "=", "a", "a", "b", "b", "/", " ", "中", "\\", "\xff", "(", ")"}, otherPunct...)
var valueAlphabet = append([]string{"a", "a", "b", "b", "1", "1", "2", "2", "~", "~", "/", "/", "(", ")", "=", "中", "文", " ", "-", ".", "\\d", "+"}, otherPunct...)
var msgAlphabet = append([]string{"m", "m", "s", "s", "g", "g", " ", " ", "中", "文", "=", "=", "|", "~", "(", ")", "1", "龥", "一", "䷿", "龦"}, otherPunct...)

func implSplit(s string, sep byte) string {
	return guard(func() string {
		var out []string
		if sep == ',' {
			out = valid.ValidNamesSplit(s)
		} else {
			out = valid.ValidNamesSplit(s, sep)
		}
		// copy: the last piece may alias an internal buffer
		cp := make([]string, len(out))
		for i, p := range out {
			cp[i] = strings.Clone(p)
		}
		return XL(cp)
	})
}

func caseSplit(s string, sep byte) Case {
	impl := implSplit(s, sep)
	tags := []string{"op:split"}
	if strings.Contains(s, "'") {
		tags = append(tags, "split:slow-path")
	} else {
		tags = append(tags, "split:fast-path")
	}
	return Case{Op: "split " + X(s) + " " + I(int64(sep)), Impl: impl, Tags: tags,
		Nontrivial: strings.Contains(s, "'") && strings.IndexByte(s, sep) >= 0}
}

func implParse(s string) string {
	return guard(func() string {
		k, v, m := valid.ParseValidNameKV(s)
		return L(X(k), X(v), X(m))
	})
}

func caseParse(s string) Case {
	return Case{Op: "parse " + X(s), Impl: implParse(s), Tags: []string{"op:parse"},
		Nontrivial: strings.ContainsAny(s, "=|")}
}

func caseGen(key string, vals []string) Case {
	impl := guard(func() string {
		if len(key)%2 == 0 {
			return X(valid.JoinTag2Val(key, vals...)) // the deprecated alias
		}
		return X(valid.GenValidKV(key, vals...))
	})
	args := []string{X(key)}
	for _, v := range vals {
		args = append(args, X(v))
	}
	return Case{Op: "gen " + strings.Join(args, " "), Impl: impl, Tags: []string{"op:gen"}, Nontrivial: len(vals) > 0}
}

type genRule struct {
	key string
	val *string
	msg *string
}

func (g genRule) sexp() string { return N("r", X(g.key), OptX(g.val), OptX(g.msg)) }

func randRule(r *rand.Rand, wfOnly bool) genRule {
	g := genRule{key: pick(r, ruleKeys)}
	if chance(r, 0.65) {
		v := randFrom(r, valueAlphabet, 1, 5)
		if g.key == "re" && chance(r, 0.5) {
			v += "," + randFrom(r, valueAlphabet, 0, 2)
		}
		if !wfOnly && chance(r, 0.15) {
			v = randFrom(r, append(valueAlphabet, ",", "'", "|"), 0, 5)
		}
		if wfOnly {
			v = strings.TrimLeft(v, "=")
			if v == "" {
				v = "1"
			}
		}
		g.val = &v
	}
	if chance(r, 0.6) {
		m := randFrom(r, msgAlphabet, 1, 6)
		if chance(r, 0.25) {
			m = randFrom(r, msgAlphabet, 1, 1) // one-character messages
		}
		if !wfOnly && chance(r, 0.1) {
			m = randFrom(r, append(msgAlphabet, ",", "'"), 0, 4)
		}
		if chance(r, 0.05) {
			// messages that begin with / contain the label texts themselves (the message still gains its label)
			m = pick(r, []string{"explain: x", "说明: x", "explain:", "说明:", "see the explain: column", "x 说明: y", "explain"})
		}
		g.msg = &m
	}
	return g
}

func implRoundTrip(rules []genRule) string {
	return guard(func() string {
		texts := make([]string, len(rules))
		for i, g := range rules {
			var args []string
			switch {
			case g.val == nil && g.msg == nil:
			case g.val != nil && g.msg == nil:
				args = []string{*g.val}
			case g.val == nil && g.msg != nil:
				args = []string{"", *g.msg}
			default:
				args = []string{*g.val, *g.msg}
			}
			texts[i] = valid.GenValidKV(g.key, args...)
		}
		rm := valid.NewRule()
		rm.Set("F", texts...)
		var out []string
		for _, item := range valid.ValidNamesSplit(rm.Get("F")) {
			k, v, m := valid.ParseValidNameKV(item)
			out = append(out, L(X(k), X(v), X(m)))
		}
		return L(out...)
	})
}

func caseRoundTrip(rules []genRule) Case {
	ss := make([]string, len(rules))
	nt := false
	for i, g := range rules {
		ss[i] = g.sexp()
		if g.val != nil || g.msg != nil {
			nt = true
		}
	}
	return Case{Op: "rt " + L(ss...), Impl: implRoundTrip(rules), Tags: []string{"op:rt"}, Nontrivial: nt}
}

func caseRmSet(sets [][2]interface{}, field string) Case {
	impl := guard(func() string {
		rm := valid.NewRule()
		for _, s := range sets {
			rm.Set(s[0].(string), s[1].([]string)...)
		}
		return X(rm.Get(field))
	})
	ss := make([]string, len(sets))
	for i, s := range sets {
		ss[i] = N("s", X(s[0].(string)), XL(s[1].([]string)))
	}
	return Case{Op: "rmset " + L(ss...) + " " + X(field), Impl: impl, Tags: []string{"op:rmset"}, Nontrivial: len(sets) > 1}
}

func sp(s string) *string { return &s }

// ruletext-exh: EVERY string over a small alphabet up to a length bound, through the splitter (both
// separators) and the parser — the quote / separator / `=` / `|` bookkeeping has no untried short input
var exhAlphabet = []byte{'a', ',', '\'', '=', '|', '/'}

func exhLen(tier string) int {
	if tier == "thorough" {
		return 8
	}
	return 6
}

func exhString(i, n int) string {
	// strings of length 0..n in length-lexicographic order
	k := len(exhAlphabet)
	for l, cnt := 0, 1; l <= n; l, cnt = l+1, cnt*k {
		if i < cnt {
			b := make([]byte, l)
			for j := l - 1; j >= 0; j-- {
				b[j] = exhAlphabet[i%k]
				i /= k
			}
			return string(b)
		}
		i -= cnt
	}
	return ""
}

func exhCount(n int) int {
	t, c := 0, 1
	for l := 0; l <= n; l++ {
		t += c
		c *= len(exhAlphabet)
	}
	return t
}

func init() {
	register(&Stream{
		Name: "ruletext-exh",
		Rule: "exhaustive: every string over {a , ' = | /} up to length 6 (quick) / 8 (thorough), through ValidNamesSplit with separator ',' and '/', and through ParseValidNameKV. non-trivial: the string has a quote, a separator, = or |; distinct by request line",
		EnumSize: func(tier string) int { return 3 * exhCount(exhLen(tier)) },
		Enum: func(i int, tier string) Case {
			s := exhString(i/3, exhLen(tier))
			switch i % 3 {
			case 0:
				return caseSplit(s, ',')
			case 1:
				return caseSplit(s, '/')
			}
			return caseParse(s)
		},
	})
	register(&Stream{
		Name: "ruletext",
		Rule: "random byte strings heavy on , ' | = for the splitter; rule items for the parser; builder calls; RM.Set sequences; " +
			"rule lists (key,value?,msg?) over all rule keys through GenValidKV→RM.Set→RM.Get→ValidNamesSplit→ParseValidNameKV. " +
			"non-trivial: splitter input with a quote and a separator / parser input with = or | / rule with value or message; distinct by request line",
		Size: map[string]int{"quick": 200000, "thorough": 6000000},
		Fixed: func() []Case {
			cs := []Case{
				caseSplit("", ','), caseSplit(",", ','), caseSplit("a,", ','), caseSplit("'a',", ','), caseSplit("'a,b',c", ','),
				caseSplit("a,'b", ','), caseSplit("a/'b/c'/d", '/'), caseSplit("''", ','), caseSplit("'", ','), caseSplit(",,", ','),
				caseParse("required"), caseParse("required|m"), caseParse("required|必填"), caseParse("to=1~2|m"),
				caseParse("to=1~2|大于"), caseParse("required|a=b"), caseParse("to=1~2|"), caseParse("required|"), caseParse("="), caseParse("|"),
				caseParse("a=|b"), caseParse("=|"), caseParse("k=v|x=y|z"),
				caseGen("to", nil), caseGen("to", []string{"1~2"}), caseGen("to", []string{"=1~2", "m"}), caseGen("in", []string{"a/b"}),
				caseGen("re", []string{"\\d+"}), caseGen("re", []string{"'\\d+'"}), caseGen("re", []string{"a'"}), caseGen("re", []string{"a"}),
				caseGen("required", []string{"", "必填"}), caseGen("x", []string{"", "", "z"}),
				caseRoundTrip([]genRule{{key: "required", msg: sp("m")}}),
				caseRoundTrip([]genRule{{key: "required", msg: sp("a=b")}}),
				caseRoundTrip([]genRule{{key: "to", val: sp("1~2"), msg: sp("x")}, {key: "re", val: sp("a,b")}, {key: "in", val: sp("1/2")}}),
			}
			return cs
		},
		Gen: func(r *rand.Rand, tier string) Case {
			switch k := r.IntN(100); {
			case k < 35:
				sep := byte(',')
				if chance(r, 0.2) {
					sep = '/'
				}
				alpha := splitAlphabet
				if sep == '/' {
					alpha = append([]string{"/", "/"}, splitAlphabet...)
				}
				return caseSplit(randFrom(r, alpha, 0, 12), sep)
			case k < 55:
				g := randRule(r, false)
				s := g.key
				if g.val != nil {
					s += "=" + *g.val
				}
				if g.msg != nil {
					s += "|" + *g.msg
				}
				if chance(r, 0.2) {
					s = randFrom(r, []string{"=", "|", "a", "b", "中", "=", "|"}, 0, 6)
				}
				return caseParse(s)
			case k < 65:
				n := r.IntN(4)
				vals := make([]string, n)
				for i := range vals {
					vals[i] = randFrom(r, append(valueAlphabet, "'", "=", ""), 0, 3)
				}
				return caseGen(pick(r, ruleKeys), vals)
			case k < 72:
				n := 1 + r.IntN(4)
				sets := make([][2]interface{}, n)
				for i := range sets {
					names := randFrom(r, []string{"A", "B", ",", "C", ""}, 0, 4)
					rules := make([]string, r.IntN(3))
					for j := range rules {
						rules[j] = randFrom(r, []string{"a", "=", ",", "b"}, 0, 3)
					}
					sets[i] = [2]interface{}{names, rules}
				}
				return caseRmSet(sets, pick(r, []string{"A", "B", "C", "", "AB"}))
			default:
				n := 1 + r.IntN(5)
				rules := make([]genRule, n)
				wf := chance(r, 0.85)
				for i := range rules {
					rules[i] = randRule(r, wf)
				}
				return caseRoundTrip(rules)
			}
		},
	})
}
