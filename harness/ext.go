package main

import (
	"encoding/hex"
	"encoding/json"
	"fmt"
	"net"
	"net/url"
	"os"
	"regexp"
	"strconv"
	"time"
)

// Residual stdlib calls (DESIGN.md §3.6): answered here by calling the stdlib directly, never
// through the repository under test.

type extTable struct {
	entries []string
	seen    map[string]bool
	sprint  *encCtx
}

func newExt(sp *encCtx) *extTable { return &extTable{seen: map[string]bool{}, sprint: sp} }

func (e *extTable) sexp() string { return N("ext", e.entries...) }

var needRe = regexp.MustCompile(`^\(q (\w+) x([0-9a-f]*) x([0-9a-f]*)\)$`)

// resolve adds the answer to one query of the form (q kind xA xB)
func (e *extTable) resolve(q string) error {
	m := needRe.FindStringSubmatch(q)
	if m == nil {
		return fmt.Errorf("bad NEED %q", q)
	}
	if e.seen[q] {
		return fmt.Errorf("driver asked twice for %q", q)
	}
	e.seen[q] = true
	ab, _ := hex.DecodeString(m[2])
	bb, _ := hex.DecodeString(m[3])
	a, b := string(ab), string(bb)
	code, text := 0, ""
	switch m[1] {
	case "regex":
		if ok, _ := regexp.MatchString(a, b); ok {
			code = 1
		}
	case "parseip":
		ip := net.ParseIP(a)
		if ip != nil {
			code = 2
			if ip.To4() != nil {
				code = 1
			}
		}
	case "jsonvalid":
		if json.Valid([]byte(a)) {
			code = 1
		}
	case "stat":
		fi, err := os.Stat(a)
		if err != nil {
			code, text = 2, err.Error()
		} else if fi.IsDir() {
			code = 1
		}
	case "timeparse":
		// what the date rules ask of the stdlib: the value parses and formats back to itself
		if t, err := time.Parse(a, b); err == nil && t.Format(a) == b {
			code = 1
		}
	case "atoierr":
		if _, err := strconv.Atoi(a); err != nil {
			code, text = 1, err.Error()
		}
	case "unescapeerr":
		if _, err := url.QueryUnescape(a); err != nil {
			code, text = 1, err.Error()
		}
	case "deepeq":
		code = e.sprint.deepEqual(a, b)
	case "sprint":
		// fmt.Sprintf("%v", v) of the node of the case's value with this fingerprint
		if e.sprint != nil && !e.sprint.amb[a] {
			if t, ok := e.sprint.sp[a]; ok {
				code, text = 1, t
			}
		}
	default:
		return fmt.Errorf("unknown residual %q", m[1])
	}
	e.entries = append(e.entries, N("a", m[1], "x"+m[2], "x"+m[3], I(int64(code)), X(text)))
	return nil
}

// askWithExt sends `head <ext> tail | impl`, answering NEED replies until the driver is satisfied.
func askWithExt(d *Driver, sp *encCtx, build func(ext string) string) (Reply, string, error) {
	e := newExt(sp)
	for i := 0; i < 400; i++ {
		line := build(e.sexp())
		r, err := d.Ask(line)
		if err != nil {
			return r, line, err
		}
		if r.Kind != "need" {
			return r, line, nil
		}
		if err := e.resolve(r.Need); err != nil {
			return r, line, err
		}
	}
	// too many distinct residual queries for one case: not judged
	return Reply{Kind: "skip", Scope: "out:too-many-residual-queries", Spec: "na", Agree: true}, build(e.sexp()), nil
}
