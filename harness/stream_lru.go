package main

import (
	"math/rand/v2"
	"strconv"
	"strings"

	"gitee.com/xuesongtao/protoc-go-valid/valid"
)

type lruOp struct {
	kind byte // s g d n D
	k, v int
}

func (o lruOp) sexp() string {
	switch o.kind {
	case 's':
		return N("s", I(int64(o.k)), I(int64(o.v)))
	case 'g':
		return N("g", I(int64(o.k)))
	case 'd':
		return N("d", I(int64(o.k)))
	case 'n':
		return N("n")
	}
	return N("dump")
}

// lruKey: key number 1 stands for the nil interface (a legal map key); every other number for itself.
// Values are keyed the same way in the callback log.
func lruKey(k int) interface{} {
	if k == 1 {
		return nil
	}
	return k
}

func implLRU(cap int, ops []lruOp) (res string, evictions int) {
	res = guard(func() string {
		c := valid.NewLRU(cap)
		var fired []string
		c.SetDelCallBackFn(func(key, value interface{}) {
			k, _ := key.(int)
			if key == nil {
				k = 1
			}
			v, _ := value.(int)
			fired = append(fired, N("p", I(int64(k)), I(int64(v))))
		})
		outs := make([]string, len(ops))
		for i, o := range ops {
			fired = fired[:0]
			switch o.kind {
			case 's':
				c.Store(lruKey(o.k), o.v)
				outs[i] = N("cb", fired...)
				evictions += len(fired)
			case 'd':
				c.Delete(lruKey(o.k))
				outs[i] = N("cb", fired...)
			case 'g':
				v, ok := c.Load(lruKey(o.k))
				if ok {
					outs[i] = N("hit", I(int64(v.(int))))
				} else {
					outs[i] = N("miss")
				}
			case 'n':
				outs[i] = N("len", I(int64(c.Len())))
			default:
				d := c.Dump()
				var vs []string
				if d != "" {
					for _, x := range strings.Split(d, "\n") {
						n, _ := strconv.Atoi(x)
						vs = append(vs, I(int64(n)))
					}
				}
				outs[i] = N("dump", vs...)
			}
		}
		return L(outs...)
	})
	return
}

func caseLRU(cap int, ops []lruOp) Case {
	ss := make([]string, len(ops))
	for i, o := range ops {
		ss[i] = o.sexp()
	}
	impl, ev := implLRU(cap, ops)
	lb := "len:<=7"
	if len(ops) > 7 {
		lb = "len:8-99"
	}
	if len(ops) >= 100 {
		lb = "len:100-999"
	}
	if len(ops) >= 1000 {
		lb = "len:>=1000"
	}
	tags := []string{"cap:" + strconv.Itoa(cap), lb}
	if ev > 0 {
		tags = append(tags, "evicting")
	}
	return Case{Op: "lru " + I(int64(cap)) + " " + L(ss...), Impl: impl, Tags: tags, Nontrivial: ev > 0 || cap == 0}
}

// alphabet for the exhaustive stream: store k v (3x2), load k (3), delete k (3), len
var lruAlphabet = func() []lruOp {
	var a []lruOp
	for k := 0; k < 3; k++ {
		for v := 1; v <= 2; v++ {
			a = append(a, lruOp{'s', k, v})
		}
	}
	for k := 0; k < 3; k++ {
		a = append(a, lruOp{'g', k, 0})
	}
	for k := 0; k < 3; k++ {
		a = append(a, lruOp{'d', k, 0})
	}
	a = append(a, lruOp{'n', 0, 0})
	return a
}()

func lruExhLen(tier string) int {
	if tier == "thorough" {
		return 6
	}
	return 4
}

func ipow(b, e int) int {
	r := 1
	for i := 0; i < e; i++ {
		r *= b
	}
	return r
}

func init() {
	register(&Stream{
		Name: "lru",
		Rule: "random op sequences (store/load/delete/len/dump, one line per history) over 2*cap+3 keys for cap in {0,1,2,3,4,8,64,512}, " +
			"long enough to cross the delMapCount>2*cap rebuild; every step's result, the callback log and Dump are compared. " +
			"non-trivial: at least one eviction happened (or cap=0); distinct by history",
		Size: map[string]int{"quick": 3000, "thorough": 60000},
		Fixed: func() []Case {
			return []Case{
				caseLRU(2, []lruOp{{'s', 1, 10}, {'s', 1, 11}, {'g', 1, 0}, {'D', 0, 0}}),
				caseLRU(0, []lruOp{{'s', 1, 10}, {'g', 1, 0}, {'n', 0, 0}}),
				caseLRU(1, []lruOp{{'s', 1, 10}, {'s', 2, 20}, {'g', 1, 0}, {'g', 2, 0}, {'d', 2, 0}, {'d', 2, 0}, {'n', 0, 0}}),
			}
		},
		Gen: func(r *rand.Rand, tier string) Case {
			cap := pick(r, []int{0, 1, 2, 3, 4, 8, 64, 512})
			nkeys := 2*cap + 3
			if cap >= 64 && chance(r, 0.5) {
				nkeys = cap + 5
			}
			n := 20 + r.IntN(200)
			if cap >= 8 {
				n = 200 + r.IntN(3*cap+600)
			}
			if tier == "thorough" {
				n *= 2
			}
			ops := make([]lruOp, n)
			burst, burstKey := 0, 0
			for i := range ops {
				k := r.IntN(nkeys)
				if burst > 0 { // a run of reads with no write in between (longer than any small buffer of pending updates)
					burst--
					if chance(r, 0.8) {
						k = burstKey
					}
					ops[i] = lruOp{'g', k, 0}
					continue
				}
				if chance(r, 0.01) {
					burst, burstKey = 30+r.IntN(50), k
				}
				switch x := r.IntN(100); {
				case x < 45:
					ops[i] = lruOp{'s', k, 1 + r.IntN(1000)}
				case x < 75:
					ops[i] = lruOp{'g', k, 0}
				case x < 90:
					ops[i] = lruOp{'d', k, 0}
				case x < 96:
					ops[i] = lruOp{'n', 0, 0}
				default:
					ops[i] = lruOp{'D', 0, 0}
				}
			}
			return caseLRU(cap, ops)
		},
	})
	register(&Stream{
		Name: "lru-exh",
		Rule: "bounded-exhaustive: EVERY sequence of exactly L ops (hence every shorter one as a prefix) over store k v | load k | delete k | len, " +
			"k in {0,1,2}, v in {1,2}, for every cap in 0..4, followed by one dump; L=4 quick, L=6 thorough. non-trivial: an eviction happened or cap=0",
		EnumSize: func(tier string) int { return 5 * ipow(len(lruAlphabet), lruExhLen(tier)) },
		Enum: func(i int, tier string) Case {
			L := lruExhLen(tier)
			cap := i % 5
			i /= 5
			ops := make([]lruOp, L+1)
			for j := 0; j < L; j++ {
				ops[j] = lruAlphabet[i%len(lruAlphabet)]
				i /= len(lruAlphabet)
			}
			ops[L] = lruOp{'D', 0, 0}
			return caseLRU(cap, ops)
		},
	})
}
