package main

import (
	"sync"
	"bytes"
	"encoding/json"
	"fmt"
	"math"
	"math/big"
	"math/rand/v2"
	"reflect"
	"strings"
	"time"

	"gitee.com/xuesongtao/protoc-go-valid/valid"
)

// C20: the struct dumper.  I = GetDumpStructStr(v); the Lean driver gives the model's text and the
// spec's text; in addition this file is the independent observer the property names: I is decoded
// with encoding/json and compared with the decoded standard encoding of the value (nil slices /
// maps made empty first, booleans turned into the strings "true"/"false").

type dgen struct {
	r        *rand.Rand
	scope    bool // no out-of-scope kinds generated
	embedded bool // an embedded struct field was generated
}

var dumpNames = []string{"A", "B", "C", "Name", "Id", "Édit", "Z9", "X_y", "Time", "Time"}

func (g *dgen) scalar() reflect.Type {
	return pick(g.r, []reflect.Type{reflect.TypeOf(""), reflect.TypeOf(""), reflect.TypeOf(int(0)), reflect.TypeOf(int8(0)), reflect.TypeOf(int64(0)),
		reflect.TypeOf(uint(0)), reflect.TypeOf(uint8(0)), reflect.TypeOf(uint16(0)), reflect.TypeOf(uint64(0)), reflect.TypeOf(float32(0)), reflect.TypeOf(float64(0)), reflect.TypeOf(false), reflect.TypeOf(int32(0)), reflect.TypeOf(uint32(0))})
}

func (g *dgen) typ(depth int) reflect.Type {
	x := g.r.Float64()
	switch {
	case depth > 0 && x < 0.12:
		return g.strct(depth - 1)
	case depth > 0 && x < 0.20:
		return reflect.PointerTo(g.strct(depth - 1))
	case depth > 0 && x < 0.23:
		return reflect.PointerTo(reflect.PointerTo(g.strct(depth - 1)))
	case depth > 0 && x < 0.33:
		return reflect.SliceOf(g.typ(depth - 1))
	case depth > 0 && x < 0.37:
		return reflect.ArrayOf(g.r.IntN(3), g.typ(depth-1))
	case depth > 0 && x < 0.47:
		return reflect.MapOf(pick(g.r, []reflect.Type{reflect.TypeOf(""), reflect.TypeOf(""), reflect.TypeOf(int(0)), reflect.TypeOf(uint8(0)), reflect.TypeOf(int64(0)),
			// named integer / string key types, with and without a String() method (encoding/json writes the number / the text)
			reflect.TypeOf(time.Month(0)), reflect.TypeOf(time.Duration(0)), reflect.TypeOf(KS(""))}), g.typ(depth-1))
	case !g.scope && x < 0.50:
		return pick(g.r, []reflect.Type{reflect.TypeOf((*interface{})(nil)).Elem(), reflect.TypeOf((*int)(nil)), timeType, reflect.TypeOf(func() {}), reflect.TypeOf([]byte(nil)), reflect.TypeOf(map[bool]int(nil))})
	}
	return g.scalar()
}

func (g *dgen) strct(depth int) reflect.Type {
	n := g.r.IntN(5)
	if chance(g.r, 0.08) {
		n = 0
	}
	used := map[string]bool{}
	var fs []reflect.StructField
	allUnexp := chance(g.r, 0.08)
	for i := 0; i < n; i++ {
		name := pick(g.r, dumpNames)
		if used[name] {
			name = fmt.Sprintf("%s%d", name, i)
		}
		used[name] = true
		f := reflect.StructField{Name: name, Type: g.typ(depth)}
		if depth > 0 && chance(g.r, 0.015) { // embedded struct (encoding/json flattens it)
			et := reflect.StructOf([]reflect.StructField{{Name: "Em", Type: reflect.TypeOf(0)}})
			f = reflect.StructField{Name: "Emb" + fmt.Sprint(i), Type: et, Anonymous: true}
			g.embedded = true
			fs = append(fs, f)
			continue
		}
		if allUnexp || chance(g.r, 0.2) || (i == 0 && chance(g.r, 0.25)) {
			f.Name = "u" + strings.ToLower(name)
			f.PkgPath = "main"
			if used[f.Name] {
				continue
			}
			used[f.Name] = true
		}
		fs = append(fs, f)
	}
	return reflect.StructOf(fs)
}

var dumpStrings = []string{"", "a", "xue", "hello world", "中文", "a:b", "1,2", "{}", "[x]", "é", "null", "true", "0", "a/b", "'q'"}

// runes that need no escape in JSON (everything but `"`, `\\` and U+0000–U+001F): ASCII punctuation, DEL, C1
// controls, format / private-use / unassigned / astral code points, line separators, HTML-sensitive bytes
var dumpRunes = []rune{'a', 'Z', '0', ' ', '/', '\'', ':', ',', '{', '}', '[', ']', '<', '>', '&', '=', '%', '~', 0x7f, 0x80, 0x85, 0xa0, 0xad,
	'é', '中', 0x200b, 0x2028, 0x2029, 0xfeff, 0xfffd, 0xe000, 0x1f600, 0xe0067, 0xf0000, 0x10ffff, 0x0378}

func dumpString(r *rand.Rand) string {
	if chance(r, 0.6) {
		return pick(r, dumpStrings)
	}
	if chance(r, 0.04) {
		// long texts: around 1 KiB, 4 KiB, 64 KiB; ASCII and multi-byte
		n := pick(r, []int{1023, 1024, 1025, 1200, 4097, 70000})
		unit := pick(r, []string{"a", "xy ", "中", "é"})
		return strings.Repeat(unit, n/len(unit)+1)
	}
	if chance(r, 0.1) {
		// punctuation of JSON itself inside a string (none of it needs an escape)
		return randFrom(r, []string{",}", ",]", "{", "}", "[", "]", ":", ",", "x", " ", "null", "{x,}", "[1,2,]"}, 1, 4)
	}
	var sb strings.Builder
	for i, n := 0, 1+r.IntN(5); i < n; i++ {
		sb.WriteRune(pick(r, dumpRunes))
	}
	return sb.String()
}

func (g *dgen) fill(v reflect.Value, depth int) {
	r := g.r
	if !v.CanSet() || depth > 8 {
		return
	}
	switch v.Kind() {
	case reflect.String:
		v.SetString(dumpString(r))
	case reflect.Int, reflect.Int8, reflect.Int16, reflect.Int32, reflect.Int64:
		z := pick(r, smallInts)
		if chance(r, 0.15) {
			z = pick(r, boundaryInts)
		}
		v.SetInt(clampInt(v.Kind(), z))
	case reflect.Uint, reflect.Uint8, reflect.Uint16, reflect.Uint32, reflect.Uint64:
		n := uint64(r.IntN(300))
		if chance(r, 0.2) {
			n = pick(r, []uint64{0, 1, 255, 256, 65535, 1 << 31, 1<<32 - 1, 1 << 53, 1<<63 - 1, 1 << 63, 1<<63 + 1, math.MaxUint64 - 1, math.MaxUint64})
		}
		v.SetUint(clampUint(v.Kind(), n))
	case reflect.Float32, reflect.Float64:
		f := pick(r, []float64{0, 1, -1, 0.5, 0.1, 1.25, -2.75, 3, 100, 1e6, 123456.789, 1e-3, 16777216, 1e15, 0.3, 2.5e-5, 1e21, -1e21, 5e-324, 1.7976931348623157e308})
		if chance(r, 0.3) {
			f = float64(r.IntN(2000)-1000) / 8
		}
		v.SetFloat(f)
	case reflect.Bool:
		v.SetBool(chance(r, 0.5))
	case reflect.Slice:
		switch r.IntN(6) {
		case 0:
		case 1:
			v.Set(reflect.MakeSlice(v.Type(), 0, 0))
		default:
			n := 1 + r.IntN(3)
			s := reflect.MakeSlice(v.Type(), n, n)
			for i := 0; i < n; i++ {
				g.fill(s.Index(i), depth+1)
			}
			v.Set(s)
		}
	case reflect.Array:
		for i := 0; i < v.Len(); i++ {
			g.fill(v.Index(i), depth+1)
		}
	case reflect.Map:
		switch r.IntN(6) {
		case 0:
		case 1:
			v.Set(reflect.MakeMap(v.Type()))
		default:
			n := 1 + r.IntN(3)
			m := reflect.MakeMap(v.Type())
			for i := 0; i < n; i++ {
				k := reflect.New(v.Type().Key()).Elem()
				switch k.Kind() {
				case reflect.String:
					if chance(r, 0.7) {
						k.SetString(pick(r, []string{"a", "b", "k1", "中", "", "x y"}))
					} else {
						k.SetString(dumpString(r))
					}
				case reflect.Bool:
					k.SetBool(chance(r, 0.5))
				case reflect.Uint8:
					k.SetUint(uint64(r.IntN(4)))
				default:
					k.SetInt(int64(r.IntN(7) - 2))
				}
				e := reflect.New(v.Type().Elem()).Elem()
				g.fill(e, depth+1)
				m.SetMapIndex(k, e)
			}
			v.Set(m)
		}
	case reflect.Ptr:
		if chance(r, 0.7) {
			p := reflect.New(v.Type().Elem())
			g.fill(p.Elem(), depth+1)
			v.Set(p)
		}
	case reflect.Struct:
		if v.Type() == timeType {
			return
		}
		for i := 0; i < v.NumField(); i++ {
			g.fill(v.Field(i), depth+1)
		}
	case reflect.Interface:
		if chance(r, 0.5) {
			v.Set(reflect.ValueOf(r.IntN(3)))
		}
	case reflect.Func:
		v.Set(reflect.ValueOf(func() {}))
	}
}

// normalise a copy of v for the standard encoder: nil slices -> empty, nil maps -> empty
func normNil(v reflect.Value) {
	switch v.Kind() {
	case reflect.Ptr:
		if !v.IsNil() {
			normNil(v.Elem())
		}
	case reflect.Struct:
		for i := 0; i < v.NumField(); i++ {
			if v.Field(i).CanSet() {
				normNil(v.Field(i))
			}
		}
	case reflect.Slice:
		if v.IsNil() {
			if v.CanSet() {
				v.Set(reflect.MakeSlice(v.Type(), 0, 0))
			}
			return
		}
		for i := 0; i < v.Len(); i++ {
			normNil(v.Index(i))
		}
	case reflect.Array:
		for i := 0; i < v.Len(); i++ {
			normNil(v.Index(i))
		}
	case reflect.Map:
		if v.IsNil() {
			if v.CanSet() {
				v.Set(reflect.MakeMap(v.Type()))
			}
			return
		}
		// map values are not addressable: rebuild
		it := v.MapRange()
		for it.Next() {
			e := reflect.New(v.Type().Elem()).Elem()
			e.Set(it.Value())
			normNil(e)
			v.SetMapIndex(it.Key(), e)
		}
	}
}

func decodeNum(s string) (interface{}, error) {
	d := json.NewDecoder(strings.NewReader(s))
	d.UseNumber()
	var x interface{}
	if err := d.Decode(&x); err != nil {
		return nil, err
	}
	if d.More() {
		return nil, fmt.Errorf("trailing data")
	}
	return x, nil
}

// documents equal, with JSON booleans on the `want` side read as the strings "true"/"false"
func docEqual(got, want interface{}) bool {
	switch w := want.(type) {
	case bool:
		g, ok := got.(string)
		return ok && g == map[bool]string{true: "true", false: "false"}[w]
	case nil:
		return got == nil
	case string:
		g, ok := got.(string)
		return ok && g == w
	case json.Number:
		g, ok := got.(json.Number)
		if !ok {
			return false
		}
		a, b := string(g), string(w)
		if !strings.ContainsAny(a, ".eE") && !strings.ContainsAny(b, ".eE") {
			x, ok1 := new(big.Int).SetString(a, 10)
			y, ok2 := new(big.Int).SetString(b, 10)
			return ok1 && ok2 && x.Cmp(y) == 0
		}
		x, _, e1 := big.ParseFloat(a, 10, 2000, big.ToNearestEven)
		y, _, e2 := big.ParseFloat(b, 10, 2000, big.ToNearestEven)
		return e1 == nil && e2 == nil && x.Cmp(y) == 0
	case []interface{}:
		g, ok := got.([]interface{})
		if !ok || len(g) != len(w) {
			return false
		}
		for i := range w {
			if !docEqual(g[i], w[i]) {
				return false
			}
		}
		return true
	case map[string]interface{}:
		g, ok := got.(map[string]interface{})
		if !ok || len(g) != len(w) {
			return false
		}
		for k, wv := range w {
			gv, ok := g[k]
			if !ok || !docEqual(gv, wv) {
				return false
			}
		}
		return true
	}
	return false
}

// hasDupKeys: decoding into map[string]interface{} hides duplicate object keys; detect them on the raw text
func hasDupKeys(s string) bool {
	d := json.NewDecoder(strings.NewReader(s))
	type frame struct {
		isObj bool
		keys  map[string]bool
		wantK bool
	}
	var st []*frame
	for {
		t, err := d.Token()
		if err != nil {
			return false
		}
		switch x := t.(type) {
		case json.Delim:
			switch x {
			case '{':
				st = append(st, &frame{isObj: true, keys: map[string]bool{}, wantK: true})
				continue
			case '[':
				st = append(st, &frame{})
				continue
			default:
				st = st[:len(st)-1]
			}
		case string:
			if len(st) > 0 && st[len(st)-1].isObj && st[len(st)-1].wantK {
				f := st[len(st)-1]
				if f.keys[x] {
					return true
				}
				f.keys[x] = true
				f.wantK = false
				continue
			}
		}
		if len(st) > 0 && st[len(st)-1].isObj {
			st[len(st)-1].wantK = true
		}
	}
}

// DNode: a recursive named type — lists, trees and keyed graphs of any depth
type DNode struct {
	ID    int
	Tags  []string
	Next  *DNode
	Kids  []DNode
	ByKey map[string]*DNode
	note  string
}

func dumpChain(r *rand.Rand, depth int) *DNode {
	var head *DNode
	for i := 0; i < depth; i++ {
		n := &DNode{ID: depth - i, Next: head}
		if chance(r, 0.3) {
			n.Tags = []string{dumpString(r)}
		}
		switch {
		case i > 0 && chance(r, 0.15):
			n.Kids, n.Next = []DNode{*head}, nil // descend through a slice element instead
		case i > 0 && chance(r, 0.15):
			n.ByKey, n.Next = map[string]*DNode{"k": head}, nil // … or through a map entry
		}
		head = n
	}
	return head
}

func dumpCase(r *rand.Rand) Case {
	g := &dgen{r: r, scope: !chance(r, 0.1)}
	t := g.strct(1 + r.IntN(4))
	pv := reflect.New(t)
	g.fill(pv.Elem(), 0)
	if chance(r, 0.04) {
		// deep recursion: depth 1-8, or far deeper than any plausible built-in limit
		d := 1 + r.IntN(8)
		if chance(r, 0.5) {
			d = 12 + r.IntN(70)
		}
		g.scope = true
		t = reflect.TypeOf(DNode{})
		pv = reflect.ValueOf(dumpChain(r, d))
	}
	var src interface{} = pv.Interface()
	tags := []string{"dump:*T"}
	switch r.IntN(10) {
	case 0:
		src = pv.Elem().Interface()
		tags = []string{"dump:T"}
	case 1:
		pp := reflect.New(pv.Type())
		pp.Elem().Set(pv)
		src = pp.Interface()
		tags = []string{"dump:**T"}
	}
	var impl string
	if chance(r, 0.06) {
		// the same value dumped by several goroutines at once (often the first dump ever of its type): every one of
		// them must produce the whole document; the shortest output is the one that is judged
		const n = 6
		outs := make([]string, n)
		var wg sync.WaitGroup
		start := make(chan struct{})
		for i := 0; i < n; i++ {
			wg.Add(1)
			go func(i int) {
				defer wg.Done()
				<-start
				outs[i] = guard(func() string { return X(valid.GetDumpStructStr(src)) })
			}(i)
		}
		close(start)
		wg.Wait()
		impl = outs[0]
		for _, o := range outs {
			if len(o) < len(impl) || strings.HasPrefix(o, "(") {
				impl = o
			}
		}
		tags = append(tags, "dump:concurrent")
	} else {
		impl = guard(func() string {
			raw := valid.GetDumpStructStr(src)
			retain("dump", raw) // the text handed out must not change when later dumps reuse internal buffers
			return X(raw)
		})
	}
	oracle := "na"
	if g.scope && strings.HasPrefix(impl, "x") {
		out := unhex(impl[1:])
		// expected document: the standard encoding of the value with nil slices / maps made empty
		cp := reflect.New(t)
		cp.Elem().Set(pv.Elem()) // shallow copy is enough for exported settable fields? deep parts are shared: normalise a re-generated deep copy instead
		want, err := json.Marshal(deepNorm(pv.Elem()).Interface())
		if err == nil {
			a, e1 := decodeNum(out)
			b, e2 := decodeNum(string(want))
			switch {
			case e2 != nil:
			case e1 != nil || hasDupKeys(out):
				oracle = "#0"
			case docEqual(a, b):
				oracle = "#1"
			default:
				oracle = "#0"
			}
		}
	}
	if !g.scope {
		tags = append(tags, "dump:out-of-scope-kinds")
	}
	flag := "plain"
	if g.embedded {
		flag = "embedded"
	}
	return Case{Op: "dump " + encodeValue(reflect.ValueOf(src)) + " " + oracle + " " + flag, Impl: impl, Tags: append(tags, "oracle:"+oracle), Nontrivial: len(impl) > 6}
}

// deepNorm returns a deep copy of v in which nil slices and nil maps are empty
func deepNorm(v reflect.Value) reflect.Value {
	out := reflect.New(v.Type()).Elem()
	switch v.Kind() {
	case reflect.Ptr:
		if !v.IsNil() {
			p := reflect.New(v.Type().Elem())
			p.Elem().Set(deepNorm(v.Elem()))
			out.Set(p)
		}
	case reflect.Struct:
		for i := 0; i < v.NumField(); i++ {
			if out.Field(i).CanSet() {
				out.Field(i).Set(deepNorm(v.Field(i)))
			}
		}
	case reflect.Slice:
		s := reflect.MakeSlice(v.Type(), v.Len(), v.Len())
		for i := 0; i < v.Len(); i++ {
			s.Index(i).Set(deepNorm(v.Index(i)))
		}
		out.Set(s)
	case reflect.Array:
		for i := 0; i < v.Len(); i++ {
			out.Index(i).Set(deepNorm(v.Index(i)))
		}
	case reflect.Map:
		m := reflect.MakeMap(v.Type())
		it := v.MapRange()
		for it.Next() {
			m.SetMapIndex(it.Key(), deepNorm(it.Value()))
		}
		out.Set(m)
	default:
		out.Set(v)
	}
	return out
}

var _ = bytes.NewReader

func init() {
	register(&Stream{
		Name: "dump",
		Rule: "GetDumpStructStr on synthesised struct types (field-less, first/all fields unexported, nesting to depth 5, *T/**T nil and non-nil, nil/empty/multi-element slices and arrays, " +
			"nil/empty/multi-entry maps with string/int/uint keys, strings without escapes, ints, uints up to 2^64-1, float32/64 incl. 1e21 and subnormals, bools); 10% with out-of-scope kinds. " +
			"Compared with the model byte for byte (any map order) and, independently, decoded with encoding/json against the standard encoding. non-trivial: more than an empty object; distinct by request",
		Size: map[string]int{"quick": 30000, "thorough": 600000},
		Setup: func(string) { retainOn = true },
		Gen:   func(r *rand.Rand, tier string) Case { return dumpCase(r) },
		Final: retainedCases,
	})
}
