package main

import (
	"math/rand/v2"
	"strings"

	"gitee.com/xuesongtao/protoc-go-valid/valid"
)

// C15: GetOnlyExplainErr on synthetic clause lists (every mix and order of Chinese-labelled,
// English-labelled and unlabelled clauses) and on error strings of real validations.

var explPrefixes = []string{`"T.A" input "v", `, `"T.In.B[2]" input "", `, `"k" input "x y", `, `input "5", `, ``, `"表.名" input "值", `,
	`"T.A", "T.B" `, `"map[k]" input "1,2", `, `"T.A" input "a:b", `, `"T.A" input "说", `}
var explTexts = []string{"it is required", "msg", "必填", "年龄不对", "m", "中", "", "it is less than 5 num-size", "a=b", "x: y", "see (1/2)",
	"regex match is failed, pattern: ^a;b$", "they shouldn't all be empty", " lead", "trail ", "a;b", "说明书", "explains"}
var explPlain = []string{`valid "x" is not exist, You can call SetValidFn`, `"T.F.int" is not struct`, `src no support`, ``, `have no set rule`,
	`valid "to" is not ok, eg: type Test struct {` + "\n" + `    Name string ` + "`valid:\"to=1~10\"`" + "\n}", `"T.A" valid "either" is no support`}

func explainSynth(r *rand.Rand) Case {
	n := 1 + r.IntN(6)
	var parts, sx []string
	for i := 0; i < n; i++ {
		switch r.IntN(5) {
		case 0:
			t := pick(r, explPlain)
			if chance(r, 0.04) {
				t += pick(r, []string{"; ", "explain:", "说明:", ";"})
			}
			parts = append(parts, t)
			sx = append(sx, N("plain", X(t)))
		default:
			zh := chance(r, 0.45)
			pre := pick(r, explPrefixes)
			if chance(r, 0.01) {
				// a clause that echoes a very long value (a field of 70 000 … 300 000 bytes)
				pre = "\"F\" input \"" + strings.Repeat(pick(r, []string{"a", "xy", "中"}), pick(r, []int{30000, 70000, 150000})) + "\", "
			}
			ex := pick(r, explTexts)
			if chance(r, 0.25) {
				ex = randFrom(r, []string{"m", "s", " ", "中", "文", "说", ":", ";", "e", "x", "p", "l", "a", "i", "n"}, 0, 8)
			}
			if chance(r, 0.03) {
				ex += pick(r, []string{"; tail", "; "})
			}
			if chance(r, 0.03) {
				pre = pick(r, []string{"explain: ", "说明: x ", "a; b "}) + pre
			}
			label := valid.ExplainEn
			if zh {
				label = valid.ExplainZh
			}
			parts = append(parts, pre+label+" "+ex)
			sx = append(sx, N("lab", X(pre), B(zh), X(ex)))
		}
	}
	e := strings.Join(parts, valid.ErrEndFlag)
	impl := guard(func() string {
		out := valid.GetOnlyExplainErr(e)
		retain("explain", out) // an extraction handed out stays what it was when later extractions run
		return X(out)
	})
	return Case{Op: "explain-c " + strings.Join(sx, " "), Impl: impl, Tags: []string{"explain:synthetic"}, Nontrivial: impl != X("")}
}

func explainRaw(r *rand.Rand) Case {
	// the error string of a real validation
	var c Case
	switch r.IntN(3) {
	case 0:
		c = walkerCase(r, profWalk)
	case 1:
		c = flatVarCase(r, defaultRuleOpts)
	default:
		c = flatMapCase(r, defaultRuleOpts)
	}
	e := ""
	if strings.HasPrefix(c.Impl, "x") {
		e = unhex(c.Impl[1:])
	}
	impl := guard(func() string {
		out := valid.GetOnlyExplainErr(e)
		retain("explain", out) // an extraction handed out stays what it was when later extractions run
		return X(out)
	})
	return Case{Op: "explain-raw " + X(e), Impl: impl, Tags: []string{"explain:real-error"}, Nontrivial: impl != X("")}
}

// explain-exh: EVERY sequence of up to 5 (quick) / 7 (thorough) tokens from a small vocabulary of labels,
// separators and text, through GetOnlyExplainErr (model comparison on the raw string)
var explainTokens = []string{"explain: ", "说明: ", "; ", "a", ";", " ", "中"}

func explainExhLen(tier string) int {
	if tier == "thorough" {
		return 7
	}
	return 5
}

func init() {
	cnt := func(n int) int {
		t, c := 0, 1
		for l := 0; l <= n; l++ {
			t += c
			c *= len(explainTokens)
		}
		return t
	}
	register(&Stream{
		Name: "explain-exh",
		Rule: "exhaustive: every sequence of up to 5 (quick) / 7 (thorough) tokens from {explain:␠ 说明:␠ ;␠ a ; ␠ 中} through GetOnlyExplainErr, compared with the model. non-trivial: a non-empty extraction; distinct by request",
		EnumSize: func(tier string) int { return cnt(explainExhLen(tier)) },
		Enum: func(i int, tier string) Case {
			k, n := len(explainTokens), explainExhLen(tier)
			e := ""
			for l, c := 0, 1; l <= n; l, c = l+1, c*k {
				if i < c {
					parts := make([]string, l)
					for j := l - 1; j >= 0; j-- {
						parts[j] = explainTokens[i%k]
						i /= k
					}
					e = strings.Join(parts, "")
					break
				}
				i -= c
			}
			impl := guard(func() string {
		out := valid.GetOnlyExplainErr(e)
		retain("explain", out) // an extraction handed out stays what it was when later extractions run
		return X(out)
	})
			return Case{Op: "explain-raw " + X(e), Impl: impl, Tags: []string{"explain:exhaustive"}, Nontrivial: impl != X("")}
		},
	})
	register(&Stream{
		Name: "explain",
		Rule: "GetOnlyExplainErr on (a) synthetic errors of 1-6 clauses in every mix and order of 说明:-labelled, explain:-labelled and unlabelled clauses " +
			"(messages: ASCII, CJK, mixed, one rune, empty; separators or foreign labels inside a clause at low weight = out of scope) and (b) the error strings " +
			"of real Struct/Var/Map validations. non-trivial: a non-empty extraction; distinct by request",
		Size: map[string]int{"quick": 40000, "thorough": 800000},
		Setup: func(string) { retainOn = true },
		Final: retainedCases,
		Gen: func(r *rand.Rand, tier string) Case {
			if chance(r, 0.7) {
				return explainSynth(r)
			}
			return explainRaw(r)
		},
	})
}
