package main

import (
	"fmt"
	"math/rand/v2"
)

// safely runs f; a panic becomes the s-expression (panic x<msg>)
func guard(f func() string) (out string) {
	defer func() {
		if e := recover(); e != nil {
			out = N("panic", X(fmt.Sprint(e)))
		}
	}()
	return f()
}

func pick[T any](r *rand.Rand, xs []T) T { return xs[r.IntN(len(xs))] }

func chance(r *rand.Rand, p float64) bool { return r.Float64() < p }

// random string from a weighted alphabet of string fragments
func randFrom(r *rand.Rand, alphabet []string, minLen, maxLen int) string {
	n := minLen
	if maxLen > minLen {
		n += r.IntN(maxLen - minLen + 1)
	}
	s := ""
	for i := 0; i < n; i++ {
		s += pick(r, alphabet)
	}
	return s
}

var ruleKeys = []string{"required", "exist", "either", "botheq", "to", "ge", "le", "oto", "gt", "lt", "eq", "noeq",
	"in", "include", "phone", "email", "idcard", "year", "year2month", "date", "datetime", "int", "ints", "float",
	"re", "ip", "ipv4", "ipv6", "unique", "json", "prefix", "suffix", "file", "dir"}

func errStr(err error) string {
	if err == nil {
		return "nil"
	}
	return X(err.Error())
}
