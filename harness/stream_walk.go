package main

import (
	"math/rand/v2"
	"reflect"
	"strconv"

	"gitee.com/xuesongtao/protoc-go-valid/valid"
)

var profWalk = walkProfile{name: "walk", o: defaultRuleOpts, maxDepth: 3, maxField: 5, maxRules: 4, pNested: 0.22, pOverride: 0.15, pTag: 0.1, pLocalFn: 0.15, pTopColl: 0.2}

func withOpts(p walkProfile, f func(*walkProfile)) walkProfile { f(&p); return p }

var profDeep = withOpts(profWalk, func(p *walkProfile) {
	p.name = "walk-deep"
	p.maxDepth, p.maxField, p.maxRules, p.pNested = 6, 3, 2, 0.5
	p.o.pNesting = 0.6
	p.pTopColl = 0.3
	p.wide = true
	p.pChain = 0.06
})
var profRM = withOpts(profWalk, func(p *walkProfile) {
	p.name = "walk-rm"
	p.pOverride, p.pTag, p.pLocalFn = 0.7, 0.4, 0.5
	p.o.pCustom, p.o.pUnknown = 0.2, 0.08
	p.maxDepth = 2
})
var profGroup = withOpts(profWalk, func(p *walkProfile) {
	p.name = "walk-group"
	p.o.pGroup = 0.45
	p.o.pNesting = 0.3
	p.maxField, p.maxRules = 4, 2
	p.pNested = 0.3
	p.pTopColl = 0.35
	p.pBig = 0.15
	p.pGroupObj = 0.35
})
var profZero = withOpts(profWalk, func(p *walkProfile) {
	p.name = "walk-zero"
	p.o.pNesting = 0.45
	p.maxDepth, p.pNested = 2, 0.3
})

func walkStream(p walkProfile, what string, q, t int) {
	register(&Stream{
		Name: p.name,
		Rule: "Struct entry points on synthesised (reflect.StructOf) and named struct types: " + what +
			". The whole error string is compared with the model (group clauses and map entries modulo order). non-trivial: the call returned an error; distinct by request",
		Size: map[string]int{"quick": q, "thorough": t},
		Gen: func(r *rand.Rand, tier string) Case {
			if chance(r, 0.01) {
				panicAside(r) // a caller's own function panicked in some earlier call (recovered there): nothing of it may show here
			}
			return walkerCase(r, p)
		},
	})
}

// walk-gfn: the global function table after a second round of SetCustomerValidFn calls made before any
// validation: a custom name registered twice (the later registration wins), built-in names shadowed
// globally (a table-dispatched rule, a size rule, and a walker-implemented name)
var profGfn = withOpts(profWalk, func(p *walkProfile) {
	p.name = "walk-gfn"
	p.pOverride, p.pTag, p.pLocalFn = 0.3, 0.2, 0.3
	p.o.pCustom, p.o.pUnknown = 0.3, 0.05
	p.maxDepth = 2
})

func init() {
	register(&Stream{
		Name: "walk-gfn",
		Rule: "as walk-rm, in a process whose global function table was extended before any validation: `gcustom` registered a second time (G4 replaces G1), the built-in names `idcard`, `le` and `phone` registered globally (G5, G6, G8). The whole error string is compared with the model run with that table. non-trivial: the call returned an error; distinct by request",
		Size: map[string]int{"quick": 10000, "thorough": 200000},
		Setup: func(tier string) {
			for _, kv := range [][2]string{{"gcustom", "G4"}, {"idcard", "G5"}, {"le", "G6"}, {"phone", "G8"}} {
				valid.SetCustomerValidFn(kv[0], markerFn(kv[1]))
				globalFns[kv[0]] = kv[1]
			}
		},
		Gen: func(r *rand.Rand, tier string) Case {
			if chance(r, 0.3) {
				switch r.IntN(3) {
				case 0:
					return flatVarCase(r, profGfn.o)
				case 1:
					return flatMapCase(r, profGfn.o)
				}
				return flatUrlCase(r, profGfn.o)
			}
			return walkerCase(r, profGfn)
		},
	})
	// walk-gfn-seq: one sequential history in which the global table keeps changing BETWEEN validations (never during
	// one): a name is registered again — a custom name, a built-in, a walker-implemented name — and the types seen
	// before are validated again.  A call resolves a name in the table as it is when the call runs.
	regN := 0
	register(&Stream{
		Name: "walk-gfn-seq",
		Rule: "a sequential history of Struct / Var / Map / Url calls over the named types and synthesised ones in which, between calls, SetCustomerValidFn registers a name again (gcustom, gshadow, le, to, unique, email, in, int, required-like names stay built in); every call is compared with the model run with the table of that moment. non-trivial: the call returned an error; distinct by request",
		Size: map[string]int{"quick": 8000, "thorough": 150000}, Workers: 1,
		Gen: func(r *rand.Rand, tier string) Case {
			if chance(r, 0.02) {
				regN++
				name := pick(r, []string{"gcustom", "gshadow", "le", "to", "unique", "email", "in", "int", "ge", "phone", "to2", "Required", "lcustom", "nosuch"}) // the last four: names that rules used (as unknown ones) before anybody registered them
				mk := "R" + strconv.Itoa(regN)
				valid.SetCustomerValidFn(name, markerFn(mk))
				globalFns[name] = mk
			}
			switch r.IntN(10) {
			case 0:
				return flatVarCase(r, profGfn.o)
			case 1:
				return flatMapCase(r, profGfn.o)
			case 2:
				return flatUrlCase(r, profGfn.o)
			case 3, 4, 5:
				// the named types again and again (their tags use le, to, unique, email, in)
				g := &wgen{r: r, o: profGfn.o, maxDepth: 2, maxField: 4, maxRules: 3, pNested: 0.2}
				v := reflect.New(pick(r, namedStructs[:3]))
				g.fill(v.Elem(), 0)
				return structCall{src: v.Interface()}.toCase([]string{"top:named-again"}, "")
			}
			return walkerCase(r, profGfn)
		},
	})
	walkStream(profWalk, "1-5 fields of every supported kind (scalars, slices, arrays, maps, pointers, nested structs, time.Time, interface{}, func), 0-4 rules per field from every rule family with custom messages, malformed, unknown, repeated and empty items; outer/typed rule sets, target tags, per-call functions; top-level struct, pointer(s), slices/arrays/maps of structs with nil elements, nil and non-struct inputs", 20000, 400000)
	walkStream(profDeep, "type graphs nested to depth 6 through value, *, **, [], [n], map[string|int], with unmarked sub-objects, time fields, nil/zero/populated nodes at every level", 6000, 120000)
	walkStream(profRM, "typed / unscoped / both / empty rule sets, non-default target tags, per-call and global functions, names defined in several tables", 10000, 200000)
	walkStream(profGroup, "1-3 either/botheq groups per type, objects repeated in slices, maps and nested fields", 10000, 200000)
	walkStream(profZero, "required/exist and every other rule on zero and non-zero values of every kind", 10000, 200000)
	register(&Stream{
		Name: "flat",
		Rule: "Var (scalars, slices, arrays, pointers, nil, unsupported kinds; several rule strings), Map/MapFn (string/int/interface{} element types, missing keys, slices of maps, non-map inputs, groups) and Url (raw, escaped, fully escaped, malformed escapes, bare keys, repeated '=', missing parameters, nil *string) with rule lists from every family. non-trivial: the call returned an error; distinct by request",
		Size: map[string]int{"quick": 30000, "thorough": 600000},
		Gen: func(r *rand.Rand, tier string) Case {
			switch r.IntN(3) {
			case 0:
				return flatVarCase(r, defaultRuleOpts)
			case 1:
				return flatMapCase(r, defaultRuleOpts)
			}
			return flatUrlCase(r, defaultRuleOpts)
		},
	})
}
