package main

import (
	"bufio"
	"fmt"
	"io"
	"os/exec"
	"strings"
)

// Driver is the compiled Lean model/spec evaluator (lean/.lake/build/bin/pgvdriver),
// spoken to over a line protocol.
type Driver struct {
	cmd *exec.Cmd
	in  *bufio.Writer
	out *bufio.Reader
	wc  io.WriteCloser
}

func StartDriver(path string) (*Driver, error) {
	cmd := exec.Command(path)
	wc, err := cmd.StdinPipe()
	if err != nil {
		return nil, err
	}
	rc, err := cmd.StdoutPipe()
	if err != nil {
		return nil, err
	}
	if err := cmd.Start(); err != nil {
		return nil, err
	}
	return &Driver{cmd: cmd, in: bufio.NewWriterSize(wc, 1<<20), out: bufio.NewReaderSize(rc, 1<<20), wc: wc}, nil
}

type Reply struct {
	Kind  string // reply | need | skip
	Need  string // the residual query (s-expression) when Kind == need
	Model string
	Agree bool
	Spec  string // holds | fails | na
	Scope string // in | out:... | kf:...
	Raw   string
}

func (d *Driver) Ask(line string) (Reply, error) {
	if strings.ContainsAny(line, "\n\t") {
		return Reply{}, fmt.Errorf("bad request line")
	}
	d.in.WriteString(line)
	d.in.WriteByte('\n')
	if err := d.in.Flush(); err != nil {
		return Reply{}, err
	}
	raw, err := d.out.ReadString('\n')
	if err != nil {
		return Reply{}, fmt.Errorf("driver died: %v (request %.200s)", err, line)
	}
	raw = strings.TrimRight(raw, "\n")
	if strings.HasPrefix(raw, "ERR") {
		return Reply{}, fmt.Errorf("driver rejected request: %s (request %.300s)", raw, line)
	}
	if strings.HasPrefix(raw, "NEED ") {
		return Reply{Kind: "need", Need: raw[5:], Raw: raw}, nil
	}
	if strings.HasPrefix(raw, "SKIP ") {
		return Reply{Kind: "skip", Raw: raw, Scope: "out:unmodelled:" + strings.ReplaceAll(raw[5:], " ", "-"), Spec: "na", Agree: true}, nil
	}
	r := Reply{Raw: raw, Kind: "reply"}
	for _, f := range strings.Split(raw, "\t") {
		switch {
		case strings.HasPrefix(f, "M="):
			r.Model = f[2:]
		case strings.HasPrefix(f, "A="):
			r.Agree = f[2:] == "agree"
		case strings.HasPrefix(f, "S="):
			r.Spec = f[2:]
		case strings.HasPrefix(f, "Q="):
			r.Scope = f[2:]
		}
	}
	if r.Spec == "" || r.Scope == "" {
		return Reply{}, fmt.Errorf("malformed driver reply %q", raw)
	}
	return r, nil
}

func (d *Driver) Close() {
	d.wc.Close()
	d.cmd.Wait()
}
