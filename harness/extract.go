package main

import "fmt"

func extractMain(args []string) {
	_ = fmt.Sprint()
}
