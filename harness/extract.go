package main

import (
	"flag"
	"fmt"
	"go/ast"
	"go/parser"
	"go/token"
	"os"
	"path/filepath"
	"regexp/syntax"
	"sort"
	"strconv"
	"strings"
)

// T2: source facts re-extracted from /repo on every run and written as Lean terms into
// lean/PGV/Generated/*.lean (only when the content changes, so that `lake build` replays otherwise).
// Nothing here imports the repository's code: go/ast, go/parser and regexp/syntax only.

func leanBytes(s string) string {
	var parts []string
	for _, c := range []byte(s) {
		parts = append(parts, strconv.Itoa(int(c)))
	}
	return "[" + strings.Join(parts, ", ") + "]"
}

func leanStr(s string) string { return strconv.Quote(s) }

func parseDir(dir string) (*token.FileSet, []*ast.File) {
	fset := token.NewFileSet()
	pkgs, err := parser.ParseDir(fset, dir, func(fi os.FileInfo) bool { return !strings.HasSuffix(fi.Name(), "_test.go") }, parser.ParseComments)
	if err != nil {
		fmt.Fprintln(os.Stderr, "extract: parse", dir, err)
		os.Exit(1)
	}
	var files []*ast.File
	var names []string
	byName := map[string]*ast.File{}
	for _, p := range pkgs {
		for n, f := range p.Files {
			names = append(names, n)
			byName[n] = f
		}
	}
	sort.Strings(names)
	for _, n := range names {
		files = append(files, byName[n])
	}
	return fset, files
}

// constant strings of a package: `const ( VTo = "to" ... )` and simple `var x = "..."`
func constStrings(files []*ast.File) map[string]string {
	out := map[string]string{}
	for _, f := range files {
		for _, d := range f.Decls {
			gd, ok := d.(*ast.GenDecl)
			if !ok || (gd.Tok != token.CONST && gd.Tok != token.VAR) {
				continue
			}
			for _, s := range gd.Specs {
				vs := s.(*ast.ValueSpec)
				for i, n := range vs.Names {
					if i < len(vs.Values) {
						if bl, ok := vs.Values[i].(*ast.BasicLit); ok && bl.Kind == token.STRING {
							if v, err := strconv.Unquote(bl.Value); err == nil {
								out[n.Name] = v
							}
						}
					}
				}
			}
		}
	}
	return out
}

// constant string expressions: literals, named string constants, `+`, parentheses
func evalConstString(e ast.Expr, consts map[string]string) (string, bool) {
	switch x := e.(type) {
	case *ast.BasicLit:
		if x.Kind != token.STRING {
			return "", false
		}
		v, err := strconv.Unquote(x.Value)
		return v, err == nil
	case *ast.Ident:
		v, ok := consts[x.Name]
		return v, ok
	case *ast.ParenExpr:
		return evalConstString(x.X, consts)
	case *ast.BinaryExpr:
		if x.Op != token.ADD {
			return "", false
		}
		a, ok1 := evalConstString(x.X, consts)
		b, ok2 := evalConstString(x.Y, consts)
		return a + b, ok1 && ok2
	}
	return "", false
}

// every `X = regexp.MustCompile(<constant string expression>)`
func patterns(files []*ast.File) [][2]string {
	var out [][2]string
	consts := constStrings(files)
	for _, f := range files {
		ast.Inspect(f, func(n ast.Node) bool {
			vs, ok := n.(*ast.ValueSpec)
			if !ok {
				return true
			}
			for i, nm := range vs.Names {
				if i >= len(vs.Values) {
					continue
				}
				call, ok := vs.Values[i].(*ast.CallExpr)
				if !ok || len(call.Args) != 1 {
					continue
				}
				sel, ok := call.Fun.(*ast.SelectorExpr)
				if !ok || sel.Sel.Name != "MustCompile" {
					continue
				}
				p, ok := evalConstString(call.Args[0], consts)
				if !ok {
					continue
				}
				out = append(out, [2]string{nm.Name, p})
			}
			return true
		})
	}
	sort.Slice(out, func(i, j int) bool { return out[i][0] < out[j][0] })
	return out
}

func normalForm(p string) string {
	re, err := syntax.Parse(p, syntax.Perl)
	if err != nil {
		return "ERROR: " + err.Error()
	}
	return re.Simplify().String()
}

// the map literal validName2FnMap: rule name -> function identifier ("nil" for the walkers' own rules)
func ruleTable(files []*ast.File, consts map[string]string) [][2]string {
	var out [][2]string
	for _, f := range files {
		ast.Inspect(f, func(n ast.Node) bool {
			vs, ok := n.(*ast.ValueSpec)
			if !ok || len(vs.Names) != 1 || vs.Names[0].Name != "validName2FnMap" || len(vs.Values) != 1 {
				return true
			}
			cl, ok := vs.Values[0].(*ast.CompositeLit)
			if !ok {
				return true
			}
			for _, e := range cl.Elts {
				kv := e.(*ast.KeyValueExpr)
				key := "?"
				switch k := kv.Key.(type) {
				case *ast.Ident:
					if v, ok := consts[k.Name]; ok {
						key = v
					} else {
						key = "ident:" + k.Name
					}
				case *ast.BasicLit:
					key, _ = strconv.Unquote(k.Value)
				}
				val := "?"
				if id, ok := kv.Value.(*ast.Ident); ok {
					val = id.Name
				}
				out = append(out, [2]string{key, val})
			}
			return false
		})
	}
	return out
}

var listMutators = map[string]bool{"PushFront": true, "PushBack": true, "MoveToFront": true, "MoveToBack": true, "Remove": true, "Init": true,
	"InsertBefore": true, "InsertAfter": true, "MoveBefore": true, "MoveAfter": true, "PushBackList": true, "PushFrontList": true}

type lockFact struct {
	method        string
	lock          string // excl | shared | none
	writes, reads bool
	calls         []string // other methods of the receiver it calls
}

func recvName(fd *ast.FuncDecl) (string, string) {
	if fd.Recv == nil || len(fd.Recv.List) != 1 {
		return "", ""
	}
	t := fd.Recv.List[0].Type
	if st, ok := t.(*ast.StarExpr); ok {
		t = st.X
	}
	id, ok := t.(*ast.Ident)
	if !ok || len(fd.Recv.List[0].Names) != 1 {
		return "", ""
	}
	return id.Name, fd.Recv.List[0].Names[0].Name
}

func rootIdent(e ast.Expr) string {
	for {
		switch x := e.(type) {
		case *ast.SelectorExpr:
			e = x.X
		case *ast.IndexExpr:
			e = x.X
		case *ast.StarExpr:
			e = x.X
		case *ast.SliceExpr:
			e = x.X
		case *ast.Ident:
			return x.Name
		default:
			return ""
		}
	}
}

func lockFacts(files []*ast.File, typeName, mutexField string) []lockFact {
	var out []lockFact
	// helper methods whose whole body is one mutex operation on the receiver: name -> Lock/Unlock/RLock/RUnlock
	helpers := map[string]string{}
	for _, f := range files {
		for _, d := range f.Decls {
			fd, ok := d.(*ast.FuncDecl)
			if !ok || fd.Body == nil || len(fd.Body.List) != 1 {
				continue
			}
			tn, rv := recvName(fd)
			if tn != typeName {
				continue
			}
			es, ok := fd.Body.List[0].(*ast.ExprStmt)
			if !ok {
				continue
			}
			call, ok := es.X.(*ast.CallExpr)
			if !ok {
				continue
			}
			sel, ok := call.Fun.(*ast.SelectorExpr)
			if !ok {
				continue
			}
			if inner, ok := sel.X.(*ast.SelectorExpr); ok && inner.Sel.Name == mutexField && rootIdent(inner) == rv {
				helpers[fd.Name.Name] = sel.Sel.Name
			}
		}
	}
	for _, f := range files {
		for _, d := range f.Decls {
			fd, ok := d.(*ast.FuncDecl)
			if !ok || fd.Body == nil {
				continue
			}
			tn, rv := recvName(fd)
			if tn != typeName {
				continue
			}
			lf := lockFact{method: fd.Name.Name, lock: "none"}
			// which mutex operation a call statement performs: rv.mutex.Op() directly, or rv.helper() where the
			// helper's whole body is that one call
			mutexOp := func(call *ast.CallExpr) string {
				sel, ok := call.Fun.(*ast.SelectorExpr)
				if !ok {
					return ""
				}
				if inner, ok := sel.X.(*ast.SelectorExpr); ok && inner.Sel.Name == mutexField && rootIdent(inner) == rv {
					return sel.Sel.Name
				}
				if id, ok := sel.X.(*ast.Ident); ok && id.Name == rv && len(call.Args) == 0 {
					return helpers[sel.Sel.Name]
				}
				return ""
			}
			stmtOp := func(s ast.Stmt) (op string, deferred bool) {
				switch x := s.(type) {
				case *ast.DeferStmt:
					return mutexOp(x.Call), true
				case *ast.ExprStmt:
					if c, ok := x.X.(*ast.CallExpr); ok {
						return mutexOp(c), false
					}
				}
				return "", false
			}
			if _, isHelper := helpers[fd.Name.Name]; !isHelper && len(fd.Body.List) >= 2 {
				a, aDef := stmtOp(fd.Body.List[0])
				b, bDef := stmtOp(fd.Body.List[1])
				held := ""
				switch {
				case !aDef && bDef && a == "Lock" && b == "Unlock":
					held = "excl" // Lock(); defer Unlock()
				case !aDef && bDef && a == "RLock" && b == "RUnlock":
					held = "shared"
				case !aDef && (a == "Lock" || a == "RLock"):
					// Lock() … Unlock() written out: exactly one unlock, as the last statement (or right before a
					// final return), and no other return in the body
					want := map[string]string{"Lock": "Unlock", "RLock": "RUnlock"}[a]
					n := len(fd.Body.List)
					last := fd.Body.List[n-1]
					tail := n - 1
					if _, isRet := last.(*ast.ReturnStmt); isRet && n >= 3 {
						tail = n - 2
					}
					op, def := stmtOp(fd.Body.List[tail])
					unlocks, returns := 0, 0
					ast.Inspect(fd.Body, func(m ast.Node) bool {
						switch y := m.(type) {
						case *ast.ReturnStmt:
							returns++
						case *ast.FuncLit:
							return false
						case *ast.CallExpr:
							if o := mutexOp(y); o == "Unlock" || o == "RUnlock" {
								unlocks++
							}
						}
						return true
					})
					finalRet := 0
					if tail == n-2 {
						finalRet = 1
					}
					if op == want && !def && unlocks == 1 && returns == finalRet {
						held = map[string]string{"Lock": "excl", "RLock": "shared"}[a]
					}
				}
				if held != "" {
					lf.lock = held
				}
			}
			ast.Inspect(fd.Body, func(n ast.Node) bool {
				switch x := n.(type) {
				case *ast.AssignStmt:
					for _, l := range x.Lhs {
						if sel, ok := l.(*ast.SelectorExpr); ok && sel.Sel.Name == "Value" {
							lf.writes = true // a list element's payload
						}
						if _, isIdent := l.(*ast.Ident); !isIdent && rootIdent(l) == rv {
							lf.writes = true
						}
					}
				case *ast.IncDecStmt:
					if rootIdent(x.X) == rv {
						lf.writes = true
					}
				case *ast.CallExpr:
					if id, ok := x.Fun.(*ast.Ident); ok && id.Name == "delete" && len(x.Args) > 0 && rootIdent(x.Args[0]) == rv {
						lf.writes = true
					}
					if sel, ok := x.Fun.(*ast.SelectorExpr); ok {
						if rootIdent(sel.X) == rv {
							if _, direct := sel.X.(*ast.Ident); direct {
								lf.calls = append(lf.calls, sel.Sel.Name) // rv.method(...)
							} else if listMutators[sel.Sel.Name] {
								lf.writes = true
							}
						}
					}
				case *ast.SelectorExpr:
					if id, ok := x.X.(*ast.Ident); ok && id.Name == rv && x.Sel.Name != mutexField {
						lf.reads = true
					}
				}
				return true
			})
			out = append(out, lf)
		}
	}
	sort.Slice(out, func(i, j int) bool { return out[i].method < out[j].method })
	return out
}

// package-level variables and the functions that assign to them (or to their elements)
func globalWriters(files []*ast.File) [][2]string {
	globals := map[string]bool{}
	for _, f := range files {
		for _, d := range f.Decls {
			if gd, ok := d.(*ast.GenDecl); ok && gd.Tok == token.VAR {
				for _, s := range gd.Specs {
					for _, n := range s.(*ast.ValueSpec).Names {
						globals[n.Name] = true
					}
				}
			}
		}
	}
	var out [][2]string
	for _, f := range files {
		for _, d := range f.Decls {
			fd, ok := d.(*ast.FuncDecl)
			if !ok || fd.Body == nil {
				continue
			}
			// names shadowed by parameters / receivers are not globals here
			local := map[string]bool{}
			if fd.Recv != nil {
				for _, fl := range fd.Recv.List {
					for _, n := range fl.Names {
						local[n.Name] = true
					}
				}
			}
			for _, fl := range fd.Type.Params.List {
				for _, n := range fl.Names {
					local[n.Name] = true
				}
			}
			seen := map[string]bool{}
			ast.Inspect(fd.Body, func(n ast.Node) bool {
				note := func(e ast.Expr) {
					r := rootIdent(e)
					if globals[r] && !local[r] && !seen[r] {
						seen[r] = true
						out = append(out, [2]string{r, fd.Name.Name})
					}
				}
				switch x := n.(type) {
				case *ast.AssignStmt:
					if x.Tok == token.DEFINE {
						for _, l := range x.Lhs {
							if id, ok := l.(*ast.Ident); ok {
								local[id.Name] = true
							}
						}
						return true
					}
					for _, l := range x.Lhs {
						note(l)
					}
				case *ast.IncDecStmt:
					note(x.X)
				}
				return true
			})
		}
	}
	sort.Slice(out, func(i, j int) bool { return out[i][0]+"/"+out[i][1] < out[j][0]+"/"+out[j][1] })
	return out
}

// aliasFacts: every call internal.UnsafeBytes2Str(x) in package valid — the zero-copy conversion is
// safe only when x's backing array is private to the call and never written again.
// (function, variable, origin of the variable: make | other, written after the call, call inside a loop)
type aliasFact struct {
	fn, v, origin      string
	writtenAfter, loop bool
}

func aliasFacts(files []*ast.File) []aliasFact {
	var out []aliasFact
	for _, f := range files {
		for _, d := range f.Decls {
			fd, ok := d.(*ast.FuncDecl)
			if !ok || fd.Body == nil {
				continue
			}
			// calls, with loop nesting
			type callSite struct {
				pos  token.Pos
				v    string
				loop bool
			}
			var calls []callSite
			var walk func(n ast.Node, inLoop bool)
			walk = func(n ast.Node, inLoop bool) {
				ast.Inspect(n, func(m ast.Node) bool {
					switch x := m.(type) {
					case *ast.ForStmt:
						if m != n {
							walk(x.Body, true)
							return false
						}
					case *ast.RangeStmt:
						if m != n {
							walk(x.Body, true)
							return false
						}
					case *ast.CallExpr:
						if se, ok := x.Fun.(*ast.SelectorExpr); ok && se.Sel.Name == "UnsafeBytes2Str" && len(x.Args) == 1 {
							calls = append(calls, callSite{x.Pos(), rootIdent(x.Args[0]), inLoop})
						}
					}
					return true
				})
			}
			walk(fd.Body, false)
			for _, c := range calls {
				af := aliasFact{fn: fd.Name.Name, v: c.v, origin: "other", loop: c.loop}
				ast.Inspect(fd.Body, func(m ast.Node) bool {
					switch x := m.(type) {
					case *ast.AssignStmt:
						for i, l := range x.Lhs {
							if rootIdent(l) != c.v {
								continue
							}
							if x.Tok == token.DEFINE {
								if i < len(x.Rhs) {
									switch rhs := x.Rhs[i].(type) {
									case *ast.CallExpr:
										if id, ok := rhs.Fun.(*ast.Ident); ok && id.Name == "make" {
											af.origin = "make"
										}
									case *ast.CompositeLit:
										af.origin = "make" // []byte{…}: a fresh backing array as well
									}
								}
								continue
							}
							if x.Pos() > c.pos {
								af.writtenAfter = true
							}
						}
					case *ast.IncDecStmt:
						if rootIdent(x.X) == c.v && x.Pos() > c.pos {
							af.writtenAfter = true
						}
					case *ast.DeclStmt:
						// var x []byte (no initialiser): a nil slice, grown by append inside the function
						if gd, ok := x.Decl.(*ast.GenDecl); ok && gd.Tok == token.VAR {
							for _, sp := range gd.Specs {
								if vs, ok := sp.(*ast.ValueSpec); ok && len(vs.Values) == 0 {
									for _, n := range vs.Names {
										if n.Name == c.v {
											af.origin = "make"
										}
									}
								}
							}
						}
					}
					return true
				})
				out = append(out, af)
			}
		}
	}
	sort.Slice(out, func(i, j int) bool { return out[i].fn+out[i].v < out[j].fn+out[j].v })
	return out
}

func writeIfChanged(path, content string) {
	if old, err := os.ReadFile(path); err == nil && string(old) == content {
		return
	}
	os.MkdirAll(filepath.Dir(path), 0755)
	os.WriteFile(path, []byte(content), 0644)
}

func extractMain(args []string) {
	fs := flag.NewFlagSet("extract", flag.ExitOnError)
	repo := fs.String("repo", "/repo", "repository")
	out := fs.String("out", "", "output directory (lean/PGV/Generated)")
	fs.Parse(args)
	_, vfiles := parseDir(filepath.Join(*repo, "valid"))
	_, ffiles := parseDir(filepath.Join(*repo, "file"))
	consts := constStrings(vfiles)

	var sb strings.Builder
	sb.WriteString("/-! GENERATED by `pgvh extract` from /repo on every run — do not edit. -/\n\nnamespace PGV.Generated\n\n")
	sb.WriteString("/-- every `regexp.MustCompile(<constant>)` of valid/ and file/: name, pattern text, regexp/syntax normal form -/\n")
	sb.WriteString("def patterns : List (String × String × String) := [\n")
	pats := append(patterns(vfiles), patterns(ffiles)...)
	for i, p := range pats {
		sep := ","
		if i == len(pats)-1 {
			sep = ""
		}
		sb.WriteString(fmt.Sprintf("  (%s, %s, %s)%s\n", leanStr(p[0]), leanStr(p[1]), leanStr(normalForm(p[1])), sep))
	}
	sb.WriteString("]\n\n")
	sb.WriteString("/-- the map literal `validName2FnMap`: rule name ↦ function (`nil` = implemented by the walkers) -/\n")
	sb.WriteString("def ruleTable : List (String × String) := [\n")
	rt := ruleTable(vfiles, consts)
	for i, e := range rt {
		sep := ","
		if i == len(rt)-1 {
			sep = ""
		}
		sb.WriteString(fmt.Sprintf("  (%s, %s)%s\n", leanStr(e[0]), leanStr(e[1]), sep))
	}
	sb.WriteString("]\n\n")
	sb.WriteString("/-- the rule names of `validName2FnMap` as byte strings, in table order -/\n")
	sb.WriteString("def ruleKeys : List (List UInt8) := [\n")
	for i, e := range rt {
		sep := ","
		if i == len(rt)-1 {
			sep = ""
		}
		sb.WriteString("  " + leanBytes(e[0]) + sep + "\n")
	}
	sb.WriteString("]\n\n")
	sb.WriteString("/-- methods of `LRUCache`: (name, lock held for the whole body: excl / shared / none, writes shared state, reads shared state, methods of the receiver it calls) -/\n")
	sb.WriteString("def lockFacts : List (String × String × Bool × Bool × List String) := [\n")
	lfs := lockFacts(vfiles, "LRUCache", "rwMu")
	for i, l := range lfs {
		sep := ","
		if i == len(lfs)-1 {
			sep = ""
		}
		var cs []string
		for _, c := range l.calls {
			cs = append(cs, leanStr(c))
		}
		sb.WriteString(fmt.Sprintf("  (%s, %s, %v, %v, [%s])%s\n", leanStr(l.method), leanStr(l.lock), l.writes, l.reads, strings.Join(cs, ", "), sep))
	}
	sb.WriteString("]\n\n")
	sb.WriteString("/-- package-level variables of `valid` that some function assigns to (variable, function) -/\n")
	sb.WriteString("def globalWriters : List (String × String) := [\n")
	gw := globalWriters(vfiles)
	for i, e := range gw {
		sep := ","
		if i == len(gw)-1 {
			sep = ""
		}
		sb.WriteString(fmt.Sprintf("  (%s, %s)%s\n", leanStr(e[0]), leanStr(e[1]), sep))
	}
	sb.WriteString("]\n\n")
	sb.WriteString("/-- every `internal.UnsafeBytes2Str(x)` of package valid: (function, variable, origin of the variable: make / other, written after the call, call inside a loop) -/\n")
	sb.WriteString("def aliasFacts : List (String × String × String × Bool × Bool) := [\n")
	afs := aliasFacts(vfiles)
	for i, a := range afs {
		sep := ","
		if i == len(afs)-1 {
			sep = ""
		}
		sb.WriteString(fmt.Sprintf("  (%s, %s, %s, %v, %v)%s\n", leanStr(a.fn), leanStr(a.v), leanStr(a.origin), a.writtenAfter, a.loop, sep))
	}
	sb.WriteString("]\n\nend PGV.Generated\n")
	if *out == "" {
		fmt.Print(sb.String())
		return
	}
	writeIfChanged(filepath.Join(*out, "Facts.lean"), sb.String())
}
