package main

import "fmt"

func extractMain(args []string) {
	fmt.Println("extract: not yet implemented")
}
