#!/usr/bin/env python3
"""cross_check.py <ID-X> <check,check,...> — run further checks against a stored seeded change (apply to /repo, run, undo)
and add the results to seeded/<ID-X>/meta.json."""
import json, os, subprocess, sys
seed, checks = sys.argv[1], sys.argv[2].split(",")
d = f"/verif/seeded/{seed}"
meta = json.load(open(f"{d}/meta.json"))
def sh(cmd):
    p = subprocess.run(cmd, shell=True, capture_output=True, text=True, errors="replace")
    return p.returncode, p.stdout + p.stderr
rc, out = sh(f"git -C /repo apply {d}/patch.diff"); assert rc == 0, out
try:
    for c in checks:
        p = subprocess.run(["./check", c, "--tier", "quick"], cwd="/verif", capture_output=True, text=True, errors="replace")
        lines = [l for l in p.stdout.splitlines() if l.startswith(("VIOLATION", "OK"))]
        meta["checks_run"][c] = {"exit": p.returncode, "line": lines[-1] if lines else p.stderr[-300:]}
        print(seed, c, meta["checks_run"][c], flush=True)
finally:
    sh("git -C /repo checkout -- .")
    rc, out = sh("git -C /repo status --short"); assert out.strip() == "", out
meta["caught_by"] = [c for c, r in meta["checks_run"].items() if r["exit"] == 1]
json.dump(meta, open(f"{d}/meta.json", "w"), indent=1, ensure_ascii=False)
