#!/usr/bin/env python3
"""gen_audit.py [Cxx ...] — regenerate lean/PGV/Audit/Cxx.lean: one `#print axioms` per theorem of Props/Cxx.lean."""
import re, sys, os, glob
root = os.path.join(os.path.dirname(os.path.abspath(__file__)), "..", "lean", "PGV")
ids = sys.argv[1:] or sorted(os.path.basename(p)[:-5] for p in glob.glob(os.path.join(root, "Props", "C*.lean")))
for pid in ids:
    src = open(os.path.join(root, "Props", pid + ".lean")).read()
    ns = re.search(r"^namespace\s+(\S+)", src, re.M).group(1)
    names = re.findall(r"^(?:private\s+)?theorem\s+([^\s:({\[]+)", src, re.M)
    out = f"import PGV.Props.{pid}\n\n" + "".join(f"#print axioms {ns}.{n}\n" for n in names)
    path = os.path.join(root, "Audit", pid + ".lean")
    old = open(path).read() if os.path.exists(path) else ""
    if old != out:
        open(path, "w").write(out)
    print(pid, len(names), "theorems", "(updated)" if old != out else "")
