#!/usr/bin/env python3
"""confirm_seed.py <ID> <X> [destdir-in-repo]   — confirm a seeded change delivered in /tmp/seeded-out/<ID>/<X>
in a scratch worktree (suite passes with it, demo fails with it, demo passes without it), run the named
checks against it on /repo, and store it as /verif/seeded/<ID>-<X>/ (patch.diff, demo, meta.json)."""
import glob, json, os, re, shutil, subprocess, sys
pid, x = sys.argv[1], sys.argv[2]
checks = sys.argv[3].split(",") if len(sys.argv) > 3 else [pid]
dest_override = sys.argv[4] if len(sys.argv) > 4 else None
src = f"/tmp/seeded-out/{pid}/{x}"
wt = f"/tmp/wtc-{pid}-{x}"
env = dict(os.environ, GOFLAGS="-mod=mod", GOPROXY="off", GOSUMDB="off", GOTOOLCHAIN="local")
def sh(cmd, cwd=None):
    p = subprocess.run(cmd, cwd=cwd, env=env, shell=True, capture_output=True, text=True, errors='replace')
    return p.returncode, p.stdout + p.stderr
subprocess.run(f"git -C /repo worktree remove --force {wt}", shell=True, capture_output=True)
rc, out = sh(f"git -C /repo worktree add -q --detach {wt} HEAD")
assert rc == 0, out
try:
    demo_txt = open(os.path.join(src, "DEMO.txt")).read()
    demos = [f for f in glob.glob(os.path.join(src, "*_test.go"))]
    m = re.search(r"(?:to|as|To)[:\s]+`?((?:valid|file|log|valid/internal)/[\w./]*_test\.go|[\w/]*_test\.go)`?", demo_txt)
    destdir = "valid"
    if m and "/" in m.group(1):
        destdir = os.path.dirname(m.group(1))
    m2 = re.search(r"\b(file|log|valid/internal|valid)/[\w.]*_test\.go", demo_txt)
    if m2:
        destdir = m2.group(1)
    elif re.search(r"repo(sitory)? root", demo_txt) or re.search(r"copy to \./|copy to \.\s*$", demo_txt.strip()):
        destdir = "."
    if dest_override:
        destdir = dest_override
    rc, out = sh(f"git apply {src}/patch.diff", wt); assert rc == 0, "patch does not apply: " + out
    rc, out = sh("go build ./... && go test -vet=off -count=1 ./...", wt)
    suite_ok = rc == 0
    for d in demos:
        shutil.copy(d, os.path.join(wt, destdir, os.path.basename(d)))
    rc, out_with = sh(f"go test -vet=off -count=1 -run 'Seeded' ./{destdir}", wt)
    demo_fails_with = rc != 0 and "FAIL" in out_with
    sh(f"git apply -R {src}/patch.diff", wt)
    rc, out_without = sh(f"go test -vet=off -count=1 -run 'Seeded' ./{destdir}", wt)
    demo_passes_without = rc == 0
finally:
    subprocess.run(f"git -C /repo worktree remove --force {wt}", shell=True, capture_output=True)
print(f"suite_ok={suite_ok} demo_fails_with={demo_fails_with} demo_passes_without={demo_passes_without}")
if not (suite_ok and demo_fails_with and demo_passes_without):
    print(out_with[-1500:]); print(out_without[-1500:])
    sys.exit(1)
# run checks against it on /repo
results = {}
rc, out = sh(f"git -C /repo apply {src}/patch.diff"); assert rc == 0, out
try:
    for c in checks:
        p = subprocess.run(["./check", c, "--tier", "quick"], cwd="/verif", capture_output=True, text=True, errors="replace")
        lines = [l for l in p.stdout.splitlines() if l.startswith(("VIOLATION", "OK"))]
        results[c] = {"exit": p.returncode, "line": lines[-1] if lines else p.stderr[-300:]}
        print(c, results[c])
finally:
    sh("git -C /repo checkout -- .")
    rc, out = sh("git -C /repo status --short"); assert out.strip() == "", out
dst = f"/verif/seeded/{pid}-{x}"
os.makedirs(dst, exist_ok=True)
shutil.copy(f"{src}/patch.diff", dst)
for d in demos:
    shutil.copy(d, os.path.join(dst, os.path.basename(d) + ".txt"))   # .txt: must not be compiled as part of anything
shutil.copy(f"{src}/DEMO.txt", dst)
notes = open(f"{src}/NOTES.md").read() if os.path.exists(f"{src}/NOTES.md") else ""
open(os.path.join(dst, "NOTES.md"), "w").write(notes)
meta = {"property": pid, "variant": x, "origin": "independent sub-agent given only the property text and a scratch worktree",
        "needs_to_manifest": (re.search(r"(?is)(trigger|manifest)[^\n]*\n(.{0,600})", notes) or [None, "", "see NOTES.md"])[2].strip()[:600] if notes else "see NOTES.md",
        "confirmed": {"suite_passes_with_change": suite_ok, "demo_fails_with_change": demo_fails_with, "demo_passes_without_change": demo_passes_without,
                      "how": f"scratch worktree of /repo HEAD: git apply patch.diff; go build ./... && go test -vet=off -count=1 ./...; copy demo to {destdir}/; go test -run Seeded ./{destdir}; git apply -R; go test -run Seeded ./{destdir}"},
        "checks_run": results,
        "caught_by": [c for c, r in results.items() if r["exit"] == 1]}
json.dump(meta, open(os.path.join(dst, "meta.json"), "w"), indent=1, ensure_ascii=False)
print("stored", dst, "caught_by", meta["caught_by"])
