#!/bin/sh
# usage: tools/run_refactors.sh [dir…]   — for each harmless refactoring (default: /verif/refactors/*), apply it to /repo,
# run all 20 quick checks (4 at a time), print every alarm, undo it.  No output after a header line = no alarm.
cd /verif || exit 2
[ $# -eq 0 ] && set -- /verif/refactors/*
for d in "$@"; do
  p="$d/patch.diff"; [ -f "$p" ] || continue
  echo "=== $(basename "$d"): $(head -1 "$d/NOTES.md" 2>/dev/null)"
  git -C /repo apply "$p" || { echo "APPLY-FAILED"; continue; }
  printf '%s\n' C01 C02 C03 C04 C05 C06 C07 C08 C09 C10 C11 C12 C13 C14 C15 C16 C17 C18 C19 C20 |
    xargs -P4 -I{} sh -c './check {} --tier quick 2>&1 | grep "VIOLATION\|rror\|BROKEN" | head -2'
  git -C /repo checkout -- .
  git -C /repo status --short | head -2
done
