"""Per-property configuration of ./check (which Lean modules hold the theorems, which streams tie them to /repo)."""

TRUSTED_BASE = [
    "Lean 4.33.0 kernel (thorough tier: also leanchecker)",
    "Lean compiler/runtime executing the model and spec definitions inside pgvdriver",
    "the Lean Spec.* definitions as a faithful reading of the property text (DESIGN.md §6)",
    "correspondence check (differential testing, Go harness in /verif/harness): supports the model=code tie on generated inputs only",
    "hand transcription of Go stdlib behaviour used by the model (UTF-8 decoding, strings.*, strconv.*, reflect as listed in DESIGN.md §5)",
]

CHECKS = {
    "C01": {
        "modules": ["PGV.Props.C01"],
        "audits": ["PGV/Audit/C01.lean"],
        "streams": ["size-exh", "size"],
        "thorough_seeds": 4,
        "exhaustive_note": "size-exh (thorough) enumerates all 256 int8 and all 256 uint8 values x 6 one-bound rules x every bound in [-130,260] and x {to,oto} x 149 bound pairs",
        "assumptions": [
            "integer bounds = the argument reads with strconv.Atoi (transcribed in Model.atoi); NaN has no measure (out of scope, reported)",
            "float fields: the theorem needs |bound| < 2^53 (float64(bound) exact); beyond that the code rounds: known finding F-C01-e",
            "rendering of floats in messages (strconv.FormatFloat) is supplied by the harness from the stdlib",
        ],
        "explanation": "C01_verdict: for every rule text whose key is one of the eight rules and whose argument reads as integer bounds, and every measurable value, the function bound to that key in the rule table writes a clause iff the measure is outside the stated set (all widths, all bounds, all values); streams size-exh / size compare whole error strings of Var/Struct/Map/Url with the model and judge the implementation's verdict against Spec.Size",
    },
    "C09": {
        "modules": ["PGV.Props.C09"],
        "audits": ["PGV/Audit/C09.lean"],
        "streams": ["lru-exh", "lru"],
        "thorough_seeds": 4,
        "exhaustive_note": "lru-exh enumerates every op sequence of the stated length over the small alphabet for cap 0..4",
        "assumptions": [
            "keys are hashable values on which == is reflexive (modelled as Nat); cap >= 0",
            "Go map iteration order is never observed by the cache (index lookups and a scan for a unique element only)",
            "container/list PushFront/MoveToFront/Remove/Back modelled as list operations on (element id, value) pairs",
        ],
        "explanation": "C09_inv / C09_refines are by induction over ALL operation sequences and capacities; the streams compare every step's result, the callback log and Dump of the real LRUCache with the model and the spec",
    },
    "C14": {
        "modules": ["PGV.Props.C14"],
        "audits": ["PGV/Audit/C14.lean"],
        "streams": ["ruletext"],
        "thorough_seeds": 4,
        "assumptions": [
            "rule keys contain none of , ' = | ; values contain no | ' , (commas allowed in re patterns) and do not start with =; messages contain no , '",
            "Go map semantics of RM modelled as an association list",
        ],
        "explanation": "theorems over all byte strings / all well-formed rule lists; stream ruletext compares ValidNamesSplit, ParseValidNameKV, GenValidKV, RM.Set/Get and the whole pipeline with the model and evaluates the spec on the implementation's output",
    },
}

NOT_YET = {}

MANIFEST_TEXT = {
    "C01": {
        "technique": "Lean 4 theorems (case analysis over kinds, exact integer/dyadic arithmetic) + differential correspondence incl. exhaustive 8-bit window",
        "text": "Theorems for ALL rule texts, bounds and values (no width or size bound): C01_bound_verdict (ge/gt/le/lt), C01_range_verdict (to/oto, min>max included), "
                "C01_eq_verdict (eq/noeq) and their union over the rule table C01_verdict: the function bound to the rule's key writes a clause iff the measure (rune count, "
                "numeric value, slice length) lies outside the stated set; C01_width_signedness_indep: the verdict depends on the value only through its measure. Floats: under "
                "|bound| < 2^53; outside it the statement is false of the code (F_C01_e_witness, known finding). Tie: size-exh (all int8/uint8 values x bound window, exhaustive in "
                "the thorough tier, strided 1/8 in quick) and size (boundary-dense random over all kinds, multi-byte and invalid UTF-8 strings, min>max) through Var/Struct/Map/Url; "
                "the implementation's whole error string is compared with the model and its verdict with the spec.",
        "note": "Trusted: Lean kernel; Spec.Size (measure/inSet, 60 lines) as the reading of the property; Model.atoi and runeCount as transcriptions of strconv.Atoi / UTF-8 decoding; "
                "parseValidNameKV as the reading of rule text (its own correctness is C14); differential testing bounds the model=code tie. Entry-point independence is observed by the "
                "streams (six carriers) and is C18's theorem.",
    },
    "C09": {
        "technique": "Lean 4 invariant + refinement theorems (induction over op sequences) + differential correspondence incl. bounded-exhaustive enumeration",
        "text": "Theorems for EVERY operation sequence and EVERY capacity: the two-structure representation invariant holds in all reachable states (C09_inv), "
                "the cache model produces exactly the outputs of the abstract bounded LRU list (Load results, Len, callback log, Dump) and commutes with the "
                "abstraction (C09_refines); corollaries: Len is never the sentinel, capacity bound and key uniqueness, latest value, hit iff live, eviction of "
                "the least recently used entry, callback accounting. Tie: streams lru-exh (every sequence of length 4 quick / 6 thorough over 13 ops, cap 0..4) "
                "and lru (random long histories crossing the map-rebuild threshold, cap up to 512) compare the real LRUCache step by step.",
        "note": "Trusted: Lean kernel; Spec.LRU (30 lines) as the meaning of 'bounded LRU map'; container/list and Go map transcribed as lists; sync.RWMutex irrelevant "
                "sequentially (C10 covers concurrency); differential testing bounds the model=code tie.",
    },
    "C14": {
        "technique": "Lean 4 theorems (loop invariant, structural induction) + differential correspondence",
        "text": "Theorems for ALL byte strings / rule lists: the splitter returns the quote-aware pieces up to one trailing empty piece "
                "(C14_split_refines), loses no byte (C14_split_noloss_all), never splits inside a quoted segment (C14_split_quoted), its byte stack never "
                "exceeds one element (stack_le_one), and builder→RM.Set→RM.Get→splitter→parser recovers every well-formed rule list with the documented "
                "wrapping and label (C14_roundtrip). The model is tied to /repo by the ruletext stream (200k cases quick) comparing every function and the "
                "whole pipeline, with the spec evaluated on the implementation's own output.",
        "note": "Trusted: Lean kernel; Spec.RuleText as reading of the property (Rule.wf is the documented shape: no , ' = | in keys, no | ' , in values except commas "
                "in re patterns, no , ' in messages); transcription of strings.Index/Split/Join and UTF-8 decoding; differential testing bounds the model=code tie.",
    },
}
