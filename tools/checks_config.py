"""Per-property configuration of ./check (which Lean modules hold the theorems, which streams tie them to /repo)."""

TRUSTED_BASE = [
    "Lean 4.33.0 kernel (thorough tier: also leanchecker)",
    "Lean compiler/runtime executing the model and spec definitions inside pgvdriver",
    "the Lean Spec.* definitions as a faithful reading of the property text (DESIGN.md §6)",
    "correspondence check (differential testing, Go harness in /verif/harness): supports the model=code tie on generated inputs only",
    "hand transcription of Go stdlib behaviour used by the model (UTF-8 decoding, strings.*, strconv.*, reflect as listed in DESIGN.md §5)",
]

CHECKS = {
    "C14": {
        "modules": ["PGV.Props.C14"],
        "audits": ["PGV/Audit/C14.lean"],
        "streams": ["ruletext"],
        "thorough_seeds": 4,
        "assumptions": [
            "rule keys contain none of , ' = | ; values contain no | ' , (commas allowed in re patterns) and do not start with =; messages contain no , '",
            "Go map semantics of RM modelled as an association list",
        ],
        "explanation": "theorems over all byte strings / all well-formed rule lists; stream ruletext compares ValidNamesSplit, ParseValidNameKV, GenValidKV, RM.Set/Get and the whole pipeline with the model and evaluates the spec on the implementation's output",
    },
}
