"""Per-property configuration of ./check (which Lean modules hold the theorems, which streams tie them to /repo)."""

TRUSTED_BASE = [
    "Lean 4.33.0 kernel (thorough tier: also leanchecker)",
    "Lean compiler/runtime executing the model and spec definitions inside pgvdriver",
    "the Lean Spec.* definitions as a faithful reading of the property text (DESIGN.md §6)",
    "correspondence check (differential testing, Go harness in /verif/harness): supports the model=code tie on generated inputs only",
    "hand transcription of Go stdlib behaviour used by the model (UTF-8 decoding, strings.*, strconv.*, reflect as listed in DESIGN.md §5)",
]

CHECKS = {
    "C14": {
        "modules": ["PGV.Props.C14"],
        "audits": ["PGV/Audit/C14.lean"],
        "streams": ["ruletext"],
        "thorough_seeds": 4,
        "assumptions": [
            "rule keys contain none of , ' = | ; values contain no | ' , (commas allowed in re patterns) and do not start with =; messages contain no , '",
            "Go map semantics of RM modelled as an association list",
        ],
        "explanation": "theorems over all byte strings / all well-formed rule lists; stream ruletext compares ValidNamesSplit, ParseValidNameKV, GenValidKV, RM.Set/Get and the whole pipeline with the model and evaluates the spec on the implementation's output",
    },
}

NOT_YET = {}

MANIFEST_TEXT = {
    "C14": {
        "technique": "Lean 4 theorems (loop invariant, structural induction) + differential correspondence",
        "text": "Theorems for ALL byte strings / rule lists: the splitter returns the quote-aware pieces up to one trailing empty piece "
                "(C14_split_refines), loses no byte (C14_split_noloss_all), never splits inside a quoted segment (C14_split_quoted), its byte stack never "
                "exceeds one element (stack_le_one), and builder→RM.Set→RM.Get→splitter→parser recovers every well-formed rule list with the documented "
                "wrapping and label (C14_roundtrip). The model is tied to /repo by the ruletext stream (200k cases quick) comparing every function and the "
                "whole pipeline, with the spec evaluated on the implementation's own output.",
        "note": "Trusted: Lean kernel; Spec.RuleText as reading of the property (Rule.wf is the documented shape: no , ' = | in keys, no | ' , in values except commas "
                "in re patterns, no , ' in messages); transcription of strings.Index/Split/Join and UTF-8 decoding; differential testing bounds the model=code tie.",
    },
}
