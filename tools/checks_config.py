"""Per-property configuration of ./check (which Lean modules hold the theorems, which streams tie them to /repo)."""

TRUSTED_BASE = [
    "Lean 4.33.0 kernel (thorough tier: also leanchecker)",
    "Lean compiler/runtime executing the model and spec definitions inside pgvdriver",
    "the Lean Spec.* definitions as a faithful reading of the property text (DESIGN.md §6)",
    "correspondence check (differential testing, Go harness in /verif/harness): supports the model=code tie on generated inputs only",
    "hand transcription of Go stdlib behaviour used by the model (UTF-8 decoding, strings.*, strconv.*, reflect, url.QueryUnescape, time.Parse / Format for the numeric layout elements, as listed in DESIGN.md §5)",
]

WALK_ASSUME = ['reflect (Kind, IsZero, Len, Index, MapRange, pointer stripping, Type().String()/Name()) transcribed on the GoVal tree; values are trees (no cycles)', 'Go map iteration order is unobservable: the driver accepts any order of map entries and of group clauses', 'residual stdlib calls (regexp on user patterns, net.ParseIP, json.Valid, os.Stat, time.Parse for layouts with an element other than 2006 01 02 15 04 05, error texts of Atoi/QueryUnescape) are answered by the harness from the stdlib', 'fmt %v of composite values and reflect.DeepEqual on composites are residuals answered by the harness from the stdlib, keyed by a fingerprint of the value; when the wire format cannot name the value uniquely (pointer identity) the case is out of scope (unmodelled), never judged']

CHECKS = {

    "C02": {
        "modules": ["PGV.Props.C02"], "audits": ["PGV/Audit/C02.lean"],
        "streams": ["walk", "flat"], "thorough_seeds": 4,
        "assumptions": WALK_ASSUME,
        "explanation": "theorems: every walker function only appends (frame theorem by mutual structural induction over value trees), outputs concatenate in declaration / index / rule order, one rule item = one step of the loop and the loop always continues, closed forms of both rule loops (exactly one contribution per rule item, in rule order, independent of what was written before), nil iff nothing written, exactly one trailing separator removed; streams walk/flat compare the WHOLE error string of Struct/Var/Map/Url calls on synthesised types with the model",
    },
    "C03": {
        "modules": ["PGV.Props.C03"], "audits": ["PGV/Audit/C03.lean"],
        "streams": ["walk-zero", "flat", "iface-probe", "walk-deep"], "thorough_seeds": 4,
        "assumptions": WALK_ASSUME,
        "explanation": "theorems: required writes its clause iff the value is empty (zero / length 0), supplied values get no clause, every table-dispatched rule is skipped on zero values, missing Map/Url entries violate required; streams compare whole error strings over every kind, zero and non-zero",
    },
    "C04": {
        "modules": ["PGV.Props.C04"], "audits": ["PGV/Audit/C04.lean"],
        "streams": ["walk-deep", "walk"], "thorough_seeds": 4,
        "assumptions": WALK_ASSUME,
        "explanation": "theorems: unmarked / unexported / time fields are never looked at, required/exist descend under Parent.Field, elements are Parent.Field[i], entries Parent.Field[key], nil and zero sub-objects are silent; stream walk-deep: type graphs to depth 6",
    },
    "C13": {
        "modules": ["PGV.Props.C13"], "audits": ["PGV/Audit/C13.lean"],
        "streams": ["flat", "walk", "walk-deep"], "thorough_seeds": 4,
        "assumptions": WALK_ASSUME + ["panics inside unmodelled stdlib calls and the Go runtime are outside the theorem (partial): every call of the streams runs under recover and a panic is compared with the model's (panic-free) answer"],
        "explanation": "theorems C13_total_struct/var/map/url: for every configuration, value tree, rule text (arbitrary bytes) and residual answer the model never ends in a modelled panic (slice expressions of in/re are modelled with Go's bounds checks and shown safe under the code's guards); streams feed nil / typed-nil / wrong-kind inputs and malformed rule text",
    },
    "C15": {
        "modules": ["PGV.Props.C15"], "audits": ["PGV/Audit/C15.lean"],
        "streams": ["explain", "flat", "walk", "explain-exh"], "thorough_seeds": 4,
        "assumptions": WALK_ASSUME + ["C15_extract is stated for clean clause lists: no clause contains ErrEndFlag and the first label in a clause is its own (decidable; evaluated per case, violations of it are reported as out of scope)"],
        "explanation": "C15_extract: for EVERY list of clean clauses (any mix/order/length) GetOnlyExplainErr(render cs) = the explanations of the labelled clauses joined by ErrEndFlag; C15_message_verbatim: the clause of a violated rule with a custom message is path + input + label + message verbatim; stream explain feeds synthetic clause lists and real validation errors to GetOnlyExplainErr, walk/flat compare every clause text (30% custom messages, ASCII/CJK/one-rune)",
    },
    "C16": {
        "modules": ["PGV.Props.C16"], "audits": ["PGV/Audit/C16.lean"],
        "streams": ["walk-rm", "walk", "walk-gfn", "walk-gfn-seq"], "thorough_seeds": 4,
        "assumptions": WALK_ASSUME + ["global registrations (SetCustomerValidFn) happen at process start, before any validation (walk-gfn: in two rounds, the later registration of a name replacing the earlier one and built-in names)"],
        "explanation": "theorems: rule-set selection for outermost vs nested structs (no leak), effective rule = set's rule instead of the tag rule, unmentioned fields keep the tag, lookup order per-call > registered > built-in, unknown name = one clause and the loop continues; stream walk-rm: typed/unscoped/both/empty sets, tags, local and global functions; stream walk-gfn: a global name registered twice and built-in names (idcard, le, phone) registered globally",
    },
    "C17": {
        "modules": ["PGV.Props.C17"], "audits": ["PGV/Audit/C17.lean"],
        "streams": ["walk-group", "flat"], "thorough_seeds": 4,
        "assumptions": WALK_ASSUME,
        "explanation": "theorems: either violated iff all members empty, botheq iff some member differs, singleton = rule-writing error, groups are exactly the members of one object (scope) with one rule text; stream walk-group: groups in slices, maps, nested objects, Map and Url inputs",
    },
    "C18": {
        "modules": ["PGV.Props.C18"], "audits": ["PGV/Audit/C18.lean"],
        "streams": ["size", "flat"], "thorough_seeds": 4,
        "assumptions": WALK_ASSUME + ["known finding F-C03-c: map[string]interface{} values stay Kind Interface", "URL values containing a decoded & or = are truncated (the whole URL is unescaped before splitting): see known findings"],
        "explanation": "theorems: all walkers dispatch a non-empty value to the same rule function with the same text and value; size-rule verdicts do not depend on the carrier's names; QueryUnescape(QueryEscape s) = s for all byte strings; stream size sends one (rule,value) through Var/Struct(RM)/Struct(tag)/Map/Map(interface{})/[]Map/Url and judges each verdict against the spec",
    },
    "C01": {
        "modules": ["PGV.Props.C01"],
        "audits": ["PGV/Audit/C01.lean"],
        "streams": ["size-exh", "size"],
        "thorough_seeds": 4,
        "exhaustive_note": "size-exh (thorough) enumerates all 256 int8 and all 256 uint8 values x 6 one-bound rules x every bound in [-130,260] and x {to,oto} x 149 bound pairs",
        "assumptions": [
            "integer bounds = the argument reads with strconv.Atoi (transcribed in Model.atoi); NaN has no measure (out of scope, reported)",
            "float fields: the theorem needs |bound| < 2^53 (float64(bound) exact); beyond that the code rounds: known finding F-C01-e",
            "rendering of floats in messages (strconv.FormatFloat) is supplied by the harness from the stdlib",
        ],
        "explanation": "C01_verdict: for every rule text whose key is one of the eight rules and whose argument reads as integer bounds, and every measurable value, the function bound to that key in the rule table writes a clause iff the measure is outside the stated set (all widths, all bounds, all values); streams size-exh / size compare whole error strings of Var/Struct/Map/Url with the model and judge the implementation's verdict against Spec.Size",
    },
    "C09": {
        "modules": ["PGV.Props.C09"],
        "audits": ["PGV/Audit/C09.lean"],
        "streams": ["lru-exh", "lru"],
        "thorough_seeds": 4,
        "exhaustive_note": "lru-exh enumerates every op sequence of the stated length over the small alphabet for cap 0..4",
        "assumptions": [
            "keys are hashable values on which == is reflexive (modelled as Nat); cap >= 0",
            "Go map iteration order is never observed by the cache (index lookups and a scan for a unique element only)",
            "container/list PushFront/MoveToFront/Remove/Back modelled as list operations on (element id, value) pairs",
        ],
        "explanation": "C09_inv / C09_refines are by induction over ALL operation sequences and capacities; the streams compare every step's result, the callback log and Dump of the real LRUCache with the model and the spec",
    },
    "C14": {
        "modules": ["PGV.Props.C14"],
        "audits": ["PGV/Audit/C14.lean"],
        "streams": ["ruletext", "ruletext-exh"],
        "thorough_seeds": 4,
        "assumptions": [
            "rule keys contain none of , ' = | ; values contain no | ' , (commas allowed in re patterns) and do not start with =; messages contain no , '",
            "Go map semantics of RM modelled as an association list",
        ],
        "explanation": "theorems over all byte strings / all well-formed rule lists; stream ruletext compares ValidNamesSplit, ParseValidNameKV, GenValidKV, RM.Set/Get and the whole pipeline with the model and evaluates the spec on the implementation's output; ruletext-exh does the same for EVERY string over {a , ' = | /} up to length 6 (quick) / 8 (thorough)",
    },
}

NOT_YET = {}

CHECKS["C20"] = {
    "modules": ["PGV.Props.C20"], "audits": ["PGV/Audit/C20.lean"],
    "streams": ["dump"], "thorough_seeds": 4,
    "assumptions": [
        "reflect transcription on the GoVal tree; float text (strconv.AppendFloat 'f', -1, bitSize) is carried on the value by the harness",
        "in scope: structs, pointers to structs, slices/arrays, maps with string/integer/bool keys, strings without characters needing escapes, integers, unsigned integers, floats, bools; interface fields, pointers to scalars, time.Time, func/chan are excluded by the property",
        "Go map iteration order is unobservable: any order of map entries is accepted",
        "that Spec.Json.doc is the document encoding/json produces is not a theorem: the harness decodes the implementation's output and the standard encoding with encoding/json and compares the documents (independent oracle)",
    ],
    "explanation": "C20_dump_is_print: for every in-scope value of any shape and depth the model of the dumper writes exactly print(doc v) (mutual structural induction); C20_parse_print / C20_output_parses: an independent JSON reader reads that text back as the document (round trip, mutual induction), C20_integers_wellformed; stream dump compares GetDumpStructStr byte for byte with the model and, independently, as decoded JSON with the standard encoder's output",
}

INJ_ASSUME = [
    "go/parser is the environment: positions, tag literal text and comment texts of every struct field are inputs of the model (AstSummary), obtained by the harness with the stdlib",
    "the two regular expressions are transcribed as byte scanners (rComment = `@tag (.*)`, rTags = `\\w+:\"[^\"]+\"`); Go's regexp semantics (leftmost, greedy) is assumed",
    "file system effects (ReadDir / Glob order = lexical, ReadAll / WriteFile atomicity) are not modelled",
    "documented shape (C06's quantifier): top-level ungrouped struct types, raw tag literals with distinct keys in conventional form separated by spaces, one trailing comment per field, distinct keys per comment",
]
for _pid, _mods in (("C06", "C06"), ("C07", "C07"), ("C19", "C19")):
    CHECKS[_pid] = {
        "modules": ["PGV.Props." + _mods], "audits": ["PGV/Audit/%s.lean" % _mods],
        "streams": ["inject", "inject-cli"], "thorough_seeds": 4, "cli": True,
        "assumptions": INJ_ASSUME,
        "explanation": {
            "C06": "C06_file: for every file seen as chunks (any number and placement of annotated literals) WriteFile's reverse-order splicing returns the file in which exactly those literals carry merge(old, comment); merge laws: injected keys carry the comment's value, old keys keep position (and value when unmentioned), new keys appended, no duplicates; override = merge under distinct keys",
            "C07": "C07_merge_idem / C07_file_idem / C07_iterate: merging the same comment again changes nothing, so run n+1 = run n for every n >= 1; a file without annotations is written back unchanged",
            "C19": "C19_non_go_untouched, C19_parse_failure_untouched, C19_no_tag_literal, C19_mention_only, C19_other_decls, C19_no_panic (well-formed areas never make a slice expression panic), C19_dir_independent (directory mode = every file on its own as long as no file panics)",
        }[_pid] + "; streams inject (library entry points) and inject-cli (built CLI, -f/-d/-p mixed over 1-3 runs) compare every file's bytes after every run with the model and with an independent observer (reflect.StructTag lookups, bytes outside literals, run n+1 = run n)",
    }

CHECKS["C05"] = {
    "modules": ["PGV.Props.C05"], "audits": ["PGV/Audit/C05.lean"],
    "streams": ["lang", "flat", "lang-exh", "timeparse"], "thorough_seeds": 4,
    "assumptions": WALK_ASSUME + [
        "the documented language of each rule is the table in lean/PGV/Spec/Lang.lean (DESIGN.md §6 C05); date separators are judged when they are plain punctuation (sepOK); empty options, several rule items in one text and residual rules (ip, json, re, file, dir) get no spec verdict",
        "Go's regexp implements the usual leftmost semantics for the transcribed patterns; time.Parse + Format are transcribed by hand (lean/PGV/Model/TimeParse.lean) for layouts whose elements are 2006 01 02 15 04 05 — validated against the standard library through the implementation on every run — and stay a residual for every other layout; for in-range fields time.Date followed by Format renders those fields (calendar arithmetic of the standard library, assumed)",
    ],
    "explanation": "T2_patterns (the regular expressions in the source are the transcribed ones, re-decided every run); C05_int / C05_phone / C05_float / C05_idcard / C05_email (model recogniser = independent recogniser for every byte string), C05_accepts_sound (the fifteen residual-free rules incl. year / year2month / date / datetime: registered function writes a clause iff Spec.Lang.accepts says outside, every rule text of the documented shape, every string), C05_year / C05_year2month / C05_date / C05_datetime (the transcription of time.Parse + Format back on the layouts GetTimeFmt builds = the documented date language, every string, every separator of sepOK), C05_in_canonical_rendering / C05_unique_canonical_rendering / C05_ints_slice (numbers and slices judged through ToStr renderings), C05_timefmt_* (layout = components interleaved with the separators, all separators), C05_date_uses_layout, C05_unique_string, C05_prefix_suffix; stream lang: every rule on members, single-rune edits and random strings through Var/Struct/Map/Url, the verdict judged against Spec.Lang; lang-exh: EVERY string over {0 1 9 . , - x blank} up to length 4 (quick) / 6 (thorough) under the numeric, list and prefix rules",
}

CONC_ASSUME = [
    "sync.RWMutex gives mutual exclusion and happens-before; sync.Pool hands an object to one goroutine at a time; the Go memory model — runtime contracts no executable model exhibits (partial)",
    "SetCustomerValidFn / SetStructTypeCache / SetDelCallBackFn run before the goroutines start, as the properties state",
]
CHECKS["C08"] = {
    "modules": ["PGV.Props.C08"], "audits": ["PGV/Audit/C08.lean"],
    "streams": ["cache-default", "cache-lru0", "cache-lru1", "cache-lru2", "cache-lru3", "cache-lru8", "cache-syncmap", "cache-miss"], "thorough_seeds": 2,
    "assumptions": WALK_ASSUME + ["a CacheEr is sound: Load(k) returns only a value stored under an equal key (proved for the bounded LRU of every capacity, the unbounded map and the always-miss cache); cached values are immutable (the per-call override acts on a copy: checked by correspondence over histories)"],
    "explanation": "C08_history: for every sound cache, every history of calls and every call (any number of type lookups) each call returns its cache-free result, and the caches of the property are sound (lruSound for every capacity incl. 0, mapSound, missSound); C08_cache_independent; streams cache-*: one process per cache configuration (SetStructTypeCache), sequential histories over 700 struct types x 3 tag names x overrides, every result compared with the model's fresh-state result",
}
CHECKS["C12"] = {
    "modules": ["PGV.Props.C12"], "audits": ["PGV/Audit/C12.lean"],
    "streams": ["history", "walk-rm", "walk-gfn-seq"], "thorough_seeds": 2,
    "assumptions": WALK_ASSUME + ["pools are modelled adversarially: a call may receive any object a previous call returned"],
    "explanation": "C12_history_independent: under every pool schedule every call of every history returns its fresh-process result (pool invariant: recycled validators have no rule map, recycled builders are empty; every call re-establishes it); together with C08 for the cache. Stream history: sequential heterogeneous calls, each compared with the model's fresh-state result; error strings and ValidNamesSplit tokens handed out earlier are re-read at the end",
}
CHECKS["C10"] = {
    "modules": ["PGV.Props.C10"], "audits": ["PGV/Audit/C10.lean"],
    "streams": ["lru-conc"], "race_streams": ["lru-conc"], "race_n": {"quick": 600, "thorough": 6000}, "thorough_seeds": 2,
    "assumptions": CONC_ASSUME + ["the lock facts are read off the source text (first two statements of each method, assignments / list mutators / delete on receiver state)"],
    "explanation": "C10_linearizable: in the interleaving semantics where each operation is atomic between invocation and response (one mutex around the body) every reachable configuration, for any number of threads, has a linearization that is a legal sequential LRU run, contains every returned operation and respects real time; T2_lock_discipline (re-extracted from cache.go each run) is the premise; stream lru-conc (also under -race): small histories are searched for a linearization whose witness is replayed in Lean, large ones checked at quiescence",
}
CHECKS["C11"] = {
    "modules": ["PGV.Props.C11"], "audits": ["PGV/Audit/C11.lean"],
    "streams": ["conc", "conc-lru2"], "race_streams": ["conc", "conc-lru2"], "race_n": {"quick": 4000, "thorough": 60000}, "thorough_seeds": 2,
    "assumptions": WALK_ASSUME + CONC_ASSUME,
    "explanation": "C11: cache lookups of any interleaving return analyse k (C08 over every sequence), every pool schedule gives solo results (C12), no other package state is assigned (T2_globals), the cache is operated under the lock discipline (T2_lock_discipline); streams conc / conc-lru2: 32 goroutines issuing Struct/Var/Map/Url calls at once, every result compared with the model's solo result, also under the race detector",
}

MANIFEST_TEXT = {
    "C05": {
        "technique": "regenerated regex facts (T2, decide) + Lean 4 theorems about recognisers, layout builder and content rules + differential correspondence judged by independent recognisers",
        "text": "T2_patterns: every regexp.MustCompile constant of valid/init.go is re-extracted on each run and its regexp/syntax normal form must equal the one the model's recognisers transcribe (a widened class, a dropped anchor or an unescaped dot changes it). Theorems for every byte string / separator: C05_int, C05_phone, C05_float, C05_idcard, C05_email (model recogniser = independent Spec.Lang recogniser), C05_accepts_sound (for the fifteen rules that need no residual — the five patterns, in, include, ints, unique, prefix, suffix, year, year2month, date, datetime — every rule text key[=arg][|message] and every string: the registered function writes a clause iff Spec.Lang.accepts, the predicate evaluated against the implementation on every probe, says outside), C05_year / C05_year2month / C05_date / C05_datetime (parseTimeStrict — a hand transcription of time.Parse's layout scanner, literal skipping with runs of blanks, the six numeric elements, day-of-month validation, and Format's appendInt — equals the independent reading of the date language for every string and every separator made of - / . : blank + _ , #; other layouts stay a residual), C05_timefmt_year/year2month/date/datetime (the layout is the components interleaved with the given separators), C05_date_uses_layout, C05_unique_string, C05_prefix_suffix. Tie: stream lang (60k cases quick): each of 20 rules on members of its language, 1-3 single-rune edits and random strings, custom / doubled / layout-significant separators, quoted options, through Var/Struct/Map/Url; the implementation's verdict is judged against the independent recognisers of Spec.Lang (phone, email, idcard, int, float, year, year2month, date, datetime, in, include, ints, unique, prefix, suffix), its text against the model.",
        "note": "Trusted: Lean kernel; Spec.Lang as the reading of the documentation; regexp semantics of the stdlib; the hand transcription of time.Parse / Format (validated through the implementation by the lang stream; time.Date + Format of in-range fields assumed to render those fields). Genuine defect found by this check and repaired (F-C05-f).",
    },
    "C08": {
        "technique": "Lean 4 theorems (coherence invariant by induction over call histories, for every sound cache; soundness of LRU / map / always-miss) + differential correspondence, one process per cache configuration",
        "text": "Theorems: C08_call_transparent / C08_history — for EVERY sound cache, every call (a program with any number of struct-type lookups) and every history of calls from process start, each call returns exactly its cache-free result, and everything a call stores is (key, analyse key); C08_cache_independent; lruSound for every capacity (incl. 0), mapSound, missSound. The key is (type, tag name). Tie: streams cache-default / lru0 / lru1 / lru2 / lru3 / lru8 / syncmap / miss, each in its own process with SetStructTypeCache, sequential histories over a pool of 700 struct types (more than any capacity) x 3 tag names x overrides; every result is compared with the model's fresh-state result.",
        "note": "Trusted: Lean kernel; that getCacheStructType is the only channel between cache and walker, and that cached field info is copied before a per-call override, are read off the code (the model has immutable values) and exercised by the histories; C09 ties the list LRU to the implementation.",
    },
    "C12": {
        "technique": "Lean 4 theorems (pool-adversarial frame theorem, pool invariant by induction over histories) + differential correspondence over sequential histories with re-reading of earlier results",
        "text": "Theorems: C12_pool_adversarial (a clean recycled validator and an empty recycled builder give the result of fresh ones), C12_returns_clean (every call puts clean objects back), C12_history_independent (for every history and every adversarial pool schedule each call returns its fresh-process result), with C08 for the type cache; C12_no_aliasing (T2_alias, re-extracted every run): every zero-copy []byte→string conversion of package valid is applied to a buffer made in the same function, after its last write and outside loops, so a string already handed out is never rewritten. Tie: stream history (sequential Struct/Var/Map/Url calls over shared types, tags, overrides, per-call functions; every result vs the model's fresh-state result; error strings and ValidNamesSplit tokens retained and re-read after all later calls).",
        "note": "Trusted: Lean kernel; the pool protocol (NewVStruct re-initialises tag, builder and function table but not the rule map; free clears it) is transcribed from the code; input immutability is by construction of the model (it has no write) and observed by the harness.",
    },
    "C10": {
        "technique": "Lean 4 theorem (coarse-lock linearizability invariant over every reachable configuration, any number of threads) + regenerated lock facts (T2, decide) + race-detector stress and linearizability search with witness replay in Lean (support)",
        "text": "Theorem C10_linearizable (+ state_is_sequential, returned_linearized, real_time): if every operation runs atomically between invocation and response, every reachable configuration of the interleaving semantics over the sequential bounded LRU is linearizable — for any number of threads and every schedule. Premise: T2_lock_discipline, re-extracted from cache.go on every run (writers hold the exclusive lock for the whole body, readers at least the shared lock, lock-free helpers only under the exclusive lock, no method takes the lock twice — RWMutex is not re-entrant). Partial: mutex semantics and data-race freedom are runtime contracts; stream lru-conc runs 2-16 goroutines, searches small histories for a linearization (witness replayed in the Lean model/spec), checks large ones at quiescence, reports histories whose goroutines are still blocked after 20 s, and is run again under -race.",
        "note": "Trusted: Lean kernel; sync.RWMutex; the lock-fact extractor (go/ast, ~120 lines); C09 for sequential behaviour.",
    },
    "C11": {
        "technique": "Lean 4 theorems (C08 over arbitrary interleavings of lookups, C12 over arbitrary pool schedules) + regenerated global-state and lock facts (T2) + concurrent differential correspondence under the race detector (support)",
        "text": "Theorems: C11_cache_any_interleaving (whatever order the goroutines' lookups take, each returns analyse k), C11_call_solo_result, C11_pools_any_schedule; facts C11_globals (only the two registration functions assign package state) and C11_cache_locked. Partial: atomicity of cache and pool operations and data-race freedom are runtime contracts; streams conc and conc-lru2 run 32 goroutines of Struct (tags, overrides, per-call functions), Var, Map, Url calls over shared and private types, compare every result with the model's solo result, and are run again under -race.",
        "note": "Trusted: Lean kernel; sync.Pool / sync.RWMutex / sync.Once; the Go memory model.",
    },
    "C06": {
        "technique": "Lean 4 theorems (merge laws, override = merge, reverse-order splicing = in-place rewriting by induction over the chunks of a file) + differential correspondence incl. the built CLI + independent reflect.StructTag oracle",
        "text": "Theorems for every file, of any size, with any number and placement of annotated fields: C06_file — WriteFile (areas applied from the end backwards, every slice expression with Go's bounds checks) returns the file in which exactly the annotated tag literals carry the merged tags and every other byte is where it was (C06_outside_unchanged); merge laws for all item lists: C06_merge_lookup_new, C06_merge_keeps_old (position, and value when unmentioned), C06_merge_appends, C06_merge_nodup; C06_override_is_merge (the code's loop = the spec under distinct keys). Tie: streams inject / inject-cli on generated Go sources, 1-3 runs, library and CLI (-f/-d/-p).",
        "note": "Trusted: Lean kernel; go/parser (AstSummary is an input); regexp semantics of the two transcribed patterns; correspondence. Outside the documented shape (grouped declarations, several comments, repeated keys, interpreted literals) the model is still compared with the code but nothing is judged.",
    },
    "C07": {
        "technique": "Lean 4 theorems (idempotence of merge; of the chunk-level file transformer; iteration) + differential correspondence over repeated runs",
        "text": "Theorems: C07_merge_idem (merge (merge old inj) inj = merge old inj for every old and every comment with distinct keys); C07_rereads — the tag scanner reads every literal the injector writes back as exactly the merged items (newTagItems ∘ format = id on conventional items, and the scanner only produces conventional items: proved for all byte strings); hence C07_file_idempotent and C07_any_number_of_runs: for EVERY file whose comments do not repeat a key, n+1 runs = 1 run for every n; C07_no_annotation_identity. Tie: every generated file is processed 1-3 times, mixing library, -f, -d, -p; run n+1 must equal run n byte for byte and equal the model.",
        "note": "Trusted as C06 (go/parser positions of the rewritten file are re-derived by the harness on every run).",
    },
    "C19": {
        "technique": "Lean 4 theorems (untouched files, no-area shapes, panic freedom of the splice under well-formed areas, per-file independence) + differential correspondence with the built CLI on mixed directories",
        "text": "Theorems: non-.go files and files that do not parse are returned byte-identical; fields without tag literal, comments that merely mention @tag, functions / imports / consts / vars / non-struct types yield no area; on well-formed areas no slice expression of WriteFile / injectTag can panic (C19_no_panic); in directory / glob mode every file is processed on its own as long as no file panics (C19_dir_independent). Partial: go/parser, the file system and the runtime are outside the theorem; stream inject-cli runs the built CLI on directories mixing annotated, unannotated, broken and non-Go files and compares exit behaviour (panic output) and every file's bytes with the model.",
        "note": "Trusted as C06. 'Valid Go re-parses after injection' is observed by the harness (go/parser on the output), not proved.",
    },
    "C20": {
        "technique": "Lean 4 refinement theorem dump = print . doc (mutual structural induction over value trees) + differential correspondence + independent encoding/json oracle",
        "text": "Theorem C20_dump_is_print (with C20_object / C20_elements / C20_entries / C20_dump_appends): for EVERY in-scope value — field-less structs, first or all fields unexported, any nesting depth, nil and multi-level pointers, nil/empty/any-length slices and arrays, nil/empty/multi-entry maps — the dumper's buffer grows by exactly the compact JSON text of the value's document (objects with single commas between exported members, booleans as strings, nil slice [], nil map {}, nil pointer null). Well-formedness: C20_parse_print / C20_output_parses — an independent reader of compact JSON (RFC 8259 numbers, strings without escapes, arrays, objects) reads the output back as exactly that document, for every document whose strings need no escapes and whose number texts are JSON numbers (decimal integers proved to be: C20_integers_wellformed; float texts come from strconv.FormatFloat and are checked per case). Tie: stream dump compares GetDumpStructStr with the model byte for byte (any map order) and decodes it with encoding/json against the standard encoding of the value.",
        "note": "Trusted: Lean kernel; Spec.Json.print as the definition of compact JSON text (well-formedness of print is by construction of the grammar, a parser round-trip theorem is future work); doc = what encoding/json produces is validated by the oracle, not proved. Known findings: []byte (F-C20-d) and embedded structs (F-C20-e).",
    },

    "C02": {
        "technique": "Lean 4 theorems (one-step equations of the rule loops, getError) + differential correspondence on whole error strings",
        "text": "Theorems for every configuration, value tree (any depth and width), continuation and state: C02_walker_appends / C02_fields_append / C02_flat_rules_append (mutual structural induction) — every walker function only appends: what it writes never depends on, and never touches, what is already in the buffer; C02_fields_in_order, C02_elements_in_order, C02_rules_in_order — the output of a struct / collection / rule list is the output of the first field / element / item followed by the output of the rest (declaration, index and rule order); C02_flat_closed_form and C02_field_closed_form — the rule loops of Var/Map/Url and of struct fields in closed form: for the items r1…rn, in this order, exactly one contribution per item (its clause text or nothing, the visit of the nested object, its group registration), each independent of what was written before; the rule-loop step equations (a built-in, registered, unknown or empty item contributes its own text and the loop continues — no early exit); C02_nil_iff and C02_no_trailing_separator for getError. Tie: streams walk and flat compare the WHOLE error string (modulo Go map order) of calls on synthesised struct types with the model.",
        "note": "Trusted: Lean kernel; reflect transcription; correspondence bounds the model=code tie. 'Exactly one clause per violated instance' rests on each rule function writing at most one clause, which is read off the model (violClause) and checked per rule by correspondence.",
    },
    "C03": {
        "technique": "Lean 4 theorems (rule-loop equations for required / zero-skip / missing entries) + differential correspondence",
        "text": "Theorems (all inputs): required writes its clause exactly when the value is empty (zero, or slice/array/map of length 0) and writes nothing of its own otherwise; every rule dispatched through a function table is skipped on a zero value (struct, Var, Map, Url), and C03_optional_empty_silent_flat / _struct: an empty value with ANY list of table rules — any number, any order, with or without messages — leaves the error untouched; a rule key absent from a Map/Url input yields one required clause per required item. Tie: walk-zero, flat and size streams over every kind, zero and non-zero, four entry points.",
        "note": "Trusted: Lean kernel; IsZero transcription (Go 1.23); correspondence. Known finding F-C03-c (interface-typed map values) is reported, not hidden.",
    },
    "C04": {
        "technique": "Lean 4 theorems (walker equations: reach and path naming) + differential correspondence on deep type graphs",
        "text": "Theorems (all configurations, values, states): unmarked, unexported and time.Time fields are never looked at; required/exist validate the nested object under Parent.Field, elements under Parent.Field[i] in index order, entries under Parent.Field[key]; nil pointers, zero structs, nil collections and non-struct elements are passed over silently. Tie: walk-deep (graphs to depth 6 through value, *, **, ***, [], [n], map with string / signed / unsigned / bool / float / named-string keys, collections of pointers of depth 1-3) and walk compare whole error strings.",
        "note": "Trusted: Lean kernel; reflect transcription; correspondence. Statements are one-step equations of the mutually recursive walker; their composition over a whole tree is exercised by the streams.",
    },
    "C13": {
        "technique": "Lean 4 totality theorems (mutual structural induction over value trees, induction over rule lists) + differential correspondence under recover",
        "text": "Theorems: for EVERY configuration, value tree (any depth), rule text (arbitrary bytes) and residual answer, Struct/Var/Map/Url of the model never end in a modelled panic (C13_total_*), nor does any function of the rule table (C13_total_rules); the slice expressions of in/include and re are modelled with Go's bounds checks and proved safe under the code's guards; entry guards for nil, typed nil, non-map, nil *string are equations. Partial: panics inside unmodelled stdlib calls / the runtime are outside the theorem; the streams run every call under recover with nil, typed-nil, wrong-kind inputs and malformed rule text.",
        "note": "Trusted: Lean kernel; which operations can panic is a reading of the Go code (slice expressions, reflect on invalid values) transcribed in the model; correspondence.",
    },
    "C15": {
        "technique": "Lean 4 theorems (split/join inverse for the two-byte separator, first-label lemma; clause builder equations) + differential correspondence",
        "text": "Theorems: C15_extract — for every list of clean clauses, of any length and in any mix and order of 说明:-labelled, explain:-labelled and unlabelled clauses, the model of GetOnlyExplainErr returns exactly the explanations of the labelled clauses, in order, joined by ErrEndFlag (it never fails: the one slice expression is clamped); C15_label_choice / C15_message_verbatim / C15_default_text — a violated rule with a custom message yields path + input + label + the message verbatim (label 说明: iff the message has a rune in U+4E00..U+9FA5), without one the default wording behind explain:. Tie: stream explain (synthetic clause lists + error strings of real validations), walk and flat (whole error strings, custom messages on every rule family).",
        "note": "Trusted: Lean kernel; strings.Split for \"; \" and strings.Index transcribed; that every rule function builds its clause through violClause is read off the model and checked by correspondence (per-rule), not stated as one theorem.",
    },
    "C16": {
        "technique": "Lean 4 theorems (rule-set selection, effective rule, function resolution) + differential correspondence",
        "text": "Theorems: the outermost struct uses its typed set if non-empty else the unscoped one; a nested struct only its own typed set (no leak, also with shared field names); a field's effective rule is the set's non-empty rule instead of the tag rule, else the tag rule under the requested tag; functions resolve per-call, then registered, then built-in; an unknown name yields one clause and the loop continues; C16_setrule_last_wins / other_key / order_indep (the registry behind SetRule: the last registration for a key wins, other keys are untouched, the order of registrations for different keys is irrelevant). Tie: walk-rm stream (typed/unscoped/both/empty sets, three tag names, local and global marker functions that shadow each other) and walk-gfn (a process whose global table has a name registered twice and three built-in names replaced) and walk-gfn-seq (one sequential history in which names are registered again between calls, incl. names that earlier calls used as unknown ones; every call is judged with the table of that moment).",
        "note": "Trusted: Lean kernel; reflect.Type identity carried on the wire as Type.String() plus a marker for look-alike types; correspondence.",
    },
    "C17": {
        "technique": "Lean 4 theorems (group evaluation and grouping) + differential correspondence",
        "text": "Theorems: an either group (>=2 members) is violated iff all members are empty; a botheq group iff some member differs from the first; a singleton is a rule-writing error; two members share a group iff they have the same object scope and rule text, and a group holds all such members; a field registers under the path of its object; C17_independent_objects / C17_independent_clauses — the groups (and clauses) of members that share no (object, rule text) key are exactly the groups of each part on its own: objects in different slice elements, nested objects and map entries never influence each other. Tie: walk-group and flat streams (groups repeated in slices, maps, nested objects, Map and Url).",
        "note": "Trusted: Lean kernel; reflect.DeepEqual modelled for scalars only (composites out of scope); order of group clauses is Go map order (any order accepted).",
    },
    "C18": {
        "technique": "Lean 4 theorems (common dispatch, carrier-independent verdicts for size rules, percent-encoding round trip) + differential correspondence across six carriers",
        "text": "Theorems: every walker hands a non-empty value to the same rule function with the same text and value (C18_struct_dispatch / C18_flat_dispatch); C18_verdict_carrier_indep — for EVERY function of the rule table (all 30), every rule text and value, the function writes a clause under one carrier's object/field names exactly when it does under another's (and asks the same residual question otherwise); for the size rules the verdict is moreover the spec's (C18_size_verdict_carrier_indep); QueryUnescape(QueryEscape s) = s for every byte string. Tie: stream size sends each (rule, value) through Var, Struct(RM), Struct(tag), Map, Map(interface{}), []Map and Url and judges the implementation's verdict against the spec; flat compares whole strings.",
        "note": "Trusted: Lean kernel; url.QueryEscape transcribed in the spec; the walkers' different notions of 'empty' (Var: length-0 slices; Url: empty string) are part of C03.",
    },
    "C01": {
        "technique": "Lean 4 theorems (case analysis over kinds, exact integer/dyadic arithmetic) + differential correspondence incl. exhaustive 8-bit window",
        "text": "Theorems for ALL rule texts, bounds and values (no width or size bound): C01_bound_verdict (ge/gt/le/lt), C01_range_verdict (to/oto, min>max included), "
                "C01_eq_verdict (eq/noeq) and their union over the rule table C01_verdict: the function bound to the rule's key writes a clause iff the measure (rune count, "
                "numeric value, slice length) lies outside the stated set; C01_width_signedness_indep: the verdict depends on the value only through its measure. Floats: under "
                "|bound| < 2^53; outside it the statement is false of the code (F_C01_e_witness, known finding). Tie: size-exh (all int8/uint8 values x bound window, exhaustive in "
                "the thorough tier, strided 1/8 in quick) and size (boundary-dense random over all kinds, multi-byte and invalid UTF-8 strings, min>max) through Var/Struct/Map/Url; "
                "the implementation's whole error string is compared with the model and its verdict with the spec.",
        "note": "Trusted: Lean kernel; Spec.Size (measure/inSet, 60 lines) as the reading of the property; Model.atoi and runeCount as transcriptions of strconv.Atoi / UTF-8 decoding; "
                "parseValidNameKV as the reading of rule text (its own correctness is C14); differential testing bounds the model=code tie. Entry-point independence is observed by the "
                "streams (six carriers) and is C18's theorem.",
    },
    "C09": {
        "technique": "Lean 4 invariant + refinement theorems (induction over op sequences) + differential correspondence incl. bounded-exhaustive enumeration",
        "text": "Theorems for EVERY operation sequence and EVERY capacity: the two-structure representation invariant holds in all reachable states (C09_inv), "
                "the cache model produces exactly the outputs of the abstract bounded LRU list (Load results, Len, callback log, Dump) and commutes with the "
                "abstraction (C09_refines); corollaries: Len is never the sentinel, capacity bound and key uniqueness, latest value, hit iff live, eviction of "
                "the least recently used entry, callback accounting. Tie: streams lru-exh (every sequence of length 4 quick / 6 thorough over 13 ops, cap 0..4) "
                "and lru (random long histories crossing the map-rebuild threshold, cap up to 512) compare the real LRUCache step by step.",
        "note": "Trusted: Lean kernel; Spec.LRU (30 lines) as the meaning of 'bounded LRU map'; container/list and Go map transcribed as lists; sync.RWMutex irrelevant "
                "sequentially (C10 covers concurrency); differential testing bounds the model=code tie.",
    },
    "C14": {
        "technique": "Lean 4 theorems (loop invariant, structural induction) + differential correspondence",
        "text": "Theorems for ALL byte strings / rule lists: the splitter returns the quote-aware pieces up to one trailing empty piece "
                "(C14_split_refines), loses no byte (C14_split_noloss_all), never splits inside a quoted segment (C14_split_quoted), its byte stack never "
                "exceeds one element (stack_le_one), and builder→RM.Set→RM.Get→splitter→parser recovers every well-formed rule list with the documented "
                "wrapping and label (C14_roundtrip). The model is tied to /repo by the ruletext stream (200k cases quick) comparing every function and the "
                "whole pipeline, with the spec evaluated on the implementation's own output.",
        "note": "Trusted: Lean kernel; Spec.RuleText as reading of the property (Rule.wf is the documented shape: no , ' = | in keys, no | ' , in values except commas "
                "in re patterns, no , ' in messages); transcription of strings.Index/Split/Join and UTF-8 decoding; differential testing bounds the model=code tie.",
    },
}
