#!/bin/sh
# rerun_seeds.sh [glob]  — re-run stored seeded changes against the check of their own property (apply to /repo, run, undo)
# and record the result in seeded/<ID-X>/meta.json.  Default: all of them (about 20 s each).
cd "$(dirname "$0")/.."
for d in seeded/${1:-C*-*}; do
  s=$(basename "$d")
  timeout 600 python3 tools/cross_check.py "$s" "${s%%-*}"
done
git -C /repo checkout -- .
