#!/bin/sh
# usage: tools/try_patch.sh <patch.diff> <tier> <ID>...   — apply a patch to /repo, run the checks, undo it.
patch="$1"; tier="$2"; shift 2
git -C /repo apply "$patch" || exit 3
for id in "$@"; do
  ./check "$id" --tier "$tier" 2>/dev/null | grep -v '^KNOWN-FINDING' | tail -3
done
git -C /repo checkout -- .
git -C /repo status --short
