#!/usr/bin/env python3
"""Run /repo's pinned suite (guard tag OFF) and compare with /root/.vp/BASELINE.json's stable_pass list."""
import json, subprocess, sys, os
env = dict(os.environ, GOFLAGS="-mod=mod", GOPROXY="off", GOSUMDB="off", GOTOOLCHAIN="local")
p = subprocess.run(["go", "test", "-json", "-vet=off", "-count=1", "-timeout", "25m", "./..."], cwd="/repo", env=env,
                   capture_output=True, text=True)
passed, failed = set(), set()
for line in p.stdout.splitlines():
    try:
        e = json.loads(line)
    except Exception:
        continue
    if e.get("Test") and e.get("Action") in ("pass", "fail"):
        (passed if e["Action"] == "pass" else failed).add(e["Package"] + "::" + e["Test"])
try:
    base = set(json.load(open("/root/.vp/BASELINE.json"))["stable_pass"])
except Exception:
    base = set()
missing = sorted(base - passed)
print(f"passed={len(passed)} failed={len(failed)} baseline={len(base)} missing_from_baseline={len(missing)}")
for m in missing: print("  MISSING", m)
for f in sorted(failed): print("  FAILED", f)
sys.exit(1 if (missing or failed or p.returncode != 0) else 0)
