#!/usr/bin/env python3
"""Regenerate /verif/MANIFEST.json from tools/checks_config.py (single source of truth)."""
import json, os, sys
ROOT = os.path.dirname(os.path.dirname(os.path.abspath(__file__)))
sys.path.insert(0, os.path.join(ROOT, "tools"))
from checks_config import CHECKS, MANIFEST_TEXT, NOT_YET  # noqa

ALL = ["C%02d" % i for i in range(1, 21)]
checks = []
for pid in ALL:
    if pid not in CHECKS:
        continue
    t = MANIFEST_TEXT[pid]
    checks.append({
        "property_id": pid,
        "quick_cmd": f"./check {pid} --tier quick",
        "thorough_cmd": f"./check {pid} --tier thorough",
        "evidence_file": f"evidence/{pid}.json",
        "replay_cmd_template": f"./check {pid} --replay {{path}}",
        "engine": "lean-model+go-harness",
        "level_claimed": {"category": "proof", "text": t["text"], "design_ref": t.get("design_ref", "DESIGN.md §6 " + pid)},
        "level_note": t["note"],
        "technique": t["technique"],
    })
m = {
    "version": 1,
    "setup_cmd": "./setup.sh",
    "hooks": {
        "guard": "verif",
        "enable": "the harness is built with `go build -tags verif`; no hook file exists in /repo (all observation goes through exported API and source text)",
        "baseline_off_cmd": "cd /repo && GOFLAGS=-mod=mod GOPROXY=off go test -vet=off -count=1 ./...",
        "source_commits": [],
        "add_only": True,
    },
    "engines": [
        {"name": "lean-model", "path": "lean", "serves_properties": [c["property_id"] for c in checks],
         "kind_free_text": "Lean 4 library PGV: Model (code-shaped), Spec (property as stated), Proofs, Props (theorems), Driver (compiled evaluator of model+spec)"},
        {"name": "go-harness", "path": "harness", "serves_properties": [c["property_id"] for c in checks],
         "kind_free_text": "T1 differential correspondence (implementation vs Lean model vs Lean spec over a line protocol) and T2 source-fact extractors regenerating lean/PGV/Generated"},
        {"name": "check", "path": "check", "serves_properties": [c["property_id"] for c in checks],
         "kind_free_text": "orchestrator: rebuild from /repo, regenerate facts, lake build + axiom audit, streams, classification, evidence"},
    ],
    "checks": checks,
    "not_applicable": [{"property_id": p, "reason": NOT_YET.get(p, "check not built yet in this round (planned, see DESIGN.md §6); nothing is claimed for it")}
                       for p in ALL if p not in CHECKS],
    "notes": "All claimed checks: level proof = Lean theorems over a model tied to /repo by a differential correspondence check and regenerated source facts; see DESIGN.md.",
}
json.dump(m, open(os.path.join(ROOT, "MANIFEST.json"), "w"), indent=1, ensure_ascii=False)
print("MANIFEST.json:", len(checks), "checks,", len(m["not_applicable"]), "not applicable")
