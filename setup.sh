#!/bin/sh
# Build the framework from files on disk only (offline): Lean library + driver, Go harness.
set -e
cd "$(dirname "$0")"
export GOFLAGS=-mod=mod GOPROXY=off GOSUMDB=off GOTOOLCHAIN=local
mkdir -p .build evidence replays
export GOCACHE="$PWD/.build/gocache"
(cd harness && go build -tags verif -o ../.build/pgvh .)
./.build/pgvh extract -repo /repo -out lean/PGV/Generated
(cd lean && lake build)
echo setup ok
