-- Root of the `PGV` library: model, spec, proofs, property theorems.
import PGV.Basic
import PGV.Model.Utf8
import PGV.Model.RuleText
import PGV.Spec.RuleText
import PGV.Driver.Common
import PGV.Driver.C14
import PGV.Model.LRU
import PGV.Spec.LRU
import PGV.Driver.C09
import PGV.Model.Value
import PGV.Model.Lang
import PGV.Model.Rules
import PGV.Model.Walker
import PGV.Driver.Value
import PGV.Driver.Walk
