import PGV.Spec.LRU

/-!
# Model of the struct-type cache protocol (`getCacheStructType`, `CacheEr`) and of the object pools

The cache is *any* implementation of `Load` / `Store` (`CacheImpl`).  A validation call is a program
that may look struct types up any number of times (`Prog.lookup`) and finally returns its result;
with a cache every lookup is `getCacheStructType`: load, on a miss analyse and store.
-/

namespace PGV.Model.Cache

universe u

/-- a cache: any state, `Load` (which may reorder / touch the state) and `Store` -/
structure CacheImpl (κ ν : Type) where
  σ : Type
  init : σ
  load : σ → κ → Option ν × σ
  store : σ → κ → ν → σ

variable {κ ν ρ : Type}

/-- `getCacheStructType(ty)` with cache key (type, target tag): the struct type info and the new cache state -/
def getST (C : CacheImpl κ ν) (analyse : κ → ν) (s : C.σ) (k : κ) : ν × C.σ :=
  match C.load s k with
  | (some v, s') => (v, s')
  | (none, s') => (analyse k, C.store s' k (analyse k))

/-- a validation call as far as the cache is concerned -/
inductive Prog (κ ν ρ : Type) where
  | done (r : ρ)
  | lookup (k : κ) (cont : ν → Prog κ ν ρ)

/-- the call with a cache -/
def Prog.runC (C : CacheImpl κ ν) (analyse : κ → ν) : Prog κ ν ρ → C.σ → ρ × C.σ
  | .done r, s => (r, s)
  | .lookup k cont, s =>
    let (v, s') := getST C analyse s k
    (cont v).runC C analyse s'

/-- the call without any cache: every lookup analyses the type afresh -/
def Prog.runPure (analyse : κ → ν) : Prog κ ν ρ → ρ
  | .done r => r
  | .lookup k cont => (cont (analyse k)).runPure analyse

/-- a history of calls, threading the cache -/
def runHistory (C : CacheImpl κ ν) (analyse : κ → ν) : List (Prog κ ν ρ) → C.σ → List ρ × C.σ
  | [], s => ([], s)
  | p :: ps, s =>
    let (r, s') := p.runC C analyse s
    let (rs, s'') := runHistory C analyse ps s'
    (r :: rs, s'')

/-- what makes a cache *sound*: there is a notion "`v` is held for `k`" such that nothing is held
initially, `Load` only returns what is held, `Load` adds nothing, and `Store k v` adds at most `(k, v)` -/
structure Sound (C : CacheImpl κ ν) where
  Held : C.σ → κ → ν → Prop
  init : ∀ k v, ¬ Held C.init k v
  load_sound : ∀ s k v s', C.load s k = (some v, s') → Held s k v
  load_frame : ∀ s k r s' k' v', C.load s k = (r, s') → Held s' k' v' → Held s k' v'
  store_frame : ∀ s k v k' v', Held (C.store s k v) k' v' → (k' = k ∧ v' = v) ∨ Held s k' v'

/-! ## instances -/

/-- a cache that forgets everything -/
def missCache (κ ν : Type) : CacheImpl κ ν := { σ := Unit, init := (), load := fun _ _ => (none, ()), store := fun _ _ _ => () }

/-- an unbounded map (`sync.Map`) -/
def mapCache (κ ν : Type) [DecidableEq κ] : CacheImpl κ ν :=
  { σ := List (κ × ν), init := [],
    load := fun s k => ((s.find? (·.1 == k)).map (·.2), s),
    store := fun s k v => (k, v) :: s.filter (·.1 != k) }

/-- the bounded LRU of capacity `cap` (the abstract list C09 proves the implementation refines), keys and values numbered -/
def lruCache (cap : Nat) : CacheImpl Nat Nat :=
  { σ := PGV.Spec.LRU.Sp, init := [],
    load := fun s k => match PGV.Spec.LRU.step cap s (.load k) with
      | (s', .hit v) => (some v, s')
      | (s', _) => (none, s'),
    store := fun s k v => (PGV.Spec.LRU.step cap s (.store k v)).1 }

/-! ## object pools (`sync.Pool` of validators and of string builders) -/

/-- a recycled validator object: whatever its previous user left in it -/
structure VObj (RMap Fns : Type) where
  tag : List UInt8
  ruleMap : Option RMap
  fns : Option Fns

/-- one call: what it configures -/
structure Call (RMap Fns Src : Type) where
  tag : List UInt8
  setRules : List (RMap → RMap)      -- the `SetRule` calls, each updating the (possibly freshly made) rule map
  fns : Fns
  src : Src

/-- `NewVStruct(tag)` on a recycled object and a recycled builder, the `SetRule` calls, the validation
(`eval` = what the walker writes, an arbitrary function of tag, rule map, functions and input), and
`getError` with its deferred `free`.  Returns the error (`none` = nil), the object and the builder as
they go back to their pools. -/
def exec {RMap Fns Src : Type} (emptyMap : RMap) (eval : List UInt8 → RMap → Fns → Src → List UInt8)
    (recycled : VObj RMap Fns) (recycledBuf : List UInt8) (c : Call RMap Fns Src) :
    Option (List UInt8) × VObj RMap Fns × List UInt8 :=
  -- NewVStruct: targetTag, errBuf and vc are re-initialised; ruleMap is NOT touched
  let rm0 : Option RMap := recycled.ruleMap
  -- SetRule: `if v.ruleMap == nil { make }`
  let rm : RMap := c.setRules.foldl (fun m f => f m) (rm0.getD emptyMap)
  let buf := recycledBuf ++ eval c.tag rm c.fns c.src
  let err := if buf.isEmpty then none else some buf
  -- free: putStrBuf resets the builder; ruleMap = nil; vc = nil
  (err, { tag := c.tag, ruleMap := none, fns := none }, [])

/-- the pools hold only clean objects -/
def PoolInv {RMap Fns : Type} (objs : List (VObj RMap Fns)) (bufs : List (List UInt8)) : Prop :=
  (∀ o ∈ objs, o.ruleMap = none) ∧ (∀ b ∈ bufs, b = [])

end PGV.Model.Cache
