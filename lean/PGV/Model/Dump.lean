import PGV.Model.Value

/-!
# Model of the struct dumper (`valid/dump.go`)

`HandleDumpStruct` / `loopHandleKV` as written: the buffer is threaded, the comma flag of the field
loop and the separators of slices and maps are those of the code.  Float text is supplied by the
harness (`strconv.AppendFloat(…, 'f', -1, bitSize)`, carried on the value).
-/

namespace PGV.Model

open PGV

structure DSt where
  buf : Bytes := []
  /-- ghost: where the iteration over a Go map starts (0), where an entry starts (1), where it ends (2) -/
  marks : List (Nat × Nat) := []

def DSt.w (st : DSt) (t : Bytes) : DSt := { st with buf := st.buf ++ t }
def DSt.mark (st : DSt) (k : Nat) : DSt := { st with marks := st.marks ++ [(k, st.buf.length)] }

def jq (s : Bytes) : Bytes := [34] ++ s ++ [34]

def dumpName (field : Option (Bytes × Bool)) (st : DSt) : DSt :=
  match field with
  | some (name, _) => st.w (jq name ++ [58])
  | none => st

/-- `s.Name == "Time" && s.Type == timeReflectType` -/
def dumpIsTimeField (field : Option (Bytes × Bool)) : Bool :=
  match field with
  | some (name, tt) => name == b! "Time" && tt
  | none => false

/-- name, then either the time placeholder or the scalar text -/
def dumpLeaf (field : Option (Bytes × Bool)) (text : Bytes) (st : DSt) : DSt :=
  if dumpIsTimeField field then (dumpName field st).w (b! "\"time is not handle\"")
  else (dumpName field st).w text

/-- text of a scalar as `loopHandleKV` writes it (`none`: not a scalar) -/
def scalarText : GoVal → Option Bytes
  | .str s => some (jq s)
  | .bool x => some (jq (if x then b! "true" else b! "false"))
  | .int _ z => some (intToBytes z)
  | .uint _ n => some (natToBytes n)
  | .float _ _ _ rOwn => some rOwn
  | .other _ _ _ _ => some (b! "\"unknown\"")
  | _ => none

/-- a map key: string / bool keys quote themselves, the others are wrapped in quotes -/
def dumpKey (k : GoVal) (st : DSt) : DSt :=
  match k with
  | .str s => st.w (jq s)
  | .bool x => st.w (jq (if x then b! "true" else b! "false"))
  | k' => ((st.w [34]).w ((scalarText k').getD [])).w [34]

mutual
/-- `HandleDumpStruct(v, isSlice)`: strip pointers; a struct is an object; anything else is written
only when it is a collection element -/
def dumpH (v : GoVal) (isSlice : Bool) (st : DSt) : DSt :=
  match v with
  | .ptr _ none => st.w (b! "null")
  | .ptr _ (some t) => dumpH t isSlice st
  | .struct _ _ _ fs => dumpObj fs st
  | .str s => if isSlice then st.w (jq s) else st
  | .bool x => if isSlice then st.w (jq (if x then b! "true" else b! "false")) else st
  | .int _ z => if isSlice then st.w (intToBytes z) else st
  | .uint _ n => if isSlice then st.w (natToBytes n) else st
  | .float _ _ _ rOwn => if isSlice then st.w rOwn else st
  | .other _ _ _ _ => if isSlice then st.w (b! "\"unknown\"") else st
  | .iface _ _ => st                         -- Interface kind: `HandleDumpStruct` again, which writes nothing
  | .slice _ _ _ es => if isSlice then (dumpElems es (st.w [91])).w [93] else st
  | .array _ _ es => if isSlice then (dumpElems es (st.w [91])).w [93] else st
  | .map _ _ _ es => if isSlice then ((dumpEntries es ((st.w [123]).mark 0)).mark 2).w [125] else st

/-- a struct value: `{`, the exported fields separated by commas (comma flag as written), `}` -/
def dumpObj (fs : Fields) (st : DSt) : DSt :=
  match fs with
  | .nil => (st.w [123]).w [125]
  | .cons name ex tt _ fv rest =>
    let st1 := st.w [123]
    let st2 := if ex then dumpKV (some (name, tt)) fv st1 else st1
    (dumpFields rest ex st2).w [125]

/-- the fields after the first one -/
def dumpFields (fs : Fields) (needComma : Bool) (st : DSt) : DSt :=
  match fs with
  | .nil => st
  | .cons name ex tt _ fv rest =>
    if !ex then dumpFields rest needComma st
    else
      let st1 := if needComma then st.w [44] else st
      dumpFields rest true (dumpKV (some (name, tt)) fv st1)

/-- `loopHandleKV(s, tv, isNeedFieldName)`: `field = some (name, type is time.Time)` when the name is written -/
def dumpKV (field : Option (Bytes × Bool)) (tv : GoVal) (st : DSt) : DSt :=
  match tv with
  | .str s => dumpLeaf field (jq s) st
  | .bool x => dumpLeaf field (jq (if x then b! "true" else b! "false")) st
  | .int _ z => dumpLeaf field (intToBytes z) st
  | .uint _ n => dumpLeaf field (natToBytes n) st
  | .float _ _ _ rOwn => dumpLeaf field rOwn st
  | .other _ _ _ _ => dumpLeaf field (b! "\"unknown\"") st
  | .ptr _ none => dumpLeaf field (b! "null") st
  | .ptr _ (some x) =>
    if dumpIsTimeField field then dumpLeaf field [] st
    else dumpH x false (dumpName field st)
  | .struct _ _ _ fs =>
    if dumpIsTimeField field then dumpLeaf field [] st
    else dumpObj fs (dumpName field st)
  | .iface _ _ => dumpLeaf field [] st
  | .slice _ _ _ es =>
    if dumpIsTimeField field then dumpLeaf field [] st
    else (dumpElems es ((dumpName field st).w [91])).w [93]
  | .array _ _ es =>
    if dumpIsTimeField field then dumpLeaf field [] st
    else (dumpElems es ((dumpName field st).w [91])).w [93]
  | .map _ _ _ es =>
    if dumpIsTimeField field then dumpLeaf field [] st
    else ((dumpEntries es (((dumpName field st).w [123]).mark 0)).mark 2).w [125]

/-- elements: `HandleDumpStruct(elem, true)`, `,` between -/
def dumpElems (es : GoVals) (st : DSt) : DSt :=
  match es with
  | .nil => st
  | .cons v .nil => dumpH v true st
  | .cons v (.cons v2 rest) => dumpElems (.cons v2 rest) ((dumpH v true st).w [44])

/-- entries: key (quoted unless string / bool, which quote themselves), `:`, value, `,` between -/
def dumpEntries (es : Entries) (st : DSt) : DSt :=
  match es with
  | .nil => st
  | .cons k v rest =>
    let st0 := st.mark 1
    let st1 := dumpKey k st0
    let st2 := dumpKV none v (st1.w [58])
    match rest with
    | .nil => st2
    | .cons k2 v2 r2 => dumpEntries (.cons k2 v2 r2) (st2.w [44])
end

/-- `GetDumpStructStr(v)` -/
def getDumpStructStr (v : GoVal) : DSt := dumpH v false {}

end PGV.Model
