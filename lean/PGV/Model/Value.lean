import PGV.Basic
import PGV.Model.Utf8

/-!
# Go values as seen through `reflect`

A tree (validation never writes, so sharing is unobservable; cyclic graphs are excluded by the
properties).  Type information the code prints or tests (`Type().String()`, `Type().Name()`,
`time.Time`) is carried on the nodes and supplied by the harness from `reflect` directly.
`reflect` operations used by the code are transcribed below (trusted reading of the stdlib,
Go 1.23: `IsZero` treats `-0.0` as zero).
-/

namespace PGV.Model

open PGV

/-- an IEEE-754 double, exactly: `fin m e` is `m * 2^e` -/
inductive FloatVal where
  | nan
  | inf (neg : Bool)
  | fin (m : Int) (e : Int)
deriving Repr, DecidableEq, Inhabited

/-- decode the 64 bits of a `float64` -/
def decodeF64 (bits : Nat) : FloatVal :=
  let neg := bits / 2 ^ 63 % 2 == 1
  let ex : Nat := bits / 2 ^ 52 % 2048
  let frac : Nat := bits % 2 ^ 52
  let sgn : Int := if neg then -1 else 1
  if ex == 2047 then (if frac == 0 then .inf neg else .nan)
  else if ex == 0 then .fin (sgn * (frac : Int)) (-1074)
  else .fin (sgn * ((2 ^ 52 + frac : Nat) : Int)) ((ex : Int) - 1075)

def FloatVal.isZero : FloatVal → Bool
  | .fin m _ => m == 0
  | _ => false

/-- three-way comparison of two finite dyadics `m1*2^e1` and `m2*2^e2` -/
def cmpDyadic (m1 e1 m2 e2 : Int) : Ordering :=
  if e1 ≤ e2 then compare m1 (m2 * 2 ^ (e2 - e1).toNat)
  else compare (m1 * 2 ^ (e1 - e2).toNat) m2

/-- Go `a < b` on float64 (false when either is NaN) -/
def FloatVal.lt : FloatVal → FloatVal → Bool
  | .nan, _ => false
  | _, .nan => false
  | .inf n1, .inf n2 => n1 && !n2
  | .inf n, .fin _ _ => n
  | .fin _ _, .inf n => !n
  | .fin m1 e1, .fin m2 e2 => cmpDyadic m1 e1 m2 e2 == .lt

/-- Go `a == b` on float64 -/
def FloatVal.eq : FloatVal → FloatVal → Bool
  | .nan, _ => false
  | _, .nan => false
  | .inf n1, .inf n2 => n1 == n2
  | .fin m1 e1, .fin m2 e2 => cmpDyadic m1 e1 m2 e2 == .eq
  | _, _ => false

def FloatVal.le (a b : FloatVal) : Bool := a.lt b || a.eq b

/-- number of bits of a natural number -/
def bitLen (n : Nat) : Nat := if n == 0 then 0 else Nat.log2 n + 1

/-- Go `float64(z)` for an `int`: exact up to 2^53, round-to-nearest-even beyond -/
def f64OfInt (z : Int) : FloatVal :=
  let a := z.natAbs
  let sgn : Int := if z < 0 then -1 else 1
  let bl := bitLen a
  if bl ≤ 53 then .fin z 0
  else
    let sh := bl - 53
    let q := a / 2 ^ sh
    let r := a % 2 ^ sh
    let half := 2 ^ (sh - 1)
    let q' := if r > half || (r == half && q % 2 == 1) then q + 1 else q
    .fin (sgn * (q' : Int)) (sh : Int)

mutual
inductive GoVal where
  | str (s : Bytes)
  | bool (v : Bool)
  | int (bits : Nat) (z : Int)                       -- bits = 0 for `int`
  | uint (bits : Nat) (n : Nat)                      -- bits = 0 for `uint`
  | float (bits : Nat) (f : FloatVal) (r64 rOwn : Bytes)
      -- r64 = FormatFloat(float64(v),'f',-1,64); rOwn = FormatFloat(v,'f',-1,bits)  (residual: stdlib)
  | ptr (tstr : Bytes) (target : Option GoVal)       -- tstr = Type().String()
  | iface (ty : Bytes) (dyn : Option GoVal)   -- ty = the STATIC type of the interface-typed slot (`interface {}`, `error`, `fmt.Stringer`)
  | slice (tstr elemT : Bytes) (isNil : Bool) (elems : GoVals)
  | array (tstr elemT : Bytes) (elems : GoVals)
  | map (tstr : Bytes) (keyIsString : Bool) (isNil : Bool) (entries : Entries)   -- entries in iteration order
  | struct (tstr tname : Bytes) (isTime : Bool) (fields : Fields)
  | other (kind : Nat) (tstr tname : Bytes) (zero : Bool)   -- func / chan / complex …: kind number, Type().String(), Type().Name(), IsZero()
inductive GoVals where
  | nil
  | cons (v : GoVal) (vs : GoVals)
inductive Entries where
  | nil
  | cons (k v : GoVal) (es : Entries)
inductive Fields where
  | nil
  | cons (name : Bytes) (exported : Bool) (isTimeTy : Bool) (tags : List (Bytes × Bytes)) (v : GoVal) (fs : Fields)
      -- exported = (PkgPath == ""); isTimeTy = (field type == time.Time); tags = Tag.Lookup results
end

instance : Inhabited GoVal := ⟨.bool false⟩

def GoVals.toList : GoVals → List GoVal
  | .nil => []
  | .cons v vs => v :: vs.toList

def GoVals.length : GoVals → Nat
  | .nil => 0
  | .cons _ vs => vs.length + 1

def Entries.length : Entries → Nat
  | .nil => 0
  | .cons _ _ es => es.length + 1

def Entries.toList : Entries → List (GoVal × GoVal)
  | .nil => []
  | .cons k v es => (k, v) :: es.toList

def GoVals.ofList : List GoVal → GoVals
  | [] => .nil
  | v :: vs => .cons v (GoVals.ofList vs)

/-- `reflect.Kind` -/
inductive Kind where
  | bool | int | uint | float | string | ptr | iface | slice | array | map | struct | other
deriving Repr, DecidableEq, BEq

def GoVal.kind : GoVal → Kind
  | .str _ => .string
  | .bool _ => .bool
  | .int _ _ => .int
  | .uint _ _ => .uint
  | .float _ _ _ _ => .float
  | .ptr _ _ => .ptr
  | .iface _ _ => .iface
  | .slice _ _ _ _ => .slice
  | .array _ _ _ => .array
  | .map _ _ _ _ => .map
  | .struct _ _ _ _ => .struct
  | .other _ _ _ _ => .other

def bitsSuffix (bits : Nat) : Bytes := if bits == 0 then [] else natToBytes bits

/-- The wire names a struct type by `Type().String()`, followed by `#n` when several DISTINCT types of the
process print alike (function-local types of one name, same-named types of different packages): the
name with the marker is the type's identity (rule sets and the type cache are keyed by it), the name
without it is what `Type().String()` prints. -/
def stripTypeId (t : Bytes) : Bytes :=
  let r := t.reverse
  let digits := r.takeWhile (fun c => 48 ≤ c && c ≤ 57)
  match r.dropWhile (fun c => 48 ≤ c && c ≤ 57) with
  | 35 :: rest => if digits.isEmpty then t else rest.reverse
  | _ => t

/-- `Type().String()` -/
def GoVal.typeString : GoVal → Bytes
  | .str _ => b! "string"
  | .bool _ => b! "bool"
  | .int bits _ => b! "int" ++ bitsSuffix bits
  | .uint bits _ => b! "uint" ++ bitsSuffix bits
  | .float bits _ _ _ => b! "float" ++ bitsSuffix bits
  | .ptr t _ => t
  | .iface t _ => t
  | .slice t _ _ _ => t
  | .array t _ _ => t
  | .map t _ _ _ => t
  | .struct t _ _ _ => stripTypeId t
  | .other _ t _ _ => t

/-- `Type().Name()` of an interface type read off its `String()`: `error` → `error`, `fmt.Stringer` → `Stringer`,
interface literals (`interface {}`, `interface { M() }`) → empty -/
def ifaceName (t : Bytes) : Bytes :=
  if t.any (fun c => c == 32 || c == 123) then []
  else match Bytes.lastIndexByte? 46 t with
    | some i => t.drop (i + 1)
    | none => t

/-- `Type().Name()`: empty for unnamed composite types -/
def GoVal.typeName : GoVal → Bytes
  | .struct _ n _ _ => n
  | .ptr _ _ => []
  | .iface t _ => ifaceName t
  | .slice _ _ _ _ => []
  | .array _ _ _ => []
  | .map _ _ _ _ => []
  | .other _ _ n _ => n
  | v => v.typeString

mutual
/-- `reflect.Value.IsZero` (Go 1.23) -/
def GoVal.isZero : GoVal → Bool
  | .str s => s.isEmpty
  | .bool v => !v
  | .int _ z => z == 0
  | .uint _ n => n == 0
  | .float _ f _ _ => f.isZero
  | .ptr _ t => t.isNone
  | .iface _ d => d.isNone
  | .slice _ _ isNil _ => isNil
  | .array _ _ es => es.allZero
  | .map _ _ isNil _ => isNil
  | .struct _ _ _ fs => fs.allZero
  | .other _ _ _ z => z
def GoVals.allZero : GoVals → Bool
  | .nil => true
  | .cons v vs => v.isZero && vs.allZero
def Fields.allZero : Fields → Bool
  | .nil => true
  | .cons _ _ _ _ v fs => v.isZero && fs.allZero
end

/-- `reflect.Value.Len` for slice / array / map / string (0 otherwise; callers test the kind first) -/
def GoVal.len : GoVal → Nat
  | .str s => s.length
  | .slice _ _ _ es => es.length
  | .array _ _ es => es.length
  | .map _ _ _ es => es.length
  | _ => 0

/-- `reflect.Value.String()` on a non-string value: `<T Value>` -/
def GoVal.reflectString : GoVal → Bytes
  | .str s => s
  | v => [60] ++ v.typeString ++ b! " Value>"

/-- `ToStr(tv.Interface())` for scalars (`strconv` decimal / bool / shortest float) -/
def GoVal.toStr : GoVal → Option Bytes
  | .str s => some s
  | .bool v => some (if v then b! "true" else b! "false")
  | .int _ z => some (intToBytes z)
  | .uint _ n => some (natToBytes n)
  | .float _ _ _ rOwn => some rOwn
  | _ => none      -- composite: fmt.Sprintf("%v") — not modelled (callers treat `none` as out of scope)

/-! ### fingerprint: names a value in a residual query (`fmt.Sprintf("%v", v)` of composites)

Injective up to what the wire format carries (pointer identity is not carried: the harness answers
"unknown" when two values with one fingerprint render differently).  Map entries are sorted so that
the fingerprint does not depend on the iteration order. -/

def lenPref (s : Bytes) : Bytes := natToBytes s.length ++ [58] ++ s

def bytesLe : Bytes → Bytes → Bool
  | [], _ => true
  | _ :: _, [] => false
  | a :: x, c :: y => a < c || (a == c && bytesLe x y)

def insertBytesSorted (x : Bytes) : List Bytes → List Bytes
  | [] => [x]
  | y :: ys => if bytesLe x y then x :: y :: ys else y :: insertBytesSorted x ys

def sortBytes (l : List Bytes) : List Bytes := l.foldr insertBytesSorted []

mutual
def GoVal.fp : GoVal → Bytes
  | .str s => [115] ++ lenPref s
  | .bool v => if v then b! "b1" else b! "b0"
  | .int bits z => [105] ++ natToBytes bits ++ [58] ++ intToBytes z ++ [59]
  | .uint bits n => [117] ++ natToBytes bits ++ [58] ++ natToBytes n ++ [59]
  | .float bits _ _ rOwn => [102] ++ natToBytes bits ++ [58] ++ rOwn ++ [59]
  | .ptr t none => [112] ++ lenPref t ++ [110]
  | .ptr t (some v) => [112] ++ lenPref t ++ v.fp
  | .iface _ none => b! "In"
  | .iface _ (some v) => [73] ++ v.fp
  | .slice t _ isNil es => [83] ++ lenPref t ++ (if isNil then [110] else [118]) ++ [91] ++ es.fp ++ [93]
  | .array t _ es => [65] ++ lenPref t ++ [91] ++ es.fp ++ [93]
  | .map t _ isNil es => [77] ++ lenPref t ++ (if isNil then [110] else [118]) ++ [123] ++ (sortBytes es.fps).flatten ++ [125]
  | .struct t _ _ fs => [84] ++ lenPref t ++ [123] ++ fs.fp ++ [125]
  | .other kind t _ zero => [79] ++ natToBytes kind ++ [58] ++ lenPref t ++ (if zero then [122] else [118])
def GoVals.fp : GoVals → Bytes
  | .nil => []
  | .cons v vs => v.fp ++ [44] ++ vs.fp
def Entries.fps : Entries → List Bytes
  | .nil => []
  | .cons k v es => (k.fp ++ [61] ++ v.fp ++ [44]) :: es.fps
def Fields.fp : Fields → Bytes
  | .nil => []
  | .cons name _ _ _ v fs => lenPref name ++ v.fp ++ [44] ++ fs.fp
end

/-- `RemoveValuePtr`: strips pointers; `none` is the invalid `reflect.Value` (nil pointer) -/
def GoVal.stripPtr : GoVal → Option GoVal
  | .ptr _ none => none
  | .ptr _ (some t) => t.stripPtr
  | v => some v

end PGV.Model
