import PGV.Generated.Facts
import PGV.Model.Rules

/-!
# What the hand-written model expects of the source facts (T2)

`PGV/Generated/Facts.lean` is re-extracted from /repo on every run.  The obligations below are
re-decided against it: the regular expressions the recognisers were written for, the binding of
rule names to functions, the lock discipline of `LRUCache`, and who may assign package-level state.
-/

namespace PGV.Expected

open PGV PGV.Model

/-- the patterns the byte-level recognisers / scanners transcribe, by `regexp/syntax` normal form
(so `[3-9]` and `[3456789]` are the same fact, a widened class or a dropped anchor is not) -/
def patterns : List (String × String) := [
  ("EmailRe", "(?-m:\\A[0-9A-Z_a-z]+([\\+\\-\\.][0-9A-Z_a-z]+)*@[0-9A-Z_a-z]+([\\-\\.][0-9A-Z_a-z]+)*\\.[0-9A-Z_a-z]+([\\-\\.][0-9A-Z_a-z]+)*$)"),
  ("FloatRe", "(?-m:\\A[0-9]+\\.[0-9]+$)"),
  ("IdCardRe", "(?-m:(\\A[0-9][0-9][0-9][0-9][0-9][0-9][0-9][0-9][0-9][0-9][0-9][0-9][0-9][0-9][0-9]$)|(\\A[0-9][0-9][0-9][0-9][0-9][0-9][0-9][0-9][0-9][0-9][0-9][0-9][0-9][0-9][0-9][0-9][0-9][0-9]$)|(\\A[0-9][0-9][0-9][0-9][0-9][0-9][0-9][0-9][0-9][0-9][0-9][0-9][0-9][0-9][0-9][0-9][0-9]([0-9Xx])$))"),
  ("IncludeZhRe", "[一-龥]"),
  ("IntRe", "(?-m:\\A[0-9]+$)"),
  ("PhoneRe", "(?-m:\\A1[3-9][0-9][0-9][0-9][0-9][0-9][0-9][0-9][0-9][0-9]$)"),
  ("rComment", "(?-s:@tag (.*))"),
  ("rTags", "[0-9A-Z_a-z]+:\"[^\"]+\"")]

def patternsOK (gen : List (String × String × String)) : Bool :=
  patterns.all fun (n, nf) => (gen.filter fun g => g.1 == n).map (·.2.2) == [nf]

/-- rule name ↦ Go function, as the model's `builtinTable` was transcribed -/
def ruleTable : List (String × String) := [
  ("required", "nil"), ("exist", "nil"), ("either", "nil"), ("botheq", "nil"),
  ("to", "To"), ("ge", "Ge"), ("le", "Le"), ("oto", "OTo"), ("gt", "Gt"), ("lt", "Lt"), ("eq", "Eq"), ("noeq", "NoEq"),
  ("in", "In"), ("include", "Include"), ("phone", "Phone"), ("email", "Email"), ("idcard", "IDCard"),
  ("year", "Year"), ("year2month", "Year2Month"), ("date", "Date"), ("datetime", "Datetime"),
  ("int", "Int"), ("ints", "Ints"), ("float", "Float"), ("re", "Re"), ("ip", "Ip"), ("ipv4", "Ipv4"), ("ipv6", "Ipv6"),
  ("unique", "Unique"), ("json", "Json"), ("prefix", "Prefix"), ("suffix", "Suffix"), ("file", "File"), ("dir", "Dir")]

/-- same names, same functions (any order) -/
def ruleTableOK (gen : List (String × String)) : Bool :=
  gen.length == ruleTable.length && ruleTable.all (gen.contains ·)

/-- the model's table has exactly the code's rule names -/
def modelKeysOK (genKeys : List Bytes) : Bool :=
  genKeys.length == builtinTable.length && builtinTable.all fun (k, _) => genKeys.contains k

/-! ### lock discipline of `LRUCache` -/

abbrev LockFact := String × String × Bool × Bool × List String

def factOf (facts : List LockFact) (m : String) : Option LockFact := facts.find? (·.1 == m)

/-- does the method write shared state, directly or through a method of the receiver it calls (two levels) -/
def writesT (facts : List LockFact) (f : LockFact) : Bool :=
  f.2.2.1 || f.2.2.2.2.any fun c =>
    match factOf facts c with
    | some g => g.2.2.1 || g.2.2.2.2.any fun c2 => match factOf facts c2 with | some h => h.2.2.1 | none => false
    | none => false

/-- methods that run before the cache is shared (registration): exempt -/
def exempt : List String := ["SetDelCallBackFn"]

def exportedName (name : String) : Bool := match name.toList.head? with | some c => c.isUpper | none => false

/-- a lock-free unexported helper is safe when every method that calls it either holds the exclusive
lock or is itself a safe lock-free unexported helper (any chain of helpers, bounded by the number of
methods) -/
def helperSafe (facts : List LockFact) : Nat → String → Bool
  | 0, _ => false
  | fuel + 1, name =>
    facts.all fun g =>
      !(g.2.2.2.2.contains name) || g.1 == name || g.2.1 == "excl" ||
        (g.2.1 == "none" && !exportedName g.1 && helperSafe facts fuel g.1)

/-- every exported method that writes holds the exclusive lock for its whole body; every one that
only reads holds at least the shared lock; an unexported helper without a lock is only called from
methods that hold the exclusive lock; no method takes the lock twice (directly or through a callee:
`sync.RWMutex` is not re-entrant, a recursive read lock deadlocks as soon as a writer queues) -/
def lockOK (facts : List LockFact) : Bool :=
  facts.all fun f =>
    let name := f.1
    let lock := f.2.1
    -- sync.RWMutex is not re-entrant: a method that holds the lock calls no method that takes it
    (lock == "none" || f.2.2.2.2.all fun c => match factOf facts c with | some g => g.2.1 == "none" | none => true) &&
    let exported := match name.toList.head? with | some c => c.isUpper | none => false
    if exempt.contains name then true
    else if exported then
      (if writesT facts f then lock == "excl" else if f.2.2.2.1 then lock == "excl" || lock == "shared" else true)
    else
      -- unexported helper: it touches no shared state at all (e.g. a wrapper around the mutex itself), or
      -- every caller holds the exclusive lock
      (!f.2.2.1 && !f.2.2.2.1) || lock == "excl" || helperSafe facts facts.length name

/-! ### package-level state -/

/-- the only functions that assign package-level variables of `valid` after initialisation: the two
registration functions the properties assume to run before any validation -/
def allowedWriters : List (String × String) :=
  [("cacheStructType", "SetStructTypeCache"), ("validName2FnMap", "SetCustomerValidFn")]

def globalsOK (gen : List (String × String)) : Bool := gen.all (allowedWriters.contains ·)

/-! ### zero-copy conversions -/

/-- `internal.UnsafeBytes2Str(x)` shares `x`'s backing array with the returned string: every use in
package `valid` converts a buffer made in the same function (`make`), after the last write to it and
outside any loop — so no later call (and no later iteration) can change a string already handed out -/
def aliasOK (facts : List (String × String × String × Bool × Bool)) : Bool :=
  facts.all fun f => f.2.2.1 == "make" && !f.2.2.2.1 && !f.2.2.2.2

end PGV.Expected
