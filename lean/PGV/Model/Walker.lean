import PGV.Model.Rules

/-!
# Model of the four walkers: `validstruct.go`, `validvar.go`, `validmap.go`, `validurl.go`,
# group bookkeeping of `abstract.go`, and the entry points of `valid.go`

Code-shaped: the walker threads the error buffer (`errBuf.WriteString` = append) and the group
table through the traversal exactly in the order the Go code does.
-/

namespace PGV.Model

open PGV

/-- one member registered for an `either` / `botheq` group (`name2Value`) -/
structure Member where
  scope : Bytes
  validName : Bytes
  objName : Bytes
  fieldName : Bytes
  val : GoVal

/-- walker state: the error buffer and the group table (insertion order; Go map order is unobservable
except for the order of group clauses, which the driver treats as a permutation) -/
structure WSt where
  buf : Bytes := []
  members : List Member := []
  /-- ghost: positions in `buf` where the iteration over a Go map starts (`0`), where one of its
  entries starts (`1`) and where it ends (`2`).  Never read by the walker; the driver uses it to
  accept any iteration order of the map (the order the implementation used is not observable). -/
  marks : List (Nat × Nat) := []

def WSt.write (st : WSt) (t : Bytes) : WSt := { st with buf := st.buf ++ t }
def WSt.mark (st : WSt) (kind : Nat) : WSt := { st with marks := st.marks ++ [(kind, st.buf.length)] }

/-- how a rule name resolves (`getValidFn`): per-call table, then the global table (registered
functions shadow built-ins), else unknown -/
inductive Resolved where
  | unknown
  | structural
  | custom (marker : Bytes)
  | builtin (run : Ext → Bytes → Bytes → Bytes → GoVal → M Bytes)

structure FnTables where
  localFns : List (Bytes × Bytes) := []      -- name ↦ marker of the harness's marker function
  globalFns : List (Bytes × Bytes) := []     -- registered with SetCustomerValidFn

def resolveFn (t : FnTables) (key : Bytes) : Resolved :=
  match t.localFns.lookup key with
  | some m => .custom m
  | none =>
    match t.globalFns.lookup key with
    | some m => .custom m
    | none =>
      match builtin key with
      | some .structural => .structural
      | some (.fn run) => .builtin run
      | none => .unknown

def unknownFnMsg (key : Bytes) : Bytes := b! "valid \"" ++ key ++ b! "\" is not exist, You can call SetValidFn"

/-- what the harness's marker functions write: one clause naming the function that ran -/
def customClause (marker validName obj field : Bytes) : Bytes :=
  getJoinValidErrStr obj field [] [b! "custom:" ++ marker ++ b! ":" ++ validName]

/-- the clause of a violated `required` -/
def requiredClause (obj field cusMsg : Bytes) : Bytes :=
  if !cusMsg.isEmpty then getJoinValidErrStr obj field [] [cusMsg]
  else getJoinValidErrStr obj field [] [explainEn, b! "it is", requiredB]

/-! ## groups (`abstract.go`) -/

/-- `reflect.DeepEqual(a.Interface(), b.Interface())` for scalars of identical type -/
def deepEqScalar : GoVal → GoVal → Option Bool
  | .str a, .str c => some (a == c)
  | .bool a, .bool c => some (a == c)
  | .int b1 a, .int b2 c => some (b1 == b2 && a == c)
  | .uint b1 a, .uint b2 c => some (b1 == b2 && a == c)
  | .float b1 a _ _, .float b2 c _ _ => some (b1 == b2 && a.eq c)
  | .iface _ (some a), .iface _ (some c) => deepEqScalar a c
  | .iface _ none, .iface _ none => some true
  | .iface _ none, .iface _ (some _) => some false
  | .iface _ (some _), .iface _ none => some false
  | .str _, .bool _ | .str _, .int _ _ | .str _, .uint _ _ | .str _, .float _ _ _ _ => some false
  | .bool _, .str _ | .bool _, .int _ _ | .bool _, .uint _ _ | .bool _, .float _ _ _ _ => some false
  | .int _ _, .str _ | .int _ _, .bool _ | .int _ _, .uint _ _ | .int _ _, .float _ _ _ _ => some false
  | .uint _ _, .str _ | .uint _ _, .bool _ | .uint _ _, .int _ _ | .uint _ _, .float _ _ _ _ => some false
  | .float _ _ _ _, .str _ | .float _ _ _ _, .bool _ | .float _ _ _ _, .int _ _ | .float _ _ _ _, .uint _ _ => some false
  | _, _ => none

def memberNames (ms : List Member) : Bytes :=
  ms.flatMap fun m =>
    (if !m.objName.isEmpty then [DQ] ++ m.objName ++ [46] else [DQ]) ++ m.fieldName ++ [DQ] ++ b! ", "

/-- `either(fieldInfos)` -/
def eitherClause (ms : List Member) : Bytes :=
  match ms with
  | [m] => getJoinFieldErr m.objName m.fieldName eitherValErr
  | _ =>
    if ms.all (fun m => m.val.isZero) then
      Bytes.trimSuffix (memberNames ms) (b! ", ") ++ [SP] ++ explainEn ++ b! " they shouldn't all be empty" ++ errEndFlag
    else []

/-- `reflect.DeepEqual(a.Interface(), b.Interface())`: decided on scalars, a residual on composites -/
def deepEq (ext : Ext) (a c : GoVal) : M Bool :=
  match deepEqScalar a c with
  | some r => pure r
  | none => do
    let ans ← askExt ext (.deepeq a.fp c.fp)
    if ans.code == 2 then throw (.unmodelled "DeepEqual on composite values") else pure (ans.code == 1)

/-- `bothEq(fieldInfos)` -/
def bothEqClause (ext : Ext) (ms : List Member) : M Bytes :=
  match ms with
  | [m] => pure (getJoinFieldErr m.objName m.fieldName bothEqValErr)
  | [] => pure []
  | m0 :: rest => do
    let eqs ← rest.mapM fun m => deepEq ext m0.val m.val
    if eqs.all id then pure []
    else pure (Bytes.trimSuffix (memberNames ms) (b! ", ") ++ [SP] ++ explainEn ++ b! " they should be equal" ++ errEndFlag)

/-- the key of the group table: the object (scope) and the rule text -/
def Member.gkey (m : Member) : Bytes × Bytes := (m.scope, m.validName)

/-- distinct keys, in order of first appearance (the Go map's own order is unobservable) -/
def dedupKeys : List (Bytes × Bytes) → List (Bytes × Bytes)
  | [] => []
  | k :: ks => k :: (dedupKeys ks).filter (· != k)

/-- group the members by (scope, validName) -/
def groupMembers (ms : List Member) : List (List Member) :=
  (dedupKeys (ms.map Member.gkey)).map fun k => ms.filter fun m => m.gkey == k

/-- `validCommon.valid`: one (possibly empty) text per group -/
def groupClauses (ext : Ext) (ms : List Member) : M (List Bytes) :=
  (groupMembers ms).mapM fun g =>
    match g with
    | [] => pure []
    | m :: _ =>
      let (key, _, _) := parseValidNameKV m.validName
      if key == eitherB then pure (eitherClause g)
      else if key == bothEqB then bothEqClause ext g
      else pure []

/-- result of a call: the buffer after the walk and the group clauses (whose mutual order is that of
a Go map). `err` is the error string for the given order of group clauses: `none` = `nil`. -/
structure CallOut where
  main : Bytes
  groups : List Bytes
  marks : List (Nat × Nat) := []

def CallOut.err (o : CallOut) (order : List Bytes) : Option Bytes :=
  let all := o.main ++ order.flatten
  if all.isEmpty then none else some (Bytes.trimSuffix all errEndFlag)

/-- an early `return errors.New(msg)` -/
def earlyErr (msg : Bytes) : CallOut := { main := msg ++ errEndFlag, groups := [] }

def finish (ext : Ext) (st : WSt) : M CallOut := do
  pure { main := st.buf, groups := (← groupClauses ext st.members).filter (!·.isEmpty), marks := st.marks }

/-! ## struct walker -/

structure StructCfg where
  ext : Ext
  tag : Bytes := b! "valid"
  typed : List (Bytes × RM) := []     -- SetRule(rm, obj): keyed by the struct type (its Type().String())
  outer : RM := []                    -- SetRule(rm): `validOnlyOuterObj`
  fns : FnTables := {}

/-- `ToStr(iter.Key())`: the key is handed over as a `reflect.Value`, so it is rendered by
`fmt.Sprintf("%v", key)`: strings as they are, integers in decimal, bools as words; every other key
kind (floats, arrays, structs, pointers …) is the residual `sprint` -/
def keyStrScalar : GoVal → Option Bytes
  | .str s => some s
  | .int _ z => some (intToBytes z)
  | .uint _ n => some (natToBytes n)
  | .bool v => some (if v then b! "true" else b! "false")
  | _ => none

/-- `ToStr(iter.Key())`: `%v` of the key; a key of interface type prints as its dynamic value (so `1` and `"1"` in a
`map[interface{}]T` are named alike) -/
def keyStr (ext : Ext) (k : GoVal) : M Bytes :=
  match keyStrScalar k with
  | some s => pure s
  | none =>
    match k with
    | .iface _ (some v) =>
      (match keyStrScalar v with
       | some s => pure s
       | none => sprintExt ext k)
    | _ => sprintExt ext k

/-- "empty" as `required` sees a struct field: zero value, or a slice / array / map of length 0 -/
def requiredEmpty (v : GoVal) : Bool :=
  (match v.kind with
    | .slice | .array | .map => v.len == 0
    | _ => false) || v.isZero

/-- the rule loop of one field. `descend isValidTvKind skipNested cusMsg st` runs `exist(...)` on the field
value. -/
def fieldRules (ext : Ext) (fns : FnTables) (scope sn fname : Bytes) (v : GoVal)
    (descend : Bool → Bool → Bytes → WSt → M WSt) : List Bytes → Bool → WSt → M WSt
  | [], _, st => pure st
  | r :: rs, descended, st =>
    if r.isEmpty then fieldRules ext fns scope sn fname v descend rs descended st
    else
      let (key, _, cusMsg) := parseValidNameKV r
      match resolveFn fns key with
      | .unknown => fieldRules ext fns scope sn fname v descend rs descended (st.write (getJoinFieldErr sn fname (unknownFnMsg key)))
      | .structural =>
        if key == requiredB then do
          if requiredEmpty v then
            fieldRules ext fns scope sn fname v descend rs true (st.write (requiredClause sn fname cusMsg))
          else
            let st' ← descend false descended cusMsg st
            fieldRules ext fns scope sn fname v descend rs true st'
        else if key == existB then do
          let st' ← descend true descended cusMsg st
          fieldRules ext fns scope sn fname v descend rs true st'
        else
          fieldRules ext fns scope sn fname v descend rs descended
            { st with members := st.members ++ [{ scope := scope, validName := r, objName := sn, fieldName := fname, val := v }] }
      | .custom marker =>
        if v.isZero then fieldRules ext fns scope sn fname v descend rs descended st
        else fieldRules ext fns scope sn fname v descend rs descended (st.write (customClause marker r sn fname))
      | .builtin run =>
        if v.isZero then fieldRules ext fns scope sn fname v descend rs descended st
        else do
          let t ← run ext r sn fname v
          fieldRules ext fns scope sn fname v descend rs descended (st.write t)

def tagGet (tags : List (Bytes × Bytes)) (name : Bytes) : Bytes :=
  match tags.lookup name with
  | some v => v
  | none => []

/-- "it is nonsupport exist" clause of `exist` on a scalar -/
def existScalarClause (sn fname cusMsg : Bytes) (v : GoVal) : Bytes :=
  if !cusMsg.isEmpty then getJoinValidErrStr sn fname v.reflectString [cusMsg]
  else getJoinValidErrStr sn fname v.reflectString [explainEn, b! "it is nonsupport", existB]

/-- `validate` on a value that is not a struct after pointer stripping -/
def nonStruct (structName : Bytes) (v : GoVal) (gather : Bool) (st : WSt) : M WSt :=
  if gather then pure st
  else pure (st.write (getJoinFieldErr structName v.typeName (b! "is not struct")))

/-- the `default:` branch of `exist` -/
def existScalar (sn fname cusMsg : Bytes) (v : GoVal) (isValidTvKind : Bool) (st : WSt) : WSt :=
  if isValidTvKind then st.write (existScalarClause sn fname cusMsg v) else st

/-- entering a struct: the name used in paths and the rule set that applies
(`structName == ""` marks the outermost struct) -/
def structEnter (cfg : StructCfg) (structName tstr tname : Bytes) : Bytes × RM :=
  let isOuter := structName.isEmpty
  let sn := if isOuter then tname else structName
  let typedRM : RM := match cfg.typed.lookup tstr with | some r => r | none => []
  let cus : RM := if isOuter && typedRM.isEmpty then cfg.outer else typedRM
  (sn, cus)

mutual
/-- `VStruct.validate(structName, value, isValidGatherObj)` -/
def validate (cfg : StructCfg) (structName : Bytes) (value : GoVal) (gather : Bool) (st : WSt) : M WSt :=
  match value with
  | .ptr _ none => pure st                                    -- nil pointer: nothing to validate
  | .ptr _ (some t) => validate cfg structName t gather st
  | .struct tstr tname _ fs =>
    fieldsLoop cfg (structEnter cfg structName tstr tname).1 (structEnter cfg structName tstr tname).2 fs st
  | .str s => nonStruct structName (.str s) gather st
  | .bool v => nonStruct structName (.bool v) gather st
  | .int bits z => nonStruct structName (.int bits z) gather st
  | .uint bits n => nonStruct structName (.uint bits n) gather st
  | .float bits f r1 r2 => nonStruct structName (.float bits f r1 r2) gather st
  | .iface t d => nonStruct structName (.iface t d) gather st
  | .slice t e n es => nonStruct structName (.slice t e n es) gather st
  | .array t e es => nonStruct structName (.array t e es) gather st
  | .map t k n es => nonStruct structName (.map t k n es) gather st
  | .other k t n z => nonStruct structName (.other k t n z) gather st

/-- the field loop of `validate` -/
def fieldsLoop (cfg : StructCfg) (sn : Bytes) (cus : RM) (fs : Fields) (st : WSt) : M WSt :=
  match fs with
  | .nil => pure st
  | .cons name exported isTimeTy tags v rest => do
    let rule0 := tagGet tags cfg.tag
    let over := rmGet cus name
    let rule := if !over.isEmpty then over else rule0
    let st1 ←
      if !exported || isTimeTy || rule.isEmpty then pure st
      else
        fieldRules cfg.ext cfg.fns sn sn name v
          (fun isValidTvKind skip cusMsg st => existTop cfg sn name v isValidTvKind skip cusMsg st)
          (validNamesSplit rule) false st
    fieldsLoop cfg sn cus rest st1

/-- `exist(isValidTvKind, structName, fieldName, cusMsg, tv, skipNested)`: zero check, pointer
stripping, kind switch -/
def existTop (cfg : StructCfg) (sn fname : Bytes) (v : GoVal) (isValidTvKind skip : Bool) (cusMsg : Bytes) (st : WSt) : M WSt :=
  match v with
  | .ptr _ none => pure st
  | .ptr _ (some t) => existStripped cfg sn fname t isValidTvKind skip cusMsg st
  | .struct t n isTime fs =>
    if fs.allZero || isTime || skip then pure st
    else fieldsLoop cfg (structEnter cfg (sn ++ [46] ++ fname) t n).1 (structEnter cfg (sn ++ [46] ++ fname) t n).2 fs st
  | .slice _ _ n es => if n || skip then pure st else elemsLoop cfg (sn ++ [46] ++ fname) 0 es st
  | .array _ _ es => if es.allZero || skip then pure st else elemsLoop cfg (sn ++ [46] ++ fname) 0 es st
  | .map _ _ n es => if n || skip then pure st else entriesLoop cfg (sn ++ [46] ++ fname ++ [91]) es (st.mark 0)
  | .str s => pure (if s.isEmpty then st else existScalar sn fname cusMsg (.str s) isValidTvKind st)
  | .bool x => pure (if !x then st else existScalar sn fname cusMsg (.bool x) isValidTvKind st)
  | .int bits z => pure (if z == 0 then st else existScalar sn fname cusMsg (.int bits z) isValidTvKind st)
  | .uint bits n => pure (if n == 0 then st else existScalar sn fname cusMsg (.uint bits n) isValidTvKind st)
  | .float bits f r1 r2 => pure (if f.isZero then st else existScalar sn fname cusMsg (.float bits f r1 r2) isValidTvKind st)
  | .iface t d => pure (if d.isNone then st else existScalar sn fname cusMsg (.iface t d) isValidTvKind st)
  | .other k t n z => pure (if z then st else existScalar sn fname cusMsg (.other k t n z) isValidTvKind st)

/-- `exist` below a non-nil pointer: no further zero check, `RemoveValuePtr`, kind switch -/
def existStripped (cfg : StructCfg) (sn fname : Bytes) (v : GoVal) (isValidTvKind skip : Bool) (cusMsg : Bytes) (st : WSt) : M WSt :=
  match v with
  | .ptr _ none => pure st
  | .ptr _ (some t) => existStripped cfg sn fname t isValidTvKind skip cusMsg st
  | .struct t n isTime fs =>
    if isTime || skip then pure st
    else fieldsLoop cfg (structEnter cfg (sn ++ [46] ++ fname) t n).1 (structEnter cfg (sn ++ [46] ++ fname) t n).2 fs st
  | .slice _ _ _ es => if skip then pure st else elemsLoop cfg (sn ++ [46] ++ fname) 0 es st
  | .array _ _ es => if skip then pure st else elemsLoop cfg (sn ++ [46] ++ fname) 0 es st
  | .map _ _ _ es => if skip then pure st else entriesLoop cfg (sn ++ [46] ++ fname ++ [91]) es (st.mark 0)
  | .str s => pure (existScalar sn fname cusMsg (.str s) isValidTvKind st)
  | .bool x => pure (existScalar sn fname cusMsg (.bool x) isValidTvKind st)
  | .int bits z => pure (existScalar sn fname cusMsg (.int bits z) isValidTvKind st)
  | .uint bits n => pure (existScalar sn fname cusMsg (.uint bits n) isValidTvKind st)
  | .float bits f r1 r2 => pure (existScalar sn fname cusMsg (.float bits f r1 r2) isValidTvKind st)
  | .iface t d => pure (existScalar sn fname cusMsg (.iface t d) isValidTvKind st)
  | .other k t n z => pure (existScalar sn fname cusMsg (.other k t n z) isValidTvKind st)

/-- elements of a slice/array: `validate(path[i], elem, true)` -/
def elemsLoop (cfg : StructCfg) (path : Bytes) (i : Nat) (es : GoVals) (st : WSt) : M WSt :=
  match es with
  | .nil => pure st
  | .cons v rest => do
    let st1 ← validate cfg (path ++ [91] ++ natToBytes i ++ [93]) v true st
    elemsLoop cfg path (i + 1) rest st1

/-- entries of a map: `validate(path[key], value, true)`; `pathOpen` already ends with `[` -/
def entriesLoop (cfg : StructCfg) (pathOpen : Bytes) (es : Entries) (st : WSt) : M WSt :=
  match es with
  | .nil => pure (st.mark 2)
  | .cons k v rest => do
    let ks ← keyStr cfg.ext k
    let st1 ← validate cfg (pathOpen ++ ks ++ [93]) v true (st.mark 1)
    entriesLoop cfg pathOpen rest st1
end

/-! ## entry points -/

/-- what is passed as `src interface{}`: `nil`, or a value together with `reflect.TypeOf(src).String()` -/
inductive Src where
  | untypedNil
  | val (tstr : Bytes) (v : GoVal)

/-- `VStruct.Valid(src)` (reached from `Struct`, `StructForFn(s)`, `ValidateStruct`, `NestedStructForRule`) -/
def structValid (cfg : StructCfg) (src : Src) : M CallOut :=
  match src with
  | .untypedNil => pure (earlyErr (b! "src is nil"))
  | .val tstr v =>
    match v.stripPtr with
    | none => pure (earlyErr (b! "src \"" ++ tstr ++ b! "\" is nil"))
    | some (.slice _ elemT _ es) => do finish cfg.ext (← elemsLoop cfg elemT 0 es {})
    | some (.array _ elemT es) => do finish cfg.ext (← elemsLoop cfg elemT 0 es {})
    | some (.map _ _ _ es) => do finish cfg.ext (← entriesLoop cfg (b! "map[") es (({} : WSt).mark 0))
    | some rv => do finish cfg.ext (← validate cfg [] rv false {})

/-! ### `Var` -/

def validVarFieldName : Bytes := b! "validVar"

/-- the type test of `VVar.Valid`: strip `[]` / `[N]` prefixes of the type string, then the leaf
must be string, bool or a numeric kind -/
def leafSupported : Nat → Bytes → Bool
  | 0, _ => false
  | fuel + 1, t =>
    match t with
    | 91 :: rest =>                       -- '[' … ']' prefix
      match Bytes.indexByte? 93 rest with
      | some i => leafSupported fuel (rest.drop (i + 1))
      | none => false
    | _ =>
      [b! "string", b! "bool", b! "int", b! "int8", b! "int16", b! "int32", b! "int64", b! "uint", b! "uint8", b! "uint16",
       b! "uint32", b! "uint64", b! "float32", b! "float64"].contains t

/-- the rule loop shared by `Var`, `Map` and `Url` (they differ in the `required` test, in which
structural rules they support, and in the field name shown) -/
structure FlatCfg where
  ext : Ext
  fns : FnTables := {}
  supportsGroups : Bool
  /-- `required` is violated -/
  requiredViolated : GoVal → Bool
  /-- value is empty: the other rules are skipped -/
  isEmpty : GoVal → Bool

def flatRules (c : FlatCfg) (scope nameForErr nameForClause : Bytes) (v : GoVal) : List Bytes → WSt → M WSt
  | [], st => pure st
  | r :: rs, st =>
    if r.isEmpty then flatRules c scope nameForErr nameForClause v rs st
    else
      let (key, _, cusMsg) := parseValidNameKV r
      match resolveFn c.fns key with
      | .unknown => flatRules c scope nameForErr nameForClause v rs (st.write (getJoinFieldErr [] nameForErr (unknownFnMsg key)))
      | .structural =>
        if key == requiredB then
          if c.requiredViolated v then flatRules c scope nameForErr nameForClause v rs (st.write (requiredClause [] nameForClause cusMsg))
          else flatRules c scope nameForErr nameForClause v rs st
        else if c.supportsGroups && (key == eitherB || key == bothEqB) then
          flatRules c scope nameForErr nameForClause v rs
            { st with members := st.members ++ [{ scope := scope, validName := r, objName := [], fieldName := nameForErr, val := v }] }
        else
          flatRules c scope nameForErr nameForClause v rs
            (st.write (getJoinFieldErr [] nameForClause (b! "valid \"" ++ r ++ b! "\" is no support")))
      | .custom marker =>
        if c.isEmpty v then flatRules c scope nameForErr nameForClause v rs st
        else flatRules c scope nameForErr nameForClause v rs (st.write (customClause marker r [] nameForClause))
      | .builtin run =>
        if c.isEmpty v then flatRules c scope nameForErr nameForClause v rs st
        else do
          let t ← run c.ext r [] nameForClause v
          flatRules c scope nameForErr nameForClause v rs (st.write t)

/-- `Var(src, rules...)` -/
def varValid (ext : Ext) (fns : FnTables) (rules : List Bytes) (src : Src) : M CallOut :=
  match src with
  | .untypedNil => pure (earlyErr (b! "src is nil"))
  | .val tstr v =>
    match v.stripPtr with
    | none => pure (earlyErr (b! "src \"" ++ tstr ++ b! "\" is nil"))
    | some rv =>
      if !leafSupported 64 rv.typeString then pure (earlyErr (b! "src no support"))
      else
        let validNames := rmGet (rmSet [] validVarFieldName rules) validVarFieldName
        if validNames.isEmpty then pure { main := getJoinFieldErr [] [] (b! "have no set rule"), groups := [] }
        else do
          let c : FlatCfg := { ext := ext, fns := fns, supportsGroups := false,
                               requiredViolated := fun v =>
                                 (match v.kind with | .array | .slice => v.len == 0 | _ => false) || v.isZero,
                               isEmpty := fun v => v.isZero }
          let st ← flatRules c [] [] [] rv (validNamesSplit validNames) {}
          pure { main := st.buf, groups := [], marks := st.marks }     -- VVar.getError does not evaluate groups

/-! ### `Map` -/

def mapGetKey (pre key : Bytes) : Bytes :=
  if pre.isEmpty && key.isEmpty then [] else if key.isEmpty then pre ++ b! "map" else pre ++ b! "map[" ++ key ++ [93]

/-- sorted rule keys of an `RM` (`sortedRuleKeys`): byte-wise order, empty key dropped -/
def bytesLt : Bytes → Bytes → Bool
  | [], [] => false
  | [], _ :: _ => true
  | _ :: _, [] => false
  | a :: as, c :: cs => a < c || (a == c && bytesLt as cs)

def insertSorted (k : Bytes) : List Bytes → List Bytes
  | [] => [k]
  | x :: xs => if bytesLt k x then k :: x :: xs else x :: insertSorted k xs

def sortedRuleKeys (rm : RM) : List Bytes :=
  (rm.map (·.1)).foldl (fun acc k => if k.isEmpty || acc.contains k then acc else insertSorted k acc) []

/-- `requiredMsgs` + the clauses written for a missing entry -/
def missingClauses (rm : RM) (present : List Bytes) (nameOf : Bytes → Bytes) : Bytes :=
  (sortedRuleKeys rm).flatMap fun key =>
    if present.contains key then []
    else (validNamesSplit (rmGet rm key)).flatMap fun r =>
      let (k, _, cusMsg) := parseValidNameKV r
      if k == requiredB then requiredClause [] (nameOf key) cusMsg else []

def mapEntries (c : FlatCfg) (rm : RM) (pre : Bytes) : Entries → WSt → M WSt
  | .nil, st => pure (st.mark 2)
  | .cons k v rest, st => do
    let key ← match k with | .str s => pure s | _ => throw (.unmodelled "non-string map key")
    let validNames := rmGet rm key
    let st1 ← if validNames.isEmpty then pure (st.mark 1)
              else flatRules c pre key (mapGetKey pre key) v (validNamesSplit validNames) (st.mark 1)
    mapEntries c rm pre rest st1

/-- `VMap.validate(prefix, tv)` -/
def mapValidate (c : FlatCfg) (rm : RM) (pre : Bytes) (tv : GoVal) (st : WSt) : M WSt :=
  match tv with
  | .map _ keyIsString _ es =>
    if !keyIsString then pure (st.write (getJoinFieldErr [] pre (b! "map key must string")))
    else do
      let present ← es.toList.mapM fun (k, _) => match k with | .str s => pure s | _ => throw (.unmodelled "non-string map key")
      let st0 := st.write (missingClauses rm present (mapGetKey pre))
      mapEntries c rm pre es (st0.mark 0)
  | _ => pure (st.write (getJoinFieldErr [] pre (b! "val must map")))

def mapElems (c : FlatCfg) (rm : RM) (i : Nat) : GoVals → WSt → M WSt
  | .nil, st => pure st
  | .cons v rest, st => do
    let st1 ← mapValidate c rm ([91] ++ natToBytes i ++ [93]) v st
    mapElems c rm (i + 1) rest st1

/-- `Map(src, ruleObj)` / `MapFn` -/
def mapValid (ext : Ext) (fns : FnTables) (rm : RM) (src : Src) : M CallOut :=
  match src with
  | .untypedNil => pure (earlyErr (b! "src is nil"))
  | .val tstr v =>
    if rm.isEmpty then pure (earlyErr (b! "have no set rules"))
    else
      let c : FlatCfg := { ext := ext, fns := fns, supportsGroups := true,
                           requiredViolated := fun v => v.isZero, isEmpty := fun v => v.isZero }
      match v.stripPtr with
      | none => pure (earlyErr (b! "src \"" ++ tstr ++ b! "\" is nil"))
      | some (.slice _ _ _ es) => do finish ext (← mapElems c rm 0 es {})
      | some (.array _ _ es) => do finish ext (← mapElems c rm 0 es {})
      | some tv => do finish ext (← mapValidate c rm [] tv {})

/-! ### `Url` -/

def hexNibble? (c : UInt8) : Option Nat :=
  if 48 ≤ c && c ≤ 57 then some (c.toNat - 48)
  else if 97 ≤ c && c ≤ 102 then some (c.toNat - 87)
  else if 65 ≤ c && c ≤ 70 then some (c.toNat - 55)
  else none

/-- `url.QueryUnescape`: `%XX` → byte, `+` → space; `none` on a malformed escape. Go validates the
whole string first, so any malformed escape fails the call. -/
def queryUnescape : Bytes → Option Bytes
  | [] => some []
  | 37 :: h :: l :: rest =>
    match hexNibble? h, hexNibble? l with
    | some x, some y => (queryUnescape rest).map (UInt8.ofNat (x * 16 + y) :: ·)
    | _, _ => none
  | 37 :: _ => none
  | 43 :: rest => (queryUnescape rest).map (SP :: ·)
  | c :: rest => (queryUnescape rest).map (c :: ·)

def urlParams (c : FlatCfg) (rm : RM) : List Bytes → WSt → M WSt
  | [], st => pure st
  | q :: rest, st => do
    let kv := Bytes.splitByte EQ q
    let key := kv.headD []
    let val := (kv.drop 1).headD []
    let validNames := rmGet rm key
    let st1 ← if validNames.isEmpty then pure st
              else flatRules c [] key key (.str val) (validNamesSplit validNames) st
    urlParams c rm rest st1

/-- `Url(src, ruleObj)`; `src` is a string (`isStr`), a nil `*string`, or something else -/
inductive UrlSrc where
  | untypedNil | nilPtr | notString | str (s : Bytes)

def urlValid (ext : Ext) (fns : FnTables) (rm : RM) (src : UrlSrc) : M CallOut :=
  match src with
  | .untypedNil => pure (earlyErr (b! "src is nil"))
  | .nilPtr => pure (earlyErr (b! "src \"*string\" is nil"))
  | .notString => pure (earlyErr (b! "src must is string/*string"))
  | .str s =>
    match queryUnescape s with
    | none => do
      let t ← askExt ext (.unescapeerr s)     -- residual: text of url.EscapeError
      finish ext (({} : WSt).write (getJoinFieldErr [] [] (b! "url unescape is failed, err: " ++ t.text)))
    | some dec =>
      let query : Bytes := match Bytes.indexByte? 63 dec with
        | some i => dec.drop (i + 1)
        | none => []
      let params := if query.isEmpty then [] else Bytes.splitByte 38 query
      let present := params.map fun q => (Bytes.splitByte EQ q).headD []
      let c : FlatCfg := { ext := ext, fns := fns, supportsGroups := true,
                           requiredViolated := fun v => v.isZero, isEmpty := fun v => v.isZero }
      do
        let st0 := ({} : WSt).write (missingClauses rm present id)
        finish ext (← urlParams c rm params st0)

end PGV.Model
