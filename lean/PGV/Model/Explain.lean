import PGV.Model.Rules

/-!
# Model of `GetOnlyExplainErr` (`valid/init.go`)

The error text is split on `ErrEndFlag` (`"; "`), each piece is searched for the first label
(`说明:` or `explain:`), unlabelled pieces are skipped, the text after the label and one more byte is
kept, and the kept texts are joined by `ErrEndFlag`.
-/

namespace PGV.Model

open PGV

/-- `strings.Split(s, "; ")`: leftmost, non-overlapping -/
def splitEnd : Bytes → List Bytes
  | [] => [[]]
  | [x] => [[x]]
  | x :: y :: rest =>
    if x == 59 && y == 32 then [] :: splitEnd rest
    else match splitEnd (y :: rest) with
      | [] => [[x]]                 -- unreachable
      | p :: ps => (x :: p) :: ps

/-- position and length of the label that occurs first in a clause -/
def firstLabel (clause : Bytes) : Option (Nat × Nat) :=
  match Bytes.indexOf? explainZh clause, Bytes.indexOf? explainEn clause with
  | none, none => none
  | some z, none => some (z, explainZh.length)
  | none, some e => some (e, explainEn.length)
  | some z, some e => if e < z then some (e, explainEn.length) else some (z, explainZh.length)

/-- what is kept of one clause (`none`: skipped) -/
def explainOf (clause : Bytes) : Option Bytes :=
  match firstLabel clause with
  | none => none
  | some (s, l) =>
    let start := if s + l + 1 > clause.length then clause.length else s + l + 1
    -- `clause[start:]` with `start ≤ len(clause)`: cannot panic
    some (clause.drop start)

def getOnlyExplainErr (errMsg : Bytes) : Bytes :=
  if errMsg.isEmpty then []
  else Bytes.join errEndFlag ((splitEnd errMsg).filterMap explainOf)

end PGV.Model
