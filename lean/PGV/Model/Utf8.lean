import PGV.Basic

/-!
# UTF-8 decoding as Go does it (`utf8.DecodeRuneInString`, `[]rune(s)`, `range s`)

Each invalid byte decodes to U+FFFD with width 1 (overlong forms, surrogates and values above
U+10FFFF are invalid).  Trusted transcription of the stdlib; validated against
`utf8.RuneCountInString` / `[]rune` by the `runes` op of the C01 stream.
-/

namespace PGV

def runeError : Nat := 0xFFFD

def isCont (x : UInt8) : Bool := 0x80 ≤ x && x ≤ 0xBF

/-- decode the first rune of a non-empty byte string: (rune, width) -/
def decodeRune : Bytes → Nat × Nat
  | [] => (runeError, 0)
  | b0 :: rest =>
    if b0 < 0x80 then (b0.toNat, 1)
    else if 0xC2 ≤ b0 && b0 ≤ 0xDF then
      match rest with
      | b1 :: _ => if isCont b1 then ((b0.toNat % 32) * 64 + b1.toNat % 64, 2) else (runeError, 1)
      | _ => (runeError, 1)
    else if 0xE0 ≤ b0 && b0 ≤ 0xEF then
      match rest with
      | b1 :: b2 :: _ =>
        let lo : UInt8 := if b0 == 0xE0 then 0xA0 else 0x80
        let hi : UInt8 := if b0 == 0xED then 0x9F else 0xBF
        if lo ≤ b1 && b1 ≤ hi && isCont b2 then
          ((b0.toNat % 16) * 4096 + (b1.toNat % 64) * 64 + b2.toNat % 64, 3)
        else (runeError, 1)
      | _ => (runeError, 1)
    else if 0xF0 ≤ b0 && b0 ≤ 0xF4 then
      match rest with
      | b1 :: b2 :: b3 :: _ =>
        let lo : UInt8 := if b0 == 0xF0 then 0x90 else 0x80
        let hi : UInt8 := if b0 == 0xF4 then 0x8F else 0xBF
        if lo ≤ b1 && b1 ≤ hi && isCont b2 && isCont b3 then
          ((b0.toNat % 8) * 262144 + (b1.toNat % 64) * 4096 + (b2.toNat % 64) * 64 + b3.toNat % 64, 4)
        else (runeError, 1)
      | _ => (runeError, 1)
    else (runeError, 1)

/-- `[]rune(s)`; fuel = remaining length keeps the recursion structural -/
def decodeRunesAux : Nat → Bytes → List Nat
  | 0, _ => []
  | _, [] => []
  | fuel + 1, s@(_ :: _) =>
    let (r, w) := decodeRune s
    r :: decodeRunesAux fuel (s.drop w)

def decodeRunes (s : Bytes) : List Nat := decodeRunesAux s.length s

/-- `len([]rune(s))` -/
def runeCount (s : Bytes) : Nat := (decodeRunes s).length

/-- `IncludeZhRe.MatchString`: some rune in U+4E00..U+9FA5 (the class is re-extracted from the
source by T2, see `PGV.Generated`) -/
def hasCJK (s : Bytes) : Bool := (decodeRunes s).any fun r => 0x4e00 ≤ r && r ≤ 0x9fa5

end PGV
