import PGV.Basic

/-!
# Model of `valid/cache.go` (`LRUCache`)

Two separate structures, as in the code: the index `nodeMap : key ↦ *list.Element` and the
`container/list` recency list whose elements hold only the value.  Elements are identified by a
fresh id.  `delete(node)` recovers the key by scanning the index, as the code does.
-/

namespace PGV.Model.LRU

abbrev Key := Nat
abbrev Val := Nat
abbrev ElemId := Nat

structure St where
  cap : Nat
  nodeMap : List (Key × ElemId)        -- Go map; order irrelevant (only point lookups / scans for a unique id)
  list : List (ElemId × Val)           -- front first
  next : ElemId
  delMapCount : Nat
deriving Repr

def new (cap : Nat) : St := ⟨cap, [], [], 0, 0⟩

def lookup (m : List (Key × ElemId)) (k : Key) : Option ElemId := (m.find? (·.1 == k)).map (·.2)
def keyOf (m : List (Key × ElemId)) (id : ElemId) : Option Key := (m.find? (·.2 == id)).map (·.1)
def valOf (l : List (ElemId × Val)) (id : ElemId) : Option Val := (l.find? (·.1 == id)).map (·.2)

/-- `list.MoveToFront(node)` followed by `node.Value = v` -/
def moveFront (l : List (ElemId × Val)) (id : ElemId) (v : Val) : List (ElemId × Val) :=
  (id, v) :: l.filter (·.1 != id)

/-- what one operation lets the caller observe -/
inductive Out where
  | cbs (fired : List (Key × Val))      -- Store / Delete: the removal callbacks fired, in order
  | hit (v : Val)
  | miss
  | len (n : Int)
  | dump (vals : List Val)
deriving Repr, DecidableEq, BEq

/-- `delete(node)`: find the key by scanning the index, remove from both structures, fire the
callback, map-rebuild bookkeeping (the rebuild copies the map: identity on its content). -/
def deleteNode (s : St) (id : ElemId) : St × List (Key × Val) :=
  match keyOf s.nodeMap id, valOf s.list id with
  | some k, some v =>
    let nm := s.nodeMap.filter (·.1 != k)
    let l := s.list.filter (·.1 != id)
    let dc := if s.delMapCount > 2 * s.cap then 0 else s.delMapCount + 1
    ({ s with nodeMap := nm, list := l, delMapCount := dc }, [(k, v)])
  | _, _ => (s, [])   -- not reachable from `new` (invariant); Go would delete a nil key / foreign element

def store (s : St) (k : Key) (v : Val) : St × Out :=
  match lookup s.nodeMap k with
  | some id => ({ s with list := moveFront s.list id v }, .cbs [])
  | none =>
    let id := s.next
    let s1 := { s with list := (id, v) :: s.list, nodeMap := (k, id) :: s.nodeMap, next := id + 1 }
    if s1.list.length > s1.cap then
      match s1.list.getLast? with
      | some (bid, _) => let (s2, cbs) := deleteNode s1 bid; (s2, .cbs cbs)
      | none => (s1, .cbs [])
    else (s1, .cbs [])

def load (s : St) (k : Key) : St × Out :=
  match lookup s.nodeMap k with
  | none => (s, .miss)
  | some id =>
    match valOf s.list id with
    | some v => ({ s with list := moveFront s.list id v }, .hit v)
    | none => (s, .miss)   -- not reachable (invariant)

def delete (s : St) (k : Key) : St × Out :=
  match lookup s.nodeMap k with
  | none => (s, .cbs [])
  | some id => let (s2, cbs) := deleteNode s id; (s2, .cbs cbs)

/-- `Len`: -1 is the inconsistency sentinel -/
def len (s : St) : St × Out :=
  (s, .len (if s.list.length != s.nodeMap.length then -1 else s.list.length))

def dump (s : St) : St × Out := (s, .dump (s.list.map (·.2)))

inductive Op where
  | store (k : Key) (v : Val) | load (k : Key) | delete (k : Key) | len | dump
deriving Repr, DecidableEq

def step (s : St) : Op → St × Out
  | .store k v => store s k v
  | .load k => load s k
  | .delete k => delete s k
  | .len => len s
  | .dump => dump s

def run (s : St) : List Op → St × List Out
  | [] => (s, [])
  | o :: os =>
    let r := step s o
    let rs := run r.1 os
    (rs.1, r.2 :: rs.2)

end PGV.Model.LRU
