import PGV.Basic

/-!
# Recognisers for the built-in patterns of `valid/init.go`

Each is the hand-written reading of one `regexp.MustCompile(...)` constant.  The pattern text itself
is re-extracted from the source on every run (T2, `PGV/Generated/Patterns.lean`) and compared with
the text these recognisers were written (and proved) for.
All patterns are anchored and mention ASCII only, so matching on bytes equals matching on runes.
-/

namespace PGV.Model.Lang

open PGV

def isDigit (c : UInt8) : Bool := 48 ≤ c && c ≤ 57
/-- `\w` = `[0-9A-Za-z_]` -/
def isWord (c : UInt8) : Bool := isDigit c || (65 ≤ c && c ≤ 90) || (97 ≤ c && c ≤ 122) || c == 95

/-- `^\d+$` -/
def intRe (s : Bytes) : Bool := !s.isEmpty && s.all isDigit

/-- what must follow the integer part: `.` and one or more digits up to the end -/
def floatTail (ipEmpty : Bool) : Bytes → Bool
  | 46 :: fp => !ipEmpty && !fp.isEmpty && fp.all isDigit
  | _ => false

/-- `^\d+\.\d+$` -/
def floatRe (s : Bytes) : Bool := floatTail (s.takeWhile isDigit).isEmpty (s.dropWhile isDigit)

/-- `^1[3-9]\d{9}$` -/
def phoneRe (s : Bytes) : Bool :=
  match s with
  | 49 :: c :: rest => 51 ≤ c && c ≤ 57 && rest.length == 9 && rest.all isDigit
  | _ => false

/-- `(^\d{15}$)|(^\d{18}$)|(^\d{17}(\d|X|x)$)` -/
def idCardRe (s : Bytes) : Bool :=
  (s.length == 15 && s.all isDigit) || (s.length == 18 && s.all isDigit)
  || (s.length == 18 && (s.take 17).all isDigit &&
        (match s.getLast? with | some c => isDigit c || c == 88 || c == 120 | none => false))

/-- words separated by single separator bytes: `\w+ (sep \w+)*`; returns the separators used, or
`none` if the text is not of that shape -/
def wordsSep (isSep : UInt8 → Bool) : Bytes → Option (List UInt8)
  | s =>
    let w := s.takeWhile isWord
    if w.isEmpty then none
    else go s.length (s.dropWhile isWord) []
where
  go : Nat → Bytes → List UInt8 → Option (List UInt8)
    | _, [], acc => some acc.reverse
    | 0, _, _ => none
    | fuel + 1, c :: rest, acc =>
      if isSep c then
        let w := rest.takeWhile isWord
        if w.isEmpty then none else go fuel (rest.dropWhile isWord) (c :: acc)
      else none

/-- `^\w+([-+.]\w+)*@\w+([-.]\w+)*\.\w+([-.]\w+)*$` -/
def emailRe (s : Bytes) : Bool :=
  match Bytes.indexByte? 64 s with
  | none => false
  | some i =>
    let loc := s.take i
    let dom := s.drop (i + 1)
    (wordsSep (fun c => c == 45 || c == 43 || c == 46) loc).isSome &&
    (match wordsSep (fun c => c == 45 || c == 46) dom with
     | some seps => seps.any (· == 46)
     | none => false)

end PGV.Model.Lang
