import PGV.Basic
import PGV.Model.Utf8
import PGV.Model.RuleText
import PGV.Model.Value
import PGV.Model.Lang
import PGV.Model.TimeParse

/-!
# Model of the rule functions (`valid/validfn.go`, helpers of `valid/common.go`, `valid/init.go`)

Every rule function appends text to the error buffer; here it *returns* the appended text.
Where Go would panic the result is `.error (.panic …)`.  Calls into the stdlib that are not
modelled are residuals answered by `ext` (`regexp.MatchString` on user patterns, `net.ParseIP`,
`json.Valid`, `os.Stat`, `time.Parse`, error text of `strconv.Atoi`).
-/

namespace PGV.Model

open PGV

/-- residual stdlib queries -/
inductive ExtQ where
  | regex (pat val : Bytes)        -- regexp.MatchString: 1 matched, 0 not matched / bad pattern
  | parseip (s : Bytes)            -- net.ParseIP: 0 invalid, 1 IPv4 (To4 != nil), 2 IPv6
  | jsonvalid (s : Bytes)          -- json.Valid: 0/1
  | stat (path : Bytes)            -- os.Stat: 0 file, 1 dir, 2 error (text = err.Error())
  | timeparse (layout val : Bytes) -- parseTimeStrict: time.Parse succeeds and Format(layout) gives the input back: 1, else 0
  | atoierr (s : Bytes)            -- text of the error strconv.Atoi returns for s
  | unescapeerr (s : Bytes)        -- text of the error url.QueryUnescape returns for s
  | deepeq (fpA fpB : Bytes)       -- reflect.DeepEqual of the two values with these fingerprints: 1 equal, 0 different, 2 cannot be told
  | sprint (fp : Bytes)            -- fmt.Sprintf("%v", v) of the value with fingerprint fp: 1 + text; 0 = cannot be told from the wire format
deriving Repr, DecidableEq, BEq

structure ExtA where
  code : Nat
  text : Bytes := []
deriving Repr

inductive Stop where
  | panic (what : String)
  | need (q : ExtQ)                -- the driver was not given this residual's answer yet
  | unmodelled (what : String)     -- outside the modelled fragment (reported, never judged)
deriving Repr

abbrev M := Except Stop
abbrev Ext := ExtQ → Option ExtA

def askExt (ext : Ext) (q : ExtQ) : M ExtA :=
  match ext q with
  | some a => pure a
  | none => throw (.need q)

/-! ## constants of `init.go` -/

def strUnitStr : Bytes := b! "str-length"
def numUnitStr : Bytes := b! "num-size"
def sliceLenUnitStr : Bytes := b! "slice-len"
def requiredB : Bytes := b! "required"
def existB : Bytes := b! "exist"
def eitherB : Bytes := b! "either"
def bothEqB : Bytes := b! "botheq"
def DQ : UInt8 := 34

def errPrefix : Bytes := b! "valid \""

def toValErr : Bytes := b! "valid \"to\" is not ok, eg: type Test struct {\n    Name string `valid:\"to=1~10\"`\n}"
def otoValErr : Bytes := b! "valid \"to\" is not ok, eg: type Test struct {\n    Name string `valid:\"oto=1~10\"`\n}"
def eitherValErr : Bytes := b! "valid \"either\" is not ok, eg: type Test struct {\n    OrderNo string `valid:\"either=1\"`\n    TradeNo sting `valid:\"either=1\"`\n}, errMsg: \"OrderNo\" either \"TradeNo\" they shouldn't all be empty"
def bothEqValErr : Bytes := b! "valid \"botheq\" is not ok, eg: type Test struct {\n    OrderNo string `valid:\"botheq=1\"`\n    TradeNo sting `valid:\"botheq=1\"`\n}, errMsg: \"OrderNo\" either \"TradeNo\" they shouldn't is no equal"
def inValErr : Bytes := b! "valid \"in\" is not ok, eg: type Test struct {\n   hobby int `valid:\"in=(1/2/3)\"`\n}"
def includeErr : Bytes := b! "valid \"include\" is not ok, filed type must is string, eg: type Test struct {\n    Name string `valid:\"include=(ab/cd)\"`\n}"
def reErr : Bytes := b! "valid \"re\" is not ok, eg: type Test struct {\n    Age string `valid:\"re='\\\\d+'\"`\n}"
def intsErr : Bytes := b! "valid \"ints\" is not ok, eg: type Test struct {\n    Hobby1 string `valid:\"ints\"`\n    Hobby2 string `valid:\"ints=-\"`\n    Hobby3 []string `valid:\"ints\"`\n}"
def uniqueErr : Bytes := b! "valid \"unique\" is not ok, eg: type Test struct {\n    Hobby1 string `valid:\"unique\"`\n    Hobby2 []string `valid:\"unique\"`\n}"

/-! ## clause builders (`common.go`) -/

/-- `GetJoinFieldErr(objName, fieldName, err)` -/
def getJoinFieldErr (obj field msg : Bytes) : Bytes :=
  (if !obj.isEmpty && !field.isEmpty then [DQ] ++ obj ++ [46] ++ field ++ [DQ, SP] else [])
    ++ msg ++ errEndFlag

/-- `GetJoinValidErrStr(objName, fieldName, inputVal, others...)` -/
def getJoinValidErrStr (obj field input : Bytes) (others : List Bytes) : Bytes :=
  let pre : Bytes :=
    if !obj.isEmpty && !field.isEmpty then [DQ] ++ obj ++ [46] ++ field ++ [DQ, SP]
    else if obj.isEmpty && !field.isEmpty then [DQ] ++ field ++ [DQ, SP]
    else []
  let head := pre ++ b! "input \"" ++ input ++ [DQ]
  match others with
  | [] => head ++ errEndFlag
  | o0 :: _ =>
    let inject : Bytes :=
      if !Bytes.containsSub o0 explainEn && !Bytes.containsSub o0 explainZh then explainEn ++ [SP] else []
    head ++ b! ", " ++ inject ++ Bytes.join [SP] others ++ errEndFlag

/-- the clause of a violated rule: custom message if present, else the default wording -/
def violClause (obj field input cusMsg : Bytes) (dflt : List Bytes) : Bytes :=
  if !cusMsg.isEmpty then getJoinValidErrStr obj field input [cusMsg]
  else getJoinValidErrStr obj field input (explainEn :: dflt)

/-- `CheckFieldIsStr`: `none` = is a string; `some text` = the clause -/
def checkFieldIsStr (obj field : Bytes) (tv : GoVal) : Option Bytes :=
  match tv with
  | .str _ => none
  | _ => some (getJoinValidErrStr obj field tv.reflectString [explainEn, b! "it must is string"])

/-! ## `strconv.Atoi` -/

def int64Min : Int := -(2 ^ 63)
def int64Max : Int := 2 ^ 63 - 1

def digitsVal (ds : Bytes) : Nat := ds.foldl (fun acc d => acc * 10 + (d.toNat - 48)) 0

/-- `strconv.Atoi`: value returned, and whether it returned an error.  On a syntax error the value
is 0; on a range error it is clamped. -/
def atoi (s : Bytes) : Int × Bool :=
  let (neg, ds) : Bool × Bytes := match s with
    | 45 :: r => (true, r)
    | 43 :: r => (false, r)
    | r => (false, r)
  if ds.isEmpty || !ds.all Lang.isDigit then (0, true)
  else
    let n : Int := digitsVal ds
    let z := if neg then -n else n
    if z < int64Min then (int64Min, true)
    else if z > int64Max then (int64Max, true)
    else (z, false)

/-! ## `validInputSize`, `parseTagTo` -/

structure SizeRes where
  less : Bool := false
  more : Bool := false
  valStr : Bytes := []
  unit : Bytes := numUnitStr

/-- `validInputSize(min, max, tv, hasEqual)` -/
def validInputSize (min max : Int) (tv : GoVal) (hasEqual : Bool := true) : SizeRes :=
  match tv with
  | .str s =>
    let n : Int := runeCount s
    if hasEqual then { less := n < min, more := n > max, valStr := s, unit := strUnitStr }
    else { less := n ≤ min, more := n ≥ max, valStr := s, unit := strUnitStr }
  | .float _ f r64 _ =>
    let fmin := f64OfInt min
    let fmax := f64OfInt max
    if hasEqual then { less := f.lt fmin, more := fmax.lt f, valStr := r64 }
    else { less := f.le fmin, more := fmax.le f, valStr := r64 }
  | .int _ z =>
    if hasEqual then { less := z < min, more := z > max, valStr := intToBytes z }
    else { less := z ≤ min, more := z ≥ max, valStr := intToBytes z }
  | .uint _ n =>
    -- a negative bound lies below every unsigned value
    let z : Int := n
    if hasEqual then { less := z < min, more := z > max, valStr := natToBytes n }
    else { less := z ≤ min, more := z ≥ max, valStr := natToBytes n }
  | .slice _ _ _ es =>
    let l : Int := es.length
    if hasEqual then { less := l < min, more := l > max, valStr := intToBytes l, unit := sliceLenUnitStr }
    else { less := l ≤ min, more := l ≥ max, valStr := intToBytes l, unit := sliceLenUnitStr }
  | _ => {}

/-- `parseTagTo`: `.ok (min, max)` or the error text -/
def parseTagTo (ext : Ext) (toVal : Bytes) (hasEqual : Bool) : M (Except Bytes (Int × Int)) := do
  match Bytes.splitByte 126 toVal with
  | [a, c] =>
    let (mn, e1) := atoi a
    if e1 then
      let t ← askExt ext (.atoierr a)
      return .error t.text
    let (mx, e2) := atoi c
    if e2 then
      let t ← askExt ext (.atoierr c)
      return .error t.text
    return .ok (mn, mx)
  | _ => return .error (if hasEqual then toValErr else otoValErr)

/-! ## the size rules -/

def ruleTo (ext : Ext) (validName obj field : Bytes) (tv : GoVal) (hasEqual : Bool) : M Bytes := do
  let (_, toVal, cusMsg) := parseValidNameKV validName
  match ← parseTagTo ext toVal hasEqual with
  | .error e => return getJoinFieldErr obj field e
  | .ok (mn, mx) =>
    let r := validInputSize mn mx tv hasEqual
    let lessTxt := if hasEqual then b! "it is less than" else b! "it is less than or equal"
    let moreTxt := if hasEqual then b! "it is more than" else b! "it is more than or equal"
    if r.less then
      return violClause obj field r.valStr cusMsg [lessTxt, intToBytes mn, r.unit]
    else if r.more then
      return violClause obj field r.valStr cusMsg [moreTxt, intToBytes mx, r.unit]
    else return []

/-- `Ge`/`Gt` (`isMin = true`) and `Le`/`Lt` (`isMin = false`) -/
def ruleBound (validName obj field : Bytes) (tv : GoVal) (isMin hasEqual : Bool) : Bytes :=
  let (_, boundStr, cusMsg) := parseValidNameKV validName
  let bound := (atoi boundStr).1
  let r := if isMin then validInputSize bound 0 tv hasEqual else validInputSize 0 bound tv hasEqual
  let violated := if isMin then r.less else r.more
  let txt : Bytes :=
    match isMin, hasEqual with
    | true, true => b! "it is less than"
    | true, false => b! "it is less than or equal"
    | false, true => b! "it is more than"
    | false, false => b! "it is more than or equal"
  if violated then violClause obj field r.valStr cusMsg [txt, intToBytes bound, r.unit] else []

/-- `fmt.Sprintf("%v", v)` of a value whose rendering is not modelled (composites, pointers): a residual -/
def sprintExt (ext : Ext) (v : GoVal) : M Bytes := do
  let a ← askExt ext (.sprint v.fp)
  if a.code == 1 then pure a.text else throw (.unmodelled "ToStr of composite")

/-- `%v` of a slice / array of non-float scalars: `[a b c]` -/
def scalarParts (es : GoVals) : Option (List Bytes) :=
  es.toList.mapM (fun e => match e with
    | .float _ _ _ _ => none
    | e => e.toStr)

/-- `ToStr(x)` for a dynamic value `x` -/
def toStrDyn (ext : Ext) (v : GoVal) : M Bytes :=
  match v.toStr with
  | some s => pure s
  | none =>
    match v with
    | .slice tstr _ _ es | .array tstr _ es =>
      -- `case []byte: return string(value)`
      if tstr == b! "[]uint8" then
        pure (es.toList.filterMap fun e => match e with | .uint _ n => some (UInt8.ofNat n) | _ => none)
      else
        match scalarParts es with
        | some parts => pure ([91] ++ Bytes.join [SP] parts ++ [93])
        | none => sprintExt ext v
    | _ => sprintExt ext v

/-- rendering of `ToStr(tv.Interface())` for the values the rules are applied to: an interface-kind
value yields its dynamic value (`nil` renders as the empty string) -/
def toStrIface (ext : Ext) (tv : GoVal) : M Bytes :=
  match tv with
  | .iface _ (some v) => toStrDyn ext v
  | .iface _ none => pure []
  | v => toStrDyn ext v

/-- `eq`: (eqStr, unit, cusMsg, isEq) -/
def eqCore (validName : Bytes) (tv : GoVal) : Bytes × Bytes × Bytes × Bool :=
  let (_, eqStr, cusMsg) := parseValidNameKV validName
  let n := (atoi eqStr).1
  match tv with
  | .str s => (eqStr, strUnitStr, cusMsg, (runeCount s : Int) == n)
  | .int _ z => (eqStr, numUnitStr, cusMsg, z == n)
  | .uint _ u => (eqStr, numUnitStr, cusMsg, (u : Int) == n)
  | .float _ f _ _ => (eqStr, numUnitStr, cusMsg, f.eq (f64OfInt n))
  | .slice _ _ _ es => (eqStr, sliceLenUnitStr, cusMsg, (es.length : Int) == n)
  | _ => (eqStr, numUnitStr, cusMsg, false)

def ruleEq (ext : Ext) (validName obj field : Bytes) (tv : GoVal) (wantEq : Bool) : M Bytes := do
  let (eqStr, unit, cusMsg, isEq) := eqCore validName tv
  if isEq == wantEq then return []
  let input ← toStrIface ext tv
  return violClause obj field input cusMsg
    [if wantEq then b! "it should equal" else b! "it is not equal", eqStr, unit]

/-- a Go slice expression `s[lo:hi]` evaluated in `M`: panics exactly when Go does -/
def sliceM (s : Bytes) (lo hi : Nat) : M Bytes :=
  match Bytes.slice? s lo hi with
  | some r => pure r
  | none => throw (.panic "slice bounds out of range")

/-! ## `in` / `include` -/

def lastIndexByte (c : UInt8) (s : Bytes) : Option Nat := Bytes.lastIndexByte? c s

def ruleIn (ext : Ext) (validName obj field : Bytes) (tv : GoVal) : M Bytes := do
  let (key, val, cusMsg) := parseValidNameKV validName
  let isInclude := key == b! "include"
  let useErr := if isInclude then includeErr else inValErr
  match Bytes.indexByte? 40 val, lastIndexByte 41 val with
  | some l, some r =>
    if r < l then return getJoinFieldErr obj field useErr
    let inVals ← sliceM val (l + 1) r
    let tvVal ← match tv with
      | .str s => pure s
      | v => if isInclude then return getJoinFieldErr obj field useErr else toStrIface ext v
    let opts := (validNamesSplit inVals 47).map (Bytes.trimByte QUOTE)
    let isIn := opts.any fun o => if isInclude then Bytes.containsSub tvVal o else tvVal == o
    if isIn then return []
    return violClause obj field tvVal cusMsg [b! "it should " ++ key ++ b! " (" ++ inVals ++ b! ")"]
  | _, _ => return getJoinFieldErr obj field useErr

/-! ## string-format rules -/

/-- shared shape: must be a string; `ok` decides; default wording `dflt` -/
def strRule (validName obj field : Bytes) (tv : GoVal) (ok : Bytes → M Bool) (dflt : Bytes) : M Bytes := do
  match checkFieldIsStr obj field tv with
  | some e => return e
  | none =>
    let s := match tv with | .str s => s | _ => []
    if ← ok s then return []
    let (_, _, cusMsg) := parseValidNameKV validName
    return violClause obj field s cusMsg [dflt]

def rulePhone (v o f : Bytes) (tv : GoVal) : M Bytes := strRule v o f tv (fun s => pure (Lang.phoneRe s)) (b! "it is not phone")
def ruleEmail (v o f : Bytes) (tv : GoVal) : M Bytes := strRule v o f tv (fun s => pure (Lang.emailRe s)) (b! "it is not email")
def ruleIDCard (v o f : Bytes) (tv : GoVal) : M Bytes := strRule v o f tv (fun s => pure (Lang.idCardRe s)) (b! "it is not idcard")

def ruleIp (ext : Ext) (v o f : Bytes) (tv : GoVal) (want : Nat) : M Bytes :=
  -- want: 0 = any ip, 1 = ipv4, 2 = ipv6
  strRule v o f tv (fun s => do
      let a ← askExt ext (.parseip s)
      pure (if want == 0 then a.code != 0 else a.code == want))
    (if want == 0 then b! "it is not ip" else if want == 1 then b! "it is not ipv4" else b! "it is not ipv6")

/-! ### date rules: `GetTimeFmt` is modelled; `time.Parse` is modelled for the layout elements it builds, a residual otherwise -/

/-- `GetTimeFmt(fmtType, splits...)` -/
def getTimeFmt (mask : Nat) (splits : List Bytes) : Bytes :=
  let (ds, dts, ts) : Bytes × Bytes × Bytes := match splits with
    | [a] => (a, [SP], [58])
    | [a, c] => (a, c, [58])
    | [a, c, d] => (a, c, d)
    | _ => ([45], [SP], [58])
  let joinFn (old split join : Bytes) : Bytes :=
    if old.isEmpty then join else if join.isEmpty then old else old ++ split ++ join
  let bit (i : Nat) : Bool := mask / 2 ^ i % 2 == 1
  let p0 : Bytes := []
  let p1 := if bit 0 then joinFn p0 ds (b! "2006") else p0
  let p2 := if bit 1 then joinFn p1 ds (b! "01") else p1
  let p3 := if bit 2 then joinFn p2 ds (b! "02") else p2
  let s0 : Bytes := []
  let s1 := if bit 3 then joinFn s0 ts (b! "15") else s0
  let s2 := if bit 4 then joinFn s1 ts (b! "04") else s1
  let s3 := if bit 5 then joinFn s2 ts (b! "05") else s2
  joinFn p3 dts s3

/-- `parseTimeStrict(layout, s)`: decided by the transcription of `time.Parse` / `Format`
(`Model/TimeParse.lean`) when every element of the layout is one of the six it knows; a residual otherwise -/
def timeOk (ext : Ext) (layout : Bytes) (s : Bytes) : M Bool :=
  match TimeParse.parseStrict layout s with
  | some r => pure r
  | none => do
    let a ← askExt ext (.timeparse layout s)
    pure (a.code == 1)

def ruleYear (ext : Ext) (v o f : Bytes) (tv : GoVal) : M Bytes :=
  strRule v o f tv (timeOk ext (getTimeFmt 1 [])) (b! "it is not year, eg: 1996")

def ruleYear2Month (ext : Ext) (v o f : Bytes) (tv : GoVal) : M Bytes :=
  let (_, val, _) := parseValidNameKV v
  let sep := if val.isEmpty then [45] else Bytes.trimByte QUOTE val
  strRule v o f tv (timeOk ext (getTimeFmt 3 [sep])) (b! "it is not year2month, eg: 1996" ++ sep ++ b! "09")

def ruleDate (ext : Ext) (v o f : Bytes) (tv : GoVal) : M Bytes :=
  let (_, val, _) := parseValidNameKV v
  let sep := if val.isEmpty then [45] else Bytes.trimByte QUOTE val
  strRule v o f tv (timeOk ext (getTimeFmt 7 [sep]))
    (b! "it is not date, eg: 1996" ++ sep ++ b! "09" ++ sep ++ b! "28")

def ruleDatetime (ext : Ext) (v o f : Bytes) (tv : GoVal) : M Bytes :=
  let (_, val, _) := parseValidNameKV v
  let given : List Bytes := if val.isEmpty then [] else Bytes.splitByte COMMA (Bytes.trimByte QUOTE val)
  -- defaultSplit[i] = split for the first three given separators; further ones are ignored
  let pickSep (i : Nat) (d : Bytes) : Bytes := match given[i]? with | some s => s | none => d
  let s0 := pickSep 0 [45]
  let s1 := pickSep 1 [SP]
  let s2 := pickSep 2 [58]
  let layout := getTimeFmt 63 [s0, s1, s2]
  strRule v o f tv (timeOk ext layout)
    (b! "it is not datetime, eg: 1996" ++ s0 ++ b! "09" ++ s0 ++ b! "28" ++ s1 ++ b! "23" ++ s2 ++ b! "00" ++ s2 ++ b! "00")

/-! ### `re` -/

/-- the pattern scan of `Re`: from the byte after the first quote, collect bytes until a byte that
is not `\` is followed by a quote.  Returns (pattern, index of the last pattern byte) or `none`
(= the `reErr` branch). `i` is the absolute index of the head of `rest`. -/
def reScan : Bytes → Nat → Bytes → Option (Bytes × Nat)
  | [], _, _ => none
  | [_], _, _ => none                       -- next > l-1
  | v :: nx :: rest, i, acc =>
    if v != 92 && nx == QUOTE then some ((v :: acc).reverse, i)
    else reScan (nx :: rest) (i + 1) (v :: acc)

def ruleRe (ext : Ext) (validName obj field : Bytes) (tv : GoVal) : M Bytes := do
  match checkFieldIsStr obj field tv with
  | some e => return e
  | none =>
    let s := match tv with | .str s => s | _ => []
    match Bytes.indexByte? QUOTE validName with
    | none => return getJoinFieldErr obj field reErr
    | some qi =>
      match reScan (validName.drop (qi + 1)) (qi + 1) [] with
      | none => return getJoinFieldErr obj field reErr
      | some (pattern, i) =>
        let newValidName := (← sliceM validName 0 qi) ++ (← sliceM validName (i + 1) validName.length)
        let (_, _, cusMsg) := parseValidNameKV newValidName
        let a ← askExt ext (.regex pattern s)
        if a.code == 1 then return []
        return violClause obj field s cusMsg [b! "regex match is failed, pattern: " ++ pattern]

/-! ### `int`, `ints`, `float`, `unique` -/

def isIntKind (tv : GoVal) : Bool := match tv with | .int _ _ | .uint _ _ => true | _ => false

def ruleInt (ext : Ext) (validName obj field : Bytes) (tv : GoVal) : M Bytes := do
  let (_, _, cusMsg) := parseValidNameKV validName
  match tv with
  | .str s => if Lang.intRe s then return [] else return violClause obj field s cusMsg [b! "it is not integer"]
  | v =>
    if isIntKind v then return []
    let vs ← toStrIface ext v
    return violClause obj field vs cusMsg [b! "it is not integer"]

/-- `strings.Split(s, sep)` for a non-empty separator -/
def splitOn (sep : Bytes) (s : Bytes) : List Bytes :=
  go s [] 0
where
  /-- `skip` = bytes of an already matched separator still to be consumed -/
  go : Bytes → Bytes → Nat → List Bytes
    | [], cur, _ => [cur.reverse]
    | _ :: t, cur, skip + 1 => go t cur skip
    | s@(c :: t), cur, 0 =>
      if !sep.isEmpty && sep.isPrefixOf s then cur.reverse :: go t [] (sep.length - 1)
      else go t (c :: cur) 0

/-- the display loop of `Ints` / `Unique` for slices: `if valStr == "[" { valStr += v } else { valStr += sep + v }`
(leading empty renderings therefore get no separator) -/
def bracketJoin (sep : Bytes) (parts : List Bytes) : Bytes :=
  parts.foldl (fun acc v => if acc == [91] then acc ++ v else acc ++ sep ++ v) [91] ++ [93]

def ruleInts (ext : Ext) (validName obj field : Bytes) (tv : GoVal) : M Bytes := do
  let (_, split0, cusMsg) := parseValidNameKV validName
  let split1 := Bytes.trimByte QUOTE split0
  let split := if split1.isEmpty then [COMMA] else split1
  match tv with
  | .str s =>
    let ok := (splitOn split s).all Lang.intRe
    if ok then return []
    return violClause obj field s cusMsg [b! "it is not separated by \"" ++ split ++ b! "\" num"]
  | .slice _ _ _ es | .array _ _ es =>
    let parts ← es.toList.mapM (toStrIface ext)
    let ok := parts.all Lang.intRe
    let valStr := bracketJoin (b! ", ") parts
    if ok then return []
    return violClause obj field valStr cusMsg [b! "slice/array element is not all num"]
  | v =>
    if isIntKind v then return []
    return getJoinFieldErr obj field intsErr

def ruleFloat (ext : Ext) (validName obj field : Bytes) (tv : GoVal) : M Bytes := do
  let (_, _, cusMsg) := parseValidNameKV validName
  match tv with
  | .str s => if Lang.floatRe s then return [] else return violClause obj field s cusMsg [b! "it is not float"]
  | .float _ _ _ _ => return []
  | v =>
    let vs ← toStrIface ext v
    return violClause obj field vs cusMsg [b! "it is not float"]

def allDistinct : List Bytes → Bool
  | [] => true
  | x :: xs => !xs.contains x && allDistinct xs

def ruleUnique (ext : Ext) (validName obj field : Bytes) (tv : GoVal) : M Bytes := do
  let (_, _, cusMsg) := parseValidNameKV validName
  match tv with
  | .str s =>
    if allDistinct (Bytes.splitByte COMMA s) then return []
    return violClause obj field s cusMsg [b! "they're not unique"]
  | .slice _ _ _ es | .array _ _ es =>
    let parts ← es.toList.mapM (toStrIface ext)
    let inVal := bracketJoin [COMMA] parts
    if allDistinct parts then return []
    return violClause obj field inVal cusMsg [b! "they're not unique"]
  | _ => return getJoinFieldErr obj field uniqueErr

/-! ### `json`, `prefix`, `suffix`, `file`, `dir` -/

/-- `StrEscape` -/
def strEscape (s : Bytes) : Bytes :=
  s.flatMap fun c =>
    if c == 39 then [92, 39] else if c == 34 then [92, 34] else if c == 0 then [92, 48]
    else if c == 10 then [92, 110] else if c == 13 then [92, 114] else if c == 9 then [92, 116]
    else if c == 26 then [92, 90] else if c == 92 then [92, 92] else [c]

def ruleJson (ext : Ext) (validName obj field : Bytes) (tv : GoVal) : M Bytes := do
  match checkFieldIsStr obj field tv with
  | some e => return e
  | none =>
    let s := match tv with | .str s => s | _ => []
    let a ← askExt ext (.jsonvalid s)
    if a.code == 1 then return []
    let shown := strEscape (if s.length > 256 then b! "more than 256 byte(it is ignore)" else s)
    let (_, _, cusMsg) := parseValidNameKV validName
    return violClause obj field shown cusMsg [b! "it is not json"]

def rulePrefix (v o f : Bytes) (tv : GoVal) (isPrefix : Bool) : M Bytes :=
  let (_, p, _) := parseValidNameKV v
  strRule v o f tv (fun s => pure (if isPrefix then Bytes.hasPrefix s p else Bytes.hasSuffix s p))
    (if isPrefix then b! "prefix is not ok" else b! "suffix is not ok")

def ruleFileDir (ext : Ext) (validName obj field : Bytes) (tv : GoVal) (wantDir : Bool) : M Bytes := do
  match checkFieldIsStr obj field tv with
  | some e => return e
  | none =>
    let s := match tv with | .str s => s | _ => []
    let a ← askExt ext (.stat s)
    let (_, _, cusMsg) := parseValidNameKV validName
    if a.code == 2 then
      -- the path cannot be examined: custom message if given, else the stat error
      if !cusMsg.isEmpty then return getJoinValidErrStr obj field s [cusMsg]
      return getJoinValidErrStr obj field s [a.text]
    let isDir := a.code == 1
    if isDir == wantDir then return []
    return violClause obj field s cusMsg [if wantDir then b! "it is not dir" else b! "it is not file"]

/-! ## the global rule table `validName2FnMap` -/

inductive Builtin where
  | structural      -- required / exist / either / botheq: `nil` in the table
  | fn (run : Ext → Bytes → Bytes → Bytes → GoVal → M Bytes)

/-- `validName2FnMap` of `init.go` (a map literal: rule name ↦ function, `nil` for the four rules
the walkers implement themselves) -/
def builtinTable : List (Bytes × Builtin) := [
  (requiredB, .structural), (existB, .structural), (eitherB, .structural), (bothEqB, .structural),
  (b! "to", .fn fun e v o f tv => ruleTo e v o f tv true),
  (b! "oto", .fn fun e v o f tv => ruleTo e v o f tv false),
  (b! "ge", .fn fun _ v o f tv => pure (ruleBound v o f tv true true)),
  (b! "gt", .fn fun _ v o f tv => pure (ruleBound v o f tv true false)),
  (b! "le", .fn fun _ v o f tv => pure (ruleBound v o f tv false true)),
  (b! "lt", .fn fun _ v o f tv => pure (ruleBound v o f tv false false)),
  (b! "eq", .fn fun ext v o f tv => ruleEq ext v o f tv true),
  (b! "noeq", .fn fun ext v o f tv => ruleEq ext v o f tv false),
  (b! "in", .fn fun ext v o f tv => ruleIn ext v o f tv),
  (b! "include", .fn fun ext v o f tv => ruleIn ext v o f tv),
  (b! "phone", .fn fun _ v o f tv => rulePhone v o f tv),
  (b! "email", .fn fun _ v o f tv => ruleEmail v o f tv),
  (b! "idcard", .fn fun _ v o f tv => ruleIDCard v o f tv),
  (b! "year", .fn ruleYear),
  (b! "year2month", .fn ruleYear2Month),
  (b! "date", .fn ruleDate),
  (b! "datetime", .fn ruleDatetime),
  (b! "int", .fn fun ext v o f tv => ruleInt ext v o f tv),
  (b! "ints", .fn fun ext v o f tv => ruleInts ext v o f tv),
  (b! "float", .fn fun ext v o f tv => ruleFloat ext v o f tv),
  (b! "re", .fn ruleRe),
  (b! "ip", .fn fun e v o f tv => ruleIp e v o f tv 0),
  (b! "ipv4", .fn fun e v o f tv => ruleIp e v o f tv 1),
  (b! "ipv6", .fn fun e v o f tv => ruleIp e v o f tv 2),
  (b! "unique", .fn fun ext v o f tv => ruleUnique ext v o f tv),
  (b! "json", .fn ruleJson),
  (b! "prefix", .fn fun _ v o f tv => rulePrefix v o f tv true),
  (b! "suffix", .fn fun _ v o f tv => rulePrefix v o f tv false),
  (b! "file", .fn fun e v o f tv => ruleFileDir e v o f tv false),
  (b! "dir", .fn fun e v o f tv => ruleFileDir e v o f tv true)]

def builtin (key : Bytes) : Option Builtin := builtinTable.lookup key

end PGV.Model
