import PGV.Basic

/-!
# `time.Parse(layout, v)` followed by `t.Format(layout) == v`, for the layouts `GetTimeFmt` builds

`parseTimeStrict` (valid/validfn.go) is the whole decision of the four date rules.  This file is a
transcription of the parts of Go 1.23's `time/format.go` that such a call runs through:
`nextStdChunk` (the layout scanner), `skip` / `cutspace` (literal text, runs of blanks),
`getnum`, the cases `stdLongYear`, `stdZeroMonth`, `stdZeroDay`, `stdHour`, `stdZeroMinute`,
`stdZeroSecond` (with its "fractional second in the input but not in the layout" special case) of
`parse`, the final day-of-month validation, and the same cases of `appendFormat` / `appendInt`.

It is *partial on purpose*: as soon as the scanner meets any other layout element (`Jan`, `Mon`, `MST`,
`1`, `2`, `_2`, `3`, `4`, `5`, `03`, `06`, `002`, `PM`, `-07…`, `Z07…`, `.000`, …) the answer is
`none` and the caller falls back to the residual question put to the standard library.  So the
transcription decides exactly the layouts whose every element is one of the six above.

Assumption recorded in the trusted base: for in-range fields `time.Date(y, m, d, h, mi, s, ns, UTC)`
followed by `Format` renders those same fields (calendar arithmetic of the standard library).
-/

namespace PGV.Model.TimeParse

open PGV

inductive Std | longYear | zeroMonth | zeroDay | hour | zeroMinute | zeroSecond
  deriving DecidableEq, Repr

/-- what `nextStdChunk` finds at one position of the layout -/
inductive At
  | std (k : Std) (suffix : Bytes)   -- one of the six elements, and the layout behind it
  | other                            -- a layout element this file does not transcribe
  | lit                              -- a plain byte

inductive Chunk
  | std (pre : Bytes) (k : Std) (suffix : Bytes)
  | done (pre : Bytes)               -- `std == 0`: the rest of the layout is literal text
  | unsupported

def isDigit (c : UInt8) : Bool := 48 ≤ c && c ≤ 57

/-- one iteration of the `switch` in `nextStdChunk`; `c :: r` is `layout[i:]` -/
def classify (c : UInt8) (r : Bytes) : At :=
  if c == 48 then                                  -- '0': 01 … 06, 002
    match r with
    | 49 :: r' => .std .zeroMonth r'
    | 50 :: r' => .std .zeroDay r'
    | 51 :: _ => .other
    | 52 :: r' => .std .zeroMinute r'
    | 53 :: r' => .std .zeroSecond r'
    | 54 :: _ => .other
    | 48 :: 50 :: _ => .other
    | _ => .lit
  else if c == 49 then                             -- '1': 15, 1
    match r with
    | 53 :: r' => .std .hour r'
    | _ => .other
  else if c == 50 then                             -- '2': 2006, 2
    match r with
    | 48 :: 48 :: 54 :: r' => .std .longYear r'
    | _ => .other
  else if c == 95 then                             -- '_': _2, _2006, __2
    match r with
    | 50 :: _ => .other
    | 95 :: 50 :: _ => .other
    | _ => .lit
  else if c == 51 || c == 52 || c == 53 then .other  -- 3 4 5
  else if c == 74 || c == 77 || c == 80 || c == 112 || c == 90 then .other  -- J M P p Z (conservative)
  else if c == 45 then                             -- '-': -07…
    match r with
    | 48 :: 55 :: _ => .other
    | _ => .lit
  else if c == 46 || c == 44 then                  -- '.' ',' followed by a run of 0s or 9s and no further digit
    match r with
    | ch :: _ =>
      if ch == 48 || ch == 57 then
        match r.dropWhile (· == ch) with
        | d :: _ => if isDigit d then .lit else .other
        | [] => .other
      else .lit
    | [] => .lit
  else .lit

/-- `nextStdChunk(layout)`; `pre` accumulates `layout[0:i]` -/
def nextStd (pre : Bytes) : Bytes → Chunk
  | [] => .done pre
  | c :: r =>
    match classify c r with
    | .std k suffix => .std pre k suffix
    | .other => .unsupported
    | .lit => nextStd (pre ++ [c]) r

def cutspace (s : Bytes) : Bytes := s.dropWhile (· == 32)

/-- `skip(value, prefix)`: `none` = `errBad`.  Fuel: the prefix gets shorter in every round. -/
def skip : Nat → Bytes → Bytes → Option Bytes
  | _, value, [] => some value
  | 0, _, _ :: _ => none
  | fuel + 1, value, p :: ps =>
    if p == 32 then
      match value with
      | v :: _ => if v != 32 then none else skip fuel (cutspace value) (cutspace (p :: ps))
      | [] => skip fuel (cutspace value) (cutspace (p :: ps))
    else
      match value with
      | v :: vs => if v != p then none else skip fuel vs ps
      | [] => none

def dval (c : UInt8) : Nat := c.toNat - 48

/-- `getnum(s, fixed)` -/
def getnum (s : Bytes) (fixed : Bool) : Option (Nat × Bytes) :=
  match s with
  | a :: c :: r =>
    if !isDigit a then none
    else if !isDigit c then (if fixed then none else some (dval a, c :: r))
    else some (dval a * 10 + dval c, r)
  | [a] => if !isDigit a then none else if fixed then none else some (dval a, [])
  | [] => none

def num4 (a c d e : UInt8) : Nat := ((dval a * 10 + dval c) * 10 + dval d) * 10 + dval e

/-- the `switch std & stdMask` of `parse` for one element: the number read and the rest of the value;
`none` = `errBad` or a range error -/
def readStd (k : Std) (v : Bytes) : Option (Nat × Bytes) :=
  match k with
  | .longYear =>
    match v with
    | a :: c :: d :: e :: r => if isDigit a && isDigit c && isDigit d && isDigit e then some (num4 a c d e, r) else none
    | _ => none
  | .zeroMonth => (getnum v true).bind fun (n, r) => if n == 0 || 12 < n then none else some (n, r)
  | .zeroDay => getnum v true
  | .hour => (getnum v false).bind fun (n, r) => if 24 ≤ n then none else some (n, r)
  | .zeroMinute => (getnum v true).bind fun (n, r) => if 60 ≤ n then none else some (n, r)
  | .zeroSecond => (getnum v true).bind fun (n, r) => if 60 ≤ n then none else some (n, r)

/-- after the seconds: a fraction in the input that the layout does not ask for is read and dropped.
Outer `none`: the layout behind is not transcribed. -/
def fracSkip (suffix v : Bytes) : Option Bytes :=
  match v with
  | c :: d :: r =>
    if (c == 46 || c == 44) && isDigit d then
      match nextStd [] suffix with
      | .unsupported => none
      | _ => some (r.dropWhile isDigit)
    else some v
  | _ => some v

/-- the fields read so far (`month = -1`, `day = -1` initially: `none`) -/
structure Tm where
  year : Nat := 0
  month : Option Nat := none
  day : Option Nat := none
  hour : Nat := 0
  min : Nat := 0
  sec : Nat := 0
  deriving DecidableEq, Repr

def Tm.set (t : Tm) : Std → Nat → Tm
  | .longYear, n => { t with year := n }
  | .zeroMonth, n => { t with month := some n }
  | .zeroDay, n => { t with day := some n }
  | .hour, n => { t with hour := n }
  | .zeroMinute, n => { t with min := n }
  | .zeroSecond, n => { t with sec := n }

/-- the loop of `parse`.  Outer `none`: not transcribed; inner `none`: a parse error. -/
def parseLoop : Nat → Bytes → Bytes → Tm → Option (Option Tm)
  | 0, _, _, _ => none
  | fuel + 1, layout, value, t =>
    match nextStd [] layout with
    | .unsupported => none
    | .done pre =>
      match skip (pre.length + 1) value pre with
      | none => some none
      | some v => if v.isEmpty then some (some t) else some none   -- "extra text"
    | .std pre k suffix =>
      match skip (pre.length + 1) value pre with
      | none => some none
      | some v =>
        match readStd k v with
        | none => some none
        | some (n, v') =>
          if k == .zeroSecond then
            match fracSkip suffix v' with
            | none => none
            | some v'' => parseLoop fuel suffix v'' (t.set k n)
          else parseLoop fuel suffix v' (t.set k n)

/-- `isLeap` -/
def isLeap (y : Nat) : Bool := y % 4 == 0 && (y % 100 != 0 || y % 400 == 0)

/-- `daysIn(m, year)` for `1 ≤ m ≤ 12` -/
def daysIn (m y : Nat) : Nat :=
  if m == 2 && isLeap y then 29
  else if m == 2 then 28
  else if m == 4 || m == 6 || m == 9 || m == 11 then 30 else 31

/-- the fields `Date(…)` is called with; `none`: "day out of range" -/
def finish (t : Tm) : Option Tm :=
  let month := t.month.getD 1
  let day := t.day.getD 1
  if day < 1 || day > daysIn month t.year then none
  else some { t with month := some month, day := some day }

/-- `appendInt(b, x, width)` on its two fast paths; `none` outside them (never reached from a parsed value) -/
def appendInt (x width : Nat) : Option Bytes :=
  if width == 2 && x < 100 then some [UInt8.ofNat (48 + x / 10), UInt8.ofNat (48 + x % 10)]
  else if width == 4 && x < 10000 then
    some [UInt8.ofNat (48 + x / 1000), UInt8.ofNat (48 + x / 100 % 10), UInt8.ofNat (48 + x / 10 % 10), UInt8.ofNat (48 + x % 10)]
  else none

def Tm.get (t : Tm) : Std → Nat
  | .longYear => t.year
  | .zeroMonth => t.month.getD 1
  | .zeroDay => t.day.getD 1
  | .hour => t.hour
  | .zeroMinute => t.min
  | .zeroSecond => t.sec

def width : Std → Nat
  | .longYear => 4
  | _ => 2

/-- `appendFormat(layout)` for the six elements -/
def formatLoop : Nat → Bytes → Tm → Option Bytes
  | 0, _, _ => none
  | fuel + 1, layout, t =>
    match nextStd [] layout with
    | .unsupported => none
    | .done pre => some pre
    | .std pre k suffix =>
      match appendInt (t.get k) (width k), formatLoop fuel suffix t with
      | some d, some rest => some (pre ++ d ++ rest)
      | _, _ => none

/-- `parseTimeStrict(layout, value)`; `none`: the layout has an element outside the six -/
def parseStrict (layout value : Bytes) : Option Bool :=
  match parseLoop (layout.length + 1) layout value {} with
  | none => none
  | some none => some false
  | some (some t) =>
    match finish t with
    | none => some false
    | some t' => (formatLoop (layout.length + 1) layout t').map (· == value)

end PGV.Model.TimeParse
