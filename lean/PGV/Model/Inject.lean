import PGV.Model.Rules

/-!
# Model of the tag injector (`file/parse.go`, `file/handletag.go`, `file/witre.go`, `main.go`)

Input of the model: the bytes of a file and an `AstSummary` — what `go/parser` reports about it
(declarations, type specs, struct fields with the positions and text of their tag literal and the
texts of their trailing comments).  Positions are `token.Pos` values of a fresh `FileSet`
(offset + 1).  The two regular expressions are transcribed as byte scanners:
`rComment = @tag (.*)` and `rTags = \w+:"[^"]+"`.
-/

namespace PGV.Model.Inject

open PGV PGV.Model

/-! ## `go/parser` facts -/

structure FieldInfo where
  pos : Nat
  end_ : Nat
  /-- tag literal: position, end position, literal text (with its quotes); `none` = the field has no tag -/
  tag : Option (Nat × Nat × Bytes)
  /-- for an interpreted-string literal: `strconv.Unquote(literal)` (`none` = error); unused for raw literals -/
  unquoted : Option Bytes := none
  /-- texts of `field.Comment.List` -/
  comments : List Bytes

inductive SpecInfo where
  | structType (fields : List FieldInfo)
  | otherType
  | notType            -- import / const / var spec

inductive DeclInfo where
  | gen (specs : List SpecInfo)
  | func

structure AstSummary where
  decls : List DeclInfo

/-! ## `handletag.go` -/

structure TagItem where
  key : Bytes
  value : Bytes          -- with its double quotes
deriving Repr, DecidableEq, BEq

abbrev TagItems := List TagItem

/-- `tagItems.format` -/
def format (t : TagItems) : Bytes := Bytes.join [SP] (t.map fun i => i.key ++ [58] ++ i.value)

/-- the inner loop of `override`: the first injected item with this key, and the injected items
without it (`inTags = append(inTags[:dup], inTags[dup+1:]...)`) -/
def takeKey (k : Bytes) : TagItems → Option (TagItem × TagItems)
  | [] => none
  | i :: rest =>
    if i.key == k then some (i, rest)
    else (takeKey k rest).map fun (x, r) => (x, i :: r)

/-- `tagItems.override(inTags)` -/
def override : TagItems → TagItems → TagItems
  | [], inj => inj
  | t :: rest, inj =>
    match takeKey t.key inj with
    | none => t :: override rest inj
    | some (x, inj') => x :: override rest inj'

def isWord (c : UInt8) : Bool := Lang.isWord c

/-- one attempt of `\w+:"[^"]+"` at the head of `s`: the matched length -/
def matchTagAt (s : Bytes) : Option Nat :=
  let w := s.takeWhile isWord
  if w.isEmpty then none
  else
    match s.drop w.length with
    | 58 :: 34 :: rest =>
      let v := rest.takeWhile (· != 34)
      if v.isEmpty then none
      else if (rest.drop v.length).head? == some 34 then some (w.length + 2 + v.length + 1)
      else none
    | _ => none

/-- `rTags.FindAllString(tag, -1)`: leftmost non-overlapping matches -/
def findAllTags : Nat → Bytes → List Bytes
  | 0, _ => []
  | _, [] => []
  | fuel + 1, s@(_ :: t) =>
    match matchTagAt s with
    | some n => s.take n :: findAllTags fuel (s.drop n)
    | none => findAllTags fuel t

/-- `newTagItems(tag)` -/
def newTagItems (tag : Bytes) : TagItems :=
  (findAllTags (tag.length + 1) tag).map fun t =>
    match Bytes.indexByte? 58 t with
    | some i => { key := t.take i, value := t.drop (i + 1) }
    | none => { key := t, value := [] }        -- unreachable: every match contains ':'

/-- `tagFromComment`: the text after the first `@tag ` up to the end of that line -/
def tagFromComment (comment : Bytes) : Bytes :=
  match Bytes.indexOf? (b! "@tag ") comment with
  | none => []
  | some i => (comment.drop (i + 5)).takeWhile (· != 10)

/-! ## `parse.go` -/

structure Area where
  start : Nat
  end_ : Nat
  tagStart : Nat
  tagEnd : Nat
  currentTag : Bytes
  injectTag : Bytes
deriving Repr

def fieldAreas (f : FieldInfo) : List Area :=
  f.comments.filterMap fun c =>
    let tag := tagFromComment c
    if tag.isEmpty then none
    else match f.tag with
      | none => none
      | some (tp, te, lit) =>
        -- `currentTag[1 : len(currentTag)-1]`: a tag literal always has its two quote characters
        let inner := (lit.drop 1).take (lit.length - 2)
        let text? : Option Bytes :=
          if lit.head? == some 34 then
            match f.unquoted with
            | some u => if Bytes.hasByte u 96 then none else some u
            | none => none
          else some inner
        text?.map fun text =>
          { start := f.pos, end_ := f.end_, tagStart := tp, tagEnd := te, currentTag := text, injectTag := tag }

/-- `ParseFile` after a successful parse: per generic declaration only its first type spec, and only if
it is a struct type -/
def parseAreas (ast : AstSummary) : List Area :=
  ast.decls.flatMap fun d =>
    match d with
    | .func => []
    | .gen specs =>
      match specs.find? (fun s => match s with | .notType => false | _ => true) with
      | some (.structType fields) => fields.flatMap fieldAreas
      | _ => []

/-! ## `witre.go` -/

/-- a `token.Pos` used as `pos-1` in a slice expression: a negative index panics -/
def pos0 (p : Nat) : M Nat := if p = 0 then throw (.panic "slice bounds out of range") else pure (p - 1)

/-- `injectTag(contents, area)` -/
def injectTag (contents : Bytes) (a : Area) : M Bytes := do
  let final := override (newTagItems a.currentTag) (newTagItems a.injectTag)
  let s ← pos0 a.tagStart
  let pre ← sliceM contents 0 s
  let e ← pos0 a.tagEnd
  let post ← sliceM contents e contents.length
  pure (pre ++ [96] ++ format final ++ [96] ++ post)

/-- the loop of `WriteFile`: areas applied from the last to the first (the log line slices
`contents[area.Start-1:area.End-1]` first) -/
def writeAreas (contents : Bytes) : List Area → M Bytes
  | [] => pure contents
  | a :: rest => do
    let s ← pos0 a.start
    let e ← pos0 a.end_
    let _ ← sliceM contents s e
    let c ← injectTag contents a
    writeAreas c rest

def writeFile (contents : Bytes) (areas : List Area) : M Bytes := writeAreas contents areas.reverse

/-! ## `main.go` -/

structure FileIn where
  name : Bytes
  contents : Bytes
  /-- `none`: `go/parser` rejects the file -/
  ast : Option AstSummary

/-- `handleFile`: the bytes of the file afterwards -/
def handleFile (f : FileIn) : M Bytes :=
  if !Bytes.hasSuffix f.name (b! ".go") then pure f.contents
  else match f.ast with
    | none => pure f.contents
    | some ast => writeFile f.contents (parseAreas ast)

/-- `handleDir` / `handlePatternFiles`: every file on its own (a panic ends the process: the
remaining files stay as they are) -/
def handleFiles : List FileIn → List (M Bytes)
  | [] => []
  | f :: rest =>
    match handleFile f with
    | .error e => .error e :: rest.map fun r => pure r.contents
    | .ok c => .ok c :: handleFiles rest

end PGV.Model.Inject
