import PGV.Basic
import PGV.Model.Utf8

/-!
# Model of the rule-text layer: `valid/common.go`, `valid/rule.go`, `valid/internal/stack.go`

`ParseValidNameKV`, `ValidNamesSplit` (fast path + the byte loop with quote flag and byte stack),
`GenValidKV`, `RM.Set` / `RM.Get`.  Shaped like the code; where Go would panic the model returns
`none`.
-/

namespace PGV.Model

open PGV

def QUOTE : UInt8 := 39  -- '\''
def COMMA : UInt8 := 44
def EQ : UInt8 := 61
def BAR : UInt8 := 124
def SP : UInt8 := 32

/-- `ExplainEn = "explain:"` -/
def explainEn : Bytes := [101, 120, 112, 108, 97, 105, 110, 58]
/-- `ExplainZh = "说明:"` -/
def explainZh : Bytes := [0xE8, 0xAF, 0xB4, 0xE6, 0x98, 0x8E, 58]
/-- `ErrEndFlag = "; "` -/
def errEndFlag : Bytes := [59, 32]

/-- the label `ParseValidNameKV` puts in front of a custom message -/
def labelMsg (msg : Bytes) : Bytes :=
  (if hasCJK msg then explainZh else explainEn) ++ [SP] ++ msg

/-- `ParseValidNameKV`: (key, value, cusMsg) -/
def parseValidNameKV (s : Bytes) : Bytes × Bytes × Bytes :=
  let eqIdx := Bytes.indexByte? EQ s
  let barIdx := Bytes.indexByte? BAR s
  -- no "=", or the first "|" comes before the first "=" (then the "=" belongs to the message)
  let noValue : Bool := match eqIdx, barIdx with
    | none, _ => true
    | some e, some bi => bi < e
    | some _, none => false
  if noValue then
    match barIdx with
    | some bi =>
      if s.length - 1 ≥ bi + 1 ∧ s.length ≥ 1 then
        (s.take bi, [], labelMsg (s.drop (bi + 1)))
      else (s, [], [])
    | none => (s, [], [])
  else
    match eqIdx with
    | none => (s, [], [])  -- unreachable
    | some e =>
      let key := s.take e
      let value := s.drop (e + 1)
      match Bytes.indexByte? BAR value with
      | some bi =>
        if value.length - 1 ≥ bi + 1 ∧ value.length ≥ 1 then
          (key, value.take bi, labelMsg (value.drop (bi + 1)))
        else (key, value, [])
      | none => (key, value, [])

/-! ### `internal.stackByte` as written -/

def stackPop (st : Bytes) : Bytes :=
  if st.length ≥ 2 then st.take (st.length - 2)   -- sic: drops two when it holds more than one
  else []

def stackLast (st : Bytes) : UInt8 :=
  match st.getLast? with
  | some x => x
  | none => SP

structure SplitSt where
  tmp : Bytes := []
  res : List Bytes := []
  inQ : Bool := false
  stack : Bytes := []
deriving Repr

/-- body of the slow-path loop of `ValidNamesSplit` -/
def splitStep (sep : UInt8) (s : SplitSt) (v : UInt8) : SplitSt :=
  let tmp1 := if !s.inQ && v != sep then s.tmp ++ [v] else if s.inQ then s.tmp ++ [v] else s.tmp
  if !s.inQ && v == QUOTE then { s with tmp := tmp1, stack := s.stack ++ [v], inQ := true }
  else if s.inQ && stackLast s.stack == v then { s with tmp := tmp1, stack := stackPop s.stack, inQ := false }
  else if v == sep && s.stack.isEmpty then { s with tmp := [], res := s.res ++ [tmp1] }
  else { s with tmp := tmp1 }

def splitSlow (sep : UInt8) (s : Bytes) : List Bytes :=
  let st := s.foldl (splitStep sep) {}
  if st.tmp.isEmpty then st.res else st.res ++ [st.tmp]

/-- `ValidNamesSplit(s, sep)` -/
def validNamesSplit (s : Bytes) (sep : UInt8 := COMMA) : List Bytes :=
  if s.isEmpty then []
  else if !Bytes.hasByte s QUOTE then Bytes.splitByte sep s
  else splitSlow sep s

/-! ### `GenValidKV` -/

def vIn : Bytes := [105, 110]
def vInclude : Bytes := [105, 110, 99, 108, 117, 100, 101]
def vRe : Bytes := [114, 101]

/-- `GenValidKV(key, values...)`; only `values[0]`, `values[1]` are used -/
def genValidKV (key : Bytes) (values : List Bytes) : Bytes :=
  match values with
  | [] => key
  | v0 :: rest =>
    let valPart : Bytes :=
      match v0 with
      | [] => []
      | c0 :: _ =>
        let eqPart : Bytes := if c0 != EQ then [EQ] else []
        let body : Bytes :=
          if key == vIn || key == vInclude then [40] ++ v0 ++ [41]
          else if key == vRe then
            if v0.length > 1 && (c0 == QUOTE || v0[1]? == some QUOTE) then v0
            else [QUOTE] ++ v0 ++ [QUOTE]
          else v0
        eqPart ++ body
    let msgPart : Bytes := match rest with
      | [] => []
      | m :: _ => [BAR] ++ m
    key ++ valPart ++ msgPart

/-! ### `RM` as an association list (Go map; iteration order is never observed by `Get`) -/

abbrev RM := List (Bytes × Bytes)

def rmGet (r : RM) (field : Bytes) : Bytes :=
  if r.isEmpty || field.isEmpty then []
  else match r.lookup field with
    | some v => v
    | none => []

def rmSet1 (r : RM) (field : Bytes) (joined : Bytes) : RM :=
  match r.lookup field with
  | some old => r.map fun (k, v) => if k == field then (k, old ++ [COMMA] ++ joined) else (k, v)
  | none => r ++ [(field, joined)]

/-- `RM.Set(fieldNames, rules...)` -/
def rmSet (r : RM) (fieldNames : Bytes) (rules : List Bytes) : RM :=
  (Bytes.splitByte COMMA fieldNames).foldl (fun r f => rmSet1 r f (Bytes.join [COMMA] rules)) r

/-- the whole pipeline the documentation describes: `GenValidKV` per rule, `RM.Set(field, …)`,
`RM.Get(field)`, `ValidNamesSplit`, `ParseValidNameKV` per piece -/
def roundTrip (calls : List (Bytes × List Bytes)) : List (Bytes × Bytes × Bytes) :=
  let texts := calls.map fun (k, args) => genValidKV k args
  let rm := rmSet [] [70] texts
  (validNamesSplit (rmGet rm [70])).map parseValidNameKV

end PGV.Model
