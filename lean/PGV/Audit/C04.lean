import PGV.Props.C04

#print axioms PGV.Props.C04.C04_unmarked_never
#print axioms PGV.Props.C04.C04_marked_field
#print axioms PGV.Props.C04.C04_nil_silent
#print axioms PGV.Props.C04.C04_through_pointer
#print axioms PGV.Props.C04.C04_struct_named_by_path
#print axioms PGV.Props.C04.C04_name_nested
#print axioms PGV.Props.C04.C04_element_paths
#print axioms PGV.Props.C04.C04_scalar_element_silent
#print axioms PGV.Props.C04.C04_descend_struct
#print axioms PGV.Props.C04.C04_zero_struct_silent
#print axioms PGV.Props.C04.C04_nil_collection_silent
#print axioms PGV.Props.C04.C04_descend_slice
#print axioms PGV.Props.C04.C04_descend_ptr
#print axioms PGV.Props.C04.C04_entry_paths
#print axioms PGV.Props.C04.C04_iface_key_named_by_value
#print axioms PGV.Props.C04.C04_both_colliding_entries_visited
