import PGV.Props.C12

#print axioms PGV.Props.C12.C12_pool_adversarial
#print axioms PGV.Props.C12.C12_returns_clean
#print axioms PGV.Props.C12.C12_history_independent
#print axioms PGV.Props.C12.C12_writes_independent_of_buffer
#print axioms PGV.Props.C12.C12_pool_inv_init
#print axioms PGV.Props.C12.C12_no_aliasing
