import PGV.Props.C16

#print axioms PGV.Props.C16.C16_outermost_rule_set
#print axioms PGV.Props.C16.C16_nested_rule_set
#print axioms PGV.Props.C16.C16_effective_rule
#print axioms PGV.Props.C16.C16_unmentioned_keeps_tag
#print axioms PGV.Props.C16.C16_fn_per_call_first
#print axioms PGV.Props.C16.C16_fn_global_second
#print axioms PGV.Props.C16.C16_fn_builtin_last
#print axioms PGV.Props.C16.C16_unknown_continues
#print axioms PGV.Props.C16.C16_type_marker_not_printed
#print axioms PGV.Props.C16.C16_look_alike_types_distinct
#print axioms PGV.Props.C16.C16_setrule_last_wins
#print axioms PGV.Props.C16.C16_setrule_other_key
#print axioms PGV.Props.C16.C16_setrule_order_indep
#print axioms PGV.Props.C16.C16_rule_table
