import PGV.Props.C01

#print axioms PGV.Props.C01.C01_bound_verdict
#print axioms PGV.Props.C01.C01_range_verdict
#print axioms PGV.Props.C01.C01_eq_verdict
#print axioms PGV.Props.C01.C01_verdict
#print axioms PGV.Props.C01.intToBytes_chars
#print axioms PGV.Props.C01.intToBytes_no
#print axioms PGV.Props.C01.boundsText_noBar
#print axioms PGV.Props.C01.parseBounds_boundsText
#print axioms PGV.Props.C01.parse_ruleText
#print axioms PGV.Props.C01.C01_verdict_text
#print axioms PGV.Props.C01.C01_width_signedness_indep
#print axioms PGV.Props.C01.F_C01_e_witness
#print axioms PGV.Props.C01.C01_rule_table
