import PGV.Props.C20

#print axioms PGV.Props.C20.C20_dump_is_print
#print axioms PGV.Props.C20.C20_dump_appends
#print axioms PGV.Props.C20.C20_object
#print axioms PGV.Props.C20.C20_elements
#print axioms PGV.Props.C20.C20_entries
#print axioms PGV.Props.C20.C20_output_parses
#print axioms PGV.Props.C20.C20_parse_print
#print axioms PGV.Props.C20.C20_integers_wellformed
