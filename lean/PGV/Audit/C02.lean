import PGV.Props.C02

#print axioms PGV.Props.C02.C02_nil_iff
#print axioms PGV.Props.C02.C02_no_trailing_separator
#print axioms PGV.Props.C02.C02_struct_rule_runs_and_continues
#print axioms PGV.Props.C02.C02_struct_unknown_one_clause
#print axioms PGV.Props.C02.C02_empty_item_skipped
#print axioms PGV.Props.C02.C02_flat_rule_runs_and_continues
#print axioms PGV.Props.C02.C02_flat_unknown_one_clause
#print axioms PGV.Props.C02.C02_walker_appends
#print axioms PGV.Props.C02.C02_fields_append
#print axioms PGV.Props.C02.C02_flat_rules_append
#print axioms PGV.Props.C02.C02_fields_in_order
#print axioms PGV.Props.C02.C02_elements_in_order
#print axioms PGV.Props.C02.C02_rules_in_order
#print axioms PGV.Props.C02.wst_id
#print axioms PGV.Props.C02.flat_one_step
#print axioms PGV.Props.C02.C02_flat_closed_form
#print axioms PGV.Props.C02.field_one_step
#print axioms PGV.Props.C02.C02_field_closed_form
