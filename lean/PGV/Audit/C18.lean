import PGV.Props.C18

#print axioms PGV.Props.C18.C18_struct_dispatch
#print axioms PGV.Props.C18.C18_flat_dispatch
#print axioms PGV.Props.C18.C18_size_verdict_carrier_indep
#print axioms PGV.Props.C18.C18_verdict_carrier_indep
#print axioms PGV.Props.C18.hexNibble_hexUpper
#print axioms PGV.Props.C18.byte_cases
#print axioms PGV.Props.C18.queryUnescape_plain
#print axioms PGV.Props.C18.queryUnescape_pct
#print axioms PGV.Props.C18.queryUnescape_plus
#print axioms PGV.Props.C18.C18_query_roundtrip
