import PGV.Props.C11

#print axioms PGV.Props.C11.C11_cache_any_interleaving
#print axioms PGV.Props.C11.C11_call_solo_result
#print axioms PGV.Props.C11.C11_pools_any_schedule
#print axioms PGV.Props.C11.C11_globals
#print axioms PGV.Props.C11.C11_cache_locked
