import PGV.Props.C19

#print axioms PGV.Props.C19.C19_non_go_untouched
#print axioms PGV.Props.C19.C19_parse_failure_untouched
#print axioms PGV.Props.C19.C19_no_tag_literal
#print axioms PGV.Props.C19.C19_mention_only
#print axioms PGV.Props.C19.C19_other_decls
#print axioms PGV.Props.C19.C19_no_panic
#print axioms PGV.Props.C19.C19_dir_independent
