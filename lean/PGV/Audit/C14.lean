import PGV.Props.C14

#print axioms PGV.Props.C14.stack_le_one
#print axioms PGV.Props.C14.C14_split_refines
#print axioms PGV.Props.C14.C14_split_noloss
#print axioms PGV.Props.C14.C14_split_empty
#print axioms PGV.Props.C14.C14_split_quoted
#print axioms PGV.Props.C14.C14_roundtrip
#print axioms PGV.Props.C14.C14_split_noloss_all
