import PGV.Props.C17

#print axioms PGV.Props.C17.C17_either_iff
#print axioms PGV.Props.C17.C17_singleton_either
#print axioms PGV.Props.C17.C17_singleton_botheq
#print axioms PGV.Props.C17.deepEq_scalar
#print axioms PGV.Props.C17.mapM_deepEq
#print axioms PGV.Props.C17.C17_botheq_iff
#print axioms PGV.Props.C17.C17_group_same_object
#print axioms PGV.Props.C17.C17_group_complete
#print axioms PGV.Props.C17.dedupKeys_subset
#print axioms PGV.Props.C17.dedupKeys_append
#print axioms PGV.Props.C17.C17_independent_objects
#print axioms PGV.Props.C17.C17_independent_clauses
#print axioms PGV.Props.C17.C17_scope_is_object
