import PGV.Props.C05

#print axioms PGV.Props.C05.C05_int
#print axioms PGV.Props.C05.C05_phone
#print axioms PGV.Props.C05.C05_float
#print axioms PGV.Props.C05.C05_idcard
#print axioms PGV.Props.C05.C05_email
#print axioms PGV.Props.C05.strRule_verdict
#print axioms PGV.Props.C05.C05_verdict_phone
#print axioms PGV.Props.C05.C05_verdict_email
#print axioms PGV.Props.C05.C05_verdict_idcard
#print axioms PGV.Props.C05.C05_verdict_int
#print axioms PGV.Props.C05.C05_verdict_float
#print axioms PGV.Props.C05.C05_accepts_sound
#print axioms PGV.Props.C05.C05_in_canonical_rendering
#print axioms PGV.Props.C05.C05_unique_canonical_rendering
#print axioms PGV.Props.C05.C05_ints_slice
#print axioms PGV.Props.C05.C05_timefmt_year
#print axioms PGV.Props.C05.C05_timefmt_year2month
#print axioms PGV.Props.C05.C05_timefmt_date
#print axioms PGV.Props.C05.C05_timefmt_datetime
#print axioms PGV.Props.C05.C05_date_uses_layout
#print axioms PGV.Props.C05.C05_unique_string
#print axioms PGV.Props.C05.allDistinct_eq_distinct
#print axioms PGV.Props.C05.C05_prefix_suffix
#print axioms PGV.Props.C05.C05_patterns
