import PGV.Props.C03

#print axioms PGV.Props.C03.C03_required_empty_struct
#print axioms PGV.Props.C03.C03_required_supplied_struct
#print axioms PGV.Props.C03.C03_supplied_scalar_no_clause
#print axioms PGV.Props.C03.C03_supplied_ptr_scalar_no_clause
#print axioms PGV.Props.C03.C03_zero_skip_struct_builtin
#print axioms PGV.Props.C03.C03_zero_skip_struct_custom
#print axioms PGV.Props.C03.C03_required_flat
#print axioms PGV.Props.C03.C03_zero_skip_flat_builtin
#print axioms PGV.Props.C03.C03_zero_skip_flat_custom
#print axioms PGV.Props.C03.C03_optional_empty_silent_flat
#print axioms PGV.Props.C03.C03_optional_empty_silent_struct
#print axioms PGV.Props.C03.C03_missing_entry
