import PGV.Props.C09

#print axioms PGV.Props.C09.C09_inv
#print axioms PGV.Props.C09.C09_refines
#print axioms PGV.Props.C09.C09_len_never_sentinel
#print axioms PGV.Props.C09.C09_bound
#print axioms PGV.Props.C09.C09_latest_value
#print axioms PGV.Props.C09.C09_hit_iff
#print axioms PGV.Props.C09.C09_evicts_least_recent
#print axioms PGV.Props.C09.C09_callback_once
