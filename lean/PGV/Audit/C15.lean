import PGV.Props.C15

#print axioms PGV.Props.C15.explainOf_clean
#print axioms PGV.Props.C15.filterMap_congr'
#print axioms PGV.Props.C15.C15_extract
#print axioms PGV.Props.C15.C15_extract_total
#print axioms PGV.Props.C15.C15_label_choice
#print axioms PGV.Props.C15.containsSub_prefix
#print axioms PGV.Props.C15.C15_message_verbatim
#print axioms PGV.Props.C15.C15_default_text
