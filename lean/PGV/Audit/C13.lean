import PGV.Props.C13

#print axioms PGV.Props.C13.C13_struct_untyped_nil
#print axioms PGV.Props.C13.C13_struct_typed_nil
#print axioms PGV.Props.C13.C13_var_untyped_nil
#print axioms PGV.Props.C13.C13_var_typed_nil
#print axioms PGV.Props.C13.C13_map_untyped_nil
#print axioms PGV.Props.C13.C13_map_typed_nil
#print axioms PGV.Props.C13.C13_map_not_a_map
#print axioms PGV.Props.C13.C13_map_key_not_string
#print axioms PGV.Props.C13.C13_url_nil_ptr
#print axioms PGV.Props.C13.C13_url_not_string
#print axioms PGV.Props.C13.C13_nil_element
#print axioms PGV.Props.C13.C13_total_struct
#print axioms PGV.Props.C13.C13_total_var
#print axioms PGV.Props.C13.C13_total_map
#print axioms PGV.Props.C13.C13_total_url
#print axioms PGV.Props.C13.C13_total_rules
