import PGV.Props.C07

#print axioms PGV.Props.C07.C07_merge_idem
#print axioms PGV.Props.C07.C07_file_idem
#print axioms PGV.Props.C07.C07_iterate
#print axioms PGV.Props.C07.C07_rereads
#print axioms PGV.Props.C07.C07_file_idempotent
#print axioms PGV.Props.C07.C07_any_number_of_runs
#print axioms PGV.Props.C07.C07_no_annotation_identity
