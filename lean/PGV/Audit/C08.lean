import PGV.Props.C08

#print axioms PGV.Props.C08.getST_coherent
#print axioms PGV.Props.C08.C08_call_transparent
#print axioms PGV.Props.C08.C08_history_from
#print axioms PGV.Props.C08.C08_history
#print axioms PGV.Props.C08.C08_cache_independent
#print axioms PGV.Props.C08.lru_load_eq
