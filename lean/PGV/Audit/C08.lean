import PGV.Props.C08
import PGV.Props.Facts

#print axioms PGV.Props.C08.getST_coherent
#print axioms PGV.Props.C08.C08_call_transparent
#print axioms PGV.Props.C08.C08_history_from
#print axioms PGV.Props.C08.C08_history
#print axioms PGV.Props.C08.C08_cache_independent
#print axioms PGV.Props.C08.lru_load_eq
#print axioms PGV.Props.Facts.T2_patterns
#print axioms PGV.Props.Facts.T2_rule_table
#print axioms PGV.Props.Facts.T2_model_keys
#print axioms PGV.Props.Facts.T2_lock_discipline
#print axioms PGV.Props.Facts.T2_globals
