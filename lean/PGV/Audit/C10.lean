import PGV.Props.C10

#print axioms PGV.Props.C10.C10_linearizable
#print axioms PGV.Props.C10.C10_state_is_sequential
#print axioms PGV.Props.C10.C10_returned_linearized
#print axioms PGV.Props.C10.C10_real_time
#print axioms PGV.Props.C10.C10_lock_discipline
