import PGV.Props.C06

#print axioms PGV.Props.C06.C06_override_is_merge
#print axioms PGV.Props.C06.C06_merge_lookup_new
#print axioms PGV.Props.C06.C06_merge_keeps_old
#print axioms PGV.Props.C06.C06_merge_appends
#print axioms PGV.Props.C06.C06_merge_nodup
#print axioms PGV.Props.C06.C06_file
#print axioms PGV.Props.C06.C06_outside_unchanged
