import PGV.Driver.Common
import PGV.Spec.Explain

/-! Ops `explain-c` (a clause list) and `explain-raw` (an error string) for `GetOnlyExplainErr`. -/

namespace PGV.Driver.C15

open PGV PGV.Driver PGV.Model PGV.Spec.Explain

def clause? : Sexp → Option Clause
  | .node "lab" [pre, zh, expl] => do pure (.labelled (← asBytes? pre) ((← asNat? zh) != 0) (← asBytes? expl))
  | .node "plain" [t] => do pure (.plain (← asBytes? t))
  | _ => none

def handle (op : String) (args : List Sexp) (impl : List Sexp) : Option Reply :=
  match op, impl with
  | "explain-c", [.bytes out] => do
    let cs ← args.mapM clause?
    let m := getOnlyExplainErr (render cs)
    let clean := cs.all Clause.clean
    pure { model := .bytes m, agree := out == m, spec := some (out == extract cs),
           scope := if clean then "in" else "out:clause-contains-separator-or-foreign-label" }
  | "explain-raw", [.bytes out] =>
    match args with
    | [.bytes e] =>
      let m := getOnlyExplainErr e
      some { model := .bytes m, agree := out == m, spec := none }
    | _ => none
  | "explain-c", [.node "panic" _] => some { model := .atom "no-panic", agree := false, spec := some false }
  | "explain-raw", [.node "panic" _] => some { model := .atom "no-panic", agree := false, spec := some false }
  | _, _ => none

end PGV.Driver.C15
