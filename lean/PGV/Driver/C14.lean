import PGV.Driver.Common
import PGV.Model.RuleText
import PGV.Spec.RuleText

namespace PGV.Driver.C14

open PGV PGV.Driver PGV.Model PGV.Spec

def triple (t : Bytes × Bytes × Bytes) : Sexp := .node "l" [.bytes t.1, .bytes t.2.1, .bytes t.2.2]

def rule? : Sexp → Option Rule
  | .node "r" [k, v, m] => do
    let k ← asBytes? k
    let v ← asOptBytes? v
    let m ← asOptBytes? m
    pure { key := k, value := v, msg := m }
  | _ => none

/-- the model pipeline of the round trip: builder → RM.Set → RM.Get → splitter → parser -/
def roundTripModel (rules : List Rule) : List (Bytes × Bytes × Bytes) :=
  roundTrip (rules.map fun r => (r.key, r.genArgs))

def handle (op : String) (args : List Sexp) (impl : List Sexp) : Option Reply :=
  match op, args, impl with
  | "split", [s, sep], [out] => do
    let s ← asBytes? s
    let sep ← asNat? sep
    let out ← asBytesList? out
    let sep8 := UInt8.ofNat sep
    let m := validNamesSplit s sep8
    pure { model := Sexp.ofBytesList m, agree := m == out,
           spec := some (splitOk s sep8 out && noLoss s sep8 out || (s.isEmpty && out.isEmpty)),
           scope := if sep8 == QUOTE then "out:sep-is-quote" else "in" }
  | "parse", [s], [out] => do
    let s ← asBytes? s
    let m := triple (parseValidNameKV s)
    pure { model := m, agree := m == out, spec := none }
  | "gen", key :: vals, [out] => do
    let key ← asBytes? key
    let vals ← vals.mapM asBytes?
    let out ← asBytes? out
    let m := genValidKV key vals
    pure { model := .bytes m, agree := m == out, spec := none }
  | "rmset", [ops, field], [out] => do
    -- ops: (l (s xNames (l xRule…))…); result of Get(field) after all Sets
    let field ← asBytes? field
    let out ← asBytes? out
    let sets ← match ops with
      | .node "l" xs => xs.mapM fun x => match x with
        | .node "s" [names, rules] => do pure ((← asBytes? names), (← asBytesList? rules))
        | _ => none
      | _ => none
    let rm := sets.foldl (fun rm (names, rules) => rmSet rm names rules) ([] : RM)
    let m := rmGet rm field
    pure { model := .bytes m, agree := m == out, spec := none }
  | "rt", [rules], [out] => do
    let rules ← match rules with
      | .node "l" xs => xs.mapM rule?
      | _ => none
    let m := Sexp.node "l" ((roundTripModel rules).map triple)
    let expected := Sexp.node "l" (rules.map fun r => triple r.expected)
    let wf := rules.all Rule.wf
    pure { model := m, agree := m == out, spec := some (out == expected),
           scope := if wf then "in" else "out:not-wf-rule" }
  | _, _, _ => none

end PGV.Driver.C14
