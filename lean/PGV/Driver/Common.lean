import PGV.Basic

/-!
# Driver plumbing: one request line in, one reply line out.

Request : `<op> <arg>* | <impl-result>`  (s-expressions; the part after `|` is what the real
implementation returned on the same input, as sent by the Go harness).

Reply   : `M=<model result>\tA=<agree|differ>\tS=<holds|fails|na>\tQ=<in|out:reason|kf:ID>`
* `A` — does the implementation's result equal the model's?
* `S` — does the implementation's result satisfy the *spec* (the property as stated) on this input?
* `Q` — is the input inside the quantifier of the property's theorem (`in`), outside it
  (`out:<why>`), or of the shape of a recorded finding (`kf:<ID>`).
-/

namespace PGV.Driver

open PGV

structure Reply where
  model : Sexp
  agree : Bool
  spec : Option Bool     -- none = no spec statement for this op (pure correspondence op)
  scope : String := "in"

def Reply.render (r : Reply) : String :=
  "M=" ++ r.model.toStr ++ "\tA=" ++ (if r.agree then "agree" else "differ")
    ++ "\tS=" ++ (match r.spec with | none => "na" | some true => "holds" | some false => "fails")
    ++ "\tQ=" ++ r.scope

def badRequest (why : String) : String := "ERR " ++ why

/-- split the top-level s-expressions of a line at the atom `|` -/
def splitAtBar (l : List Sexp) : List Sexp × List Sexp :=
  let rec go (l : List Sexp) (acc : List Sexp) : List Sexp × List Sexp :=
    match l with
    | [] => (acc.reverse, [])
    | Sexp.atom "|" :: rest => (acc.reverse, rest)
    | x :: rest => go rest (x :: acc)
  go l []

def asBytes? : Sexp → Option Bytes
  | .bytes bs => some bs
  | _ => none

def asInt? : Sexp → Option Int
  | .int z => some z
  | _ => none

def asNat? : Sexp → Option Nat
  | .int z => if z ≥ 0 then some z.toNat else none
  | _ => none

def asBytesList? : Sexp → Option (List Bytes)
  | .node "l" args => args.mapM asBytes?
  | _ => none

def asOptBytes? : Sexp → Option (Option Bytes)
  | .atom "nil" => some none
  | .bytes bs => some (some bs)
  | _ => none

instance : BEq Sexp where
  beq a b := a.toStr == b.toStr

end PGV.Driver
