import PGV.Driver.Common
import PGV.Model.Walker

/-! Wire format of Go values, rule maps, residual tables and call configurations. -/

namespace PGV.Driver

open PGV PGV.Model

def asBool? (s : Sexp) : Option Bool := (asNat? s).map (· != 0)

mutual
partial def goVal? : Sexp → Option GoVal
  | .node "str" [s] => do pure (.str (← asBytes? s))
  | .node "bool" [v] => do pure (.bool (← asBool? v))
  | .node "int" [bits, z] => do pure (.int (← asNat? bits) (← asInt? z))
  | .node "uint" [bits, n] => do pure (.uint (← asNat? bits) (← asNat? n))
  | .node "float" [bits, ieee, r64, rOwn] => do
    pure (.float (← asNat? bits) (decodeF64 (← asNat? ieee)) (← asBytes? r64) (← asBytes? rOwn))
  | .node "ptr" [t, .atom "nil"] => do pure (.ptr (← asBytes? t) none)
  | .node "ptr" [t, v] => do pure (.ptr (← asBytes? t) (some (← goVal? v)))
  | .node "iface" [.bytes t, .atom "nil"] => some (.iface t none)
  | .node "iface" [.bytes t, v] => do pure (.iface t (some (← goVal? v)))
  | .node "slice" (t :: e :: n :: vs) => do
    pure (.slice (← asBytes? t) (← asBytes? e) (← asBool? n) (GoVals.ofList (← vs.mapM goVal?)))
  | .node "array" (t :: e :: vs) => do
    pure (.array (← asBytes? t) (← asBytes? e) (GoVals.ofList (← vs.mapM goVal?)))
  | .node "map" (t :: ks :: n :: es) => do
    let es ← es.mapM fun e => match e with
      | .node "e" [k, v] => do pure ((← goVal? k), (← goVal? v))
      | _ => none
    pure (.map (← asBytes? t) (← asBool? ks) (← asBool? n) (es.foldr (fun (k, v) acc => .cons k v acc) .nil))
  | .node "struct" (t :: n :: tm :: fs) => do
    let fs ← fs.mapM field?
    pure (.struct (← asBytes? t) (← asBytes? n) (← asBool? tm)
      (fs.foldr (fun (nm, ex, tt, tags, v) acc => .cons nm ex tt tags v acc) .nil))
  | .node "other" [k, t, n, z] => do pure (.other (← asNat? k) (← asBytes? t) (← asBytes? n) (← asBool? z))
  | _ => none
partial def field? : Sexp → Option (Bytes × Bool × Bool × List (Bytes × Bytes) × GoVal)
  | .node "f" [nm, ex, tt, .node "tags" tags, v] => do
    let tags ← tags.mapM fun t => match t with
      | .node "t" [k, v] => do pure ((← asBytes? k), (← asBytes? v))
      | _ => none
    pure ((← asBytes? nm), (← asBool? ex), (← asBool? tt), tags, (← goVal? v))
  | _ => none
end

def rm? : Sexp → Option RM
  | .node "rm" kvs => kvs.mapM fun kv => match kv with
    | .node "kv" [k, v] => do pure ((← asBytes? k), (← asBytes? v))
    | _ => none
  | _ => none

def fnList? : Sexp → Option (List (Bytes × Bytes))
  | .node _ fs => fs.mapM fun f => match f with
    | .node "fn" [n, m] => do pure ((← asBytes? n), (← asBytes? m))
    | _ => none
  | _ => none

def extQ? (kind : String) (a c : Bytes) : Option ExtQ :=
  match kind with
  | "regex" => some (.regex a c)
  | "parseip" => some (.parseip a)
  | "jsonvalid" => some (.jsonvalid a)
  | "stat" => some (.stat a)
  | "timeparse" => some (.timeparse a c)
  | "atoierr" => some (.atoierr a)
  | "unescapeerr" => some (.unescapeerr a)
  | "sprint" => some (.sprint a)
  | "deepeq" => some (.deepeq a c)
  | _ => none

def extQSexp : ExtQ → Sexp
  | .regex a c => .node "q" [.atom "regex", .bytes a, .bytes c]
  | .parseip a => .node "q" [.atom "parseip", .bytes a, .bytes []]
  | .jsonvalid a => .node "q" [.atom "jsonvalid", .bytes a, .bytes []]
  | .stat a => .node "q" [.atom "stat", .bytes a, .bytes []]
  | .timeparse a c => .node "q" [.atom "timeparse", .bytes a, .bytes c]
  | .atoierr a => .node "q" [.atom "atoierr", .bytes a, .bytes []]
  | .unescapeerr a => .node "q" [.atom "unescapeerr", .bytes a, .bytes []]
  | .sprint a => .node "q" [.atom "sprint", .bytes a, .bytes []]
  | .deepeq a c => .node "q" [.atom "deepeq", .bytes a, .bytes c]

/-- `(ext (a kind xA xB #code xText)…)` -/
def ext? : Sexp → Option Ext
  | .node "ext" as => do
    let tbl ← as.mapM fun a => match a with
      | .node "a" [.atom kind, x, y, code, text] => do
        pure ((← extQ? kind (← asBytes? x) (← asBytes? y)), ({ code := (← asNat? code), text := (← asBytes? text) } : ExtA))
      | _ => none
    pure fun q => (tbl.find? fun (q', _) => q' == q).map (·.2)
  | _ => none

def src? : Sexp → Option Src
  | .atom "nil" => some .untypedNil
  | .node "val" [t, v] => do pure (.val (← asBytes? t) (← goVal? v))
  | _ => none

/-! ### Go map iteration order is not observable: enumerate entry orders (bounded) -/

partial def perms {α} : List α → List (List α)
  | [] => [[]]
  | l => (List.range l.length).flatMap fun i =>
    match l[i]? with
    | some x => (perms (l.eraseIdx i)).map (x :: ·)
    | none => []

def capList {α} (n : Nat) (l : List α) : List α := l.take n

mutual
/-- all variants of a value obtained by reordering map entries (capped) -/
partial def variants : GoVal → List GoVal
  | .ptr t (some v) => (variants v).map fun v' => .ptr t (some v')
  | .iface t (some v) => (variants v).map fun v' => .iface t (some v')
  | .slice t e n es => (variantsList es.toList).map fun l => .slice t e n (GoVals.ofList l)
  | .array t e es => (variantsList es.toList).map fun l => .array t e (GoVals.ofList l)
  | .map t k n es =>
    let entryVariants : List (List (GoVal × GoVal)) :=
      capList 24 ((es.toList.foldr (fun (k, v) acc =>
        capList 24 ((variants v).flatMap fun v' => acc.map fun rest => (k, v') :: rest)) [[]]))
    let orders := capList 48 (entryVariants.flatMap fun l => if l.length ≤ 4 then perms l else [l, l.reverse])
    orders.map fun l => .map t k n (l.foldr (fun (k, v) acc => .cons k v acc) .nil)
  | .struct t n tm fs => (variantsFields fs).map fun fs' => .struct t n tm fs'
  | v => [v]
partial def variantsList : List GoVal → List (List GoVal)
  | [] => [[]]
  | v :: rest =>
    let rs := variantsList rest
    capList 48 ((variants v).flatMap fun v' => rs.map fun r => v' :: r)
partial def variantsFields : Fields → List Fields
  | .nil => [.nil]
  | .cons nm ex tt tags v rest =>
    let rs := variantsFields rest
    capList 48 ((variants v).flatMap fun v' => rs.map fun r => .cons nm ex tt tags v' r)
end

end PGV.Driver
