import PGV.Driver.Value
import PGV.Spec.Size
import PGV.Spec.Lang

/-! Ops `struct`, `var`, `map`, `url`, `rule`: the validator entry points and single rule functions. -/

namespace PGV.Driver.Walk

open PGV PGV.Driver PGV.Model

inductive Resp where
  | reply (r : Reply)
  | need (q : ExtQ)
  | skip (why : String)

def Resp.render : Resp → String
  | .reply r => r.render
  | .need q => "NEED " ++ (extQSexp q).toStr
  | .skip why => "SKIP " ++ why

def errSexp : Option Bytes → Sexp
  | none => .atom "nil"
  | some e => .bytes e

/-- is `rest` a concatenation of all of `groups` in some order?  (Go map order of the group table) -/
def matchPerm : Nat → Bytes → List Bytes → Bool
  | _, rest, [] => rest.isEmpty
  | 0, _, _ => false
  | fuel + 1, rest, groups =>
    (List.range groups.length).any fun i =>
      match groups[i]? with
      | some g =>
        -- try each distinct candidate once
        !((groups.take i).contains g) && g.isPrefixOf rest && matchPerm fuel (rest.drop g.length) (groups.eraseIdx i)
      | none => false

/-- the main buffer cut at the ghost marks into a tree: literal text, or the entries of one Go map
(any order is allowed) -/
inductive Seg where
  | lit (t : Bytes)
  | perm (sep : Bytes) (entries : List (List Seg))   -- `sep` between consecutive entries

/-- parse `marks` (kind, position) over `buf` starting at position `pos`.  Returns the segments up to
the enclosing close / entry mark (or the end), the mark that stopped it, and the rest. -/
partial def parseSegs (buf : Bytes) (pos : Nat) (marks : List (Nat × Nat)) : List Seg × Nat × Nat × List (Nat × Nat) :=
  -- result: (segments, stopKind (9 = end), position, remaining marks)
  match marks with
  | [] => ([.lit (buf.drop pos)], 9, buf.length, [])
  | (k, p) :: rest =>
    let before : List Seg := if p > pos then [.lit ((buf.take p).drop pos)] else []
    if k == 0 then
      -- a map starts: its entries follow, each introduced by mark 1, closed by mark 2
      let rec entries (pos : Nat) (marks : List (Nat × Nat)) (acc : List (List Seg)) : List (List Seg) × Nat × List (Nat × Nat) :=
        match marks with
        | (1, p1) :: r1 =>
          let (segs, stop, p2, r2) := parseSegs buf p1 r1
          if stop == 1 then entries p2 ((1, p2) :: r2) (acc ++ [segs])
          else (acc ++ [segs], p2, r2)
        | (2, p2) :: r2 => (acc, p2, r2)
        | _ => (acc, pos, [])
      let (es, p2, r2) := entries p rest []
      let (after, stop, p3, r3) := parseSegs buf p2 r2
      (before ++ [.perm [] es] ++ after, stop, p3, r3)
    else (before, k, p, rest)

mutual
/-- all remainders of `target` after matching the segments -/
partial def matchSegs (segs : List Seg) (target : Bytes) : List Bytes :=
  match segs with
  | [] => [target]
  | .lit t :: rest => if t.isPrefixOf target then matchSegs rest (target.drop t.length) else []
  | .perm sep es :: rest => (matchPermSegs sep true es target).flatMap fun r => matchSegs rest r
partial def matchPermSegs (sep : Bytes) (first : Bool) (es : List (List Seg)) (target : Bytes) : List Bytes :=
  match es with
  | [] => [target]
  | _ =>
    let target? : Option Bytes :=
      if first || sep.isEmpty then some target
      else if sep.isPrefixOf target then some (target.drop sep.length) else none
    match target? with
    | none => []
    | some target =>
      ((List.range es.length).flatMap fun i =>
        match es[i]? with
        | some e => (matchSegs e target).flatMap fun r => matchPermSegs sep false (es.eraseIdx i) r
        | none => []).eraseDups
end

/-- does the model allow this error (`none` = nil) for some iteration order of the maps and some
order of the group clauses? -/
def accepts (o : CallOut) (impl : Option Bytes) : Bool :=
  match impl with
  | none => o.main.isEmpty && o.groups.all (·.isEmpty)
  | some e =>
    let all := e ++ errEndFlag
    let (segs, _, _, _) := parseSegs o.main 0 o.marks
    !(o.main.isEmpty && o.groups.isEmpty) &&
      (matchSegs segs all).any fun rest => matchPerm (o.groups.length + 1) rest o.groups

/-- run `f` on every variant (map orders); collect the outcomes -/
def runVariants {α} (vs : List α) (f : α → M CallOut) : Except Stop (List CallOut) := do
  let mut acc : List CallOut := []
  for v in vs do
    let o ← f v
    acc := acc ++ [o]
  pure acc

def implErr? : Sexp → Option (Option Bytes)
  | .atom "nil" => some none
  | .bytes e => some (some e)
  | _ => none

def isPanic : Sexp → Bool
  | .node "panic" _ => true
  | _ => false

def mkResp (res : Except Stop (List CallOut)) (impl : Sexp) (spec : List CallOut → Option Bool := fun _ => none)
    (scope : String := "in") : Resp :=
  match res with
  | .error (.need q) => .need q
  | .error (.unmodelled why) => .skip why
  | .error (.panic why) =>
    .reply { model := .node "panic" [.atom why], agree := isPanic impl, spec := some false, scope := scope }
  | .ok outs =>
    let shown := match outs with | o :: _ => errSexp (o.err o.groups) | [] => .atom "none"
    let agree := match implErr? impl with
      | some e => outs.any fun o => accepts o e
      | none => false
    -- without a probe the statement judged is the whole error string: by the theorems about the
    -- walkers (C02 …) the model's output is what the property demands on this input
    let sp := match spec outs with
      | some v => some v
      | none => some agree
    .reply { model := shown, agree := agree, spec := sp, scope := scope }

/-- `(probe xCarrier xRule <value>)`: the single (rule, value) pair a case is about. Gives the
verdict the property demands (`some true` = violated) and the scope tag. -/
def probeSpec (carrier rule : Bytes) (v : GoVal) : Option Bool × String :=
  let urlCut := carrier == b! "url" && (match v with | .str s => Bytes.hasByte s 38 || Bytes.hasByte s 61 | _ => false)
  let kfScope := if carrier == b! "map-iface" then "kf:F-C03-c" else if urlCut then "kf:F-C18-a" else "in"
  match PGV.Spec.Size.readRule rule with
  | some _ =>
    match PGV.Spec.Size.violated rule v with
    | some verdict =>
      if PGV.Spec.Size.floatBoundBeyond53 rule v then (some verdict, "kf:F-C01-e")
      else (some verdict, kfScope)
    | none => (none, "out:size-rule-on-zero-or-unmeasurable-value")
  | none =>
    -- `required[|msg]`: violated exactly when the value is empty
    let key := match Bytes.indexByte? 124 rule with | some i => rule.take i | none => rule
    if key == requiredB then (some (requiredEmpty v), kfScope)
    else
      -- format / content rules on a non-empty string value: violated exactly when outside the documented language
      match v with
      | .str s =>
        if s.isEmpty then (none, "out:format-rule-on-empty-value")
        else if (PGV.Spec.pieces 44 false rule).length > 1 then (none, "out:rule-text-is-not-one-item")
        else match PGV.Spec.Lang.accepts rule s with
          | some ok => (some (!ok), kfScope)
          | none => (none, "out:no-spec-for-rule")
      | _ => (none, "out:no-spec-for-rule")

def probe? : List Sexp → Option (Option (Bytes × Bytes × GoVal))
  | [] => some none
  | [.node "probe" [c, r, v]] => do pure (some ((← asBytes? c), (← asBytes? r), (← goVal? v)))
  | _ => none

/-- response for a call, with the spec verdict of the probe (if any) judged on the implementation's result -/
def mkRespProbe (res : Except Stop (List CallOut)) (impl : Sexp) (probe : Option (Bytes × Bytes × GoVal)) : Resp :=
  match probe with
  | none => mkResp res impl
  | some (c, r, v) =>
    let (verdict, scope) := probeSpec c r v
    let implViolated := !(impl == Sexp.atom "nil")
    let spec := fun (_ : List CallOut) => verdict.map fun want => !isPanic impl && implViolated == want
    match mkResp res impl spec scope with
    | .reply rp => .reply { rp with spec := if isPanic impl then some false else rp.spec }
    | x => x

def structCfg? (ext : Ext) : Sexp → Option StructCfg
  | .node "cfg" [tag, .node "typed" typed, outer, lf, gf] => do
    let typed ← typed.mapM fun t => match t with
      | .node "t" [ts, rm] => do pure ((← asBytes? ts), (← rm? rm))
      | _ => none
    pure { ext := ext, tag := (← asBytes? tag), typed := typed, outer := (← rm? outer),
           fns := { localFns := (← fnList? lf), globalFns := (← fnList? gf) } }
  | _ => none

def srcVariants : Src → List Src
  | .untypedNil => [.untypedNil]
  | .val t v => (variants v).map fun v' => .val t v'

def handle (op : String) (args : List Sexp) (impl : List Sexp) : Option Resp :=
  match op, args, impl with
  | "struct", cfg :: ext :: src :: pr, [out] => do
    let ext ← ext? ext
    let cfg ← structCfg? ext cfg
    let src ← src? src
    pure (mkRespProbe (runVariants [src] (structValid cfg)) out (← probe? pr))
  | "var", .node "rules" rules :: lf :: gf :: ext :: src :: pr, [out] => do
    let ext ← ext? ext
    let rules ← rules.mapM asBytes?
    let fns : FnTables := { localFns := (← fnList? lf), globalFns := (← fnList? gf) }
    let src ← src? src
    pure (mkRespProbe (runVariants [src] (varValid ext fns rules)) out (← probe? pr))
  | "map", rm :: lf :: gf :: ext :: src :: pr, [out] => do
    let ext ← ext? ext
    let rm ← rm? rm
    let fns : FnTables := { localFns := (← fnList? lf), globalFns := (← fnList? gf) }
    let src ← src? src
    pure (mkRespProbe (runVariants (srcVariants src) (mapValid ext fns rm)) out (← probe? pr))
  | "url", rm :: lf :: gf :: ext :: src :: pr, [out] => do
    let ext ← ext? ext
    let rm ← rm? rm
    let fns : FnTables := { localFns := (← fnList? lf), globalFns := (← fnList? gf) }
    let src ← match src with
      | .atom "nil" => some UrlSrc.untypedNil
      | .atom "nilptr" => some UrlSrc.nilPtr
      | .atom "notstring" => some UrlSrc.notString
      | .bytes s => some (UrlSrc.str s)
      | _ => none
    pure (mkRespProbe (runVariants [src] (urlValid ext fns rm)) out (← probe? pr))
  | _, _, _ => none

end PGV.Driver.Walk
