import PGV.Driver.Value
import PGV.Spec.Size

/-! Ops `struct`, `var`, `map`, `url`, `rule`: the validator entry points and single rule functions. -/

namespace PGV.Driver.Walk

open PGV PGV.Driver PGV.Model

inductive Resp where
  | reply (r : Reply)
  | need (q : ExtQ)
  | skip (why : String)

def Resp.render : Resp → String
  | .reply r => r.render
  | .need q => "NEED " ++ (extQSexp q).toStr
  | .skip why => "SKIP " ++ why

def errSexp : Option Bytes → Sexp
  | none => .atom "nil"
  | some e => .bytes e

/-- all error strings the model allows for a call (orders of group clauses) -/
def outcomes (o : CallOut) : List (Option Bytes) :=
  if o.groups.length ≤ 1 then [o.err o.groups]
  else if o.groups.length ≤ 5 then (perms o.groups).map o.err
  else [o.err o.groups, o.err o.groups.reverse]

/-- run `f` on every variant (map orders); collect allowed outcomes -/
def runVariants {α} (vs : List α) (f : α → M CallOut) : Except Stop (List (Option Bytes)) := do
  let mut acc : List (Option Bytes) := []
  for v in vs do
    let o ← f v
    acc := acc ++ outcomes o
  pure acc

def isPanic : Sexp → Bool
  | .node "panic" _ => true
  | _ => false

def mkResp (res : Except Stop (List (Option Bytes))) (impl : Sexp) (spec : List (Option Bytes) → Option Bool := fun _ => none)
    (scope : String := "in") : Resp :=
  match res with
  | .error (.need q) => .need q
  | .error (.unmodelled why) => .skip why
  | .error (.panic why) =>
    .reply { model := .node "panic" [.atom why], agree := isPanic impl, spec := some false, scope := scope }
  | .ok outs =>
    let shown := match outs with | o :: _ => errSexp o | [] => .atom "none"
    let agree := outs.any fun o => errSexp o == impl
    .reply { model := shown, agree := agree, spec := spec outs, scope := scope }

/-- `(probe xCarrier xRule <value>)`: the single (rule, value) pair a case is about. Gives the
verdict the property demands (`some true` = violated) and the scope tag. -/
def probeSpec (carrier rule : Bytes) (v : GoVal) : Option Bool × String :=
  let kfScope := if carrier == b! "map-iface" then "kf:F-C03-c" else "in"
  match PGV.Spec.Size.readRule rule with
  | some _ =>
    match PGV.Spec.Size.violated rule v with
    | some verdict =>
      if PGV.Spec.Size.floatBoundBeyond53 rule v then (some verdict, "kf:F-C01-e")
      else (some verdict, kfScope)
    | none => (none, "out:size-rule-on-zero-or-unmeasurable-value")
  | none => (none, "out:no-spec-for-rule")

def probe? : List Sexp → Option (Option (Bytes × Bytes × GoVal))
  | [] => some none
  | [.node "probe" [c, r, v]] => do pure (some ((← asBytes? c), (← asBytes? r), (← goVal? v)))
  | _ => none

/-- response for a call, with the spec verdict of the probe (if any) judged on the implementation's result -/
def mkRespProbe (res : Except Stop (List (Option Bytes))) (impl : Sexp) (probe : Option (Bytes × Bytes × GoVal)) : Resp :=
  match probe with
  | none => mkResp res impl
  | some (c, r, v) =>
    let (verdict, scope) := probeSpec c r v
    let implViolated := !(impl == Sexp.atom "nil")
    let spec := fun (_ : List (Option Bytes)) => verdict.map fun want => !isPanic impl && implViolated == want
    match mkResp res impl spec scope with
    | .reply rp => .reply { rp with spec := if isPanic impl then some false else rp.spec }
    | x => x

def structCfg? (ext : Ext) : Sexp → Option StructCfg
  | .node "cfg" [tag, .node "typed" typed, outer, lf, gf] => do
    let typed ← typed.mapM fun t => match t with
      | .node "t" [ts, rm] => do pure ((← asBytes? ts), (← rm? rm))
      | _ => none
    pure { ext := ext, tag := (← asBytes? tag), typed := typed, outer := (← rm? outer),
           fns := { localFns := (← fnList? lf), globalFns := (← fnList? gf) } }
  | _ => none

def srcVariants : Src → List Src
  | .untypedNil => [.untypedNil]
  | .val t v => (variants v).map fun v' => .val t v'

def handle (op : String) (args : List Sexp) (impl : List Sexp) : Option Resp :=
  match op, args, impl with
  | "struct", cfg :: ext :: src :: pr, [out] => do
    let ext ← ext? ext
    let cfg ← structCfg? ext cfg
    let src ← src? src
    pure (mkRespProbe (runVariants (srcVariants src) (structValid cfg)) out (← probe? pr))
  | "var", .node "rules" rules :: lf :: gf :: ext :: src :: pr, [out] => do
    let ext ← ext? ext
    let rules ← rules.mapM asBytes?
    let fns : FnTables := { localFns := (← fnList? lf), globalFns := (← fnList? gf) }
    let src ← src? src
    pure (mkRespProbe (runVariants [src] (varValid ext fns rules)) out (← probe? pr))
  | "map", rm :: lf :: gf :: ext :: src :: pr, [out] => do
    let ext ← ext? ext
    let rm ← rm? rm
    let fns : FnTables := { localFns := (← fnList? lf), globalFns := (← fnList? gf) }
    let src ← src? src
    pure (mkRespProbe (runVariants (srcVariants src) (mapValid ext fns rm)) out (← probe? pr))
  | "url", rm :: lf :: gf :: ext :: src :: pr, [out] => do
    let ext ← ext? ext
    let rm ← rm? rm
    let fns : FnTables := { localFns := (← fnList? lf), globalFns := (← fnList? gf) }
    let src ← match src with
      | .atom "nil" => some UrlSrc.untypedNil
      | .atom "nilptr" => some UrlSrc.nilPtr
      | .atom "notstring" => some UrlSrc.notString
      | .bytes s => some (UrlSrc.str s)
      | _ => none
    pure (mkRespProbe (runVariants [src] (urlValid ext fns rm)) out (← probe? pr))
  | _, _, _ => none

end PGV.Driver.Walk
