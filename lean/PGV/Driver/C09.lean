import PGV.Driver.Common
import PGV.Model.LRU
import PGV.Spec.LRU

namespace PGV.Driver.C09

open PGV PGV.Driver PGV.Model.LRU

def op? : Sexp → Option Op
  | .node "s" [k, v] => do pure (.store (← asNat? k) (← asNat? v))
  | .node "g" [k] => do pure (.load (← asNat? k))
  | .node "d" [k] => do pure (.delete (← asNat? k))
  | .node "n" [] => some .len
  | .node "dump" [] => some .dump
  | _ => none

def outSexp : Out → Sexp
  | .cbs l => .node "cb" (l.map fun (k, v) => .node "p" [.int (Int.ofNat k), .int (Int.ofNat v)])
  | .hit v => .node "hit" [.int (Int.ofNat v)]
  | .miss => .node "miss" []
  | .len n => .node "len" [.int n]
  | .dump vs => .node "dump" (vs.map fun v => .int (Int.ofNat v))

def handle (op : String) (args : List Sexp) (impl : List Sexp) : Option Reply :=
  match op, args, impl with
  | "lru", [cap, .node "l" ops], [out] => do
    let cap ← asNat? cap
    let ops ← ops.mapM op?
    let m := Sexp.node "l" ((run (new cap) ops).2.map outSexp)
    let s := Sexp.node "l" ((PGV.Spec.LRU.run cap [] ops).2.map outSexp)
    pure { model := m, agree := m == out, spec := some (s == out) }
  | _, _, _ => none

end PGV.Driver.C09
