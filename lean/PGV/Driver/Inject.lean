import PGV.Driver.Common
import PGV.Spec.Inject

/-! Op `inject (run (f xname xbytes <ast>)…)… <oracle> | (out xbytes…)`: the tag injector over one
or several consecutive runs on a set of files (in processing order).  The inputs of run n+1 are the
implementation's outputs of run n; `out` are its outputs of the last run. -/

namespace PGV.Driver.Inject

open PGV PGV.Driver PGV.Model PGV.Model.Inject

def field? : Sexp → Option FieldInfo
  | .node "fld" [pos, en, tag, .node "cm" cms] => do
    let comments ← cms.mapM asBytes?
    let (tag, unq) ← match tag with
      | .atom "notag" => some (none, none)
      | .node "tag" [tp, te, lit, unq] => do
        let u ← asOptBytes? unq
        pure (some ((← asNat? tp), (← asNat? te), (← asBytes? lit)), u)
      | _ => none
    pure { pos := (← asNat? pos), end_ := (← asNat? en), tag := tag, unquoted := unq, comments := comments }
  | _ => none

def spec? : Sexp → Option SpecInfo
  | .node "struct" fs => do pure (.structType (← fs.mapM field?))
  | .atom "othertype" => some .otherType
  | .node "othertype" _ => some .otherType
  | .atom "nottype" => some .notType
  | .node "nottype" _ => some .notType
  | _ => none

def decl? : Sexp → Option DeclInfo
  | .node "gen" ss => do pure (.gen (← ss.mapM spec?))
  | .atom "func" => some .func
  | .node "func" _ => some .func
  | _ => none

def fileCore? (name bytes ast : Sexp) : Option FileIn := do
  let ast ← match ast with
    | .atom "noparse" => some none
    | .node "ast" ds => do pure (some ⟨← ds.mapM decl?⟩)
    | _ => none
  pure { name := (← asBytes? name), contents := (← asBytes? bytes), ast := ast }

/-- a file of a run; the optional fourth argument is what the previous run left in a file that was generated
anew before this run (the previous run is judged against that, not against the new content) -/
def file? : Sexp → Option (FileIn × Option Bytes)
  | .node "f" [name, bytes, ast] => do pure (← fileCore? name bytes ast, none)
  | .node "f" [name, bytes, ast, prev] => do pure (← fileCore? name bytes ast, some (← asBytes? prev))
  | _ => none

def run? : Sexp → Option (List (FileIn × Option Bytes))
  | .node "run" fs => fs.mapM file?
  | _ => none

/-- outputs of one run as the model sees them: bytes per file, and whether the process panicked -/
def runModel (fs : List FileIn) : Option (List Bytes × Bool) :=
  let rs := handleFiles fs
  let panicked := rs.any fun r => match r with | .error (.panic _) => true | _ => false
  let outs := (rs.zip fs).mapM fun (r, f) => match r with
    | .ok c => some c
    | .error (.panic _) => some f.contents
    | .error _ => none
  outs.map fun o => (o, panicked)

def handle (op : String) (args : List Sexp) (impl : List Sexp) : Option Reply :=
  match op, impl with
  | "inject", [.node "out" (panicFlag :: outs)] => do
    let (runsS, oracle) ← match args.reverse with
      | o :: rest => some (rest.reverse, o)
      | [] => none
    let runsP ← runsS.mapM run?
    let runs := runsP.map (·.map (·.1))
    let outs ← outs.mapM asBytes?
    let implPanicked := panicFlag == Sexp.atom "panic"
    -- expected inputs of the next run / final outputs
    let nexts : List (List Bytes) := (runsP.drop 1).map (fun fs => fs.map (fun fp => fp.2.getD fp.1.contents)) ++ [outs]
    let results := runs.map runModel
    let agree := (results.zip nexts).all fun (r, nx) => match r with
      | some (o, _) => o == nx
      | none => false
    let lastPanic := match results.getLast? with | some (some (_, p)) => p | _ => false
    let agree := agree && (lastPanic == implPanicked)
    let shown : Sexp := match results.getLast? with
      | some (some (o, p)) => .node "out" ((if p then Sexp.atom "panic" else Sexp.atom "ok") :: o.map Sexp.bytes)
      | _ => .atom "unmodelled"
    let spec : Option Bool := match oracle with
      | .int 1 => some true
      | .int 0 => some false
      | _ => none
    let scope := if implPanicked then "in" else match oracle with | .atom "na" => "out:not-in-the-documented-shape" | _ => "in"
    pure { model := shown, agree := agree, spec := (if implPanicked then some false else spec), scope := scope }
  | _, _ => none

end PGV.Driver.Inject
