import PGV.Driver.Value
import PGV.Driver.Walk
import PGV.Spec.Json

/-! Op `dump <value> <oracle>`: `GetDumpStructStr`.  `oracle` is the harness's independent verdict:
does the implementation's output decode (encoding/json) to the same document as the standard
encoding of the value, up to the documented deviations (`#1` yes, `#0` no, `na` not comparable). -/

namespace PGV.Driver.C20

open PGV PGV.Driver PGV.Model PGV.Spec.Json

mutual
/-- the dumper writes `,` *between* entries: take it off the entries and make it the separator -/
partial def fixCommas : List Walk.Seg → List Walk.Seg
  | [] => []
  | .lit t :: rest => .lit t :: fixCommas rest
  | .perm _ es :: rest => .perm [44] (es.map fun e => stripComma (fixCommas e)) :: fixCommas rest
partial def stripComma (e : List Walk.Seg) : List Walk.Seg :=
  match e.reverse with
  | .lit t :: before =>
    (if t.getLast? == some 44 then (Walk.Seg.lit t.dropLast :: before) else (.lit t :: before)).reverse
  | _ => e
end

/-- a `[]byte` somewhere in the value: encoding/json writes base64, the dumper an array (known finding F-C20-d) -/
partial def hasByteSlice : GoVal → Bool
  | .slice t _ _ es => t == b! "[]uint8" || es.toList.any hasByteSlice
  | .array _ _ es => es.toList.any hasByteSlice
  | .ptr _ (some t) => hasByteSlice t
  | .map _ _ _ es => es.toList.any fun (_, v) => hasByteSlice v
  | .struct _ _ _ fs => go fs
  | _ => false
where
  go : Fields → Bool
    | .nil => false
    | .cons _ ex _ _ v rest => (ex && hasByteSlice v) || go rest

def handle (op : String) (args : List Sexp) (impl : List Sexp) : Option Reply :=
  match op, args, impl with
  | "dump", [v, oracle, flag], [out] => do
    let v ← goVal? v
    let m := getDumpStructStr v
    let specText := print (doc v)
    let scope := ptrTarget v
    let agree := match out with
      | .bytes o =>
        let (segs, _, _, _) := Walk.parseSegs m.buf 0 m.marks
        (Walk.matchSegs (fixCommas segs) o).any (·.isEmpty)
      | _ => false
    -- inside the scope the model's text is the spec's text (theorem C20_dump_is_print; asserted here)
    let consistent := !scope || m.buf == specText
    let spec : Option Bool := match oracle with
      | .int 1 => some (agree && consistent)
      | .int 0 => some false
      | _ => some (agree && consistent)
    pure { model := .bytes m.buf, agree := agree, spec := spec,
           scope := if !scope then "out:not-a-struct-or-excluded-kind"
                    else if hasByteSlice v then "kf:F-C20-d"
                    else if flag == Sexp.atom "embedded" then "kf:F-C20-e" else "in" }
  | _, _, _ => none

end PGV.Driver.C20
