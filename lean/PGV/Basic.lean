/-!
# PGV.Basic — byte strings, Go-string primitives, and the wire format (s-expressions)

Core Lean only (no Mathlib): everything here is linked into the `pgvdriver` executable.
A Go `string`/`[]byte` is `Bytes := List UInt8`.
-/

namespace PGV

abbrev Bytes := List UInt8

/-- a Lean string as bytes (UTF-8 encoding); used for computed strings only -/
def b (s : String) : Bytes := s.toUTF8.toList

/-- `b! "lit"`: a string literal as an explicit list of byte numerals (expanded at elaboration
time, so that the kernel can compute with it: `decide`, `rfl`, `simp`) -/
macro "b!" s:str : term => do
  let bytes := s.getString.toUTF8.toList
  let elems ← bytes.toArray.mapM fun x => `(($(Lean.quote x.toNat) : UInt8))
  `(([$elems,*] : Bytes))

namespace Bytes

/-- `strings.Index(s, sub)` on bytes: index of the first occurrence, `none` = -1. -/
def indexOf? (sub : Bytes) : Bytes → Option Nat
  | [] => if sub.isEmpty then some 0 else none
  | s@(_ :: t) =>
    if sub.isPrefixOf s then some 0 else (indexOf? sub t).map (· + 1)

/-- first index of a single byte -/
def indexByte? (c : UInt8) : Bytes → Option Nat
  | [] => none
  | x :: t => if x == c then some 0 else (indexByte? c t).map (· + 1)

/-- last index of a single byte -/
def lastIndexByte? (c : UInt8) (s : Bytes) : Option Nat :=
  (indexByte? c s.reverse).map (fun i => s.length - 1 - i)

def containsSub (s sub : Bytes) : Bool := (indexOf? sub s).isSome

/-- does the byte occur -/
def hasByte (s : Bytes) (c : UInt8) : Bool := s.any (· == c)

def hasPrefix (s p : Bytes) : Bool := p.isPrefixOf s
def hasSuffix (s p : Bytes) : Bool := p.isSuffixOf s

/-- `strings.TrimSuffix` -/
def trimSuffix (s suf : Bytes) : Bytes :=
  if suf.isSuffixOf s then s.take (s.length - suf.length) else s

/-- `strings.Trim(s, cutset)` for a one-byte cutset -/
def trimByte (c : UInt8) (s : Bytes) : Bytes :=
  ((s.dropWhile (· == c)).reverse.dropWhile (· == c)).reverse

/-- `strings.Split(s, sep)` for a one-byte separator: always at least one piece -/
def splitByte (sep : UInt8) : Bytes → List Bytes
  | [] => [[]]
  | c :: t =>
    if c == sep then [] :: splitByte sep t
    else match splitByte sep t with
      | [] => [[c]]          -- unreachable: splitByte never returns []
      | p :: ps => (c :: p) :: ps

/-- `strings.Join(parts, sep)` -/
def join (sep : Bytes) : List Bytes → Bytes
  | [] => []
  | [a] => a
  | a :: rest => a ++ sep ++ join sep rest

/-- Go slice expression `s[lo:hi]`; `none` exactly when Go panics. -/
def slice? (s : Bytes) (lo hi : Nat) : Option Bytes :=
  if lo ≤ hi ∧ hi ≤ s.length then some ((s.take hi).drop lo) else none

end Bytes

/-! ## decimal rendering (strconv.Itoa / FormatInt / FormatUint) -/

/-- decimal digits, most significant first (structural recursion on fuel, so that the kernel can
compute it; `fuel = n + 1` is always enough) -/
def natToBytesAux : Nat → Nat → Bytes → Bytes
  | 0, _, acc => acc
  | fuel + 1, n, acc =>
    let acc' := UInt8.ofNat (48 + n % 10) :: acc
    if n / 10 = 0 then acc' else natToBytesAux fuel (n / 10) acc'

def natToBytes (n : Nat) : Bytes := natToBytesAux (n + 1) n []

def intToBytes (z : Int) : Bytes :=
  if z < 0 then (45 : UInt8) :: natToBytes z.natAbs else natToBytes z.natAbs

/-! ## hex -/

def hexDigit (n : Nat) : Char :=
  if n < 10 then Char.ofNat (48 + n) else Char.ofNat (87 + n)

def hexOfBytes (bs : Bytes) : String :=
  String.ofList (bs.flatMap fun x => [hexDigit (x.toNat / 16), hexDigit (x.toNat % 16)])

def hexVal? (c : Char) : Option Nat :=
  if '0' ≤ c ∧ c ≤ '9' then some (c.toNat - 48)
  else if 'a' ≤ c ∧ c ≤ 'f' then some (c.toNat - 87)
  else if 'A' ≤ c ∧ c ≤ 'F' then some (c.toNat - 55)
  else none

def bytesOfHexChars : List Char → Option Bytes
  | [] => some []
  | [_] => none
  | a :: c :: rest => do
    let x ← hexVal? a
    let y ← hexVal? c
    let r ← bytesOfHexChars rest
    pure (UInt8.ofNat (x * 16 + y) :: r)

/-! ## s-expressions: the wire format between the Go harness and the driver

```
sexp := 'x' hex*          bytes
      | '#' ['-'] digit+  integer
      | '(' atom sexp* ')' constructor with a tag
      | atom               bare tag (nil, true, …)
```
-/

inductive Sexp where
  | bytes (bs : Bytes)
  | int (z : Int)
  | atom (s : String)
  | node (tag : String) (args : List Sexp)
deriving Repr, Inhabited

namespace Sexp

partial def toStr : Sexp → String
  | bytes bs => "x" ++ hexOfBytes bs
  | int z => "#" ++ toString z
  | atom s => s
  | node t args => "(" ++ t ++ String.join (args.map fun a => " " ++ toStr a) ++ ")"

/-- tokens: "(" ")" or a maximal run of non-space non-paren characters -/
def tokenize (cs : List Char) : List String :=
  let rec go (cs : List Char) (cur : List Char) (acc : List String) : List String :=
    match cs with
    | [] => (if cur.isEmpty then acc else String.ofList cur.reverse :: acc).reverse
    | c :: rest =>
      if c == '(' || c == ')' then
        let acc := if cur.isEmpty then acc else String.ofList cur.reverse :: acc
        go rest [] (String.singleton c :: acc)
      else if c == ' ' || c == '\t' || c == '\n' || c == '\r' then
        let acc := if cur.isEmpty then acc else String.ofList cur.reverse :: acc
        go rest [] acc
      else go rest (c :: cur) acc
  go cs [] []

def parseAtom (t : String) : Option Sexp :=
  match t.toList with
  | 'x' :: rest => (bytesOfHexChars rest).map Sexp.bytes
  | '#' :: '-' :: rest => (String.ofList rest).toNat?.map fun n => Sexp.int (-(n : Int))
  | '#' :: rest => (String.ofList rest).toNat?.map fun n => Sexp.int n
  | _ => some (Sexp.atom t)

/-- parse one s-expression from a token list; returns the rest -/
partial def parseToks : List String → Option (Sexp × List String)
  | [] => none
  | "(" :: tag :: rest =>
    let rec args (ts : List String) (acc : List Sexp) : Option (List Sexp × List String) :=
      match ts with
      | [] => none
      | ")" :: rest => some (acc.reverse, rest)
      | _ => do
        let (a, rest) ← parseToks ts
        args rest (a :: acc)
    do
      let (as, rest) ← args rest []
      pure (Sexp.node tag as, rest)
  | ")" :: _ => none
  | t :: rest => (parseAtom t).map fun a => (a, rest)

/-- parse a whole line into the list of top-level s-expressions -/
partial def parseLine (line : String) : Option (List Sexp) :=
  let rec go (ts : List String) (acc : List Sexp) : Option (List Sexp) :=
    match ts with
    | [] => some acc.reverse
    | _ => do
      let (a, rest) ← parseToks ts
      go rest (a :: acc)
  go (tokenize line.toList) []

def ofBytesList (l : List Bytes) : Sexp := node "l" (l.map bytes)
def ofOptBytes : Option Bytes → Sexp
  | none => atom "nil"
  | some x => bytes x

end Sexp

end PGV
