import PGV.Spec.Json

/-!
# A reader of compact JSON text (the fragment the dumper can emit)

`null`, strings without escapes, numbers by RFC 8259's grammar, arrays, objects; no white space.
Independent of the printer: it is the other half of the round trip `parse (print j) = j`, which is
what "the output is well-formed JSON and decodes to the document" means here.
-/

namespace PGV.Spec.Json

open PGV PGV.Model

def isDig (c : UInt8) : Bool := 48 ≤ c && c ≤ 57
/-- bytes a number token is made of -/
def numChar (c : UInt8) : Bool := isDig c || c == 45 || c == 43 || c == 46 || c == 69 || c == 101

/-- a byte that may stand unescaped inside a JSON string -/
def plainChar (c : UInt8) : Bool := 32 ≤ c && c != 34 && c != 92

def digitsNE (s : Bytes) : Bool := !s.isEmpty && s.all isDig

/-- `int = "0" / digit1-9 *DIGIT` -/
def intPart (s : Bytes) : Bool :=
  match s with
  | [48] => true
  | c :: t => 49 ≤ c && c ≤ 57 && t.all isDig
  | [] => false

/-- `[ e [+-] 1*DIGIT ]` -/
def expPart (s : Bytes) : Bool :=
  match s with
  | [] => true
  | c :: t => (c == 69 || c == 101) &&
    (match t with
     | 43 :: d => digitsNE d
     | 45 :: d => digitsNE d
     | d => digitsNE d)

/-- `[ "." 1*DIGIT ] [ exp ]` -/
def fracExp (s : Bytes) : Bool :=
  match s with
  | 46 :: t => digitsNE (t.takeWhile isDig) && expPart (t.dropWhile isDig)
  | s => expPart s

def stripMinus : Bytes → Bytes
  | 45 :: t => t
  | t => t

/-- RFC 8259 `number = [ "-" ] int [ frac ] [ exp ]` -/
def jsonNumber (s : Bytes) : Bool :=
  intPart ((stripMinus s).takeWhile isDig) && fracExp ((stripMinus s).dropWhile isDig)

/-- after the opening quote: the content up to the closing quote -/
def parseStr (s : Bytes) : Option (Bytes × Bytes) :=
  let body := s.takeWhile plainChar
  match s.dropWhile plainChar with
  | 34 :: rest => some (body, rest)
  | _ => none

mutual
def parseVal : Nat → Bytes → Option (JVal × Bytes)
  | 0, _ => none
  | _ + 1, [] => none
  | fuel + 1, c :: s =>
    if c == 110 then (if (b! "ull").isPrefixOf s then some (.null, s.drop 3) else none)
    else if c == 34 then (match parseStr s with | some (t, r) => some (.str t, r) | none => none)
    else if c == 91 then
      (if s.head? == some 93 then some (.arr .nil, s.tail)
       else match parseItems fuel s with | some (items, r) => some (.arr items, r) | none => none)
    else if c == 123 then
      (if s.head? == some 125 then some (.obj .nil, s.tail)
       else match parseMembers fuel s with | some (ms, r) => some (.obj ms, r) | none => none)
    else if numChar c then
      (let t := (c :: s).takeWhile numChar
       if jsonNumber t then some (.num t, (c :: s).dropWhile numChar) else none)
    else none
/-- one or more values separated by `,`, closed by `]` -/
def parseItems : Nat → Bytes → Option (JVals × Bytes)
  | 0, _ => none
  | fuel + 1, s =>
    match parseVal fuel s with
    | none => none
    | some (v, r) =>
      if r.head? == some 44 then
        (match parseItems fuel r.tail with | some (vs, r3) => some (.cons v vs, r3) | none => none)
      else if r.head? == some 93 then some (.cons v .nil, r.tail)
      else none
/-- one or more `"key":value` separated by `,`, closed by `}` -/
def parseMembers : Nat → Bytes → Option (JMembers × Bytes)
  | 0, _ => none
  | fuel + 1, s =>
    if s.head? == some 34 then
      match parseStr s.tail with
      | none => none
      | some (k, s2) =>
        if s2.head? == some 58 then
          match parseVal fuel s2.tail with
          | none => none
          | some (v, r) =>
            if r.head? == some 44 then
              (match parseMembers fuel r.tail with | some (ms, r3) => some (.cons k v ms, r3) | none => none)
            else if r.head? == some 125 then some (.cons k v .nil, r.tail)
            else none
        else none
    else none
end

/-- the whole text is one value -/
def parse (s : Bytes) : Option JVal :=
  match parseVal (s.length + 1) s with
  | some (v, []) => some v
  | _ => none

mutual
/-- strings and keys need no escapes, numbers are JSON numbers -/
def JVal.wf : JVal → Bool
  | .null => true
  | .str s => s.all plainChar
  | .num t => jsonNumber t && t.all numChar
  | .arr items => items.wf
  | .obj ms => ms.wf
def JVals.wf : JVals → Bool
  | .nil => true
  | .cons v rest => v.wf && rest.wf
def JMembers.wf : JMembers → Bool
  | .nil => true
  | .cons k v rest => k.all plainChar && v.wf && rest.wf
end

mutual
def JVal.size : JVal → Nat
  | .arr items => items.size + 1
  | .obj ms => ms.size + 1
  | _ => 1
def JVals.size : JVals → Nat
  | .nil => 0
  | .cons v rest => v.size + rest.size + 1
def JMembers.size : JMembers → Nat
  | .nil => 0
  | .cons _ v rest => v.size + rest.size + 1
end

end PGV.Spec.Json
