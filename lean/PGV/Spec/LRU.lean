import PGV.Model.LRU

/-!
# Spec: a bounded least-recently-used map (C09)

State: `List (Key × Val)`, most recently used first.  Nothing else.
-/

namespace PGV.Spec.LRU

open PGV.Model.LRU (Key Val Op Out)

abbrev Sp := List (Key × Val)

def step (cap : Nat) (s : Sp) : Op → Sp × Out
  | .store k v =>
    if s.any (·.1 == k) then ((k, v) :: s.filter (·.1 != k), .cbs [])
    else
      let s1 := (k, v) :: s
      if s1.length > cap then (s1.dropLast, .cbs s1.getLast?.toList) else (s1, .cbs [])
  | .load k =>
    match s.find? (·.1 == k) with
    | some (_, v) => ((k, v) :: s.filter (·.1 != k), .hit v)
    | none => (s, .miss)
  | .delete k =>
    match s.find? (·.1 == k) with
    | some (_, v) => (s.filter (·.1 != k), .cbs [(k, v)])
    | none => (s, .cbs [])
  | .len => (s, .len s.length)
  | .dump => (s, .dump (s.map (·.2)))

def run (cap : Nat) (s : Sp) : List Op → Sp × List Out
  | [] => (s, [])
  | o :: os =>
    let r := step cap s o
    let rs := run cap r.1 os
    (rs.1, r.2 :: rs.2)

end PGV.Spec.LRU
