import PGV.Model.Inject

/-!
# Spec for C06 / C07: what tag injection must do

* `merge old inj`: every key of the field keeps its position, with the comment's value when the
  comment mentions it; keys only the comment has are appended in comment order.
* A file is seen as a sequence of chunks: plain bytes, and tag literals that carry an `@tag`
  annotation.  Injection rewrites the *content* of those literals and nothing else.
-/

namespace PGV.Spec.Inject

open PGV PGV.Model PGV.Model.Inject

def keys (t : TagItems) : List Bytes := t.map (·.key)

def lookup (k : Bytes) (t : TagItems) : Option Bytes := (t.find? (·.key == k)).map (·.value)

def merge (old inj : TagItems) : TagItems :=
  old.map (fun o => match inj.find? (·.key == o.key) with | some i => i | none => o)
    ++ inj.filter (fun i => !(keys old).contains i.key)

/-- a file as the injector sees it -/
inductive Chunk where
  | plain (bytes : Bytes)
  /-- a tag literal `` `text` `` of a field whose trailing comment says `@tag inj` -/
  | tagged (text inj : Bytes)
deriving Repr

def Chunk.render : Chunk → Bytes
  | .plain bs => bs
  | .tagged text _ => [96] ++ text ++ [96]

def render (cs : List Chunk) : Bytes := (cs.map Chunk.render).flatten

/-- the new content of an annotated literal, for a given way `f` of combining the items -/
def newTextWith (f : TagItems → TagItems → TagItems) (text inj : Bytes) : Bytes :=
  format (f (newTagItems text) (newTagItems inj))

def Chunk.injectWith (f : TagItems → TagItems → TagItems) : Chunk → Chunk
  | .plain bs => .plain bs
  | .tagged text inj => .tagged (newTextWith f text inj) inj

def injectWith (f : TagItems → TagItems → TagItems) (cs : List Chunk) : List Chunk := cs.map (Chunk.injectWith f)

/-- what injection must produce: annotated literals get their merged content, every other byte stays -/
def inject (cs : List Chunk) : List Chunk := injectWith merge cs

/-- neither the literal nor the comment repeats a key -/
def Chunk.distinctKeys : Chunk → Prop
  | .plain _ => True
  | .tagged text inj => (keys (newTagItems text)).Nodup ∧ (keys (newTagItems inj)).Nodup

/-- the areas `ParseFile` reports for a chunked file (`token.Pos` = offset + 1) -/
def areasOf : Nat → List Chunk → List Area
  | _, [] => []
  | off, .plain bs :: rest => areasOf (off + bs.length) rest
  | off, .tagged text inj :: rest =>
    { start := off + 1, end_ := off + text.length + 3, tagStart := off + 1, tagEnd := off + text.length + 3,
      currentTag := text, injectTag := inj } :: areasOf (off + text.length + 2) rest

end PGV.Spec.Inject
