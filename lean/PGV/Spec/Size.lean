import PGV.Model.Value
import PGV.Model.Rules

/-!
# Spec for C01: size / comparison rules

"The rule is violated exactly when the value's measure lies outside the stated set", with the
measure = rune count of a string, numeric value of a signed / unsigned / floating-point number,
length of a slice.  Exact arithmetic (`Int`, dyadic rationals); no machine conversion anywhere.
-/

namespace PGV.Spec.Size

open PGV PGV.Model

inductive Measure where
  | int (z : Int)
  | real (f : FloatVal)      -- finite or ±∞ (NaN has no numeric value: out of scope)
deriving Repr, DecidableEq

def measure : GoVal → Option Measure
  | .str s => some (.int (runeCount s))
  | .int _ z => some (.int z)
  | .uint _ n => some (.int n)
  | .float _ f _ _ => match f with
    | .nan => none
    | f => some (.real f)
  | .slice _ _ _ es => some (.int es.length)
  | _ => none

/-- measure compared with an integer bound -/
def cmp (m : Measure) (bound : Int) : Ordering :=
  match m with
  | .int z => compare z bound
  | .real (.inf neg) => if neg then .lt else .gt
  | .real (.fin mm e) => cmpDyadic mm e bound 0
  | .real .nan => .eq

inductive SizeRule where
  | to | ge | le | oto | gt | lt | eq | noeq
deriving Repr, DecidableEq

def SizeRule.ofKey (k : Bytes) : Option SizeRule :=
  if k == b! "to" then some .to else if k == b! "ge" then some .ge else if k == b! "le" then some .le
  else if k == b! "oto" then some .oto else if k == b! "gt" then some .gt else if k == b! "lt" then some .lt
  else if k == b! "eq" then some .eq else if k == b! "noeq" then some .noeq else none

/-- membership of the measure in the set the rule states (`hi` is used by `to`/`oto` only) -/
def inSet (r : SizeRule) (lo hi : Int) (m : Measure) : Bool :=
  match r with
  | .to => cmp m lo != .lt && cmp m hi != .gt
  | .oto => cmp m lo == .gt && cmp m hi == .lt
  | .ge => cmp m lo != .lt
  | .gt => cmp m lo == .gt
  | .le => cmp m lo != .gt
  | .lt => cmp m lo == .lt
  | .eq => cmp m lo == .eq
  | .noeq => cmp m lo != .eq

/-- the bound argument of a rule read as integers: `lo~hi` for `to`/`oto`, `lo` otherwise
(`strconv.Atoi` syntax; "integer bounds" in the property) -/
def parseBounds (r : SizeRule) (arg : Bytes) : Option (Int × Int) :=
  if r == .to || r == .oto then
    match Bytes.splitByte 126 arg with
    | [a, c] =>
      let (lo, e1) := atoi a
      let (hi, e2) := atoi c
      if e1 || e2 then none else some (lo, hi)
    | _ => none
  else
    let (lo, e) := atoi arg
    if e then none else some (lo, 0)

/-- the rule text `key=lo[~hi][|msg]` read independently of the implementation's parser:
`some (rule, lo, hi)` when it is one of the eight rules with integer bounds -/
def readRule (text : Bytes) : Option (SizeRule × Int × Int) :=
  let body := match Bytes.indexByte? 124 text with
    | some i => text.take i
    | none => text
  -- a `|` followed by nothing is not a message: outside the documented shape
  let emptyMsg := match Bytes.indexByte? 124 text with
    | some i => i + 1 == text.length
    | none => false
  if emptyMsg then none else
  match Bytes.indexByte? 61 body with
  | none => none
  | some i =>
    match SizeRule.ofKey (body.take i) with
    | none => none
    | some r => (parseBounds r (body.drop (i + 1))).map fun (lo, hi) => (r, lo, hi)

/-- verdict the property demands: `some true` = violated, `none` = outside the property's quantifier -/
def violated (text : Bytes) (v : GoVal) : Option Bool :=
  match readRule text, measure v with
  | some (r, lo, hi), some m => if v.isZero then none else some (!inSet r lo hi m)
  | _, _ => none

/-- `float64(bound)` is exact: the bound has at most 53 significant bits (|bound| < 2^53).  Outside
this window the conversion rounds (finding F-C01-e) -/
def boundsExact (v : GoVal) (lo hi : Int) : Bool :=
  match v with
  | .float _ _ _ _ => bitLen lo.natAbs ≤ 53 && bitLen hi.natAbs ≤ 53
  | _ => true

/-- float bounds beyond ±2^53 are converted with rounding by `float64(min)` (finding F-C01-e) -/
def floatBoundBeyond53 (text : Bytes) (v : GoVal) : Bool :=
  match v, readRule text with
  | .float _ _ _ _, some (r, lo, hi) =>
    lo.natAbs > 2 ^ 53 || ((r == .to || r == .oto) && hi.natAbs > 2 ^ 53)
  | _, _ => false

end PGV.Spec.Size
