import PGV.Spec.RuleText
import PGV.Model.Value

/-!
# Spec for C05: the documented language of each format / content rule

Recognisers written independently of the model's (which transcribe the regular expressions and call
the standard library): plain structural definitions on bytes.  This table *is* the reading of the
documentation; it is evaluated on every probe of the `lang` stream against the implementation's verdict.
-/

namespace PGV.Spec.Lang

open PGV PGV.Model PGV.Spec

def digit (c : UInt8) : Bool := 48 ≤ c && c ≤ 57
def letter (c : UInt8) : Bool := (65 ≤ c && c ≤ 90) || (97 ≤ c && c ≤ 122)
def wordc (c : UInt8) : Bool := digit c || letter c || c == 95
def digits (s : Bytes) : Bool := !s.isEmpty && s.all digit

/-- two decimal digits as a number -/
def num (s : Bytes) : Nat := s.foldl (fun a c => a * 10 + (c.toNat - 48)) 0

/-- 11 digits, first `1`, second in `3…9` -/
def phone (s : Bytes) : Bool :=
  s.length == 11 && s.all digit && s[0]? == some 49 && (match s[1]? with | some c => 51 ≤ c && c ≤ 57 | none => false)

/-- 15 digits, 18 digits, or 17 digits followed by `X` / `x` -/
def idcard (s : Bytes) : Bool :=
  (s.length == 15 && s.all digit) || (s.length == 18 && s.all digit) ||
  (s.length == 18 && (s.take 17).all digit && (s.drop 17 == [88] || s.drop 17 == [120]))

def int (s : Bytes) : Bool := digits s

/-- digits `.` digits -/
def float (s : Bytes) : Bool :=
  match Bytes.splitByte 46 s with
  | [a, c] => digits a && digits c
  | _ => false

/-- split at every byte satisfying `isSep`, keeping the separators -/
def splitAny (isSep : UInt8 → Bool) : Bytes → List Bytes × List UInt8
  | [] => ([[]], [])
  | c :: t =>
    let (ws, ss) := splitAny isSep t
    if isSep c then ([] :: ws, c :: ss)
    else match ws with
      | [] => ([[c]], ss)
      | w :: r => ((c :: w) :: r, ss)

def word (s : Bytes) : Bool := !s.isEmpty && s.all wordc

/-- `word (sep1 word)* @ word (sep2 word)* . word (sep2 word)*`, sep1 ∈ `-+.`, sep2 ∈ `-.` -/
def email (s : Bytes) : Bool :=
  match Bytes.splitByte 64 s with
  | [loc, dom] =>
    let (lw, _) := splitAny (fun c => c == 45 || c == 43 || c == 46) loc
    let (dw, ds) := splitAny (fun c => c == 45 || c == 46) dom
    lw.all word && dw.all word && ds.any (· == 46)
  | _ => false

/-! ### dates -/

def leap (y : Nat) : Bool := (y % 4 == 0 && y % 100 != 0) || y % 400 == 0

def daysIn (y m : Nat) : Nat :=
  if m == 2 then (if leap y then 29 else 28)
  else if m == 4 || m == 6 || m == 9 || m == 11 then 30 else 31

/-- `s` is the concatenation of fixed-width digit fields and literal separators; returns the field values -/
def fields : List (Nat ⊕ Bytes) → Bytes → Option (List Nat)
  | [], s => if s.isEmpty then some [] else none
  | .inl w :: rest, s =>
    let f := s.take w
    if f.length == w && f.all digit then (fields rest (s.drop w)).map (num f :: ·) else none
  | .inr lit :: rest, s =>
    if lit.isPrefixOf s then fields rest (s.drop lit.length) else none

def year (s : Bytes) : Bool := (fields [.inl 4] s).isSome

def year2month (sep s : Bytes) : Bool :=
  match fields [.inl 4, .inr sep, .inl 2] s with
  | some [_, m] => 1 ≤ m && m ≤ 12
  | _ => false

def date (sep s : Bytes) : Bool :=
  match fields [.inl 4, .inr sep, .inl 2, .inr sep, .inl 2] s with
  | some [y, m, d] => 1 ≤ m && m ≤ 12 && 1 ≤ d && d ≤ daysIn y m
  | _ => false

def datetime (d t c s : Bytes) : Bool :=
  match fields [.inl 4, .inr d, .inl 2, .inr d, .inl 2, .inr t, .inl 2, .inr c, .inl 2, .inr c, .inl 2] s with
  | some [y, mo, da, h, mi, se] => 1 ≤ mo && mo ≤ 12 && 1 ≤ da && da ≤ daysIn y mo && h ≤ 23 && mi ≤ 59 && se ≤ 59
  | _ => false

/-- separators for which Go's layout language reads them as plain literals and the fields stay
unambiguous: punctuation that is neither a digit nor a layout keyword -/
def sepOK (sep : Bytes) : Bool :=
  sep.all fun c => c == 45 || c == 47 || c == 46 || c == 58 || c == 32 || c == 43 || c == 95 || c == 44 || c == 35

/-! ### options and lists -/

/-- options of `in` / `include`: the text between the first `(` and the last `)`, split on `/`
outside quotes, surrounding quotes removed -/
def options (arg : Bytes) : Option (List Bytes) :=
  match Bytes.indexByte? 40 arg, Bytes.lastIndexByte? 41 arg with
  | some l, some r =>
    if r < l then none
    else
      let inner := (arg.take r).drop (l + 1)
      let ps := pieces 47 false inner
      -- an empty option (`in=()`, `in=(a/)`, `in=(a//b)`) is a rule-writing slip: no statement
      if ps.any (·.isEmpty) then none
      else some (ps.map (Bytes.trimByte QUOTE))
  | _, _ => none

def distinct : List Bytes → Bool
  | [] => true
  | x :: xs => !xs.contains x && distinct xs

/-- `strings.Split` on a non-empty separator, by direct recursion -/
def splitOnSep (sep : Bytes) : Nat → Bytes → List Bytes
  | 0, _ => [[]]
  | _, [] => [[]]
  | fuel + 1, s@(c :: t) =>
    if !sep.isEmpty && sep.isPrefixOf s then [] :: splitOnSep sep fuel (s.drop sep.length)
    else match splitOnSep sep fuel t with
      | [] => [[c]]
      | p :: ps => (c :: p) :: ps

/-- the text in front of the first `c` (all of it when there is none) -/
def upTo (c : UInt8) (s : Bytes) : Bytes := s.takeWhile (· != c)
/-- the text behind the first `c` (empty when there is none) -/
def behind (c : UInt8) (s : Bytes) : Bytes := (s.dropWhile (· != c)).drop 1

/-- rule key and argument, read off the rule text (`key[=arg][|msg]`): the message starts at the
first `|`, the argument at the first `=` in front of it -/
def ruleParts (text : Bytes) : Bytes × Bytes :=
  let body := upTo BAR text
  (upTo EQ body, behind EQ body)

/-- a rule text of the documented shape `key[=arg][|message]` (empty `arg` / `msg` = absent) -/
def mkText (key arg msg : Bytes) : Bytes :=
  key ++ (if arg.isEmpty then [] else EQ :: arg) ++ (if msg.isEmpty then [] else BAR :: msg)

def unq (s : Bytes) : Bytes := Bytes.trimByte QUOTE s

/-- is the string value in the language of the rule?  `none`: no statement (residual rules, separators
outside `sepOK`, malformed arguments) -/
def accepts (text : Bytes) (s : Bytes) : Option Bool :=
  let (key, arg) := ruleParts text
  if key == b! "phone" then some (phone s)
  else if key == b! "email" then some (email s)
  else if key == b! "idcard" then some (idcard s)
  else if key == b! "int" then some (int s)
  else if key == b! "float" then some (float s)
  else if key == b! "year" then some (year s)
  else if key == b! "year2month" then
    let sep := if arg.isEmpty then [45] else unq arg
    if sepOK sep then some (year2month sep s) else none
  else if key == b! "date" then
    let sep := if arg.isEmpty then [45] else unq arg
    if sepOK sep then some (date sep s) else none
  else if key == b! "datetime" then
    let given := if arg.isEmpty then [] else Bytes.splitByte 44 (unq arg)
    if given.length > 3 then none
    else
      let d := given[0]?.getD [45]
      let t := given[1]?.getD [32]
      let c := given[2]?.getD [58]
      if sepOK d && sepOK t && sepOK c && !(arg.isEmpty == false && Bytes.hasByte (unq arg) 39) then some (datetime d t c s) else none
  else if key == b! "in" then (options arg).map fun os => os.contains s
  else if key == b! "include" then (options arg).map fun os => os.any fun o => Bytes.containsSub s o
  else if key == b! "ints" then
    let sep := if (unq arg).isEmpty then [44] else unq arg
    some ((splitOnSep sep (s.length + 1) s).all int)
  else if key == b! "unique" then some (distinct (Bytes.splitByte 44 s))
  else if key == b! "prefix" then some (arg.isPrefixOf s)
  else if key == b! "suffix" then some (arg.isSuffixOf s)
  else none

end PGV.Spec.Lang
