import PGV.Model.Dump

/-!
# Spec for C20: the JSON document of a value and its compact text

`doc v` is the document the standard encoder produces for `v` with field names as keys, with the
documented deviations applied: booleans as the strings "true"/"false", nil slices as `[]`, nil maps
as `{}`, nil pointers as `null`, unexported fields omitted.  `print` is compact JSON text.
-/

namespace PGV.Spec.Json

open PGV PGV.Model

mutual
inductive JVal where
  | null
  | str (s : Bytes)              -- a string without characters that need escaping
  | num (text : Bytes)           -- a number, by its text
  | arr (items : JVals)
  | obj (members : JMembers)
inductive JVals where
  | nil
  | cons (v : JVal) (rest : JVals)
inductive JMembers where
  | nil
  | cons (key : Bytes) (v : JVal) (rest : JMembers)
end

mutual
/-- compact JSON text -/
def print : JVal → Bytes
  | .null => b! "null"
  | .str s => jq s
  | .num t => t
  | .arr items => [91] ++ printItems items ++ [93]
  | .obj ms => [123] ++ printMembers ms ++ [125]
def printItems : JVals → Bytes
  | .nil => []
  | .cons v .nil => print v
  | .cons v (.cons v2 rest) => print v ++ [44] ++ printItems (.cons v2 rest)
def printMembers : JMembers → Bytes
  | .nil => []
  | .cons k v .nil => jq k ++ [58] ++ print v
  | .cons k v (.cons k2 v2 rest) => jq k ++ [58] ++ print v ++ [44] ++ printMembers (.cons k2 v2 rest)
end

/-- the text of a map key in the document (`encoding/json`: string keys as they are, integer keys in decimal) -/
def keyText : GoVal → Bytes
  | .str s => s
  | .bool x => if x then b! "true" else b! "false"
  | .int _ z => intToBytes z
  | .uint _ n => natToBytes n
  | _ => []

mutual
/-- the document of a value -/
def doc : GoVal → JVal
  | .str s => .str s
  | .bool x => .str (if x then b! "true" else b! "false")
  | .int _ z => .num (intToBytes z)
  | .uint _ n => .num (natToBytes n)
  | .float _ _ _ rOwn => .num rOwn
  | .ptr _ none => .null
  | .ptr _ (some t) => doc t
  | .struct _ _ _ fs => .obj (docFields fs)
  | .slice _ _ _ es => .arr (docElems es)        -- nil slice: `[]`
  | .array _ _ es => .arr (docElems es)
  | .map _ _ _ es => .obj (docEntries es)        -- nil map: `{}`
  | .iface _ _ => .null
  | .other _ _ _ _ => .null
def docFields : Fields → JMembers
  | .nil => .nil
  | .cons name ex _ _ v rest => if ex then .cons name (doc v) (docFields rest) else docFields rest
def docElems : GoVals → JVals
  | .nil => .nil
  | .cons v rest => .cons (doc v) (docElems rest)
def docEntries : Entries → JMembers
  | .nil => .nil
  | .cons k v rest => .cons (keyText k) (doc v) (docEntries rest)
end

/-- admissible map keys -/
def keyOk : GoVal → Bool
  | .str _ | .bool _ | .int _ _ | .uint _ _ => true
  | _ => false

mutual
/-- the values the property speaks about: structs, pointers to structs, slices / arrays, maps with
string / integer / bool keys, strings, integers, unsigned integers, floats, bools -/
def inScope : GoVal → Bool
  | .str _ | .bool _ | .int _ _ | .uint _ _ | .float _ _ _ _ => true
  | .ptr _ none => true
  | .ptr _ (some t) => ptrTarget t
  | .struct _ _ isTime fs => !isTime && inScopeFields fs
  | .slice _ _ _ es => inScopeElems es
  | .array _ _ es => inScopeElems es
  | .map _ _ _ es => inScopeEntries es
  | .iface _ _ => false
  | .other _ _ _ _ => false
/-- what a pointer may point to: a struct, or a further pointer to one -/
def ptrTarget : GoVal → Bool
  | .ptr _ none => true
  | .ptr _ (some t) => ptrTarget t
  | .struct _ _ isTime fs => !isTime && inScopeFields fs
  | _ => false
def inScopeFields : Fields → Bool
  | .nil => true
  | .cons name ex tt _ v rest => (!ex || (inScope v && !(name == b! "Time" && tt))) && inScopeFields rest
def inScopeElems : GoVals → Bool
  | .nil => true
  | .cons v rest => inScope v && inScopeElems rest
def inScopeEntries : Entries → Bool
  | .nil => true
  | .cons k v rest =>
    keyOk k && inScope v && inScopeEntries rest
end

end PGV.Spec.Json
