import PGV.Model.Walker

/-!
# Spec of the struct walker: the *report* of a value tree, without any state

The property text (C02, C04) speaks about "the list of violated rule instances, in declaration
order, each named by its path".  Here that list is written down directly, as a function of the value
tree alone: no error buffer, no group table is threaded through — the report of a struct is the
concatenation of the reports of its fields in declaration order, the report of a field is the
concatenation of the contributions of its rule items in rule order, the report of a collection is
the concatenation of the reports of its elements in index (iteration) order, and the report of a
marked sub-object sits where the `required` / `exist` item stands that reaches it.

A report is a list of events: a clause text, a group member registered for later (`either` /
`botheq`), or a ghost mark delimiting the entries of a Go map (needed only so that the driver can
accept any iteration order).  `Props/C02.lean` proves that the walker of `Model/Walker.lean`
(which threads a buffer, a member table and marks through `validate` / `exist` exactly as the Go code
does) produces, from any state, that state extended by the report.
-/

namespace PGV.Spec.Clauses
open PGV PGV.Model

inductive Ev where
  | text (t : Bytes)
  | member (m : Member)
  | mark (k : Nat)

def Ev.apply (st : WSt) : Ev → WSt
  | .text t => st.write t
  | .member m => { st with members := st.members ++ [m] }
  | .mark k => st.mark k

/-- extend a walker state by a report -/
def replay (evs : List Ev) (st : WSt) : WSt := evs.foldl Ev.apply st

/-- the clause texts of a report, concatenated in order (what ends up in the error string) -/
def textOf : List Ev → Bytes
  | [] => []
  | .text t :: r => t ++ textOf r
  | _ :: r => textOf r

/-- the group members of a report, in order -/
def membersOf : List Ev → List Member
  | [] => []
  | .member m :: r => m :: membersOf r
  | _ :: r => membersOf r

/-- a `required` / `exist` item has been seen: later items of the same field do not visit the nested
object again -/
def descAfter (fns : FnTables) (d : Bool) (r : Bytes) : Bool :=
  if r.isEmpty then d
  else match resolveFn fns (parseValidNameKV r).1 with
    | .structural => if (parseValidNameKV r).1 == requiredB || (parseValidNameKV r).1 == existB then true else d
    | _ => d

/-- the contribution of ONE rule item of a struct field: nothing for an empty item or an empty value
under a table rule; one clause for an unknown name, a violated `required`, a registered function or a
built-in (whose own text is empty when the rule is satisfied); the report of the nested object for
`required` on a supplied value and for `exist`; one group member for `either` / `botheq` -/
def sItem (ext : Ext) (fns : FnTables) (scope sn fname : Bytes) (v : GoVal)
    (sdesc : Bool → Bool → Bytes → M (List Ev)) (d : Bool) (r : Bytes) : M (List Ev) :=
  if r.isEmpty then pure []
  else match resolveFn fns (parseValidNameKV r).1 with
    | .unknown => pure [.text (getJoinFieldErr sn fname (unknownFnMsg (parseValidNameKV r).1))]
    | .structural =>
      if (parseValidNameKV r).1 == requiredB then
        (if requiredEmpty v then pure [.text (requiredClause sn fname (parseValidNameKV r).2.2)]
         else sdesc false d (parseValidNameKV r).2.2)
      else if (parseValidNameKV r).1 == existB then sdesc true d (parseValidNameKV r).2.2
      else pure [.member { scope := scope, validName := r, objName := sn, fieldName := fname, val := v }]
    | .custom mk => pure (if v.isZero then [] else [.text (customClause mk r sn fname)])
    | .builtin run => if v.isZero then pure [] else run ext r sn fname v >>= fun t => pure [.text t]

/-- the report of a field's rule list: the items' contributions in rule order -/
def sRules (ext : Ext) (fns : FnTables) (scope sn fname : Bytes) (v : GoVal)
    (sdesc : Bool → Bool → Bytes → M (List Ev)) : Bool → List Bytes → M (List Ev)
  | _, [] => pure []
  | d, r :: rs =>
    sItem ext fns scope sn fname v sdesc d r >>= fun a =>
    sRules ext fns scope sn fname v sdesc (descAfter fns d r) rs >>= fun b => pure (a ++ b)

def sNonStruct (structName : Bytes) (v : GoVal) (gather : Bool) : List Ev :=
  if gather then [] else [.text (getJoinFieldErr structName v.typeName (b! "is not struct"))]

def sExistScalar (sn fname cusMsg : Bytes) (v : GoVal) (isValidTvKind : Bool) : List Ev :=
  if isValidTvKind then [.text (existScalarClause sn fname cusMsg v)] else []

mutual
/-- the report of a value that is to be validated as an object named `structName`
(`gather` = it was reached as an element of a collection) -/
def sValidate (cfg : StructCfg) (structName : Bytes) (value : GoVal) (gather : Bool) : M (List Ev) :=
  match value with
  | .ptr _ none => pure []
  | .ptr _ (some t) => sValidate cfg structName t gather
  | .struct tstr tname _ fs =>
    sFields cfg (structEnter cfg structName tstr tname).1 (structEnter cfg structName tstr tname).2 fs
  | .str s => pure (sNonStruct structName (.str s) gather)
  | .bool v => pure (sNonStruct structName (.bool v) gather)
  | .int bits z => pure (sNonStruct structName (.int bits z) gather)
  | .uint bits n => pure (sNonStruct structName (.uint bits n) gather)
  | .float bits f r1 r2 => pure (sNonStruct structName (.float bits f r1 r2) gather)
  | .iface t d => pure (sNonStruct structName (.iface t d) gather)
  | .slice t e n es => pure (sNonStruct structName (.slice t e n es) gather)
  | .array t e es => pure (sNonStruct structName (.array t e es) gather)
  | .map t k n es => pure (sNonStruct structName (.map t k n es) gather)
  | .other k t n z => pure (sNonStruct structName (.other k t n z) gather)

/-- fields in declaration order; unexported fields, `time.Time` fields and fields without a rule
(tag or programmatic) contribute nothing -/
def sFields (cfg : StructCfg) (sn : Bytes) (cus : RM) (fs : Fields) : M (List Ev) :=
  match fs with
  | .nil => pure []
  | .cons name exported isTimeTy tags v rest =>
    (if !exported || isTimeTy
        || (if !(rmGet cus name).isEmpty then rmGet cus name else tagGet tags cfg.tag).isEmpty then pure []
     else sRules cfg.ext cfg.fns sn sn name v
            (fun isValidTvKind skip cusMsg => sExistTop cfg sn name v isValidTvKind skip cusMsg) false
            (validNamesSplit (if !(rmGet cus name).isEmpty then rmGet cus name else tagGet tags cfg.tag)))
      >>= fun a => sFields cfg sn cus rest >>= fun b => pure (a ++ b)

/-- what a `required` (supplied) / `exist` item reaches: nothing for a zero value, a nil pointer or an
object already visited (`skip`); the report of the nested struct under `Parent.Field`, of the
elements under `Parent.Field[i]`, of the map entries under `Parent.Field[key]`; for a non-empty
scalar one "nonsupport" clause (only under `exist`) -/
def sExistTop (cfg : StructCfg) (sn fname : Bytes) (v : GoVal) (isValidTvKind skip : Bool) (cusMsg : Bytes) : M (List Ev) :=
  match v with
  | .ptr _ none => pure []
  | .ptr _ (some t) => sExistStripped cfg sn fname t isValidTvKind skip cusMsg
  | .struct t n isTime fs =>
    if fs.allZero || isTime || skip then pure []
    else sFields cfg (structEnter cfg (sn ++ [46] ++ fname) t n).1 (structEnter cfg (sn ++ [46] ++ fname) t n).2 fs
  | .slice _ _ n es => if n || skip then pure [] else sElems cfg (sn ++ [46] ++ fname) 0 es
  | .array _ _ es => if es.allZero || skip then pure [] else sElems cfg (sn ++ [46] ++ fname) 0 es
  | .map _ _ n es =>
    if n || skip then pure []
    else sEntries cfg (sn ++ [46] ++ fname ++ [91]) es >>= fun a => pure (.mark 0 :: a)
  | .str s => pure (if s.isEmpty then [] else sExistScalar sn fname cusMsg (.str s) isValidTvKind)
  | .bool x => pure (if !x then [] else sExistScalar sn fname cusMsg (.bool x) isValidTvKind)
  | .int bits z => pure (if z == 0 then [] else sExistScalar sn fname cusMsg (.int bits z) isValidTvKind)
  | .uint bits n => pure (if n == 0 then [] else sExistScalar sn fname cusMsg (.uint bits n) isValidTvKind)
  | .float bits f r1 r2 => pure (if f.isZero then [] else sExistScalar sn fname cusMsg (.float bits f r1 r2) isValidTvKind)
  | .iface t d => pure (if d.isNone then [] else sExistScalar sn fname cusMsg (.iface t d) isValidTvKind)
  | .other k t n z => pure (if z then [] else sExistScalar sn fname cusMsg (.other k t n z) isValidTvKind)

/-- the same below a non-nil pointer (no zero test any more) -/
def sExistStripped (cfg : StructCfg) (sn fname : Bytes) (v : GoVal) (isValidTvKind skip : Bool) (cusMsg : Bytes) : M (List Ev) :=
  match v with
  | .ptr _ none => pure []
  | .ptr _ (some t) => sExistStripped cfg sn fname t isValidTvKind skip cusMsg
  | .struct t n isTime fs =>
    if isTime || skip then pure []
    else sFields cfg (structEnter cfg (sn ++ [46] ++ fname) t n).1 (structEnter cfg (sn ++ [46] ++ fname) t n).2 fs
  | .slice _ _ _ es => if skip then pure [] else sElems cfg (sn ++ [46] ++ fname) 0 es
  | .array _ _ es => if skip then pure [] else sElems cfg (sn ++ [46] ++ fname) 0 es
  | .map _ _ _ es =>
    if skip then pure []
    else sEntries cfg (sn ++ [46] ++ fname ++ [91]) es >>= fun a => pure (.mark 0 :: a)
  | .str s => pure (sExistScalar sn fname cusMsg (.str s) isValidTvKind)
  | .bool x => pure (sExistScalar sn fname cusMsg (.bool x) isValidTvKind)
  | .int bits z => pure (sExistScalar sn fname cusMsg (.int bits z) isValidTvKind)
  | .uint bits n => pure (sExistScalar sn fname cusMsg (.uint bits n) isValidTvKind)
  | .float bits f r1 r2 => pure (sExistScalar sn fname cusMsg (.float bits f r1 r2) isValidTvKind)
  | .iface t d => pure (sExistScalar sn fname cusMsg (.iface t d) isValidTvKind)
  | .other k t n z => pure (sExistScalar sn fname cusMsg (.other k t n z) isValidTvKind)

/-- elements in index order, each named `path[i]` -/
def sElems (cfg : StructCfg) (path : Bytes) (i : Nat) (es : GoVals) : M (List Ev) :=
  match es with
  | .nil => pure []
  | .cons v rest =>
    sValidate cfg (path ++ [91] ++ natToBytes i ++ [93]) v true >>= fun a =>
    sElems cfg path (i + 1) rest >>= fun b => pure (a ++ b)

/-- map entries in iteration order, each named `path[key]` (`pathOpen` ends with `[`) -/
def sEntries (cfg : StructCfg) (pathOpen : Bytes) (es : Entries) : M (List Ev) :=
  match es with
  | .nil => pure [.mark 2]
  | .cons k v rest =>
    keyStr cfg.ext k >>= fun ks =>
    sValidate cfg (pathOpen ++ ks ++ [93]) v true >>= fun a =>
    sEntries cfg pathOpen rest >>= fun b => pure (.mark 1 :: a ++ b)
end

end PGV.Spec.Clauses
