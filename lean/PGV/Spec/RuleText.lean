import PGV.Basic
import PGV.Model.Utf8
import PGV.Model.RuleText

/-!
# Spec for the rule-text layer (C14)

Written independently of the loop in `Model.RuleText`: a quote-aware split by direct structural
recursion, and the documented wrapping of rule values.
-/

namespace PGV.Spec

open PGV PGV.Model

/-- put a byte in front of the first piece -/
def consHead (c : UInt8) : List Bytes → List Bytes
  | [] => [[c]]
  | p :: ps => (c :: p) :: ps

/-- quote-aware pieces: separators split only outside `'…'`; the head of the result is the piece
being read.  Always non-empty. -/
def pieces (sep : UInt8) : Bool → Bytes → List Bytes
  | _, [] => [[]]
  | false, c :: t =>
    if c == QUOTE then consHead c (pieces sep true t)
    else if c == sep then [] :: pieces sep false t
    else consHead c (pieces sep false t)
  | true, c :: t =>
    if c == QUOTE then consHead c (pieces sep false t)
    else consHead c (pieces sep true t)

def dropLastEmpty (l : List Bytes) : List Bytes :=
  match l.getLast? with
  | some [] => l.dropLast
  | _ => l

/-- what a correct splitter may return: the quote-aware pieces, up to one trailing empty piece -/
def splitOk (s : Bytes) (sep : UInt8) (out : List Bytes) : Bool :=
  if s.isEmpty then out.isEmpty
  else out == pieces sep false s || out == dropLastEmpty (pieces sep false s)

/-- the no-loss law: pieces joined by the separator give back the text, up to one trailing sep -/
def noLoss (s : Bytes) (sep : UInt8) (out : List Bytes) : Bool :=
  Bytes.join [sep] out == s || Bytes.join [sep] out ++ [sep] == s

/-! ### round trip: a rule is (key, optional value, optional message) -/

structure Rule where
  key : Bytes
  value : Option Bytes
  msg : Option Bytes
deriving Repr, BEq, DecidableEq

/-- arguments passed to `GenValidKV` for a rule (the documented helper call) -/
def Rule.genArgs (r : Rule) : List Bytes :=
  match r.value, r.msg with
  | none, none => []
  | some v, none => [v]
  | none, some m => [[], m]
  | some v, some m => [v, m]

/-- the documented wrapping of the value by the builder -/
def Rule.expectedValue (r : Rule) : Bytes :=
  match r.value with
  | none => []
  | some v =>
    if v.isEmpty then []
    else if r.key == vIn || r.key == vInclude then [40] ++ v ++ [41]
    else if r.key == vRe then [QUOTE] ++ v ++ [QUOTE]
    else v

/-- what the parser must give back: same key, wrapped value, labelled message -/
def Rule.expected (r : Rule) : Bytes × Bytes × Bytes :=
  (r.key, r.expectedValue, match r.msg with | none => [] | some m => labelMsg m)

def noByte (c : UInt8) (s : Bytes) : Bool := !Bytes.hasByte s c

/-- Well-formed rules in the sense of the property: documented shape of key, value, message.
* key: non-empty, no `, ' = |`
* value (if given): non-empty, no `|`, no quote, no comma, does not start with `=`
  (for `re` the value is the bare pattern; the builder adds the quotes)
  for `re` the pattern may contain commas (they end up inside the quotes) but no quote
* message (if given): non-empty, no comma, no quote -/
def Rule.wf (r : Rule) : Bool :=
  !r.key.isEmpty && noByte COMMA r.key && noByte QUOTE r.key && noByte EQ r.key && noByte BAR r.key
  && (match r.value with
      | none => true
      | some v => !v.isEmpty && noByte BAR v && noByte QUOTE v && v.head? != some EQ
                  && (r.key == vRe || noByte COMMA v))
  && (match r.msg with
      | none => true
      | some m => !m.isEmpty && noByte COMMA m && noByte QUOTE m)

end PGV.Spec
