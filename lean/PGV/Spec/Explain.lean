import PGV.Model.Explain

/-!
# Spec for C15: clause text and the explanation extractor

An error is a list of clauses.  A clause is either *labelled* — `prefix <label> explanation`, where
the label is `说明:` / `explain:` — or *unlabelled* (e.g. "valid "x" is not exist").  The extractor
returns exactly the explanations of the labelled clauses, in order, joined by `ErrEndFlag`.
-/

namespace PGV.Spec.Explain

open PGV PGV.Model

inductive Clause where
  | labelled (pre : Bytes) (zh : Bool) (expl : Bytes)
  | plain (text : Bytes)
deriving Repr

def label (zh : Bool) : Bytes := if zh then explainZh else explainEn

def Clause.text : Clause → Bytes
  | .labelled pre zh expl => pre ++ label zh ++ [SP] ++ expl
  | .plain t => t

/-- the error string of a clause list (`getError`: joined by `ErrEndFlag`, none trailing) -/
def render (cs : List Clause) : Bytes := Bytes.join errEndFlag (cs.map Clause.text)

/-- the explanation a clause carries -/
def Clause.expl? : Clause → Option Bytes
  | .labelled _ _ expl => some expl
  | .plain _ => none

/-- what the property demands -/
def extract (cs : List Clause) : Bytes := Bytes.join errEndFlag (cs.filterMap Clause.expl?)

/-- no occurrence of `"; "` -/
def noSep : Bytes → Bool
  | x :: y :: rest => !(x == 59 && y == 32) && noSep (y :: rest)
  | _ => true

/-- the clause does not itself contain the separator, and the first label occurring in it is its own
label at its own position (i.e. the path / input part in front of it does not look like a label) -/
def Clause.clean : Clause → Bool
  | .labelled pre zh expl =>
    noSep (pre ++ label zh ++ [SP] ++ expl) &&
      (match firstLabel (pre ++ label zh ++ [SP] ++ expl) with
       | some (s, l) => s == pre.length && l == (label zh).length
       | none => false)
  | .plain t => noSep t && (firstLabel t).isNone

end PGV.Spec.Explain
