import PGV.Model.Cache

/-!
# C08 — the struct-type cache is transparent

For *every* sound cache (default LRU, LRU of any capacity, unbounded map, a cache that forgets
everything, …), every validation call — any number of type lookups, in any order — and every
history of calls: each call returns exactly what it returns without a cache.  The cache key is
(type, target tag), so the rules are always those of the tag name the call asks for.
-/

namespace PGV.Props.C08
open PGV.Model.Cache

variable {κ ν ρ : Type}

/-- everything the cache holds is what analysing that key gives -/
def Coherent (C : CacheImpl κ ν) (S : Sound C) (analyse : κ → ν) (s : C.σ) : Prop :=
  ∀ k v, S.Held s k v → v = analyse k

theorem getST_coherent (C : CacheImpl κ ν) (S : Sound C) (analyse : κ → ν) (s : C.σ) (k : κ)
    (h : Coherent C S analyse s) :
    (getST C analyse s k).1 = analyse k ∧ Coherent C S analyse (getST C analyse s k).2 := by
  unfold getST
  rcases hl : C.load s k with ⟨r, s'⟩
  have hframe : Coherent C S analyse s' := fun k' v' hv => h k' v' (S.load_frame s k r s' k' v' hl hv)
  cases r with
  | some v =>
    exact ⟨h k v (S.load_sound s k v s' hl), hframe⟩
  | none =>
    refine ⟨by simp, ?_⟩
    show Coherent C S analyse (C.store s' k (analyse k))
    intro k' v' hv
    rcases S.store_frame s' k (analyse k) k' v' hv with ⟨rfl, rfl⟩ | hold
    · rfl
    · exact hframe k' v' hold

/-- one call: with a coherent cache the result is the cache-free result, and the cache stays coherent
(what the call stores is `(k, analyse k)`) -/
theorem C08_call_transparent (C : CacheImpl κ ν) (S : Sound C) (analyse : κ → ν) (p : Prog κ ν ρ) (s : C.σ)
    (h : Coherent C S analyse s) :
    (p.runC C analyse s).1 = p.runPure analyse ∧ Coherent C S analyse (p.runC C analyse s).2 := by
  induction p generalizing s with
  | done r => exact ⟨rfl, h⟩
  | lookup k cont ih =>
    obtain ⟨hv, hc⟩ := getST_coherent C S analyse s k h
    simp only [Prog.runC, Prog.runPure]
    rcases hg : getST C analyse s k with ⟨v, s'⟩
    rw [hg] at hv hc
    simp only at hv hc ⊢
    subst hv
    exact ih (analyse k) s' hc

/-- every history, from any coherent state: every call returns its cache-free result -/
theorem C08_history_from (C : CacheImpl κ ν) (S : Sound C) (analyse : κ → ν) (ps : List (Prog κ ν ρ)) (s : C.σ)
    (h : Coherent C S analyse s) :
    (runHistory C analyse ps s).1 = ps.map (Prog.runPure analyse) := by
  induction ps generalizing s with
  | nil => rfl
  | cons p ps ih =>
    obtain ⟨hr, hc⟩ := C08_call_transparent C S analyse p s h
    simp only [runHistory, List.map_cons]
    rcases hp : p.runC C analyse s with ⟨r, s'⟩
    rw [hp] at hr hc
    simp only at hr hc
    have := ih s' hc
    rcases hh : runHistory C analyse ps s' with ⟨rs, s''⟩
    rw [hh] at this
    simp only at this ⊢
    rw [hr, this]

/-- **transparency**: every history of calls from process start, for every sound cache -/
theorem C08_history (C : CacheImpl κ ν) (S : Sound C) (analyse : κ → ν) (ps : List (Prog κ ν ρ)) :
    (runHistory C analyse ps C.init).1 = ps.map (Prog.runPure analyse) :=
  C08_history_from C S analyse ps C.init (fun k v hv => absurd hv (S.init k v))

/-- the result of a call does not depend on which (sound) cache is installed -/
theorem C08_cache_independent (C₁ C₂ : CacheImpl κ ν) (S₁ : Sound C₁) (S₂ : Sound C₂) (analyse : κ → ν)
    (ps : List (Prog κ ν ρ)) :
    (runHistory C₁ analyse ps C₁.init).1 = (runHistory C₂ analyse ps C₂.init).1 := by
  rw [C08_history C₁ S₁, C08_history C₂ S₂]

/-! ### the caches the property names are sound -/

def missSound : Sound (missCache κ ν) :=
  { Held := fun _ _ _ => False
    init := fun _ _ h => h
    load_sound := by intro s k v s' h; cases h
    load_frame := by intro s k r s' k' v' _ h; exact h
    store_frame := by intro s k v k' v' h; exact absurd h id }

def mapSound [DecidableEq κ] : Sound (mapCache κ ν) :=
  { Held := fun (s : List (κ × ν)) k v => (k, v) ∈ s,
    init := by intro k v h; exact absurd h (by simp [mapCache]),
    load_sound := by
      intro (s : List (κ × ν)) k v s' h
      have h1 : (s.find? (·.1 == k)).map (·.2) = some v := (Prod.mk.inj h).1
      rw [Option.map_eq_some_iff] at h1
      obtain ⟨⟨k0, v0⟩, hf, hv⟩ := h1
      have hm := List.mem_of_find?_eq_some hf
      have hk := List.find?_some hf
      simp at hk hv; subst hk hv; exact hm
    load_frame := by
      intro (s : List (κ × ν)) k r s' k' v' h hv
      have h2 : s = s' := (Prod.mk.inj h).2
      subst h2; exact hv
    store_frame := by
      intro (s : List (κ × ν)) k v k' v' h
      have h' : (k', v') ∈ (k, v) :: s.filter (·.1 != k) := h
      simp only [List.mem_cons, Prod.mk.injEq, List.mem_filter] at h'
      rcases h' with h' | h'
      · left; exact h'
      · right; exact h'.1 }

theorem lru_load_eq (cap : Nat) (s : PGV.Spec.LRU.Sp) (k : Nat) :
    (lruCache cap).load s k = (match s.find? (·.1 == k) with
      | some (_, v) => (some v, (k, v) :: s.filter (·.1 != k))
      | none => (none, s)) := by
  show (match PGV.Spec.LRU.step cap s (.load k) with
      | (s', .hit v) => (some v, s')
      | (s', _) => (none, s')) = _
  simp only [PGV.Spec.LRU.step]
  cases s.find? (·.1 == k) with
  | none => rfl
  | some p => rcases p with ⟨k0, v0⟩; rfl

/-- the bounded LRU of every capacity (incl. 0): what `Load` returns was stored under that key -/
def lruSound (cap : Nat) : Sound (lruCache cap) :=
  { Held := fun (s : PGV.Spec.LRU.Sp) k v => (k, v) ∈ s,
    init := by intro k v h; exact absurd h (by simp [lruCache]),
    load_sound := by
      intro (s : PGV.Spec.LRU.Sp) k v s' h
      rw [lru_load_eq] at h
      cases hf : s.find? (·.1 == k) with
      | none => rw [hf] at h; cases h
      | some p =>
        rcases p with ⟨k0, v0⟩
        rw [hf] at h
        have hv : v0 = v := by have := (Prod.mk.inj h).1; simpa using this
        have hm := List.mem_of_find?_eq_some hf
        have hk := List.find?_some hf
        simp at hk; subst hk hv; exact hm
    load_frame := by
      intro (s : PGV.Spec.LRU.Sp) k r s' k' v' h hv
      rw [lru_load_eq] at h
      cases hf : s.find? (·.1 == k) with
      | none =>
        rw [hf] at h
        have : s = s' := (Prod.mk.inj h).2
        subst this; exact hv
      | some p =>
        rcases p with ⟨k0, v0⟩
        rw [hf] at h
        have hs : (k, v0) :: s.filter (·.1 != k) = s' := (Prod.mk.inj h).2
        have hv' : (k', v') ∈ (k, v0) :: s.filter (·.1 != k) := by rw [hs]; exact hv
        simp only [List.mem_cons, Prod.mk.injEq, List.mem_filter] at hv'
        rcases hv' with ⟨rfl, rfl⟩ | hv'
        · have hm := List.mem_of_find?_eq_some hf
          have hk := List.find?_some hf
          simp at hk; subst hk; exact hm
        · exact hv'.1
    store_frame := by
      intro (s : PGV.Spec.LRU.Sp) k v k' v' h
      have h' : (k', v') ∈ (PGV.Spec.LRU.step cap s (.store k v)).1 := h
      simp only [PGV.Spec.LRU.step] at h'
      split at h'
      · simp only [List.mem_cons, Prod.mk.injEq, List.mem_filter] at h'
        rcases h' with h' | h'
        · left; exact h'
        · right; exact h'.1
      · split at h'
        · have := List.dropLast_subset _ h'
          simp only [List.mem_cons, Prod.mk.injEq] at this
          rcases this with h'' | h''
          · left; exact h''
          · right; exact h''
        · simp only [List.mem_cons, Prod.mk.injEq] at h'
          rcases h' with h'' | h''
          · left; exact h''
          · right; exact h'' }

/-- non-vacuity: capacity 1, three types, the first one is evicted and analysed again -/
example :
    let p (k : Nat) : Prog Nat Nat Nat := .lookup k fun v => .done v
    (runHistory (lruCache 1) (fun k => 10 * k) [p 1, p 2, p 1, p 1] (lruCache 1).init).1 = [10, 20, 10, 10] := by decide

end PGV.Props.C08
