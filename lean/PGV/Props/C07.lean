import PGV.Proofs.Inject
import PGV.Proofs.TagScan

/-!
# C07 — tag injection is idempotent
-/

namespace PGV.Props.C07
open PGV PGV.Model PGV.Model.Inject PGV.Spec.Inject PGV.Proofs.Inject

/-- merging the same comment into an already merged tag changes nothing -/
theorem C07_merge_idem (old inj : TagItems) (hnd : (keys inj).Nodup) :
    merge (merge old inj) inj = merge old inj := merge_idem old inj hnd

/-- re-reading the literal the injector wrote gives back the merged items -/
def Chunk.rereads : Chunk → Prop
  | .plain _ => True
  | .tagged text inj =>
    newTagItems (newTextWith merge text inj) = merge (newTagItems text) (newTagItems inj) ∧ (keys (newTagItems inj)).Nodup

/-- **the file**: injecting into an injected file leaves every chunk as it is -/
theorem C07_file_idem (cs : List Chunk) (h : ∀ c ∈ cs, Chunk.rereads c) :
    Spec.Inject.inject (Spec.Inject.inject cs) = Spec.Inject.inject cs := by
  unfold Spec.Inject.inject injectWith
  rw [List.map_map]
  apply List.map_congr_left
  intro c hc
  cases c with
  | plain bs => rfl
  | tagged text inj =>
    have := h _ hc
    simp only [Chunk.rereads] at this
    simp only [Function.comp, Chunk.injectWith]
    congr 1
    unfold newTextWith at this ⊢
    rw [this.1, merge_idem _ _ this.2]

/-- `n` runs in a row -/
def runs : Nat → List Chunk → List Chunk
  | 0, cs => cs
  | n + 1, cs => Spec.Inject.inject (runs n cs)

/-- any number of runs: after the first nothing changes any more -/
theorem C07_iterate (cs : List Chunk) (h : ∀ c ∈ cs, Chunk.rereads c) (n : Nat) :
    runs (n + 1) cs = Spec.Inject.inject cs := by
  induction n with
  | zero => rfl
  | succ n ih =>
    show Spec.Inject.inject (runs (n + 1) cs) = _
    rw [ih, C07_file_idem cs h]

/-- re-reading is never an extra assumption: whatever the literal and the comment contain, the scanner
reads the rewritten literal back as exactly the merged items (`newTagItems ∘ format = id` on items in
conventional form, and the scanner only ever produces such items) -/
theorem C07_rereads (text inj : Bytes) (hnd : (keys (newTagItems inj)).Nodup) : Chunk.rereads (.tagged text inj) := by
  refine ⟨?_, hnd⟩
  unfold newTextWith
  exact PGV.Proofs.TagScan.newTagItems_format _
    (PGV.Proofs.TagScan.merge_wf _ _ (PGV.Proofs.TagScan.newTagItems_wf text) (PGV.Proofs.TagScan.newTagItems_wf inj))

/-- the comment of an annotated field does not repeat a key -/
def Chunk.distinctComment : Chunk → Prop
  | .plain _ => True
  | .tagged _ inj => (keys (newTagItems inj)).Nodup

/-- **idempotence of the file transformer**, for every file whose comments do not repeat a key: any
tag literals, any bytes in between, any number of annotated fields -/
theorem C07_file_idempotent (cs : List Chunk) (h : ∀ c ∈ cs, Chunk.distinctComment c) :
    Spec.Inject.inject (Spec.Inject.inject cs) = Spec.Inject.inject cs := by
  apply C07_file_idem
  intro c hc
  cases c with
  | plain bs => trivial
  | tagged text inj => exact C07_rereads text inj (h _ hc)

theorem C07_any_number_of_runs (cs : List Chunk) (h : ∀ c ∈ cs, Chunk.distinctComment c) (n : Nat) :
    runs (n + 1) cs = Spec.Inject.inject cs := by
  apply C07_iterate
  intro c hc
  cases c with
  | plain bs => trivial
  | tagged text inj => exact C07_rereads text inj (h _ hc)

/-- a file without annotations is written back unchanged -/
theorem C07_no_annotation_identity (contents : Bytes) : writeFile contents [] = .ok contents := rfl

example : Chunk.rereads (.tagged (b! "json:\"id,omitempty\" form:\"id\"") (b! "valid:\"required\" json:\"id\"")) := by
  unfold Chunk.rereads; decide

end PGV.Props.C07
