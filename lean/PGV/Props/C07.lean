import PGV.Proofs.Inject

/-!
# C07 — tag injection is idempotent
-/

namespace PGV.Props.C07
open PGV PGV.Model PGV.Model.Inject PGV.Spec.Inject PGV.Proofs.Inject

/-- merging the same comment into an already merged tag changes nothing -/
theorem C07_merge_idem (old inj : TagItems) (hnd : (keys inj).Nodup) :
    merge (merge old inj) inj = merge old inj := merge_idem old inj hnd

/-- re-reading the literal the injector wrote gives back the merged items -/
def Chunk.rereads : Chunk → Prop
  | .plain _ => True
  | .tagged text inj =>
    newTagItems (newTextWith merge text inj) = merge (newTagItems text) (newTagItems inj) ∧ (keys (newTagItems inj)).Nodup

/-- **the file**: injecting into an injected file leaves every chunk as it is -/
theorem C07_file_idem (cs : List Chunk) (h : ∀ c ∈ cs, Chunk.rereads c) :
    Spec.Inject.inject (Spec.Inject.inject cs) = Spec.Inject.inject cs := by
  unfold Spec.Inject.inject injectWith
  rw [List.map_map]
  apply List.map_congr_left
  intro c hc
  cases c with
  | plain bs => rfl
  | tagged text inj =>
    have := h _ hc
    simp only [Chunk.rereads] at this
    simp only [Function.comp, Chunk.injectWith]
    congr 1
    unfold newTextWith at this ⊢
    rw [this.1, merge_idem _ _ this.2]

/-- `n` runs in a row -/
def runs : Nat → List Chunk → List Chunk
  | 0, cs => cs
  | n + 1, cs => Spec.Inject.inject (runs n cs)

/-- any number of runs: after the first nothing changes any more -/
theorem C07_iterate (cs : List Chunk) (h : ∀ c ∈ cs, Chunk.rereads c) (n : Nat) :
    runs (n + 1) cs = Spec.Inject.inject cs := by
  induction n with
  | zero => rfl
  | succ n ih =>
    show Spec.Inject.inject (runs (n + 1) cs) = _
    rw [ih, C07_file_idem cs h]

/-- a file without annotations is written back unchanged -/
theorem C07_no_annotation_identity (contents : Bytes) : writeFile contents [] = .ok contents := rfl

example : Chunk.rereads (.tagged (b! "json:\"id,omitempty\" form:\"id\"") (b! "valid:\"required\" json:\"id\"")) := by
  unfold Chunk.rereads; decide

end PGV.Props.C07
