import PGV.Proofs.Lin
import PGV.Spec.LRU
import PGV.Props.Facts.Lock

/-!
# C10 — the LRU cache is safe and linearizable under concurrent use  (partial)

What a theorem carries: *if* every operation of the cache runs atomically at one point between its
invocation and its response — which is what holding one mutex for the whole method body provides —
then for any number of threads and every interleaving the history is linearizable with respect to
the sequential bounded LRU (`Spec.LRU.step`, which by C09 is what the implementation computes
sequentially), and at quiescence the state is the result of that sequential run.  That the methods
do hold the lock that way is the source fact `T2_lock_discipline`, re-extracted on every run.
What no theorem here carries: that `sync.RWMutex` provides the atomicity, and data-race freedom in the
sense of the Go memory model — supported by the `-race` streams only.
-/

namespace PGV.Props.C10
open PGV.Proofs.Lin PGV.Model.LRU

/-- every reachable configuration of the interleaving semantics over the sequential LRU of capacity
`cap`: the order of the critical sections is a legal sequential history ending in the shared state,
contains every returned operation with the result it returned, and respects real-time order -/
theorem C10_linearizable (cap : Nat) (c : Cfg PGV.Spec.LRU.Sp Op Out)
    (h : Reach (PGV.Spec.LRU.step cap) [] c) : Inv (PGV.Spec.LRU.step cap) [] c :=
  inv_reach (PGV.Spec.LRU.step cap) [] c h

/-- the shared state is always the result of running the linearization sequentially from the empty cache -/
theorem C10_state_is_sequential (cap : Nat) (c : Cfg PGV.Spec.LRU.Sp Op Out)
    (h : Reach (PGV.Spec.LRU.step cap) [] c) : seqOk (PGV.Spec.LRU.step cap) [] c.lin = some c.shared :=
  (C10_linearizable cap c h).legal

/-- an operation that has returned is in the linearization -/
theorem C10_returned_linearized (cap : Nat) (c : Cfg PGV.Spec.LRU.Sp Op Out)
    (h : Reach (PGV.Spec.LRU.step cap) [] c) (a : Nat) (ha : a ∈ c.returned) : ∃ e ∈ c.lin, e.1 = a :=
  (C10_linearizable cap c h).ret_lin a ha

/-- real time: if `a` returned before `b` was invoked and `b` is linearized, `a` precedes `b` -/
theorem C10_real_time (cap : Nat) (c : Cfg PGV.Spec.LRU.Sp Op Out)
    (h : Reach (PGV.Spec.LRU.step cap) [] c) (a b : Nat) (hab : (a, b) ∈ c.rt)
    (l1 : List (Nat × Op × Out)) (eb : Nat × Op × Out) (l2 : List (Nat × Op × Out))
    (hl : c.lin = l1 ++ eb :: l2) (hb : eb.1 = b) : ∃ ea ∈ l1, ea.1 = a :=
  (C10_linearizable cap c h).rt_ok a b hab l1 eb l2 hl hb

/-- the source fact the theorem's premise rests on -/
theorem C10_lock_discipline : PGV.Expected.lockOK PGV.Generated.lockFacts = true := PGV.Props.Facts.T2_lock_discipline

/-- the obligation is not vacuous: `Load` under a read lock (it reorders the list) is rejected -/
example : PGV.Expected.lockOK [("Load", "shared", true, true, []), ("Len", "shared", false, true, [])] = false := by decide
example : PGV.Expected.lockOK [("Dump", "none", false, true, [])] = false := by decide

end PGV.Props.C10
