import PGV.Model.Expected

/-! T2 obligation, re-decided on every run against the facts extracted from /repo's current source.
One module per fact family, so that a broken fact only concerns the properties that rest on it. -/

namespace PGV.Props.Facts
open PGV

/-- no function of package `valid` assigns package-level state except the two registration functions -/
theorem T2_globals : Expected.globalsOK Generated.globalWriters = true := by decide

end PGV.Props.Facts
