import PGV.Model.Expected

/-! T2 obligation, re-decided on every run against the facts extracted from /repo's current source.
One module per fact family, so that a broken fact only concerns the properties that rest on it. -/

namespace PGV.Props.Facts
open PGV

/-- `validName2FnMap` binds every rule name to the function the model's table binds it to -/
theorem T2_rule_table : Expected.ruleTableOK Generated.ruleTable = true := by decide

/-- the model's rule table has exactly the rule names of the code's table -/
theorem T2_model_keys : Expected.modelKeysOK Generated.ruleKeys = true := by decide

end PGV.Props.Facts
