import PGV.Model.Expected

/-! T2 obligation, re-decided on every run against the facts extracted from /repo's current source.
One module per fact family, so that a broken fact only concerns the properties that rest on it. -/

namespace PGV.Props.Facts
open PGV

/-- every method of `LRUCache` that writes shared state holds the exclusive lock for its whole body,
every reader at least the shared lock; lock-free helpers that touch shared state are reached only
from methods holding the exclusive lock (through any chain of such helpers); no method takes the
lock twice -/
theorem T2_lock_discipline : Expected.lockOK Generated.lockFacts = true := by decide

end PGV.Props.Facts
