import PGV.Model.Expected

/-! T2 obligation, re-decided on every run against the facts extracted from /repo's current source.
One module per fact family, so that a broken fact only concerns the properties that rest on it. -/

namespace PGV.Props.Facts
open PGV

/-- every zero-copy `[]byte → string` conversion of package `valid` is applied to a buffer made in the
same function, after the last write to it and outside loops (C12: "the error text and parsed rule
tokens it handed out never change when later calls reuse internal buffers") -/
theorem T2_alias : Expected.aliasOK Generated.aliasFacts = true := by decide

end PGV.Props.Facts
