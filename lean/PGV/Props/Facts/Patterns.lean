import PGV.Model.Expected

/-! T2 obligation, re-decided on every run against the facts extracted from /repo's current source.
One module per fact family, so that a broken fact only concerns the properties that rest on it. -/

namespace PGV.Props.Facts
open PGV

set_option maxRecDepth 100000 in
/-- the regular expressions of `valid/init.go` and `file/parse.go` are (up to `regexp/syntax`
normalisation) the ones the recognisers and scanners of the model transcribe -/
theorem T2_patterns : Expected.patternsOK Generated.patterns = true := by decide

end PGV.Props.Facts
