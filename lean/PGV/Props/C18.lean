import PGV.Props.C01
import PGV.Proofs.Walker
import PGV.Proofs.Indep
import PGV.Proofs.Total

/-!
# C18 — same rule, same value, same verdict through every entry point

* every walker hands a non-empty value to the *same* function — the one the rule name resolves to —
  with the same rule text and value; only the names used in the clause differ
  (`C18_struct_dispatch`, `C18_flat_dispatch`);
* for the size rules the verdict of that function does not depend on those names at all
  (`C18_size_verdict_carrier_indep`, from C01);
* a URL parameter value survives percent-encoding: `QueryUnescape (QueryEscape s) = s` for every byte
  string (`C18_query_roundtrip`).
-/

namespace PGV.Props.C18
open PGV PGV.Model PGV.Proofs.Walker PGV.Spec.Size PGV.Props.C01

theorem C18_struct_dispatch (ext : Ext) (fns : FnTables) (scope sn fname : Bytes) (v : GoVal)
    (descend : Bool → Bool → Bytes → WSt → M WSt) (r : Bytes) (run) (rs : List Bytes) (d : Bool) (st : WSt)
    (hr : r ≠ []) (hk : resolveFn fns (parseValidNameKV r).1 = .builtin run) (hz : v.isZero = false) :
    fieldRules ext fns scope sn fname v descend (r :: rs) d st
      = (run ext r sn fname v >>= fun t => fieldRules ext fns scope sn fname v descend rs d (st.write t)) :=
  fieldRules_builtin ext fns scope sn fname v descend r run rs d st hr hk hz

theorem C18_flat_dispatch (c : FlatCfg) (scope ne nc : Bytes) (v : GoVal) (r : Bytes) (run)
    (rs : List Bytes) (st : WSt) (hr : r ≠ []) (hk : resolveFn c.fns (parseValidNameKV r).1 = .builtin run)
    (hz : c.isEmpty v = false) :
    flatRules c scope ne nc v (r :: rs) st
      = (run c.ext r [] nc v >>= fun t => flatRules c scope ne nc v rs (st.write t)) :=
  flatRules_builtin c scope ne nc v r run rs st hr hk hz

/-- size rules: whatever object / field names the carrier uses (`T.F`, `map[k]`, `k`, none), the
verdict is the same function of (rule, value) -/
theorem C18_size_verdict_carrier_indep (ext : Ext) (text obj₁ field₁ obj₂ field₂ : Bytes) (v : GoVal)
    (r : SizeRule) (lo hi : Int) (m : Measure)
    (hk : SizeRule.ofKey (parseValidNameKV text).1 = some r)
    (hb : parseBounds r (parseValidNameKV text).2.1 = some (lo, hi))
    (hm : Spec.Size.measure v = some m) (hx : boundsExact v lo hi = true) :
    ∃ run, builtin (parseValidNameKV text).1 = some (.fn run) ∧
      Judged (run ext text obj₁ field₁ v) (inSet r lo hi m = false) ∧
      Judged (run ext text obj₂ field₂ v) (inSet r lo hi m = false) := by
  obtain ⟨run, h1, j1⟩ := C01_verdict ext text obj₁ field₁ v r lo hi m hk hb hm hx
  obtain ⟨run', h2, j2⟩ := C01_verdict ext text obj₂ field₂ v r lo hi m hk hb hm hx
  rw [h1] at h2; cases h2
  exact ⟨run, h1, j1, j2⟩

/-- **every rule of the table**: run on the same rule text and value, the function writes a clause under
one carrier's names (`T.F`, `map[k]`, `k`, none) exactly when it writes one under another's, and asks
the same residual question otherwise — the verdict is a function of (rule, value) alone -/
theorem C18_verdict_carrier_indep (key : Bytes) (run) (h : builtin key = some (.fn run))
    (e : Ext) (text obj₁ field₁ obj₂ field₂ : Bytes) (v : GoVal) :
    PGV.Proofs.Indep.Sim (run e text obj₁ field₁ v) (run e text obj₂ field₂ v) :=
  PGV.Proofs.Indep.Sim_builtinTable (key, .fn run) (PGV.Proofs.Total.lookup_mem _ _ _ h) run rfl e text obj₁ field₁ obj₂ field₂ v

/-! ### percent-encoding -/

def hexUpper (n : Nat) : UInt8 := if n < 10 then UInt8.ofNat (48 + n) else UInt8.ofNat (55 + n)

/-- `url.QueryEscape`: unreserved bytes `A-Z a-z 0-9 - _ . ~` are kept, space becomes `+`,
everything else `%XX` (upper-case hex) -/
def shouldKeep (c : UInt8) : Bool :=
  (65 ≤ c && c ≤ 90) || (97 ≤ c && c ≤ 122) || (48 ≤ c && c ≤ 57) || c == 45 || c == 95 || c == 46 || c == 126

def queryEscape : Bytes → Bytes
  | [] => []
  | c :: rest =>
    if c == 32 then 43 :: queryEscape rest
    else if shouldKeep c then c :: queryEscape rest
    else 37 :: hexUpper (c.toNat / 16) :: hexUpper (c.toNat % 16) :: queryEscape rest

theorem hexNibble_hexUpper (n : Nat) (h : n < 16) : hexNibble? (hexUpper n) = some n := by
  have : n = 0 ∨ n = 1 ∨ n = 2 ∨ n = 3 ∨ n = 4 ∨ n = 5 ∨ n = 6 ∨ n = 7 ∨ n = 8 ∨ n = 9 ∨ n = 10 ∨ n = 11
      ∨ n = 12 ∨ n = 13 ∨ n = 14 ∨ n = 15 := by omega
  rcases this with h | h | h | h | h | h | h | h | h | h | h | h | h | h | h | h <;> subst h <;> decide

theorem byte_cases (P : UInt8 → Prop) (h : ∀ n : Fin 256, P (UInt8.ofNat n.val)) (c : UInt8) : P c := by
  have := h ⟨c.toNat, UInt8.toNat_lt c⟩
  simpa using this

theorem queryUnescape_plain (c : UInt8) (t : Bytes) (h37 : c ≠ 37) (h43 : c ≠ 43) :
    queryUnescape (c :: t) = (queryUnescape t).map (c :: ·) := by
  generalize hq : queryUnescape t = q
  unfold queryUnescape
  split
  · rename_i heq; cases heq
  · rename_i heq; injection heq with h _; exact absurd h h37
  · rename_i heq; injection heq with h _; exact absurd h h37
  · rename_i heq; injection heq with h _; exact absurd h h43
  · rename_i heq; injection heq with h1 h2; subst h1 h2; rw [hq]

theorem queryUnescape_pct (h l : UInt8) (t : Bytes) (x y : Nat) (hx : hexNibble? h = some x) (hy : hexNibble? l = some y) :
    queryUnescape (37 :: h :: l :: t) = (queryUnescape t).map (UInt8.ofNat (x * 16 + y) :: ·) := by
  rw [queryUnescape]; simp [hx, hy]

theorem queryUnescape_plus (t : Bytes) : queryUnescape (43 :: t) = (queryUnescape t).map (SP :: ·) := by
  rw [queryUnescape]

/-- `QueryUnescape (QueryEscape s) = s` for every byte string -/
theorem C18_query_roundtrip (s : Bytes) : queryUnescape (queryEscape s) = some s := by
  induction s with
  | nil => rfl
  | cons c rest ih =>
    unfold queryEscape
    by_cases h1 : (c == 32) = true
    · rw [if_pos h1]
      have : c = 32 := by simpa using h1
      subst this
      rw [queryUnescape_plus, ih]; rfl
    · rw [if_neg h1]
      by_cases h2 : shouldKeep c = true
      · rw [if_pos h2]
        have hne : c ≠ 37 ∧ c ≠ 43 := by
          revert h2
          refine byte_cases (fun c => shouldKeep c = true → c ≠ 37 ∧ c ≠ 43) ?_ c
          decide +kernel
        rw [queryUnescape_plain c _ hne.1 hne.2, ih]; rfl
      · rw [if_neg h2]
        have hlt1 : c.toNat / 16 < 16 := by have := UInt8.toNat_lt c; omega
        have hlt2 : c.toNat % 16 < 16 := by omega
        rw [queryUnescape_pct _ _ _ _ _ (hexNibble_hexUpper _ hlt1) (hexNibble_hexUpper _ hlt2), ih]
        have : c.toNat / 16 * 16 + c.toNat % 16 = c.toNat := by omega
        rw [this]; simp

end PGV.Props.C18
