import PGV.Proofs.Walker

/-!
# C03 — `required` means "present and non-empty"; every other rule skips empty values

For every configuration, field, value, continuation and state (no bound on anything):
* struct fields: `required` writes its clause exactly when the value is `requiredEmpty` (zero value,
  or slice/array/map of length 0); a supplied value gets no `required` clause (only the descent
  into nested objects, C04);
* `Var`/`Map`/`Url`: the same with each walker's notion of empty;
* every rule dispatched through a function table (built-in, registered, per-call) is skipped on a
  zero value;
* a `Map`/`Url` rule key that is absent from the input violates each `required` item of its rules.
-/

namespace PGV.Props.C03
open PGV PGV.Model PGV.Proofs.Walker

theorem C03_required_empty_struct (ext : Ext) (fns : FnTables) (scope sn fname : Bytes) (v : GoVal)
    (descend : Bool → Bool → Bytes → WSt → M WSt) (r : Bytes) (rs : List Bytes) (d : Bool) (st : WSt) (hr : r ≠ [])
    (hk : resolveFn fns (parseValidNameKV r).1 = .structural) (hreq : (parseValidNameKV r).1 = requiredB)
    (hz : requiredEmpty v = true) :
    fieldRules ext fns scope sn fname v descend (r :: rs) d st
      = fieldRules ext fns scope sn fname v descend rs true
          (st.write (requiredClause sn fname (parseValidNameKV r).2.2)) :=
  fieldRules_required_empty ext fns scope sn fname v descend r rs d st hr hk hreq hz

theorem C03_required_supplied_struct (ext : Ext) (fns : FnTables) (scope sn fname : Bytes) (v : GoVal)
    (descend : Bool → Bool → Bytes → WSt → M WSt) (r : Bytes) (rs : List Bytes) (d : Bool) (st : WSt) (hr : r ≠ [])
    (hk : resolveFn fns (parseValidNameKV r).1 = .structural) (hreq : (parseValidNameKV r).1 = requiredB)
    (hz : requiredEmpty v = false) :
    fieldRules ext fns scope sn fname v descend (r :: rs) d st
      = (descend false d (parseValidNameKV r).2.2 st >>= fun st' =>
          fieldRules ext fns scope sn fname v descend rs true st') :=
  fieldRules_required_supplied ext fns scope sn fname v descend r rs d st hr hk hreq hz

/-- what `required` descends into for a supplied scalar (incl. a non-nil pointer to a scalar): nothing is written -/
theorem C03_supplied_scalar_no_clause (cfg : StructCfg) (sn fname cus : Bytes) (skip : Bool) (st : WSt) (s : Bytes) (hs : s ≠ []) :
    existTop cfg sn fname (.str s) false skip cus st = pure st := by
  have : s.isEmpty = false := by cases s <;> simp_all
  simp [existTop, this, existScalar]

theorem C03_supplied_ptr_scalar_no_clause (cfg : StructCfg) (sn fname cus t : Bytes) (skip : Bool) (st : WSt) (bits : Nat) (z : Int) :
    existTop cfg sn fname (.ptr t (some (.int bits z))) false skip cus st = pure st := by
  simp [existTop, existStripped, existScalar]

theorem C03_zero_skip_struct_builtin (ext : Ext) (fns : FnTables) (scope sn fname : Bytes) (v : GoVal)
    (descend : Bool → Bool → Bytes → WSt → M WSt) (r : Bytes) (run) (rs : List Bytes) (d : Bool) (st : WSt) (hr : r ≠ [])
    (hk : resolveFn fns (parseValidNameKV r).1 = .builtin run) (hz : v.isZero = true) :
    fieldRules ext fns scope sn fname v descend (r :: rs) d st
      = fieldRules ext fns scope sn fname v descend rs d st :=
  fieldRules_builtin_zero ext fns scope sn fname v descend r run rs d st hr hk hz

theorem C03_zero_skip_struct_custom (ext : Ext) (fns : FnTables) (scope sn fname : Bytes) (v : GoVal)
    (descend : Bool → Bool → Bytes → WSt → M WSt) (r mk : Bytes) (rs : List Bytes) (d : Bool) (st : WSt) (hr : r ≠ [])
    (hk : resolveFn fns (parseValidNameKV r).1 = .custom mk) (hz : v.isZero = true) :
    fieldRules ext fns scope sn fname v descend (r :: rs) d st
      = fieldRules ext fns scope sn fname v descend rs d st :=
  fieldRules_custom_zero ext fns scope sn fname v descend r mk rs d st hr hk hz

theorem C03_required_flat (c : FlatCfg) (scope ne nc : Bytes) (v : GoVal) (r : Bytes) (rs : List Bytes) (st : WSt)
    (hr : r ≠ []) (hk : resolveFn c.fns (parseValidNameKV r).1 = .structural)
    (hreq : (parseValidNameKV r).1 = requiredB) :
    flatRules c scope ne nc v (r :: rs) st
      = flatRules c scope ne nc v rs
          (if c.requiredViolated v then st.write (requiredClause [] nc (parseValidNameKV r).2.2) else st) :=
  flatRules_required c scope ne nc v r rs st hr hk hreq

theorem C03_zero_skip_flat_builtin (c : FlatCfg) (scope ne nc : Bytes) (v : GoVal) (r : Bytes) (run) (rs : List Bytes)
    (st : WSt) (hr : r ≠ []) (hk : resolveFn c.fns (parseValidNameKV r).1 = .builtin run) (hz : c.isEmpty v = true) :
    flatRules c scope ne nc v (r :: rs) st = flatRules c scope ne nc v rs st :=
  flatRules_builtin_zero c scope ne nc v r run rs st hr hk hz

theorem C03_zero_skip_flat_custom (c : FlatCfg) (scope ne nc : Bytes) (v : GoVal) (r mk : Bytes) (rs : List Bytes)
    (st : WSt) (hr : r ≠ []) (hk : resolveFn c.fns (parseValidNameKV r).1 = .custom mk) (hz : c.isEmpty v = true) :
    flatRules c scope ne nc v (r :: rs) st = flatRules c scope ne nc v rs st :=
  flatRules_custom_zero c scope ne nc v r mk rs st hr hk hz

/-- a rule item that is dispatched through a function table (built-in, registered or per-call) or is empty -/
def tableItem (fns : FnTables) (r : Bytes) : Prop :=
  r = [] ∨ (∃ run, resolveFn fns (parseValidNameKV r).1 = .builtin run) ∨ (∃ mk, resolveFn fns (parseValidNameKV r).1 = .custom mk)

/-- **an optional value left empty never produces an error, whatever table rules are attached to it,
in whatever number and order** (`Var` / `Map` / `Url`): the whole rule loop leaves the state unchanged -/
theorem C03_optional_empty_silent_flat (c : FlatCfg) (scope ne nc : Bytes) (v : GoVal) (rs : List Bytes) (st : WSt)
    (hz : c.isEmpty v = true) (hrs : ∀ r ∈ rs, tableItem c.fns r) :
    flatRules c scope ne nc v rs st = pure st := by
  induction rs generalizing st with
  | nil => exact flatRules_nil c scope ne nc v st
  | cons r rs ih =>
    have hrest : ∀ r ∈ rs, tableItem c.fns r := fun x hx => hrs x (List.mem_cons_of_mem _ hx)
    rcases hrs r (by simp) with h | ⟨run, h⟩ | ⟨mk, h⟩
    · subst h; rw [flatRules_empty]; exact ih st hrest
    · by_cases hr : r = []
      · subst hr; rw [flatRules_empty]; exact ih st hrest
      · rw [flatRules_builtin_zero c scope ne nc v r run rs st hr h hz]; exact ih st hrest
    · by_cases hr : r = []
      · subst hr; rw [flatRules_empty]; exact ih st hrest
      · rw [flatRules_custom_zero c scope ne nc v r mk rs st hr h hz]; exact ih st hrest

/-- the same for a struct field whose value is the zero value -/
theorem C03_optional_empty_silent_struct (ext : Ext) (fns : FnTables) (scope sn fname : Bytes) (v : GoVal)
    (descend : Bool → Bool → Bytes → WSt → M WSt) (rs : List Bytes) (d : Bool) (st : WSt)
    (hz : v.isZero = true) (hrs : ∀ r ∈ rs, tableItem fns r) :
    fieldRules ext fns scope sn fname v descend rs d st = pure st := by
  induction rs generalizing st with
  | nil => exact fieldRules_nil ext fns scope sn fname v descend d st
  | cons r rs ih =>
    have hrest : ∀ r ∈ rs, tableItem fns r := fun x hx => hrs x (List.mem_cons_of_mem _ hx)
    rcases hrs r (by simp) with h | ⟨run, h⟩ | ⟨mk, h⟩
    · subst h; rw [fieldRules_empty]; exact ih st hrest
    · by_cases hr : r = []
      · subst hr; rw [fieldRules_empty]; exact ih st hrest
      · rw [fieldRules_builtin_zero ext fns scope sn fname v descend r run rs d st hr h hz]; exact ih st hrest
    · by_cases hr : r = []
      · subst hr; rw [fieldRules_empty]; exact ih st hrest
      · rw [fieldRules_custom_zero ext fns scope sn fname v descend r mk rs d st hr h hz]; exact ih st hrest

-- the hypotheses are satisfiable: three table rules (one with a message, one empty item) on an empty string
example : tableItem {} (b! "phone") ∧ tableItem {} (b! "to=1~3|too long") ∧ tableItem {} [] ∧ (GoVal.str []).isZero = true := by
  exact ⟨Or.inr (Or.inl ⟨_, rfl⟩), Or.inr (Or.inl ⟨_, rfl⟩), Or.inl rfl, rfl⟩

/-- a rule key that is absent from the input contributes one `required` clause per `required` item of
its rule list, and nothing else; a key that is present contributes nothing here -/
theorem C03_missing_entry (rm : RM) (present : List Bytes) (nameOf : Bytes → Bytes) :
    missingClauses rm present nameOf
      = (sortedRuleKeys rm).flatMap fun key =>
          if present.contains key then []
          else (validNamesSplit (rmGet rm key)).flatMap fun r =>
            if (parseValidNameKV r).1 == requiredB then requiredClause [] (nameOf key) (parseValidNameKV r).2.2 else [] := by
  unfold missingClauses
  rfl

/-! non-vacuity -/
example : requiredEmpty (.slice (b! "[]int") (b! "int") false .nil) = true
    ∧ requiredEmpty (.ptr (b! "*int") (some (.int 0 0))) = false
    ∧ requiredEmpty (.str (b! " ")) = false := by decide

/-- `Map`: the key `a` is missing, `required|need a` is reported under `map[a]` -/
example : missingClauses [(b! "a", b! "to=1~2,required|need a")] [b! "b"] (mapGetKey [])
    = b! "\"map[a]\" input \"\", explain: need a; " := by decide

end PGV.Props.C03
