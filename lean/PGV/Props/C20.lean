import PGV.Proofs.Dump
import PGV.Proofs.JsonRT

/-!
# C20 — the struct dumper emits the JSON text of the value's document

For every in-scope value — structs (also field-less, first / all fields unexported, nested to any
depth), pointers to structs (any level, nil), slices and arrays (nil, empty, any length), maps with
string / integer / bool keys (nil, empty, any number of entries), strings, integers, unsigned
integers, floats, bools — the dumper writes exactly `print (doc v)`: the compact JSON text of the
document `encoding/json` produces with field names as keys, up to the documented deviations.
And that text is well-formed: an independent reader of compact JSON (`Spec/JsonParse.lean`: RFC 8259
numbers, strings without escapes, arrays, objects) reads it back as exactly that document
(`C20_output_parses`, from the round trip `parse (print j) = some j` proved for every well-formed
document by mutual structural induction).
-/

namespace PGV.Props.C20
open PGV PGV.Model PGV.Spec.Json PGV.Proofs.Dump

/-- top-level struct or pointer(s) to struct -/
theorem C20_dump_is_print (v : GoVal) (h : ptrTarget v = true) :
    (getDumpStructStr v).buf = print (doc v) := by
  have := dumpH_ptr v h false {}
  simpa [getDumpStructStr] using this

/-- the dumper only appends: whatever is already in the (pooled) buffer stays in front -/
theorem C20_dump_appends (v : GoVal) (h : ptrTarget v = true) (s : Bool) (st : DSt) :
    (dumpH v s st).buf = st.buf ++ print (doc v) := dumpH_ptr v h s st

/-- a struct: `{`, its exported members separated by single commas, `}` — for any number and position
of unexported fields (also first, also all) and for the field-less struct -/
theorem C20_object (fs : Fields) (h : inScopeFields fs = true) (st : DSt) :
    (dumpObj fs st).buf = st.buf ++ [123] ++ printMembers (docFields fs) ++ [125] := dumpObj_buf fs h st

theorem C20_elements (es : GoVals) (h : inScopeElems es = true) (st : DSt) :
    (dumpElems es st).buf = st.buf ++ printItems (docElems es) := dumpElems_buf es h st

theorem C20_entries (es : Entries) (h : inScopeEntries es = true) (st : DSt) :
    (dumpEntries es st).buf = st.buf ++ printMembers (docEntries es) := dumpEntries_buf es h st

/-- **well-formedness by round trip**: when the strings of the document need no escapes and its
number texts are JSON numbers (`JVal.wf`: the property's "strings without characters needing escapes",
"moderate floats"), the dumper's output is read back by the JSON reader as the document itself -/
theorem C20_output_parses (v : GoVal) (h : ptrTarget v = true) (hw : (doc v).wf = true) :
    parse (getDumpStructStr v).buf = some (doc v) := by
  rw [C20_dump_is_print v h]
  exact PGV.Proofs.JsonRT.parse_print (doc v) hw

/-- the round trip itself, for every well-formed document -/
theorem C20_parse_print (j : JVal) (hw : j.wf = true) : parse (print j) = some j :=
  PGV.Proofs.JsonRT.parse_print j hw

/-- integers of every width and sign are rendered as JSON numbers (no leading zeros, `-` only in front) -/
theorem C20_integers_wellformed (bits : Nat) (z : Int) (n : Nat) :
    (doc (.int bits z)).wf = true ∧ (doc (.uint bits n)).wf = true := by
  have h1 := PGV.Proofs.JsonRT.int_json z
  have h2 := PGV.Proofs.JsonRT.nat_json n
  simp [doc, JVal.wf, h1.1, h1.2, h2.1, h2.2]

/-! non-vacuity: empty struct field, unexported first field, nil pointer, nil slice, string-keyed map, bool -/
example :
    let v : GoVal := .struct (b! "T") (b! "T") false
      (.cons (b! "x") false false [] (.int 0 1)
      (.cons (b! "E") true false [] (.struct (b! "struct {}") [] false .nil)
      (.cons (b! "P") true false [] (.ptr (b! "*T") none)
      (.cons (b! "S") true false [] (.slice (b! "[]int") (b! "int") true .nil)
      (.cons (b! "M") true false [] (.map (b! "map[string]int") true false (.cons (.str (b! "a")) (.int 0 1) (.cons (.str (b! "b")) (.int 0 2) .nil)))
      (.cons (b! "B") true false [] (.bool true) .nil))))))
    ptrTarget v = true ∧ (getDumpStructStr v).buf = b! "{\"E\":{},\"P\":null,\"S\":[],\"M\":{\"a\":1,\"b\":2},\"B\":\"true\"}"
      ∧ (doc v).wf = true ∧ (parse (getDumpStructStr v).buf).map print = some (print (doc v)) := by
  decide

/-- the reader rejects what is not JSON: a trailing comma, a missing comma, a leading zero, a control character -/
example : (parse (b! "[1,]")).isNone ∧ (parse (b! "{\"a\":1\"b\":2}")).isNone ∧ (parse (b! "[01]")).isNone
    ∧ (parse ([34, 9, 34])).isNone ∧ (parse (b! "{\"a\":}")).isNone ∧ (parse (b! "[1,2]x")).isNone := by decide

end PGV.Props.C20
