import PGV.Proofs.Inject

/-!
# C06 — tag injection merges comment tags into struct tags and changes nothing else
-/

namespace PGV.Props.C06
open PGV PGV.Model PGV.Model.Inject PGV.Spec.Inject PGV.Proofs.Inject

/-- the code's key-wise merge is the specified one whenever neither the literal nor the comment repeats a key -/
theorem C06_override_is_merge (old inj : TagItems) (h1 : (keys old).Nodup) (h2 : (keys inj).Nodup) :
    override old inj = merge old inj := override_eq_merge old inj h1 h2

/-- every key of the comment carries exactly the comment's value afterwards -/
theorem C06_merge_lookup_new (old inj : TagItems) (k : Bytes) (hk : k ∈ keys inj) :
    lookup k (merge old inj) = lookup k inj := merge_lookup_new old inj k hk

/-- every key the field already had keeps its position; one the comment does not mention keeps its value too -/
theorem C06_merge_keeps_old (old inj : TagItems) (i : Nat) (o : TagItem) (h : old[i]? = some o) :
    (merge old inj)[i]? = some (upd inj o) ∧ (o.key ∉ keys inj → upd inj o = o) ∧ (upd inj o).key = o.key := by
  have hi : i < old.length := by
    rcases Nat.lt_or_ge i old.length with h' | h'
    · exact h'
    · rw [List.getElem?_eq_none h'] at h; cases h
  refine ⟨by rw [merge_positions old inj i hi, h]; rfl, upd_unmentioned inj o, upd_key inj o⟩

/-- new keys are appended after the existing ones, in comment order -/
theorem C06_merge_appends (old inj : TagItems) :
    merge old inj = old.map (upd inj) ++ inj.filter (fun i => !(keys old).contains i.key) := merge_def old inj

/-- no key is duplicated -/
theorem C06_merge_nodup (old inj : TagItems) (h1 : (keys old).Nodup) (h2 : (keys inj).Nodup) :
    (keys (merge old inj)).Nodup := merge_nodup old inj h1 h2

/-- **the file**: for every file — any number of annotated tag literals anywhere, any bytes in
between — `WriteFile` (areas applied from the end backwards) returns the file in which exactly the
annotated literals carry the merged tags -/
theorem C06_file (cs : List Chunk) (areas : List Area) (hm : AreasMatch 0 cs areas) (hd : ∀ c ∈ cs, c.distinctKeys) :
    writeFile (render cs) areas = .ok (render (Spec.Inject.inject cs)) := by
  have := writeAreas_chunks [] cs areas (by simpa using hm)
  simp only [List.nil_append] at this
  rw [writeFile, this, injectWith_override_eq cs hd]; rfl

/-- every byte outside the annotated literals is unchanged: the plain chunks are the same chunks -/
theorem C06_outside_unchanged (cs : List Chunk) :
    (Spec.Inject.inject cs).map (fun c => match c with | .plain bs => some bs | .tagged _ _ => none)
      = cs.map (fun c => match c with | .plain bs => some bs | .tagged _ _ => none) := by
  unfold Spec.Inject.inject injectWith
  rw [List.map_map]
  apply List.map_congr_left
  intro c _
  cases c <;> rfl

/-! non-vacuity -/
example : override (newTagItems (b! "json:\"id,omitempty\" form:\"id\"")) (newTagItems (b! "valid:\"required\" json:\"id\""))
    = [⟨b! "json", b! "\"id\""⟩, ⟨b! "form", b! "\"id\""⟩, ⟨b! "valid", b! "\"required\""⟩] := by decide

example :
    let cs : List Chunk := [.plain (b! "type T struct {\n\tA int "), .tagged (b! "json:\"a\"") (b! "valid:\"required\""),
      .plain (b! " // @tag valid:\"required\"\n\tB int "), .tagged (b! "json:\"b\"") (b! "json:\"bb\""), .plain (b! " // @tag json:\"bb\"\n}\n")]
    (match writeFile (render cs) (areasOf 0 cs) with | .ok out => some out | _ => none)
      = some (b! "type T struct {\n\tA int `json:\"a\" valid:\"required\"` // @tag valid:\"required\"\n\tB int `json:\"bb\"` // @tag json:\"bb\"\n}\n") := by
  decide

end PGV.Props.C06
