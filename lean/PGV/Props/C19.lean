import PGV.Proofs.Inject

/-!
# C19 — the injector never damages what it cannot process  (crash-freedom: partial)
-/

namespace PGV.Props.C19
open PGV PGV.Model PGV.Model.Inject PGV.Spec.Inject PGV.Proofs.Inject

/-- a file that is not a `.go` file is left byte-identical -/
theorem C19_non_go_untouched (f : FileIn) (h : Bytes.hasSuffix f.name (b! ".go") = false) :
    handleFile f = .ok f.contents := by simp [handleFile, h]; rfl

/-- a file that does not parse is left byte-identical (nothing is written) -/
theorem C19_parse_failure_untouched (f : FileIn) (h : f.ast = none) : handleFile f = .ok f.contents := by
  unfold handleFile
  split
  · rfl
  · rw [h]; rfl

/-- a field without a tag literal yields no area, whatever its comments say -/
theorem C19_no_tag_literal (f : FieldInfo) (h : f.tag = none) : fieldAreas f = [] := by
  unfold fieldAreas
  rw [List.filterMap_eq_nil_iff]
  intro c _
  simp only [h]
  split <;> rfl

/-- a comment that does not contain `@tag ` yields no area -/
theorem C19_mention_only (c : Bytes) (h : Bytes.indexOf? (b! "@tag ") c = none) : tagFromComment c = [] := by
  simp [tagFromComment, h]

/-- only the first type spec of a declaration is looked at, and only if it is a struct type:
functions, imports, constants, variables and non-struct types yield no area -/
theorem C19_other_decls (ds : List DeclInfo)
    (h : ∀ d ∈ ds, match d with
      | .func => True
      | .gen specs => ∀ s ∈ specs, match s with | .structType _ => False | _ => True) :
    parseAreas ⟨ds⟩ = [] := by
  unfold parseAreas
  rw [List.flatMap_eq_nil_iff]
  intro d hd
  have hd' := h d hd
  cases d with
  | func => rfl
  | gen specs =>
    simp only at hd' ⊢
    cases hf : specs.find? (fun s => match s with | .notType => false | _ => true) with
    | none => rfl
    | some s =>
      have hmem := List.mem_of_find?_eq_some hf
      have := hd' s hmem
      cases s <;> simp_all

/-- on a well-formed file the writer does not panic (it returns the specified file) -/
theorem C19_no_panic (cs : List Chunk) (areas : List Area) (hm : AreasMatch 0 cs areas) :
    ∃ out, writeFile (render cs) areas = .ok out := by
  have := writeAreas_chunks [] cs areas (by simpa using hm)
  simp only [List.nil_append] at this
  exact ⟨_, by rw [writeFile, this]; rfl⟩

/-- directory / glob mode: as long as no file makes the tool panic, every file is processed on its
own — the outcome for one file does not depend on the others -/
theorem C19_dir_independent (fs : List FileIn) (h : ∀ f ∈ fs, ∃ out, handleFile f = .ok out) :
    handleFiles fs = fs.map handleFile := by
  induction fs with
  | nil => rfl
  | cons f rest ih =>
    obtain ⟨out, ho⟩ := h f (by simp)
    simp only [handleFiles, ho, List.map_cons]
    rw [ih (fun g hg => h g (by simp [hg]))]

end PGV.Props.C19
