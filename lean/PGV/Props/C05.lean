import PGV.Spec.Lang
import PGV.Props.Facts.Patterns
import PGV.Proofs.LangEq
import PGV.Proofs.Size
import PGV.Proofs.EmailEq
import PGV.Proofs.Accepts
import PGV.Proofs.AcceptsDate

/-!
# C05 — format and content rules accept exactly their documented language

Three layers:
1. `T2_patterns` (re-decided on every run): the regular expressions in the source are, up to
   `regexp/syntax` normalisation, the ones the model's recognisers transcribe.
2. The theorems below: for *every* byte string the model's recognisers agree with the independent
   recognisers of `Spec.Lang` (phone, idcard, int, float, email), the layout builder produces exactly the
   interleaving of components and separators (all separators), and the content rules `unique`,
   `prefix`, `suffix` decide what the documentation says.
3. The `lang` stream: members, single-rune edits of members and random strings through every entry
   point; the implementation's verdict is judged against `Spec.Lang` (also for dates with custom
   separators, in / include / ints), its text against the model.  `net.ParseIP`, `json.Valid`,
   `regexp` on user patterns and `os.Stat` are residuals answered by the standard library.
4. The date rules: `time.Parse` + `Format` is transcribed (`Model/TimeParse.lean`: layout scanner,
   literal text with runs of blanks, the six numeric layout elements, day-of-month validation, the two
   fast paths of `appendInt`) and proved equal to the independent readings `Spec.Lang.year / year2month /
   date / datetime` for every string and every separator of `sepOK` (`C05_year` … `C05_datetime`); layouts
   with any other element stay a residual.
-/

namespace PGV.Props.C05
open PGV PGV.Model PGV.Spec.Lang

/-- `^\d+$` -/
theorem C05_int (s : Bytes) : Model.Lang.intRe s = Spec.Lang.int s := PGV.Proofs.LangEq.int_eq s

/-- `^1[3-9]\d{9}$`: 11 digits, first `1`, second in `3…9` -/
theorem C05_phone (s : Bytes) : Model.Lang.phoneRe s = phone s := PGV.Proofs.LangEq.phone_eq s

/-- `^\d+\.\d+$`: digits, exactly one `.`, digits — for every byte string (the historical defect was an unescaped dot) -/
theorem C05_float (s : Bytes) : Model.Lang.floatRe s = Spec.Lang.float s := PGV.Proofs.LangEq.float_eq s

/-- `(^\d{15}$)|(^\d{18}$)|(^\d{17}(\d|X|x)$)` -/
theorem C05_idcard (s : Bytes) : Model.Lang.idCardRe s = idcard s := PGV.Proofs.LangEq.idcard_eq s

/-- `^\w+([-+.]\w+)*@\w+([-.]\w+)*\.\w+([-.]\w+)*$`: exactly one `@`; the local part is words joined by
single `-`, `+` or `.`; the domain is words joined by single `-` or `.` with at least one `.` — for
every byte string -/
theorem C05_email (s : Bytes) : Model.Lang.emailRe s = Spec.Lang.email s := PGV.Proofs.EmailEq.email_eq s

/-! ### verdicts of the registered rule functions on strings

"violated exactly when the value lies outside the language": the function registered under the
rule name writes a clause for a string `s` iff the independent recogniser of `Spec.Lang` rejects `s`
— for every rule text (custom message or not), object, field and string. -/

theorem strRule_verdict (text obj field s dflt : Bytes) (p : Bytes → Bool) :
    ∃ out, strRule text obj field (.str s) (fun s => pure (p s)) dflt = .ok out ∧ (out ≠ [] ↔ p s = false) := by
  simp only [strRule, checkFieldIsStr, bind, Except.bind, pure, Except.pure]
  cases h : p s with
  | true => exact ⟨[], by simp, by simp⟩
  | false =>
    simp only [Bool.false_eq_true, if_false]
    exact ⟨_, rfl, by simp [PGV.Proofs.Size.violClause_ne_nil]⟩

theorem C05_verdict_phone (ext : Ext) (text obj field s : Bytes) :
    ∃ run, builtin (b! "phone") = some (.fn run) ∧
      ∃ out, run ext text obj field (.str s) = .ok out ∧ (out ≠ [] ↔ phone s = false) := by
  refine ⟨_, rfl, ?_⟩
  rw [← C05_phone]; exact strRule_verdict text obj field s _ _

theorem C05_verdict_email (ext : Ext) (text obj field s : Bytes) :
    ∃ run, builtin (b! "email") = some (.fn run) ∧
      ∃ out, run ext text obj field (.str s) = .ok out ∧ (out ≠ [] ↔ Spec.Lang.email s = false) := by
  refine ⟨_, rfl, ?_⟩
  rw [← C05_email]; exact strRule_verdict text obj field s _ _

theorem C05_verdict_idcard (ext : Ext) (text obj field s : Bytes) :
    ∃ run, builtin (b! "idcard") = some (.fn run) ∧
      ∃ out, run ext text obj field (.str s) = .ok out ∧ (out ≠ [] ↔ idcard s = false) := by
  refine ⟨_, rfl, ?_⟩
  rw [← C05_idcard]; exact strRule_verdict text obj field s _ _

theorem C05_verdict_int (ext : Ext) (text obj field s : Bytes) :
    ∃ run, builtin (b! "int") = some (.fn run) ∧
      ∃ out, run ext text obj field (.str s) = .ok out ∧ (out ≠ [] ↔ Spec.Lang.int s = false) := by
  refine ⟨_, rfl, ?_⟩
  rw [← C05_int]
  simp only [ruleInt, bind, Except.bind, pure, Except.pure]
  cases h : Model.Lang.intRe s with
  | true => exact ⟨[], by simp, by simp⟩
  | false =>
    refine ⟨_, by simp; rfl, ?_⟩
    simp [PGV.Proofs.Size.violClause_ne_nil]

theorem C05_verdict_float (ext : Ext) (text obj field s : Bytes) :
    ∃ run, builtin (b! "float") = some (.fn run) ∧
      ∃ out, run ext text obj field (.str s) = .ok out ∧ (out ≠ [] ↔ Spec.Lang.float s = false) := by
  refine ⟨_, rfl, ?_⟩
  rw [← C05_float]
  simp only [ruleFloat, bind, Except.bind, pure, Except.pure]
  cases h : Model.Lang.floatRe s with
  | true => exact ⟨[], by simp, by simp⟩
  | false =>
    refine ⟨_, by simp; rfl, ?_⟩
    simp [PGV.Proofs.Size.violClause_ne_nil]

/-! ### the whole table of rules that need no residual: model verdict = `Spec.Lang.accepts`

`Spec.Lang.accepts text s` is what the driver evaluates on every probe of the `lang` stream against
the implementation.  For rule texts of the documented shape `key[=arg][|message]` (`mkText`) and
every string, the function registered under the key writes a clause exactly when `accepts` says the
string is outside the language — `in` / `include` with their quote-protected options (the splitter's
refinement of the quote-aware pieces), `ints` with default or custom separator (`strings.Split` with
a skip counter = the direct recursion), `unique`, `prefix`, `suffix` and the five patterns. -/

def pureKeys : List Bytes :=
  [b! "phone", b! "email", b! "idcard", b! "int", b! "float", b! "in", b! "include", b! "ints", b! "unique", b! "prefix", b! "suffix",
   b! "year", b! "year2month", b! "date", b! "datetime"]

theorem C05_accepts_sound (ext : Ext) (obj field s key arg msg : Bytes) (b : Bool)
    (hk : key ∈ pureKeys) (hb : BAR ∉ arg)
    (h : accepts (mkText key arg msg) s = some b) :
    ∃ run, builtin key = some (.fn run) ∧
      PGV.Proofs.Accepts.Verdict (run ext (mkText key arg msg) obj field (.str s)) b := by
  open PGV.Proofs.Accepts PGV.Proofs.AcceptsDate in
  simp only [pureKeys, List.mem_cons, List.not_mem_nil, or_false] at hk
  rcases hk with e | e | e | e | e | e | e | e | e | e | e | e | e | e | e <;> subst e
  · exact sound_phone ext obj field s arg msg b ⟨by decide, by decide, hb⟩ h
  · exact sound_email ext obj field s arg msg b ⟨by decide, by decide, hb⟩ h
  · exact sound_idcard ext obj field s arg msg b ⟨by decide, by decide, hb⟩ h
  · exact sound_int ext obj field s arg msg b ⟨by decide, by decide, hb⟩ h
  · exact sound_float ext obj field s arg msg b ⟨by decide, by decide, hb⟩ h
  · exact sound_in ext obj field s arg msg b ⟨by decide, by decide, hb⟩ h
  · exact sound_include ext obj field s arg msg b ⟨by decide, by decide, hb⟩ h
  · exact sound_ints ext obj field s arg msg b ⟨by decide, by decide, hb⟩ h
  · exact sound_unique ext obj field s arg msg b ⟨by decide, by decide, hb⟩ h
  · exact sound_prefix ext obj field s arg msg b ⟨by decide, by decide, hb⟩ h
  · exact sound_suffix ext obj field s arg msg b ⟨by decide, by decide, hb⟩ h
  · exact sound_year ext obj field s arg msg b ⟨by decide, by decide, hb⟩ h
  · exact sound_year2month ext obj field s arg msg b ⟨by decide, by decide, hb⟩ h
  · exact sound_date ext obj field s arg msg b ⟨by decide, by decide, hb⟩ h
  · exact sound_datetime ext obj field s arg msg b ⟨by decide, by decide, hb⟩ h

/-! ### the date rules: `time.Parse` + `Format` back = the documented language

`parseTimeStrict(layout, s)` of the model (`TimeParse.parseStrict`, the transcription of the standard
library's parser and formatter) on the layouts `GetTimeFmt` builds, for EVERY string `s` and every
separator made of `- / . : blank + _ , #` (`sepOK`), any length incl. empty: four digits; four digits,
separator, month 01–12; …, day valid for that month and year (leap years); …, hour 00–23, minute and
second 00–59.  No residual is involved. -/

theorem C05_year (s : Bytes) : TimeParse.parseStrict (getTimeFmt 1 []) s = some (Spec.Lang.year s) := by
  rw [PGV.Proofs.AcceptsDate.fmt_year]; exact PGV.Proofs.TimeParse.strict_year s

theorem C05_year2month (sep s : Bytes) (h : sepOK sep = true) :
    TimeParse.parseStrict (getTimeFmt 3 [sep]) s = some (Spec.Lang.year2month sep s) := by
  rw [PGV.Proofs.AcceptsDate.fmt_y2m]; exact PGV.Proofs.TimeParse.strict_y2m sep s h

theorem C05_date (sep s : Bytes) (h : sepOK sep = true) :
    TimeParse.parseStrict (getTimeFmt 7 [sep]) s = some (Spec.Lang.date sep s) := by
  rw [PGV.Proofs.AcceptsDate.fmt_date]; exact PGV.Proofs.TimeParse.strict_date sep s h

theorem C05_datetime (d t c s : Bytes) (hd : sepOK d = true) (ht : sepOK t = true) (hc : sepOK c = true) :
    TimeParse.parseStrict (getTimeFmt 63 [d, t, c]) s = some (Spec.Lang.datetime d t c s) := by
  rw [PGV.Proofs.AcceptsDate.fmt_datetime]; exact PGV.Proofs.TimeParse.strict_datetime d t c s hd ht hc

/-- the scanner of layouts: a separator of `sepOK` bytes in front of a two-digit element is literal text -/
theorem C05_layout_scan (sep : Bytes) (h : sepOK sep = true) (rest : Bytes) :
    TimeParse.nextStd [] (sep ++ [48, 50] ++ rest) = .std sep .zeroDay rest := by
  simpa [PGV.Proofs.TimeParse.stdText] using PGV.Proofs.TimeParse.nextStd_sep [] sep h .zeroDay (by decide) rest

-- non-vacuity: real calls, evaluated by the kernel
example : TimeParse.parseStrict (getTimeFmt 7 [[45]]) (b! "2024-02-29") = some true := by decide
example : TimeParse.parseStrict (getTimeFmt 7 [[45]]) (b! "2023-02-29") = some false := by decide
example : TimeParse.parseStrict (getTimeFmt 63 [[45], [32], [58]]) (b! "2022-11-09  4:00:00") = some false := by decide
example : TimeParse.parseStrict (getTimeFmt 63 [[45], [32], [58]]) (b! "2022-11-09 04:00:00") = some true := by decide
example : TimeParse.parseStrict (getTimeFmt 63 [[45], [32], [58]]) (b! "2022-11-09 04:00:00.5") = some false := by decide
example : TimeParse.parseStrict (b! "2006-01-02 PM") (b! "2022-11-09 PM") = none := by decide

/-- `in` compares numbers (and bools) by their canonical rendering: for every value that `ToStr`
renders — integers of any width in decimal, floats by their shortest round-trip text, bools as
words — a clause is written exactly when that rendering is not among the options -/
theorem C05_in_canonical_rendering (ext : Ext) (obj field arg msg : Bytes) (hb : BAR ∉ arg)
    (os : List Bytes) (ho : options arg = some os) (tv : GoVal) (t : Bytes) (hts : tv.toStr = some t) :
    ∃ run, builtin (b! "in") = some (.fn run) ∧
      PGV.Proofs.Accepts.Verdict (run ext (mkText (b! "in") arg msg) obj field tv) (os.contains t) := by
  refine ⟨_, rfl, ?_⟩
  exact PGV.Proofs.Accepts.in_verdict_scalar ext obj field _ _ arg _
    (PGV.Proofs.Accepts.parse_mkText _ arg msg ⟨by decide, by decide, hb⟩) (by decide) os ho tv t hts

example : options (b! "(5/7/'0.1')") = some [b! "5", b! "7", b! "0.1"]
    ∧ (GoVal.int 8 5).toStr = some (b! "5") ∧ (GoVal.uint 64 7).toStr = some (b! "7")
    ∧ (GoVal.float 32 (.fin 13421773 (-27)) (b! "0.10000000149011612") (b! "0.1")).toStr = some (b! "0.1") := by decide

/-- `unique` on a slice of numbers / strings / bools compares the canonical renderings: violated exactly
when two of them coincide (`[]float64{0.1, 0.10}` is a duplicate, `[]string{"1", "01"}` is not) -/
theorem C05_unique_canonical_rendering (ext : Ext) (text obj field tstr elemT : Bytes) (isNil : Bool) (es : GoVals)
    (ts : List Bytes) (h : es.toList.mapM GoVal.toStr = some ts) :
    ∃ run, builtin (b! "unique") = some (.fn run) ∧
      PGV.Proofs.Accepts.Verdict (run ext text obj field (.slice tstr elemT isNil es)) (distinct ts) :=
  ⟨_, rfl, PGV.Proofs.Accepts.unique_verdict_slice ext obj field text tstr elemT isNil es ts h⟩

/-- `ints` on a slice: violated exactly when some element's rendering is not a run of digits
(negative numbers, floats with a fraction, empty strings) -/
theorem C05_ints_slice (ext : Ext) (text obj field tstr elemT : Bytes) (isNil : Bool) (es : GoVals)
    (ts : List Bytes) (h : es.toList.mapM GoVal.toStr = some ts) :
    ∃ run, builtin (b! "ints") = some (.fn run) ∧
      PGV.Proofs.Accepts.Verdict (run ext text obj field (.slice tstr elemT isNil es)) (ts.all Spec.Lang.int) :=
  ⟨_, rfl, PGV.Proofs.Accepts.ints_verdict_slice ext obj field text tstr elemT isNil es ts h⟩

-- slices whose elements all have a rendering: `[]float64{0.1, 0.1}` (duplicate), `[]int{1, -2}` (not all digits)
example :
    let dup : GoVals := .cons (.float 64 (.fin 3602879701896397 (-55)) (b! "0.1") (b! "0.1")) (.cons (.float 64 (.fin 3602879701896397 (-55)) (b! "0.1") (b! "0.1")) .nil)
    let mixed : GoVals := .cons (.int 0 1) (.cons (.int 0 (-2)) .nil)
    dup.toList.mapM GoVal.toStr = some [b! "0.1", b! "0.1"] ∧ distinct [b! "0.1", b! "0.1"] = false
      ∧ mixed.toList.mapM GoVal.toStr = some [b! "1", b! "-2"] ∧ [b! "1", b! "-2"].all Spec.Lang.int = false := by decide

-- the hypothesis is satisfiable, with quoted options and a custom separator
example : accepts (mkText (b! "in") (b! "(a/'b/c'/d)") (b! "one of them")) (b! "b/c") = some true
    ∧ accepts (mkText (b! "in") (b! "(a/'b/c'/d)") []) (b! "b") = some false
    ∧ accepts (mkText (b! "ints") (b! "'--'") []) (b! "1--22--333") = some true
    ∧ accepts (mkText (b! "ints") [] []) (b! "1,,2") = some false
    ∧ mkText (b! "in") (b! "(a/'b/c'/d)") (b! "one of them") = b! "in=(a/'b/c'/d)|one of them" := by decide

/-! ### the layout builder `GetTimeFmt` -/

/-- `year`: `2006` -/
theorem C05_timefmt_year : getTimeFmt 1 [] = b! "2006" := by decide

/-- `year2month`: year, separator, month — for every separator (also empty, also several bytes) -/
theorem C05_timefmt_year2month (sep : Bytes) : getTimeFmt 3 [sep] = b! "2006" ++ sep ++ b! "01" := by
  simp [getTimeFmt]

/-- `date`: year, separator, month, the same separator, day -/
theorem C05_timefmt_date (sep : Bytes) : getTimeFmt 7 [sep] = b! "2006" ++ sep ++ b! "01" ++ sep ++ b! "02" := by
  simp [getTimeFmt]

/-- `datetime`: date separator `d` twice, `t` between date and time, time separator `c` twice -/
theorem C05_timefmt_datetime (d t c : Bytes) :
    getTimeFmt 63 [d, t, c] = b! "2006" ++ d ++ b! "01" ++ d ++ b! "02" ++ t ++ b! "15" ++ c ++ b! "04" ++ c ++ b! "05" := by
  simp [getTimeFmt]

/-- the date rules hand exactly that layout, with the separator taken from the rule (quotes removed,
default `-`), to the strict parser; a string value is accepted iff the parser accepts it -/
theorem C05_date_uses_layout (ext : Ext) (text obj field s : Bytes) (a : ExtA)
    (hn : TimeParse.parseStrict (getTimeFmt 7 [if (parseValidNameKV text).2.1.isEmpty then [45] else Bytes.trimByte QUOTE (parseValidNameKV text).2.1]) s = none)
    (hq : ext (.timeparse (getTimeFmt 7 [if (parseValidNameKV text).2.1.isEmpty then [45] else Bytes.trimByte QUOTE (parseValidNameKV text).2.1]) s) = some a) :
    ∃ out, ruleDate ext text obj field (.str s) = .ok out ∧ (out = [] ↔ a.code = 1) := by
  unfold ruleDate
  rcases hp : parseValidNameKV text with ⟨k, v, m⟩
  rw [hp] at hq hn
  simp only at hq hn ⊢
  simp only [strRule, checkFieldIsStr, timeOk, hn, askExt, hq, bind, Except.bind, pure, Except.pure]
  by_cases hc : a.code = 1
  · simp [hc]
  · have : (a.code == 1) = false := by simpa using hc
    simp only [this, Bool.false_eq_true, if_false]
    refine ⟨_, rfl, ?_⟩
    constructor
    · intro h
      exfalso
      revert h
      rcases parseValidNameKV text with ⟨k', v', m'⟩
      simp only [violClause, getJoinValidErrStr]
      split <;> (split <;> simp [errEndFlag])
    · intro h; exact absurd h hc

/-! ### content rules -/

theorem C05_unique_string (ext : Ext) (text obj field s : Bytes) :
    ∃ out, ruleUnique ext text obj field (.str s) = .ok out ∧ (out = [] ↔ allDistinct (Bytes.splitByte COMMA s) = true) := by
  unfold ruleUnique
  rcases parseValidNameKV text with ⟨k, v, m⟩
  simp only [bind, Except.bind, pure, Except.pure]
  cases h : allDistinct (Bytes.splitByte COMMA s) with
  | true => simp
  | false =>
    simp only [Bool.false_eq_true, if_false]
    refine ⟨_, rfl, ?_⟩
    constructor
    · intro hh; exfalso; revert hh
      simp only [violClause, getJoinValidErrStr]
      split <;> (split <;> simp [errEndFlag])
    · intro hh; cases hh

theorem allDistinct_eq_distinct (l : List Bytes) : allDistinct l = distinct l := by
  induction l with
  | nil => rfl
  | cons x xs ih => simp [allDistinct, distinct, ih]

/-- `prefix=p` / `suffix=p`: `strings.HasPrefix` / `HasSuffix` on the value -/
theorem C05_prefix_suffix (text obj field s : Bytes) (isPre : Bool) :
    ∃ out, rulePrefix text obj field (.str s) isPre = .ok out ∧
      (out = [] ↔ (if isPre then (parseValidNameKV text).2.1.isPrefixOf s else (parseValidNameKV text).2.1.isSuffixOf s) = true) := by
  unfold rulePrefix
  rcases hp : parseValidNameKV text with ⟨k, v, m⟩
  simp only [strRule, checkFieldIsStr, bind, Except.bind, pure, Except.pure, Bytes.hasPrefix, Bytes.hasSuffix]
  cases h : (if isPre then v.isPrefixOf s else v.isSuffixOf s) with
  | true => simp
  | false =>
    simp only [Bool.false_eq_true, if_false]
    refine ⟨_, rfl, ?_⟩
    constructor
    · intro hh; exfalso; revert hh
      rcases parseValidNameKV text with ⟨k', v', m'⟩
      simp only [violClause, getJoinValidErrStr]
      split <;> (split <;> simp [errEndFlag])
    · intro hh; cases hh

/-- the regular expressions in the source are the ones transcribed (re-decided every run) -/
theorem C05_patterns : PGV.Expected.patternsOK PGV.Generated.patterns = true := PGV.Props.Facts.T2_patterns

/-! non-vacuity / historical near-misses -/
example : Model.Lang.floatRe (b! "1x5") = false ∧ Spec.Lang.float (b! "1x5") = false ∧ Model.Lang.floatRe (b! "1.5") = true := by decide
example : Model.Lang.phoneRe (b! "1,123456789") = false ∧ phone (b! "13812345678") = true := by decide
example : Spec.Lang.datetime [45] [32] [58] (b! "2022-11-09  4:00:00") = false ∧ Spec.Lang.datetime [45] [32] [58] (b! "2024-02-29 23:59:59") = true
    ∧ Spec.Lang.date [45] (b! "2023-02-29") = false := by decide
example : Model.Lang.emailRe (b! "a.b-c+d@x-y.z.io") = true ∧ Spec.Lang.email (b! "a.b-c+d@x-y.z.io") = true
    ∧ Model.Lang.emailRe (b! "a,b@x.io") = false ∧ Spec.Lang.email (b! "a,b@x.io") = false := by decide

end PGV.Props.C05
