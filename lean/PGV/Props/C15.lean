import PGV.Proofs.Explain

/-!
# C15 — custom messages replace the default text verbatim and can be extracted alone
-/

namespace PGV.Props.C15
open PGV PGV.Model PGV.Spec.Explain PGV.Proofs.Explain

/-- what the extractor keeps of a clean clause: the explanation of a labelled clause, nothing of an
unlabelled one -/
theorem explainOf_clean (c : Clause) (h : c.clean = true) : explainOf c.text = c.expl? := by
  cases c with
  | plain t =>
    simp only [Clause.clean, Bool.and_eq_true] at h
    simp only [explainOf, Clause.text, Clause.expl?]
    cases hf : firstLabel t with
    | none => rfl
    | some p => rw [hf] at h; simp at h
  | labelled pre zh expl =>
    have hc := h
    simp only [Clause.clean] at hc
    show explainOf (pre ++ label zh ++ [SP] ++ expl) = some expl
    generalize htxt : pre ++ label zh ++ [SP] ++ expl = txt at hc ⊢
    unfold explainOf
    cases hf : firstLabel txt with
    | none => rw [hf] at hc; simp at hc
    | some p =>
      rcases p with ⟨s, l⟩
      rw [hf] at hc
      simp only [Bool.and_eq_true, beq_iff_eq] at hc
      obtain ⟨_, hs, hl⟩ := hc
      subst hs hl
      simp only
      have hlen : txt.length = pre.length + (label zh).length + 1 + expl.length := by
        rw [← htxt]; simp [List.length_append]; omega
      rw [if_neg (by omega)]
      have : pre.length + (label zh).length + 1 = (pre ++ label zh ++ [SP]).length := by simp [List.length_append]; omega
      rw [← htxt, this, List.drop_left]

theorem filterMap_congr' {α β} (f g : α → Option β) (l : List α) (h : ∀ a ∈ l, f a = g a) :
    l.filterMap f = l.filterMap g := by
  induction l with
  | nil => rfl
  | cons a l ih =>
    simp only [List.filterMap_cons, h a (by simp)]
    rw [ih (fun x hx => h x (by simp [hx]))]

/-- **extractor**: for every list of clean clauses — any mix and order of Chinese-labelled,
English-labelled and unlabelled clauses, any length — `GetOnlyExplainErr` returns exactly the
explanations of the labelled ones, in order, separated by `ErrEndFlag` -/
theorem C15_extract (cs : List Clause) (h : ∀ c ∈ cs, c.clean = true) :
    getOnlyExplainErr (render cs) = extract cs := by
  by_cases hne : cs = []
  · subst hne; rfl
  · have hsep : ∀ c ∈ cs, noSep c.text = true := by
      intro c hc
      have := h c hc
      cases c <;> simp only [Clause.clean, Bool.and_eq_true] at this <;> exact this.1
    have hfm : (cs.map Clause.text).filterMap explainOf = cs.filterMap Clause.expl? := by
      rw [List.filterMap_map]
      exact filterMap_congr' _ _ _ fun c hc => explainOf_clean c (h c hc)
    have hs := splitEnd_render cs hne hsep
    unfold getOnlyExplainErr extract
    by_cases he : (render cs).isEmpty = true
    · rw [if_pos he]
      have hr : render cs = [] := by simpa using he
      rw [hr] at hs
      have hm : cs.map Clause.text = [[]] := by simpa [splitEnd] using hs.symm
      rw [← hfm, hm]
      decide
    · rw [if_neg he, hs, hfm]

/-- the extractor never fails: the only slice expression (`clause[start:]`) is clamped -/
theorem C15_extract_total (e : Bytes) : ∃ out, getOnlyExplainErr e = out := ⟨_, rfl⟩

/-! ### the clause of a violated rule with a custom message -/

/-- a parsed custom message carries its label: `说明:` iff it contains a rune in U+4E00..U+9FA5 -/
theorem C15_label_choice (msg : Bytes) :
    labelMsg msg = (if hasCJK msg then explainZh else explainEn) ++ [SP] ++ msg := rfl

theorem containsSub_prefix (p rest : Bytes) : Bytes.containsSub (p ++ rest) p = true := by
  unfold Bytes.containsSub
  cases hp : p ++ rest with
  | nil =>
    have : p = [] := by cases p <;> simp_all
    subst this; simp [Bytes.indexOf?]
  | cons x t =>
    rw [← hp]
    have : p.isPrefixOf (p ++ rest) = true := by simp
    rw [hp] at this ⊢
    simp [Bytes.indexOf?, this]

/-- the path part of a clause: `"Obj.Field" ` / `"Field" ` / nothing -/
def pathPrefix (obj field : Bytes) : Bytes :=
  if !obj.isEmpty && !field.isEmpty then [DQ] ++ obj ++ [46] ++ field ++ [DQ, SP]
  else if obj.isEmpty && !field.isEmpty then [DQ] ++ field ++ [DQ, SP]
  else []

/-- the clause of a violated rule whose rule text carried a custom message is
`<path> input "<value>", <label> <message>; ` — the message verbatim, no default wording, no
second label -/
theorem C15_message_verbatim (obj field input msg : Bytes) (dflt : List Bytes) :
    violClause obj field input (labelMsg msg) dflt
      = pathPrefix obj field ++ b! "input \"" ++ input ++ [DQ] ++ b! ", " ++ labelMsg msg ++ errEndFlag := by
  have hne : (labelMsg msg).isEmpty = false := by
    unfold labelMsg; split <;> simp [explainZh, explainEn]
  have hlab : (!Bytes.containsSub (labelMsg msg) explainEn && !Bytes.containsSub (labelMsg msg) explainZh) = false := by
    unfold labelMsg
    split
    · have := containsSub_prefix explainZh ([SP] ++ msg)
      simp only [List.append_assoc, List.cons_append, List.nil_append] at this ⊢
      simp [this]
    · have := containsSub_prefix explainEn ([SP] ++ msg)
      simp only [List.append_assoc, List.cons_append, List.nil_append] at this ⊢
      simp [this]
  unfold violClause
  simp only [hne, Bool.not_false, if_true]
  unfold getJoinValidErrStr pathPrefix
  simp only [hlab, Bool.false_eq_true, if_false]
  simp [Bytes.join]

/-- without a custom message: the default wording behind `explain:` -/
theorem C15_default_text (obj field input : Bytes) (dflt : List Bytes) :
    violClause obj field input [] dflt = getJoinValidErrStr obj field input (explainEn :: dflt) := by
  simp [violClause]

/-! non-vacuity -/
example : getOnlyExplainErr (b! "\"T.A\" input \"\", explain: it is required; valid \"x\" is not exist, You can call SetValidFn; \"T.B\" input \"5\", 说明: 年龄不对")
    = b! "it is required; 年龄不对" := by decide

example : (Clause.labelled (b! "\"T.B\" input \"5\", ") true (b! "年龄不对")).clean = true
    ∧ (Clause.plain (b! "valid \"x\" is not exist")).clean = true := by decide

end PGV.Props.C15
