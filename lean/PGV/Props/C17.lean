import PGV.Proofs.Walker

/-!
# C17 — `either` / `botheq` groups are judged per object
-/

namespace PGV.Props.C17
open PGV PGV.Model PGV.Proofs.Walker

/-- an `either` group with at least two members is violated exactly when all members are empty, and
then yields one clause -/
theorem C17_either_iff (m1 m2 : Member) (ms : List Member) :
    eitherClause (m1 :: m2 :: ms) ≠ [] ↔ ∀ m ∈ m1 :: m2 :: ms, m.val.isZero = true := by
  unfold eitherClause
  by_cases h : (m1 :: m2 :: ms).all (fun m => m.val.isZero) = true
  · simp only [h, if_true]
    constructor
    · intro _; simpa using h
    · intro _; simp [errEndFlag]
  · simp only [h]
    constructor
    · intro h'; exact absurd rfl h'
    · intro h'; exact absurd (by simpa using h') h

/-- a group with a single member is a rule-writing error: one clause -/
theorem C17_singleton_either (m : Member) :
    eitherClause [m] = getJoinFieldErr m.objName m.fieldName eitherValErr := rfl

theorem C17_singleton_botheq (ext : Ext) (m : Member) :
    bothEqClause ext [m] = pure (getJoinFieldErr m.objName m.fieldName bothEqValErr) := rfl

theorem deepEq_scalar (ext : Ext) (a c : GoVal) (r : Bool) (h : deepEqScalar a c = some r) : deepEq ext a c = pure r := by
  unfold deepEq; rw [h]

theorem mapM_deepEq (ext : Ext) (m0 : Member) (l : List Member) (eqs : List Bool)
    (h : l.mapM (fun m => deepEqScalar m0.val m.val) = some eqs) :
    l.mapM (fun m => deepEq ext m0.val m.val) = .ok eqs := by
  induction l generalizing eqs with
  | nil => simp at h; subst h; rfl
  | cons a l ih =>
    rw [List.mapM_cons] at h ⊢
    cases ha : deepEqScalar m0.val a.val with
    | none => simp [ha] at h
    | some r =>
      simp only [ha, Option.pure_def, Option.bind_eq_bind, Option.bind_some] at h
      cases hl : l.mapM (fun m => deepEqScalar m0.val m.val) with
      | none => simp [hl] at h
      | some rest =>
        simp only [hl, Option.bind_some, Option.some.injEq] at h
        subst h
        simp only [ih rest hl, deepEq_scalar ext _ _ r ha]
        rfl

/-- a `botheq` group (scalar members) is violated exactly when some member differs from the first -/
theorem C17_botheq_iff (ext : Ext) (m0 m1 : Member) (ms : List Member) (eqs : List Bool)
    (h : (m1 :: ms).mapM (fun m => deepEqScalar m0.val m.val) = some eqs) :
    ∃ out, bothEqClause ext (m0 :: m1 :: ms) = .ok out ∧ (out ≠ [] ↔ eqs.any (· == false) = true) := by
  unfold bothEqClause
  have hm := mapM_deepEq ext m0 (m1 :: ms) eqs h
  show ∃ out, (do
      let eqs ← (m1 :: ms).mapM fun (m : Member) => deepEq ext m0.val m.val
      if eqs.all id then pure []
      else pure (Bytes.trimSuffix (memberNames (m0 :: m1 :: ms)) (b! ", ") ++ [SP] ++ explainEn ++ b! " they should be equal" ++ errEndFlag)) = .ok out ∧ _
  rw [hm]
  show ∃ out, (if eqs.all id then (pure [] : M Bytes)
      else pure (Bytes.trimSuffix (memberNames (m0 :: m1 :: ms)) (b! ", ") ++ [SP] ++ explainEn ++ b! " they should be equal" ++ errEndFlag)) = .ok out ∧ _
  have hiff : ∀ l : List Bool, l.all id = true ↔ ¬ (l.any (· == false) = true) := by
    intro l
    induction l with
    | nil => simp
    | cons a l ih => cases a <;> simp_all
  by_cases hall : eqs.all id = true
  · rw [if_pos hall]
    refine ⟨_, rfl, ?_⟩
    have := (hiff eqs).mp hall
    simp only [ne_eq, not_true_eq_false, false_iff]
    exact this
  · rw [if_neg hall]
    refine ⟨_, rfl, ?_⟩
    have : eqs.any (· == false) = true := by
      by_cases h' : eqs.any (· == false) = true
      · exact h'
      · exact absurd ((hiff eqs).mpr h') hall
    constructor
    · intro _; exact this
    · intro _; simp [errEndFlag]

/-- groups are formed per (object scope, rule text): two members of one group always belong to the
same object and carry the same rule text — objects never share a group -/
theorem C17_group_same_object (ms : List Member) (g : List Member) (hg : g ∈ groupMembers ms) (a c : Member)
    (ha : a ∈ g) (hc : c ∈ g) : a.scope = c.scope ∧ a.validName = c.validName := by
  unfold groupMembers at hg
  simp only [List.mem_map] at hg
  obtain ⟨k, _, rfl⟩ := hg
  simp only [List.mem_filter, beq_iff_eq] at ha hc
  have h1 := ha.2; have h2 := hc.2
  rw [Prod.ext_iff] at h1 h2
  exact ⟨h1.1.trans h2.1.symm, h1.2.trans h2.2.symm⟩

/-- … and a group holds *all* members of its object carrying that rule text -/
theorem C17_group_complete (ms : List Member) (g : List Member) (hg : g ∈ groupMembers ms) (a c : Member)
    (ha : a ∈ g) (hc : c ∈ ms) (hs : c.scope = a.scope) (hv : c.validName = a.validName) : c ∈ g := by
  unfold groupMembers at hg
  simp only [List.mem_map] at hg
  obtain ⟨k, _, rfl⟩ := hg
  simp only [List.mem_filter, beq_iff_eq] at ha ⊢
  refine ⟨hc, ?_⟩
  rw [← ha.2, Prod.ext_iff]; exact ⟨hs, hv⟩

theorem dedupKeys_subset (ks : List (Bytes × Bytes)) : ∀ k ∈ dedupKeys ks, k ∈ ks := by
  induction ks with
  | nil => intro k h; simp [dedupKeys] at h
  | cons a r ih =>
    intro k h
    simp only [dedupKeys, List.mem_cons, List.mem_filter] at h
    rcases h with rfl | ⟨h, _⟩
    · simp
    · exact List.mem_cons_of_mem _ (ih k h)

theorem dedupKeys_append (a c : List (Bytes × Bytes)) (h : ∀ k ∈ a, k ∉ c) :
    dedupKeys (a ++ c) = dedupKeys a ++ dedupKeys c := by
  induction a with
  | nil => rfl
  | cons k r ih =>
    simp only [List.cons_append, dedupKeys]
    rw [ih (fun x hx => h x (by simp [hx])), List.filter_append]
    congr 2
    rw [List.filter_eq_self]
    intro x hx
    have hk : k ∉ c := h k (by simp)
    simp only [bne_iff_ne, ne_eq]
    intro e; subst e
    exact hk (dedupKeys_subset c _ hx)

/-- **objects are judged independently**: if no member of one part shares (object, rule text) with a
member of the other — e.g. the members of two slice elements, of a parent and a nested object, of two
map entries — the groups of the whole are the groups of the first part followed by the groups of the
second, each exactly as if the other part did not exist -/
theorem C17_independent_objects (ms₁ ms₂ : List Member)
    (h : ∀ a ∈ ms₁, ∀ c ∈ ms₂, a.gkey ≠ c.gkey) :
    groupMembers (ms₁ ++ ms₂) = groupMembers ms₁ ++ groupMembers ms₂ := by
  unfold groupMembers
  have hdis : ∀ k ∈ ms₁.map Member.gkey, k ∉ ms₂.map Member.gkey := by
    intro k hk hk2
    simp only [List.mem_map] at hk hk2
    obtain ⟨a, ha, rfl⟩ := hk
    obtain ⟨c, hc, hce⟩ := hk2
    exact h a ha c hc hce.symm
  rw [List.map_append, dedupKeys_append _ _ hdis, List.map_append]
  congr 1
  · apply List.map_congr_left
    intro k hk
    have hk1 : k ∈ ms₁.map Member.gkey := dedupKeys_subset _ k hk
    rw [List.filter_append]
    have : ms₂.filter (fun m => m.gkey == k) = [] := by
      rw [List.filter_eq_nil_iff]
      intro m hm
      simp only [beq_iff_eq]
      intro e
      exact hdis k hk1 (by rw [← e]; exact List.mem_map_of_mem hm)
    rw [this, List.append_nil]
  · apply List.map_congr_left
    intro k hk
    have hk2 : k ∈ ms₂.map Member.gkey := dedupKeys_subset _ k hk
    rw [List.filter_append]
    have : ms₁.filter (fun m => m.gkey == k) = [] := by
      rw [List.filter_eq_nil_iff]
      intro m hm
      simp only [beq_iff_eq]
      intro e
      exact hdis k (by rw [← e]; exact List.mem_map_of_mem hm) hk2
    rw [this, List.nil_append]

/-- … and so are their clauses -/
theorem C17_independent_clauses (ext : Ext) (ms₁ ms₂ : List Member) (h : ∀ a ∈ ms₁, ∀ c ∈ ms₂, a.gkey ≠ c.gkey) :
    groupClauses ext (ms₁ ++ ms₂) = (do let a ← groupClauses ext ms₁; let c ← groupClauses ext ms₂; pure (a ++ c)) := by
  unfold groupClauses
  rw [C17_independent_objects ms₁ ms₂ h, List.mapM_append]

/-- the scope under which a struct field registers is the path of the object that holds it -/
theorem C17_scope_is_object (ext : Ext) (fns : FnTables) (scope sn fname : Bytes) (v : GoVal)
    (descend : Bool → Bool → Bytes → WSt → M WSt) (r : Bytes) (rs : List Bytes) (d : Bool) (st : WSt) (hr : r ≠ [])
    (hk : resolveFn fns (parseValidNameKV r).1 = .structural)
    (h1 : (parseValidNameKV r).1 ≠ requiredB) (h2 : (parseValidNameKV r).1 ≠ existB) :
    fieldRules ext fns scope sn fname v descend (r :: rs) d st
      = fieldRules ext fns scope sn fname v descend rs d
          { st with members := st.members ++ [{ scope := scope, validName := r, objName := sn, fieldName := fname, val := v }] } :=
  fieldRules_group ext fns scope sn fname v descend r rs d st hr hk h1 h2

/-! non-vacuity: a slice of two objects, `{A:"", B:""}` violates `either=1`, `{A:"x", B:""}` does not:
exactly one clause, naming the members of element 0 only -/
example :
    let obj (a : Bytes) : GoVal := .struct (b! "main.T") (b! "T") false
      (.cons (b! "A") true false [(b! "valid", b! "either=1")] (.str a)
        (.cons (b! "B") true false [(b! "valid", b! "either=1")] (.str []) .nil))
    (match structValid { ext := fun _ => none } (.val (b! "[]main.T") (.slice (b! "[]main.T") (b! "main.T") false (.cons (obj []) (.cons (obj (b! "x")) .nil)))) with
     | .ok o => o.err o.groups | _ => none)
      = some (b! "\"main.T[0].A\", \"main.T[0].B\" explain: they shouldn't all be empty") := by decide

end PGV.Props.C17
