import PGV.Model.Expected

/-!
# T2 obligations: re-decided on every run against the facts extracted from /repo's current source
-/

namespace PGV.Props.Facts
open PGV

set_option maxRecDepth 100000 in
/-- the regular expressions of `valid/init.go` and `file/parse.go` are (up to `regexp/syntax`
normalisation) the ones the recognisers and scanners of the model transcribe -/
theorem T2_patterns : Expected.patternsOK Generated.patterns = true := by decide

/-- `validName2FnMap` binds every rule name to the function the model's table binds it to -/
theorem T2_rule_table : Expected.ruleTableOK Generated.ruleTable = true := by decide

/-- the model's rule table has exactly the rule names of the code's table -/
theorem T2_model_keys : Expected.modelKeysOK Generated.ruleKeys = true := by decide

/-- every method of `LRUCache` that writes shared state holds the exclusive lock for its whole body,
every reader at least the shared lock; lock-free helpers are only called under the exclusive lock -/
theorem T2_lock_discipline : Expected.lockOK Generated.lockFacts = true := by decide

/-- no function of package `valid` assigns package-level state except the two registration functions -/
theorem T2_globals : Expected.globalsOK Generated.globalWriters = true := by decide

/-- every zero-copy `[]byte → string` conversion of package `valid` is applied to a buffer made in the
same function, after the last write to it and outside loops (C12: "the error text and parsed rule
tokens it handed out never change when later calls reuse internal buffers") -/
theorem T2_alias : Expected.aliasOK Generated.aliasFacts = true := by decide

end PGV.Props.Facts
