import PGV.Props.Facts.Patterns
import PGV.Props.Facts.RuleTable
import PGV.Props.Facts.Lock
import PGV.Props.Facts.Globals
import PGV.Props.Facts.Alias

/-! All T2 obligations (each lives in its own module under `PGV/Props/Facts/`). -/
