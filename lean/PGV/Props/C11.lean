import PGV.Props.C08
import PGV.Props.C12
import PGV.Props.C10
import PGV.Props.Facts.Globals

/-!
# C11 — concurrent validations do not interfere  (partial)

Shared mutable state of package `valid`: the struct-type cache, the three object pools, the global
rule table.  In the interleaving semantics in which every operation on a shared object is atomic
(cache: `C10`; `sync.Pool` hands an object to one goroutine at a time — a runtime contract):
* whatever the other goroutines did to the cache, it is coherent, and a call that finds a coherent
  cache returns its solo result and leaves it coherent (`C11_cache_any_interleaving`);
* whatever object a call draws from a pool, it is clean, the call returns its solo result and puts
  clean objects back (`C11_pools_any_schedule`);
* nothing else is assigned after initialisation (`C11_globals`, a source fact).
Data-race freedom itself is not a theorem: the `conc` streams run under the race detector.
-/

namespace PGV.Props.C11
open PGV.Model.Cache

variable {κ ν ρ : Type}

/-- cache operations of several goroutines interleave arbitrarily: model the interleaving as one
sequence of lookups (each atomic), issued by any goroutine.  Whatever the sequence, every lookup
returns `analyse k` -/
theorem C11_cache_any_interleaving (C : CacheImpl κ ν) (S : Sound C) (analyse : κ → ν) (ks : List κ) :
    (runHistory C analyse (ks.map fun k => (Prog.lookup k fun v => Prog.done v : Prog κ ν ν)) C.init).1 = ks.map analyse := by
  rw [PGV.Props.C08.C08_history C S analyse]
  simp [Prog.runPure, List.map_map, Function.comp_def]

/-- a call interleaved with others sees only coherent cache states, hence returns its solo result -/
theorem C11_call_solo_result (C : CacheImpl κ ν) (S : Sound C) (analyse : κ → ν) (p : Prog κ ν ρ) (s : C.σ)
    (h : PGV.Props.C08.Coherent C S analyse s) : (p.runC C analyse s).1 = p.runPure analyse :=
  (PGV.Props.C08.C08_call_transparent C S analyse p s h).1

/-- pools: under every schedule of `Get`/`Put` (which object each call draws) every call returns its solo result -/
theorem C11_pools_any_schedule {RMap Fns Src : Type} (emptyMap : RMap) (eval : List UInt8 → RMap → Fns → Src → List UInt8)
    (h : List (Call RMap Fns Src × Option Nat × Option Nat)) :
    PGV.Props.C12.runPool emptyMap eval h [] [] = h.map fun (c, _, _) => (exec emptyMap eval PGV.Props.C12.freshObj [] c).1 :=
  PGV.Props.C12.C12_history_independent emptyMap eval h [] [] PGV.Props.C12.C12_pool_inv_init

/-- no other package-level state is written after initialisation -/
theorem C11_globals : PGV.Expected.globalsOK PGV.Generated.globalWriters = true := PGV.Props.Facts.T2_globals

/-- the cache the validators share is operated under the lock discipline of C10 -/
theorem C11_cache_locked : PGV.Expected.lockOK PGV.Generated.lockFacts = true := PGV.Props.Facts.T2_lock_discipline

end PGV.Props.C11
