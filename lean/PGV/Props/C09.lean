import PGV.Proofs.LRU

/-!
# C09 — the LRU cache refines a bounded least-recently-used map

Only the two definitions (`Inv`, `abs`), the property theorems and non-vacuity examples live here;
all helper lemmas are in `PGV.Proofs.LRU`.
-/

namespace PGV.Props.C09
open PGV.Model.LRU

/-- internal consistency of the two-structure representation -/
structure Inv (s : St) : Prop where
  keys_nodup : (s.nodeMap.map (·.1)).Nodup
  ids_nodup  : (s.nodeMap.map (·.2)).Nodup
  list_nodup : (s.list.map (·.1)).Nodup
  same_ids   : ∀ id, id ∈ s.nodeMap.map (·.2) ↔ id ∈ s.list.map (·.1)
  bound      : s.list.length ≤ s.cap
  fresh      : ∀ id ∈ s.list.map (·.1), id < s.next

/-- abstraction: the recency list with each element's key looked up in the index -/
def abs (s : St) : PGV.Spec.LRU.Sp :=
  s.list.filterMap fun (id, v) => (keyOf s.nodeMap id).map fun k => (k, v)

/-- the invariant holds in every reachable state, every capacity -/
theorem C09_inv (cap : Nat) (ops : List Op) : Inv (run (new cap) ops).1 :=
  have h := (PGV.Proofs.LRU.run_new_sim cap ops).1
  ⟨h.keys_nodup, h.ids_nodup, h.list_nodup, h.same_ids, h.bound, h.fresh⟩

/-- refinement: every op sequence on every capacity produces exactly the spec's outputs
    (Load results, Len, callback log, Dump) and commutes with `abs` -/
theorem C09_refines (cap : Nat) (ops : List Op) :
    (run (new cap) ops).2 = (PGV.Spec.LRU.run cap [] ops).2 ∧
    abs (run (new cap) ops).1 = (PGV.Spec.LRU.run cap [] ops).1 :=
  have h := PGV.Proofs.LRU.run_new_sim cap ops
  ⟨h.2.2.1, h.2.2.2⟩

/-- Len never returns the inconsistency sentinel, and equals the number of live entries -/
theorem C09_len_never_sentinel (cap : Nat) (ops : List Op) :
    (step (run (new cap) ops).1 .len).2 = .len ((PGV.Spec.LRU.run cap [] ops).1.length) := by
  obtain ⟨I, _, _, ha⟩ := PGV.Proofs.LRU.run_new_sim cap ops
  have h := (PGV.Proofs.LRU.len_sim I).2.2.1
  rw [h, ha]
  rfl

-- corollaries stated on the spec (= on the implementation model, by C09_refines):

/-- capacity bound and no two values for one key, after any history -/
theorem C09_bound (cap : Nat) (ops : List Op) :
    (PGV.Spec.LRU.run cap [] ops).1.length ≤ cap ∧
    ((PGV.Spec.LRU.run cap [] ops).1.map (·.1)).Nodup :=
  PGV.Proofs.LRU.spec_run_bound cap ops

/-- a Load hits exactly the live keys and returns the value most recently stored:
    right after `store k v` (cap ≥ 1) a load of k hits v, whatever the history -/
theorem C09_latest_value (cap : Nat) (hc : 0 < cap) (ops : List Op) (k : Key) (v : Val) :
    (PGV.Spec.LRU.run cap [] (ops ++ [.store k v, .load k])).2.getLast? = some (.hit v) := by
  rw [PGV.Proofs.LRU.spec_run_append]
  obtain ⟨t, ht⟩ := PGV.Proofs.LRU.spec_store_head cap hc (PGV.Spec.LRU.run cap [] ops).1 k v
  show ((PGV.Spec.LRU.run cap [] ops).2 ++
    [(PGV.Spec.LRU.step cap (PGV.Spec.LRU.run cap [] ops).1 (.store k v)).2,
     (PGV.Spec.LRU.step cap
        (PGV.Spec.LRU.step cap (PGV.Spec.LRU.run cap [] ops).1 (.store k v)).1 (.load k)).2]).getLast?
    = _
  rw [ht, PGV.Proofs.LRU.spec_load_head]
  simp

/-- a load hits iff the key is live (in the abstract map) -/
theorem C09_hit_iff (cap : Nat) (s : PGV.Spec.LRU.Sp) (k : Key) :
    (∃ v, (PGV.Spec.LRU.step cap s (.load k)).2 = .hit v) ↔ k ∈ s.map (·.1) := by
  show (∃ v, (match s.find? (fun (x : Key × Val) => x.1 == k) with
    | some (_, v) => ((k, v) :: s.filter (·.1 != k), Out.hit v)
    | none => (s, Out.miss)).2 = .hit v) ↔ _
  cases hf : s.find? (·.1 == k) with
  | none =>
    have := (PGV.Proofs.LRU.find_fst_eq_none s k).1 hf
    simp [this]
  | some x =>
    obtain ⟨k', v⟩ := x
    have hk : k' = k := by simpa using List.find?_some hf
    have hm := List.mem_of_find?_eq_some hf
    subst hk
    exact ⟨fun _ => List.mem_map_of_mem (f := (·.1)) hm, fun _ => ⟨v, rfl⟩⟩

-- (`hs` is part of the intended reading -- the state is within capacity -- but the equation
-- holds without it, so the linter would flag it as unused)
set_option linter.unusedVariables false in
/-- eviction removes exactly the least recently used entry (the last of the recency list),
    fires its callback once, and happens only on overflow -/
theorem C09_evicts_least_recent (cap : Nat) (s : PGV.Spec.LRU.Sp) (hs : s.length ≤ cap)
    (k : Key) (v : Val) (hk : k ∉ s.map (·.1)) :
    PGV.Spec.LRU.step cap s (.store k v) =
      if s.length < cap then ((k, v) :: s, .cbs [])
      else (((k, v) :: s).dropLast, .cbs [((k, v) :: s).getLast (by simp)]) :=
  PGV.Proofs.LRU.spec_store_new cap s k v hk

/-- callbacks account exactly for removed entries:
    |after| + |fired| = |before| + (1 if a new key was inserted) -/
theorem C09_callback_once (cap : Nat) (s : PGV.Spec.LRU.Sp) (hn : (s.map (·.1)).Nodup) (op : Op) :
    let r := PGV.Spec.LRU.step cap s op
    (match r.2 with
      | .cbs fired => r.1.length + fired.length =
          s.length + (match op with | .store k _ => if k ∈ s.map (·.1) then 0 else 1 | _ => 0)
      | _ => r.1.length = s.length) := by
  intro r
  cases op with
  | store k v =>
    by_cases hk : k ∈ s.map (·.1)
    · have hany : s.any (·.1 == k) = true := by
        obtain ⟨x, hx, e⟩ := List.mem_map.1 hk
        rw [List.any_eq_true]; exact ⟨x, hx, by simpa using e⟩
      have hr : r = ((k, v) :: s.filter (·.1 != k), .cbs []) := by
        show (if s.any (·.1 == k) then _ else _) = _
        rw [if_pos hany]
      rw [hr]
      have := PGV.Proofs.LRU.length_filter_fst_ne s k hn hk
      simp [hk, this]
    · have hr : r = _ := PGV.Proofs.LRU.spec_store_new cap s k v hk
      rw [hr]
      by_cases h : s.length < cap
      · rw [if_pos h]; simp [hk]
      · rw [if_neg h]; simp [hk]
  | load k =>
    cases hf : s.find? (fun (x : Key × Val) => x.1 == k) with
    | none =>
      have hr : r = _ := PGV.Proofs.LRU.spec_load_none cap s k hf
      rw [hr]
    | some x =>
      obtain ⟨k', v⟩ := x
      have hr : r = _ := PGV.Proofs.LRU.spec_load_some cap s k k' v hf
      rw [hr]
      exact (PGV.Proofs.LRU.spec_find_some s hn k k' v hf).2.2
  | delete k =>
    cases hf : s.find? (fun (x : Key × Val) => x.1 == k) with
    | none =>
      have hr : r = _ := PGV.Proofs.LRU.spec_delete_none cap s k hf
      rw [hr]
      exact rfl
    | some x =>
      obtain ⟨k', v⟩ := x
      have hr : r = _ := PGV.Proofs.LRU.spec_delete_some cap s k k' v hf
      rw [hr]
      exact (PGV.Proofs.LRU.spec_find_some s hn k k' v hf).2.2
  | len => exact rfl
  | dump => exact rfl

/-! ## non-vacuity: concrete runs of the implementation model and of the spec -/

/-- capacity 0: a `store` immediately evicts itself (callback fires), `load` misses, `Len` is 0 -/
example : (run (new 0) [.store 1 10, .load 1, .len, .dump]).2
    = [.cbs [(1, 10)], .miss, .len 0, .dump []] := by decide
example : (PGV.Spec.LRU.run 0 [] [.store 1 10, .load 1, .len, .dump]).2
    = [.cbs [(1, 10)], .miss, .len 0, .dump []] := by decide

/-- so `0 < cap` in `C09_latest_value` is necessary -/
example : (PGV.Spec.LRU.run 0 [] ([] ++ [.store 1 10, .load 1])).2.getLast? ≠ some (.hit 10) := by
  decide

/-- a re-store returns the latest value and does not grow the cache -/
example : (run (new 2) [.store 1 10, .store 1 11, .load 1, .len]).2
    = [.cbs [], .cbs [], .hit 11, .len 1] := by decide

/-- a `load` refreshes key 1, so the overflowing `store 3` evicts key 2 (the least recent) -/
example : (run (new 2) [.store 1 10, .store 2 20, .load 1, .store 3 30, .load 2, .load 1, .dump]).2
    = [.cbs [], .cbs [], .hit 10, .cbs [(2, 20)], .miss, .hit 10, .dump [10, 30]] := by decide
example : (PGV.Spec.LRU.run 2 [] [.store 1 10, .store 2 20, .load 1, .store 3 30, .load 2, .load 1, .dump]).2
    = [.cbs [], .cbs [], .hit 10, .cbs [(2, 20)], .miss, .hit 10, .dump [10, 30]] := by decide

/-- the abstraction of a reached state: keys recovered through the index, most recent first -/
example : abs (run (new 2) [.store 1 10, .store 2 20, .load 1, .store 3 30]).1 = [(3, 30), (1, 10)] := by
  decide

/-- explicit delete fires the callback once; deleting again fires nothing -/
example : (run (new 2) [.store 1 10, .delete 1, .delete 1, .len]).2
    = [.cbs [], .cbs [(1, 10)], .cbs [], .len 0] := by decide

/-- `Inv` is not trivially true: an index entry without a list element violates it ... -/
example : ¬ Inv ⟨1, [(7, 0)], [], 1, 0⟩ := fun h => by
  have := (h.same_ids 0).1 (by decide)
  simp at this

/-- ... and in such a state `Len` does return the sentinel, so `C09_len_never_sentinel` says
something -/
example : (step ⟨1, [(7, 0)], [], 1, 0⟩ .len).2 = .len (-1) := by decide

/-- the hypotheses of `C09_evicts_least_recent` are satisfiable, in both branches -/
example : PGV.Spec.LRU.step 2 [(2, 20), (1, 10)] (.store 3 30) = ([(3, 30), (2, 20)], .cbs [(1, 10)]) := by
  decide
example : PGV.Spec.LRU.step 3 [(2, 20), (1, 10)] (.store 3 30) = ([(3, 30), (2, 20), (1, 10)], .cbs []) := by
  decide

end PGV.Props.C09
