import PGV.Props.Facts.RuleTable
import PGV.Proofs.Size
import PGV.Proofs.Atoi
import PGV.Proofs.LangEq

/-!
# C01 — size / comparison rules judge by the documented measure with exact boundaries

For every rule text whose key is one of `to ge le oto gt lt eq noeq` and whose argument reads as
integer bounds, and every value that has a measure (string: rune count; signed / unsigned /
floating-point number: numeric value; slice: length), the rule function writes a clause exactly
when the measure lies outside the set the rule states.  No bound on widths, bounds or values.
Floats: under `boundsExact` (|bound| < 2^53, where `float64(bound)` is exact) — outside that window
the statement is false of the code (known finding F-C01-e, witnessed below).
-/

namespace PGV.Props.C01
open PGV PGV.Model PGV.Spec.Size PGV.Proofs.Size

theorem C01_bound_verdict (text key arg msg obj field : Bytes) (v : GoVal) (isMin hasEqual : Bool)
    (lo : Int) (m : Measure)
    (hp : parseValidNameKV text = (key, arg, msg))
    (hb : parseBounds (boundRule isMin hasEqual) arg = some (lo, 0))
    (hm : measure v = some m) (hx : boundsExact v lo 0 = true) :
    (ruleBound text obj field v isMin hasEqual ≠ []) ↔ inSet (boundRule isMin hasEqual) lo 0 m = false := by
  have hlo : (atoi arg).1 = lo := by
    cases isMin <;> cases hasEqual <;>
      (simp only [parseBounds, boundRule] at hb
       revert hb
       rcases atoi arg with ⟨z, e⟩
       cases e <;> simp)
  unfold ruleBound
  simp only [hp, hlo]
  cases v <;> simp only [Spec.Size.measure] at hm <;> try contradiction
  case str s =>
    cases hm
    cases isMin <;> cases hasEqual <;>
      simp [validInputSize, boundRule, inSet, cmp, violClause_ne_nil, icmp_lt, icmp_gt] <;> omega
  case int bits z =>
    cases hm
    cases isMin <;> cases hasEqual <;>
      simp [validInputSize, boundRule, inSet, cmp, violClause_ne_nil, icmp_lt, icmp_gt] <;> omega
  case uint bits n =>
    cases hm
    cases isMin <;> cases hasEqual <;>
      simp [validInputSize, boundRule, inSet, cmp, violClause_ne_nil, icmp_lt, icmp_gt] <;> omega
  case slice t e n es =>
    cases hm
    cases isMin <;> cases hasEqual <;>
      simp [validInputSize, boundRule, inSet, cmp, violClause_ne_nil, icmp_lt, icmp_gt] <;> omega
  case float bits f r1 r2 =>
    have hex : f64OfInt lo = .fin lo 0 := f64OfInt_exact lo (by simp [boundsExact] at hx; exact hx.1)
    cases f <;> simp at hm
    all_goals subst hm
    all_goals
      cases isMin <;> cases hasEqual <;>
        simp [validInputSize, boundRule, inSet, cmp, violClause_ne_nil, hex, FloatVal.lt, FloatVal.le, FloatVal.eq]
    all_goals
      rename_i m e
      try rw [cmpDyadic_swap m e lo 0]
      cases cmpDyadic m e lo 0 <;> simp

/-- `to` / `oto` -/
theorem C01_range_verdict (ext : Ext) (text key arg msg obj field : Bytes) (v : GoVal) (hasEqual : Bool)
    (lo hi : Int) (m : Measure)
    (hp : parseValidNameKV text = (key, arg, msg))
    (hb : parseBounds (rangeRule hasEqual) arg = some (lo, hi))
    (hm : Spec.Size.measure v = some m) (hx : boundsExact v lo hi = true) :
    ∃ out, ruleTo ext text obj field v hasEqual = .ok out ∧
      (out ≠ [] ↔ inSet (rangeRule hasEqual) lo hi m = false) := by
  have hpt : parseTagTo ext arg hasEqual = .ok (.ok (lo, hi)) := by
    have : (rangeRule hasEqual == .to || rangeRule hasEqual == .oto) = true := by cases hasEqual <;> decide
    simp only [parseBounds, this, if_true] at hb
    unfold parseTagTo
    split at hb
    · rename_i a c hs
      rcases ha : atoi a with ⟨z1, e1⟩
      rcases hc : atoi c with ⟨z2, e2⟩
      simp only [ha, hc] at hb
      cases e1 <;> cases e2 <;> simp at hb
      obtain ⟨rfl, rfl⟩ := hb
      simp [hs, ha, hc]
      rfl
    · simp at hb
  have hcore := range_core v hasEqual lo hi m hm hx
  unfold ruleTo
  simp only [hp, hpt, bind, Except.bind, pure, Except.pure]
  by_cases h1 : (validInputSize lo hi v hasEqual).less = true
  · simp only [h1, if_true]
    exact ⟨_, rfl, by simp [violClause_ne_nil, ← hcore, h1]⟩
  · by_cases h2 : (validInputSize lo hi v hasEqual).more = true
    · simp only [h1, h2, if_true, if_false]
      exact ⟨_, rfl, by simp [violClause_ne_nil, ← hcore, h2]⟩
    · simp only [h1, h2, if_false]
      refine ⟨_, rfl, ?_⟩
      rw [← hcore]; simp [h1, h2]

/-- `eq` / `noeq` -/
theorem C01_eq_verdict (ext : Ext) (text key arg msg obj field : Bytes) (v : GoVal) (wantEq : Bool) (lo : Int) (m : Measure)
    (hp : parseValidNameKV text = (key, arg, msg))
    (hb : parseBounds (eqRule wantEq) arg = some (lo, 0))
    (hm : Spec.Size.measure v = some m) (hx : boundsExact v lo 0 = true) :
    match ruleEq ext text obj field v wantEq with
    | .ok out => (out ≠ [] ↔ inSet (eqRule wantEq) lo 0 m = false)
    | .error (.unmodelled _) => inSet (eqRule wantEq) lo 0 m = false
    | .error (.need _) => inSet (eqRule wantEq) lo 0 m = false
    | .error _ => False := by
  have hlo : (atoi arg).1 = lo := by
    cases wantEq <;>
      (simp only [parseBounds, eqRule] at hb
       revert hb
       rcases atoi arg with ⟨z, e⟩
       cases e <;> simp)
  have hc := eq_core text key arg msg v lo m hp hlo hm hx
  unfold ruleEq
  rcases hcore : eqCore text v with ⟨eqStr, unit, cus, isEq⟩
  rw [hcore] at hc
  simp only at hc
  simp only [bind, Except.bind, pure, Except.pure]
  by_cases hw : (isEq == wantEq) = true
  · simp only [hw, if_true]
    cases wantEq <;> simp_all [eqRule, inSet]
  · simp only [hw]
    have hviol : inSet (eqRule wantEq) lo 0 m = false := by
      cases wantEq <;> simp_all [eqRule, inSet]
    rcases toStrIface_cases ext v with ⟨s, hs⟩ | ⟨w, hs⟩ | ⟨q, hs⟩
    · simp [hs, violClause_ne_nil, hviol]
    · simp [hs, hviol]
    · simp [hs, hviol]

/-- what "the rule is violated" means for a run of a rule function on the model: it wrote a clause.
`unmodelled` / `need` = the verdict is "violated" but the clause text needs `fmt %v` of a composite
(a residual answered by the standard library, or not nameable on the wire) -/
def Judged (res : M Bytes) (violated : Prop) : Prop :=
  match res with
  | .ok out => (out ≠ [] ↔ violated)
  | .error (.unmodelled _) => violated
  | .error (.need _) => violated
  | .error _ => False

theorem C01_verdict (ext : Ext) (text obj field : Bytes) (v : GoVal) (r : SizeRule) (lo hi : Int) (m : Measure)
    (hk : SizeRule.ofKey (parseValidNameKV text).1 = some r)
    (hb : parseBounds r (parseValidNameKV text).2.1 = some (lo, hi))
    (hm : Spec.Size.measure v = some m) (hx : boundsExact v lo hi = true) :
    ∃ run, builtin (parseValidNameKV text).1 = some (.fn run) ∧
      Judged (run ext text obj field v) (inSet r lo hi m = false) := by
  rcases hp : parseValidNameKV text with ⟨key, arg, msg⟩
  rw [hp] at hk hb
  simp only at hk hb
  have one (r : SizeRule) (h : (r == .to || r == .oto) = false) (hb : parseBounds r arg = some (lo, hi)) : hi = 0 := by
    simp only [parseBounds, h] at hb
    revert hb; rcases atoi arg with ⟨z, e⟩; cases e <;> simp
    intro _ h; exact h.symm
  unfold SizeRule.ofKey at hk
  split at hk
  · rename_i h; have := eq_of_beq h; subst this; cases hk
    refine ⟨_, rfl, ?_⟩
    obtain ⟨out, ho, hiff⟩ := C01_range_verdict ext text _ arg msg obj field v true lo hi m hp hb hm hx
    simp only [Judged, ho]; exact hiff
  split at hk
  · rename_i h; have := eq_of_beq h; subst this; cases hk
    have h0 := one .ge (by decide) hb; subst h0
    refine ⟨_, rfl, ?_⟩
    simp only [Judged]
    exact C01_bound_verdict text _ arg msg obj field v true true lo m hp hb hm hx
  split at hk
  · rename_i h; have := eq_of_beq h; subst this; cases hk
    have h0 := one .le (by decide) hb; subst h0
    refine ⟨_, rfl, ?_⟩
    simp only [Judged]
    exact C01_bound_verdict text _ arg msg obj field v false true lo m hp hb hm hx
  split at hk
  · rename_i h; have := eq_of_beq h; subst this; cases hk
    refine ⟨_, rfl, ?_⟩
    obtain ⟨out, ho, hiff⟩ := C01_range_verdict ext text _ arg msg obj field v false lo hi m hp hb hm hx
    simp only [Judged, ho]; exact hiff
  split at hk
  · rename_i h; have := eq_of_beq h; subst this; cases hk
    have h0 := one .gt (by decide) hb; subst h0
    refine ⟨_, rfl, ?_⟩
    simp only [Judged]
    exact C01_bound_verdict text _ arg msg obj field v true false lo m hp hb hm hx
  split at hk
  · rename_i h; have := eq_of_beq h; subst this; cases hk
    have h0 := one .lt (by decide) hb; subst h0
    refine ⟨_, rfl, ?_⟩
    simp only [Judged]
    exact C01_bound_verdict text _ arg msg obj field v false false lo m hp hb hm hx
  split at hk
  · rename_i h; have := eq_of_beq h; subst this; cases hk
    have h0 := one .eq (by decide) hb; subst h0
    refine ⟨_, rfl, ?_⟩
    have := C01_eq_verdict ext text _ arg msg obj field v true lo m hp hb hm hx
    simp only [Judged]
    split <;> simp_all [eqRule]
  split at hk
  · rename_i h; have := eq_of_beq h; subst this; cases hk
    have h0 := one .noeq (by decide) hb; subst h0
    refine ⟨_, rfl, ?_⟩
    have := C01_eq_verdict ext text _ arg msg obj field v false lo m hp hb hm hx
    simp only [Judged]
    split <;> simp_all [eqRule]
  · cases hk

/-! ### the statement over rule *texts*: `key=lo`, `key=lo~hi`, with or without `|message` -/

def _root_.PGV.Spec.Size.SizeRule.key : SizeRule → Bytes
  | .to => b! "to" | .ge => b! "ge" | .le => b! "le" | .oto => b! "oto"
  | .gt => b! "gt" | .lt => b! "lt" | .eq => b! "eq" | .noeq => b! "noeq"

def _root_.PGV.Spec.Size.SizeRule.isRange (r : SizeRule) : Bool := r == .to || r == .oto

/-- the bounds written in decimal, as a tag author writes them -/
def boundsText (r : SizeRule) (lo hi : Int) : Bytes :=
  if r.isRange then intToBytes lo ++ (126 : UInt8) :: intToBytes hi else intToBytes lo

/-- the rule text of the documented shape; `msg = []` means no custom message -/
def ruleText (r : SizeRule) (lo hi : Int) (msg : Bytes) : Bytes :=
  r.key ++ EQ :: (if msg = [] then boundsText r lo hi else boundsText r lo hi ++ BAR :: msg)

theorem intToBytes_chars (z : Int) : ∀ c ∈ intToBytes z, c = 45 ∨ Lang.isDigit c = true := by
  intro c hc
  have hd := (PGV.Proofs.Atoi.natToBytes_spec z.natAbs).2.1
  rw [List.all_eq_true] at hd
  unfold intToBytes at hc
  split at hc
  · rcases List.mem_cons.mp hc with h | h
    · exact Or.inl h
    · exact Or.inr (hd c h)
  · exact Or.inr (hd c hc)

theorem intToBytes_no (z : Int) (c : UInt8) (h45 : c ≠ 45) (hd : Lang.isDigit c = false) : c ∉ intToBytes z := by
  intro hc
  rcases intToBytes_chars z c hc with h | h
  · exact h45 h
  · rw [hd] at h; cases h

theorem boundsText_noBar (r : SizeRule) (lo hi : Int) : BAR ∉ boundsText r lo hi := by
  unfold boundsText
  split
  · intro h
    rcases List.mem_append.mp h with h | h
    · exact intToBytes_no lo BAR (by decide) (by decide) h
    · rcases List.mem_cons.mp h with h | h
      · exact absurd h (by decide)
      · exact intToBytes_no hi BAR (by decide) (by decide) h
  · exact intToBytes_no lo BAR (by decide) (by decide)

theorem parseBounds_boundsText (r : SizeRule) (lo hi : Int)
    (l1 : int64Min ≤ lo) (l2 : lo ≤ int64Max) (h1 : int64Min ≤ hi) (h2 : hi ≤ int64Max) :
    parseBounds r (boundsText r lo hi) = some (lo, if r.isRange then hi else 0) := by
  unfold parseBounds boundsText SizeRule.isRange
  by_cases hr : (r == .to || r == .oto) = true
  · simp only [hr, if_true]
    rw [PGV.Proofs.LangEq.splitByte_append 126 _ _ (intToBytes_no lo 126 (by decide) (by decide)),
      PGV.Proofs.LangEq.splitByte_not_mem 126 _ (intToBytes_no hi 126 (by decide) (by decide))]
    simp only [PGV.Proofs.Atoi.atoi_intToBytes lo l1 l2, PGV.Proofs.Atoi.atoi_intToBytes hi h1 h2]
    rfl
  · simp only [hr, Bool.false_eq_true, if_false]
    simp only [PGV.Proofs.Atoi.atoi_intToBytes lo l1 l2]
    rfl

theorem parse_ruleText (r : SizeRule) (lo hi : Int) (msg : Bytes) :
    (parseValidNameKV (ruleText r lo hi msg)).1 = r.key ∧
    (parseValidNameKV (ruleText r lo hi msg)).2.1 = boundsText r lo hi := by
  have he : EQ ∉ r.key := by cases r <;> decide
  have hb : BAR ∉ r.key := by cases r <;> decide
  unfold ruleText
  by_cases hm : msg = []
  · simp only [hm, if_true]
    rw [PGV.Proofs.RuleText.parse_key_val _ _ he hb (boundsText_noBar r lo hi)]
    exact ⟨rfl, rfl⟩
  · simp only [hm, if_false]
    rw [PGV.Proofs.RuleText.parse_key_val_msg _ _ _ he hb (boundsText_noBar r lo hi) hm]
    exact ⟨rfl, rfl⟩

/-- **C01 over rule texts.**  For each of the eight rules, every pair of 64-bit integer bounds
written in decimal, with or without a custom message, and every value that has a measure: the
registered rule function, run on the text `key=lo[~hi][|msg]`, writes a clause exactly when the
measure lies outside the set the rule states. -/
theorem C01_verdict_text (ext : Ext) (obj field msg : Bytes) (v : GoVal) (r : SizeRule) (lo hi : Int) (m : Measure)
    (l1 : int64Min ≤ lo) (l2 : lo ≤ int64Max) (h1 : int64Min ≤ hi) (h2 : hi ≤ int64Max)
    (hm : Spec.Size.measure v = some m) (hx : boundsExact v lo (if r.isRange then hi else 0) = true) :
    ∃ run, builtin r.key = some (.fn run) ∧
      Judged (run ext (ruleText r lo hi msg) obj field v) (inSet r lo (if r.isRange then hi else 0) m = false) := by
  obtain ⟨pk, pa⟩ := parse_ruleText r lo hi msg
  have hk : SizeRule.ofKey (parseValidNameKV (ruleText r lo hi msg)).1 = some r := by
    rw [pk]; cases r <;> decide
  have hb : parseBounds r (parseValidNameKV (ruleText r lo hi msg)).2.1 = some (lo, if r.isRange then hi else 0) := by
    rw [pa]; exact parseBounds_boundsText r lo hi l1 l2 h1 h2
  have := C01_verdict ext (ruleText r lo hi msg) obj field v r lo _ m hk hb hm hx
  rw [pk] at this
  exact this

-- the texts are the ones a tag author writes
example : ruleText .to 1 10 (b! "bad") = b! "to=1~10|bad" := by decide
example : ruleText .noeq (-3) 0 [] = b! "noeq=-3" := by decide
example : ruleText .oto (-9223372036854775808) 9223372036854775807 [] = b! "oto=-9223372036854775808~9223372036854775807" := by decide

/-- the verdict depends on the value only through its measure: integer width, signedness, and the
kind carrying the measure are irrelevant (e.g. `int8 5`, `uint64 5`, a 5-rune string, a slice of
length 5 get the same verdict from every rule) -/
theorem C01_width_signedness_indep (ext : Ext) (text obj field : Bytes) (v₁ v₂ : GoVal) (r : SizeRule)
    (lo hi : Int) (m : Measure)
    (hk : SizeRule.ofKey (parseValidNameKV text).1 = some r)
    (hb : parseBounds r (parseValidNameKV text).2.1 = some (lo, hi))
    (hm₁ : Spec.Size.measure v₁ = some m) (hm₂ : Spec.Size.measure v₂ = some m)
    (hx₁ : boundsExact v₁ lo hi = true) (hx₂ : boundsExact v₂ lo hi = true) :
    ∃ run, builtin (parseValidNameKV text).1 = some (.fn run) ∧
      ∀ out₁ out₂, run ext text obj field v₁ = .ok out₁ → run ext text obj field v₂ = .ok out₂ →
        (out₁ ≠ [] ↔ out₂ ≠ []) := by
  obtain ⟨run, hrun, h1⟩ := C01_verdict ext text obj field v₁ r lo hi m hk hb hm₁ hx₁
  obtain ⟨run', hrun', h2⟩ := C01_verdict ext text obj field v₂ r lo hi m hk hb hm₂ hx₂
  rw [hrun] at hrun'; cases hrun'
  refine ⟨run, hrun, ?_⟩
  intro o1 o2 e1 e2
  simp only [Judged, e1] at h1
  simp only [Judged, e2] at h2
  rw [h1, h2]

/-! ### non-vacuity: concrete values meet the hypotheses and sit exactly on exclusive bounds -/

def wrote (r : M Bytes) : Option Bool := match r with | .ok o => some (!o.isEmpty) | _ => none

/-- a 3-rune CJK string (9 bytes) under `oto=3~5`: the bound itself is excluded → violated -/
example : wrote (ruleTo (fun _ => none) (b! "oto=3~5") [] [] (.str (b! "中文字")) false) = some true := by decide
example : inSet .oto 3 5 (.int 3) = false := by decide
/-- … and under `oto=2~4` it passes -/
example : wrote (ruleTo (fun _ => none) (b! "oto=2~4") [] [] (.str (b! "中文字")) false) = some false := by decide
/-- `uint8 5` under `gt=5` is violated; `int8 -128` under `ge=-128` passes; negative bound on unsigned -/
example : ruleBound (b! "gt=5") [] [] (.uint 8 5) true false ≠ [] := by decide
example : ruleBound (b! "ge=-128") [] [] (.int 8 (-128)) true true = [] := by decide
example : ruleBound (b! "ge=-1") [] [] (.uint 8 5) true true = [] := by decide
example : SizeRule.ofKey (parseValidNameKV (b! "gt=5|msg")).1 = some .gt
    ∧ parseBounds .gt (parseValidNameKV (b! "gt=5|msg")).2.1 = some (5, 0)
    ∧ Spec.Size.measure (.uint 8 5) = some (.int 5) ∧ boundsExact (.uint 8 5) 5 0 = true := by decide

/-! ### known finding F-C01-e: outside the `boundsExact` window the statement is false of the code

`float64(2^53)` passes `ge=9007199254740993` (= 2^53 + 1): `float64(bound)` rounds to 2^53. -/
theorem F_C01_e_witness :
    ruleBound (b! "ge=9007199254740993") [] [] (.float 64 (.fin (2 ^ 52) 1) [] []) true true = []
      ∧ inSet .ge 9007199254740993 0 (.real (.fin (2 ^ 52) 1)) = false
      ∧ boundsExact (.float 64 (.fin (2 ^ 52) 1) [] []) 9007199254740993 0 = false := by decide


/-- the code's rule table `validName2FnMap` binds every rule name to the function the model's table
binds it to, and has exactly the model's rule names (re-extracted from the source on every run) -/
theorem C01_rule_table : PGV.Expected.ruleTableOK PGV.Generated.ruleTable = true ∧ PGV.Expected.modelKeysOK PGV.Generated.ruleKeys = true :=
  ⟨PGV.Props.Facts.T2_rule_table, PGV.Props.Facts.T2_model_keys⟩

end PGV.Props.C01
