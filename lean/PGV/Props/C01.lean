import PGV.Proofs.Size

/-!
# C01 — size / comparison rules judge by the documented measure with exact boundaries

For every rule text whose key is one of `to ge le oto gt lt eq noeq` and whose argument reads as
integer bounds, and every value that has a measure (string: rune count; signed / unsigned /
floating-point number: numeric value; slice: length), the rule function writes a clause exactly
when the measure lies outside the set the rule states.  No bound on widths, bounds or values.
Floats: under `boundsExact` (|bound| < 2^53, where `float64(bound)` is exact) — outside that window
the statement is false of the code (known finding F-C01-e, witnessed below).
-/

namespace PGV.Props.C01
open PGV PGV.Model PGV.Spec.Size PGV.Proofs.Size

theorem C01_bound_verdict (text key arg msg obj field : Bytes) (v : GoVal) (isMin hasEqual : Bool)
    (lo : Int) (m : Measure)
    (hp : parseValidNameKV text = (key, arg, msg))
    (hb : parseBounds (boundRule isMin hasEqual) arg = some (lo, 0))
    (hm : measure v = some m) (hx : boundsExact v lo 0 = true) :
    (ruleBound text obj field v isMin hasEqual ≠ []) ↔ inSet (boundRule isMin hasEqual) lo 0 m = false := by
  have hlo : (atoi arg).1 = lo := by
    cases isMin <;> cases hasEqual <;>
      (simp only [parseBounds, boundRule] at hb
       revert hb
       rcases atoi arg with ⟨z, e⟩
       cases e <;> simp)
  unfold ruleBound
  simp only [hp, hlo]
  cases v <;> simp only [Spec.Size.measure] at hm <;> try contradiction
  case str s =>
    cases hm
    cases isMin <;> cases hasEqual <;>
      simp [validInputSize, boundRule, inSet, cmp, violClause_ne_nil, icmp_lt, icmp_gt] <;> omega
  case int bits z =>
    cases hm
    cases isMin <;> cases hasEqual <;>
      simp [validInputSize, boundRule, inSet, cmp, violClause_ne_nil, icmp_lt, icmp_gt] <;> omega
  case uint bits n =>
    cases hm
    cases isMin <;> cases hasEqual <;>
      simp [validInputSize, boundRule, inSet, cmp, violClause_ne_nil, icmp_lt, icmp_gt] <;> omega
  case slice t e n es =>
    cases hm
    cases isMin <;> cases hasEqual <;>
      simp [validInputSize, boundRule, inSet, cmp, violClause_ne_nil, icmp_lt, icmp_gt] <;> omega
  case float bits f r1 r2 =>
    have hex : f64OfInt lo = .fin lo 0 := f64OfInt_exact lo (by simp [boundsExact] at hx; exact hx.1)
    cases f <;> simp at hm
    all_goals subst hm
    all_goals
      cases isMin <;> cases hasEqual <;>
        simp [validInputSize, boundRule, inSet, cmp, violClause_ne_nil, hex, FloatVal.lt, FloatVal.le, FloatVal.eq]
    all_goals
      rename_i m e
      try rw [cmpDyadic_swap m e lo 0]
      cases cmpDyadic m e lo 0 <;> simp

/-- `to` / `oto` -/
theorem C01_range_verdict (ext : Ext) (text key arg msg obj field : Bytes) (v : GoVal) (hasEqual : Bool)
    (lo hi : Int) (m : Measure)
    (hp : parseValidNameKV text = (key, arg, msg))
    (hb : parseBounds (rangeRule hasEqual) arg = some (lo, hi))
    (hm : Spec.Size.measure v = some m) (hx : boundsExact v lo hi = true) :
    ∃ out, ruleTo ext text obj field v hasEqual = .ok out ∧
      (out ≠ [] ↔ inSet (rangeRule hasEqual) lo hi m = false) := by
  have hpt : parseTagTo ext arg hasEqual = .ok (.ok (lo, hi)) := by
    have : (rangeRule hasEqual == .to || rangeRule hasEqual == .oto) = true := by cases hasEqual <;> decide
    simp only [parseBounds, this, if_true] at hb
    unfold parseTagTo
    split at hb
    · rename_i a c hs
      rcases ha : atoi a with ⟨z1, e1⟩
      rcases hc : atoi c with ⟨z2, e2⟩
      simp only [ha, hc] at hb
      cases e1 <;> cases e2 <;> simp at hb
      obtain ⟨rfl, rfl⟩ := hb
      simp [hs, ha, hc]
      rfl
    · simp at hb
  have hcore := range_core v hasEqual lo hi m hm hx
  unfold ruleTo
  simp only [hp, hpt, bind, Except.bind, pure, Except.pure]
  by_cases h1 : (validInputSize lo hi v hasEqual).less = true
  · simp only [h1, if_true]
    exact ⟨_, rfl, by simp [violClause_ne_nil, ← hcore, h1]⟩
  · by_cases h2 : (validInputSize lo hi v hasEqual).more = true
    · simp only [h1, h2, if_true, if_false]
      exact ⟨_, rfl, by simp [violClause_ne_nil, ← hcore, h2]⟩
    · simp only [h1, h2, if_false]
      refine ⟨_, rfl, ?_⟩
      rw [← hcore]; simp [h1, h2]

/-- `eq` / `noeq` -/
theorem C01_eq_verdict (text key arg msg obj field : Bytes) (v : GoVal) (wantEq : Bool) (lo : Int) (m : Measure)
    (hp : parseValidNameKV text = (key, arg, msg))
    (hb : parseBounds (eqRule wantEq) arg = some (lo, 0))
    (hm : Spec.Size.measure v = some m) (hx : boundsExact v lo 0 = true) :
    match ruleEq text obj field v wantEq with
    | .ok out => (out ≠ [] ↔ inSet (eqRule wantEq) lo 0 m = false)
    | .error (.unmodelled _) => inSet (eqRule wantEq) lo 0 m = false
    | .error _ => False := by
  have hlo : (atoi arg).1 = lo := by
    cases wantEq <;>
      (simp only [parseBounds, eqRule] at hb
       revert hb
       rcases atoi arg with ⟨z, e⟩
       cases e <;> simp)
  have hc := eq_core text key arg msg v lo m hp hlo hm hx
  unfold ruleEq
  rcases hcore : eqCore text v with ⟨eqStr, unit, cus, isEq⟩
  rw [hcore] at hc
  simp only at hc
  simp only [bind, Except.bind, pure, Except.pure]
  by_cases hw : (isEq == wantEq) = true
  · simp only [hw, if_true]
    cases wantEq <;> simp_all [eqRule, inSet]
  · simp only [hw]
    have hviol : inSet (eqRule wantEq) lo 0 m = false := by
      cases wantEq <;> simp_all [eqRule, inSet]
    rcases toStrIface_cases v with ⟨s, hs⟩ | ⟨w, hs⟩
    · simp [hs, violClause_ne_nil, hviol]
    · simp [hs, hviol]

/-- what "the rule is violated" means for a run of a rule function on the model: it wrote a clause.
`unmodelled` = the verdict is "violated" but the clause text needs `fmt %v` of a composite (not modelled) -/
def Judged (res : M Bytes) (violated : Prop) : Prop :=
  match res with
  | .ok out => (out ≠ [] ↔ violated)
  | .error (.unmodelled _) => violated
  | .error _ => False

theorem C01_verdict (ext : Ext) (text obj field : Bytes) (v : GoVal) (r : SizeRule) (lo hi : Int) (m : Measure)
    (hk : SizeRule.ofKey (parseValidNameKV text).1 = some r)
    (hb : parseBounds r (parseValidNameKV text).2.1 = some (lo, hi))
    (hm : Spec.Size.measure v = some m) (hx : boundsExact v lo hi = true) :
    ∃ run, builtin (parseValidNameKV text).1 = some (.fn run) ∧
      Judged (run ext text obj field v) (inSet r lo hi m = false) := by
  rcases hp : parseValidNameKV text with ⟨key, arg, msg⟩
  rw [hp] at hk hb
  simp only at hk hb
  have one (r : SizeRule) (h : (r == .to || r == .oto) = false) (hb : parseBounds r arg = some (lo, hi)) : hi = 0 := by
    simp only [parseBounds, h] at hb
    revert hb; rcases atoi arg with ⟨z, e⟩; cases e <;> simp
    intro _ h; exact h.symm
  unfold SizeRule.ofKey at hk
  split at hk
  · rename_i h; have := eq_of_beq h; subst this; cases hk
    refine ⟨_, rfl, ?_⟩
    obtain ⟨out, ho, hiff⟩ := C01_range_verdict ext text _ arg msg obj field v true lo hi m hp hb hm hx
    simp only [Judged, ho]; exact hiff
  split at hk
  · rename_i h; have := eq_of_beq h; subst this; cases hk
    have h0 := one .ge (by decide) hb; subst h0
    refine ⟨_, rfl, ?_⟩
    simp only [Judged]
    exact C01_bound_verdict text _ arg msg obj field v true true lo m hp hb hm hx
  split at hk
  · rename_i h; have := eq_of_beq h; subst this; cases hk
    have h0 := one .le (by decide) hb; subst h0
    refine ⟨_, rfl, ?_⟩
    simp only [Judged]
    exact C01_bound_verdict text _ arg msg obj field v false true lo m hp hb hm hx
  split at hk
  · rename_i h; have := eq_of_beq h; subst this; cases hk
    refine ⟨_, rfl, ?_⟩
    obtain ⟨out, ho, hiff⟩ := C01_range_verdict ext text _ arg msg obj field v false lo hi m hp hb hm hx
    simp only [Judged, ho]; exact hiff
  split at hk
  · rename_i h; have := eq_of_beq h; subst this; cases hk
    have h0 := one .gt (by decide) hb; subst h0
    refine ⟨_, rfl, ?_⟩
    simp only [Judged]
    exact C01_bound_verdict text _ arg msg obj field v true false lo m hp hb hm hx
  split at hk
  · rename_i h; have := eq_of_beq h; subst this; cases hk
    have h0 := one .lt (by decide) hb; subst h0
    refine ⟨_, rfl, ?_⟩
    simp only [Judged]
    exact C01_bound_verdict text _ arg msg obj field v false false lo m hp hb hm hx
  split at hk
  · rename_i h; have := eq_of_beq h; subst this; cases hk
    have h0 := one .eq (by decide) hb; subst h0
    refine ⟨_, rfl, ?_⟩
    have := C01_eq_verdict text _ arg msg obj field v true lo m hp hb hm hx
    simp only [Judged]
    split <;> simp_all [eqRule]
  split at hk
  · rename_i h; have := eq_of_beq h; subst this; cases hk
    have h0 := one .noeq (by decide) hb; subst h0
    refine ⟨_, rfl, ?_⟩
    have := C01_eq_verdict text _ arg msg obj field v false lo m hp hb hm hx
    simp only [Judged]
    split <;> simp_all [eqRule]
  · cases hk

/-- the verdict depends on the value only through its measure: integer width, signedness, and the
kind carrying the measure are irrelevant (e.g. `int8 5`, `uint64 5`, a 5-rune string, a slice of
length 5 get the same verdict from every rule) -/
theorem C01_width_signedness_indep (ext : Ext) (text obj field : Bytes) (v₁ v₂ : GoVal) (r : SizeRule)
    (lo hi : Int) (m : Measure)
    (hk : SizeRule.ofKey (parseValidNameKV text).1 = some r)
    (hb : parseBounds r (parseValidNameKV text).2.1 = some (lo, hi))
    (hm₁ : Spec.Size.measure v₁ = some m) (hm₂ : Spec.Size.measure v₂ = some m)
    (hx₁ : boundsExact v₁ lo hi = true) (hx₂ : boundsExact v₂ lo hi = true) :
    ∃ run, builtin (parseValidNameKV text).1 = some (.fn run) ∧
      ∀ out₁ out₂, run ext text obj field v₁ = .ok out₁ → run ext text obj field v₂ = .ok out₂ →
        (out₁ ≠ [] ↔ out₂ ≠ []) := by
  obtain ⟨run, hrun, h1⟩ := C01_verdict ext text obj field v₁ r lo hi m hk hb hm₁ hx₁
  obtain ⟨run', hrun', h2⟩ := C01_verdict ext text obj field v₂ r lo hi m hk hb hm₂ hx₂
  rw [hrun] at hrun'; cases hrun'
  refine ⟨run, hrun, ?_⟩
  intro o1 o2 e1 e2
  simp only [Judged, e1] at h1
  simp only [Judged, e2] at h2
  rw [h1, h2]

/-! ### non-vacuity: concrete values meet the hypotheses and sit exactly on exclusive bounds -/

def wrote (r : M Bytes) : Option Bool := match r with | .ok o => some (!o.isEmpty) | _ => none

/-- a 3-rune CJK string (9 bytes) under `oto=3~5`: the bound itself is excluded → violated -/
example : wrote (ruleTo (fun _ => none) (b! "oto=3~5") [] [] (.str (b! "中文字")) false) = some true := by decide
example : inSet .oto 3 5 (.int 3) = false := by decide
/-- … and under `oto=2~4` it passes -/
example : wrote (ruleTo (fun _ => none) (b! "oto=2~4") [] [] (.str (b! "中文字")) false) = some false := by decide
/-- `uint8 5` under `gt=5` is violated; `int8 -128` under `ge=-128` passes; negative bound on unsigned -/
example : ruleBound (b! "gt=5") [] [] (.uint 8 5) true false ≠ [] := by decide
example : ruleBound (b! "ge=-128") [] [] (.int 8 (-128)) true true = [] := by decide
example : ruleBound (b! "ge=-1") [] [] (.uint 8 5) true true = [] := by decide
example : SizeRule.ofKey (parseValidNameKV (b! "gt=5|msg")).1 = some .gt
    ∧ parseBounds .gt (parseValidNameKV (b! "gt=5|msg")).2.1 = some (5, 0)
    ∧ Spec.Size.measure (.uint 8 5) = some (.int 5) ∧ boundsExact (.uint 8 5) 5 0 = true := by decide

/-! ### known finding F-C01-e: outside the `boundsExact` window the statement is false of the code

`float64(2^53)` passes `ge=9007199254740993` (= 2^53 + 1): `float64(bound)` rounds to 2^53. -/
theorem F_C01_e_witness :
    ruleBound (b! "ge=9007199254740993") [] [] (.float 64 (.fin (2 ^ 52) 1) [] []) true true = []
      ∧ inSet .ge 9007199254740993 0 (.real (.fin (2 ^ 52) 1)) = false
      ∧ boundsExact (.float 64 (.fin (2 ^ 52) 1) [] []) 9007199254740993 0 = false := by decide


end PGV.Props.C01
