import PGV.Props.C08
import PGV.Props.Facts.Alias
import PGV.Proofs.Frame

/-!
# C12 — a call's result depends only on its own arguments and stays fixed afterwards

Two kinds of shared state could carry information from one call to the next: the struct-type cache
(C08: transparent for every history) and the object pools.  Here: whatever validator object and
builder a call draws from the pools — anything a previous call may have left there — the result is
the result with fresh objects, provided the pools only hold *clean* objects; and every call puts
clean objects back.  So the invariant holds in every history and every call returns its fresh-state
result, whatever calls preceded it and in whatever order.
-/

namespace PGV.Props.C12
open PGV.Model.Cache

variable {RMap Fns Src : Type}

def freshObj : VObj RMap Fns := { tag := [], ruleMap := none, fns := none }

/-- a clean recycled object and an empty recycled builder are as good as new ones -/
theorem C12_pool_adversarial (emptyMap : RMap) (eval : List UInt8 → RMap → Fns → Src → List UInt8)
    (recycled : VObj RMap Fns) (buf : List UInt8) (c : Call RMap Fns Src)
    (ho : recycled.ruleMap = none) (hb : buf = []) :
    (exec emptyMap eval recycled buf c).1 = (exec emptyMap eval freshObj [] c).1 := by
  simp [exec, ho, hb, freshObj]

/-- every call returns clean objects to the pools (rule map cleared, builder reset) -/
theorem C12_returns_clean (emptyMap : RMap) (eval : List UInt8 → RMap → Fns → Src → List UInt8)
    (recycled : VObj RMap Fns) (buf : List UInt8) (c : Call RMap Fns Src) :
    (exec emptyMap eval recycled buf c).2.1.ruleMap = none ∧ (exec emptyMap eval recycled buf c).2.2 = [] := by
  simp [exec]

/-- a history of calls; before each call an adversary picks which pooled object and which pooled
builder it gets (`pick`), or a new one (`none`) -/
def runPool (emptyMap : RMap) (eval : List UInt8 → RMap → Fns → Src → List UInt8) :
    List (Call RMap Fns Src × Option Nat × Option Nat) → List (VObj RMap Fns) → List (List UInt8) →
      List (Option (List UInt8))
  | [], _, _ => []
  | (c, io, ib) :: rest, objs, bufs =>
    let o := (io.bind (objs[·]?)).getD freshObj
    let b := (ib.bind (bufs[·]?)).getD []
    let r := exec emptyMap eval o b c
    r.1 :: runPool emptyMap eval rest (r.2.1 :: objs) (r.2.2 :: bufs)

/-- **history independence**: under every pool schedule, every call of every history returns what it
returns in a fresh process -/
theorem C12_history_independent (emptyMap : RMap) (eval : List UInt8 → RMap → Fns → Src → List UInt8)
    (h : List (Call RMap Fns Src × Option Nat × Option Nat)) (objs : List (VObj RMap Fns)) (bufs : List (List UInt8))
    (hinv : PoolInv objs bufs) :
    runPool emptyMap eval h objs bufs = h.map fun (c, _, _) => (exec emptyMap eval freshObj [] c).1 := by
  induction h generalizing objs bufs with
  | nil => rfl
  | cons x rest ih =>
    rcases x with ⟨c, io, ib⟩
    simp only [runPool, List.map_cons]
    have ho : ((io.bind (objs[·]?)).getD freshObj).ruleMap = none := by
      cases io with
      | none => rfl
      | some i =>
        simp only [Option.bind_some]
        cases hg : objs[i]? with
        | none => rfl
        | some o => exact hinv.1 o (List.mem_of_getElem? hg)
    have hb : (ib.bind (bufs[·]?)).getD [] = [] := by
      cases ib with
      | none => rfl
      | some i =>
        simp only [Option.bind_some]
        cases hg : bufs[i]? with
        | none => rfl
        | some b => exact hinv.2 b (List.mem_of_getElem? hg)
    congr 1
    · exact C12_pool_adversarial emptyMap eval _ _ c ho hb
    · apply ih
      obtain ⟨h1, h2⟩ := C12_returns_clean emptyMap eval ((io.bind (objs[·]?)).getD freshObj) ((ib.bind (bufs[·]?)).getD []) c
      constructor
      · intro o hm
        simp only [List.mem_cons] at hm
        rcases hm with rfl | hm
        · exact h1
        · exact hinv.1 o hm
      · intro b hm
        simp only [List.mem_cons] at hm
        rcases hm with rfl | hm
        · exact h2
        · exact hinv.2 b hm

/-- what a struct validation writes (text and group members) is the same whatever the builder already
holds: it is computed from the arguments alone and appended -/
theorem C12_writes_independent_of_buffer (cfg : PGV.Model.StructCfg) (name : PGV.Bytes) (v : PGV.Model.GoVal) (g : Bool)
    (st : PGV.Model.WSt) :
    PGV.Model.validate cfg name v g st = PGV.Proofs.Frame.lift st (PGV.Model.validate cfg name v g {}) :=
  PGV.Proofs.Frame.Frame_validate cfg name v g st

/-- at process start the pools are empty: the invariant holds -/
theorem C12_pool_inv_init : PoolInv ([] : List (VObj RMap Fns)) [] := by
  constructor <;> intro _ h <;> cases h

/-- the invariant is necessary: a builder that was not reset leaks the previous error into the next result -/
example : (exec (RMap := Unit) (Fns := Unit) (Src := Unit) () (fun _ _ _ _ => []) freshObj [120] ⟨[], [], (), ()⟩).1 = some [120]
    ∧ (exec (RMap := Unit) (Fns := Unit) (Src := Unit) () (fun _ _ _ _ => []) freshObj [] ⟨[], [], (), ()⟩).1 = none := by
  decide

/-- handed-out strings never alias a buffer that is written again: every zero-copy conversion in
package `valid` is applied to a buffer made in the same function, after its last write, outside
loops (re-extracted from the source on every run) -/
theorem C12_no_aliasing : PGV.Expected.aliasOK PGV.Generated.aliasFacts = true := PGV.Props.Facts.T2_alias

end PGV.Props.C12
