import PGV.Proofs.RuleText

/-!
# C14 — rule text: splitter refinement, no-loss, quoted segments, builder/parser round trip
-/

namespace PGV.Props.C14
open PGV PGV.Model PGV.Spec
open PGV.Proofs.RuleText

/-- the byte stack of the splitter never holds more than one element (the two-element `Pop` is
    unreachable), and it is non-empty exactly when inside quotes -/
theorem stack_le_one (sep : UInt8) (s : Bytes) :
    let st := s.foldl (splitStep sep) {}
    st.stack.length ≤ 1 ∧ (st.inQ = true ↔ st.stack ≠ []) := by
  intro st
  have h : StackInv st := stackInv_fold sep s {} stackInv_init
  unfold StackInv at h
  cases hq : st.inQ <;> simp [hq] at h <;> simp [h]

/-- the splitter returns the quote-aware pieces up to one trailing empty piece (all byte strings,
    both paths) -/
theorem C14_split_refines (s : Bytes) (sep : UInt8) (h : sep ≠ QUOTE) :
    splitOk s sep (validNamesSplit s sep) = true := by
  unfold splitOk validNamesSplit
  by_cases hs : s = []
  · simp [hs]
  · have hs' : s.isEmpty = false := by simpa using hs
    simp only [hs', Bool.false_eq_true, if_false]
    by_cases hq : Bytes.hasByte s QUOTE = false
    · have := pieces_eq_splitByte sep s (hasByte_eq_false.mp hq)
      simp [hq, this]
    · have hq' : Bytes.hasByte s QUOTE = true := by simpa using hq
      simp only [hq', Bool.not_true, Bool.false_eq_true, if_false, Bool.or_eq_true, beq_iff_eq]
      exact splitSlow_eq sep h s

/-- no-loss: the pieces joined by the separator give back the text, up to one trailing separator -/
theorem C14_split_noloss (s : Bytes) (sep : UInt8) (h : sep ≠ QUOTE) (hs : s ≠ []) :
    noLoss s sep (validNamesSplit s sep) = true := by
  have hr := C14_split_refines s sep h
  have hs' : s.isEmpty = false := by simpa using hs
  simp only [splitOk, hs', Bool.false_eq_true, if_false, Bool.or_eq_true, beq_iff_eq] at hr
  have hj := join_pieces sep false s
  simp only [noLoss, Bool.or_eq_true, beq_iff_eq]
  rcases hr with hr | hr
  · left; rw [hr, hj]
  · rw [hr]
    have := join_dropLastEmpty sep (pieces sep false s) (by rw [hj]; exact hs)
    rw [hj] at this
    exact this

theorem C14_split_empty (sep : UInt8) : validNamesSplit [] sep = [] := rfl

/-- a separator inside a quoted segment never splits: a quoted segment is glued onto the current
    piece -/
theorem C14_split_quoted (sep : UInt8) (q rest : Bytes) (hq : Bytes.hasByte q QUOTE = false) :
    pieces sep false (QUOTE :: (q ++ QUOTE :: rest))
      = (match pieces sep false rest with
         | [] => [QUOTE :: (q ++ [QUOTE])]
         | p :: ps => (QUOTE :: (q ++ QUOTE :: p)) :: ps) := by
  rw [pieces_false_quote, pieces_true_quoted sep q rest (hasByte_eq_false.mp hq)]
  cases pieces sep false rest <;> simp [prependHead, consHead]

/-- round trip: builder → RM.Set → RM.Get → splitter → parser recovers every well-formed rule list -/
theorem C14_roundtrip (rules : List Rule) (h : ∀ r ∈ rules, r.wf = true) :
    roundTrip (rules.map fun r => (r.key, r.genArgs)) = rules.map Rule.expected := by
  have hCQ : COMMA ≠ QUOTE := by decide
  unfold roundTrip
  simp only [List.map_map]
  rw [rmGet_rmSet]
  have htexts : (rules.map ((fun (x : Bytes × List Bytes) => genValidKV x.1 x.2) ∘
      fun r => (r.key, r.genArgs))) = rules.map ruleText := by
    apply List.map_congr_left; intro r _; rfl
  rw [htexts]
  cases rules with
  | nil => rfl
  | cons r0 rs =>
    have hne : ∀ x ∈ (r0 :: rs).map ruleText, x ≠ [] := by
      intro x hx
      obtain ⟨r, hr, rfl⟩ := List.mem_map.mp hx
      exact ruleText_ne_nil r (h r hr)
    have hgl : ∀ x ∈ (r0 :: rs).map ruleText, Glued COMMA x := by
      intro x hx
      obtain ⟨r, hr, rfl⟩ := List.mem_map.mp hx
      exact ruleText_glued r (h r hr)
    have hjne : Bytes.join [COMMA] ((r0 :: rs).map ruleText) ≠ [] := by
      rw [List.map_cons]
      exact join_ne_nil _ _ _ (ruleText_ne_nil r0 (h r0 (by simp)))
    have hp := pieces_join_glued COMMA hCQ _ (by simp) hgl
    have hsplit : validNamesSplit (Bytes.join [COMMA] ((r0 :: rs).map ruleText))
        = (r0 :: rs).map ruleText := by
      have hr := C14_split_refines (Bytes.join [COMMA] ((r0 :: rs).map ruleText)) COMMA hCQ
      have he : (Bytes.join [COMMA] ((r0 :: rs).map ruleText)).isEmpty = false := by
        simpa using hjne
      simp only [splitOk, he, Bool.false_eq_true, if_false, Bool.or_eq_true, beq_iff_eq, hp,
        dropLastEmpty_of_last_ne _ hne, or_self] at hr
      exact hr
    rw [hsplit, List.map_map]
    apply List.map_congr_left
    intro r hr
    exact parse_ruleText r (h r hr)

/-- the non-emptiness hypothesis of `C14_split_noloss` is not needed (extra; the statement above is
    kept as specified) -/
theorem C14_split_noloss_all (s : Bytes) (sep : UInt8) (h : sep ≠ QUOTE) :
    noLoss s sep (validNamesSplit s sep) = true := by
  by_cases hs : s = []
  · subst hs; simp [noLoss, C14_split_empty, Bytes.join]
  · exact C14_split_noloss s sep h hs

/-! ## non-vacuity -/

section NonVacuity

/-- `re=a{1,3}|长度` (comma inside the pattern, CJK message), `to=5|x` (one-byte message),
    `req`, `in=1/2`, `ph|=|` (message made of `=` and `|`) -/
def sample : List Rule :=
  [ ⟨[114,101], some [97,123,49,44,51,125], some [0xE9,0x95,0xBF,0xE5,0xBA,0xA6]⟩,
    ⟨[116,111], some [53], some [120]⟩,
    ⟨[114,101,113], none, none⟩,
    ⟨[105,110], some [49,47,50], none⟩,
    ⟨[112,104], none, some [61,124]⟩ ]

example : ∀ r ∈ sample, r.wf = true := by decide

/-- the text that goes through `RM` for the sample:
    `re='a{1,3}'|长度,to=5|x,req,in=(1/2),ph|=|` -/
example : Bytes.join [COMMA] (sample.map fun r => genValidKV r.key r.genArgs)
    = [114,101,61,39,97,123,49,44,51,125,39,124,0xE9,0x95,0xBF,0xE5,0xBA,0xA6,44,
       116,111,61,53,124,120,44, 114,101,113,44, 105,110,61,40,49,47,50,41,44, 112,104,124,61,124] := by
  decide

set_option maxRecDepth 20000 in
/-- direct evaluation of the pipeline on the sample (no use of the theorem) -/
example : roundTrip (sample.map fun r => (r.key, r.genArgs)) =
    [ ([114,101], [39,97,123,49,44,51,125,39],
        [0xE8,0xAF,0xB4,0xE6,0x98,0x8E,58,32,0xE9,0x95,0xBF,0xE5,0xBA,0xA6]),   -- 说明: 长度
      ([116,111], [53], [101,120,112,108,97,105,110,58,32,120]),                 -- explain: x
      ([114,101,113], [], []),
      ([105,110], [40,49,47,50,41], []),
      ([112,104], [], [101,120,112,108,97,105,110,58,32,61,124]) ] := by decide

/-- and the theorem applies to it -/
example : roundTrip (sample.map fun r => (r.key, r.genArgs)) = sample.map Rule.expected :=
  C14_roundtrip sample (by decide)

/-! ### the splitter: both paths, the trailing empty piece, and `sep ≠ QUOTE` -/

-- `a,'b,c',d` ↦ `a` `'b,c'` `d`  (slow path, separator inside quotes is kept)
example : validNamesSplit [97,44,39,98,44,99,39,44,100] = [[97], [39,98,44,99,39], [100]] := by
  decide
-- fast path keeps a trailing empty piece: `a,` ↦ `a` ``
example : validNamesSplit [97,44] = [[97], []] := by decide
-- slow path drops it: `'a',` ↦ `'a'`
example : validNamesSplit [39,97,39,44] = [[39,97,39]] := by decide
example : pieces COMMA false [39,97,39,44] = [[39,97,39], []] := by decide
-- `splitOk` is not trivially true: it rejects a split at the quoted comma
example : splitOk [39,97,44,98,39] COMMA [[39,97], [98,39]] = false := by decide
-- the hypothesis `sep ≠ QUOTE` is needed: with the quote as separator the loop loses the quote
example : validNamesSplit [97,39,98] QUOTE = [[97,98]] := by decide
example : splitOk [97,39,98] QUOTE (validNamesSplit [97,39,98] QUOTE) = false := by decide
example : noLoss [97,39,98] QUOTE (validNamesSplit [97,39,98] QUOTE) = false := by decide
-- the hypothesis of `C14_split_quoted` is needed: a quote inside `q` closes the segment early
example : pieces COMMA false (QUOTE :: ([39,44] ++ QUOTE :: [])) = [[39,39], [39]] := by decide

/-! ### each exclusion of `Rule.wf` that the round trip needs -/

/-- does the pipeline give back the rules? -/
def rtOk (rules : List Rule) : Bool :=
  roundTrip (rules.map fun r => (r.key, r.genArgs)) == rules.map Rule.expected

/-- a well-formed neighbour, `req` -/
def req : Rule := ⟨[114,101,113], none, none⟩

set_option maxRecDepth 20000

-- key: empty / contains `,` / `'` / `=` / `|`
example : rtOk [⟨[], none, none⟩] = false := by decide
example : rtOk [⟨[97,44,98], none, none⟩] = false := by decide
example : rtOk [⟨[97,39], none, none⟩, req] = false := by decide
example : rtOk [⟨[97,61,98], none, none⟩] = false := by decide
example : rtOk [⟨[97,124,98], none, none⟩] = false := by decide
-- value: contains `|` / `'` / starts with `=` / contains `,` under a key other than `re`
example : rtOk [⟨[101,113], some [97,124,98], none⟩] = false := by decide
example : rtOk [⟨[101,113], some [97,39,98], none⟩, req] = false := by decide
example : rtOk [⟨[101,113], some [61,53], none⟩] = false := by decide
example : rtOk [⟨[101,113], some [49,44,50], none⟩] = false := by decide
-- `re` value that already carries its quotes: the builder does not wrap it again
example : rtOk [⟨[114,101], some [39,97,39], none⟩] = false := by decide
-- message: empty / contains `,` / contains `'`
example : rtOk [⟨[101,113], some [53], some []⟩] = false := by decide
example : rtOk [⟨[101,113], none, some []⟩] = false := by decide
example : rtOk [⟨[101,113], some [53], some [97,44,98]⟩] = false := by decide
example : rtOk [⟨[101,113], some [53], some [97,39,98]⟩, req] = false := by decide
-- the one exclusion that is NOT needed: an empty value is tolerated by builder and parser alike
example : rtOk [⟨[101,113], some [], none⟩, ⟨[101,113], some [], some [120]⟩] = true := by decide

end NonVacuity

end PGV.Props.C14
