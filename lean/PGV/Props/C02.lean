import PGV.Proofs.Walker

/-!
# C02 — every violated rule is reported once, in order; nil iff none

Statements about the model of the rule loops and of `getError`:
* a rule item contributes its own text and the loop always continues with the remaining items
  (no early exit, no dropped item) — for struct fields and for `Var` / `Map` / `Url`;
* the returned error is `nil` exactly when nothing was written, and otherwise the written text
  without the last separator.
The order-preserving concatenation over fields / nested objects is the frame theorem of
`PGV.Props.Frame` (see C12), the per-rule verdicts are C01 / C05.
-/

namespace PGV.Props.C02
open PGV PGV.Model PGV.Proofs.Walker

/-- `nil` iff no clause was written (main buffer and group clauses) -/
theorem C02_nil_iff (o : CallOut) (order : List Bytes) :
    o.err order = none ↔ o.main ++ order.flatten = [] := by
  unfold CallOut.err
  by_cases h : (o.main ++ order.flatten).isEmpty = true
  · simp only [h, if_true, true_iff]; simpa using h
  · simp only [h]
    simp at h ⊢
    exact h

/-- a non-nil error is the written text minus exactly one trailing separator -/
theorem C02_no_trailing_separator (o : CallOut) (order : List Bytes) (body : Bytes)
    (h : o.main ++ order.flatten = body ++ errEndFlag) (hb : body ++ errEndFlag ≠ []) :
    o.err order = some body := by
  unfold CallOut.err
  have hne : (o.main ++ order.flatten).isEmpty = false := by
    rw [h]; cases hb' : body ++ errEndFlag <;> simp_all
  simp only [hne, Bool.false_eq_true, if_false, h]
  simp [Bytes.trimSuffix]
  intro _; decide

/-- struct fields: one rule item = one step; whatever it wrote, the loop goes on with the rest -/
theorem C02_struct_rule_runs_and_continues (ext : Ext) (fns : FnTables) (scope sn fname : Bytes) (v : GoVal)
    (descend : Bool → Bool → Bytes → WSt → M WSt) (r : Bytes) (run) (rs : List Bytes) (d : Bool) (st : WSt)
    (hr : r ≠ []) (hk : resolveFn fns (parseValidNameKV r).1 = .builtin run) (hz : v.isZero = false) :
    fieldRules ext fns scope sn fname v descend (r :: rs) d st
      = (run ext r sn fname v >>= fun t => fieldRules ext fns scope sn fname v descend rs d (st.write t)) :=
  fieldRules_builtin ext fns scope sn fname v descend r run rs d st hr hk hz

theorem C02_struct_unknown_one_clause (ext : Ext) (fns : FnTables) (scope sn fname : Bytes) (v : GoVal)
    (descend : Bool → Bool → Bytes → WSt → M WSt) (r : Bytes) (rs : List Bytes) (d : Bool) (st : WSt)
    (hr : r ≠ []) (hk : resolveFn fns (parseValidNameKV r).1 = .unknown) :
    fieldRules ext fns scope sn fname v descend (r :: rs) d st
      = fieldRules ext fns scope sn fname v descend rs d
          (st.write (getJoinFieldErr sn fname (unknownFnMsg (parseValidNameKV r).1))) :=
  fieldRules_unknown ext fns scope sn fname v descend r rs d st hr hk

theorem C02_empty_item_skipped (ext : Ext) (fns : FnTables) (scope sn fname : Bytes) (v : GoVal)
    (descend : Bool → Bool → Bytes → WSt → M WSt) (rs : List Bytes) (d : Bool) (st : WSt) :
    fieldRules ext fns scope sn fname v descend ([] :: rs) d st
      = fieldRules ext fns scope sn fname v descend rs d st :=
  fieldRules_empty ext fns scope sn fname v descend rs d st

theorem C02_flat_rule_runs_and_continues (c : FlatCfg) (scope ne nc : Bytes) (v : GoVal) (r : Bytes) (run)
    (rs : List Bytes) (st : WSt) (hr : r ≠ []) (hk : resolveFn c.fns (parseValidNameKV r).1 = .builtin run)
    (hz : c.isEmpty v = false) :
    flatRules c scope ne nc v (r :: rs) st
      = (run c.ext r [] nc v >>= fun t => flatRules c scope ne nc v rs (st.write t)) :=
  flatRules_builtin c scope ne nc v r run rs st hr hk hz

theorem C02_flat_unknown_one_clause (c : FlatCfg) (scope ne nc : Bytes) (v : GoVal) (r : Bytes)
    (rs : List Bytes) (st : WSt) (hr : r ≠ []) (hk : resolveFn c.fns (parseValidNameKV r).1 = .unknown) :
    flatRules c scope ne nc v (r :: rs) st
      = flatRules c scope ne nc v rs (st.write (getJoinFieldErr [] ne (unknownFnMsg (parseValidNameKV r).1))) :=
  flatRules_unknown c scope ne nc v r rs st hr hk

/-- non-vacuity: two violated rules on one `Var` value give two clauses in rule order, one separator -/
example :
    (match varValid (fun _ => none) {} [b! "ge=5,le=1"] (.val (b! "int") (.int 0 3)) with
     | .ok o => o.err o.groups
     | _ => none)
    = some (b! "input \"3\", explain: it is less than 5 num-size; input \"3\", explain: it is more than 1 num-size") := by
  decide

end PGV.Props.C02
