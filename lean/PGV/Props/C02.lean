import PGV.Proofs.Walker
import PGV.Proofs.Frame
import PGV.Proofs.Tree

/-!
# C02 — every violated rule is reported once, in order; nil iff none

Statements about the model of the rule loops and of `getError`:
* a rule item contributes its own text and the loop always continues with the remaining items
  (no early exit, no dropped item) — for struct fields and for `Var` / `Map` / `Url`;
* the returned error is `nil` exactly when nothing was written, and otherwise the written text
  without the last separator.
The order-preserving concatenation over fields / nested objects is the frame theorem of
`PGV.Props.Frame` (see C12), the per-rule verdicts are C01 / C05.
-/

namespace PGV.Props.C02
open PGV PGV.Model PGV.Proofs.Walker

/-- `nil` iff no clause was written (main buffer and group clauses) -/
theorem C02_nil_iff (o : CallOut) (order : List Bytes) :
    o.err order = none ↔ o.main ++ order.flatten = [] := by
  unfold CallOut.err
  by_cases h : (o.main ++ order.flatten).isEmpty = true
  · simp only [h, if_true, true_iff]; simpa using h
  · simp only [h]
    simp at h ⊢
    exact h

/-- a non-nil error is the written text minus exactly one trailing separator -/
theorem C02_no_trailing_separator (o : CallOut) (order : List Bytes) (body : Bytes)
    (h : o.main ++ order.flatten = body ++ errEndFlag) (hb : body ++ errEndFlag ≠ []) :
    o.err order = some body := by
  unfold CallOut.err
  have hne : (o.main ++ order.flatten).isEmpty = false := by
    rw [h]; cases hb' : body ++ errEndFlag <;> simp_all
  simp only [hne, Bool.false_eq_true, if_false, h]
  simp [Bytes.trimSuffix]
  intro _; decide

/-- struct fields: one rule item = one step; whatever it wrote, the loop goes on with the rest -/
theorem C02_struct_rule_runs_and_continues (ext : Ext) (fns : FnTables) (scope sn fname : Bytes) (v : GoVal)
    (descend : Bool → Bool → Bytes → WSt → M WSt) (r : Bytes) (run) (rs : List Bytes) (d : Bool) (st : WSt)
    (hr : r ≠ []) (hk : resolveFn fns (parseValidNameKV r).1 = .builtin run) (hz : v.isZero = false) :
    fieldRules ext fns scope sn fname v descend (r :: rs) d st
      = (run ext r sn fname v >>= fun t => fieldRules ext fns scope sn fname v descend rs d (st.write t)) :=
  fieldRules_builtin ext fns scope sn fname v descend r run rs d st hr hk hz

theorem C02_struct_unknown_one_clause (ext : Ext) (fns : FnTables) (scope sn fname : Bytes) (v : GoVal)
    (descend : Bool → Bool → Bytes → WSt → M WSt) (r : Bytes) (rs : List Bytes) (d : Bool) (st : WSt)
    (hr : r ≠ []) (hk : resolveFn fns (parseValidNameKV r).1 = .unknown) :
    fieldRules ext fns scope sn fname v descend (r :: rs) d st
      = fieldRules ext fns scope sn fname v descend rs d
          (st.write (getJoinFieldErr sn fname (unknownFnMsg (parseValidNameKV r).1))) :=
  fieldRules_unknown ext fns scope sn fname v descend r rs d st hr hk

theorem C02_empty_item_skipped (ext : Ext) (fns : FnTables) (scope sn fname : Bytes) (v : GoVal)
    (descend : Bool → Bool → Bytes → WSt → M WSt) (rs : List Bytes) (d : Bool) (st : WSt) :
    fieldRules ext fns scope sn fname v descend ([] :: rs) d st
      = fieldRules ext fns scope sn fname v descend rs d st :=
  fieldRules_empty ext fns scope sn fname v descend rs d st

theorem C02_flat_rule_runs_and_continues (c : FlatCfg) (scope ne nc : Bytes) (v : GoVal) (r : Bytes) (run)
    (rs : List Bytes) (st : WSt) (hr : r ≠ []) (hk : resolveFn c.fns (parseValidNameKV r).1 = .builtin run)
    (hz : c.isEmpty v = false) :
    flatRules c scope ne nc v (r :: rs) st
      = (run c.ext r [] nc v >>= fun t => flatRules c scope ne nc v rs (st.write t)) :=
  flatRules_builtin c scope ne nc v r run rs st hr hk hz

theorem C02_flat_unknown_one_clause (c : FlatCfg) (scope ne nc : Bytes) (v : GoVal) (r : Bytes)
    (rs : List Bytes) (st : WSt) (hr : r ≠ []) (hk : resolveFn c.fns (parseValidNameKV r).1 = .unknown) :
    flatRules c scope ne nc v (r :: rs) st
      = flatRules c scope ne nc v rs (st.write (getJoinFieldErr [] ne (unknownFnMsg (parseValidNameKV r).1))) :=
  flatRules_unknown c scope ne nc v r rs st hr hk

/-! ### the walkers only append, and outputs concatenate in traversal order

For every configuration, every value tree (any depth and width) and every state: running a walker
function from a state is running it from the empty state and appending the result — the text it
writes (and the group members it registers) never depend on what is already in the buffer, and
nothing already written is touched. -/

open PGV.Proofs.Frame in
theorem C02_walker_appends (cfg : StructCfg) (name : Bytes) (v : GoVal) (g : Bool) (st : WSt) :
    validate cfg name v g st = lift st (validate cfg name v g {}) := Frame_validate cfg name v g st

open PGV.Proofs.Frame in
theorem C02_fields_append (cfg : StructCfg) (sn : Bytes) (cus : RM) (fs : Fields) (st : WSt) :
    fieldsLoop cfg sn cus fs st = lift st (fieldsLoop cfg sn cus fs {}) := Frame_fieldsLoop cfg sn cus fs st

open PGV.Proofs.Frame in
theorem C02_flat_rules_append (c : FlatCfg) (scope ne nc : Bytes) (v : GoVal) (rs : List Bytes) (st : WSt) :
    flatRules c scope ne nc v rs st = lift st (flatRules c scope ne nc v rs {}) := Frame_flatRules c scope ne nc v rs st

open PGV.Proofs.Frame in
/-- declaration order: the output of a struct is the output of its first (marked) field followed by
the output of the remaining fields -/
theorem C02_fields_in_order (cfg : StructCfg) (sn : Bytes) (cus : RM) (name : Bytes)
    (tags : List (Bytes × Bytes)) (v : GoVal) (rest : Fields) :
    fieldsLoop cfg sn cus (.cons name true false tags v rest) {}
      = ((if (effectiveRule cfg cus name tags).isEmpty then pure {}
          else fieldRules cfg.ext cfg.fns sn sn name v
            (fun isValidTvKind skip cusMsg st => existTop cfg sn name v isValidTvKind skip cusMsg st)
            (validNamesSplit (effectiveRule cfg cus name tags)) false {}) >>= fun a =>
          lift a (fieldsLoop cfg sn cus rest {})) := by
  rw [fieldsLoop_rules]
  congr 1
  funext a
  exact Frame_fieldsLoop cfg sn cus rest a

open PGV.Proofs.Frame in
/-- index order: the output for a collection is the output for element 0 followed by that of the rest -/
theorem C02_elements_in_order (cfg : StructCfg) (path : Bytes) (i : Nat) (v : GoVal) (rest : GoVals) :
    elemsLoop cfg path i (.cons v rest) {}
      = (validate cfg (path ++ [91] ++ natToBytes i ++ [93]) v true {} >>= fun a =>
          lift a (elemsLoop cfg path (i + 1) rest {})) := by
  rw [elemsLoop]
  congr 1
  funext a
  exact Frame_elemsLoop cfg path (i + 1) rest a

open PGV.Proofs.Frame in
/-- rule order within a field: the first item's contribution, then the remaining items' -/
theorem C02_rules_in_order (ext : Ext) (fns : FnTables) (scope sn fname : Bytes) (v : GoVal)
    (descend : Bool → Bool → Bytes → WSt → M WSt) (hd : ∀ a b c, Frame (descend a b c))
    (r : Bytes) (run) (rs : List Bytes) (d : Bool)
    (hr : r ≠ []) (hk : resolveFn fns (parseValidNameKV r).1 = .builtin run) (hz : v.isZero = false) :
    fieldRules ext fns scope sn fname v descend (r :: rs) d {}
      = (run ext r sn fname v >>= fun t =>
          lift (({} : WSt).write t) (fieldRules ext fns scope sn fname v descend rs d {})) := by
  rw [fieldRules_builtin _ _ _ _ _ _ _ _ run _ _ {} hr hk hz]
  congr 1
  funext t
  exact Frame_fieldRules ext fns scope sn fname v descend hd rs d (({} : WSt).write t)

/-! ### closed form for `Var` / `Map` / `Url`: one contribution per rule item, in rule order -/

/-- the text one rule item contributes to the error (possibly empty) -/
def itemText (c : FlatCfg) (ne nc : Bytes) (v : GoVal) (r : Bytes) : M Bytes :=
  if r.isEmpty then pure []
  else match resolveFn c.fns (parseValidNameKV r).1 with
    | .unknown => pure (getJoinFieldErr [] ne (unknownFnMsg (parseValidNameKV r).1))
    | .structural =>
      if (parseValidNameKV r).1 == requiredB then
        pure (if c.requiredViolated v then requiredClause [] nc (parseValidNameKV r).2.2 else [])
      else if c.supportsGroups && ((parseValidNameKV r).1 == eitherB || (parseValidNameKV r).1 == bothEqB) then pure []
      else pure (getJoinFieldErr [] nc (b! "valid \"" ++ r ++ b! "\" is no support"))
    | .custom mk => pure (if c.isEmpty v then [] else customClause mk r [] nc)
    | .builtin run => if c.isEmpty v then pure [] else run c.ext r [] nc v

/-- the group member one rule item registers (`either` / `botheq` under `Map` / `Url`) -/
def itemMembers (c : FlatCfg) (scope ne : Bytes) (v : GoVal) (r : Bytes) : List Member :=
  if r.isEmpty then []
  else match resolveFn c.fns (parseValidNameKV r).1 with
    | .structural =>
      if (parseValidNameKV r).1 == requiredB then []
      else if c.supportsGroups && ((parseValidNameKV r).1 == eitherB || (parseValidNameKV r).1 == bothEqB) then
        [{ scope := scope, validName := r, objName := [], fieldName := ne, val := v }]
      else []
    | _ => []

theorem wst_id (st : WSt) : { st with buf := st.buf ++ [], members := st.members ++ [] } = st := by
  cases st; simp

/-- one step of the loop: the item's text and members, then the rest from the extended state -/
theorem flat_one_step (c : FlatCfg) (scope ne nc : Bytes) (v : GoVal) (r : Bytes) (rs : List Bytes) (st : WSt) :
    flatRules c scope ne nc v (r :: rs) st
      = (itemText c ne nc v r >>= fun t =>
          flatRules c scope ne nc v rs
            { st with buf := st.buf ++ t, members := st.members ++ itemMembers c scope ne v r }) := by
  rw [flatRules]
  unfold itemText itemMembers
  by_cases hr : r.isEmpty = true
  · simp [hr, wst_id, bind, Except.bind, pure, Except.pure]
  · have hr' : r.isEmpty = false := by simpa using hr
    simp only [hr', Bool.false_eq_true, if_false]
    rcases parseValidNameKV r with ⟨key, a, m⟩
    simp only
    cases resolveFn c.fns key with
    | unknown => simp [WSt.write, bind, Except.bind, pure, Except.pure]
    | structural =>
      simp only
      by_cases hreq : (key == requiredB) = true
      · simp only [hreq, if_true]
        by_cases hv : c.requiredViolated v = true
        · simp [hv, WSt.write, bind, Except.bind, pure, Except.pure]
        · simp [hv, wst_id, bind, Except.bind, pure, Except.pure]
      · simp only [hreq, Bool.false_eq_true, if_false]
        by_cases hg : (c.supportsGroups && (key == eitherB || key == bothEqB)) = true
        · simp [hg, bind, Except.bind, pure, Except.pure]
        · simp [hg, WSt.write, bind, Except.bind, pure, Except.pure]
    | custom mk =>
      simp only
      by_cases hz : c.isEmpty v = true
      · simp [hz, wst_id, bind, Except.bind, pure, Except.pure]
      · simp [hz, WSt.write, bind, Except.bind, pure, Except.pure]
    | builtin run =>
      simp only
      by_cases hz : c.isEmpty v = true
      · simp [hz, wst_id, bind, Except.bind, pure, Except.pure]
      · simp only [hz, Bool.false_eq_true, if_false, WSt.write, List.append_nil]

/-- **every rule item contributes exactly once, in rule order**: the rule loop of `Var` / `Map` / `Url`
appends, for the items `r₁ … rₙ` in this order, the text `itemText rᵢ` of each (a clause, or nothing),
and registers the group members in the same order — whatever the earlier items wrote; a residual or
a panic of one item is the outcome of the loop -/
theorem C02_flat_closed_form (c : FlatCfg) (scope ne nc : Bytes) (v : GoVal) (rs : List Bytes) (st : WSt) :
    flatRules c scope ne nc v rs st
      = (rs.mapM (itemText c ne nc v) >>= fun ts =>
          pure { st with buf := st.buf ++ ts.flatten,
                         members := st.members ++ rs.flatMap (itemMembers c scope ne v) }) := by
  induction rs generalizing st with
  | nil => simp [flatRules, wst_id]
  | cons r rs ih =>
    rw [flat_one_step, List.mapM_cons]
    cases itemText c ne nc v r with
    | error e => simp [bind, Except.bind]
    | ok t =>
      simp only [bind, Except.bind, ih]
      cases List.mapM (itemText c ne nc v) rs with
      | error e => simp [bind, Except.bind, pure, Except.pure]
      | ok ts => simp [bind, Except.bind, pure, Except.pure, List.append_assoc]

/-! ### closed form for struct fields -/

open PGV.Proofs.Frame in
/-- what one rule item of a struct field produces, run from the empty state; `d` = a `required` /
`exist` item came earlier in the list (the nested object has been visited already) -/
def fieldItem (ext : Ext) (fns : FnTables) (scope sn fname : Bytes) (v : GoVal)
    (descend : Bool → Bool → Bytes → WSt → M WSt) (d : Bool) (r : Bytes) : M WSt :=
  if r.isEmpty then pure {}
  else match resolveFn fns (parseValidNameKV r).1 with
    | .unknown => pure (({} : WSt).write (getJoinFieldErr sn fname (unknownFnMsg (parseValidNameKV r).1)))
    | .structural =>
      if (parseValidNameKV r).1 == requiredB then
        (if requiredEmpty v then pure (({} : WSt).write (requiredClause sn fname (parseValidNameKV r).2.2))
         else descend false d (parseValidNameKV r).2.2 {})
      else if (parseValidNameKV r).1 == existB then descend true d (parseValidNameKV r).2.2 {}
      else pure { members := [{ scope := scope, validName := r, objName := sn, fieldName := fname, val := v }] }
    | .custom mk => pure (if v.isZero then {} else ({} : WSt).write (customClause mk r sn fname))
    | .builtin run => if v.isZero then pure {} else run ext r sn fname v >>= fun t => pure (({} : WSt).write t)

def descAfter (fns : FnTables) (d : Bool) (r : Bytes) : Bool :=
  if r.isEmpty then d
  else match resolveFn fns (parseValidNameKV r).1 with
    | .structural => if (parseValidNameKV r).1 == requiredB || (parseValidNameKV r).1 == existB then true else d
    | _ => d

open PGV.Proofs.Frame in
/-- the items' contributions, each run from the empty state, appended in rule order -/
def fieldItems (ext : Ext) (fns : FnTables) (scope sn fname : Bytes) (v : GoVal)
    (descend : Bool → Bool → Bytes → WSt → M WSt) : Bool → List Bytes → M WSt
  | _, [] => pure {}
  | d, r :: rs => fieldItem ext fns scope sn fname v descend d r >>= fun a =>
      lift a (fieldItems ext fns scope sn fname v descend (descAfter fns d r) rs)

open PGV.Proofs.Frame in
theorem field_one_step (ext : Ext) (fns : FnTables) (scope sn fname : Bytes) (v : GoVal)
    (descend : Bool → Bool → Bytes → WSt → M WSt) (hd : ∀ a b c, Frame (descend a b c))
    (r : Bytes) (rs : List Bytes) (d : Bool) :
    fieldRules ext fns scope sn fname v descend (r :: rs) d {}
      = (fieldItem ext fns scope sn fname v descend d r >>= fun a =>
          lift a (fieldRules ext fns scope sn fname v descend rs (descAfter fns d r) {})) := by
  have hF := fun rs d => Frame_fieldRules ext fns scope sn fname v descend hd rs d
  rw [fieldRules]
  unfold fieldItem descAfter
  by_cases hr : r.isEmpty = true
  · simp only [hr, if_true]
    show _ = lift {} _
    rw [← hF]
  · have hr' : r.isEmpty = false := by simpa using hr
    simp only [hr', Bool.false_eq_true, if_false]
    rcases parseValidNameKV r with ⟨key, a, m⟩
    simp only
    cases resolveFn fns key with
    | unknown => simp only; rw [hF]; rfl
    | structural =>
      simp only
      by_cases hreq : (key == requiredB) = true
      · simp only [hreq, if_true, Bool.true_or]
        by_cases he : requiredEmpty v = true
        · simp only [he, if_true]; rw [hF]; rfl
        · simp only [he, Bool.false_eq_true, if_false]
          congr 1; funext st'; exact hF rs true st'
      · simp only [hreq, Bool.false_eq_true, if_false, Bool.false_or]
        by_cases hex : (key == existB) = true
        · simp only [hex, if_true]
          congr 1; funext st'; exact hF rs true st'
        · simp only [hex, Bool.false_eq_true, if_false]
          rw [hF]; rfl
    | custom mk =>
      simp only
      by_cases hz : v.isZero = true
      · simp only [hz, if_true]
        show _ = lift {} _
        rw [← hF]
      · simp only [hz, Bool.false_eq_true, if_false]; rw [hF]; rfl
    | builtin run =>
      simp only
      by_cases hz : v.isZero = true
      · simp only [hz, if_true]
        show _ = lift {} _
        rw [← hF]
      · simp only [hz, Bool.false_eq_true, if_false]
        cases run ext r sn fname v with
        | error e => rfl
        | ok t => show fieldRules _ _ _ _ _ _ _ _ _ _ = _; rw [hF]; rfl

open PGV.Proofs.Frame in
/-- **struct fields: every rule item contributes exactly once, in rule order** — the loop's result from
any state is that state extended by the items' own contributions (clause text, visit of the nested
object, group registration), each computed independently of what was written before -/
theorem C02_field_closed_form (ext : Ext) (fns : FnTables) (scope sn fname : Bytes) (v : GoVal)
    (descend : Bool → Bool → Bytes → WSt → M WSt) (hd : ∀ a b c, Frame (descend a b c))
    (rs : List Bytes) (d : Bool) (st : WSt) :
    fieldRules ext fns scope sn fname v descend rs d st
      = lift st (fieldItems ext fns scope sn fname v descend d rs) := by
  rw [Frame_fieldRules ext fns scope sn fname v descend hd rs d st]
  congr 1
  induction rs generalizing d with
  | nil => simp [fieldRules, fieldItems]
  | cons r rs ih =>
    rw [field_one_step ext fns scope sn fname v descend hd, fieldItems]
    congr 1; funext a
    rw [ih]

/-! ### the whole tree in closed form: the walker's output is the report of `Spec.Clauses`

`Spec.Clauses` writes the list of rule instances of a value tree down without any state: the report of
a struct is the concatenation of the reports of its fields in declaration order, that of a field the
concatenation of its items' contributions in rule order (exactly one contribution per item), that of
a collection the concatenation over its elements in index order, and the report of a marked
sub-object stands where the `required` / `exist` item stands.  The walker — which threads the error
buffer and the group table through `validate` / `exist` — yields, from ANY state, that state extended
by the report: for every configuration and every value tree, of any depth and width. -/

open PGV.Spec.Clauses PGV.Proofs.Tree in
theorem C02_tree_report (cfg : StructCfg) (name : Bytes) (v : GoVal) (g : Bool) (st : WSt) :
    validate cfg name v g st = (sValidate cfg name v g >>= fun evs => pure (replay evs st)) :=
  validate_spec cfg name v g st

open PGV.Spec.Clauses PGV.Proofs.Tree in
theorem C02_fields_report (cfg : StructCfg) (sn : Bytes) (cus : RM) (fs : Fields) (st : WSt) :
    fieldsLoop cfg sn cus fs st = (sFields cfg sn cus fs >>= fun evs => pure (replay evs st)) :=
  fieldsLoop_spec cfg sn cus fs st

open PGV.Spec.Clauses PGV.Proofs.Tree in
theorem C02_elements_report (cfg : StructCfg) (path : Bytes) (i : Nat) (es : GoVals) (st : WSt) :
    elemsLoop cfg path i es st = (sElems cfg path i es >>= fun evs => pure (replay evs st)) :=
  elemsLoop_spec cfg path i es st

open PGV.Spec.Clauses PGV.Proofs.Tree in
theorem C02_entries_report (cfg : StructCfg) (pathOpen : Bytes) (es : Entries) (st : WSt) :
    entriesLoop cfg pathOpen es st = (sEntries cfg pathOpen es >>= fun evs => pure (replay evs st)) :=
  entriesLoop_spec cfg pathOpen es st

open PGV.Spec.Clauses in
/-- extending a state by a report appends the report's clause texts, in order, to the buffer … -/
theorem C02_replay_buf (evs : List Ev) (st : WSt) : (replay evs st).buf = st.buf ++ textOf evs := by
  induction evs generalizing st with
  | nil => simp [replay, textOf]
  | cons e evs ih =>
    show (replay evs (Ev.apply st e)).buf = _
    rw [ih]
    cases e <;> simp [Ev.apply, textOf, WSt.write, WSt.mark]

open PGV.Spec.Clauses in
/-- … and its group members, in order, to the group table; nothing already there is touched -/
theorem C02_replay_members (evs : List Ev) (st : WSt) :
    (replay evs st).members = st.members ++ membersOf evs := by
  induction evs generalizing st with
  | nil => simp [replay, membersOf]
  | cons e evs ih =>
    show (replay evs (Ev.apply st e)).members = _
    rw [ih]
    cases e <;> simp [Ev.apply, membersOf, WSt.write, WSt.mark]

open PGV.Spec.Clauses in
theorem C02_text_append (a b : List Ev) : textOf (a ++ b) = textOf a ++ textOf b := by
  induction a with
  | nil => rfl
  | cons e a ih => cases e <;> simp [textOf, ih]

open PGV.Spec.Clauses in
theorem C02_members_append (a b : List Ev) : membersOf (a ++ b) = membersOf a ++ membersOf b := by
  induction a with
  | nil => rfl
  | cons e a ih => cases e <;> simp [membersOf, ih]

open PGV.Spec.Clauses PGV.Proofs.Tree in
/-- **the call**: `Struct(v)` on a struct (behind any number of pointers) returns the clause texts of
the tree's report, in report order, followed by the clauses of the groups registered in the report —
`nil` exactly when all of them are empty (`C02_nil_iff`) -/
theorem C02_struct_call (cfg : StructCfg) (tstr : Bytes) (v : GoVal) (t n : Bytes) (tm : Bool) (fs : Fields)
    (hv : v.stripPtr = some (.struct t n tm fs)) :
    structValid cfg (.val tstr v)
      = (sValidate cfg [] (.struct t n tm fs) false >>= fun evs =>
          groupClauses cfg.ext (membersOf evs) >>= fun gs =>
          pure { main := textOf evs, groups := gs.filter (!·.isEmpty), marks := (replay evs {}).marks }) := by
  unfold structValid
  simp only [hv]
  rw [validate_spec]
  unfold runS
  cases sValidate cfg [] (.struct t n tm fs) false with
  | error e => rfl
  | ok evs =>
    show finish cfg.ext (replay evs {})
      = (groupClauses cfg.ext (membersOf evs) >>= fun gs =>
          pure { main := textOf evs, groups := gs.filter (!·.isEmpty), marks := (replay evs {}).marks })
    unfold finish
    rw [C02_replay_buf, C02_replay_members]
    simp only [List.nil_append]

open PGV.Spec.Clauses in
/-- a struct's report: its first field's, then the others' (declaration order) — at the level of the
clause text -/
theorem C02_report_fields_text (cfg : StructCfg) (sn : Bytes) (cus : RM) (name : Bytes) (tags : List (Bytes × Bytes))
    (v : GoVal) (rest : Fields) (a b : List Ev)
    (ha : sRules cfg.ext cfg.fns sn sn name v (fun k skip c => sExistTop cfg sn name v k skip c) false
            (validNamesSplit (effectiveRule cfg cus name tags)) = .ok a)
    (hne : (effectiveRule cfg cus name tags).isEmpty = false)
    (hb : sFields cfg sn cus rest = .ok b) :
    (sFields cfg sn cus (.cons name true false tags v rest)).map textOf = .ok (textOf a ++ textOf b) := by
  rw [sFields]
  unfold effectiveRule at ha hne
  simp only [Bool.not_true, Bool.false_or, hne, Bool.false_eq_true, if_false, ha, hb]
  show Except.ok (textOf (a ++ b)) = _
  rw [C02_text_append]

/-- non-vacuity of the tree report: a struct with a violated field rule, a nested object reached by
`exist` with its own violation, and an `either` pair — the report's text is the error -/
example :
    (match structValid { ext := fun _ => none }
        (.val (b! "main.T")
          (.struct (b! "main.T") (b! "T") false
            (.cons (b! "A") true false [(b! "valid", b! "ge=5")] (.int 0 3)
            (.cons (b! "B") true false [(b! "valid", b! "exist")]
                (.struct (b! "main.U") (b! "U") false
                  (.cons (b! "X") true false [(b! "valid", b! "required")] (.str [])
                  (.cons (b! "Y") true false [] (.int 0 1) .nil)))
            .nil)))) with
     | .ok o => o.err o.groups
     | _ => none)
    = some (b! "\"T.A\" input \"3\", explain: it is less than 5 num-size; \"T.B.X\" input \"\", explain: it is required") := by
  decide

/-- non-vacuity: two violated rules on one `Var` value give two clauses in rule order, one separator -/
example :
    (match varValid (fun _ => none) {} [b! "ge=5,le=1"] (.val (b! "int") (.int 0 3)) with
     | .ok o => o.err o.groups
     | _ => none)
    = some (b! "input \"3\", explain: it is less than 5 num-size; input \"3\", explain: it is more than 1 num-size") := by
  decide

end PGV.Props.C02
