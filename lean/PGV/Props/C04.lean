import PGV.Proofs.Walker

/-!
# C04 — nested validation reaches exactly the marked sub-objects, named by path

One-step equations of the struct walker, for every configuration, value and state:
which fields are looked at, what `required`/`exist` descend into, how elements and entries are named,
and that nil / zero sub-objects are passed over silently.
-/

namespace PGV.Props.C04
open PGV PGV.Model

/-- a field without rules (after overrides), an unexported field and a `time.Time` field are never looked at -/
theorem C04_unmarked_never (cfg : StructCfg) (sn : Bytes) (cus : RM) (name : Bytes) (ex tt : Bool)
    (tags : List (Bytes × Bytes)) (v : GoVal) (rest : Fields) (st : WSt)
    (h : ex = false ∨ tt = true ∨ (rmGet cus name = [] ∧ tagGet tags cfg.tag = [])) :
    fieldsLoop cfg sn cus (.cons name ex tt tags v rest) st = fieldsLoop cfg sn cus rest st := by
  rw [fieldsLoop]
  rcases h with h | h | ⟨h1, h2⟩
  · simp [h]
  · simp [h]
  · simp [h1, h2]

/-- a marked field: its effective rule list is evaluated with the object's path as scope, then the next field -/
theorem C04_marked_field (cfg : StructCfg) (sn : Bytes) (cus : RM) (name : Bytes)
    (tags : List (Bytes × Bytes)) (v : GoVal) (rest : Fields) (st : WSt) (rule : Bytes)
    (hrule : rule = (if !(rmGet cus name).isEmpty then rmGet cus name else tagGet tags cfg.tag)) (hne : rule ≠ []) :
    fieldsLoop cfg sn cus (.cons name true false tags v rest) st
      = (fieldRules cfg.ext cfg.fns sn sn name v
          (fun isValidTvKind skip cusMsg st => existTop cfg sn name v isValidTvKind skip cusMsg st)
          (validNamesSplit rule) false st >>= fun st1 => fieldsLoop cfg sn cus rest st1) := by
  rw [fieldsLoop]
  have : rule.isEmpty = false := by cases rule <;> simp_all
  simp only [← hrule, this]
  simp

/-- nil pointers (elements, map values, multi-level) have nothing to validate: silent -/
theorem C04_nil_silent (cfg : StructCfg) (name t : Bytes) (g : Bool) (st : WSt) :
    validate cfg name (.ptr t none) g st = pure st := by simp [validate]

theorem C04_through_pointer (cfg : StructCfg) (name t : Bytes) (x : GoVal) (g : Bool) (st : WSt) :
    validate cfg name (.ptr t (some x)) g st = validate cfg name x g st := by simp [validate]

/-- a struct is validated under the name it was reached by (its type name only when outermost) with its own rule set -/
theorem C04_struct_named_by_path (cfg : StructCfg) (path t n : Bytes) (tm : Bool) (fs : Fields) (g : Bool) (st : WSt) :
    validate cfg path (.struct t n tm fs) g st
      = fieldsLoop cfg (structEnter cfg path t n).1 (structEnter cfg path t n).2 fs st := by simp [validate]

theorem C04_name_nested (cfg : StructCfg) (path t n : Bytes) (h : path ≠ []) : (structEnter cfg path t n).1 = path := by
  have : path.isEmpty = false := by cases path <;> simp_all
  simp [structEnter, this]

/-- elements of a slice / array are named `path[i]`, in index order -/
theorem C04_element_paths (cfg : StructCfg) (path : Bytes) (i : Nat) (v : GoVal) (rest : GoVals) (st : WSt) :
    elemsLoop cfg path i (.cons v rest) st
      = (validate cfg (path ++ [91] ++ natToBytes i ++ [93]) v true st >>= fun st1 => elemsLoop cfg path (i + 1) rest st1) := by
  simp [elemsLoop]

/-- non-struct elements of a collection are passed over silently -/
theorem C04_scalar_element_silent (cfg : StructCfg) (path s : Bytes) (st : WSt) :
    validate cfg path (.str s) true st = pure st := by simp [validate, nonStruct]

/-- `required`/`exist` on a struct-valued field: the nested object is validated under `Parent.Field`;
zero structs, `time.Time` and already-visited objects are skipped silently -/
theorem C04_descend_struct (cfg : StructCfg) (sn fname t n cus : Bytes) (fs : Fields) (k : Bool) (st : WSt)
    (hz : fs.allZero = false) :
    existTop cfg sn fname (.struct t n false fs) k false cus st
      = fieldsLoop cfg (structEnter cfg (sn ++ [46] ++ fname) t n).1 (structEnter cfg (sn ++ [46] ++ fname) t n).2 fs st := by
  simp [existTop, hz]

theorem C04_zero_struct_silent (cfg : StructCfg) (sn fname t n cus : Bytes) (fs : Fields) (tm k skip : Bool) (st : WSt)
    (hz : fs.allZero = true) :
    existTop cfg sn fname (.struct t n tm fs) k skip cus st = pure st := by simp [existTop, hz]

theorem C04_nil_collection_silent (cfg : StructCfg) (sn fname t e cus : Bytes) (es : GoVals) (k skip : Bool) (st : WSt) :
    existTop cfg sn fname (.slice t e true es) k skip cus st = pure st := by simp [existTop]

theorem C04_descend_slice (cfg : StructCfg) (sn fname t e cus : Bytes) (es : GoVals) (k : Bool) (st : WSt) :
    existTop cfg sn fname (.slice t e false es) k false cus st = elemsLoop cfg (sn ++ [46] ++ fname) 0 es st := by
  simp [existTop]

theorem C04_descend_ptr (cfg : StructCfg) (sn fname pt t n cus : Bytes) (fs : Fields) (k : Bool) (st : WSt) :
    existTop cfg sn fname (.ptr pt (some (.struct t n false fs))) k false cus st
      = fieldsLoop cfg (structEnter cfg (sn ++ [46] ++ fname) t n).1 (structEnter cfg (sn ++ [46] ++ fname) t n).2 fs st := by
  simp [existTop, existStripped]

/-- entries of a map field are named `Parent.Field[key]` -/
theorem C04_entry_paths (cfg : StructCfg) (pathOpen ks : Bytes) (k v : GoVal) (rest : Entries) (st : WSt)
    (hk : keyStr cfg.ext k = .ok ks) :
    entriesLoop cfg pathOpen (.cons k v rest) st
      = (validate cfg (pathOpen ++ ks ++ [93]) v true (st.mark 1) >>= fun st1 => entriesLoop cfg pathOpen rest st1) := by
  rw [entriesLoop]; simp [hk]; rfl

/-- a key of interface type is named by its dynamic value: the entries `1` and `"1"` of a `map[interface{}]T` are both
reported under `…[1]` — two entries, each visited once under its rendering (never merged, never skipped) -/
theorem C04_iface_key_named_by_value (ext : Ext) (t : Bytes) (bits : Nat) (z : Int) (s : Bytes) :
    keyStr ext (.iface t (some (.int bits z))) = .ok (intToBytes z) ∧
    keyStr ext (.iface t (some (.str s))) = .ok s ∧
    keyStr ext (.int bits z) = .ok (intToBytes z) ∧ keyStr ext (.str s) = .ok s := by
  simp [keyStr, keyStrScalar, pure, Except.pure]

theorem C04_both_colliding_entries_visited (cfg : StructCfg) (pathOpen : Bytes) (t : Bytes) (v1 v2 : GoVal) (rest : Entries) (st : WSt) :
    entriesLoop cfg pathOpen (.cons (.iface t (some (.int 64 1))) v1 (.cons (.iface t (some (.str [49]))) v2 rest)) st
      = (validate cfg (pathOpen ++ [49] ++ [93]) v1 true (st.mark 1) >>= fun st1 =>
         validate cfg (pathOpen ++ [49] ++ [93]) v2 true (st1.mark 1) >>= fun st2 => entriesLoop cfg pathOpen rest st2) := by
  have h1 : keyStr cfg.ext (.iface t (some (.int 64 1))) = .ok [49] := by
    simp [keyStr, keyStrScalar, pure, Except.pure]
    try decide
  have h2 : keyStr cfg.ext (.iface t (some (.str [49]))) = .ok [49] := by
    simp [keyStr, keyStrScalar, pure, Except.pure]
  rw [C04_entry_paths cfg pathOpen [49] _ v1 _ st h1]
  congr 1
  all_goals (funext st1; rw [C04_entry_paths cfg pathOpen [49] _ v2 _ st1 h2])

/-! non-vacuity: a two-level object; the inner violation is reported under `Outer.In.A` -/
example :
    let inner : GoVal := .struct (b! "main.In") (b! "In") false (.cons (b! "A") true false [(b! "valid", b! "required")] (.str []) (.cons (b! "B") true false [] (.int 0 1) .nil))
    let outer : GoVal := .struct (b! "main.Outer") (b! "Outer") false (.cons (b! "In") true false [(b! "valid", b! "exist")] inner .nil)
    (match structValid { ext := fun _ => none } (.val (b! "main.Outer") outer) with
     | .ok o => o.err o.groups | _ => none)
      = some (b! "\"Outer.In.A\" input \"\", explain: it is required") := by decide

end PGV.Props.C04
