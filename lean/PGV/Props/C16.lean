import PGV.Proofs.JsonRT
import PGV.Props.Facts.RuleTable
import PGV.Proofs.Walker

/-!
# C16 — programmatic rules and functions override declared ones, with the documented scope
-/

namespace PGV.Props.C16
open PGV PGV.Model PGV.Proofs.Walker

/-- the rule set that applies to a struct: the outermost struct takes its typed set if that is
non-empty, otherwise the unscoped one; -/
theorem C16_outermost_rule_set (cfg : StructCfg) (t n : Bytes) :
    (structEnter cfg [] t n).2
      = (if ((cfg.typed.lookup t).getD []).isEmpty then cfg.outer else (cfg.typed.lookup t).getD []) := by
  unfold structEnter
  cases cfg.typed.lookup t <;> simp

/-- … a nested struct (reached under a non-empty path) only ever sees the set given for its own type:
the unscoped set does not leak inward, and a set typed for another struct does not apply -/
theorem C16_nested_rule_set (cfg : StructCfg) (path t n : Bytes) (h : path ≠ []) :
    (structEnter cfg path t n).2 = (cfg.typed.lookup t).getD [] := by
  have : path.isEmpty = false := by cases path <;> simp_all
  unfold structEnter
  cases cfg.typed.lookup t <;> simp [this]

/-- the rule evaluated for a field: the set's rule for that field name if it has a non-empty one —
*instead of* the tag rule — else the tag rule under the requested tag name -/
theorem C16_effective_rule (cfg : StructCfg) (sn : Bytes) (cus : RM) (name : Bytes)
    (tags : List (Bytes × Bytes)) (v : GoVal) (rest : Fields) (st : WSt) :
    fieldsLoop cfg sn cus (.cons name true false tags v rest) st
      = (let rule := if !(rmGet cus name).isEmpty then rmGet cus name else tagGet tags cfg.tag
         (if rule.isEmpty then pure st
          else fieldRules cfg.ext cfg.fns sn sn name v
            (fun isValidTvKind skip cusMsg st => existTop cfg sn name v isValidTvKind skip cusMsg st)
            (validNamesSplit rule) false st) >>= fun st1 => fieldsLoop cfg sn cus rest st1) := by
  rw [fieldsLoop]; simp
  split
  · split <;> simp_all
  · rfl

/-- a set that does not mention the field leaves the tag rule in force -/
theorem C16_unmentioned_keeps_tag (cus : RM) (name : Bytes) (tags : List (Bytes × Bytes)) (tag : Bytes)
    (h : rmGet cus name = []) :
    (if !(rmGet cus name).isEmpty then rmGet cus name else tagGet tags tag) = tagGet tags tag := by simp [h]

/-- function lookup order: per-call table, then the global table (registered functions), then built-ins; -/
theorem C16_fn_per_call_first (t : FnTables) (key mk : Bytes) (h : t.localFns.lookup key = some mk) :
    resolveFn t key = .custom mk := resolve_local t key mk h

theorem C16_fn_global_second (t : FnTables) (key mk : Bytes) (h1 : t.localFns.lookup key = none)
    (h2 : t.globalFns.lookup key = some mk) : resolveFn t key = .custom mk := resolve_global t key mk h1 h2

theorem C16_fn_builtin_last (t : FnTables) (key : Bytes) (h1 : t.localFns.lookup key = none)
    (h2 : t.globalFns.lookup key = none) :
    resolveFn t key = (match builtin key with
      | some .structural => .structural
      | some (.fn run) => .builtin run
      | none => .unknown) := resolve_builtin t key h1 h2

/-- … an undefined name yields one clause and the remaining rules of the field still run -/
theorem C16_unknown_continues (ext : Ext) (fns : FnTables) (scope sn fname : Bytes) (v : GoVal)
    (descend : Bool → Bool → Bytes → WSt → M WSt) (r : Bytes) (rs : List Bytes) (d : Bool) (st : WSt)
    (hr : r ≠ []) (hk : resolveFn fns (parseValidNameKV r).1 = .unknown) :
    fieldRules ext fns scope sn fname v descend (r :: rs) d st
      = fieldRules ext fns scope sn fname v descend rs d
          (st.write (getJoinFieldErr sn fname (unknownFnMsg (parseValidNameKV r).1))) :=
  fieldRules_unknown ext fns scope sn fname v descend r rs d st hr hk

/-! non-vacuity: outer and inner struct share the field name `A`; the unscoped set overrides only the outer one -/
example :
    let inner : GoVal := .struct (b! "main.In") (b! "In") false (.cons (b! "A") true false [(b! "valid", b! "ge=5")] (.int 0 3) .nil)
    let outer : GoVal := .struct (b! "main.Outer") (b! "Outer") false
      (.cons (b! "A") true false [(b! "valid", b! "ge=5")] (.int 0 3)
        (.cons (b! "In") true false [(b! "valid", b! "exist")] inner .nil))
    (match structValid { ext := fun _ => none, outer := [(b! "A", b! "le=1")] } (.val (b! "main.Outer") outer) with
     | .ok o => o.err o.groups | _ => none)
      = some (b! "\"Outer.A\" input \"3\", explain: it is more than 1 num-size; \"Outer.In.A\" input \"3\", explain: it is less than 5 num-size") := by
  decide

/-! ### type identity

Rule sets are keyed by the struct *type*.  The wire names a type by `Type().String()` plus a marker
`#n` for the n-th distinct type that prints alike; the marker is part of the key and is dropped where
the name is printed. -/

/-- the marker is removed where the type name is printed … -/
theorem C16_type_marker_not_printed (t ds : Bytes) (hne : ds ≠ []) (hd : ds.all (fun c => 48 ≤ c && c ≤ 57) = true) :
    stripTypeId (t ++ 35 :: ds) = t := by
  unfold stripTypeId
  have hrev : (t ++ 35 :: ds).reverse = ds.reverse ++ 35 :: t.reverse := by simp
  have hdr : ds.reverse.all (fun c => 48 ≤ c && c ≤ 57) = true := by
    rw [List.all_eq_true] at hd ⊢
    intro c hc; exact hd c (List.mem_reverse.mp hc)
  obtain ⟨h1, h2⟩ := PGV.Proofs.JsonRT.takeWhile_append_stop (fun c => 48 ≤ c && c ≤ 57) ds.reverse (35 :: t.reverse) hdr
    (by intro c r e; injection e with e1 _; subst e1; decide)
  have hemp : ds.reverse.isEmpty = false := by
    cases hds : ds.reverse with
    | nil => exact absurd (List.reverse_eq_nil_iff.mp hds) hne
    | cons _ _ => rfl
  rw [hrev]
  simp only [h1, h2, hemp, Bool.false_eq_true, if_false, List.reverse_reverse]

/-- … and two look-alike types are different keys: a rule set registered for one does not reach the other -/
theorem C16_look_alike_types_distinct (cfg : StructCfg) (rm : RM) (hne : rm ≠ []) :
    let cfg' : StructCfg := { cfg with typed := [(b! "main.Line", rm)], outer := [] }
    (structEnter cfg' (b! "Outer.A") (b! "main.Line") (b! "Line")).2 = rm ∧
    (structEnter cfg' (b! "Outer.B") (b! "main.Line#1") (b! "Line")).2 = [] := by
  constructor
  · simp [structEnter, List.lookup]
  · simp only [structEnter]
    have hk : ((b! "main.Line#1") == (b! "main.Line")) = false := by decide
    simp [List.lookup, hk]

example : stripTypeId (b! "main.Line#1") = b! "main.Line" ∧ stripTypeId (b! "main.Line") = b! "main.Line"
    ∧ stripTypeId (b! "struct { A int \"k:\\\"#1\\\"\" }") = b! "struct { A int \"k:\\\"#1\\\"\" }" := by decide

/-! ### `SetRule`: the registry of rule sets (`v.ruleMap[ty] = rule`, key `none` = the unscoped set)

A later registration for the same key replaces the earlier one; registrations for different keys do not
affect each other, in whatever order they are made (typed then unscoped = unscoped then typed); the call
configuration the walker sees (`StructCfg.outer`, `StructCfg.typed`) is the final content of this registry. -/

abbrev Registry := List (Option Bytes × RM)

def Registry.set (r : Registry) (k : Option Bytes) (rm : RM) : Registry := (k, rm) :: r.filter (fun e => e.1 != k)
def Registry.get (r : Registry) (k : Option Bytes) : Option RM := (r.find? (fun e => e.1 == k)).map (·.2)

theorem C16_setrule_last_wins (r : Registry) (k : Option Bytes) (rm : RM) : (r.set k rm).get k = some rm := by
  simp [Registry.set, Registry.get]

theorem C16_setrule_other_key (r : Registry) (k k' : Option Bytes) (rm : RM) (h : k ≠ k') :
    (r.set k rm).get k' = r.get k' := by
  have h1 : (k == k') = false := by simpa using h
  simp only [Registry.set, Registry.get, List.find?_cons, h1]
  congr 1
  induction r with
  | nil => rfl
  | cons e r ih =>
    by_cases he : e.1 = k
    · have : (e.1 == k') = false := by rw [he]; exact h1
      subst he
      simp [List.filter, List.find?_cons, h1, ih]
    · have : (e.1 != k) = true := by simpa using he
      simp only [List.filter, this, List.find?_cons]
      split
      · rfl
      · exact ih

theorem C16_setrule_order_indep (r : Registry) (k1 k2 : Option Bytes) (rm1 rm2 : RM) (h : k1 ≠ k2) (k : Option Bytes) :
    ((r.set k1 rm1).set k2 rm2).get k = ((r.set k2 rm2).set k1 rm1).get k := by
  by_cases e1 : k = k1
  · subst e1
    rw [C16_setrule_other_key _ k2 k rm2 (Ne.symm h), C16_setrule_last_wins, C16_setrule_last_wins]
  · by_cases e2 : k = k2
    · subst e2
      rw [C16_setrule_last_wins, C16_setrule_other_key _ k1 k rm1 h, C16_setrule_last_wins]
    · rw [C16_setrule_other_key _ k2 k rm2 (Ne.symm e2), C16_setrule_other_key _ k1 k rm1 (Ne.symm e1),
        C16_setrule_other_key _ k1 k rm1 (Ne.symm e1), C16_setrule_other_key _ k2 k rm2 (Ne.symm e2)]

example : (Registry.get (Registry.set (Registry.set ([] : Registry) (some (b! "main.Inner")) [(b! "A", b! "required")]) none []) (some (b! "main.Inner")))
    = some [(b! "A", b! "required")] := by decide

/-- the code's rule table `validName2FnMap` binds every rule name to the function the model's table
binds it to, and has exactly the model's rule names (re-extracted from the source on every run) -/
theorem C16_rule_table : PGV.Expected.ruleTableOK PGV.Generated.ruleTable = true ∧ PGV.Expected.modelKeysOK PGV.Generated.ruleKeys = true :=
  ⟨PGV.Props.Facts.T2_rule_table, PGV.Props.Facts.T2_model_keys⟩

end PGV.Props.C16
