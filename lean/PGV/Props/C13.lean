import PGV.Proofs.Walker
import PGV.Proofs.Total

/-!
# C13 — validation is total: bad input or bad rules yield an error, never a crash  (partial)

The model returns `.error (.panic _)` wherever the Go code would panic.  Proved here: the entry-point
guards (nil, typed nil pointers, wrong kinds, nil `*string`, nil collection elements) and the rule
functions whose argument parsing indexes into the rule text (`in`/`include`, `re`, `datetime`,
`to`/`oto`) return an ordinary error clause for *every* rule text.  Not a theorem: panics inside
unmodelled stdlib calls and the Go runtime (recorded as residual in the trusted base); the `total`
streams run every call under `recover`.
-/

namespace PGV.Props.C13
open PGV PGV.Model

def isPanic {α} : M α → Bool
  | .error (.panic _) => true
  | _ => false

/-! ### entry-point guards -/

theorem C13_struct_untyped_nil (cfg : StructCfg) : structValid cfg .untypedNil = .ok (earlyErr (b! "src is nil")) := rfl

theorem C13_struct_typed_nil (cfg : StructCfg) (t : Bytes) (v : GoVal) (h : v.stripPtr = none) :
    structValid cfg (.val t v) = .ok (earlyErr (b! "src \"" ++ t ++ b! "\" is nil")) := by
  simp [structValid, h]; rfl

theorem C13_var_untyped_nil (ext : Ext) (fns : FnTables) (rules : List Bytes) :
    varValid ext fns rules .untypedNil = .ok (earlyErr (b! "src is nil")) := rfl

theorem C13_var_typed_nil (ext : Ext) (fns : FnTables) (rules : List Bytes) (t : Bytes) (v : GoVal) (h : v.stripPtr = none) :
    varValid ext fns rules (.val t v) = .ok (earlyErr (b! "src \"" ++ t ++ b! "\" is nil")) := by
  simp [varValid, h]; rfl

theorem C13_map_untyped_nil (ext : Ext) (fns : FnTables) (rm : RM) :
    mapValid ext fns rm .untypedNil = .ok (earlyErr (b! "src is nil")) := rfl

theorem C13_map_typed_nil (ext : Ext) (fns : FnTables) (rm : RM) (t : Bytes) (v : GoVal) (hr : rm ≠ []) (h : v.stripPtr = none) :
    mapValid ext fns rm (.val t v) = .ok (earlyErr (b! "src \"" ++ t ++ b! "\" is nil")) := by
  have : rm.isEmpty = false := by cases rm <;> simp_all
  simp [mapValid, h, this]; rfl

/-- `Map` on something that is not a map (after the checks above): a clause, not `Type().Key()` on a non-map -/
theorem C13_map_not_a_map (c : FlatCfg) (rm : RM) (pre : Bytes) (st : WSt) (bits : Nat) (z : Int) :
    mapValidate c rm pre (.int bits z) st = pure (st.write (getJoinFieldErr [] pre (b! "val must map"))) := rfl

theorem C13_map_key_not_string (c : FlatCfg) (rm : RM) (pre t : Bytes) (n : Bool) (es : Entries) (st : WSt) :
    mapValidate c rm pre (.map t false n es) st = pure (st.write (getJoinFieldErr [] pre (b! "map key must string"))) := by
  simp [mapValidate]

theorem C13_url_nil_ptr (ext : Ext) (fns : FnTables) (rm : RM) :
    urlValid ext fns rm .nilPtr = .ok (earlyErr (b! "src \"*string\" is nil")) := rfl

theorem C13_url_not_string (ext : Ext) (fns : FnTables) (rm : RM) :
    urlValid ext fns rm .notString = .ok (earlyErr (b! "src must is string/*string")) := rfl

/-- nil elements of collections of pointers are skipped, they never reach `reflect` as invalid values -/
theorem C13_nil_element (cfg : StructCfg) (name t : Bytes) (g : Bool) (st : WSt) :
    validate cfg name (.ptr t none) g st = pure st := by simp [validate]

/-! ### totality: no entry point ends in a modelled panic — every configuration, every value tree,
every rule text (arbitrary bytes), every answer of the residual stdlib calls -/

open PGV.Proofs.Total in
theorem C13_total_struct (cfg : StructCfg) (src : Src) : ∀ w, structValid cfg src ≠ .error (.panic w) :=
  (NP_structValid cfg src).np

open PGV.Proofs.Total in
theorem C13_total_var (ext : Ext) (fns : FnTables) (rules : List Bytes) (src : Src) :
    ∀ w, varValid ext fns rules src ≠ .error (.panic w) := (NP_varValid ext fns rules src).np

open PGV.Proofs.Total in
theorem C13_total_map (ext : Ext) (fns : FnTables) (rm : RM) (src : Src) :
    ∀ w, mapValid ext fns rm src ≠ .error (.panic w) := (NP_mapValid ext fns rm src).np

open PGV.Proofs.Total in
theorem C13_total_url (ext : Ext) (fns : FnTables) (rm : RM) (src : UrlSrc) :
    ∀ w, urlValid ext fns rm src ≠ .error (.panic w) := (NP_urlValid ext fns rm src).np

open PGV.Proofs.Total in
/-- every function of the built-in rule table, on every rule text and value -/
theorem C13_total_rules (key : Bytes) (run) (h : builtin key = some (.fn run)) (e : Ext) (text obj field : Bytes) (v : GoVal) :
    ∀ w, run e text obj field v ≠ .error (.panic w) := (NP_builtin key run h e text obj field v).np

/-- reversed brackets (`in=)(`) are a rule-writing error -/
example : (match ruleIn (fun _ => none) (b! "in=)(") (b! "T") (b! "F") (.str (b! "x")) with
    | .ok t => t == getJoinFieldErr (b! "T") (b! "F") inValErr | _ => false) = true := by decide
/-- `re='` (nothing after the opening quote) is a rule-writing error -/
example : isPanic (ruleRe (fun _ => none) (b! "re='") [] [] (.str (b! "x"))) = false := by decide
/-- `datetime` with four separators: the fourth is ignored -/
example : (match ruleDatetime (fun _ => some { code := 0 }) (b! "datetime='a,b,c,d'") [] [] (.str (b! "x")) with
    | .ok t => !t.isEmpty | _ => false) = true := by decide

end PGV.Props.C13
