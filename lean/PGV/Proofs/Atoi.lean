import PGV.Model.Rules

/-! `strconv.Atoi (strconv.Itoa z) = z` on the model: decimal rendering and parsing are inverse. -/

namespace PGV.Proofs.Atoi
open PGV PGV.Model

theorem digitsVal_cons_aux (ds : Bytes) (a : Nat) :
    ds.foldl (fun acc d => acc * 10 + (d.toNat - 48)) a = a * 10 ^ ds.length + digitsVal ds := by
  induction ds generalizing a with
  | nil => simp [digitsVal]
  | cons d r ih =>
    simp only [List.foldl_cons, List.length_cons, digitsVal]
    rw [ih, ih (0 * 10 + (d.toNat - 48))]
    simp only [Nat.zero_mul, Nat.zero_add, Nat.pow_succ]
    rw [Nat.add_mul, Nat.mul_assoc, Nat.mul_comm 10 (10 ^ r.length)]
    omega

theorem digitsVal_cons (d : UInt8) (r : Bytes) : digitsVal (d :: r) = (d.toNat - 48) * 10 ^ r.length + digitsVal r := by
  unfold digitsVal
  simp only [List.foldl_cons, Nat.zero_mul, Nat.zero_add]
  exact digitsVal_cons_aux r _

theorem digit_byte (k : Nat) (h : k < 10) : (UInt8.ofNat (48 + k)).toNat = 48 + k ∧ Lang.isDigit (UInt8.ofNat (48 + k)) = true := by
  have : k = 0 ∨ k = 1 ∨ k = 2 ∨ k = 3 ∨ k = 4 ∨ k = 5 ∨ k = 6 ∨ k = 7 ∨ k = 8 ∨ k = 9 := by omega
  rcases this with h | h | h | h | h | h | h | h | h | h <;> subst h <;> decide

theorem aux_spec (fuel n : Nat) (acc : Bytes) (hf : n < 10 ^ fuel) (h1 : 1 ≤ fuel) (hacc : acc.all Lang.isDigit = true) :
    let out := natToBytesAux fuel n acc
    digitsVal out = n * 10 ^ acc.length + digitsVal acc ∧ out.all Lang.isDigit = true ∧ out ≠ [] := by
  induction fuel generalizing n acc with
  | zero => omega
  | succ f ih =>
    simp only [natToBytesAux]
    have hd := digit_byte (n % 10) (Nat.mod_lt _ (by decide))
    have hacc' : (UInt8.ofNat (48 + n % 10) :: acc).all Lang.isDigit = true := by
      rw [List.all_cons, hd.2, hacc]; rfl
    by_cases hz : n / 10 = 0
    · simp only [hz, if_true]
      refine ⟨?_, hacc', by simp⟩
      rw [digitsVal_cons, hd.1]
      have : n % 10 = n := by omega
      simp [this]
    · simp only [hz, if_false]
      have hf' : n / 10 < 10 ^ f := by
        rw [Nat.pow_succ] at hf
        omega
      have h1' : 1 ≤ f := by
        rcases Nat.eq_zero_or_pos f with h0 | h0
        · rw [h0] at hf'; have e : (10:Nat) ^ 0 = 1 := rfl; omega
        · exact h0
      obtain ⟨e1, e2, e3⟩ := ih (n / 10) (UInt8.ofNat (48 + n % 10) :: acc) hf' h1' hacc'
      refine ⟨?_, e2, e3⟩
      rw [e1, digitsVal_cons, hd.1]
      simp only [List.length_cons, Nat.pow_succ]
      have hn : n = 10 * (n / 10) + n % 10 := (Nat.div_add_mod n 10).symm
      have : 48 + n % 10 - 48 = n % 10 := by omega
      rw [this]
      calc n / 10 * (10 ^ acc.length * 10) + (n % 10 * 10 ^ acc.length + digitsVal acc)
          = (10 * (n / 10) + n % 10) * 10 ^ acc.length + digitsVal acc := by
            rw [Nat.add_mul, Nat.mul_comm (10 ^ acc.length) 10, ← Nat.mul_assoc, Nat.mul_comm (n / 10) 10]; omega
        _ = n * 10 ^ acc.length + digitsVal acc := by rw [← hn]

theorem lt_pow_succ (n : Nat) : n < 10 ^ (n + 1) := by
  induction n with
  | zero => decide
  | succ k ih => rw [Nat.pow_succ]; omega

theorem natToBytes_spec (n : Nat) :
    digitsVal (natToBytes n) = n ∧ (natToBytes n).all Lang.isDigit = true ∧ natToBytes n ≠ [] := by
  have := aux_spec (n + 1) n [] (lt_pow_succ n) (by omega) rfl
  simpa [natToBytes, digitsVal] using this

theorem natToBytes_head_digit (n : Nat) : ∀ c t, natToBytes n = c :: t → c ≠ 45 ∧ c ≠ 43 := by
  intro c t h
  have := (natToBytes_spec n).2.1
  rw [h] at this
  simp only [List.all_cons, Bool.and_eq_true] at this
  constructor
  · intro e; subst e; exact absurd this.1 (by decide)
  · intro e; subst e; exact absurd this.1 (by decide)

theorem atoi_digits (neg : Bool) (ds : Bytes) (hd : ds.all Lang.isDigit = true) (hne : ds ≠ [])
    (z : Int) (hz : z = if neg then -(digitsVal ds : Int) else (digitsVal ds : Int))
    (h1 : int64Min ≤ z) (h2 : z ≤ int64Max) :
    (if (ds.isEmpty || !ds.all Lang.isDigit) = true then ((0 : Int), true)
     else
      let n : Int := digitsVal ds
      let z := if neg then -n else n
      if z < int64Min then (int64Min, true)
      else if z > int64Max then (int64Max, true)
      else (z, false)) = (z, false) := by
  have hemp : ds.isEmpty = false := by cases ds <;> simp_all
  simp only [hemp, hd, Bool.false_or, Bool.not_true, Bool.false_eq_true, if_false]
  rw [← hz]
  have n1 : ¬ z < int64Min := by omega
  have n2 : ¬ z > int64Max := by omega
  simp [n1, n2]

/-- `Atoi(Itoa(z)) = z` for every 64-bit `z` -/
theorem atoi_intToBytes (z : Int) (h1 : int64Min ≤ z) (h2 : z ≤ int64Max) : atoi (intToBytes z) = (z, false) := by
  obtain ⟨hv, hd, hne⟩ := natToBytes_spec z.natAbs
  unfold intToBytes
  by_cases hz : z < 0
  · simp only [hz, if_true]
    show atoi (45 :: natToBytes z.natAbs) = _
    unfold atoi
    exact atoi_digits true _ hd hne z (by simp only [if_true, hv]; omega) h1 h2
  · simp only [hz, if_false]
    cases hs : natToBytes z.natAbs with
    | nil => exact absurd hs hne
    | cons c t =>
      obtain ⟨hc1, hc2⟩ := natToBytes_head_digit z.natAbs c t hs
      rw [hs] at hv hd
      unfold atoi
      split
      rename_i heq
      split at heq
      · rename_i h'; injection h' with e _; exact absurd e hc1
      · rename_i h'; injection h' with e _; exact absurd e hc2
      · injection heq with e1 e2
        subst e1 e2
        exact atoi_digits false _ hd (by simp) z (by simp only [Bool.false_eq_true, if_false, hv]; omega) h1 h2

end PGV.Proofs.Atoi
