import PGV.Spec.Size

/-! Helper lemmas for C01 (size / comparison rules). -/

namespace PGV.Proofs.Size
open PGV PGV.Model PGV.Spec.Size

theorem icmp_lt (a c : Int) : (compare a c = .lt) ↔ a < c := by
  simp only [compare, compareOfLessAndEq]
  split
  · simp [*]
  · split <;> simp [*]

theorem icmp_eq (a c : Int) : (compare a c = .eq) ↔ a = c := by
  simp only [compare, compareOfLessAndEq]
  split
  · simp; omega
  · split <;> simp [*]

theorem icmp_gt (a c : Int) : (compare a c = .gt) ↔ c < a := by
  simp only [compare, compareOfLessAndEq]
  split
  · simp; omega
  · split
    · simp; omega
    · simp; omega

theorem icmp_swap (a c : Int) : compare c a = (compare a c).swap := by
  rcases h : compare a c with _ | _ | _
  · have := (icmp_lt a c).mp h; exact (icmp_gt c a).mpr this
  · have := (icmp_eq a c).mp h; exact (icmp_eq c a).mpr this.symm
  · have := (icmp_gt a c).mp h; exact (icmp_lt c a).mpr this

theorem ibeq_cmp (a c : Int) : (a == c) = (compare a c == Ordering.eq) := by
  by_cases h : a = c
  · subst h
    have h2 := (icmp_eq a a).mpr rfl
    rw [h2]; simp
  · have h2 : compare a c ≠ .eq := fun h' => h ((icmp_eq a c).mp h')
    have h3 : (a == c) = false := by simpa using h
    rw [h3]
    cases h4 : compare a c <;> simp_all

theorem cmpDyadic_swap (m1 e1 m2 e2 : Int) : cmpDyadic m2 e2 m1 e1 = (cmpDyadic m1 e1 m2 e2).swap := by
  unfold cmpDyadic
  by_cases h1 : e1 ≤ e2 <;> by_cases h2 : e2 ≤ e1
  · have : e1 = e2 := by omega
    subst this
    simp [icmp_swap m1 m2]
  · simp only [h1, h2, if_true, if_false]; exact icmp_swap _ _
  · simp only [h1, h2, if_true, if_false]; exact icmp_swap _ _
  · omega

theorem violClause_ne_nil (obj field input cus : Bytes) (d : List Bytes) : violClause obj field input cus d ≠ [] := by
  unfold violClause getJoinValidErrStr
  split <;> (split <;> simp [errEndFlag])


/-- the one-bound rules `ge gt le lt` as the model's flags -/
def boundRule (isMin hasEqual : Bool) : SizeRule :=
  match isMin, hasEqual with
  | true, true => .ge | true, false => .gt | false, true => .le | false, false => .lt
def rangeRule (hasEqual : Bool) : SizeRule := if hasEqual then .to else .oto
def eqRule (wantEq : Bool) : SizeRule := if wantEq then .eq else .noeq

theorem f64OfInt_exact (z : Int) (h : bitLen z.natAbs ≤ 53) : f64OfInt z = .fin z 0 := by
  simp [f64OfInt, h]

theorem range_core (v : GoVal) (hasEqual : Bool) (lo hi : Int) (m : Measure)
    (hm : Spec.Size.measure v = some m) (hx : boundsExact v lo hi = true) :
    ((validInputSize lo hi v hasEqual).less = true ∨ (validInputSize lo hi v hasEqual).more = true)
      ↔ inSet (rangeRule hasEqual) lo hi m = false := by
  cases v <;> simp only [Spec.Size.measure] at hm <;> try contradiction
  case str s =>
    cases hm
    cases hasEqual <;> simp [validInputSize, rangeRule, inSet, cmp, icmp_lt, icmp_gt] <;> omega
  case int bits z =>
    cases hm
    cases hasEqual <;> simp [validInputSize, rangeRule, inSet, cmp, icmp_lt, icmp_gt] <;> omega
  case uint bits n =>
    cases hm
    cases hasEqual <;> simp [validInputSize, rangeRule, inSet, cmp, icmp_lt, icmp_gt] <;> omega
  case slice t e n es =>
    cases hm
    cases hasEqual <;> simp [validInputSize, rangeRule, inSet, cmp, icmp_lt, icmp_gt] <;> omega
  case float bits f r1 r2 =>
    have hx' : bitLen lo.natAbs ≤ 53 ∧ bitLen hi.natAbs ≤ 53 := by simpa [boundsExact] using hx
    have hex : f64OfInt lo = .fin lo 0 := f64OfInt_exact lo hx'.1
    have hex2 : f64OfInt hi = .fin hi 0 := f64OfInt_exact hi hx'.2
    cases f <;> simp at hm
    all_goals subst hm
    all_goals
      cases hasEqual <;>
        simp [validInputSize, rangeRule, inSet, cmp, hex, hex2, FloatVal.lt, FloatVal.le, FloatVal.eq]
    all_goals
      rename_i m e
      try rw [cmpDyadic_swap m e hi 0]
      cases cmpDyadic m e lo 0 <;> cases cmpDyadic m e hi 0 <;> simp

theorem eq_core (text key arg msg : Bytes) (v : GoVal) (lo : Int) (m : Measure)
    (hp : parseValidNameKV text = (key, arg, msg)) (hlo : (atoi arg).1 = lo)
    (hm : Spec.Size.measure v = some m) (hx : boundsExact v lo 0 = true) :
    (eqCore text v).2.2.2 = (cmp m lo == .eq) := by
  unfold eqCore
  simp only [hp, hlo]
  cases v <;> simp only [Spec.Size.measure] at hm <;> try contradiction
  case str s => cases hm; simp [cmp, ibeq_cmp]
  case int bits z => cases hm; simp [cmp, ibeq_cmp]
  case uint bits n => cases hm; simp [cmp, ibeq_cmp]
  case slice t e n es => cases hm; simp [cmp, ibeq_cmp]
  case float bits f r1 r2 =>
    have hex : f64OfInt lo = .fin lo 0 := f64OfInt_exact lo (by simp [boundsExact] at hx; exact hx.1)
    cases f <;> simp at hm
    all_goals subst hm
    all_goals simp [cmp, hex, FloatVal.eq]
    rename_i neg; cases neg <;> simp

/-- `ToStr` of the value either yields a text or stops on a residual (`need`: the rendering is asked
of the standard library; `unmodelled`: the wire format cannot name the value) — it never panics -/
theorem toStrIface_cases (ext : Ext) (v : GoVal) :
    (∃ s, toStrIface ext v = .ok s) ∨ (∃ w, toStrIface ext v = .error (.unmodelled w)) ∨ (∃ q, toStrIface ext v = .error (.need q)) := by
  have hs : ∀ x, (∃ s, sprintExt ext x = .ok s) ∨ (∃ w, sprintExt ext x = .error (.unmodelled w)) ∨ (∃ q, sprintExt ext x = .error (.need q)) := by
    intro x
    unfold sprintExt askExt
    cases ext (.sprint x.fp) with
    | none => exact Or.inr (Or.inr ⟨_, rfl⟩)
    | some a =>
      by_cases h : a.code = 1
      · exact Or.inl ⟨a.text, by simp [h, bind, Except.bind, pure, Except.pure]⟩
      · exact Or.inr (Or.inl ⟨"ToStr of composite", by simp [h, bind, Except.bind, pure, Except.pure, throw, throwThe, MonadExceptOf.throw]⟩)
  have hd : ∀ x, (∃ s, toStrDyn ext x = .ok s) ∨ (∃ w, toStrDyn ext x = .error (.unmodelled w)) ∨ (∃ q, toStrDyn ext x = .error (.need q)) := by
    intro x
    unfold toStrDyn
    repeat' split
    all_goals first | exact Or.inl ⟨_, rfl⟩ | exact hs _
  unfold toStrIface
  repeat' split
  all_goals first | exact Or.inl ⟨_, rfl⟩ | exact hd _

end PGV.Proofs.Size
