import PGV.Spec.JsonParse
import PGV.Proofs.Atoi

/-! `parse (print j) = j` for every well-formed document: mutual structural induction. -/

namespace PGV.Proofs.JsonRT
open PGV PGV.Model PGV.Spec.Json

/-- what may follow a value: nothing, or a byte that cannot continue a number -/
def okRest (rest : Bytes) : Prop := ∀ c t, rest = c :: t → numChar c = false

theorem okRest_nil : okRest [] := by intro c t h; cases h
theorem okRest_cons (c : UInt8) (t : Bytes) (h : numChar c = false) : okRest (c :: t) := by
  intro c' t' e; injection e with e1 _; subst e1; exact h

theorem takeWhile_append_stop (p : UInt8 → Bool) (t rest : Bytes) (ht : t.all p = true)
    (hr : ∀ c r, rest = c :: r → p c = false) :
    (t ++ rest).takeWhile p = t ∧ (t ++ rest).dropWhile p = rest := by
  induction t with
  | nil =>
    cases rest with
    | nil => exact ⟨rfl, rfl⟩
    | cons c r => simp [List.takeWhile, List.dropWhile, hr c r rfl]
  | cons a t ih =>
    simp only [List.all_cons, Bool.and_eq_true] at ht
    obtain ⟨i1, i2⟩ := ih ht.2
    simp [List.takeWhile, List.dropWhile, ht.1, i1, i2]

theorem parseStr_quoted (s rest : Bytes) (hs : s.all plainChar = true) :
    parseStr (s ++ 34 :: rest) = some (s, rest) := by
  obtain ⟨h1, h2⟩ := takeWhile_append_stop plainChar s (34 :: rest) hs
    (by intro c r e; injection e with e1 _; subst e1; decide)
  unfold parseStr
  rw [h1, h2]
  rfl

theorem numChar_ne (c : UInt8) (h : numChar c = true) : c ≠ 110 ∧ c ≠ 34 ∧ c ≠ 91 ∧ c ≠ 123 ∧ c ≠ 93 ∧ c ≠ 125 := by
  refine ⟨?_, ?_, ?_, ?_, ?_, ?_⟩ <;> (intro e; subst e; exact absurd h (by decide))

theorem number_cons (t : Bytes) (h : jsonNumber t = true) : ∃ c r, t = c :: r := by
  cases t with
  | nil => exact absurd h (by decide)
  | cons c r => exact ⟨c, r, rfl⟩

/-- the first byte of a printed value is never `]` -/
theorem print_head (j : JVal) (h : j.wf = true) : ∃ c t, print j = c :: t ∧ c ≠ 93 := by
  cases j with
  | null => exact ⟨110, _, rfl, by decide⟩
  | str s => exact ⟨34, _, rfl, by decide⟩
  | num t =>
    simp only [JVal.wf, Bool.and_eq_true] at h
    obtain ⟨c, r, e⟩ := number_cons t h.1
    subst e
    simp only [List.all_cons, Bool.and_eq_true] at h
    exact ⟨c, r, rfl, (numChar_ne c h.2.1).2.2.2.2.1⟩
  | arr items => exact ⟨91, _, rfl, by decide⟩
  | obj ms => exact ⟨123, _, rfl, by decide⟩

theorem size_pos (j : JVal) : 1 ≤ j.size := by cases j <;> simp [JVal.size]

theorem parseVal_num (fuel : Nat) (t rest : Bytes) (hn : jsonNumber t = true) (ha : t.all numChar = true)
    (hr : okRest rest) : parseVal (fuel + 1) (t ++ rest) = some (.num t, rest) := by
  obtain ⟨c, r, e⟩ := number_cons t hn
  subst e
  obtain ⟨h1, h2⟩ := takeWhile_append_stop numChar (c :: r) rest ha hr
  have hc : numChar c = true := by simp only [List.all_cons, Bool.and_eq_true] at ha; exact ha.1
  obtain ⟨n1, n2, n3, n4, _, _⟩ := numChar_ne c hc
  simp only [List.cons_append] at h1 h2 ⊢
  rw [parseVal]
  simp only [beq_iff_eq, n1, n2, n3, n4, if_false, hc, if_true, h1, h2, hn]

mutual
theorem rt_val (j : JVal) : ∀ (fuel : Nat) (rest : Bytes), j.size ≤ fuel → j.wf = true → okRest rest →
    parseVal fuel (print j ++ rest) = some (j, rest) := by
  intro fuel rest hf hw hr
  cases fuel with
  | zero => have := size_pos j; omega
  | succ fuel =>
    cases j with
    | null =>
      show parseVal (fuel + 1) (110 :: 117 :: 108 :: 108 :: rest) = _
      rw [parseVal]
      simp [List.isPrefixOf]
    | str s =>
      have e : print (.str s) ++ rest = 34 :: (s ++ 34 :: rest) := by simp [print, jq]
      rw [e, parseVal]
      simp only [JVal.wf] at hw
      simp [parseStr_quoted s rest hw]
    | num t =>
      simp only [JVal.wf, Bool.and_eq_true] at hw
      exact parseVal_num fuel t rest hw.1 hw.2 hr
    | arr items =>
      cases items with
      | nil =>
        show parseVal (fuel + 1) (91 :: 93 :: rest) = _
        rw [parseVal]; simp
      | cons v vs =>
        simp only [JVal.wf] at hw
        simp only [JVal.size] at hf
        have ih := rt_items (.cons v vs) fuel rest (by simp) (by omega) hw
        have hv : v.wf = true := by simp only [JVals.wf, Bool.and_eq_true] at hw; exact hw.1
        obtain ⟨c, t, hp, hc⟩ := print_head v hv
        have hhead : ∃ t', printItems (.cons v vs) ++ 93 :: rest = c :: t' := by
          cases vs with
          | nil => exact ⟨t ++ 93 :: rest, by simp [printItems, hp]⟩
          | cons v2 r2 => exact ⟨t ++ [44] ++ printItems (.cons v2 r2) ++ 93 :: rest, by simp [printItems, hp]⟩
        obtain ⟨t', ht'⟩ := hhead
        have e : print (.arr (.cons v vs)) ++ rest = 91 :: (printItems (.cons v vs) ++ 93 :: rest) := by simp [print]
        rw [e, parseVal]
        rw [ht'] at ih ⊢
        simp [hc, ih]
    | obj ms =>
      cases ms with
      | nil =>
        show parseVal (fuel + 1) (123 :: 125 :: rest) = _
        rw [parseVal]; simp
      | cons k v rs =>
        simp only [JVal.wf] at hw
        simp only [JVal.size] at hf
        have ih := rt_members (.cons k v rs) fuel rest (by simp) (by omega) hw
        have hhead : ∃ t', printMembers (.cons k v rs) ++ 125 :: rest = 34 :: t' := by
          cases rs with
          | nil => exact ⟨_, by simp [printMembers, jq]; rfl⟩
          | cons k2 v2 r2 => exact ⟨_, by simp [printMembers, jq]; rfl⟩
        obtain ⟨t', ht'⟩ := hhead
        have e : print (.obj (.cons k v rs)) ++ rest = 123 :: (printMembers (.cons k v rs) ++ 125 :: rest) := by simp [print]
        rw [e, parseVal]
        rw [ht'] at ih ⊢
        simp [ih]
theorem rt_items (items : JVals) : ∀ (fuel : Nat) (rest : Bytes), items ≠ .nil → items.size ≤ fuel → items.wf = true →
    parseItems fuel (printItems items ++ 93 :: rest) = some (items, rest) := by
  intro fuel rest hne hf hw
  cases items with
  | nil => exact absurd rfl hne
  | cons v vs =>
    simp only [JVals.size] at hf
    simp only [JVals.wf, Bool.and_eq_true] at hw
    cases fuel with
    | zero => omega
    | succ fuel =>
      cases vs with
      | nil =>
        have := rt_val v fuel (93 :: rest) (by simp [JVals.size] at hf; omega) hw.1 (okRest_cons _ _ (by decide))
        show parseItems (fuel + 1) (print v ++ 93 :: rest) = _
        rw [parseItems, this]
        simp
      | cons v2 r2 =>
        have h1 := rt_val v fuel (44 :: (printItems (.cons v2 r2) ++ 93 :: rest)) (by omega) hw.1 (okRest_cons _ _ (by decide))
        have h2 := rt_items (.cons v2 r2) fuel rest (by simp) (by omega) hw.2
        have e : printItems (.cons v (.cons v2 r2)) ++ 93 :: rest = print v ++ 44 :: (printItems (.cons v2 r2) ++ 93 :: rest) := by
          simp [printItems]
        rw [e, parseItems, h1]
        simp [h2]
theorem rt_members (ms : JMembers) : ∀ (fuel : Nat) (rest : Bytes), ms ≠ .nil → ms.size ≤ fuel → ms.wf = true →
    parseMembers fuel (printMembers ms ++ 125 :: rest) = some (ms, rest) := by
  intro fuel rest hne hf hw
  cases ms with
  | nil => exact absurd rfl hne
  | cons k v rs =>
    simp only [JMembers.size] at hf
    simp only [JMembers.wf, Bool.and_eq_true] at hw
    cases fuel with
    | zero => omega
    | succ fuel =>
      cases rs with
      | nil =>
        have h1 := rt_val v fuel (125 :: rest) (by simp [JMembers.size] at hf; omega) hw.1.2 (okRest_cons _ _ (by decide))
        have e : printMembers (.cons k v .nil) ++ 125 :: rest = 34 :: (k ++ 34 :: (58 :: (print v ++ 125 :: rest))) := by
          simp [printMembers, jq]
        rw [e, parseMembers]
        simp [parseStr_quoted k _ hw.1.1, h1]
      | cons k2 v2 r2 =>
        have h1 := rt_val v fuel (44 :: (printMembers (.cons k2 v2 r2) ++ 125 :: rest)) (by omega) hw.1.2 (okRest_cons _ _ (by decide))
        have h2 := rt_members (.cons k2 v2 r2) fuel rest (by simp) (by omega) hw.2
        have e : printMembers (.cons k v (.cons k2 v2 r2)) ++ 125 :: rest
            = 34 :: (k ++ 34 :: (58 :: (print v ++ 44 :: (printMembers (.cons k2 v2 r2) ++ 125 :: rest)))) := by
          simp [printMembers, jq]
        rw [e, parseMembers]
        simp [parseStr_quoted k _ hw.1.1, h1, h2]
end


/-! ### enough fuel: a document is never larger than its text -/

mutual
theorem sz_val (j : JVal) : j.wf = true → j.size ≤ (print j).length := by
  intro hw
  cases j with
  | null => simp [JVal.size, print]
  | str s => simp [JVal.size, print, jq]
  | num t =>
    simp only [JVal.wf, Bool.and_eq_true] at hw
    obtain ⟨c, r, e⟩ := number_cons t hw.1
    subst e; simp [JVal.size, print]
  | arr items =>
    simp only [JVal.wf] at hw
    have := sz_items items hw
    simp only [JVal.size, print, List.length_append, List.length_cons, List.length_nil]
    omega
  | obj ms =>
    simp only [JVal.wf] at hw
    have := sz_members ms hw
    simp only [JVal.size, print, List.length_append, List.length_cons, List.length_nil]
    omega
theorem sz_items (items : JVals) : items.wf = true → items.size ≤ (printItems items).length + 1 := by
  intro hw
  cases items with
  | nil => simp [JVals.size]
  | cons v vs =>
    simp only [JVals.wf, Bool.and_eq_true] at hw
    have h1 := sz_val v hw.1
    cases vs with
    | nil => simp only [JVals.size, printItems]; omega
    | cons v2 r2 =>
      have h2 := sz_items (.cons v2 r2) hw.2
      simp only [JVals.size, printItems, List.length_append, List.length_cons, List.length_nil] at h2 ⊢
      omega
theorem sz_members (ms : JMembers) : ms.wf = true → ms.size ≤ (printMembers ms).length + 1 := by
  intro hw
  cases ms with
  | nil => simp [JMembers.size]
  | cons k v rs =>
    simp only [JMembers.wf, Bool.and_eq_true] at hw
    have h1 := sz_val v hw.1.2
    cases rs with
    | nil => simp only [JMembers.size, printMembers, List.length_append]; omega
    | cons k2 v2 r2 =>
      have h2 := sz_members (.cons k2 v2 r2) hw.2
      simp only [JMembers.size, printMembers, List.length_append, List.length_cons, List.length_nil] at h2 ⊢
      omega
end

/-- **round trip**: the text of a well-formed document reads back as that document -/
theorem parse_print (j : JVal) (hw : j.wf = true) : parse (print j) = some j := by
  have h := rt_val j ((print j).length + 1) [] (by have := sz_val j hw; omega) hw okRest_nil
  simp only [List.append_nil] at h
  unfold parse
  rw [h]

/-! ### decimal integers are JSON numbers -/

open PGV.Proofs.Atoi in
theorem aux_head (fuel n : Nat) (acc : Bytes) (hn : n ≠ 0) (hf : n < 10 ^ fuel) :
    ∃ c t, natToBytesAux fuel n acc = c :: t ∧ 49 ≤ c ∧ c ≤ 57 := by
  induction fuel generalizing n acc with
  | zero => simp at hf; omega
  | succ f ih =>
    simp only [natToBytesAux]
    by_cases hz : n / 10 = 0
    · simp only [hz, if_true]
      have hlt : n < 10 := by omega
      have : n % 10 = n := by omega
      rw [this]
      refine ⟨_, _, rfl, ?_⟩
      have : n = 1 ∨ n = 2 ∨ n = 3 ∨ n = 4 ∨ n = 5 ∨ n = 6 ∨ n = 7 ∨ n = 8 ∨ n = 9 := by omega
      rcases this with h | h | h | h | h | h | h | h | h <;> subst h <;> decide
    · simp only [hz, if_false]
      have hf' : n / 10 < 10 ^ f := by rw [Nat.pow_succ] at hf; omega
      exact ih (n / 10) _ hz hf'

theorem isDig_eq (c : UInt8) : isDig c = Lang.isDigit c := rfl

theorem digits_numChar (s : Bytes) (h : s.all Lang.isDigit = true) : s.all numChar = true := by
  rw [List.all_eq_true] at h ⊢
  intro c hc
  have := h c hc
  simp [numChar, isDig_eq, this]

theorem takeWhile_all (p : UInt8 → Bool) (s : Bytes) (h : s.all p = true) : s.takeWhile p = s ∧ s.dropWhile p = [] := by
  have := takeWhile_append_stop p s [] h (by intro c r e; cases e)
  simpa using this

theorem nat_json (n : Nat) : jsonNumber (natToBytes n) = true ∧ (natToBytes n).all numChar = true := by
  obtain ⟨_, hd, hne⟩ := PGV.Proofs.Atoi.natToBytes_spec n
  refine ⟨?_, digits_numChar _ hd⟩
  have hint : intPart (natToBytes n) = true := by
    by_cases h0 : n = 0
    · subst h0; decide
    · obtain ⟨c, t, e, h1, h2⟩ := aux_head (n + 1) n [] h0 (PGV.Proofs.Atoi.lt_pow_succ n)
      have e' : natToBytes n = c :: t := e
      rw [e'] at hd ⊢
      simp only [List.all_cons, Bool.and_eq_true] at hd
      unfold intPart
      split
      · rfl
      · rename_i c' t' heq
        injection heq with e1 e2; subst e1 e2
        simp only [Bool.and_eq_true, decide_eq_true_eq]
        exact ⟨⟨h1, h2⟩, by rw [List.all_eq_true] at hd ⊢; exact hd.2⟩
      · rename_i heq; cases heq
  have hstrip : stripMinus (natToBytes n) = natToBytes n := by
    cases hs : natToBytes n with
    | nil => rfl
    | cons c t =>
      have hc := (PGV.Proofs.Atoi.natToBytes_head_digit n c t hs).1
      unfold stripMinus
      split
      · rename_i heq; injection heq with e _; exact absurd e hc
      · rfl
  obtain ⟨t1, t2⟩ := takeWhile_all isDig (natToBytes n) hd
  unfold jsonNumber
  rw [hstrip, t1, t2, hint]
  rfl

theorem int_json (z : Int) : jsonNumber (intToBytes z) = true ∧ (intToBytes z).all numChar = true := by
  unfold intToBytes
  by_cases hz : z < 0
  · simp only [hz, if_true]
    obtain ⟨h1, h2⟩ := nat_json z.natAbs
    refine ⟨?_, by simp [h2, numChar]⟩
    have hne : z.natAbs ≠ 0 := by omega
    obtain ⟨c, t, e, c1, c2⟩ := aux_head (z.natAbs + 1) z.natAbs [] hne (PGV.Proofs.Atoi.lt_pow_succ _)
    have e' : natToBytes z.natAbs = c :: t := e
    have hc : c ≠ 45 := by intro h; subst h; exact absurd c1 (by decide)
    have hstrip : stripMinus (c :: t) = c :: t := by
      unfold stripMinus
      split
      · rename_i heq; injection heq with e _; exact absurd e hc
      · rfl
    unfold jsonNumber at h1 ⊢
    rw [e', hstrip] at h1
    show (intPart ((stripMinus (45 :: natToBytes z.natAbs)).takeWhile isDig) && _) = true
    rw [e']
    exact h1
  · simp only [hz, if_false]
    exact nat_json z.natAbs

end PGV.Proofs.JsonRT
