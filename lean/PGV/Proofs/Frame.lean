import PGV.Proofs.Walker

/-!
# The walkers only append

`Frame f`: running `f` from any state is running it from the empty state and appending what that
run produced (text, group members, ghost marks shifted by the text already there).  Every walker
function has this property, for every configuration and value tree.
-/

namespace PGV.Proofs.Frame
open PGV PGV.Model

/-- append what a run from the empty state produced (`o`) to a state -/
def app (st o : WSt) : WSt :=
  { buf := st.buf ++ o.buf, members := st.members ++ o.members,
    marks := st.marks ++ o.marks.map (fun p => (p.1, p.2 + st.buf.length)) }

theorem app_empty_left (o : WSt) : app {} o = o := by
  cases o with
  | mk b m k =>
    simp only [app, List.nil_append, List.length_nil, Nat.add_zero]
    congr 1
    induction k with
    | nil => rfl
    | cons x xs ih => simp [ih]

theorem app_empty_right (st : WSt) : app st {} = st := by
  cases st; simp [app]

theorem app_assoc (st a c : WSt) : app (app st a) c = app st (app a c) := by
  simp only [app, List.append_assoc, List.map_append, List.map_map, List.length_append]
  congr 2
  congr 1
  apply List.map_congr_left
  intro p _
  simp only [Function.comp]
  congr 1
  omega

/-- lift a result obtained from the empty state onto `st` -/
def lift (st : WSt) (x : M WSt) : M WSt := x >>= fun o => pure (app st o)

def Frame (f : WSt → M WSt) : Prop := ∀ st, f st = lift st (f {})

theorem lift_ok (st o : WSt) : lift st (.ok o) = .ok (app st o) := rfl
theorem lift_error (st : WSt) (e : Stop) : lift st (.error e) = .error e := rfl

theorem Frame_pure : Frame (fun st => pure st) := by
  intro st; show Except.ok st = lift st (Except.ok {}); rw [lift_ok, app_empty_right]

theorem Frame_write (t : Bytes) : Frame (fun st => pure (st.write t)) := by
  intro st
  show Except.ok (st.write t) = lift st (Except.ok (({} : WSt).write t))
  rw [lift_ok]; simp [app, WSt.write]

theorem Frame_mark (k : Nat) : Frame (fun st => pure (st.mark k)) := by
  intro st
  show Except.ok (st.mark k) = lift st (Except.ok (({} : WSt).mark k))
  rw [lift_ok]; simp [app, WSt.mark]

theorem Frame_member (m : Member) : Frame (fun st => pure { st with members := st.members ++ [m] }) := by
  intro st
  show Except.ok _ = lift st (Except.ok _)
  rw [lift_ok]; simp [app]

theorem Frame_bind (f g : WSt → M WSt) (hf : Frame f) (hg : Frame g) : Frame (fun st => f st >>= g) := by
  intro st
  show f st >>= g = lift st (f {} >>= g)
  rw [hf st]
  cases hfe : f {} with
  | error e => rfl
  | ok o =>
    show g (app st o) = lift st (g o)
    rw [hg (app st o), hg o]
    cases hge : g {} with
    | error e => rfl
    | ok p =>
      show Except.ok (app (app st o) p) = Except.ok (app st (app o p))
      rw [app_assoc]

/-- a computation that does not look at the state, followed by a state function per result -/
theorem Frame_bind_const {α} (x : M α) (g : α → WSt → M WSt) (hg : ∀ a, Frame (g a)) :
    Frame (fun st => x >>= fun a => g a st) := by
  intro st
  cases x with
  | error e => rfl
  | ok a => exact hg a st

theorem Frame_ite (c : Prop) [Decidable c] (f g : WSt → M WSt) (hf : Frame f) (hg : Frame g) :
    Frame (fun st => if c then f st else g st) := by
  intro st
  by_cases h : c
  · simp only [h, if_true]; exact hf st
  · simp only [h, if_false]; exact hg st

/-- first do something to the state that is itself framed and pure (`pre`), then `f` -/
theorem Frame_comp_pure (pre : WSt → WSt) (f : WSt → M WSt) (hp : Frame (fun st => pure (pre st))) (hf : Frame f) :
    Frame (fun st => f (pre st)) := by
  have := Frame_bind (fun st => pure (pre st)) f hp hf
  intro st
  have h := this st
  simpa using h

end PGV.Proofs.Frame

namespace PGV.Proofs.Frame
open PGV PGV.Model PGV.Proofs.Walker

theorem Frame_fieldRules (ext : Ext) (fns : FnTables) (scope sn fname : Bytes) (v : GoVal)
    (descend : Bool → Bool → Bytes → WSt → M WSt) (hd : ∀ a b c, Frame (descend a b c))
    (rs : List Bytes) (d : Bool) : Frame (fieldRules ext fns scope sn fname v descend rs d) := by
  induction rs generalizing d with
  | nil => intro st; rw [fieldRules_nil, fieldRules_nil]; exact Frame_pure st
  | cons r rs ih =>
    by_cases hr : r = []
    · subst hr
      intro st
      rw [fieldRules_empty, fieldRules_empty]; exact ih d st
    · cases hk : resolveFn fns (parseValidNameKV r).1 with
      | unknown =>
        intro st
        rw [fieldRules_unknown _ _ _ _ _ _ _ _ _ _ st hr hk, fieldRules_unknown _ _ _ _ _ _ _ _ _ _ {} hr hk]
        exact Frame_comp_pure (fun st => st.write _) _ (Frame_write _) (ih d) st
      | structural =>
        by_cases hreq : (parseValidNameKV r).1 = requiredB
        · by_cases hz : requiredEmpty v = true
          · intro st
            rw [fieldRules_required_empty _ _ _ _ _ _ _ _ _ _ st hr hk hreq hz,
                fieldRules_required_empty _ _ _ _ _ _ _ _ _ _ {} hr hk hreq hz]
            exact Frame_comp_pure (fun st => st.write _) _ (Frame_write _) (ih true) st
          · have hz' : requiredEmpty v = false := by simpa using hz
            intro st
            rw [fieldRules_required_supplied _ _ _ _ _ _ _ _ _ _ st hr hk hreq hz',
                fieldRules_required_supplied _ _ _ _ _ _ _ _ _ _ {} hr hk hreq hz']
            exact Frame_bind _ _ (hd false d _) (ih true) st
        · by_cases hex : (parseValidNameKV r).1 = existB
          · intro st
            rw [fieldRules_exist _ _ _ _ _ _ _ _ _ _ st hr hk hex, fieldRules_exist _ _ _ _ _ _ _ _ _ _ {} hr hk hex]
            exact Frame_bind _ _ (hd true d _) (ih true) st
          · intro st
            rw [fieldRules_group _ _ _ _ _ _ _ _ _ _ st hr hk hreq hex, fieldRules_group _ _ _ _ _ _ _ _ _ _ {} hr hk hreq hex]
            exact Frame_comp_pure (fun st => { st with members := st.members ++ [_] }) _ (Frame_member _) (ih d) st
      | custom mk =>
        by_cases hz : v.isZero = true
        · intro st
          rw [fieldRules_custom_zero _ _ _ _ _ _ _ _ mk _ _ st hr hk hz, fieldRules_custom_zero _ _ _ _ _ _ _ _ mk _ _ {} hr hk hz]
          exact ih d st
        · have hz' : v.isZero = false := by simpa using hz
          intro st
          rw [fieldRules_custom _ _ _ _ _ _ _ _ mk _ _ st hr hk hz', fieldRules_custom _ _ _ _ _ _ _ _ mk _ _ {} hr hk hz']
          exact Frame_comp_pure (fun st => st.write _) _ (Frame_write _) (ih d) st
      | builtin run =>
        by_cases hz : v.isZero = true
        · intro st
          rw [fieldRules_builtin_zero _ _ _ _ _ _ _ _ run _ _ st hr hk hz, fieldRules_builtin_zero _ _ _ _ _ _ _ _ run _ _ {} hr hk hz]
          exact ih d st
        · have hz' : v.isZero = false := by simpa using hz
          intro st
          rw [fieldRules_builtin _ _ _ _ _ _ _ _ run _ _ st hr hk hz', fieldRules_builtin _ _ _ _ _ _ _ _ run _ _ {} hr hk hz']
          exact Frame_bind_const (run ext r sn fname v)
            (fun t st => fieldRules ext fns scope sn fname v descend rs d (st.write t))
            (fun t => Frame_comp_pure (fun st => st.write t) _ (Frame_write t) (ih d)) st

end PGV.Proofs.Frame

namespace PGV.Proofs.Frame
open PGV PGV.Model PGV.Proofs.Walker

theorem Frame_flatRules (c : FlatCfg) (scope ne nc : Bytes) (v : GoVal) (rs : List Bytes) :
    Frame (flatRules c scope ne nc v rs) := by
  induction rs with
  | nil => intro st; rw [flatRules_nil, flatRules_nil]; exact Frame_pure st
  | cons r rs ih =>
    by_cases hr : r = []
    · subst hr
      intro st
      rw [flatRules_empty, flatRules_empty]; exact ih st
    · cases hk : resolveFn c.fns (parseValidNameKV r).1 with
      | unknown =>
        intro st
        rw [flatRules_unknown _ _ _ _ _ _ _ st hr hk, flatRules_unknown _ _ _ _ _ _ _ {} hr hk]
        exact Frame_comp_pure (fun st => st.write _) _ (Frame_write _) ih st
      | structural =>
        by_cases hreq : (parseValidNameKV r).1 = requiredB
        · intro st
          rw [flatRules_required _ _ _ _ _ _ _ st hr hk hreq, flatRules_required _ _ _ _ _ _ _ {} hr hk hreq]
          by_cases hv : c.requiredViolated v = true
          · simp only [hv, if_true]
            exact Frame_comp_pure (fun st => st.write _) _ (Frame_write _) ih st
          · simp only [hv]
            exact ih st
        · intro st
          rw [flatRules_structural_other _ _ _ _ _ _ _ st hr hk hreq, flatRules_structural_other _ _ _ _ _ _ _ {} hr hk hreq]
          split
          · exact Frame_comp_pure (fun st => { st with members := st.members ++ [_] }) _ (Frame_member _) ih st
          · exact Frame_comp_pure (fun st => st.write _) _ (Frame_write _) ih st
      | custom mk =>
        by_cases hz : c.isEmpty v = true
        · intro st
          rw [flatRules_custom_zero _ _ _ _ _ _ mk _ st hr hk hz, flatRules_custom_zero _ _ _ _ _ _ mk _ {} hr hk hz]
          exact ih st
        · have hz' : c.isEmpty v = false := by simpa using hz
          intro st
          rw [flatRules_custom _ _ _ _ _ _ mk _ st hr hk hz', flatRules_custom _ _ _ _ _ _ mk _ {} hr hk hz']
          exact Frame_comp_pure (fun st => st.write _) _ (Frame_write _) ih st
      | builtin run =>
        by_cases hz : c.isEmpty v = true
        · intro st
          rw [flatRules_builtin_zero _ _ _ _ _ _ run _ st hr hk hz, flatRules_builtin_zero _ _ _ _ _ _ run _ {} hr hk hz]
          exact ih st
        · have hz' : c.isEmpty v = false := by simpa using hz
          intro st
          rw [flatRules_builtin _ _ _ _ _ _ run _ st hr hk hz', flatRules_builtin _ _ _ _ _ _ run _ {} hr hk hz']
          exact Frame_bind_const (run c.ext r [] nc v)
            (fun t st => flatRules c scope ne nc v rs (st.write t))
            (fun t => Frame_comp_pure (fun st => st.write t) _ (Frame_write t) ih) st

end PGV.Proofs.Frame

namespace PGV.Proofs.Frame
open PGV PGV.Model PGV.Proofs.Walker

theorem Frame_nonStruct (n : Bytes) (v : GoVal) (g : Bool) : Frame (nonStruct n v g) := by
  unfold nonStruct
  cases g
  · simp only [Bool.false_eq_true, if_false]; exact Frame_write _
  · simp only [if_true]; exact Frame_pure

theorem Frame_existScalar (sn fname cus : Bytes) (v : GoVal) (k : Bool) (c : Bool) :
    Frame (fun st => pure (if c then st else existScalar sn fname cus v k st)) := by
  cases c
  · simp only [Bool.false_eq_true, if_false]
    unfold existScalar
    cases k
    · simp only [Bool.false_eq_true, if_false]; exact Frame_pure
    · simp only [if_true]; exact Frame_write _
  · simp only [if_true]; exact Frame_pure

theorem Frame_existScalar' (sn fname cus : Bytes) (v : GoVal) (k : Bool) :
    Frame (fun st => pure (existScalar sn fname cus v k st)) := by
  have := Frame_existScalar sn fname cus v k false
  simpa using this

mutual
theorem Frame_validate (cfg : StructCfg) (name : Bytes) (v : GoVal) (g : Bool) : Frame (validate cfg name v g) := by
  cases v with
  | ptr t tgt =>
    cases tgt with
    | none => intro st; rw [validate, validate]; exact Frame_pure st
    | some x => intro st; rw [validate, validate]; exact Frame_validate cfg name x g st
  | struct t n tm fs => intro st; rw [validate, validate]; exact Frame_fieldsLoop cfg _ _ fs st
  | str s => intro st; rw [validate, validate]; exact Frame_nonStruct _ _ _ st
  | bool s => intro st; rw [validate, validate]; exact Frame_nonStruct _ _ _ st
  | int _ _ => intro st; rw [validate, validate]; exact Frame_nonStruct _ _ _ st
  | uint _ _ => intro st; rw [validate, validate]; exact Frame_nonStruct _ _ _ st
  | float _ _ _ _ => intro st; rw [validate, validate]; exact Frame_nonStruct _ _ _ st
  | iface _ _ => intro st; rw [validate, validate]; exact Frame_nonStruct _ _ _ st
  | slice _ _ _ _ => intro st; rw [validate, validate]; exact Frame_nonStruct _ _ _ st
  | array _ _ _ => intro st; rw [validate, validate]; exact Frame_nonStruct _ _ _ st
  | map _ _ _ _ => intro st; rw [validate, validate]; exact Frame_nonStruct _ _ _ st
  | other _ _ _ _ => intro st; rw [validate, validate]; exact Frame_nonStruct _ _ _ st

theorem Frame_fieldsLoop (cfg : StructCfg) (sn : Bytes) (cus : RM) (fs : Fields) : Frame (fieldsLoop cfg sn cus fs) := by
  cases fs with
  | nil => intro st; rw [fieldsLoop, fieldsLoop]; exact Frame_pure st
  | cons name ex tt tags v rest =>
    by_cases hskip : ex = false ∨ tt = true
    · intro st
      have h : ex = false ∨ tt = true ∨ (rmGet cus name = [] ∧ tagGet tags cfg.tag = []) := by
        rcases hskip with h | h
        · exact Or.inl h
        · exact Or.inr (Or.inl h)
      rw [fieldsLoop_skip _ _ _ _ _ _ _ _ _ st h, fieldsLoop_skip _ _ _ _ _ _ _ _ _ {} h]
      exact Frame_fieldsLoop cfg sn cus rest st
    · have hex : ex = true := by cases ex <;> simp_all
      have htt : tt = false := by cases tt <;> simp_all
      subst hex htt
      intro st
      rw [fieldsLoop_rules _ _ _ _ _ _ _ st, fieldsLoop_rules _ _ _ _ _ _ _ {}]
      have hg : Frame (fun st => if (effectiveRule cfg cus name tags).isEmpty = true then pure st
          else fieldRules cfg.ext cfg.fns sn sn name v
            (fun isValidTvKind skip cusMsg st => existTop cfg sn name v isValidTvKind skip cusMsg st)
            (validNamesSplit (effectiveRule cfg cus name tags)) false st) :=
        Frame_ite _ _ _ Frame_pure
          (Frame_fieldRules _ _ _ _ _ _ _ (fun a b c => Frame_existTop cfg sn name v a b c) _ _)
      exact Frame_bind _ (fieldsLoop cfg sn cus rest) hg (Frame_fieldsLoop cfg sn cus rest) st

theorem Frame_existTop (cfg : StructCfg) (sn fname : Bytes) (v : GoVal) (k skip : Bool) (cus : Bytes) :
    Frame (existTop cfg sn fname v k skip cus) := by
  cases v with
  | ptr t tgt =>
    cases tgt with
    | none => intro st; rw [existTop, existTop]; exact Frame_pure st
    | some x => intro st; rw [existTop, existTop]; exact Frame_existStripped cfg sn fname x k skip cus st
  | struct t n tm fs =>
    intro st; rw [existTop, existTop]
    exact Frame_ite _ _ _ Frame_pure (Frame_fieldsLoop cfg _ _ fs) st
  | slice t e n es =>
    intro st; rw [existTop, existTop]
    exact Frame_ite _ _ _ Frame_pure (Frame_elemsLoop cfg _ 0 es) st
  | array t e es =>
    intro st; rw [existTop, existTop]
    exact Frame_ite _ _ _ Frame_pure (Frame_elemsLoop cfg _ 0 es) st
  | map t ks n es =>
    intro st; rw [existTop, existTop]
    exact Frame_ite _ _ _ Frame_pure
      (Frame_comp_pure (fun st => st.mark 0) _ (Frame_mark 0) (Frame_entriesLoop cfg _ es)) st
  | str s => intro st; rw [existTop, existTop]; exact Frame_existScalar _ _ _ _ _ _ st
  | bool s => intro st; rw [existTop, existTop]; exact Frame_existScalar _ _ _ _ _ _ st
  | int _ _ => intro st; rw [existTop, existTop]; exact Frame_existScalar _ _ _ _ _ _ st
  | uint _ _ => intro st; rw [existTop, existTop]; exact Frame_existScalar _ _ _ _ _ _ st
  | float _ _ _ _ => intro st; rw [existTop, existTop]; exact Frame_existScalar _ _ _ _ _ _ st
  | iface _ _ => intro st; rw [existTop, existTop]; exact Frame_existScalar _ _ _ _ _ _ st
  | other _ _ _ _ => intro st; rw [existTop, existTop]; exact Frame_existScalar _ _ _ _ _ _ st

theorem Frame_existStripped (cfg : StructCfg) (sn fname : Bytes) (v : GoVal) (k skip : Bool) (cus : Bytes) :
    Frame (existStripped cfg sn fname v k skip cus) := by
  cases v with
  | ptr t tgt =>
    cases tgt with
    | none => intro st; rw [existStripped, existStripped]; exact Frame_pure st
    | some x => intro st; rw [existStripped, existStripped]; exact Frame_existStripped cfg sn fname x k skip cus st
  | struct t n tm fs =>
    intro st; rw [existStripped, existStripped]
    exact Frame_ite _ _ _ Frame_pure (Frame_fieldsLoop cfg _ _ fs) st
  | slice t e n es =>
    intro st; rw [existStripped, existStripped]
    exact Frame_ite _ _ _ Frame_pure (Frame_elemsLoop cfg _ 0 es) st
  | array t e es =>
    intro st; rw [existStripped, existStripped]
    exact Frame_ite _ _ _ Frame_pure (Frame_elemsLoop cfg _ 0 es) st
  | map t ks n es =>
    intro st; rw [existStripped, existStripped]
    exact Frame_ite _ _ _ Frame_pure
      (Frame_comp_pure (fun st => st.mark 0) _ (Frame_mark 0) (Frame_entriesLoop cfg _ es)) st
  | str s => intro st; rw [existStripped, existStripped]; exact Frame_existScalar' _ _ _ _ _ st
  | bool s => intro st; rw [existStripped, existStripped]; exact Frame_existScalar' _ _ _ _ _ st
  | int _ _ => intro st; rw [existStripped, existStripped]; exact Frame_existScalar' _ _ _ _ _ st
  | uint _ _ => intro st; rw [existStripped, existStripped]; exact Frame_existScalar' _ _ _ _ _ st
  | float _ _ _ _ => intro st; rw [existStripped, existStripped]; exact Frame_existScalar' _ _ _ _ _ st
  | iface _ _ => intro st; rw [existStripped, existStripped]; exact Frame_existScalar' _ _ _ _ _ st
  | other _ _ _ _ => intro st; rw [existStripped, existStripped]; exact Frame_existScalar' _ _ _ _ _ st

theorem Frame_elemsLoop (cfg : StructCfg) (path : Bytes) (i : Nat) (es : GoVals) : Frame (elemsLoop cfg path i es) := by
  cases es with
  | nil => intro st; rw [elemsLoop, elemsLoop]; exact Frame_pure st
  | cons v rest =>
    intro st; rw [elemsLoop, elemsLoop]
    exact Frame_bind _ _ (Frame_validate cfg _ v true) (Frame_elemsLoop cfg path (i + 1) rest) st

theorem Frame_entriesLoop (cfg : StructCfg) (pathOpen : Bytes) (es : Entries) : Frame (entriesLoop cfg pathOpen es) := by
  cases es with
  | nil => intro st; rw [entriesLoop, entriesLoop]; exact Frame_mark 2 st
  | cons k v rest =>
    intro st; rw [entriesLoop, entriesLoop]
    exact Frame_bind_const (keyStr cfg.ext k)
      (fun ks st => validate cfg (pathOpen ++ ks ++ [93]) v true (st.mark 1) >>= fun st1 => entriesLoop cfg pathOpen rest st1)
      (fun ks => Frame_bind _ _ (Frame_comp_pure (fun st => st.mark 1) _ (Frame_mark 1) (Frame_validate cfg _ v true))
        (Frame_entriesLoop cfg pathOpen rest)) st
end

end PGV.Proofs.Frame
