import PGV.Proofs.Inject
import PGV.Proofs.RuleText

/-!
# The tag scanner reads back what `format` writes

`newTagItems (format items) = items` for well-formed items, and every item the scanner produces is
well-formed — so re-parsing a literal the injector wrote yields exactly the merged items.
-/

namespace PGV.Proofs.TagScan
open PGV PGV.Model PGV.Model.Inject PGV.Spec.Inject

/-- `key:"value"` in conventional form: a non-empty word, and a quoted non-empty value without a quote inside -/
def WfItem (i : TagItem) : Prop :=
  i.key ≠ [] ∧ (∀ c ∈ i.key, isWord c = true) ∧
  ∃ v, i.value = [34] ++ v ++ [34] ∧ v ≠ [] ∧ (34 : UInt8) ∉ v

def itemText (i : TagItem) : Bytes := i.key ++ [58] ++ i.value

theorem takeWhile_append_stop {p : UInt8 → Bool} (a : Bytes) (c : UInt8) (t : Bytes)
    (ha : ∀ x ∈ a, p x = true) (hc : p c = false) : (a ++ c :: t).takeWhile p = a := by
  induction a with
  | nil => simp [List.takeWhile, hc]
  | cons x xs ih =>
    have hx : p x = true := ha x (by simp)
    simp only [List.cons_append, List.takeWhile_cons, hx, if_true]
    rw [ih (fun y hy => ha y (by simp [hy]))]

theorem isWord_colon : isWord 58 = false := by decide
theorem isWord_space : isWord 32 = false := by decide

theorem matchTagAt_item (i : TagItem) (h : WfItem i) (tail : Bytes) :
    matchTagAt (itemText i ++ tail) = some (itemText i).length := by
  obtain ⟨hk, hw, v, hv, hvne, hvq⟩ := h
  unfold matchTagAt itemText
  rw [hv]
  have e : i.key ++ [58] ++ ([34] ++ v ++ [34]) ++ tail = i.key ++ 58 :: (34 :: (v ++ 34 :: tail)) := by simp
  rw [e, takeWhile_append_stop i.key 58 _ hw isWord_colon]
  have hne : i.key.isEmpty = false := by cases hk' : i.key <;> simp_all
  simp only [hne, Bool.false_eq_true, if_false, List.drop_left]
  have hv' : ∀ x ∈ v, (x != 34) = true := by
    intro x hx; simp; intro e; exact hvq (e ▸ hx)
  rw [takeWhile_append_stop v 34 tail hv' (by simp)]
  have hvne' : v.isEmpty = false := by cases hv'' : v <;> simp_all
  simp only [hvne', Bool.false_eq_true, if_false, List.drop_left, List.head?_cons, beq_self_eq_true, if_true]
  simp [List.length_append]
  omega

theorem findAllTags_item (fuel : Nat) (i : TagItem) (h : WfItem i) (tail : Bytes) :
    findAllTags (fuel + 1) (itemText i ++ tail) = itemText i :: findAllTags fuel tail := by
  have hm := matchTagAt_item i h tail
  have hne : itemText i ++ tail ≠ [] := by
    obtain ⟨hk, _⟩ := h
    unfold itemText
    cases hk' : i.key <;> simp_all
  cases hs : itemText i ++ tail with
  | nil => exact absurd hs hne
  | cons c t =>
    rw [findAllTags]
    rw [← hs, hm]
    simp

theorem findAllTags_space (fuel : Nat) (s : Bytes) : findAllTags (fuel + 1) (32 :: s) = findAllTags fuel s := by
  rw [findAllTags]
  have : matchTagAt (32 :: s) = none := by
    unfold matchTagAt
    simp [List.takeWhile, isWord_space]
  rw [this]

theorem format_cons_cons (i j : TagItem) (rest : TagItems) :
    format (i :: j :: rest) = itemText i ++ (32 :: format (j :: rest)) := by
  simp [format, Bytes.join, itemText, SP]

theorem format_single (i : TagItem) : format [i] = itemText i := by simp [format, Bytes.join, itemText]

theorem findAllTags_format (items : TagItems) (h : ∀ i ∈ items, WfItem i) (fuel : Nat) (hf : 2 * items.length ≤ fuel) :
    findAllTags fuel (format items) = items.map itemText := by
  induction items generalizing fuel with
  | nil => cases fuel <;> simp [format, Bytes.join, findAllTags]
  | cons i rest ih =>
    cases rest with
    | nil =>
      cases fuel with
      | zero => simp at hf
      | succ f =>
        rw [format_single]
        have := findAllTags_item f i (h i (by simp)) []
        simp only [List.append_nil] at this
        rw [this]
        cases f <;> simp [findAllTags]
    | cons j rest' =>
      match fuel, hf with
      | f + 2, hf =>
        rw [format_cons_cons, findAllTags_item (f + 1) i (h i (by simp)), findAllTags_space]
        rw [ih (fun x hx => h x (by simp [hx])) f (by simp at hf ⊢; omega)]
        rfl

theorem itemText_length (i : TagItem) (h : WfItem i) : 5 ≤ (itemText i).length := by
  obtain ⟨hk, _, v, hv, hvne, _⟩ := h
  unfold itemText
  rw [hv]
  have : 1 ≤ i.key.length := by cases hk' : i.key <;> simp_all
  have : 1 ≤ v.length := by cases hv' : v <;> simp_all
  simp [List.length_append]; omega

theorem format_length (items : TagItems) (h : ∀ i ∈ items, WfItem i) : 2 * items.length ≤ (format items).length + 1 := by
  induction items with
  | nil => simp
  | cons i rest ih =>
    cases rest with
    | nil => rw [format_single]; have := itemText_length i (h i (by simp)); simp; omega
    | cons j rest' =>
      rw [format_cons_cons]
      have := itemText_length i (h i (by simp))
      have := ih (fun x hx => h x (by simp [hx]))
      simp [List.length_append] at this ⊢; omega

theorem parse_itemText (i : TagItem) (h : WfItem i) :
    (match Bytes.indexByte? 58 (itemText i) with
      | some n => ({ key := (itemText i).take n, value := (itemText i).drop (n + 1) } : TagItem)
      | none => { key := itemText i, value := [] }) = i := by
  obtain ⟨hk, hw, v, hv, hvne, hvq⟩ := h
  have hnot : (58 : UInt8) ∉ i.key := by
    intro hm; have := hw 58 hm; rw [isWord_colon] at this; cases this
  have : Bytes.indexByte? 58 (itemText i) = some i.key.length := by
    unfold itemText
    rw [List.append_assoc]
    exact PGV.Proofs.RuleText.indexByte?_append_cons 58 i.key i.value hnot
  rw [this]
  simp [itemText]

/-- **the scanner reads back what `format` writes** -/
theorem newTagItems_format (items : TagItems) (h : ∀ i ∈ items, WfItem i) : newTagItems (format items) = items := by
  unfold newTagItems
  rw [findAllTags_format items h _ (format_length items h), List.map_map]
  conv => rhs; rw [← List.map_id items]
  apply List.map_congr_left
  intro i hi
  exact parse_itemText i (h i hi)

end PGV.Proofs.TagScan

namespace PGV.Proofs.TagScan
open PGV PGV.Model PGV.Model.Inject PGV.Spec.Inject

theorem takeWhile_all {p : UInt8 → Bool} (s : Bytes) : ∀ x ∈ s.takeWhile p, p x = true := by
  induction s with
  | nil => simp
  | cons a t ih =>
    intro x hx
    simp only [List.takeWhile_cons] at hx
    split at hx
    · simp only [List.mem_cons] at hx
      rcases hx with rfl | hx
      · assumption
      · exact ih x hx
    · simp at hx

theorem takeWhile_drop (p : UInt8 → Bool) (s : Bytes) : s.takeWhile p ++ s.drop (s.takeWhile p).length = s := by
  induction s with
  | nil => rfl
  | cons a t ih =>
    simp only [List.takeWhile_cons]
    split
    · simp only [List.length_cons, List.drop_succ_cons, List.cons_append]; rw [ih]
    · rfl

/-- the shape of every match of `\w+:"[^"]+"` -/
def TagShape (t : Bytes) : Prop :=
  ∃ w v, t = w ++ [58] ++ ([34] ++ v ++ [34]) ∧ w ≠ [] ∧ (∀ c ∈ w, isWord c = true) ∧ v ≠ [] ∧ (34 : UInt8) ∉ v

theorem matchTagAt_shape (s : Bytes) (n : Nat) (h : matchTagAt s = some n) : TagShape (s.take n) := by
  unfold matchTagAt at h
  generalize hw : s.takeWhile isWord = w at h
  by_cases hwe : w.isEmpty = true
  · simp [hwe] at h
  · simp only [hwe, Bool.false_eq_true, if_false] at h
    have hs : s = w ++ s.drop w.length := by
      rw [← hw]; exact (takeWhile_drop isWord s).symm
    cases hd : s.drop w.length with
    | nil => simp [hd] at h
    | cons c1 t1 =>
      cases t1 with
      | nil =>
        rw [hd] at h
        split at h
        · rename_i heq
          injection heq with _ h2
          cases h2
        · cases h
      | cons c2 rest =>
        rw [hd] at h
        split at h
        · rename_i rest' heq
          injection heq with e1 e2
          injection e2 with e2 e3
          subst e1 e2 e3
          generalize hv : rest.takeWhile (· != 34) = v at h
          by_cases hve : v.isEmpty = true
          · simp [hve] at h
          · simp only [hve, Bool.false_eq_true, if_false] at h
            split at h
            · rename_i hq
              injection h with h
              subst h
              have hrest : rest = v ++ rest.drop v.length := by
                rw [← hv]; exact (takeWhile_drop (· != 34) rest).symm
              cases hdr : rest.drop v.length with
              | nil => rw [hdr] at hq; simp at hq
              | cons q tl =>
                rw [hdr] at hq hrest
                simp at hq; subst hq
                refine ⟨w, v, ?_, ?_, ?_, ?_, ?_⟩
                · rw [hs, hd, hrest]
                  have : w.length + 2 + v.length + 1 = (w ++ [58] ++ ([34] ++ v ++ [34])).length := by
                    simp [List.length_append]; omega
                  rw [this]
                  have e : w ++ 58 :: 34 :: (v ++ 34 :: tl) = (w ++ [58] ++ ([34] ++ v ++ [34])) ++ tl := by simp
                  rw [e, List.take_left]
                · intro e; simp [e] at hwe
                · rw [← hw]; exact takeWhile_all s
                · intro e; simp [e] at hve
                · intro hm
                  have := takeWhile_all (p := (· != 34)) rest 34 (by rw [hv]; exact hm)
                  simp at this
            · simp at h
        · simp at h

theorem findAllTags_shape (fuel : Nat) (s : Bytes) : ∀ t ∈ findAllTags fuel s, TagShape t := by
  induction fuel generalizing s with
  | zero => intro t ht; simp [findAllTags] at ht
  | succ f ih =>
    intro t ht
    cases s with
    | nil => simp [findAllTags] at ht
    | cons c tl =>
      rw [findAllTags] at ht
      cases hm : matchTagAt (c :: tl) with
      | none => rw [hm] at ht; exact ih tl t ht
      | some n =>
        rw [hm] at ht
        simp only [List.mem_cons] at ht
        rcases ht with rfl | ht
        · exact matchTagAt_shape _ n hm
        · exact ih _ t ht

/-- every item the scanner produces is in conventional form -/
theorem newTagItems_wf (tag : Bytes) : ∀ i ∈ newTagItems tag, WfItem i := by
  intro i hi
  unfold newTagItems at hi
  simp only [List.mem_map] at hi
  obtain ⟨t, ht, rfl⟩ := hi
  obtain ⟨w, v, rfl, hw, hww, hv, hvq⟩ := findAllTags_shape _ _ t ht
  have hnot : (58 : UInt8) ∉ w := by
    intro hm; have := hww 58 hm; rw [isWord_colon] at this; cases this
  have : Bytes.indexByte? 58 (w ++ [58] ++ ([34] ++ v ++ [34])) = some w.length := by
    rw [List.append_assoc]
    exact PGV.Proofs.RuleText.indexByte?_append_cons 58 w _ hnot
  rw [this]
  refine ⟨?_, ?_, v, ?_, hv, hvq⟩
  · simp; exact hw
  · simp; exact hww
  · simp

/-- merging keeps conventional form -/
theorem merge_wf (old inj : TagItems) (h1 : ∀ i ∈ old, WfItem i) (h2 : ∀ i ∈ inj, WfItem i) :
    ∀ i ∈ merge old inj, WfItem i := by
  intro i hi
  rw [PGV.Proofs.Inject.merge_def] at hi
  simp only [List.mem_append, List.mem_map, List.mem_filter] at hi
  rcases hi with ⟨o, ho, rfl⟩ | ⟨hi, _⟩
  · unfold PGV.Proofs.Inject.upd
    cases hf : inj.find? (·.key == o.key) with
    | none => exact h1 o ho
    | some x => exact h2 x (List.mem_of_find?_eq_some hf)
  · exact h2 i hi

end PGV.Proofs.TagScan
