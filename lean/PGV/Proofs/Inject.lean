import PGV.Spec.Inject

namespace PGV.Proofs.Inject
open PGV PGV.Model PGV.Model.Inject PGV.Spec.Inject

/-! ### `takeKey` -/

theorem takeKey_none (k : Bytes) (inj : TagItems) : takeKey k inj = none ↔ k ∉ keys inj := by
  induction inj with
  | nil => simp [takeKey, keys]
  | cons i rest ih =>
    simp only [takeKey, keys, List.map_cons, List.mem_cons, not_or]
    by_cases h : (i.key == k) = true
    · simp [h]; intro h'; exact absurd (eq_of_beq h).symm h'
    · simp only [h, Bool.false_eq_true, if_false, Option.map_eq_none_iff]
      rw [ih]
      have : ¬ k = i.key := fun e => h (by simp [e])
      simp [keys, this]

theorem takeKey_some (k : Bytes) (inj : TagItems) (x : TagItem) (r : TagItems) (h : takeKey k inj = some (x, r)) :
    x.key = k ∧ inj.find? (·.key == k) = some x ∧
    (∀ k', k' ≠ k → r.find? (·.key == k') = inj.find? (·.key == k')) ∧
    (∀ p : TagItem → Bool, (∀ i, i.key = k → p i = false) → r.filter p = inj.filter p) ∧
    ((keys inj).Nodup → k ∉ keys r ∧ (keys r).Nodup) ∧ (∀ k', k' ∈ keys r → k' ∈ keys inj) := by
  induction inj generalizing x r with
  | nil => simp [takeKey] at h
  | cons i rest ih =>
    simp only [takeKey] at h
    by_cases hk : (i.key == k) = true
    · simp only [hk, if_true, Option.some.injEq, Prod.mk.injEq] at h
      obtain ⟨rfl, rfl⟩ := h
      have hkey := eq_of_beq hk
      refine ⟨hkey, by simp [hk], ?_, ?_, ?_, ?_⟩
      · intro k' hne
        have : (i.key == k') = false := by
          apply Bool.eq_false_iff.mpr; intro e; exact hne ((eq_of_beq e).symm.trans hkey)
        simp [this]
      · intro p hp; simp [List.filter_cons, hp i hkey]
      · intro hnd
        simp only [keys, List.map_cons, List.nodup_cons] at hnd
        rw [← hkey]; exact ⟨hnd.1, hnd.2⟩
      · intro k' hk'; simp [keys] at hk' ⊢; right; exact hk'
    · simp only [hk, Bool.false_eq_true, if_false, Option.map_eq_some_iff] at h
      obtain ⟨⟨x', r'⟩, hrec, heq⟩ := h
      simp only [Prod.mk.injEq] at heq
      obtain ⟨rfl, rfl⟩ := heq
      obtain ⟨h1, h2, h3, h4, h5, h6⟩ := ih x' r' hrec
      have hik : i.key ≠ k := fun e => hk (by simp [e])
      refine ⟨h1, ?_, ?_, ?_, ?_, ?_⟩
      · simp [List.find?_cons, hk, h2]
      · intro k' hne
        simp only [List.find?_cons]
        split
        · rfl
        · exact h3 k' hne
      · intro p hp
        simp only [List.filter_cons]
        rw [h4 p hp]
      · intro hnd
        simp only [keys, List.map_cons, List.nodup_cons] at hnd
        obtain ⟨hn1, hn2⟩ := h5 hnd.2
        refine ⟨?_, ?_⟩
        · simp only [keys, List.map_cons, List.mem_cons, not_or]
          exact ⟨fun e => hik e.symm, hn1⟩
        · simp only [keys, List.map_cons, List.nodup_cons]
          refine ⟨?_, hn2⟩
          intro hmem
          exact hnd.1 (h6 _ hmem)
      · intro k' hk'
        simp only [keys, List.map_cons, List.mem_cons] at hk' ⊢
        rcases hk' with e | e
        · left; exact e
        · right; exact h6 k' e

theorem find?_none_of_not_mem (k : Bytes) (inj : TagItems) (h : k ∉ keys inj) : inj.find? (·.key == k) = none := by
  induction inj with
  | nil => rfl
  | cons i rest ih =>
    simp only [keys, List.map_cons, List.mem_cons, not_or] at h
    have : (i.key == k) = false := by
      apply Bool.eq_false_iff.mpr; intro e; exact h.1 (eq_of_beq e).symm
    rw [List.find?_cons, this]
    exact ih (by simpa [keys] using h.2)

/-- the code's `override` is the spec's `merge` whenever neither side repeats a key -/
theorem override_eq_merge (old inj : TagItems) (h1 : (keys old).Nodup) (h2 : (keys inj).Nodup) :
    override old inj = merge old inj := by
  induction old generalizing inj with
  | nil =>
    simp only [override, merge, keys, List.map_nil, List.nil_append, List.contains_nil, Bool.not_false]
    induction inj with
    | nil => rfl
    | cons i r ihr =>
      simp only [keys, List.map_cons, List.nodup_cons] at h2
      simp only [List.filter_cons, if_true]
      exact congrArg _ (ihr h2.2)
  | cons t rest ih =>
    simp only [keys, List.map_cons, List.nodup_cons] at h1
    have hrest : (keys rest).Nodup := h1.2
    rw [override]
    cases htk : takeKey t.key inj with
    | none =>
      have hnot := (takeKey_none t.key inj).mp htk
      simp only
      rw [ih inj hrest h2]
      simp only [merge, List.map_cons, find?_none_of_not_mem t.key inj hnot, List.cons_append, List.cons.injEq, true_and]
      congr 1
      apply List.filter_congr
      intro i hi
      have : i.key ≠ t.key := fun e => hnot (by rw [← e]; exact List.mem_map_of_mem hi)
      simp [keys, this]
    | some p =>
      rcases p with ⟨x, inj'⟩
      obtain ⟨hx, hfind, hothers, hfilter, hnd, hsub⟩ := takeKey_some t.key inj x inj' htk
      simp only
      rw [ih inj' hrest (hnd h2).2]
      simp only [merge, List.map_cons, hfind, List.cons_append, List.cons.injEq, true_and]
      congr 1
      · apply List.map_congr_left
        intro o ho
        have hne : o.key ≠ t.key := by
          intro e; apply h1.1; rw [← e]; exact List.mem_map_of_mem ho
        rw [hothers o.key hne]
      · -- the items appended: those of `inj` whose key the field does not have
        have hstep : inj'.filter (fun i => !(keys rest).contains i.key)
            = inj'.filter (fun i => !(keys (t :: rest)).contains i.key) := by
          apply List.filter_congr
          intro i hi
          have : i.key ≠ t.key := by
            intro e; apply (hnd h2).1; rw [← e]; exact List.mem_map_of_mem hi
          simp [keys, this]
        rw [hstep]
        exact hfilter _ (by intro i hi; simp [keys, hi])

/-- the replacement function of `merge` -/
def upd (inj : TagItems) (o : TagItem) : TagItem :=
  match inj.find? (·.key == o.key) with | some i => i | none => o

theorem merge_def (old inj : TagItems) :
    merge old inj = old.map (upd inj) ++ inj.filter (fun i => !(keys old).contains i.key) := rfl

theorem upd_key (inj : TagItems) (o : TagItem) : (upd inj o).key = o.key := by
  unfold upd
  cases h : inj.find? (·.key == o.key) with
  | none => rfl
  | some i => simp only; have := List.find?_some h; simpa using this

theorem keys_map_upd (old inj : TagItems) : keys (old.map (upd inj)) = keys old := by
  simp [keys, List.map_map, Function.comp_def, upd_key]

theorem keys_merge (old inj : TagItems) :
    keys (merge old inj) = keys old ++ (keys inj).filter (fun k => !(keys old).contains k) := by
  rw [merge_def]
  simp only [keys, List.map_append]
  congr 1
  · exact keys_map_upd old inj
  · rw [List.filter_map]; rfl

/-- no key is duplicated -/
theorem merge_nodup (old inj : TagItems) (h1 : (keys old).Nodup) (h2 : (keys inj).Nodup) :
    (keys (merge old inj)).Nodup := by
  rw [keys_merge]
  rw [List.nodup_append]
  refine ⟨h1, h2.filter _, ?_⟩
  intro a ha b hb
  simp only [List.mem_filter, Bool.not_eq_true', List.contains_eq_mem, decide_eq_false_iff_not] at hb
  intro e; subst e; exact hb.2 ha

/-- position and value of the keys the comment does not mention are kept; mentioned keys keep their
position and take the comment's item -/
theorem merge_positions (old inj : TagItems) (i : Nat) (h : i < old.length) :
    (merge old inj)[i]? = (old[i]?).map (upd inj) := by
  rw [merge_def, List.getElem?_append_left (by simpa using h), List.getElem?_map]

theorem upd_unmentioned (inj : TagItems) (o : TagItem) (h : o.key ∉ keys inj) : upd inj o = o := by
  unfold upd; rw [find?_none_of_not_mem o.key inj h]

theorem find?_map_upd (old inj : TagItems) (k : Bytes) :
    (old.map (upd inj)).find? (·.key == k) = (old.find? (·.key == k)).map (upd inj) := by
  induction old with
  | nil => rfl
  | cons o rest ih =>
    simp only [List.map_cons, List.find?_cons, upd_key]
    split
    · rfl
    · exact ih

/-- every key of the comment ends up with exactly the comment's value -/
theorem merge_lookup_new (old inj : TagItems) (k : Bytes) (hk : k ∈ keys inj) :
    lookup k (merge old inj) = lookup k inj := by
  unfold lookup
  rw [merge_def, List.find?_append, find?_map_upd]
  cases hold : old.find? (·.key == k) with
  | some o =>
    have hok : o.key = k := by have := List.find?_some hold; simpa using this
    simp only [Option.map_some, Option.some_or]
    unfold upd
    rw [hok]
    cases hinj : inj.find? (·.key == k) with
    | none =>
      exfalso
      simp only [keys, List.mem_map] at hk
      obtain ⟨i, hi, hik⟩ := hk
      have := List.find?_eq_none.mp hinj i hi
      simp [hik] at this
    | some i => rfl
  | none =>
    simp only [Option.map_none, Option.none_or]
    have hnot : k ∉ keys old := by
      intro hmem
      simp only [keys, List.mem_map] at hmem
      obtain ⟨o, ho, hok⟩ := hmem
      have := List.find?_eq_none.mp hold o ho
      simp [hok] at this
    congr 1
    -- the first item of `inj` with key `k` survives the filter and is still the first
    induction inj with
    | nil => rfl
    | cons i r ih =>
      simp only [List.filter_cons]
      by_cases hik : (i.key == k) = true
      · have : i.key = k := eq_of_beq hik
        have hc : (!(keys old).contains i.key) = true := by simp [this, hnot]
        rw [if_pos hc, List.find?_cons, hik, List.find?_cons, hik]
      · have hik' : (i.key == k) = false := by simpa using hik
        have hk' : k ∈ keys r := by
          simp only [keys, List.map_cons, List.mem_cons] at hk
          rcases hk with e | e
          · exact absurd (by simp [e]) hik
          · exact e
        split
        · simp only [List.find?_cons, hik']; exact ih hk'
        · simp only [List.find?_cons, hik']; exact ih hk'

theorem find?_self_of_nodup (inj : TagItems) (x : TagItem) (hx : x ∈ inj) (hnd : (keys inj).Nodup) :
    inj.find? (·.key == x.key) = some x := by
  induction inj with
  | nil => simp at hx
  | cons i r ih =>
    simp only [keys, List.map_cons, List.nodup_cons] at hnd
    simp only [List.mem_cons] at hx
    rcases hx with e | e
    · subst e; simp [List.find?_cons]
    · have hne : (i.key == x.key) = false := by
        apply Bool.eq_false_iff.mpr; intro he
        apply hnd.1; rw [eq_of_beq he]; exact List.mem_map_of_mem e
      rw [List.find?_cons, hne]
      exact ih e hnd.2

theorem upd_idem (inj : TagItems) (o : TagItem) : upd inj (upd inj o) = upd inj o := by
  unfold upd
  cases h : inj.find? (·.key == o.key) with
  | none => simp [h]
  | some i =>
    simp only
    have hik : i.key = o.key := by have := List.find?_some h; simpa using this
    rw [hik, h]

/-- idempotence: injecting the same comment again changes nothing -/
theorem merge_idem (old inj : TagItems) (hnd : (keys inj).Nodup) :
    merge (merge old inj) inj = merge old inj := by
  have hfilter : inj.filter (fun i => !(keys (merge old inj)).contains i.key) = [] := by
    rw [List.filter_eq_nil_iff]
    intro i hi
    simp only [Bool.not_eq_true', List.contains_eq_mem, decide_eq_false_iff_not, keys_merge,
      List.mem_append, List.mem_filter, Bool.not_eq_true', decide_eq_false_iff_not]
    intro hneg; apply hneg
    by_cases h : i.key ∈ keys old
    · left; exact h
    · right; exact ⟨List.mem_map_of_mem hi, h⟩
  rw [merge_def (merge old inj) inj, hfilter, List.append_nil, merge_def old inj, List.map_append, List.map_map]
  congr 1
  · apply List.map_congr_left; intro o _; exact upd_idem inj o
  · -- appended items are items of `inj`: with distinct keys each is its own first occurrence
    have : ∀ x ∈ inj.filter (fun i => !(keys old).contains i.key), upd inj x = x := by
      intro x hx
      have hmem : x ∈ inj := (List.mem_filter.mp hx).1
      unfold upd; rw [find?_self_of_nodup inj x hmem hnd]
    conv => rhs; rw [← List.map_id (inj.filter _)]
    exact List.map_congr_left this

end PGV.Proofs.Inject

namespace PGV.Proofs.Inject
open PGV PGV.Model PGV.Model.Inject PGV.Spec.Inject

/-! ### splicing: areas applied from the end of the file backwards = rewriting every annotated literal in place -/

theorem sliceM_prefix (a c : Bytes) : sliceM (a ++ c) 0 a.length = pure a := by
  simp [sliceM, Bytes.slice?]

theorem sliceM_suffix (a c : Bytes) : sliceM (a ++ c) a.length (a ++ c).length = pure c := by
  unfold sliceM Bytes.slice?
  have h : a.length ≤ (a ++ c).length ∧ (a ++ c).length ≤ (a ++ c).length := by simp
  rw [if_pos h, List.take_length, List.drop_left]

theorem pos0_succ (n : Nat) (h : 1 ≤ n) : pos0 n = pure (n - 1) := by
  unfold pos0; rw [if_neg (by omega)]

theorem writeAreas_append (c : Bytes) (l1 l2 : List Area) :
    writeAreas c (l1 ++ l2) = (writeAreas c l1 >>= fun c' => writeAreas c' l2) := by
  induction l1 generalizing c with
  | nil => simp [writeAreas]
  | cons a r ih =>
    simp only [List.cons_append, writeAreas, bind_assoc]
    congr 1; funext _; congr 1; funext _; congr 1; funext _; congr 1; funext c'; exact ih c'

/-- the areas reported for the chunks, with any field span `[start, end)` that lies in front of / ends with the literal -/
def AreasMatch : Nat → List Chunk → List Area → Prop
  | _, [], areas => areas = []
  | off, .plain bs :: rest, areas => AreasMatch (off + bs.length) rest areas
  | off, .tagged text inj :: rest, areas =>
    ∃ a as, areas = a :: as ∧ a.tagStart = off + 1 ∧ a.tagEnd = off + text.length + 3 ∧ a.currentTag = text ∧
      a.injectTag = inj ∧ 1 ≤ a.start ∧ a.start ≤ a.end_ ∧ a.end_ ≤ a.tagEnd ∧ AreasMatch (off + text.length + 2) rest as

theorem injectTag_chunk (pre text inj post : Bytes) (a : Area) (hs : a.tagStart = pre.length + 1)
    (he : a.tagEnd = pre.length + text.length + 3) (hc : a.currentTag = text) (hi : a.injectTag = inj) :
    injectTag (pre ++ ([96] ++ text ++ [96]) ++ post) a
      = pure (pre ++ ([96] ++ newTextWith override text inj ++ [96]) ++ post) := by
  unfold injectTag
  rw [pos0_succ a.tagStart (by omega), pos0_succ a.tagEnd (by omega), hs, he, hc, hi]
  simp only [pure_bind]
  have e1 : pre.length + 1 - 1 = pre.length := by omega
  have hp : sliceM (pre ++ ([96] ++ text ++ [96]) ++ post) 0 (pre.length + 1 - 1) = pure pre := by
    rw [e1, List.append_assoc]; exact sliceM_prefix pre _
  have e2 : pre.length + text.length + 3 - 1 = (pre ++ ([96] ++ text ++ [96])).length := by
    simp [List.length_append]; omega
  have hq : sliceM (pre ++ ([96] ++ text ++ [96]) ++ post) (pre.length + text.length + 3 - 1)
      (pre ++ ([96] ++ text ++ [96]) ++ post).length = pure post := by
    rw [e2]; exact sliceM_suffix _ post
  rw [hp]
  simp only [pure_bind]
  rw [hq]
  simp [newTextWith, pure_bind]

/-- **reverse-order splicing** (`WriteFile`): for every file seen as chunks — any number and placement
of annotated literals, any bytes in between — applying the areas from the last to the first yields
the file in which exactly the annotated literals have their new content -/
theorem writeAreas_chunks (pre : Bytes) (cs : List Chunk) (areas : List Area) (h : AreasMatch pre.length cs areas) :
    writeAreas (pre ++ render cs) areas.reverse = pure (pre ++ render (injectWith override cs)) := by
  induction cs generalizing pre areas with
  | nil =>
    simp only [AreasMatch] at h; subst h
    simp [writeAreas, render, injectWith]
  | cons c rest ih =>
    cases c with
    | plain bs =>
      simp only [AreasMatch] at h
      have := ih (pre ++ bs) areas (by simpa [List.length_append] using h)
      simpa [render, injectWith, Chunk.injectWith, Chunk.render, List.append_assoc] using this
    | tagged text inj =>
      simp only [AreasMatch] at h
      obtain ⟨a, as, rfl, hs, he, hc, hi, h1, h2, h3, hrest⟩ := h
      rw [List.reverse_cons, writeAreas_append]
      have hl : (pre ++ ([96] ++ text ++ [96])).length = pre.length + text.length + 2 := by
        simp [List.length_append]; omega
      have hih := ih (pre ++ ([96] ++ text ++ [96])) as (by rw [hl]; exact hrest)
      have hren : pre ++ render (Chunk.tagged text inj :: rest) = (pre ++ ([96] ++ text ++ [96])) ++ render rest := by
        simp [render, Chunk.render, List.append_assoc]
      rw [hren, hih]
      simp only [pure_bind, writeAreas]
      rw [pos0_succ a.start h1, pos0_succ a.end_ (by omega)]
      simp only [pure_bind]
      -- the log line's slice of the field expression is in bounds
      have hlen : a.end_ - 1 ≤ (pre ++ ([96] ++ text ++ [96]) ++ render (injectWith override rest)).length := by
        rw [List.length_append, hl]; omega
      have hle : a.start - 1 ≤ a.end_ - 1 := by omega
      have hlog : sliceM (pre ++ ([96] ++ text ++ [96]) ++ render (injectWith override rest)) (a.start - 1) (a.end_ - 1)
          = pure (((pre ++ ([96] ++ text ++ [96]) ++ render (injectWith override rest)).take (a.end_ - 1)).drop (a.start - 1)) := by
        unfold sliceM Bytes.slice?
        rw [if_pos ⟨hle, hlen⟩]
      rw [hlog]
      simp only [pure_bind]
      rw [injectTag_chunk pre text inj _ a hs he hc hi]
      simp [render, injectWith, Chunk.injectWith, Chunk.render, List.append_assoc]

/-- with distinct keys on both sides the code's result is the spec's -/
theorem injectWith_override_eq (cs : List Chunk) (h : ∀ c ∈ cs, c.distinctKeys) :
    injectWith override cs = Spec.Inject.inject cs := by
  unfold Spec.Inject.inject injectWith
  apply List.map_congr_left
  intro c hc
  cases c with
  | plain bs => rfl
  | tagged text inj =>
    have := h _ hc
    simp only [Chunk.distinctKeys] at this
    simp only [Chunk.injectWith, newTextWith, override_eq_merge _ _ this.1 this.2]

end PGV.Proofs.Inject
