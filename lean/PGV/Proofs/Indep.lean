import PGV.Model.Walker
import PGV.Proofs.Size

/-!
# The verdict of a rule function does not depend on the names the carrier uses

`Sim x y`: two runs end the same way — both return text and one is empty iff the other is, or both
stop with the same residual request.  Every function of the rule table, run on the same rule text
and value with different object / field names, gives `Sim`ilar results.
-/

namespace PGV.Proofs.Indep
open PGV PGV.Model PGV.Proofs.Size

def Sim (x y : M Bytes) : Prop :=
  match x, y with
  | .ok a, .ok c => (a = [] ↔ c = [])
  | .error e1, .error e2 => e1 = e2
  | _, _ => False

theorem Sim_nil : Sim (pure []) (pure []) := by simp [Sim, pure, Except.pure]
theorem Sim_ne (a c : Bytes) (ha : a ≠ []) (hc : c ≠ []) : Sim (pure a) (pure c) := by
  simp [Sim, pure, Except.pure, ha, hc]
theorem Sim_ok_ne (a c : Bytes) (ha : a ≠ []) (hc : c ≠ []) : Sim (.ok a) (.ok c) := Sim_ne a c ha hc
theorem Sim_err (e : Stop) : Sim (.error e) (.error e) := rfl
theorem Sim_throw (e : Stop) : Sim (throw e) (throw e) := rfl

theorem Sim_bind {α} (x : M α) (f g : α → M Bytes) (h : ∀ a, Sim (f a) (g a)) : Sim (x >>= f) (x >>= g) := by
  cases x with
  | error e => exact Sim_err e
  | ok a => exact h a

theorem Sim_ite (c : Prop) [Decidable c] (x y x' y' : M Bytes) (h1 : Sim x x') (h2 : Sim y y') :
    Sim (if c then x else y) (if c then x' else y') := by
  split <;> assumption

theorem gjfe_ne (o f m : Bytes) : getJoinFieldErr o f m ≠ [] := by
  unfold getJoinFieldErr; split <;> simp [errEndFlag]
theorem gjves_ne (o f i : Bytes) (l : List Bytes) : getJoinValidErrStr o f i l ≠ [] := by
  cases l <;> simp [getJoinValidErrStr, errEndFlag]

theorem Sim_viol (o f o' f' i c : Bytes) (d : List Bytes) : Sim (pure (violClause o f i c d)) (pure (violClause o' f' i c d)) :=
  Sim_ne _ _ (violClause_ne_nil _ _ _ _ _) (violClause_ne_nil _ _ _ _ _)
theorem Sim_gjfe (o f o' f' m : Bytes) : Sim (pure (getJoinFieldErr o f m)) (pure (getJoinFieldErr o' f' m)) :=
  Sim_ne _ _ (gjfe_ne _ _ _) (gjfe_ne _ _ _)
theorem Sim_gjves (o f o' f' i : Bytes) (l : List Bytes) : Sim (pure (getJoinValidErrStr o f i l)) (pure (getJoinValidErrStr o' f' i l)) :=
  Sim_ne _ _ (gjves_ne _ _ _ _) (gjves_ne _ _ _ _)

macro "sim_step" : tactic => `(tactic| first
  | exact Sim_nil | exact Sim_viol _ _ _ _ _ _ _ | exact Sim_gjfe _ _ _ _ _ | exact Sim_gjves _ _ _ _ _ _
  | exact Sim_throw _ | exact Sim_err _
  | (refine Sim_bind _ _ _ ?_) | (refine Sim_ite _ _ _ _ _ ?_ ?_) | (intro _) | split)
macro "sim" : tactic => `(tactic| repeat sim_step)

theorem Sim_ruleTo (e : Ext) (r o f o' f' : Bytes) (v : GoVal) (h : Bool) : Sim (ruleTo e r o f v h) (ruleTo e r o' f' v h) := by
  unfold ruleTo
  rcases parseValidNameKV r with ⟨k, tv, cm⟩
  simp only
  refine Sim_bind _ _ _ ?_
  intro res
  cases res with
  | error x => exact Sim_gjfe _ _ _ _ _
  | ok p => rcases p with ⟨mn, mx⟩; simp only; sim

theorem Sim_pure_ite (c : Prop) [Decidable c] (a a' : Bytes) (ha : a ≠ []) (ha' : a' ≠ []) :
    Sim (pure (if c then a else [])) (pure (if c then a' else [])) := by
  split
  · exact Sim_ne _ _ ha ha'
  · exact Sim_nil

theorem Sim_ruleBound (r o f o' f' : Bytes) (v : GoVal) (a c : Bool) :
    Sim (pure (ruleBound r o f v a c)) (pure (ruleBound r o' f' v a c)) := by
  unfold ruleBound
  rcases parseValidNameKV r with ⟨k, tv, cm⟩
  simp only
  exact Sim_pure_ite _ _ _ (violClause_ne_nil _ _ _ _ _) (violClause_ne_nil _ _ _ _ _)

theorem Sim_ruleEq (e : Ext) (r o f o' f' : Bytes) (v : GoVal) (w : Bool) : Sim (ruleEq e r o f v w) (ruleEq e r o' f' v w) := by
  unfold ruleEq
  rcases eqCore r v with ⟨x, u, cm, iseq⟩
  simp only
  sim

theorem Sim_ruleIn (e : Ext) (r o f o' f' : Bytes) (v : GoVal) : Sim (ruleIn e r o f v) (ruleIn e r o' f' v) := by
  unfold ruleIn
  rcases parseValidNameKV r with ⟨k, tv, cm⟩
  simp only
  cases Bytes.indexByte? 40 tv <;> cases lastIndexByte 41 tv <;> simp only
  · exact Sim_gjfe _ _ _ _ _
  · exact Sim_gjfe _ _ _ _ _
  · exact Sim_gjfe _ _ _ _ _
  · refine Sim_ite _ _ _ _ _ (Sim_gjfe _ _ _ _ _) ?_
    refine Sim_bind _ _ _ ?_
    intro inVals
    cases v <;> simp only <;> sim

theorem checkStr_none (o f o' f' : Bytes) (v : GoVal) : (checkFieldIsStr o f v).isNone = (checkFieldIsStr o' f' v).isNone := by
  cases v <;> rfl

theorem Sim_strRule (r o f o' f' : Bytes) (v : GoVal) (ok : Bytes → M Bool) (d d' : Bytes) :
    Sim (strRule r o f v ok d) (strRule r o' f' v ok d') := by
  unfold strRule
  cases v with
  | str s =>
    simp only [checkFieldIsStr]
    refine Sim_bind _ _ _ ?_
    intro b
    rcases parseValidNameKV r with ⟨k, tv, cm⟩
    cases b <;> simp only [Bool.false_eq_true, if_false, if_true]
    · exact Sim_ne _ _ (violClause_ne_nil _ _ _ _ _) (violClause_ne_nil _ _ _ _ _)
    · exact Sim_nil
  | _ => simp only [checkFieldIsStr]; exact Sim_ne _ _ (gjves_ne _ _ _ _) (gjves_ne _ _ _ _)

end PGV.Proofs.Indep

namespace PGV.Proofs.Indep
open PGV PGV.Model PGV.Proofs.Size

theorem Sim_rulePhone (r o f o' f' : Bytes) (v : GoVal) : Sim (rulePhone r o f v) (rulePhone r o' f' v) := Sim_strRule _ _ _ _ _ _ _ _ _
theorem Sim_ruleEmail (r o f o' f' : Bytes) (v : GoVal) : Sim (ruleEmail r o f v) (ruleEmail r o' f' v) := Sim_strRule _ _ _ _ _ _ _ _ _
theorem Sim_ruleIDCard (r o f o' f' : Bytes) (v : GoVal) : Sim (ruleIDCard r o f v) (ruleIDCard r o' f' v) := Sim_strRule _ _ _ _ _ _ _ _ _
theorem Sim_ruleIp (e : Ext) (r o f o' f' : Bytes) (v : GoVal) (w : Nat) : Sim (ruleIp e r o f v w) (ruleIp e r o' f' v w) := Sim_strRule _ _ _ _ _ _ _ _ _
theorem Sim_ruleYear (e : Ext) (r o f o' f' : Bytes) (v : GoVal) : Sim (ruleYear e r o f v) (ruleYear e r o' f' v) := Sim_strRule _ _ _ _ _ _ _ _ _
theorem Sim_ruleYear2Month (e : Ext) (r o f o' f' : Bytes) (v : GoVal) : Sim (ruleYear2Month e r o f v) (ruleYear2Month e r o' f' v) := by
  unfold ruleYear2Month; rcases parseValidNameKV r with ⟨k, tv, cm⟩; exact Sim_strRule _ _ _ _ _ _ _ _ _
theorem Sim_ruleDate (e : Ext) (r o f o' f' : Bytes) (v : GoVal) : Sim (ruleDate e r o f v) (ruleDate e r o' f' v) := by
  unfold ruleDate; rcases parseValidNameKV r with ⟨k, tv, cm⟩; exact Sim_strRule _ _ _ _ _ _ _ _ _
theorem Sim_ruleDatetime (e : Ext) (r o f o' f' : Bytes) (v : GoVal) : Sim (ruleDatetime e r o f v) (ruleDatetime e r o' f' v) := by
  unfold ruleDatetime; rcases parseValidNameKV r with ⟨k, tv, cm⟩; exact Sim_strRule _ _ _ _ _ _ _ _ _
theorem Sim_rulePrefix (r o f o' f' : Bytes) (v : GoVal) (p : Bool) : Sim (rulePrefix r o f v p) (rulePrefix r o' f' v p) := by
  unfold rulePrefix; rcases parseValidNameKV r with ⟨k, tv, cm⟩; exact Sim_strRule _ _ _ _ _ _ _ _ _

theorem Sim_ruleRe (e : Ext) (r o f o' f' : Bytes) (v : GoVal) : Sim (ruleRe e r o f v) (ruleRe e r o' f' v) := by
  unfold ruleRe
  cases v with
  | str s =>
    simp only [checkFieldIsStr]
    cases Bytes.indexByte? QUOTE r with
    | none => exact Sim_gjfe _ _ _ _ _
    | some qi =>
      simp only
      cases reScan (r.drop (qi + 1)) (qi + 1) [] with
      | none => exact Sim_gjfe _ _ _ _ _
      | some p =>
        rcases p with ⟨pat, i⟩
        simp only
        refine Sim_bind _ _ _ fun x => Sim_bind _ _ _ fun y => ?_
        rcases parseValidNameKV (x ++ y) with ⟨k, tv, cm⟩
        sim
  | _ => simp only [checkFieldIsStr]; exact Sim_ne _ _ (gjves_ne _ _ _ _) (gjves_ne _ _ _ _)

theorem Sim_ruleInt (e : Ext) (r o f o' f' : Bytes) (v : GoVal) : Sim (ruleInt e r o f v) (ruleInt e r o' f' v) := by
  unfold ruleInt; rcases parseValidNameKV r with ⟨k, tv, cm⟩; cases v <;> simp only <;> sim
theorem Sim_ruleFloat (e : Ext) (r o f o' f' : Bytes) (v : GoVal) : Sim (ruleFloat e r o f v) (ruleFloat e r o' f' v) := by
  unfold ruleFloat; rcases parseValidNameKV r with ⟨k, tv, cm⟩; cases v <;> simp only <;> sim
theorem Sim_ruleInts (e : Ext) (r o f o' f' : Bytes) (v : GoVal) : Sim (ruleInts e r o f v) (ruleInts e r o' f' v) := by
  unfold ruleInts; rcases parseValidNameKV r with ⟨k, tv, cm⟩; cases v <;> simp only <;> sim
theorem Sim_ruleUnique (e : Ext) (r o f o' f' : Bytes) (v : GoVal) : Sim (ruleUnique e r o f v) (ruleUnique e r o' f' v) := by
  unfold ruleUnique; rcases parseValidNameKV r with ⟨k, tv, cm⟩; cases v <;> simp only <;> sim

theorem Sim_ruleJson (e : Ext) (r o f o' f' : Bytes) (v : GoVal) : Sim (ruleJson e r o f v) (ruleJson e r o' f' v) := by
  unfold ruleJson
  cases v with
  | str s =>
    simp only [checkFieldIsStr]
    refine Sim_bind _ _ _ fun a => ?_
    rcases parseValidNameKV r with ⟨k, tv, cm⟩
    sim
  | _ => simp only [checkFieldIsStr]; exact Sim_ne _ _ (gjves_ne _ _ _ _) (gjves_ne _ _ _ _)

theorem Sim_ruleFileDir (e : Ext) (r o f o' f' : Bytes) (v : GoVal) (w : Bool) : Sim (ruleFileDir e r o f v w) (ruleFileDir e r o' f' v w) := by
  unfold ruleFileDir
  cases v with
  | str s =>
    simp only [checkFieldIsStr]
    refine Sim_bind _ _ _ fun a => ?_
    rcases parseValidNameKV r with ⟨k, tv, cm⟩
    sim
  | _ => simp only [checkFieldIsStr]; exact Sim_ne _ _ (gjves_ne _ _ _ _) (gjves_ne _ _ _ _)

end PGV.Proofs.Indep

namespace PGV.Proofs.Indep
open PGV PGV.Model

/-- every function of the rule table: the verdict is independent of the object / field names -/
theorem Sim_builtinTable : ∀ p ∈ builtinTable, ∀ run, p.2 = .fn run →
    ∀ (e : Ext) (r o f o' f' : Bytes) (v : GoVal), Sim (run e r o f v) (run e r o' f' v) := by
  intro p hp run hrun e r o f o' f' v
  simp only [builtinTable, List.mem_cons, List.not_mem_nil, or_false] at hp
  rcases hp with rfl | rfl | rfl | rfl | rfl | rfl | rfl | rfl | rfl | rfl | rfl | rfl | rfl | rfl | rfl | rfl | rfl
    | rfl | rfl | rfl | rfl | rfl | rfl | rfl | rfl | rfl | rfl | rfl | rfl | rfl | rfl | rfl | rfl | rfl
  · cases hrun
  · cases hrun
  · cases hrun
  · cases hrun
  · injection hrun with hrun; subst hrun; exact Sim_ruleTo _ _ _ _ _ _ _ _
  · injection hrun with hrun; subst hrun; exact Sim_ruleTo _ _ _ _ _ _ _ _
  · injection hrun with hrun; subst hrun; exact Sim_ruleBound _ _ _ _ _ _ _ _
  · injection hrun with hrun; subst hrun; exact Sim_ruleBound _ _ _ _ _ _ _ _
  · injection hrun with hrun; subst hrun; exact Sim_ruleBound _ _ _ _ _ _ _ _
  · injection hrun with hrun; subst hrun; exact Sim_ruleBound _ _ _ _ _ _ _ _
  · injection hrun with hrun; subst hrun; exact Sim_ruleEq _ _ _ _ _ _ _ _
  · injection hrun with hrun; subst hrun; exact Sim_ruleEq _ _ _ _ _ _ _ _
  · injection hrun with hrun; subst hrun; exact Sim_ruleIn _ _ _ _ _ _ _
  · injection hrun with hrun; subst hrun; exact Sim_ruleIn _ _ _ _ _ _ _
  · injection hrun with hrun; subst hrun; exact Sim_rulePhone _ _ _ _ _ _
  · injection hrun with hrun; subst hrun; exact Sim_ruleEmail _ _ _ _ _ _
  · injection hrun with hrun; subst hrun; exact Sim_ruleIDCard _ _ _ _ _ _
  · injection hrun with hrun; subst hrun; exact Sim_ruleYear _ _ _ _ _ _ _
  · injection hrun with hrun; subst hrun; exact Sim_ruleYear2Month _ _ _ _ _ _ _
  · injection hrun with hrun; subst hrun; exact Sim_ruleDate _ _ _ _ _ _ _
  · injection hrun with hrun; subst hrun; exact Sim_ruleDatetime _ _ _ _ _ _ _
  · injection hrun with hrun; subst hrun; exact Sim_ruleInt _ _ _ _ _ _ _
  · injection hrun with hrun; subst hrun; exact Sim_ruleInts _ _ _ _ _ _ _
  · injection hrun with hrun; subst hrun; exact Sim_ruleFloat _ _ _ _ _ _ _
  · injection hrun with hrun; subst hrun; exact Sim_ruleRe _ _ _ _ _ _ _
  · injection hrun with hrun; subst hrun; exact Sim_ruleIp _ _ _ _ _ _ _ _
  · injection hrun with hrun; subst hrun; exact Sim_ruleIp _ _ _ _ _ _ _ _
  · injection hrun with hrun; subst hrun; exact Sim_ruleIp _ _ _ _ _ _ _ _
  · injection hrun with hrun; subst hrun; exact Sim_ruleUnique _ _ _ _ _ _ _
  · injection hrun with hrun; subst hrun; exact Sim_ruleJson _ _ _ _ _ _ _
  · injection hrun with hrun; subst hrun; exact Sim_rulePrefix _ _ _ _ _ _ _
  · injection hrun with hrun; subst hrun; exact Sim_rulePrefix _ _ _ _ _ _ _
  · injection hrun with hrun; subst hrun; exact Sim_ruleFileDir _ _ _ _ _ _ _ _
  · injection hrun with hrun; subst hrun; exact Sim_ruleFileDir _ _ _ _ _ _ _ _

end PGV.Proofs.Indep
