import PGV.Spec.Lang
import PGV.Proofs.RuleText
import PGV.Proofs.EmailEq
import PGV.Proofs.Size
import PGV.Proofs.Total

/-! The model's rule functions decide, on strings, what `Spec.Lang.accepts` says — for rule texts of
the documented shape `key[=arg][|message]`. -/

namespace PGV.Proofs.Accepts
open PGV PGV.Model PGV.Spec PGV.Spec.Lang PGV.Proofs.RuleText PGV.Proofs.EmailEq

/-- shape conditions: the key has no `=` / `|`, the argument no `|` -/
structure Shape (key arg : Bytes) : Prop where
  keyEq : EQ ∉ key
  keyBar : BAR ∉ key
  argBar : BAR ∉ arg

theorem parse_mkText (key arg msg : Bytes) (h : Shape key arg) :
    parseValidNameKV (mkText key arg msg) = (key, arg, if msg.isEmpty then [] else labelMsg msg) := by
  unfold mkText
  cases arg with
  | nil =>
    cases msg with
    | nil => simpa using parse_key key h.keyEq h.keyBar
    | cons m ms => simpa using parse_key_msg key (m :: ms) h.keyEq h.keyBar (by simp)
  | cons a as =>
    cases msg with
    | nil => simpa using parse_key_val key (a :: as) h.keyEq h.keyBar h.argBar
    | cons m ms =>
      have := parse_key_val_msg key (a :: as) (m :: ms) h.keyEq h.keyBar h.argBar (by simp)
      simpa using this

theorem upTo_not_mem (c : UInt8) (x : Bytes) (h : c ∉ x) : upTo c x = x ∧ behind c x = [] := by
  have hall : x.all (· != c) = true := by
    rw [List.all_eq_true]; intro a ha
    simp only [bne_iff_ne, ne_eq]; intro e; subst e; exact h ha
  have := PGV.Proofs.LangEq.takeWhile_drop' (· != c) x
  have t : x.takeWhile (· != c) = x := by
    induction x with
    | nil => rfl
    | cons a r ih =>
      simp only [List.all_cons, Bool.and_eq_true] at hall
      simp only [List.takeWhile_cons, hall.1, if_true]
      rw [ih (fun hm => h (List.mem_cons_of_mem _ hm)) hall.2 List.takeWhile_append_dropWhile]
  have d : x.dropWhile (· != c) = [] := by
    rw [t] at this
    simpa using this
  exact ⟨t, by simp [behind, d]⟩

theorem upTo_split (c : UInt8) (x y : Bytes) (h : c ∉ x) : upTo c (x ++ c :: y) = x ∧ behind c (x ++ c :: y) = y := by
  induction x with
  | nil => simp [upTo, behind]
  | cons a r ih =>
    have ha : (a != c) = true := by
      simp only [bne_iff_ne, ne_eq]; intro e; subst e; exact h (by simp)
    obtain ⟨i1, i2⟩ := ih (fun hm => h (List.mem_cons_of_mem _ hm))
    unfold upTo behind at *
    simp [ha, i1, i2]

theorem ruleParts_mkText (key arg msg : Bytes) (h : Shape key arg) :
    ruleParts (mkText key arg msg) = (key, arg) := by
  have hbe : BAR ≠ EQ := by decide
  have hx : BAR ∉ key ++ (if arg.isEmpty then [] else EQ :: arg) := by
    intro hm
    rcases List.mem_append.mp hm with h1 | h1
    · exact h.keyBar h1
    · cases arg with
      | nil => simp at h1
      | cons a as =>
        simp only [List.isEmpty_cons, Bool.false_eq_true, if_false] at h1
        rcases List.mem_cons.mp h1 with h2 | h2
        · exact hbe h2
        · exact h.argBar h2
  have hbody : upTo BAR (mkText key arg msg) = key ++ (if arg.isEmpty then [] else EQ :: arg) := by
    unfold mkText
    cases msg with
    | nil => simpa using (upTo_not_mem BAR _ hx).1
    | cons m ms => simpa using (upTo_split BAR _ (m :: ms) hx).1
  unfold ruleParts
  simp only [hbody]
  cases arg with
  | nil =>
    simp only [List.isEmpty_nil, if_true, List.append_nil]
    obtain ⟨e1, e2⟩ := upTo_not_mem EQ key h.keyEq
    exact Prod.ext e1 e2
  | cons a as =>
    simp only [List.isEmpty_cons, Bool.false_eq_true, if_false]
    obtain ⟨e1, e2⟩ := upTo_split EQ key (a :: as) h.keyEq
    exact Prod.ext e1 e2


/-- the rule function wrote a clause exactly when the spec's verdict is "outside the language" -/
def Verdict (res : M Bytes) (b : Bool) : Prop := ∃ out, res = .ok out ∧ (out ≠ [] ↔ b = false)

theorem verdict_ite (c b : Bool) (clause : Bytes) (hne : clause ≠ []) (h : c = b) :
    Verdict (if c = true then pure [] else pure clause) b := by
  subst h
  cases c with
  | true => exact ⟨[], rfl, by simp⟩
  | false => exact ⟨clause, rfl, by simp [hne]⟩

theorem strRule_verdict (text obj field s dflt : Bytes) (p : Bytes → Bool) (b : Bool) (h : p s = b) :
    Verdict (strRule text obj field (.str s) (fun s => pure (p s)) dflt) b := by
  simp only [strRule, checkFieldIsStr, bind, Except.bind, pure, Except.pure]
  subst h
  cases h : p s with
  | true => exact ⟨[], by simp, by simp⟩
  | false =>
    simp only [Bool.false_eq_true, if_false]
    exact ⟨_, rfl, by simp [PGV.Proofs.Size.violClause_ne_nil]⟩

section
variable (ext : Ext) (obj field s arg msg : Bytes) (b : Bool)

theorem sound_phone (hs : Shape (b! "phone") arg) (h : accepts (mkText (b! "phone") arg msg) s = some b) :
    ∃ run, builtin (b! "phone") = some (.fn run) ∧ Verdict (run ext (mkText (b! "phone") arg msg) obj field (.str s)) b := by
  refine ⟨_, rfl, ?_⟩
  unfold accepts at h; rw [ruleParts_mkText _ arg msg hs] at h
  simp only [beq_self_eq_true, if_true, Option.some.injEq] at h
  exact strRule_verdict _ obj field s _ Lang.phoneRe b (by rw [← h]; exact (PGV.Proofs.LangEq.phone_eq s))

theorem sound_email (hs : Shape (b! "email") arg) (h : accepts (mkText (b! "email") arg msg) s = some b) :
    ∃ run, builtin (b! "email") = some (.fn run) ∧ Verdict (run ext (mkText (b! "email") arg msg) obj field (.str s)) b := by
  refine ⟨_, rfl, ?_⟩
  unfold accepts at h; rw [ruleParts_mkText _ arg msg hs] at h
  simp (decide := true) only [if_true, if_false, Bool.false_eq_true, Option.some.injEq] at h
  exact strRule_verdict _ obj field s _ Lang.emailRe b (by rw [← h]; exact email_eq s)

theorem sound_idcard (hs : Shape (b! "idcard") arg) (h : accepts (mkText (b! "idcard") arg msg) s = some b) :
    ∃ run, builtin (b! "idcard") = some (.fn run) ∧ Verdict (run ext (mkText (b! "idcard") arg msg) obj field (.str s)) b := by
  refine ⟨_, rfl, ?_⟩
  unfold accepts at h; rw [ruleParts_mkText _ arg msg hs] at h
  simp (decide := true) only [if_true, if_false, Bool.false_eq_true, Option.some.injEq] at h
  exact strRule_verdict _ obj field s _ Lang.idCardRe b (by rw [← h]; exact PGV.Proofs.LangEq.idcard_eq s)

theorem sound_int (hs : Shape (b! "int") arg) (h : accepts (mkText (b! "int") arg msg) s = some b) :
    ∃ run, builtin (b! "int") = some (.fn run) ∧ Verdict (run ext (mkText (b! "int") arg msg) obj field (.str s)) b := by
  refine ⟨_, rfl, ?_⟩
  unfold accepts at h; rw [ruleParts_mkText _ arg msg hs] at h
  simp (decide := true) only [if_true, if_false, Bool.false_eq_true, Option.some.injEq] at h
  simp only [ruleInt, bind, Except.bind, pure, Except.pure]
  exact verdict_ite _ b _ (PGV.Proofs.Size.violClause_ne_nil _ _ _ _ _) (by rw [← h]; exact PGV.Proofs.LangEq.int_eq s)

theorem sound_float (hs : Shape (b! "float") arg) (h : accepts (mkText (b! "float") arg msg) s = some b) :
    ∃ run, builtin (b! "float") = some (.fn run) ∧ Verdict (run ext (mkText (b! "float") arg msg) obj field (.str s)) b := by
  refine ⟨_, rfl, ?_⟩
  unfold accepts at h; rw [ruleParts_mkText _ arg msg hs] at h
  simp (decide := true) only [if_true, if_false, Bool.false_eq_true, Option.some.injEq] at h
  simp only [ruleFloat, bind, Except.bind, pure, Except.pure]
  exact verdict_ite _ b _ (PGV.Proofs.Size.violClause_ne_nil _ _ _ _ _) (by rw [← h]; exact PGV.Proofs.LangEq.float_eq s)

theorem allDistinct_eq_distinct (l : List Bytes) : allDistinct l = distinct l := by
  induction l with
  | nil => rfl
  | cons x xs ih => simp [allDistinct, distinct, ih]

theorem sound_unique (hs : Shape (b! "unique") arg) (h : accepts (mkText (b! "unique") arg msg) s = some b) :
    ∃ run, builtin (b! "unique") = some (.fn run) ∧ Verdict (run ext (mkText (b! "unique") arg msg) obj field (.str s)) b := by
  refine ⟨_, rfl, ?_⟩
  unfold accepts at h; rw [ruleParts_mkText _ arg msg hs] at h
  simp (decide := true) only [if_true, if_false, Bool.false_eq_true, Option.some.injEq] at h
  simp only [ruleUnique, bind, Except.bind, pure, Except.pure]
  exact verdict_ite _ b _ (PGV.Proofs.Size.violClause_ne_nil _ _ _ _ _) (by rw [← h]; exact allDistinct_eq_distinct _)

theorem sound_prefix (hs : Shape (b! "prefix") arg) (h : accepts (mkText (b! "prefix") arg msg) s = some b) :
    ∃ run, builtin (b! "prefix") = some (.fn run) ∧ Verdict (run ext (mkText (b! "prefix") arg msg) obj field (.str s)) b := by
  refine ⟨_, rfl, ?_⟩
  unfold accepts at h; rw [ruleParts_mkText _ arg msg hs] at h
  simp (decide := true) only [if_true, if_false, Bool.false_eq_true, Option.some.injEq] at h
  simp only [rulePrefix, parse_mkText _ arg msg hs]
  exact strRule_verdict _ obj field s _ (fun s => Bytes.hasPrefix s arg) b (by rw [← h]; rfl)

theorem sound_suffix (hs : Shape (b! "suffix") arg) (h : accepts (mkText (b! "suffix") arg msg) s = some b) :
    ∃ run, builtin (b! "suffix") = some (.fn run) ∧ Verdict (run ext (mkText (b! "suffix") arg msg) obj field (.str s)) b := by
  refine ⟨_, rfl, ?_⟩
  unfold accepts at h; rw [ruleParts_mkText _ arg msg hs] at h
  simp (decide := true) only [if_true, if_false, Bool.false_eq_true, Option.some.injEq] at h
  simp only [rulePrefix, parse_mkText _ arg msg hs]
  exact strRule_verdict _ obj field s _ (fun s => Bytes.hasSuffix s arg) b (by rw [← h]; rfl)

theorem split_eq_pieces (x : Bytes) (hne : ∀ p ∈ pieces 47 false x, p ≠ []) :
    validNamesSplit x 47 = pieces 47 false x := by
  have hx : x ≠ [] := by
    intro e; subst e
    exact hne [] (by simp [pieces]) rfl
  have hx' : x.isEmpty = false := by simpa using hx
  unfold validNamesSplit
  simp only [hx', Bool.false_eq_true, if_false]
  by_cases hq : Bytes.hasByte x QUOTE = true
  · simp only [hq, Bool.not_true, Bool.false_eq_true, if_false]
    rcases splitSlow_eq 47 (by decide) x with e | e
    · exact e
    · rw [e, dropLastEmpty_of_last_ne _ hne]
  · have hq' : Bytes.hasByte x QUOTE = false := by simpa using hq
    simp only [hq', Bool.not_false, if_true]
    exact (pieces_eq_splitByte 47 x (hasByte_eq_false.mp hq')).symm

theorem contains_eq_any (l : List Bytes) (a : Bytes) : l.contains a = l.any (fun o => a == o) := by
  induction l with
  | nil => rfl
  | cons x xs ih =>
    simp only [List.contains, List.elem_cons, List.any_cons] at ih ⊢
    rw [ih]
    cases a == x <;> rfl

/-- what both sides compute once the brackets are found -/
theorem in_core (arg : Bytes) (l r : Nat)
    (hl : Bytes.indexByte? 40 arg = some l) (hr : Bytes.lastIndexByte? 41 arg = some r) (hlr : ¬ r < l) :
    sliceM arg (l + 1) r = pure ((arg.take r).drop (l + 1)) := by
  have hl' := PGV.Proofs.Total.indexByte?_spec 40 arg l hl
  have hr' := PGV.Proofs.Total.lastIndexByte?_spec 41 arg r hr
  have hne : l ≠ r := by
    intro e; subst e
    have h1 := hl'.2; have h2 := hr'.2
    rw [h1] at h2; simp at h2
  unfold sliceM Bytes.slice?
  have : l + 1 ≤ r ∧ r ≤ arg.length := by omega
  simp [this]

/-! ### `strings.Split` with a counter of bytes still to skip = the direct recursion -/

theorem splitOnSep_ne_nil (sep : Bytes) (fuel : Nat) (x : Bytes) : splitOnSep sep fuel x ≠ [] := by
  cases fuel with
  | zero => simp [splitOnSep]
  | succ f =>
    cases x with
    | nil => simp [splitOnSep]
    | cons c t =>
      rw [splitOnSep]
      split
      · simp
      · split <;> simp

theorem go_skip (sep : Bytes) (x cur : Bytes) (k : Nat) :
    splitOn.go sep x cur k = splitOn.go sep (x.drop k) cur 0 := by
  induction x generalizing k with
  | nil => cases k <;> simp [splitOn.go]
  | cons c t ih =>
    cases k with
    | zero => rfl
    | succ k => rw [splitOn.go, ih k]; rfl

theorem go_eq (sep : Bytes) : ∀ (fuel : Nat) (x cur : Bytes), x.length ≤ fuel →
    splitOn.go sep x cur 0 = prependHead cur.reverse (splitOnSep sep fuel x) := by
  intro fuel
  induction fuel with
  | zero =>
    intro x cur hl
    have : x = [] := by cases x <;> simp_all
    subst this
    simp [splitOn.go, splitOnSep, prependHead]
  | succ f ih =>
    intro x cur hl
    cases x with
    | nil => simp [splitOn.go, splitOnSep, prependHead]
    | cons c t =>
      rw [splitOn.go, splitOnSep]
      by_cases hp : (!sep.isEmpty && sep.isPrefixOf (c :: t)) = true
      · simp only [hp, if_true]
        rw [go_skip, ih _ [] (by simp only [List.length_drop, List.length_cons] at hl ⊢; omega)]
        have hlen : 1 ≤ sep.length := by
          cases sep with
          | nil => simp at hp
          | cons _ _ => simp
        have hd : (c :: t).drop sep.length = t.drop (sep.length - 1) := by
          cases hs : sep.length with
          | zero => omega
          | succ n => simp
        rw [hd]
        have e : ([] : Bytes).reverse = [] := rfl
        rw [e, prependHead_nil _ (splitOnSep_ne_nil sep f _)]
        simp [prependHead]
      · have hp' : (!sep.isEmpty && sep.isPrefixOf (c :: t)) = false := by
          cases hh : (!sep.isEmpty && sep.isPrefixOf (c :: t)) with
          | false => rfl
          | true => exact absurd hh hp
        simp only [hp', Bool.false_eq_true, if_false]
        rw [ih t (c :: cur) (by simp only [List.length_cons] at hl; omega)]
        cases hs : splitOnSep sep f t with
        | nil => exact absurd hs (splitOnSep_ne_nil sep f t)
        | cons p ps => simp [prependHead]

theorem splitOn_eq (sep x : Bytes) : splitOn sep x = splitOnSep sep (x.length + 1) x := by
  unfold splitOn
  rw [go_eq sep (x.length + 1) x [] (by omega)]
  simp [prependHead_nil _ (splitOnSep_ne_nil sep _ x)]

theorem sound_ints (hs : Shape (b! "ints") arg) (h : accepts (mkText (b! "ints") arg msg) s = some b) :
    ∃ run, builtin (b! "ints") = some (.fn run) ∧ Verdict (run ext (mkText (b! "ints") arg msg) obj field (.str s)) b := by
  refine ⟨_, rfl, ?_⟩
  unfold accepts at h; rw [ruleParts_mkText _ arg msg hs] at h
  simp (decide := true) only [if_true, if_false, Bool.false_eq_true, Option.some.injEq] at h
  simp only [ruleInts, parse_mkText _ arg msg hs, bind, Except.bind, pure, Except.pure]
  refine verdict_ite _ b _ (PGV.Proofs.Size.violClause_ne_nil _ _ _ _ _) ?_
  rw [← h, splitOn_eq]
  have : Lang.intRe = Spec.Lang.int := funext PGV.Proofs.LangEq.int_eq
  rw [this]
  rfl

/-- `in` and `include` on a string, for a key `k` with `isInclude = (k == "include")` -/
theorem in_verdict (text key arg cus : Bytes) (hp : parseValidNameKV text = (key, arg, cus)) (os : List Bytes)
    (ho : options arg = some os) :
    Verdict (ruleIn ext text obj field (.str s))
      (if key == b! "include" then os.any (fun o => Bytes.containsSub s o) else os.contains s) := by
  unfold options at ho
  unfold ruleIn
  rw [hp]
  simp only [lastIndexByte]
  cases hl : Bytes.indexByte? 40 arg with
  | none => simp [hl] at ho
  | some l =>
    cases hr : Bytes.lastIndexByte? 41 arg with
    | none => simp [hl, hr] at ho
    | some r =>
      simp only [hl, hr] at ho ⊢
      by_cases hlt : r < l
      · simp [hlt] at ho
      · simp only [hlt, if_false] at ho ⊢
        by_cases hemp : (pieces 47 false ((arg.take r).drop (l + 1))).any (·.isEmpty) = true
        · simp [hemp] at ho
        · simp only [hemp, Bool.false_eq_true, if_false, Option.some.injEq] at ho
          have hne : ∀ p ∈ pieces 47 false ((arg.take r).drop (l + 1)), p ≠ [] := by
            intro p hp' e; subst e
            exact hemp (List.any_eq_true.mpr ⟨[], hp', rfl⟩)
          rw [in_core arg l r hl hr hlt]
          simp only [bind, Except.bind, pure, Except.pure]
          rw [split_eq_pieces _ hne, ho]
          by_cases hinc : (key == b! "include") = true
          · simp only [hinc, if_true]
            exact verdict_ite _ _ _ (PGV.Proofs.Size.violClause_ne_nil _ _ _ _ _) rfl
          · have hinc' : (key == b! "include") = false := by simpa using hinc
            simp only [hinc', Bool.false_eq_true, if_false]
            exact verdict_ite _ _ _ (PGV.Proofs.Size.violClause_ne_nil _ _ _ _ _) (contains_eq_any os s).symm

/-- `in` on a number or a bool: the value is compared through its canonical rendering (`ToStr`:
decimal integers, shortest round-trip floats, `true` / `false`) -/
theorem in_verdict_scalar (text key arg cus : Bytes) (hp : parseValidNameKV text = (key, arg, cus))
    (hk : (key == b! "include") = false) (os : List Bytes) (ho : options arg = some os)
    (tv : GoVal) (t : Bytes) (hts : tv.toStr = some t) :
    Verdict (ruleIn ext text obj field tv) (os.contains t) := by
  unfold options at ho
  cases hl : Bytes.indexByte? 40 arg with
  | none => simp [hl] at ho
  | some l =>
    cases hr : Bytes.lastIndexByte? 41 arg with
    | none => simp [hl, hr] at ho
    | some r =>
      simp only [hl, hr] at ho
      by_cases hlt : r < l
      · simp [hlt] at ho
      · simp only [hlt, if_false] at ho
        by_cases hemp : (pieces 47 false ((arg.take r).drop (l + 1))).any (·.isEmpty) = true
        · simp [hemp] at ho
        · simp only [hemp, Bool.false_eq_true, if_false, Option.some.injEq] at ho
          have hne : ∀ p ∈ pieces 47 false ((arg.take r).drop (l + 1)), p ≠ [] := by
            intro p hp' e; subst e
            exact hemp (List.any_eq_true.mpr ⟨[], hp', rfl⟩)
          have hfin : Verdict
              (if ((List.map (Bytes.trimByte QUOTE) (validNamesSplit ((arg.take r).drop (l + 1)) 47)).any fun o => t == o) = true
                then (pure [] : M Bytes)
                else pure (violClause obj field t cus [b! "it should " ++ key ++ b! " (" ++ (arg.take r).drop (l + 1) ++ b! ")"]))
              (os.contains t) := by
            rw [split_eq_pieces _ hne, ho]
            exact verdict_ite _ _ _ (PGV.Proofs.Size.violClause_ne_nil _ _ _ _ _) (contains_eq_any os t).symm
          cases tv <;> simp only [GoVal.toStr, Option.some.injEq] at hts <;> try (exact absurd hts (by simp))
          all_goals
            subst hts
            unfold ruleIn
            rw [hp]
            simp only [lastIndexByte, hl, hr, hlt, if_false, in_core arg l r hl hr hlt, hk, Bool.false_eq_true,
              bind, Except.bind, pure, Except.pure, toStrIface, toStrDyn, GoVal.toStr]
            exact hfin

theorem sound_in (hs : Shape (b! "in") arg) (h : accepts (mkText (b! "in") arg msg) s = some b) :
    ∃ run, builtin (b! "in") = some (.fn run) ∧ Verdict (run ext (mkText (b! "in") arg msg) obj field (.str s)) b := by
  refine ⟨_, rfl, ?_⟩
  unfold accepts at h; rw [ruleParts_mkText _ arg msg hs] at h
  simp (decide := true) only [if_true, if_false, Bool.false_eq_true] at h
  cases ho : options arg with
  | none => simp [ho] at h
  | some os =>
    simp only [ho, Option.map_some, Option.some.injEq] at h
    have := in_verdict ext obj field s _ _ arg _ (parse_mkText _ arg msg hs) os ho
    simp (decide := true) only [if_false, Bool.false_eq_true] at this
    rw [h] at this
    exact this

theorem sound_include (hs : Shape (b! "include") arg) (h : accepts (mkText (b! "include") arg msg) s = some b) :
    ∃ run, builtin (b! "include") = some (.fn run) ∧ Verdict (run ext (mkText (b! "include") arg msg) obj field (.str s)) b := by
  refine ⟨_, rfl, ?_⟩
  unfold accepts at h; rw [ruleParts_mkText _ arg msg hs] at h
  simp (decide := true) only [if_true, if_false, Bool.false_eq_true] at h
  cases ho : options arg with
  | none => simp [ho] at h
  | some os =>
    simp only [ho, Option.map_some, Option.some.injEq] at h
    have := in_verdict ext obj field s _ _ arg _ (parse_mkText _ arg msg hs) os ho
    simp (decide := true) only [if_true] at this
    rw [h] at this
    exact this

theorem toStrIface_scalar (tv : GoVal) (t : Bytes) (h : tv.toStr = some t) : toStrIface ext tv = pure t := by
  cases tv <;> simp_all [GoVal.toStr, toStrIface, toStrDyn]

theorem mapM_toStr (l : List GoVal) (ts : List Bytes) (h : l.mapM GoVal.toStr = some ts) :
    l.mapM (toStrIface ext) = pure ts := by
  induction l generalizing ts with
  | nil => simp at h; subst h; rfl
  | cons a r ih =>
    rw [List.mapM_cons] at h ⊢
    cases ha : a.toStr with
    | none => simp [ha] at h
    | some t =>
      cases hr : r.mapM GoVal.toStr with
      | none => simp [ha, hr] at h
      | some rest =>
        simp [ha, hr] at h
        subst h
        rw [toStrIface_scalar ext a t ha, ih rest hr]
        rfl

/-- `unique` on a slice or array of scalars: violated exactly when two renderings coincide -/
theorem unique_verdict_slice (text : Bytes) (tstr elemT : Bytes) (isNil : Bool) (es : GoVals) (ts : List Bytes)
    (h : es.toList.mapM GoVal.toStr = some ts) :
    Verdict (ruleUnique ext text obj field (.slice tstr elemT isNil es)) (distinct ts) := by
  simp only [ruleUnique, mapM_toStr ext _ ts h, bind, Except.bind, pure, Except.pure]
  exact verdict_ite _ _ _ (PGV.Proofs.Size.violClause_ne_nil _ _ _ _ _) (allDistinct_eq_distinct ts)

/-- `ints` on a slice or array of scalars: violated exactly when some rendering is not all digits -/
theorem ints_verdict_slice (text : Bytes) (tstr elemT : Bytes) (isNil : Bool) (es : GoVals) (ts : List Bytes)
    (h : es.toList.mapM GoVal.toStr = some ts) :
    Verdict (ruleInts ext text obj field (.slice tstr elemT isNil es)) (ts.all Spec.Lang.int) := by
  simp only [ruleInts, mapM_toStr ext _ ts h, bind, Except.bind, pure, Except.pure]
  rcases parseValidNameKV text with ⟨k, a, m⟩
  simp only
  have : Lang.intRe = Spec.Lang.int := funext PGV.Proofs.LangEq.int_eq
  exact verdict_ite _ _ _ (PGV.Proofs.Size.violClause_ne_nil _ _ _ _ _) (by rw [this])

end
end PGV.Proofs.Accepts
