import PGV.Spec.RuleText

/-!
# Helper lemmas for C14 (rule-text layer)

* `pieces` / `consHead` / `prependHead` algebra
* fast path: `pieces = splitByte` on quote-free text
* slow path: loop invariant relating the `splitStep` fold to `pieces`
* `join` of `pieces`
* glued items (quote-balanced, separators only inside quotes)
* `indexByte?` over appends, `parseValidNameKV ∘ genValidKV`
-/

namespace PGV.Proofs.RuleText

open PGV PGV.Model PGV.Spec

/-! ## basic list algebra -/

/-- glue bytes in front of the first piece -/
def prependHead (t : Bytes) : List Bytes → List Bytes
  | [] => [t]
  | p :: ps => (t ++ p) :: ps

theorem consHead_ne_nil (c : UInt8) (l : List Bytes) : consHead c l ≠ [] := by
  cases l <;> simp [consHead]

theorem prependHead_ne_nil (t : Bytes) (l : List Bytes) : prependHead t l ≠ [] := by
  cases l <;> simp [prependHead]

theorem pieces_ne_nil (sep : UInt8) (b : Bool) (s : Bytes) : pieces sep b s ≠ [] := by
  induction s generalizing b with
  | nil => simp [pieces]
  | cons c t ih =>
    cases b
    · simp only [pieces]
      split
      · exact consHead_ne_nil _ _
      · split
        · simp
        · exact consHead_ne_nil _ _
    · simp only [pieces]
      split <;> exact consHead_ne_nil _ _

theorem prependHead_nil (l : List Bytes) (h : l ≠ []) : prependHead [] l = l := by
  cases l with
  | nil => exact absurd rfl h
  | cons p ps => simp [prependHead]

theorem prependHead_snoc_consHead (t : Bytes) (c : UInt8) (l : List Bytes) :
    prependHead (t ++ [c]) l = prependHead t (consHead c l) := by
  cases l <;> simp [prependHead, consHead]

theorem prependHead_append (x y : Bytes) (l : List Bytes) :
    prependHead x (prependHead y l) = prependHead (x ++ y) l := by
  cases l <;> simp [prependHead]

theorem consHead_eq_prependHead (c : UInt8) (l : List Bytes) :
    consHead c l = prependHead [c] l := by
  cases l <;> simp [prependHead, consHead]

/-! ## `pieces` one-step equations in propositional form -/

theorem pieces_nil (sep : UInt8) (b : Bool) : pieces sep b [] = [[]] := by
  cases b <;> rfl

theorem pieces_false_quote (sep : UInt8) (t : Bytes) :
    pieces sep false (QUOTE :: t) = consHead QUOTE (pieces sep true t) := by
  simp [pieces]

theorem pieces_false_sep (sep : UInt8) (h : sep ≠ QUOTE) (t : Bytes) :
    pieces sep false (sep :: t) = [] :: pieces sep false t := by
  simp [pieces, h]

theorem pieces_false_other (sep c : UInt8) (h1 : c ≠ QUOTE) (h2 : c ≠ sep) (t : Bytes) :
    pieces sep false (c :: t) = consHead c (pieces sep false t) := by
  simp [pieces, h1, h2]

theorem pieces_true_quote (sep : UInt8) (t : Bytes) :
    pieces sep true (QUOTE :: t) = consHead QUOTE (pieces sep false t) := by
  simp [pieces]

theorem pieces_true_other (sep c : UInt8) (h1 : c ≠ QUOTE) (t : Bytes) :
    pieces sep true (c :: t) = consHead c (pieces sep true t) := by
  simp [pieces, h1]

/-! ## fast path -/

theorem hasByte_eq_false {s : Bytes} {c : UInt8} : Bytes.hasByte s c = false ↔ c ∉ s := by
  simp only [Bytes.hasByte, List.any_eq_false, beq_iff_eq]
  constructor
  · intro h hc; exact h c hc rfl
  · intro h x hx hxc; exact h (hxc ▸ hx)

theorem noByte_eq_true {s : Bytes} {c : UInt8} : noByte c s = true ↔ c ∉ s := by
  simp only [noByte, Bool.not_eq_true', hasByte_eq_false]

theorem pieces_eq_splitByte (sep : UInt8) (s : Bytes) (h : QUOTE ∉ s) :
    pieces sep false s = Bytes.splitByte sep s := by
  induction s with
  | nil => rfl
  | cons c t ih =>
    have hc : c ≠ QUOTE := fun e => h (by simp [e])
    have ht : QUOTE ∉ t := fun e => h (by simp [e])
    have ih := ih ht
    by_cases hs : c = sep
    · subst hs
      simp [pieces, Bytes.splitByte, hc, ih]
    · simp only [pieces, Bytes.splitByte, beq_iff_eq, hc, hs, if_false, ih]
      cases Bytes.splitByte sep t <;> simp [consHead]

/-! ## slow path: stack invariant -/

/-- the stack holds exactly one quote when inside quotes, nothing otherwise -/
def StackInv (st : SplitSt) : Prop := st.stack = if st.inQ then [QUOTE] else []

theorem stackInv_init : StackInv {} := by simp [StackInv]

theorem stackInv_step (sep : UInt8) (st : SplitSt) (v : UInt8) (h : StackInv st) :
    StackInv (splitStep sep st v) := by
  obtain ⟨tmp, res, inQ, stack⟩ := st
  dsimp only [StackInv] at h
  cases inQ <;> simp only [Bool.false_eq_true, if_true, if_false] at h <;> subst h
  · by_cases hv : v = QUOTE
    · simp [splitStep, StackInv, hv]
    · simp only [splitStep, StackInv]
      split
      · simp_all
      · split
        · simp_all
        · split <;> simp
  · by_cases hv : v = QUOTE
    · simp [splitStep, StackInv, hv, stackLast, stackPop]
    · have hv' : ¬ QUOTE = v := fun e => hv e.symm
      simp [splitStep, StackInv, hv', stackLast]

theorem stackInv_fold (sep : UInt8) (s : Bytes) (st : SplitSt) (h : StackInv st) :
    StackInv (s.foldl (splitStep sep) st) := by
  induction s generalizing st with
  | nil => simpa using h
  | cons v t ih => simp only [List.foldl_cons]; exact ih _ (stackInv_step sep st v h)

/-! ## slow path: loop invariant in terms of `pieces` -/

theorem step_pieces (sep : UInt8) (hsep : sep ≠ QUOTE) (st : SplitSt) (v : UInt8) (t : Bytes)
    (h : StackInv st) :
    (splitStep sep st v).res
        ++ prependHead (splitStep sep st v).tmp (pieces sep (splitStep sep st v).inQ t)
      = st.res ++ prependHead st.tmp (pieces sep st.inQ (v :: t)) := by
  obtain ⟨tmp, res, inQ, stack⟩ := st
  dsimp only [StackInv] at h
  have hsep' : ¬ QUOTE = sep := fun e => hsep e.symm
  cases inQ <;> simp only [Bool.false_eq_true, if_true, if_false] at h <;> subst h
  · by_cases hv : v = QUOTE
    · subst hv
      simp [splitStep, hsep', pieces, prependHead_snoc_consHead]
    · by_cases hs : v = sep
      · subst hs
        have hne := pieces_ne_nil v false t
        rw [pieces_false_sep v hsep]
        simp [splitStep, hv, prependHead_nil _ hne]
        simp [prependHead]
      · simp [splitStep, hv, hs, pieces, prependHead_snoc_consHead]
  · by_cases hv : v = QUOTE
    · subst hv
      simp [splitStep, stackLast, stackPop, pieces, prependHead_snoc_consHead]
    · have hv' : ¬ QUOTE = v := fun e => hv e.symm
      simp [splitStep, stackLast, hv, hv', pieces, prependHead_snoc_consHead]

theorem fold_pieces (sep : UInt8) (hsep : sep ≠ QUOTE) (rest : Bytes) (st : SplitSt)
    (h : StackInv st) :
    (rest.foldl (splitStep sep) st).res ++ [(rest.foldl (splitStep sep) st).tmp]
      = st.res ++ prependHead st.tmp (pieces sep st.inQ rest) := by
  induction rest generalizing st with
  | nil => simp [pieces_nil, prependHead]
  | cons v t ih =>
    simp only [List.foldl_cons]
    rw [ih _ (stackInv_step sep st v h)]
    exact step_pieces sep hsep st v t h

theorem fold_pieces_init (sep : UInt8) (hsep : sep ≠ QUOTE) (s : Bytes) :
    (s.foldl (splitStep sep) {}).res ++ [(s.foldl (splitStep sep) {}).tmp]
      = pieces sep false s := by
  have := fold_pieces sep hsep s {} stackInv_init
  simpa [prependHead_nil _ (pieces_ne_nil sep false s)] using this

theorem dropLastEmpty_snoc_nil (l : List Bytes) : dropLastEmpty (l ++ [[]]) = l := by
  simp [dropLastEmpty]

theorem dropLastEmpty_of_last_ne (l : List Bytes) (h : ∀ x ∈ l, x ≠ []) :
    dropLastEmpty l = l := by
  unfold dropLastEmpty
  split
  · rename_i heq
    exact absurd rfl (h [] (List.mem_of_getLast? heq))
  · rfl

/-- the slow path returns the quote-aware pieces, minus the last one exactly when it is empty -/
theorem splitSlow_eq (sep : UInt8) (hsep : sep ≠ QUOTE) (s : Bytes) :
    splitSlow sep s = pieces sep false s ∨ splitSlow sep s = dropLastEmpty (pieces sep false s) := by
  have h := fold_pieces_init sep hsep s
  unfold splitSlow
  generalize s.foldl (splitStep sep) {} = st at h
  simp only
  by_cases he : st.tmp = []
  · right
    rw [← h, he]
    simp [dropLastEmpty_snoc_nil]
  · left
    simp [he, h]

/-! ## `join` -/

theorem join_cons_of_ne_nil (sep : Bytes) (a : Bytes) (l : List Bytes) (h : l ≠ []) :
    Bytes.join sep (a :: l) = a ++ sep ++ Bytes.join sep l := by
  cases l with
  | nil => exact absurd rfl h
  | cons x l => simp [Bytes.join]

theorem join_consHead (sep : Bytes) (c : UInt8) (l : List Bytes) :
    Bytes.join sep (consHead c l) = c :: Bytes.join sep l := by
  match l with
  | [] => simp [consHead, Bytes.join]
  | [a] => simp [consHead, Bytes.join]
  | a :: x :: l => simp [consHead, Bytes.join]

theorem join_pieces (sep : UInt8) (b : Bool) (s : Bytes) :
    Bytes.join [sep] (pieces sep b s) = s := by
  induction s generalizing b with
  | nil => simp [pieces_nil, Bytes.join]
  | cons c t ih =>
    cases b
    · simp only [pieces]
      split
      · rw [join_consHead, ih]
      · split
        · rename_i hs
          rw [join_cons_of_ne_nil _ _ _ (pieces_ne_nil _ _ _), ih]
          simp at hs
          simp [hs]
        · rw [join_consHead, ih]
    · simp only [pieces]
      split <;> rw [join_consHead, ih]

theorem join_snoc_nil (sep : Bytes) (l : List Bytes) (h : l ≠ []) :
    Bytes.join sep (l ++ [[]]) = Bytes.join sep l ++ sep := by
  induction l with
  | nil => exact absurd rfl h
  | cons a l ih =>
    cases l with
    | nil => simp [Bytes.join]
    | cons x l =>
      have := ih (by simp)
      simp only [List.cons_append] at this ⊢
      simp only [Bytes.join] at this ⊢
      rw [this]; simp [List.append_assoc]

theorem join_dropLastEmpty (sep : UInt8) (l : List Bytes) (hj : Bytes.join [sep] l ≠ []) :
    Bytes.join [sep] (dropLastEmpty l) = Bytes.join [sep] l
    ∨ Bytes.join [sep] (dropLastEmpty l) ++ [sep] = Bytes.join [sep] l := by
  unfold dropLastEmpty
  split
  · rename_i heq
    right
    obtain ⟨l', rfl⟩ := List.getLast?_eq_some_iff.mp heq
    have hl' : l' ≠ [] := by
      intro e; subst e; simp [Bytes.join] at hj
    simp [join_snoc_nil _ _ hl']
  · left; rfl

/-! ## glued items -/

/-- an item that the quote-aware split never cuts: quote-balanced, separators only inside quotes -/
def Glued (sep : UInt8) (x : Bytes) : Prop :=
  ∀ rest, pieces sep false (x ++ rest) = prependHead x (pieces sep false rest)

theorem glued_nil (sep : UInt8) : Glued sep [] := by
  intro rest; simp [prependHead_nil _ (pieces_ne_nil _ _ _)]

theorem glued_append {sep : UInt8} {x y : Bytes} (hx : Glued sep x) (hy : Glued sep y) :
    Glued sep (x ++ y) := by
  intro rest
  rw [List.append_assoc, hx, hy, prependHead_append]

theorem glued_plain (sep : UInt8) (x : Bytes) (hq : QUOTE ∉ x) (hs : sep ∉ x) : Glued sep x := by
  induction x with
  | nil => exact glued_nil sep
  | cons c t ih =>
    intro rest
    have hc1 : c ≠ QUOTE := fun e => hq (by simp [e])
    have hc2 : c ≠ sep := fun e => hs (by simp [e])
    have ih := ih (fun e => hq (by simp [e])) (fun e => hs (by simp [e])) rest
    rw [List.cons_append, pieces_false_other sep c hc1 hc2, ih, consHead_eq_prependHead,
      prependHead_append]
    rfl

/-- inside quotes, everything up to the closing quote is glued onto the current piece -/
theorem pieces_true_quoted (sep : UInt8) (q rest : Bytes) (hq : QUOTE ∉ q) :
    pieces sep true (q ++ QUOTE :: rest) = prependHead (q ++ [QUOTE]) (pieces sep false rest) := by
  induction q with
  | nil => simp [pieces_true_quote, consHead_eq_prependHead]
  | cons c t ih =>
    have hc1 : c ≠ QUOTE := fun e => hq (by simp [e])
    have ih := ih (fun e => hq (by simp [e]))
    rw [List.cons_append, pieces_true_other sep c hc1, ih, consHead_eq_prependHead,
      prependHead_append]
    rfl

theorem glued_quoted (sep : UInt8) (q : Bytes) (hq : QUOTE ∉ q) :
    Glued sep (QUOTE :: (q ++ [QUOTE])) := by
  intro rest
  rw [List.cons_append, pieces_false_quote, List.append_assoc, List.singleton_append,
    pieces_true_quoted sep q rest hq, consHead_eq_prependHead, prependHead_append]
  simp

theorem glued_sep_cons {sep : UInt8} (hsep : sep ≠ QUOTE) {x : Bytes} (hx : Glued sep x)
    (rest : Bytes) :
    pieces sep false (x ++ sep :: rest) = x :: pieces sep false rest := by
  rw [hx, pieces_false_sep sep hsep]
  simp [prependHead]

theorem glued_alone {sep : UInt8} {x : Bytes} (hx : Glued sep x) :
    pieces sep false x = [x] := by
  have := hx []
  simpa [pieces_nil, prependHead] using this

theorem pieces_join_glued (sep : UInt8) (hsep : sep ≠ QUOTE) (l : List Bytes) (hl : l ≠ [])
    (h : ∀ x ∈ l, Glued sep x) :
    pieces sep false (Bytes.join [sep] l) = l := by
  induction l with
  | nil => exact absurd rfl hl
  | cons a l ih =>
    cases l with
    | nil => simpa [Bytes.join] using glued_alone (h a (by simp))
    | cons x l =>
      have ih := ih (by simp) (fun y hy => h y (List.mem_cons_of_mem _ hy))
      rw [join_cons_of_ne_nil _ _ _ (by simp), List.append_assoc, List.singleton_append,
        glued_sep_cons hsep (h a (by simp)), ih]

/-! ## `indexByte?` over appends -/

theorem indexByte?_of_not_mem (c : UInt8) (s : Bytes) (h : c ∉ s) :
    Bytes.indexByte? c s = none := by
  induction s with
  | nil => rfl
  | cons x t ih =>
    have hx : x ≠ c := fun e => h (by simp [e])
    have := ih (fun e => h (by simp [e]))
    simp [Bytes.indexByte?, hx, this]

theorem indexByte?_append_of_not_mem (c : UInt8) (x y : Bytes) (h : c ∉ x) :
    Bytes.indexByte? c (x ++ y) = (Bytes.indexByte? c y).map (· + x.length) := by
  induction x with
  | nil => simp
  | cons a t ih =>
    have ha : a ≠ c := fun e => h (by simp [e])
    have := ih (fun e => h (by simp [e]))
    simp only [List.cons_append, Bytes.indexByte?, beq_iff_eq, ha, if_false, this, Option.map_map]
    cases Bytes.indexByte? c y <;> simp [Nat.add_assoc]

theorem indexByte?_cons_self (c : UInt8) (y : Bytes) : Bytes.indexByte? c (c :: y) = some 0 := by
  simp [Bytes.indexByte?]

theorem indexByte?_append_cons (c : UInt8) (x y : Bytes) (h : c ∉ x) :
    Bytes.indexByte? c (x ++ c :: y) = some x.length := by
  rw [indexByte?_append_of_not_mem c x _ h, indexByte?_cons_self]; simp

/-! ## `parseValidNameKV` on the four shapes of rule text -/

theorem parse_key (k : Bytes) (he : EQ ∉ k) (hb : BAR ∉ k) :
    parseValidNameKV k = (k, [], []) := by
  unfold parseValidNameKV
  simp [indexByte?_of_not_mem _ _ he, indexByte?_of_not_mem _ _ hb]

theorem parse_key_msg (k m : Bytes) (he : EQ ∉ k) (hb : BAR ∉ k) (hm : m ≠ []) :
    parseValidNameKV (k ++ BAR :: m) = (k, [], labelMsg m) := by
  have hbar : Bytes.indexByte? BAR (k ++ BAR :: m) = some k.length :=
    indexByte?_append_cons BAR k m hb
  have hmlen : 0 < m.length := List.length_pos_iff.mpr hm
  have hEB : (BAR == EQ) = false := by decide
  have heq : Bytes.indexByte? EQ (k ++ BAR :: m)
      = (Bytes.indexByte? EQ m).map (fun i => i + 1 + k.length) := by
    rw [indexByte?_append_of_not_mem EQ k _ he]
    simp [Bytes.indexByte?, hEB, Option.map_map, Function.comp_def]
  unfold parseValidNameKV
  rw [hbar, heq]
  cases Bytes.indexByte? EQ m with
  | none =>
    simp only [Option.map_none]
    have : (k ++ BAR :: m).length - 1 ≥ k.length + 1 ∧ (k ++ BAR :: m).length ≥ 1 := by
      simp; omega
    simp [hm]
  | some i =>
    simp only [Option.map_some]
    have h1 : k.length < i + 1 + k.length := by omega
    have : (k ++ BAR :: m).length - 1 ≥ k.length + 1 ∧ (k ++ BAR :: m).length ≥ 1 := by
      simp; omega
    simp [h1, hm]

theorem parse_key_val (k v : Bytes) (he : EQ ∉ k) (hb : BAR ∉ k) (hv : BAR ∉ v) :
    parseValidNameKV (k ++ EQ :: v) = (k, v, []) := by
  have heq : Bytes.indexByte? EQ (k ++ EQ :: v) = some k.length :=
    indexByte?_append_cons EQ k v he
  have hbar : Bytes.indexByte? BAR (k ++ EQ :: v) = none := by
    apply indexByte?_of_not_mem
    have : BAR ≠ EQ := by decide
    simp [hb, hv, this]
  unfold parseValidNameKV
  rw [hbar, heq]
  simp [indexByte?_of_not_mem _ _ hv]

theorem parse_key_val_msg (k v m : Bytes) (he : EQ ∉ k) (hb : BAR ∉ k) (hv : BAR ∉ v)
    (hm : m ≠ []) :
    parseValidNameKV (k ++ EQ :: (v ++ BAR :: m)) = (k, v, labelMsg m) := by
  have heq : Bytes.indexByte? EQ (k ++ EQ :: (v ++ BAR :: m)) = some k.length :=
    indexByte?_append_cons EQ k _ he
  have hmlen : 0 < m.length := List.length_pos_iff.mpr hm
  have hEB : (EQ == BAR) = false := by decide
  have hbar : Bytes.indexByte? BAR (k ++ EQ :: (v ++ BAR :: m)) = some (v.length + 1 + k.length) := by
    rw [indexByte?_append_of_not_mem BAR k _ hb]
    simp [Bytes.indexByte?, hEB, indexByte?_append_cons BAR v m hv]
  have hval : Bytes.indexByte? BAR (v ++ BAR :: m) = some v.length :=
    indexByte?_append_cons BAR v m hv
  unfold parseValidNameKV
  rw [hbar, heq]
  have h1 : ¬ (v.length + 1 + k.length < k.length) := by omega
  have h2 : (v ++ BAR :: m).length - 1 ≥ v.length + 1 ∧ (v ++ BAR :: m).length ≥ 1 := by
    simp; omega
  simp [h1, hval, hm]

/-! ## `genValidKV` on well-formed rules -/

/-- the documented wrapping of a non-empty value -/
def wrapBody (key v : Bytes) : Bytes :=
  if key == vIn || key == vInclude then [40] ++ v ++ [41]
  else if key == vRe then [QUOTE] ++ v ++ [QUOTE]
  else v

theorem genValidKV_key (key : Bytes) : genValidKV key [] = key := rfl

theorem genValidKV_msg (key m : Bytes) : genValidKV key [[], m] = key ++ BAR :: m := by
  simp [genValidKV]

theorem genValidKV_val (key v : Bytes) (hne : v ≠ []) (hq : QUOTE ∉ v)
    (heq : v.head? ≠ some EQ) :
    genValidKV key [v] = key ++ EQ :: wrapBody key v := by
  cases v with
  | nil => exact absurd rfl hne
  | cons c0 t =>
    have h0 : c0 ≠ EQ := by simpa using heq
    have h1 : c0 ≠ QUOTE := fun e => hq (by simp [e])
    have h2 : ¬ (t[0]? = some QUOTE) :=
      fun e => hq (List.mem_cons_of_mem _ (List.mem_of_getElem? e))
    simp [genValidKV, wrapBody, h0, h1, h2]

theorem genValidKV_val_msg (key v m : Bytes) (hne : v ≠ []) (hq : QUOTE ∉ v)
    (heq : v.head? ≠ some EQ) :
    genValidKV key [v, m] = key ++ EQ :: (wrapBody key v ++ BAR :: m) := by
  cases v with
  | nil => exact absurd rfl hne
  | cons c0 t =>
    have h0 : c0 ≠ EQ := by simpa using heq
    have h1 : c0 ≠ QUOTE := fun e => hq (by simp [e])
    have h2 : ¬ (t[0]? = some QUOTE) :=
      fun e => hq (List.mem_cons_of_mem _ (List.mem_of_getElem? e))
    simp [genValidKV, wrapBody, h0, h1, h2]

/-! ## well-formed rules -/

structure WfFacts (r : Rule) : Prop where
  key_ne : r.key ≠ []
  key_comma : COMMA ∉ r.key
  key_quote : QUOTE ∉ r.key
  key_eq : EQ ∉ r.key
  key_bar : BAR ∉ r.key
  val : ∀ v, r.value = some v →
    v ≠ [] ∧ BAR ∉ v ∧ QUOTE ∉ v ∧ v.head? ≠ some EQ ∧ (r.key = vRe ∨ COMMA ∉ v)
  msg : ∀ m, r.msg = some m → m ≠ [] ∧ COMMA ∉ m ∧ QUOTE ∉ m

theorem wf_facts (r : Rule) (h : r.wf = true) : WfFacts r := by
  obtain ⟨key, value, msg⟩ := r
  simp only [Rule.wf, Bool.and_eq_true, noByte_eq_true, Bool.not_eq_true', List.isEmpty_eq_false_iff]
    at h
  obtain ⟨⟨⟨⟨⟨⟨h1, h2⟩, h3⟩, h4⟩, h5⟩, h6⟩, h7⟩ := h
  refine ⟨h1, h2, h3, h4, h5, ?_, ?_⟩
  · intro v hv
    simp only at hv
    subst hv
    simp only [Bool.and_eq_true, Bool.or_eq_true, noByte_eq_true, Bool.not_eq_true',
      List.isEmpty_eq_false_iff, bne_iff_ne, ne_eq, beq_iff_eq] at h6
    obtain ⟨⟨⟨⟨a, b⟩, c⟩, d⟩, e⟩ := h6
    exact ⟨a, b, c, d, e⟩
  · intro m hm
    simp only at hm
    subst hm
    simp only [Bool.and_eq_true, noByte_eq_true, Bool.not_eq_true',
      List.isEmpty_eq_false_iff] at h7
    obtain ⟨⟨a, b⟩, c⟩ := h7
    exact ⟨a, b, c⟩

theorem wrapBody_bar (key v : Bytes) (hv : BAR ∉ v) : BAR ∉ wrapBody key v := by
  have h40 : BAR ≠ (40 : UInt8) := by decide
  have h41 : BAR ≠ (41 : UInt8) := by decide
  have hQ : BAR ≠ QUOTE := by decide
  unfold wrapBody
  split
  · simp [hv, h40, h41]
  · split
    · simp [hv, hQ]
    · exact hv

theorem wrapBody_glued (key v : Bytes) (hq : QUOTE ∉ v) (hc : key = vRe ∨ COMMA ∉ v) :
    Glued COMMA (wrapBody key v) := by
  unfold wrapBody
  split
  · rename_i hk
    have hk' : key ≠ vRe := by
      intro e; subst e; revert hk; decide
    have hc' : COMMA ∉ v := hc.resolve_left hk'
    have a1 : QUOTE ≠ (40 : UInt8) := by decide
    have a2 : QUOTE ≠ (41 : UInt8) := by decide
    have a3 : COMMA ≠ (40 : UInt8) := by decide
    have a4 : COMMA ≠ (41 : UInt8) := by decide
    apply glued_plain
    · simp [hq, a1, a2]
    · simp [hc', a3, a4]
  · split
    · exact glued_quoted COMMA v hq
    · rename_i hk
      have hk' : key ≠ vRe := by simpa using hk
      exact glued_plain COMMA v hq (hc.resolve_left hk')

theorem expectedValue_some (r : Rule) (v : Bytes) (hv : r.value = some v) (hne : v ≠ []) :
    r.expectedValue = wrapBody r.key v := by
  simp [Rule.expectedValue, hv, hne, wrapBody]

/-- the rule text the builder produces for a rule -/
def ruleText (r : Rule) : Bytes := genValidKV r.key r.genArgs

theorem ruleText_ne_nil (r : Rule) (h : r.wf = true) : ruleText r ≠ [] := by
  have f := wf_facts r h
  have hk := f.key_ne
  obtain ⟨key, value, msg⟩ := r
  cases value with
  | none =>
    cases msg with
    | none => simpa [ruleText, Rule.genArgs, genValidKV_key] using hk
    | some m => simp [ruleText, Rule.genArgs, genValidKV_msg]
  | some v =>
    obtain ⟨a, b, c, d, e⟩ := f.val v rfl
    cases msg with
    | none => simp [ruleText, Rule.genArgs, genValidKV_val _ _ a c d]
    | some m => simp [ruleText, Rule.genArgs, genValidKV_val_msg _ _ _ a c d]

theorem glued_key (r : Rule) (f : WfFacts r) : Glued COMMA r.key :=
  glued_plain COMMA r.key f.key_quote f.key_comma

theorem glued_bar_msg (m : Bytes) (hc : COMMA ∉ m) (hq : QUOTE ∉ m) : Glued COMMA (BAR :: m) := by
  have a1 : QUOTE ≠ BAR := by decide
  have a2 : COMMA ≠ BAR := by decide
  apply glued_plain
  · simp [hq, a1]
  · simp [hc, a2]

theorem glued_eq : Glued COMMA [EQ] := by
  apply glued_plain <;> decide

theorem ruleText_glued (r : Rule) (h : r.wf = true) : Glued COMMA (ruleText r) := by
  have f := wf_facts r h
  have hk := glued_key r f
  obtain ⟨key, value, msg⟩ := r
  cases value with
  | none =>
    cases msg with
    | none => simpa [ruleText, Rule.genArgs, genValidKV_key] using hk
    | some m =>
      obtain ⟨_, b', c'⟩ := f.msg m rfl
      simp only [ruleText, Rule.genArgs, genValidKV_msg]
      exact glued_append hk (glued_bar_msg m b' c')
  | some v =>
    obtain ⟨a, b, c, d, e⟩ := f.val v rfl
    have hw := wrapBody_glued key v c e
    cases msg with
    | none =>
      simp only [ruleText, Rule.genArgs, genValidKV_val _ _ a c d]
      exact glued_append hk (glued_append glued_eq hw)
    | some m =>
      obtain ⟨_, b', c'⟩ := f.msg m rfl
      simp only [ruleText, Rule.genArgs, genValidKV_val_msg _ _ _ a c d]
      exact glued_append hk (glued_append glued_eq (glued_append hw (glued_bar_msg m b' c')))

theorem parse_ruleText (r : Rule) (h : r.wf = true) :
    parseValidNameKV (ruleText r) = r.expected := by
  have f := wf_facts r h
  have he := f.key_eq
  have hb := f.key_bar
  obtain ⟨key, value, msg⟩ := r
  cases value with
  | none =>
    cases msg with
    | none =>
      simp only [ruleText, Rule.genArgs, genValidKV_key]
      rw [parse_key key he hb]; rfl
    | some m =>
      obtain ⟨a', _, _⟩ := f.msg m rfl
      simp only [ruleText, Rule.genArgs, genValidKV_msg]
      rw [parse_key_msg key m he hb a']; rfl
  | some v =>
    obtain ⟨a, b, c, d, e⟩ := f.val v rfl
    have hw := wrapBody_bar key v b
    have hx := expectedValue_some ⟨key, some v, msg⟩ v rfl a
    cases msg with
    | none =>
      simp only [ruleText, Rule.genArgs, genValidKV_val _ _ a c d]
      rw [parse_key_val key _ he hb hw]
      simp only [Rule.expected]; rw [expectedValue_some _ v rfl a]
    | some m =>
      obtain ⟨a', _, _⟩ := f.msg m rfl
      simp only [ruleText, Rule.genArgs, genValidKV_val_msg _ _ _ a c d]
      rw [parse_key_val_msg key _ m he hb hw a']
      simp only [Rule.expected]; rw [expectedValue_some _ v rfl a]

/-! ## `RM.Set` / `RM.Get` on a fresh map with the one-byte field name `F` -/

theorem rmGet_rmSet (texts : List Bytes) :
    rmGet (rmSet [] [70] texts) [70] = Bytes.join [COMMA] texts := by
  have h : Bytes.splitByte COMMA [70] = [[70]] := by decide
  simp [rmSet, h, rmSet1, rmGet, List.lookup]

theorem join_ne_nil (sep : Bytes) (a : Bytes) (l : List Bytes) (ha : a ≠ []) :
    Bytes.join sep (a :: l) ≠ [] := by
  cases l with
  | nil => simpa [Bytes.join] using ha
  | cons x l => simp [Bytes.join, ha]

end PGV.Proofs.RuleText
