import PGV.Spec.Lang
import PGV.Model.TimeParse

/-! The transcription of `time.Parse` + `Format` (`Model/TimeParse.lean`) on the layouts of the date
rules = the independent readings `Spec.Lang.year / year2month / date / datetime`, for every string. -/

namespace PGV.Proofs.TimeParse
open PGV PGV.Model.TimeParse

/-- the bytes `Spec.Lang.sepOK` admits in a separator -/
def sepc (c : UInt8) : Bool :=
  c == 45 || c == 47 || c == 46 || c == 58 || c == 32 || c == 43 || c == 95 || c == 44 || c == 35

theorem sepOK_eq (sep : Bytes) : Spec.Lang.sepOK sep = sep.all sepc := rfl

theorem sepc_cases {c : UInt8} (h : sepc c = true) :
    c = 45 ∨ c = 47 ∨ c = 46 ∨ c = 58 ∨ c = 32 ∨ c = 43 ∨ c = 95 ∨ c = 44 ∨ c = 35 := by
  simpa [sepc, Bool.or_eq_true, or_assoc] using h

def stdText : Std → Bytes
  | .longYear => [50, 48, 48, 54]
  | .zeroMonth => [48, 49]
  | .zeroDay => [48, 50]
  | .hour => [49, 53]
  | .zeroMinute => [48, 52]
  | .zeroSecond => [48, 53]

/-- what the scan needs to know about the text behind a separator byte -/
structure OkNext (r : Bytes) : Prop where
  h50 : ∀ t, r ≠ 50 :: t
  h57 : ∀ t, r ≠ 57 :: t
  h95 : ∀ t, r ≠ 95 :: 50 :: t
  h4855 : ∀ t, r ≠ 48 :: 55 :: t
  h48 : ∀ t, r = 48 :: t → ∃ x t', t = x :: t' ∧ x ≠ 48 ∧ isDigit x = true

theorem fracLit (c ch : UInt8) (r : Bytes) (hc : c = 46 ∨ c = 44) (hr : OkNext (ch :: r)) :
    classify c (ch :: r) = At.lit := by
  by_cases h0 : ch = 48
  · subst h0
    obtain ⟨x, t', rfl, hx, hd⟩ := hr.h48 r rfl
    have : ((x == 48) = false) := by simpa using hx
    rcases hc with rfl | rfl <;> simp [classify, List.dropWhile, this, hd]
  · have h9 : ch ≠ 57 := by intro e; subst e; exact hr.h57 r rfl
    rcases hc with rfl | rfl <;> simp [classify, h0, h9]

theorem classify_lit (c : UInt8) (r : Bytes) (hc : sepc c = true) (hr : OkNext r) : classify c r = .lit := by
  rcases sepc_cases hc with rfl | rfl | rfl | rfl | rfl | rfl | rfl | rfl | rfl
  · -- '-'
    simp only [classify]
    split
    · rename_i h; simp at h
    · split
      · rename_i h; simp at h
      · split
        · rename_i h; simp at h
        · split
          · rename_i h; simp at h
          · split
            · rename_i h; simp at h
            · split
              · rename_i h; simp at h
              · split
                · split
                  · rename_i t; exact absurd rfl (hr.h4855 t)
                  · rfl
                · rename_i h; simp at h
  · simp [classify]
  · -- '.'
    rcases r with _ | ⟨ch, r⟩
    · simp [classify]
    · exact fracLit 46 ch r (Or.inl rfl) hr
  · simp [classify]
  · simp [classify]
  · simp [classify]
  · -- '_'
    simp only [classify]
    split
    · rename_i h; simp at h
    · split
      · rename_i h; simp at h
      · split
        · rename_i h; simp at h
        · split
          · split
            · rename_i t; exact absurd rfl (hr.h50 t)
            · rename_i t; exact absurd rfl (hr.h95 t)
            · rfl
          · rename_i h; simp at h
  · -- ','
    rcases r with _ | ⟨ch, r⟩
    · simp [classify]
    · exact fracLit 44 ch r (Or.inr rfl) hr
  · simp [classify]


theorem sepc_ne {c : UInt8} (h : sepc c = true) : c ≠ 48 ∧ c ≠ 49 ∧ c ≠ 50 ∧ c ≠ 57 := by
  rcases sepc_cases h with rfl | rfl | rfl | rfl | rfl | rfl | rfl | rfl | rfl <;> decide

theorem okNext_std (k : Std) (hk : k ≠ .longYear) (rest : Bytes) : OkNext (stdText k ++ rest) := by
  cases k <;> first | exact absurd rfl hk | (constructor <;> simp [stdText, isDigit] <;> decide)

theorem okNext_sep (sep : Bytes) (hs : sep.all sepc = true) (k : Std) (hk : k ≠ .longYear) (rest : Bytes) :
    OkNext (sep ++ stdText k ++ rest) := by
  rcases sep with _ | ⟨c, sep'⟩
  · simpa using okNext_std k hk rest
  · simp only [List.all_cons, Bool.and_eq_true] at hs
    obtain ⟨h48, h49, h50, h57⟩ := sepc_ne hs.1
    constructor
    · intro t e; simp at e; exact h50 e.1
    · intro t e; simp at e; exact h57 e.1
    · intro t e
      rcases sep' with _ | ⟨c', sep''⟩
      · cases k <;> first | exact absurd rfl hk | simp [stdText] at e
      · simp only [List.all_cons, Bool.and_eq_true] at hs
        simp at e; exact (sepc_ne hs.2.1).2.2.1 e.2.1
    · intro t e; simp at e; exact h48 e.1
    · intro t e; simp at e; exact absurd e.1 h48

theorem nextStd_sep (acc sep : Bytes) (hs : sep.all sepc = true) (k : Std) (hk : k ≠ .longYear) (rest : Bytes) :
    nextStd acc (sep ++ stdText k ++ rest) = .std (acc ++ sep) k rest := by
  induction sep generalizing acc with
  | nil => cases k <;> first | exact absurd rfl hk | simp [stdText, nextStd, classify]
  | cons c sep' ih =>
    simp only [List.all_cons, Bool.and_eq_true] at hs
    have hl := classify_lit c (sep' ++ stdText k ++ rest) hs.1 (okNext_sep sep' hs.2 k hk rest)
    simp only [List.cons_append, nextStd]
    simp only [List.append_assoc] at hl ⊢
    rw [hl]
    simp only
    have := ih (acc ++ [c]) hs.2
    simp only [List.append_assoc] at this
    rw [this]; simp

theorem nextStd_year (rest : Bytes) : nextStd [] (stdText .longYear ++ rest) = .std [] .longYear rest := by
  simp [stdText, nextStd, classify]

theorem nextStd_nil : nextStd [] [] = .done [] := rfl


/-! ### layouts as lists of (literal text, element) -/

abbrev Item := Bytes × Std

def layoutOf : List Item → Bytes
  | [] => []
  | (p, k) :: r => p ++ stdText k ++ layoutOf r

/-- a separator made of `sepOK` bytes in front of a two-digit element, or the year with nothing in front -/
def ItemOK (it : Item) : Prop := (it.1.all sepc = true ∧ it.2 ≠ .longYear) ∨ (it.1 = [] ∧ it.2 = .longYear)

theorem nextStd_item (it : Item) (h : ItemOK it) (rest : Bytes) :
    nextStd [] (it.1 ++ stdText it.2 ++ rest) = .std it.1 it.2 rest := by
  rcases it with ⟨p, k⟩
  rcases h with ⟨hs, hk⟩ | ⟨hp, hk⟩
  · simpa using nextStd_sep [] p hs k hk rest
  · simp only at hp hk; subst hp; subst hk; simpa using nextStd_year rest

theorem nextStd_layout_ne (its : List Item) (h : ∀ it ∈ its, ItemOK it) : nextStd [] (layoutOf its) ≠ .unsupported := by
  rcases its with _ | ⟨it, r⟩
  · simp [layoutOf, nextStd]
  · rcases it with ⟨p, k⟩
    have := nextStd_item (p, k) (h _ (by simp)) (layoutOf r)
    simp only at this
    simp only [layoutOf, this]; simp

def fracDrop (v : Bytes) : Bytes :=
  match v with
  | c :: d :: r => if (c == 46 || c == 44) && isDigit d then r.dropWhile isDigit else c :: d :: r
  | [c] => [c]
  | [] => []

theorem fracSkip_layout (its : List Item) (h : ∀ it ∈ its, ItemOK it) (v : Bytes) :
    fracSkip (layoutOf its) v = some (fracDrop v) := by
  have hne := nextStd_layout_ne its h
  rcases v with _ | ⟨c, _ | ⟨d, r⟩⟩
  · rfl
  · rfl
  · simp only [fracSkip, fracDrop]
    split
    · cases hq : nextStd [] (layoutOf its) with
      | unsupported => exact absurd hq hne
      | std _ _ _ => rfl
      | done _ => rfl
    · rfl

/-- the loop of `parse` over a layout given as items -/
def parseItems : List Item → Bytes → Tm → Option Tm
  | [], v, t => if v.isEmpty then some t else none
  | (p, k) :: r, v, t =>
    match skip (p.length + 1) v p with
    | none => none
    | some v1 =>
      match readStd k v1 with
      | none => none
      | some (n, v2) => parseItems r (if k == .zeroSecond then fracDrop v2 else v2) (t.set k n)

theorem parseLoop_items (its : List Item) (h : ∀ it ∈ its, ItemOK it) (fuel : Nat) (hf : its.length + 1 ≤ fuel)
    (v : Bytes) (t : Tm) : parseLoop fuel (layoutOf its) v t = some (parseItems its v t) := by
  induction its generalizing fuel v t with
  | nil =>
    obtain ⟨f, rfl⟩ : ∃ f, fuel = f + 1 := ⟨fuel - 1, by omega⟩
    simp [parseLoop, layoutOf, nextStd, skip, parseItems]
    split <;> rfl
  | cons it r ih =>
    obtain ⟨f, rfl⟩ : ∃ f, fuel = f + 1 := ⟨fuel - 1, by omega⟩
    rcases it with ⟨p, k⟩
    have hn := nextStd_item (p, k) (h _ (by simp)) (layoutOf r)
    simp only at hn
    have hr : ∀ it ∈ r, ItemOK it := fun it hi => h it (by simp [hi])
    simp only [parseLoop, layoutOf, hn, parseItems]
    cases hs : skip (p.length + 1) v p with
    | none => rfl
    | some v1 =>
      simp only
      cases hrd : readStd k v1 with
      | none => rfl
      | some nv =>
        rcases nv with ⟨n, v2⟩
        simp only
        have hlen : r.length + 1 ≤ f := by simp at hf; omega
        by_cases hk : k = .zeroSecond
        · subst hk
          simp only [beq_self_eq_true, if_true, fracSkip_layout r hr]
          exact ih hr f hlen _ _
        · have : (k == Std.zeroSecond) = false := by simpa using hk
          simp only [this, Bool.false_eq_true, if_false]
          exact ih hr f hlen _ _

def fits (k : Std) (n : Nat) : Prop := n < (if k = .longYear then 10000 else 100)

def padOf (k : Std) (n : Nat) : Bytes := (appendInt n (width k)).getD []

def render : List Item → Tm → Bytes
  | [], _ => []
  | (p, k) :: r, t => p ++ padOf k (t.get k) ++ render r t

theorem appendInt_fits (k : Std) (n : Nat) (h : fits k n) : appendInt n (width k) = some (padOf k n) := by
  unfold fits at h
  cases k <;> simp [width, appendInt, padOf] at h ⊢ <;> simp [h]

theorem formatLoop_items (its : List Item) (h : ∀ it ∈ its, ItemOK it) (t : Tm)
    (hfit : ∀ it ∈ its, fits it.2 (t.get it.2)) (fuel : Nat) (hf : its.length + 1 ≤ fuel) :
    formatLoop fuel (layoutOf its) t = some (render its t) := by
  induction its generalizing fuel with
  | nil =>
    obtain ⟨f, rfl⟩ : ∃ f, fuel = f + 1 := ⟨fuel - 1, by omega⟩
    simp [formatLoop, layoutOf, nextStd, render]
  | cons it r ih =>
    obtain ⟨f, rfl⟩ : ∃ f, fuel = f + 1 := ⟨fuel - 1, by omega⟩
    rcases it with ⟨p, k⟩
    have hn := nextStd_item (p, k) (h _ (by simp)) (layoutOf r)
    simp only at hn
    have hr : ∀ it ∈ r, ItemOK it := fun it hi => h it (by simp [hi])
    have hlen : r.length + 1 ≤ f := by simp at hf; omega
    have ha := appendInt_fits k (t.get k) (hfit (p, k) (by simp))
    simp only [formatLoop, layoutOf, hn, ha, ih hr (fun it hi => hfit it (by simp [hi])) f hlen, render]


/-! ### digits -/

theorem lt10_cases {d : Nat} (h : d < 10) : d = 0 ∨ d = 1 ∨ d = 2 ∨ d = 3 ∨ d = 4 ∨ d = 5 ∨ d = 6 ∨ d = 7 ∨ d = 8 ∨ d = 9 := by omega

theorem digit_ofNat {d : Nat} (h : d < 10) :
    isDigit (UInt8.ofNat (48 + d)) = true ∧ Spec.Lang.digit (UInt8.ofNat (48 + d)) = true ∧ dval (UInt8.ofNat (48 + d)) = d
      ∧ (UInt8.ofNat (48 + d)).toNat - 48 = d ∧ UInt8.ofNat (48 + d) ≠ 32 := by
  rcases lt10_cases h with rfl | rfl | rfl | rfl | rfl | rfl | rfl | rfl | rfl | rfl <;> decide

theorem isDigit_bounds {a : UInt8} (h : isDigit a = true) : 48 ≤ a.toNat ∧ a.toNat ≤ 57 := by
  simp only [isDigit, Bool.and_eq_true, decide_eq_true_eq] at h
  exact ⟨by simpa using UInt8.le_iff_toNat_le.mp h.1, by simpa using UInt8.le_iff_toNat_le.mp h.2⟩

theorem specDigit_eq (a : UInt8) : Spec.Lang.digit a = isDigit a := rfl

theorem dval_lt {a : UInt8} (h : isDigit a = true) : dval a < 10 := by
  have := isDigit_bounds h; unfold dval; omega

theorem ofNat_dval {a : UInt8} (h : isDigit a = true) : UInt8.ofNat (48 + dval a) = a := by
  have hb := isDigit_bounds h
  have : 48 + dval a = a.toNat := by unfold dval; omega
  rw [this]; exact UInt8.ofNat_toNat


/-! ### one element: rendering and reading back -/

def rangeOK : Std → Nat → Prop
  | .longYear, n => n < 10000
  | .zeroMonth, n => 1 ≤ n ∧ n ≤ 12
  | .zeroDay, n => n < 100
  | .hour, n => n < 24
  | .zeroMinute, n => n < 60
  | .zeroSecond, n => n < 60

theorem rangeOK_fits {k : Std} {n : Nat} (h : rangeOK k n) : fits k n := by
  cases k <;> simp [rangeOK, fits] at h ⊢ <;> omega

theorem padOf_two (k : Std) (hk : k ≠ .longYear) (n : Nat) (h : n < 100) :
    padOf k n = [UInt8.ofNat (48 + n / 10), UInt8.ofNat (48 + n % 10)] := by
  cases k <;> first | exact absurd rfl hk | simp [padOf, appendInt, width, h]

theorem padOf_four (n : Nat) (h : n < 10000) :
    padOf .longYear n = [UInt8.ofNat (48 + n / 1000), UInt8.ofNat (48 + n / 100 % 10), UInt8.ofNat (48 + n / 10 % 10), UInt8.ofNat (48 + n % 10)] := by
  simp [padOf, appendInt, width, h]

theorem getnum_two (a c : UInt8) (rest : Bytes) (fixed : Bool) (ha : isDigit a = true) (hc : isDigit c = true) :
    getnum (a :: c :: rest) fixed = some (dval a * 10 + dval c, rest) := by
  simp [getnum, ha, hc]

theorem readStd_pad (k : Std) (n : Nat) (h : rangeOK k n) (rest : Bytes) :
    readStd k (padOf k n ++ rest) = some (n, rest) := by
  by_cases hk : k = .longYear
  · subst hk
    simp only [rangeOK] at h
    rw [padOf_four n h]
    have d1 := digit_ofNat (d := n / 1000) (by omega)
    have d2 := digit_ofNat (d := n / 100 % 10) (by omega)
    have d3 := digit_ofNat (d := n / 10 % 10) (by omega)
    have d4 := digit_ofNat (d := n % 10) (by omega)
    have hv : ((n / 1000 * 10 + n / 100 % 10) * 10 + n / 10 % 10) * 10 + n % 10 = n := by omega
    simp only [readStd, List.cons_append, List.nil_append, d1.1, d2.1, d3.1, d4.1, Bool.and_self, if_true, num4,
      d1.2.2.1, d2.2.2.1, d3.2.2.1, d4.2.2.1, hv]
  · have hn : n < 100 := by
      cases k <;> first | exact absurd rfl hk | (simp [rangeOK] at h; omega)
    rw [padOf_two k hk n hn]
    have d1 := digit_ofNat (d := n / 10) (by omega)
    have d2 := digit_ofNat (d := n % 10) (by omega)
    have hv : dval (UInt8.ofNat (48 + n / 10)) * 10 + dval (UInt8.ofNat (48 + n % 10)) = n := by
      rw [d1.2.2.1, d2.2.2.1]; omega
    have hg := fun fixed => getnum_two _ _ rest fixed d1.1 d2.1
    cases k with
    | longYear => exact absurd rfl hk
    | zeroMonth =>
      simp only [rangeOK] at h
      simp only [readStd, List.cons_append, List.nil_append, hg, hv, Option.bind]
      have : (n == 0 || decide (12 < n)) = false := by simp; omega
      simp [this]
    | zeroDay => simp only [readStd, List.cons_append, List.nil_append, hg, hv]
    | hour =>
      simp only [rangeOK] at h
      simp only [readStd, List.cons_append, List.nil_append, hg, hv, Option.bind]
      have : ¬ (24 ≤ n) := by omega
      simp [this]
    | zeroMinute =>
      simp only [rangeOK] at h
      simp only [readStd, List.cons_append, List.nil_append, hg, hv, Option.bind]
      have : ¬ (60 ≤ n) := by omega
      simp [this]
    | zeroSecond =>
      simp only [rangeOK] at h
      simp only [readStd, List.cons_append, List.nil_append, hg, hv, Option.bind]
      have : ¬ (60 ≤ n) := by omega
      simp [this]

theorem getnum_range {v : Bytes} {fixed : Bool} {n : Nat} {v' : Bytes} (h : getnum v fixed = some (n, v')) : n < 100 := by
  unfold getnum at h
  split at h
  · rename_i a c r
    by_cases ha : isDigit a = true
    · by_cases hc : isDigit c = true
      · simp [ha, hc] at h
        have := dval_lt ha; have := dval_lt hc; omega
      · simp [ha, hc] at h
        have := dval_lt ha; omega
    · simp [ha] at h
  · rename_i a
    by_cases ha : isDigit a = true
    · simp [ha] at h
      have := dval_lt ha; omega
    · simp [ha] at h
  · simp at h

theorem bind_range {v : Bytes} {fixed : Bool} {n : Nat} {v' : Bytes} (bad : Nat → Bool)
    (h : ((getnum v fixed).bind fun (x : Nat × Bytes) => if bad x.1 then none else some (x.1, x.2)) = some (n, v')) :
    n < 100 ∧ bad n = false := by
  cases hg : getnum v fixed with
  | none => simp [hg] at h
  | some nv =>
    rcases nv with ⟨m, r⟩
    have hm := getnum_range hg
    simp only [hg, Option.bind] at h
    by_cases hb : bad m = true
    · simp [hb] at h
    · simp [hb] at h; obtain ⟨rfl, _⟩ := h; exact ⟨hm, by simpa using hb⟩

theorem readStd_range {k : Std} {v : Bytes} {n : Nat} {v' : Bytes} (h : readStd k v = some (n, v')) : rangeOK k n := by
  cases k with
  | longYear =>
    simp only [readStd] at h
    split at h
    · rename_i a c d e r
      split at h
      · rename_i hd
        simp only [Bool.and_eq_true] at hd
        simp at h
        have := dval_lt hd.1.1.1; have := dval_lt hd.1.1.2; have := dval_lt hd.1.2; have := dval_lt hd.2
        simp only [rangeOK, ← h.1, num4]; omega
      · simp at h
    · simp at h
  | zeroMonth =>
    simp only [readStd, Option.bind] at h
    split at h
    · simp at h
    · rename_i nv hg
      rcases nv with ⟨m, r⟩
      have hm := getnum_range hg
      simp only at h
      split at h
      · simp at h
      · rename_i hc; simp at h; obtain ⟨rfl, _⟩ := h; simp only [rangeOK]; simp at hc; omega
  | zeroDay => exact getnum_range h
  | hour =>
    simp only [readStd, Option.bind] at h
    split at h
    · simp at h
    · rename_i nv hg
      rcases nv with ⟨m, r⟩
      have hm := getnum_range hg
      simp only at h
      split at h
      · simp at h
      · rename_i hc; simp at h; obtain ⟨rfl, _⟩ := h; simp only [rangeOK]; omega
  | zeroMinute =>
    simp only [readStd, Option.bind] at h
    split at h
    · simp at h
    · rename_i nv hg
      rcases nv with ⟨m, r⟩
      have hm := getnum_range hg
      simp only at h
      split at h
      · simp at h
      · rename_i hc; simp at h; obtain ⟨rfl, _⟩ := h; simp only [rangeOK]; omega
  | zeroSecond =>
    simp only [readStd, Option.bind] at h
    split at h
    · simp at h
    · rename_i nv hg
      rcases nv with ⟨m, r⟩
      have hm := getnum_range hg
      simp only at h
      split at h
      · simp at h
      · rename_i hc; simp at h; obtain ⟨rfl, _⟩ := h; simp only [rangeOK]; omega


/-! ### literal text -/

theorem dropWhile_append_ne (q : UInt8 → Bool) (ps r : Bytes) (hr : ∀ x t, r = x :: t → q x = false) :
    (ps ++ r).dropWhile q = ps.dropWhile q ++ r := by
  induction ps with
  | nil =>
    rcases r with _ | ⟨x, t⟩
    · rfl
    · simp [List.dropWhile, hr x t rfl]
  | cons a ps ih =>
    simp only [List.cons_append, List.dropWhile]
    split
    · exact ih
    · rfl

theorem dropWhile_length_le (q : UInt8 → Bool) (ps : Bytes) : (ps.dropWhile q).length ≤ ps.length := by
  induction ps with
  | nil => simp
  | cons a ps ih => simp only [List.dropWhile]; split <;> simp <;> omega

/-- `skip` removes a prefix that is literally there, provided the text behind it does not begin with a blank -/
theorem skip_self (r : Bytes) (hr : ∀ x t, r = x :: t → x ≠ 32) (f : Nat) (p : Bytes) (hf : p.length ≤ f) :
    skip f (p ++ r) p = some r := by
  induction f generalizing p with
  | zero =>
    have : p = [] := by simpa using hf
    subst this; simp [skip]
  | succ f ih =>
    rcases p with _ | ⟨c, ps⟩
    · simp [skip]
    · by_cases hc : c = 32
      · subst hc
        have hq : ∀ x t, r = x :: t → (x == 32) = false := fun x t e => by simpa using hr x t e
        have h1 : cutspace ((32 :: ps) ++ r) = cutspace (32 :: ps) ++ r := dropWhile_append_ne _ _ _ hq
        have hl : (cutspace (32 :: ps)).length ≤ f := by
          have := dropWhile_length_le (· == 32) ps
          simp only [cutspace, List.dropWhile, beq_self_eq_true] at this ⊢
          simp at hf; omega
        simp only [List.cons_append, skip, beq_self_eq_true, if_true, bne_self_eq_false, Bool.false_eq_true, if_false]
        simp only [List.cons_append] at h1
        rw [h1]
        exact ih _ hl
      · have : (c == 32) = false := by simpa using hc
        simp only [List.cons_append, skip, this, Bool.false_eq_true, if_false, bne_self_eq_false]
        exact ih ps (by simp at hf; omega)

theorem padOf_head (k : Std) (n : Nat) (h : rangeOK k n) (rest : Bytes) :
    ∀ x t, padOf k n ++ rest = x :: t → x ≠ 32 := by
  intro x t e
  by_cases hk : k = .longYear
  · subst hk
    simp only [rangeOK] at h
    rw [padOf_four n h] at e
    simp only [List.cons_append, List.cons.injEq] at e
    rw [← e.1]; exact (digit_ofNat (d := n / 1000) (by omega)).2.2.2.2
  · have hn : n < 100 := by
      cases k <;> first | exact absurd rfl hk | (simp [rangeOK] at h; omega)
    rw [padOf_two k hk n hn] at e
    simp only [List.cons_append, List.cons.injEq] at e
    rw [← e.1]; exact (digit_ofNat (d := n / 10) (by omega)).2.2.2.2

/-! ### `Tm` as a function of the element -/

theorem get_set_same (t : Tm) (k : Std) (n : Nat) : (t.set k n).get k = n := by
  cases k <;> simp [Tm.set, Tm.get]

theorem get_set_ne (t : Tm) (k k' : Std) (n : Nat) (h : k' ≠ k) : (t.set k n).get k' = t.get k' := by
  cases k <;> cases k' <;> first | exact absurd rfl h | simp [Tm.set, Tm.get]

def kinds (its : List Item) : List Std := its.map (·.2)

/-- the seconds, if present, are the last element -/
def SecLast : List Item → Prop
  | [] => True
  | (_, k) :: r => (k = .zeroSecond → r = []) ∧ SecLast r

theorem fracDrop_nil : fracDrop [] = [] := rfl

/-- reading back a rendering -/
theorem parseItems_render (its : List Item) (T : Tm) (hr : ∀ it ∈ its, rangeOK it.2 (T.get it.2))
    (hnd : (kinds its).Nodup) (hsl : SecLast its) (t0 : Tm) :
    ∃ t', parseItems its (render its T) t0 = some t' ∧ (∀ k ∈ kinds its, t'.get k = T.get k) ∧
      (∀ k, k ∉ kinds its → t'.get k = t0.get k) := by
  induction its generalizing t0 with
  | nil => exact ⟨t0, by simp [parseItems, render], by simp [kinds], fun _ _ => rfl⟩
  | cons it r ih =>
    rcases it with ⟨p, k⟩
    have hk := hr (p, k) (by simp)
    simp only at hk
    have hs := skip_self (padOf k (T.get k) ++ render r T) (padOf_head k _ hk _) (p.length + 1) p (by omega)
    have hrd := readStd_pad k (T.get k) hk (render r T)
    simp only [kinds, List.map_cons, List.nodup_cons] at hnd
    have hv : (if k == Std.zeroSecond then fracDrop (render r T) else render r T) = render r T := by
      by_cases hz : k = .zeroSecond
      · have := hsl.1 hz; subst this; simp [render, fracDrop_nil]
      · have : (k == Std.zeroSecond) = false := by simpa using hz
        simp [this]
    obtain ⟨t', h1, h2, h3⟩ := ih (fun it hi => hr it (by simp [hi])) hnd.2 hsl.2 (t0.set k (T.get k))
    refine ⟨t', ?_, ?_, ?_⟩
    · simp only [parseItems, render, List.append_assoc, hs, hrd, hv, h1]
    · intro k' hk'
      simp only [kinds, List.map_cons, List.mem_cons] at hk'
      rcases hk' with rfl | hk'
      · rw [h3 _ hnd.1, get_set_same]
      · exact h2 k' hk'
    · intro k' hk'
      simp only [kinds, List.map_cons, List.mem_cons, not_or] at hk'
      rw [h3 k' hk'.2, get_set_ne _ _ _ _ hk'.1]

/-- what a successful parse tells about the fields -/
theorem parseItems_range (its : List Item) (hnd : (kinds its).Nodup) (v : Bytes) (t0 t' : Tm)
    (h : parseItems its v t0 = some t') :
    (∀ k ∈ kinds its, rangeOK k (t'.get k)) ∧ (∀ k, k ∉ kinds its → t'.get k = t0.get k) := by
  induction its generalizing v t0 with
  | nil =>
    simp only [parseItems] at h
    split at h
    · simp at h; subst h; exact ⟨by simp [kinds], fun _ _ => rfl⟩
    · simp at h
  | cons it r ih =>
    rcases it with ⟨p, k⟩
    simp only [parseItems] at h
    split at h
    · simp at h
    · rename_i v1 hs
      split at h
      · simp at h
      · rename_i n v2 hrd
        simp only [kinds, List.map_cons, List.nodup_cons] at hnd
        obtain ⟨h2, h3⟩ := ih hnd.2 _ _ h
        have hrng := readStd_range hrd
        constructor
        · intro k' hk'
          simp only [kinds, List.map_cons, List.mem_cons] at hk'
          rcases hk' with rfl | hk'
          · rw [h3 _ hnd.1, get_set_same]; exact hrng
          · exact h2 k' hk'
        · intro k' hk'
          simp only [kinds, List.map_cons, List.mem_cons, not_or] at hk'
          rw [h3 k' hk'.2, get_set_ne _ _ _ _ hk'.1]

theorem render_congr (its : List Item) (t t' : Tm) (h : ∀ k ∈ kinds its, t.get k = t'.get k) : render its t = render its t' := by
  induction its with
  | nil => rfl
  | cons it r ih =>
    rcases it with ⟨p, k⟩
    simp only [render]
    rw [h k (by simp [kinds]), ih (fun k hk => h k (by simp [kinds] at hk ⊢; exact Or.inr hk))]


/-! ### the whole call -/

def dayOK (T : Tm) : Prop := 1 ≤ T.get .zeroDay ∧ T.get .zeroDay ≤ daysIn (T.get .zeroMonth) (T.get .longYear)

theorem finish_inv (t t'' : Tm) (h : finish t = some t'') : dayOK t ∧ ∀ k, t''.get k = t.get k := by
  simp only [finish] at h
  split at h
  · simp at h
  · rename_i hc
    simp at h; subst h
    refine ⟨?_, fun k => by cases k <;> simp [Tm.get]⟩
    simp only [Bool.or_eq_true, decide_eq_true_eq, not_or] at hc
    simp only [dayOK, Tm.get]; omega

theorem finish_some (t : Tm) (h : dayOK t) : ∃ t'', finish t = some t'' := by
  simp only [dayOK, Tm.get] at h
  have : ¬ ((decide (t.day.getD 1 < 1) || decide (t.day.getD 1 > daysIn (t.month.getD 1) t.year)) = true) := by
    simp only [Bool.or_eq_true, decide_eq_true_eq, not_or]; omega
  refine ⟨{ t with month := some (t.month.getD 1), day := some (t.day.getD 1) }, ?_⟩
  simp [finish]; omega

/-- `s` is the rendering of in-range fields forming a real calendar day -/
def Canon (its : List Item) (s : Bytes) : Prop :=
  ∃ T : Tm, s = render its T ∧ (∀ k ∈ kinds its, rangeOK k (T.get k)) ∧
    (∀ k, k ∉ kinds its → T.get k = ({} : Tm).get k) ∧ dayOK T

theorem layout_len (its : List Item) : its.length ≤ (layoutOf its).length := by
  induction its with
  | nil => simp
  | cons it r ih =>
    rcases it with ⟨p, k⟩
    have : 2 ≤ (stdText k).length := by cases k <;> simp [stdText]
    simp only [layoutOf, List.length_append, List.length_cons]; omega

theorem dayOK_congr (t T : Tm) (h : ∀ k, t.get k = T.get k) : dayOK t ↔ dayOK T := by
  simp only [dayOK, h]

theorem model_iff (its : List Item) (hOK : ∀ it ∈ its, ItemOK it) (hnd : (kinds its).Nodup) (hsl : SecLast its) (s : Bytes) :
    (∃ b, parseStrict (layoutOf its) s = some b) ∧ (parseStrict (layoutOf its) s = some true ↔ Canon its s) := by
  have hfuel : its.length + 1 ≤ (layoutOf its).length + 1 := by have := layout_len its; omega
  -- what a canonical string parses to
  have hcanon : ∀ T : Tm, s = render its T → (∀ k ∈ kinds its, rangeOK k (T.get k)) →
      (∀ k, k ∉ kinds its → T.get k = ({} : Tm).get k) →
      ∃ t, parseItems its s {} = some t ∧ ∀ k, t.get k = T.get k := by
    intro T hs hr hd
    obtain ⟨t, h1, h2, h3⟩ := parseItems_render its T (fun it hi => hr it.2 (by simp [kinds]; exact ⟨it.1, hi⟩)) hnd hsl {}
    refine ⟨t, by rw [hs]; exact h1, fun k => ?_⟩
    by_cases hk : k ∈ kinds its
    · exact h2 k hk
    · rw [h3 k hk, hd k hk]
  simp only [parseStrict, parseLoop_items its hOK _ hfuel]
  cases hp : parseItems its s {} with
  | none =>
    refine ⟨⟨false, rfl⟩, ⟨fun h => by simp at h, fun ⟨T, hs, hr, hd, _⟩ => ?_⟩⟩
    obtain ⟨t, ht, _⟩ := hcanon T hs hr hd
    rw [hp] at ht; simp at ht
  | some t =>
    obtain ⟨hrng, hframe⟩ := parseItems_range its hnd s {} t hp
    simp only
    cases hfin : finish t with
    | none =>
      refine ⟨⟨false, rfl⟩, ⟨fun h => by simp at h, fun ⟨T, hs, hr, hd, hday⟩ => ?_⟩⟩
      obtain ⟨t2, ht, hg⟩ := hcanon T hs hr hd
      rw [hp] at ht; simp at ht; subst ht
      obtain ⟨t'', h''⟩ := finish_some t ((dayOK_congr t T hg).mpr hday)
      rw [hfin] at h''; simp at h''
    | some t'' =>
      obtain ⟨hday, hget⟩ := finish_inv t t'' hfin
      have hfit : ∀ it ∈ its, fits it.2 (t''.get it.2) := fun it hi => by
        rw [hget]; exact rangeOK_fits (hrng it.2 (by simp [kinds]; exact ⟨it.1, hi⟩))
      simp only [formatLoop_items its hOK t'' hfit _ hfuel, Option.map]
      refine ⟨⟨_, rfl⟩, ⟨fun h => ?_, fun ⟨T, hs, hr, hd, hdayT⟩ => ?_⟩⟩
      · simp at h
        refine ⟨t'', h.symm, fun k hk => by rw [hget]; exact hrng k hk, fun k hk => by rw [hget]; exact hframe k hk, ?_⟩
        exact (dayOK_congr t'' t hget).mpr hday
      · obtain ⟨t2, ht, hg⟩ := hcanon T hs hr hd
        rw [hp] at ht; simp at ht; subst ht
        have : render its t'' = s := by
          rw [hs]; exact render_congr its t'' T (fun k _ => by rw [hget, hg])
        simp [this]


/-! ### the independent reading (`Spec.Lang.fields`) of a rendering -/

open Spec.Lang in
theorem num_two (a c : UInt8) : num [a, c] = dval a * 10 + dval c := by simp [num, dval]
open Spec.Lang in
theorem num_four (a c d e : UInt8) : num [a, c, d, e] = num4 a c d e := by simp [num, num4, dval]

/-- number → text → number -/
theorem pad_facts (k : Std) (n : Nat) (h : fits k n) :
    (padOf k n).length = width k ∧ (padOf k n).all Spec.Lang.digit = true ∧ Spec.Lang.num (padOf k n) = n := by
  by_cases hk : k = .longYear
  · subst hk
    simp only [fits, if_true] at h
    rw [padOf_four n h]
    have d1 := digit_ofNat (d := n / 1000) (by omega)
    have d2 := digit_ofNat (d := n / 100 % 10) (by omega)
    have d3 := digit_ofNat (d := n / 10 % 10) (by omega)
    have d4 := digit_ofNat (d := n % 10) (by omega)
    refine ⟨rfl, by simp only [List.all_cons, List.all_nil, d1.2.1, d2.2.1, d3.2.1, d4.2.1, Bool.and_self], ?_⟩
    rw [num_four, num4, d1.2.2.1, d2.2.2.1, d3.2.2.1, d4.2.2.1]; omega
  · simp only [fits, hk, if_false] at h
    rw [padOf_two k hk n h]
    have d1 := digit_ofNat (d := n / 10) (by omega)
    have d2 := digit_ofNat (d := n % 10) (by omega)
    refine ⟨by cases k <;> first | exact absurd rfl hk | rfl, by simp only [List.all_cons, List.all_nil, d1.2.1, d2.2.1, Bool.and_self], ?_⟩
    rw [num_two, d1.2.2.1, d2.2.2.1]; omega

/-- text → number → text -/
theorem num_facts (k : Std) (f : Bytes) (hl : f.length = width k) (hd : f.all Spec.Lang.digit = true) :
    padOf k (Spec.Lang.num f) = f ∧ fits k (Spec.Lang.num f) := by
  by_cases hk : k = .longYear
  · subst hk
    rcases f with _ | ⟨a, _ | ⟨c, _ | ⟨d, _ | ⟨e, _ | ⟨x, t⟩⟩⟩⟩⟩ <;> simp [width] at hl
    simp only [List.all_cons, List.all_nil, Bool.and_true, Bool.and_eq_true, specDigit_eq] at hd
    obtain ⟨ha, hc, hd', he⟩ := hd
    have := dval_lt ha; have := dval_lt hc; have := dval_lt hd'; have := dval_lt he
    have hn : num4 a c d e < 10000 := by simp only [num4]; omega
    rw [num_four]
    refine ⟨?_, by simp [fits, hn]⟩
    rw [padOf_four _ hn]
    have e1 : num4 a c d e / 1000 = dval a := by simp only [num4]; omega
    have e2 : num4 a c d e / 100 % 10 = dval c := by simp only [num4]; omega
    have e3 : num4 a c d e / 10 % 10 = dval d := by simp only [num4]; omega
    have e4 : num4 a c d e % 10 = dval e := by simp only [num4]; omega
    rw [e1, e2, e3, e4, ofNat_dval ha, ofNat_dval hc, ofNat_dval hd', ofNat_dval he]
  · have hw : width k = 2 := by cases k <;> first | exact absurd rfl hk | rfl
    rw [hw] at hl
    rcases f with _ | ⟨a, _ | ⟨c, _ | ⟨x, t⟩⟩⟩ <;> simp at hl
    simp only [List.all_cons, List.all_nil, Bool.and_true, Bool.and_eq_true, specDigit_eq] at hd
    obtain ⟨ha, hc⟩ := hd
    have := dval_lt ha; have := dval_lt hc
    rw [num_two]
    have hn : dval a * 10 + dval c < 100 := by omega
    refine ⟨?_, by simp [fits, hk, hn]⟩
    rw [padOf_two k hk _ hn]
    have e1 : (dval a * 10 + dval c) / 10 = dval a := by omega
    have e2 : (dval a * 10 + dval c) % 10 = dval c := by omega
    rw [e1, e2, ofNat_dval ha, ofNat_dval hc]

def patOf (its : List Item) : List (Nat ⊕ Bytes) := its.flatMap fun it => [Sum.inr it.1, Sum.inl (width it.2)]

theorem isPrefixOf_append (p x : Bytes) : p.isPrefixOf (p ++ x) = true := by
  induction p with
  | nil => simp [List.isPrefixOf]
  | cons a p ih => simp [List.isPrefixOf, ih]

theorem isPrefixOf_split (p s : Bytes) (h : p.isPrefixOf s = true) : s = p ++ s.drop p.length := by
  induction p generalizing s with
  | nil => simp
  | cons a p ih =>
    rcases s with _ | ⟨b, s⟩
    · simp [List.isPrefixOf] at h
    · simp only [List.isPrefixOf, Bool.and_eq_true, beq_iff_eq] at h
      simp only [List.length_cons, List.drop_succ_cons, List.cons_append, ← ih s h.2, h.1]

theorem fields_render (its : List Item) (T : Tm) (hfit : ∀ it ∈ its, fits it.2 (T.get it.2)) :
    Spec.Lang.fields (patOf its) (render its T) = some (its.map fun it => T.get it.2) := by
  induction its with
  | nil => simp [patOf, render, Spec.Lang.fields]
  | cons it r ih =>
    rcases it with ⟨p, k⟩
    obtain ⟨hl, hd, hn⟩ := pad_facts k (T.get k) (hfit (p, k) (by simp))
    have ih' := ih (fun it hi => hfit it (by simp [hi]))
    simp only [patOf, List.flatMap_cons, List.cons_append, List.nil_append] at ih' ⊢
    simp only [render, Spec.Lang.fields, List.append_assoc, isPrefixOf_append, if_true, List.drop_left]
    rw [← hl, List.take_left, List.drop_left]
    simp only [beq_self_eq_true, hd, Bool.and_self, if_true, ih', hn, Option.map, List.map_cons]

theorem fields_inv (its : List Item) (T : Tm) (s : Bytes) (ns : List Nat)
    (h : Spec.Lang.fields (patOf its) s = some ns) (hT : (its.map fun it => T.get it.2) = ns) :
    s = render its T ∧ ∀ it ∈ its, fits it.2 (T.get it.2) := by
  induction its generalizing s ns with
  | nil =>
    simp only [patOf, List.flatMap_nil, Spec.Lang.fields] at h
    split at h
    · rename_i he; exact ⟨by simpa [render] using he, by simp⟩
    · simp at h
  | cons it r ih =>
    rcases it with ⟨p, k⟩
    simp only [patOf, List.flatMap_cons, List.cons_append, List.nil_append, Spec.Lang.fields] at h
    split at h
    · rename_i hp
      split at h
      · rename_i hf
        simp only [Bool.and_eq_true, beq_iff_eq] at hf
        cases hrest : Spec.Lang.fields (List.flatMap (fun it => [Sum.inr it.1, Sum.inl (width it.2)]) r)
            (List.drop (width k) (List.drop p.length s)) with
        | none => rw [hrest] at h; simp at h
        | some ns' =>
          rw [hrest] at h; simp only [Option.map, Option.some.injEq] at h
          subst h
          simp only [List.map_cons, List.cons.injEq] at hT
          obtain ⟨hr, hfr⟩ := ih _ ns' hrest hT.2
          obtain ⟨hpad, hfit⟩ := num_facts k _ hf.1 hf.2
          rw [← hT.1] at hpad hfit
          have e1 := isPrefixOf_split p s hp
          have e2 : List.drop p.length s = List.take (width k) (List.drop p.length s) ++ List.drop (width k) (List.drop p.length s) :=
            (List.take_append_drop _ _).symm
          refine ⟨?_, ?_⟩
          · simp only [render]
            rw [hpad, ← hr, List.append_assoc, ← e2, ← e1]
          · intro it hi
            simp only [List.mem_cons] at hi
            rcases hi with rfl | hi
            · exact hfit
            · exact hfr it hi
      · simp at h
    · simp at h

theorem fields_inr_nil (rest : List (Nat ⊕ Bytes)) (s : Bytes) :
    Spec.Lang.fields (Sum.inr [] :: rest) s = Spec.Lang.fields rest s := by
  simp [Spec.Lang.fields, List.isPrefixOf]

theorem isLeap_eq (y : Nat) : isLeap y = Spec.Lang.leap y := by
  unfold isLeap Spec.Lang.leap
  rw [Bool.eq_iff_iff]
  simp only [Bool.and_eq_true, Bool.or_eq_true, beq_iff_eq, bne_iff_ne, ne_eq]
  omega

theorem daysIn_eq (m y : Nat) : daysIn m y = Spec.Lang.daysIn y m := by
  unfold daysIn Spec.Lang.daysIn
  rw [isLeap_eq]
  by_cases h2 : m = 2
  · subst h2; cases Spec.Lang.leap y <;> simp
  · have : (m == 2) = false := by simpa using h2
    simp [this]

theorem conclude (x : Option Bool) (sp : Bool) (P : Prop) (hb : ∃ b, x = some b) (h1 : x = some true ↔ P)
    (h2 : sp = true ↔ P) : x = some sp := by
  obtain ⟨b, rfl⟩ := hb
  cases b <;> cases sp <;> simp_all

theorem default_get (k : Std) : ({} : Tm).get k = if k = .zeroMonth ∨ k = .zeroDay then 1 else 0 := by
  cases k <;> simp [Tm.get]


/-! ### the four rules -/

def itsYear : List Item := [([], .longYear)]
def itsY2M (sep : Bytes) : List Item := [([], .longYear), (sep, .zeroMonth)]
def itsDate (sep : Bytes) : List Item := [([], .longYear), (sep, .zeroMonth), (sep, .zeroDay)]
def itsDatetime (d t c : Bytes) : List Item :=
  [([], .longYear), (d, .zeroMonth), (d, .zeroDay), (t, .hour), (c, .zeroMinute), (c, .zeroSecond)]

theorem ok_year : ItemOK (([], .longYear) : Item) := Or.inr ⟨rfl, rfl⟩
theorem ok_sep (sep : Bytes) (h : sep.all sepc = true) (k : Std) (hk : k ≠ .longYear) : ItemOK (sep, k) := Or.inl ⟨h, hk⟩

theorem canon_year (s : Bytes) : Spec.Lang.year s = true ↔ Canon itsYear s := by
  have hpat : Spec.Lang.fields [Sum.inl 4] s = Spec.Lang.fields (patOf itsYear) s := by
    simp [patOf, itsYear, fields_inr_nil, width]
  unfold Spec.Lang.year
  rw [hpat]
  constructor
  · intro h
    cases hf : Spec.Lang.fields (patOf itsYear) s with
    | none => simp [hf] at h
    | some ns =>
      have hl : ∃ y, ns = [y] := by
        simp only [patOf, itsYear, List.flatMap_cons, List.flatMap_nil, List.append_nil, fields_inr_nil, width,
          Spec.Lang.fields] at hf
        split at hf
        · split at hf
          · simp at hf; exact ⟨_, hf.symm⟩
          · simp at hf
        · simp at hf
      obtain ⟨y, rfl⟩ := hl
      obtain ⟨hs, hfit⟩ := fields_inv itsYear { year := y } s [y] hf (by simp [itsYear, Tm.get])
      refine ⟨{ year := y }, hs, ?_, ?_, ?_⟩
      · intro k hk
        simp [kinds, itsYear] at hk; subst hk
        have := hfit ([], .longYear) (by simp [itsYear])
        simpa [fits, rangeOK, Tm.get] using this
      · intro k hk
        cases k <;> simp [kinds, itsYear] at hk <;> simp [Tm.get]
      · simp [dayOK, Tm.get, daysIn]
  · rintro ⟨T, hs, hr, _, _⟩
    have := fields_render itsYear T (fun it hi => rangeOK_fits (hr it.2 (by simp [kinds]; exact ⟨it.1, hi⟩)))
    rw [hs, this]; rfl


theorem canon_y2m (sep s : Bytes) : Spec.Lang.year2month sep s = true ↔ Canon (itsY2M sep) s := by
  have hpat : Spec.Lang.fields [Sum.inl 4, Sum.inr sep, Sum.inl 2] s = Spec.Lang.fields (patOf (itsY2M sep)) s := by
    simp [patOf, itsY2M, fields_inr_nil, width]
  unfold Spec.Lang.year2month
  rw [hpat]
  constructor
  · intro h
    split at h
    · rename_i y m hf
      simp only [Bool.and_eq_true, decide_eq_true_eq] at h
      obtain ⟨hs, hfit⟩ := fields_inv (itsY2M sep) { year := y, month := some m } s [y, m] hf (by simp [itsY2M, Tm.get])
      refine ⟨_, hs, ?_, ?_, ?_⟩
      · intro k hk
        simp [kinds, itsY2M] at hk
        rcases hk with rfl | rfl
        · have := hfit ([], .longYear) (by simp [itsY2M]); simpa [fits, rangeOK, Tm.get] using this
        · simpa [rangeOK, Tm.get] using h
      · intro k hk
        cases k <;> simp [kinds, itsY2M] at hk <;> simp [Tm.get]
      · have h28 : ∀ m y, 28 ≤ daysIn m y := by
          intro m y; unfold daysIn; split <;> (try split) <;> (try split) <;> omega
        have := h28 m y
        simp only [dayOK, Tm.get, Option.getD]; omega
    · simp at h
  · rintro ⟨T, hs, hr, _, _⟩
    have := fields_render (itsY2M sep) T (fun it hi => rangeOK_fits (hr it.2 (by simp [kinds]; exact ⟨it.1, hi⟩)))
    rw [hs, this]
    have hm := hr .zeroMonth (by simp [kinds, itsY2M])
    simp only [rangeOK] at hm
    simp [itsY2M, hm.1, hm.2]

theorem canon_date (sep s : Bytes) : Spec.Lang.date sep s = true ↔ Canon (itsDate sep) s := by
  have hpat : Spec.Lang.fields [Sum.inl 4, Sum.inr sep, Sum.inl 2, Sum.inr sep, Sum.inl 2] s
      = Spec.Lang.fields (patOf (itsDate sep)) s := by
    simp [patOf, itsDate, fields_inr_nil, width]
  unfold Spec.Lang.date
  rw [hpat]
  constructor
  · intro h
    split at h
    · rename_i y m d hf
      simp only [Bool.and_eq_true, decide_eq_true_eq] at h
      obtain ⟨hs, hfit⟩ := fields_inv (itsDate sep) { year := y, month := some m, day := some d } s [y, m, d] hf
        (by simp [itsDate, Tm.get])
      refine ⟨_, hs, ?_, ?_, ?_⟩
      · intro k hk
        simp [kinds, itsDate] at hk
        rcases hk with rfl | rfl | rfl
        · have := hfit ([], .longYear) (by simp [itsDate]); simpa [fits, rangeOK, Tm.get] using this
        · simp only [rangeOK, Tm.get, Option.getD]; omega
        · have := hfit (sep, .zeroDay) (by simp [itsDate]); simpa [fits, rangeOK, Tm.get] using this
      · intro k hk
        cases k <;> simp [kinds, itsDate] at hk <;> simp [Tm.get]
      · simp only [dayOK, Tm.get, Option.getD, daysIn_eq]; omega
    · simp at h
  · rintro ⟨T, hs, hr, _, hday⟩
    have := fields_render (itsDate sep) T (fun it hi => rangeOK_fits (hr it.2 (by simp [kinds]; exact ⟨it.1, hi⟩)))
    rw [hs, this]
    have hm := hr .zeroMonth (by simp [kinds, itsDate])
    simp only [rangeOK] at hm
    simp only [dayOK, daysIn_eq] at hday
    have e : T.get .longYear = T.year := rfl
    simp [itsDate, hm.1, hm.2, hday.1, ← e, hday.2]

theorem canon_datetime (d t c s : Bytes) : Spec.Lang.datetime d t c s = true ↔ Canon (itsDatetime d t c) s := by
  have hpat : Spec.Lang.fields [Sum.inl 4, Sum.inr d, Sum.inl 2, Sum.inr d, Sum.inl 2, Sum.inr t, Sum.inl 2, Sum.inr c,
      Sum.inl 2, Sum.inr c, Sum.inl 2] s = Spec.Lang.fields (patOf (itsDatetime d t c)) s := by
    simp [patOf, itsDatetime, fields_inr_nil, width]
  unfold Spec.Lang.datetime
  rw [hpat]
  constructor
  · intro h
    split at h
    · rename_i y mo da hh mi se hf
      simp only [Bool.and_eq_true, decide_eq_true_eq] at h
      obtain ⟨hs, hfit⟩ := fields_inv (itsDatetime d t c)
        { year := y, month := some mo, day := some da, hour := hh, min := mi, sec := se } s [y, mo, da, hh, mi, se] hf
        (by simp [itsDatetime, Tm.get])
      refine ⟨_, hs, ?_, ?_, ?_⟩
      · intro k hk
        simp [kinds, itsDatetime] at hk
        rcases hk with rfl | rfl | rfl | rfl | rfl | rfl
        · have := hfit ([], .longYear) (by simp [itsDatetime]); simpa [fits, rangeOK, Tm.get] using this
        · simp only [rangeOK, Tm.get, Option.getD]; omega
        · have := hfit (d, .zeroDay) (by simp [itsDatetime]); simpa [fits, rangeOK, Tm.get] using this
        · simp only [rangeOK, Tm.get]; omega
        · simp only [rangeOK, Tm.get]; omega
        · simp only [rangeOK, Tm.get]; omega
      · intro k hk
        cases k <;> simp [kinds, itsDatetime] at hk
      · simp only [dayOK, Tm.get, Option.getD, daysIn_eq]; omega
    · simp at h
  · rintro ⟨T, hs, hr, _, hday⟩
    have := fields_render (itsDatetime d t c) T (fun it hi => rangeOK_fits (hr it.2 (by simp [kinds]; exact ⟨it.1, hi⟩)))
    rw [hs, this]
    have hm := hr .zeroMonth (by simp [kinds, itsDatetime])
    have hh := hr .hour (by simp [kinds, itsDatetime])
    have hmi := hr .zeroMinute (by simp [kinds, itsDatetime])
    have hse := hr .zeroSecond (by simp [kinds, itsDatetime])
    simp only [rangeOK] at hm hh hmi hse
    simp only [dayOK, daysIn_eq] at hday
    have e : T.get .longYear = T.year := rfl
    have e1 : T.get .hour ≤ 23 := by omega
    have e2 : T.get .zeroMinute ≤ 59 := by omega
    have e3 : T.get .zeroSecond ≤ 59 := by omega
    simp [itsDatetime, hm.1, hm.2, hday.1, ← e, hday.2, e1, e2, e3]


theorem strict_of (its : List Item) (hOK : ∀ it ∈ its, ItemOK it) (hnd : (kinds its).Nodup) (hsl : SecLast its)
    (s : Bytes) (sp : Bool) (h : sp = true ↔ Canon its s) : parseStrict (layoutOf its) s = some sp := by
  obtain ⟨hb, hiff⟩ := model_iff its hOK hnd hsl s
  exact conclude _ sp _ hb hiff h

/-- `year`: the strict parser on the layout `2006` = four digits -/
theorem strict_year (s : Bytes) : parseStrict [50, 48, 48, 54] s = some (Spec.Lang.year s) := by
  have := strict_of itsYear (by simp [itsYear, ok_year]) (by simp [kinds, itsYear]) (by simp [SecLast, itsYear]) s _ (canon_year s)
  simpa [layoutOf, itsYear, stdText] using this

theorem strict_y2m (sep s : Bytes) (h : sep.all sepc = true) :
    parseStrict ([50, 48, 48, 54] ++ sep ++ [48, 49]) s = some (Spec.Lang.year2month sep s) := by
  have := strict_of (itsY2M sep)
    (by intro it hi; simp [itsY2M] at hi; rcases hi with rfl | rfl
        · exact ok_year
        · exact ok_sep sep h _ (by decide))
    (by simp [kinds, itsY2M]) (by simp [SecLast, itsY2M]) s _ (canon_y2m sep s)
  simpa [layoutOf, itsY2M, stdText] using this

theorem strict_date (sep s : Bytes) (h : sep.all sepc = true) :
    parseStrict ([50, 48, 48, 54] ++ sep ++ [48, 49] ++ sep ++ [48, 50]) s = some (Spec.Lang.date sep s) := by
  have := strict_of (itsDate sep)
    (by intro it hi; simp [itsDate] at hi; rcases hi with rfl | rfl | rfl
        · exact ok_year
        · exact ok_sep sep h _ (by decide)
        · exact ok_sep sep h _ (by decide))
    (by simp [kinds, itsDate]) (by simp [SecLast, itsDate]) s _ (canon_date sep s)
  simpa [layoutOf, itsDate, stdText] using this

theorem strict_datetime (d t c s : Bytes) (hd : d.all sepc = true) (ht : t.all sepc = true) (hc : c.all sepc = true) :
    parseStrict ([50, 48, 48, 54] ++ d ++ [48, 49] ++ d ++ [48, 50] ++ t ++ [49, 53] ++ c ++ [48, 52] ++ c ++ [48, 53]) s
      = some (Spec.Lang.datetime d t c s) := by
  have := strict_of (itsDatetime d t c)
    (by intro it hi; simp [itsDatetime] at hi; rcases hi with rfl | rfl | rfl | rfl | rfl | rfl
        · exact ok_year
        · exact ok_sep d hd _ (by decide)
        · exact ok_sep d hd _ (by decide)
        · exact ok_sep t ht _ (by decide)
        · exact ok_sep c hc _ (by decide)
        · exact ok_sep c hc _ (by decide))
    (by simp [kinds, itsDatetime]) (by simp [SecLast, itsDatetime]) s _ (canon_datetime d t c s)
  simpa [layoutOf, itsDatetime, stdText] using this

end PGV.Proofs.TimeParse
