import PGV.Spec.Lang
import PGV.Model.TimeParse

/-! The transcription of `time.Parse` + `Format` (`Model/TimeParse.lean`) on the layouts of the date
rules = the independent readings `Spec.Lang.year / year2month / date / datetime`, for every string. -/

namespace PGV.Proofs.TimeParse
open PGV PGV.Model.TimeParse

/-- the bytes `Spec.Lang.sepOK` admits in a separator -/
def sepc (c : UInt8) : Bool :=
  c == 45 || c == 47 || c == 46 || c == 58 || c == 32 || c == 43 || c == 95 || c == 44 || c == 35

theorem sepOK_eq (sep : Bytes) : Spec.Lang.sepOK sep = sep.all sepc := rfl

theorem sepc_cases {c : UInt8} (h : sepc c = true) :
    c = 45 ∨ c = 47 ∨ c = 46 ∨ c = 58 ∨ c = 32 ∨ c = 43 ∨ c = 95 ∨ c = 44 ∨ c = 35 := by
  simpa [sepc, Bool.or_eq_true, or_assoc] using h

def stdText : Std → Bytes
  | .longYear => [50, 48, 48, 54]
  | .zeroMonth => [48, 49]
  | .zeroDay => [48, 50]
  | .hour => [49, 53]
  | .zeroMinute => [48, 52]
  | .zeroSecond => [48, 53]

/-- what the scan needs to know about the text behind a separator byte -/
structure OkNext (r : Bytes) : Prop where
  h50 : ∀ t, r ≠ 50 :: t
  h57 : ∀ t, r ≠ 57 :: t
  h95 : ∀ t, r ≠ 95 :: 50 :: t
  h4855 : ∀ t, r ≠ 48 :: 55 :: t
  h48 : ∀ t, r = 48 :: t → ∃ x t', t = x :: t' ∧ x ≠ 48 ∧ isDigit x = true

theorem fracLit (c ch : UInt8) (r : Bytes) (hc : c = 46 ∨ c = 44) (hr : OkNext (ch :: r)) :
    classify c (ch :: r) = At.lit := by
  by_cases h0 : ch = 48
  · subst h0
    obtain ⟨x, t', rfl, hx, hd⟩ := hr.h48 r rfl
    have : ((x == 48) = false) := by simpa using hx
    rcases hc with rfl | rfl <;> simp [classify, List.dropWhile, this, hd]
  · have h9 : ch ≠ 57 := by intro e; subst e; exact hr.h57 r rfl
    rcases hc with rfl | rfl <;> simp [classify, h0, h9]

theorem classify_lit (c : UInt8) (r : Bytes) (hc : sepc c = true) (hr : OkNext r) : classify c r = .lit := by
  rcases sepc_cases hc with rfl | rfl | rfl | rfl | rfl | rfl | rfl | rfl | rfl
  · -- '-'
    simp only [classify]
    split
    · rename_i h; simp at h
    · split
      · rename_i h; simp at h
      · split
        · rename_i h; simp at h
        · split
          · rename_i h; simp at h
          · split
            · rename_i h; simp at h
            · split
              · rename_i h; simp at h
              · split
                · split
                  · rename_i t; exact absurd rfl (hr.h4855 t)
                  · rfl
                · rename_i h; simp at h
  · simp [classify]
  · -- '.'
    rcases r with _ | ⟨ch, r⟩
    · simp [classify]
    · exact fracLit 46 ch r (Or.inl rfl) hr
  · simp [classify]
  · simp [classify]
  · simp [classify]
  · -- '_'
    simp only [classify]
    split
    · rename_i h; simp at h
    · split
      · rename_i h; simp at h
      · split
        · rename_i h; simp at h
        · split
          · split
            · rename_i t; exact absurd rfl (hr.h50 t)
            · rename_i t; exact absurd rfl (hr.h95 t)
            · rfl
          · rename_i h; simp at h
  · -- ','
    rcases r with _ | ⟨ch, r⟩
    · simp [classify]
    · exact fracLit 44 ch r (Or.inr rfl) hr
  · simp [classify]


theorem sepc_ne {c : UInt8} (h : sepc c = true) : c ≠ 48 ∧ c ≠ 49 ∧ c ≠ 50 ∧ c ≠ 57 := by
  rcases sepc_cases h with rfl | rfl | rfl | rfl | rfl | rfl | rfl | rfl | rfl <;> decide

theorem okNext_std (k : Std) (hk : k ≠ .longYear) (rest : Bytes) : OkNext (stdText k ++ rest) := by
  cases k <;> first | exact absurd rfl hk | (constructor <;> simp [stdText, isDigit] <;> decide)

theorem okNext_sep (sep : Bytes) (hs : sep.all sepc = true) (k : Std) (hk : k ≠ .longYear) (rest : Bytes) :
    OkNext (sep ++ stdText k ++ rest) := by
  rcases sep with _ | ⟨c, sep'⟩
  · simpa using okNext_std k hk rest
  · simp only [List.all_cons, Bool.and_eq_true] at hs
    obtain ⟨h48, h49, h50, h57⟩ := sepc_ne hs.1
    constructor
    · intro t e; simp at e; exact h50 e.1
    · intro t e; simp at e; exact h57 e.1
    · intro t e
      rcases sep' with _ | ⟨c', sep''⟩
      · cases k <;> first | exact absurd rfl hk | simp [stdText] at e
      · simp only [List.all_cons, Bool.and_eq_true] at hs
        simp at e; exact (sepc_ne hs.2.1).2.2.1 e.2.1
    · intro t e; simp at e; exact h48 e.1
    · intro t e; simp at e; exact absurd e.1 h48

theorem nextStd_sep (acc sep : Bytes) (hs : sep.all sepc = true) (k : Std) (hk : k ≠ .longYear) (rest : Bytes) :
    nextStd acc (sep ++ stdText k ++ rest) = .std (acc ++ sep) k rest := by
  induction sep generalizing acc with
  | nil => cases k <;> first | exact absurd rfl hk | simp [stdText, nextStd, classify]
  | cons c sep' ih =>
    simp only [List.all_cons, Bool.and_eq_true] at hs
    have hl := classify_lit c (sep' ++ stdText k ++ rest) hs.1 (okNext_sep sep' hs.2 k hk rest)
    simp only [List.cons_append, nextStd]
    simp only [List.append_assoc] at hl ⊢
    rw [hl]
    simp only
    have := ih (acc ++ [c]) hs.2
    simp only [List.append_assoc] at this
    rw [this]; simp

theorem nextStd_year (rest : Bytes) : nextStd [] (stdText .longYear ++ rest) = .std [] .longYear rest := by
  simp [stdText, nextStd, classify]

theorem nextStd_nil : nextStd [] [] = .done [] := rfl


/-! ### layouts as lists of (literal text, element) -/

abbrev Item := Bytes × Std

def layoutOf : List Item → Bytes
  | [] => []
  | (p, k) :: r => p ++ stdText k ++ layoutOf r

/-- a separator made of `sepOK` bytes in front of a two-digit element, or the year with nothing in front -/
def ItemOK (it : Item) : Prop := (it.1.all sepc = true ∧ it.2 ≠ .longYear) ∨ (it.1 = [] ∧ it.2 = .longYear)

theorem nextStd_item (it : Item) (h : ItemOK it) (rest : Bytes) :
    nextStd [] (it.1 ++ stdText it.2 ++ rest) = .std it.1 it.2 rest := by
  rcases it with ⟨p, k⟩
  rcases h with ⟨hs, hk⟩ | ⟨hp, hk⟩
  · simpa using nextStd_sep [] p hs k hk rest
  · simp only at hp hk; subst hp; subst hk; simpa using nextStd_year rest

theorem nextStd_layout_ne (its : List Item) (h : ∀ it ∈ its, ItemOK it) : nextStd [] (layoutOf its) ≠ .unsupported := by
  rcases its with _ | ⟨it, r⟩
  · simp [layoutOf, nextStd]
  · rcases it with ⟨p, k⟩
    have := nextStd_item (p, k) (h _ (by simp)) (layoutOf r)
    simp only at this
    simp only [layoutOf, this]; simp

def fracDrop (v : Bytes) : Bytes :=
  match v with
  | c :: d :: r => if (c == 46 || c == 44) && isDigit d then r.dropWhile isDigit else c :: d :: r
  | [c] => [c]
  | [] => []

theorem fracSkip_layout (its : List Item) (h : ∀ it ∈ its, ItemOK it) (v : Bytes) :
    fracSkip (layoutOf its) v = some (fracDrop v) := by
  have hne := nextStd_layout_ne its h
  rcases v with _ | ⟨c, _ | ⟨d, r⟩⟩
  · rfl
  · rfl
  · simp only [fracSkip, fracDrop]
    split
    · cases hq : nextStd [] (layoutOf its) with
      | unsupported => exact absurd hq hne
      | std _ _ _ => rfl
      | done _ => rfl
    · rfl

/-- the loop of `parse` over a layout given as items -/
def parseItems : List Item → Bytes → Tm → Option Tm
  | [], v, t => if v.isEmpty then some t else none
  | (p, k) :: r, v, t =>
    match skip (p.length + 1) v p with
    | none => none
    | some v1 =>
      match readStd k v1 with
      | none => none
      | some (n, v2) => parseItems r (if k == .zeroSecond then fracDrop v2 else v2) (t.set k n)

theorem parseLoop_items (its : List Item) (h : ∀ it ∈ its, ItemOK it) (fuel : Nat) (hf : its.length + 1 ≤ fuel)
    (v : Bytes) (t : Tm) : parseLoop fuel (layoutOf its) v t = some (parseItems its v t) := by
  induction its generalizing fuel v t with
  | nil =>
    obtain ⟨f, rfl⟩ : ∃ f, fuel = f + 1 := ⟨fuel - 1, by omega⟩
    simp [parseLoop, layoutOf, nextStd, skip, parseItems]
    split <;> rfl
  | cons it r ih =>
    obtain ⟨f, rfl⟩ : ∃ f, fuel = f + 1 := ⟨fuel - 1, by omega⟩
    rcases it with ⟨p, k⟩
    have hn := nextStd_item (p, k) (h _ (by simp)) (layoutOf r)
    simp only at hn
    have hr : ∀ it ∈ r, ItemOK it := fun it hi => h it (by simp [hi])
    simp only [parseLoop, layoutOf, hn, parseItems]
    cases hs : skip (p.length + 1) v p with
    | none => rfl
    | some v1 =>
      simp only
      cases hrd : readStd k v1 with
      | none => rfl
      | some nv =>
        rcases nv with ⟨n, v2⟩
        simp only
        have hlen : r.length + 1 ≤ f := by simp at hf; omega
        by_cases hk : k = .zeroSecond
        · subst hk
          simp only [beq_self_eq_true, if_true, fracSkip_layout r hr]
          exact ih hr f hlen _ _
        · have : (k == Std.zeroSecond) = false := by simpa using hk
          simp only [this, Bool.false_eq_true, if_false]
          exact ih hr f hlen _ _

def fits (k : Std) (n : Nat) : Prop := n < (if k = .longYear then 10000 else 100)

def padOf (k : Std) (n : Nat) : Bytes := (appendInt n (width k)).getD []

def render : List Item → Tm → Bytes
  | [], _ => []
  | (p, k) :: r, t => p ++ padOf k (t.get k) ++ render r t

theorem appendInt_fits (k : Std) (n : Nat) (h : fits k n) : appendInt n (width k) = some (padOf k n) := by
  unfold fits at h
  cases k <;> simp [width, appendInt, padOf] at h ⊢ <;> simp [h]

theorem formatLoop_items (its : List Item) (h : ∀ it ∈ its, ItemOK it) (t : Tm)
    (hfit : ∀ it ∈ its, fits it.2 (t.get it.2)) (fuel : Nat) (hf : its.length + 1 ≤ fuel) :
    formatLoop fuel (layoutOf its) t = some (render its t) := by
  induction its generalizing fuel with
  | nil =>
    obtain ⟨f, rfl⟩ : ∃ f, fuel = f + 1 := ⟨fuel - 1, by omega⟩
    simp [formatLoop, layoutOf, nextStd, render]
  | cons it r ih =>
    obtain ⟨f, rfl⟩ : ∃ f, fuel = f + 1 := ⟨fuel - 1, by omega⟩
    rcases it with ⟨p, k⟩
    have hn := nextStd_item (p, k) (h _ (by simp)) (layoutOf r)
    simp only at hn
    have hr : ∀ it ∈ r, ItemOK it := fun it hi => h it (by simp [hi])
    have hlen : r.length + 1 ≤ f := by simp at hf; omega
    have ha := appendInt_fits k (t.get k) (hfit (p, k) (by simp))
    simp only [formatLoop, layoutOf, hn, ha, ih hr (fun it hi => hfit it (by simp [hi])) f hlen, render]

end PGV.Proofs.TimeParse
