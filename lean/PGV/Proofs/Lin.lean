/-!
# Coarse-lock linearizability

An object whose every operation runs `step : σ → Op → σ × Res` atomically at some point between its
invocation and its response (what one mutex held for the whole method body provides).  Threads
(any number) are `idle`, `pending` (invoked, not yet in the critical section) or `done` (left it,
not yet returned).  A ghost log records the order of the critical sections.  `Inv` holds in every
reachable configuration: the log is a legal sequential run ending in the shared state, every
returned operation is in it with its result, and real-time order is respected.
-/
namespace PGV.Proofs.Lin

variable {σ Op Res : Type}

inductive TSt (Op Res : Type) where
  | idle
  | pending (id : Nat) (op : Op)
  | done (id : Nat) (op : Op) (r : Res)

/-- ghost-instrumented configuration -/
structure Cfg (σ Op Res : Type) where
  shared : σ
  th : Nat → TSt Op Res
  nextId : Nat
  lin : List (Nat × Op × Res)        -- linearization order so far (crit order), oldest first
  returned : List Nat                 -- ids that have returned
  rt : List (Nat × Nat)               -- real-time pairs (a,b): a returned before b was invoked

def upd {α} (f : Nat → α) (t : Nat) (x : α) : Nat → α := fun u => if u = t then x else f u

inductive Step (step : σ → Op → σ × Res) : Cfg σ Op Res → Cfg σ Op Res → Prop where
  | inv (c) (t : Nat) (op : Op) (h : c.th t = .idle) :
      Step step c { c with th := upd c.th t (.pending c.nextId op), nextId := c.nextId + 1,
                           rt := c.rt ++ c.returned.map (fun a => (a, c.nextId)) }
  | crit (c) (t : Nat) (id : Nat) (op : Op) (h : c.th t = .pending id op) :
      Step step c { c with shared := (step c.shared op).1,
                           th := upd c.th t (.done id op (step c.shared op).2),
                           lin := c.lin ++ [(id, op, (step c.shared op).2)] }
  | ret (c) (t : Nat) (id : Nat) (op : Op) (r : Res) (h : c.th t = .done id op r) :
      Step step c { c with th := upd c.th t .idle, returned := c.returned ++ [id] }

inductive Reach (step : σ → Op → σ × Res) (init : σ) : Cfg σ Op Res → Prop where
  | init : Reach step init ⟨init, fun _ => .idle, 0, [], [], []⟩
  | step {c c'} : Reach step init c → Step step c c' → Reach step init c'

/-- sequential run of the spec over a list of (id, op, res): final state if every recorded result is the spec's -/
def seqOk (step : σ → Op → σ × Res) [DecidableEq Res] : σ → List (Nat × Op × Res) → Option σ
  | s, [] => some s
  | s, (_, op, r) :: rest => if (step s op).2 = r then seqOk step (step s op).1 rest else none

theorem seqOk_append (step : σ → Op → σ × Res) [DecidableEq Res] (s : σ) (l : List (Nat × Op × Res)) (x : Nat × Op × Res) :
    seqOk step s (l ++ [x]) = (seqOk step s l).bind (fun s' => seqOk step s' [x]) := by
  induction l generalizing s with
  | nil => simp [seqOk]
  | cons a l ih =>
    obtain ⟨i, op, r⟩ := a
    simp only [List.cons_append, seqOk]
    split
    · exact ih _
    · simp

def idx (l : List (Nat × Op × Res)) (id : Nat) : Option Nat := l.findIdx? (·.1 == id)

structure Inv (step : σ → Op → σ × Res) [DecidableEq Res] (init : σ) (c : Cfg σ Op Res) : Prop where
  legal : seqOk step init c.lin = some c.shared
  ret_lin : ∀ a ∈ c.returned, ∃ e ∈ c.lin, e.1 = a
  lin_lt : ∀ e ∈ c.lin, e.1 < c.nextId
  /-- real-time order respected: if a returned before b was invoked and b is linearized, a precedes b -/
  rt_ok : ∀ a b, (a, b) ∈ c.rt → ∀ l1 eb l2, c.lin = l1 ++ eb :: l2 → eb.1 = b → ∃ ea ∈ l1, ea.1 = a
  rt_lin : ∀ a b, (a, b) ∈ c.rt → ∃ e ∈ c.lin, e.1 = a
  pend_fresh : ∀ t id op, c.th t = .pending id op → id < c.nextId ∧ ∀ e ∈ c.lin, e.1 ≠ id
  ids_nodup : (c.lin.map (·.1)).Nodup
  done_lin : ∀ t id op r, c.th t = .done id op r → (id, op, r) ∈ c.lin
  pend_unique : ∀ t u id op op', c.th t = .pending id op → c.th u = .pending id op' → t = u

theorem inv_reach (step : σ → Op → σ × Res) [DecidableEq Res] (init : σ) (c : Cfg σ Op Res)
    (h : Reach step init c) : Inv step init c := by
  induction h with
  | init =>
    exact { legal := by simp [seqOk], ret_lin := by simp, lin_lt := by simp, rt_ok := by simp,
            rt_lin := by simp, pend_fresh := by intro t id op h; simp at h, ids_nodup := by simp,
            done_lin := by intro t id op r h; simp at h,
            pend_unique := by intro t u id op op' h; simp at h }
  | @step c c' hr hs ih =>
    cases hs with
    | inv t op hidle =>
      refine { legal := ih.legal, ret_lin := ih.ret_lin, lin_lt := ?lin_lt, rt_ok := ?rt_ok,
               rt_lin := ?rt_lin, pend_fresh := ?pend_fresh, ids_nodup := ih.ids_nodup,
               done_lin := ?done_lin, pend_unique := ?pend_unique }
      case lin_lt => intro e he; have := ih.lin_lt e he; simp; omega
      case rt_ok =>
        intro a b hab l1 eb l2 hl hb
        simp only [List.mem_append, List.mem_map] at hab
        rcases hab with hab | ⟨x, hx, hxe⟩
        · exact ih.rt_ok a b hab l1 eb l2 hl hb
        · have : eb ∈ c.lin := by simp [show c.lin = l1 ++ eb :: l2 from hl]
          have h1 := ih.lin_lt eb this
          simp at hxe; omega
      case rt_lin =>
        intro a b hab
        simp only [List.mem_append, List.mem_map] at hab
        rcases hab with hab | ⟨x, hx, hxe⟩
        · exact ih.rt_lin a b hab
        · simp at hxe; obtain ⟨rfl, _⟩ := hxe; exact ih.ret_lin _ hx
      case pend_fresh =>
        intro u id op' hu
        simp only [upd] at hu
        split at hu
        · cases hu
          refine ⟨by simp, ?_⟩
          intro e he; have := ih.lin_lt e he; omega
        · obtain ⟨h1, h2⟩ := ih.pend_fresh u id op' hu
          exact ⟨by simp; omega, h2⟩
      case done_lin =>
        intro u id' op' r hu
        simp only [upd] at hu
        split at hu
        · cases hu
        · exact ih.done_lin u id' op' r hu
      case pend_unique =>
        intro a b id' o1 o2 ha hb
        simp only [upd] at ha hb
        split at ha <;> split at hb
        · omega
        · cases ha; have := (ih.pend_fresh b _ o2 hb).1; omega
        · cases hb; have := (ih.pend_fresh a _ o1 ha).1; omega
        · exact ih.pend_unique a b id' o1 o2 ha hb
    | crit t id op hp =>
      obtain ⟨hlt, hfresh⟩ := ih.pend_fresh t id op hp
      refine { legal := ?legal, ret_lin := ?ret_lin, lin_lt := ?lin_lt, rt_ok := ?rt_ok,
               rt_lin := ?rt_lin, pend_fresh := ?pend_fresh, ids_nodup := ?ids_nodup,
               done_lin := ?done_lin, pend_unique := ?pend_unique }
      case legal => simp only; rw [seqOk_append, ih.legal]; simp [seqOk]
      case ret_lin => intro a ha; obtain ⟨e, he, hea⟩ := ih.ret_lin a ha; exact ⟨e, by simp [he], hea⟩
      case lin_lt =>
        intro e he; simp at he; rcases he with he | rfl
        · exact ih.lin_lt e he
        · exact hlt
      case rt_ok =>
        intro a b hab l1 eb l2 hl hb
        simp only at hl hab
        rcases List.eq_nil_or_concat l2 with rfl | ⟨l2', x, rfl⟩
        · have hl' : c.lin ++ [(id, op, (step c.shared op).2)] = l1 ++ [eb] := by simpa using hl
          obtain ⟨h1, h2⟩ := List.append_inj' hl' (by simp)
          subst h1
          exact ih.rt_lin a b hab
        · have hl' : c.lin ++ [(id, op, (step c.shared op).2)] = (l1 ++ eb :: l2') ++ [x] := by
            simpa [List.concat_eq_append, List.append_assoc] using hl
          exact ih.rt_ok a b hab l1 eb l2' (List.append_inj' hl' (by simp)).1 hb
      case rt_lin => intro a b hab; obtain ⟨e, he, hea⟩ := ih.rt_lin a b hab; exact ⟨e, by simp [he], hea⟩
      case pend_fresh =>
        intro u id' op' hu
        simp only [upd] at hu
        split at hu
        · cases hu
        · next hne =>
          obtain ⟨h1, h2⟩ := ih.pend_fresh u id' op' hu
          refine ⟨h1, ?_⟩
          intro e he; simp at he
          rcases he with he | rfl
          · exact h2 e he
          · intro heq; simp at heq; subst heq
            exact hne (ih.pend_unique u t id op' op hu hp)
      case ids_nodup =>
        simp only [List.map_append, List.map_cons, List.map_nil]
        rw [List.nodup_append]
        refine ⟨ih.ids_nodup, by simp, ?_⟩
        intro x hx y hy
        simp at hy; subst hy
        simp at hx
        obtain ⟨o, r, hm⟩ := hx
        intro heq; exact hfresh _ hm heq
      case done_lin =>
        intro u id' op' r hu
        simp only [upd] at hu
        split at hu
        · cases hu; simp
        · have := ih.done_lin u id' op' r hu; simp [this]
      case pend_unique =>
        intro a b id' o1 o2 ha hb
        simp only [upd] at ha hb
        split at ha <;> split at hb
        · omega
        · cases ha
        · cases hb
        · exact ih.pend_unique a b id' o1 o2 ha hb
    | ret t id op r hd =>
      refine { legal := ih.legal, ret_lin := ?ret_lin, lin_lt := ih.lin_lt, rt_ok := ih.rt_ok,
               rt_lin := ih.rt_lin, pend_fresh := ?pend_fresh, ids_nodup := ih.ids_nodup,
               done_lin := ?done_lin, pend_unique := ?pend_unique }
      case ret_lin =>
        intro a ha; simp at ha; rcases ha with ha | ha
        · exact ih.ret_lin a ha
        · exact ⟨_, ih.done_lin t _ op r hd, ha.symm⟩
      case pend_fresh =>
        intro u id' op' hu
        simp only [upd] at hu
        split at hu
        · cases hu
        · exact ih.pend_fresh u id' op' hu
      case done_lin =>
        intro u id' op' r' hu
        simp only [upd] at hu
        split at hu
        · cases hu
        · exact ih.done_lin u id' op' r' hu
      case pend_unique =>
        intro a b id' o1 o2 ha hb
        simp only [upd] at ha hb
        split at ha <;> split at hb
        · omega
        · cases ha
        · cases hb
        · exact ih.pend_unique a b id' o1 o2 ha hb
end PGV.Proofs.Lin
