import PGV.Spec.Clauses
import PGV.Proofs.Walker

/-!
# The struct walker produces the report of `Spec.Clauses`

For every configuration, value tree and state: the walker's result is the state extended by the
report of the tree (`Spec.Clauses.sValidate` …).  Mutual structural induction over the value model;
the rule loop of a field (which takes the descent as a parameter) is treated once, for every descent
that satisfies the statement.
-/

namespace PGV.Proofs.Tree
open PGV PGV.Model PGV.Proofs.Walker PGV.Spec.Clauses

/-- run a report from a state -/
def runS (x : M (List Ev)) (st : WSt) : M WSt := x >>= fun evs => pure (replay evs st)

@[simp] theorem replay_nil (st : WSt) : replay [] st = st := rfl
@[simp] theorem replay_cons (e : Ev) (evs : List Ev) (st : WSt) : replay (e :: evs) st = replay evs (Ev.apply st e) := rfl
theorem replay_append (a b : List Ev) (st : WSt) : replay (a ++ b) st = replay b (replay a st) := by
  simp [replay, List.foldl_append]

@[simp] theorem runS_ok (evs : List Ev) (st : WSt) : runS (.ok evs) st = .ok (replay evs st) := rfl
@[simp] theorem runS_error (e : Stop) (st : WSt) : runS (.error e) st = .error e := rfl
@[simp] theorem runS_pure (evs : List Ev) (st : WSt) : runS (pure evs) st = .ok (replay evs st) := rfl

/-- sequencing two reports = running one after the other -/
theorem runS_seq (a b : M (List Ev)) (st : WSt) :
    runS (a >>= fun x => b >>= fun y => pure (x ++ y)) st = (runS a st >>= fun st' => runS b st') := by
  cases a with
  | error e => rfl
  | ok x =>
    cases b with
    | error e => rfl
    | ok y => show Except.ok (replay (x ++ y) st) = Except.ok (replay y (replay x st)); rw [replay_append]

theorem write_nil (st : WSt) : st.write [] = st := by cases st; simp [WSt.write]

/-- one rule item: the loop continues from the state extended by the item's contribution -/
theorem rules_step (ext : Ext) (fns : FnTables) (scope sn fname : Bytes) (v : GoVal)
    (descend : Bool → Bool → Bytes → WSt → M WSt) (sdesc : Bool → Bool → Bytes → M (List Ev))
    (hd : ∀ a b c st, descend a b c st = runS (sdesc a b c) st)
    (r : Bytes) (rs : List Bytes) (d : Bool) (st : WSt) :
    fieldRules ext fns scope sn fname v descend (r :: rs) d st
      = (runS (sItem ext fns scope sn fname v sdesc d r) st >>= fun st' =>
          fieldRules ext fns scope sn fname v descend rs (descAfter fns d r) st') := by
  rw [fieldRules]
  unfold sItem descAfter
  by_cases hr : r.isEmpty = true
  · simp only [hr, if_true]; rfl
  · have hr' : r.isEmpty = false := by simpa using hr
    simp only [hr', Bool.false_eq_true, if_false]
    rcases parseValidNameKV r with ⟨key, a, m⟩
    simp only
    cases resolveFn fns key with
    | unknown => rfl
    | structural =>
      simp only
      by_cases hreq : (key == requiredB) = true
      · simp only [hreq, if_true, Bool.true_or]
        by_cases he : requiredEmpty v = true
        · simp only [he, if_true]; rfl
        · simp only [he, Bool.false_eq_true, if_false]
          rw [hd]
      · simp only [hreq, Bool.false_eq_true, if_false, Bool.false_or]
        by_cases hex : (key == existB) = true
        · simp only [hex, if_true]
          rw [hd]
        · simp only [hex, Bool.false_eq_true, if_false]; rfl
    | custom mk =>
      simp only
      by_cases hz : v.isZero = true
      · simp only [hz, if_true]; rfl
      · simp only [hz, Bool.false_eq_true, if_false]; rfl
    | builtin run =>
      simp only
      by_cases hz : v.isZero = true
      · simp only [hz, if_true]; rfl
      · simp only [hz, Bool.false_eq_true, if_false]
        cases run ext r sn fname v with
        | error e => rfl
        | ok t => rfl

/-- the rule loop of a field = the report of its rule list, for every descent that is itself a report -/
theorem fieldRules_spec (ext : Ext) (fns : FnTables) (scope sn fname : Bytes) (v : GoVal)
    (descend : Bool → Bool → Bytes → WSt → M WSt) (sdesc : Bool → Bool → Bytes → M (List Ev))
    (hd : ∀ a b c st, descend a b c st = runS (sdesc a b c) st)
    (rs : List Bytes) (d : Bool) (st : WSt) :
    fieldRules ext fns scope sn fname v descend rs d st
      = runS (sRules ext fns scope sn fname v sdesc d rs) st := by
  induction rs generalizing d st with
  | nil => rw [fieldRules_nil]; rfl
  | cons r rs ih =>
    rw [rules_step ext fns scope sn fname v descend sdesc hd, sRules, runS_seq]
    congr 1
    funext st'
    exact ih _ st'

theorem nonStruct_spec (n : Bytes) (v : GoVal) (g : Bool) (st : WSt) :
    nonStruct n v g st = runS (pure (sNonStruct n v g)) st := by
  unfold nonStruct sNonStruct
  cases g <;> rfl

theorem existScalar_spec (sn fname cus : Bytes) (v : GoVal) (k : Bool) (st : WSt) :
    existScalar sn fname cus v k st = replay (sExistScalar sn fname cus v k) st := by
  unfold existScalar sExistScalar
  cases k <;> rfl

theorem existScalar_spec_if (sn fname cus : Bytes) (v : GoVal) (k : Bool) (c : Bool) (st : WSt) :
    (pure (if c then st else existScalar sn fname cus v k st) : M WSt)
      = runS (pure (if c then [] else sExistScalar sn fname cus v k)) st := by
  cases c
  · simp only [Bool.false_eq_true, if_false, runS_pure]; rw [existScalar_spec]; rfl
  · rfl

theorem ite_spec (c : Prop) [Decidable c] (f g : WSt → M WSt) (x y : M (List Ev)) (st : WSt)
    (hf : f st = runS x st) (hg : g st = runS y st) :
    (if c then f st else g st) = runS (if c then x else y) st := by
  by_cases h : c
  · simp only [h, if_true]; exact hf
  · simp only [h, if_false]; exact hg

theorem mark0_spec (x : M (List Ev)) (st : WSt) :
    runS x (st.mark 0) = runS (x >>= fun a => pure (.mark 0 :: a)) st := by
  cases x <;> rfl

mutual
theorem validate_spec (cfg : StructCfg) (name : Bytes) (v : GoVal) (g : Bool) (st : WSt) :
    validate cfg name v g st = runS (sValidate cfg name v g) st := by
  cases v with
  | ptr t tgt =>
    cases tgt with
    | none => rw [validate, sValidate]; rfl
    | some x => rw [validate, sValidate]; exact validate_spec cfg name x g st
  | struct t n tm fs => rw [validate, sValidate]; exact fieldsLoop_spec cfg _ _ fs st
  | str s => rw [validate, sValidate]; exact nonStruct_spec _ _ _ st
  | bool s => rw [validate, sValidate]; exact nonStruct_spec _ _ _ st
  | int _ _ => rw [validate, sValidate]; exact nonStruct_spec _ _ _ st
  | uint _ _ => rw [validate, sValidate]; exact nonStruct_spec _ _ _ st
  | float _ _ _ _ => rw [validate, sValidate]; exact nonStruct_spec _ _ _ st
  | iface _ _ => rw [validate, sValidate]; exact nonStruct_spec _ _ _ st
  | slice _ _ _ _ => rw [validate, sValidate]; exact nonStruct_spec _ _ _ st
  | array _ _ _ => rw [validate, sValidate]; exact nonStruct_spec _ _ _ st
  | map _ _ _ _ => rw [validate, sValidate]; exact nonStruct_spec _ _ _ st
  | other _ _ _ _ => rw [validate, sValidate]; exact nonStruct_spec _ _ _ st

theorem fieldsLoop_spec (cfg : StructCfg) (sn : Bytes) (cus : RM) (fs : Fields) (st : WSt) :
    fieldsLoop cfg sn cus fs st = runS (sFields cfg sn cus fs) st := by
  cases fs with
  | nil => rw [fieldsLoop, sFields]; rfl
  | cons name ex tt tags v rest =>
    rw [fieldsLoop, sFields, runS_seq]
    simp only
    by_cases hc : (!ex || tt || (if (!(rmGet cus name).isEmpty) = true then rmGet cus name else tagGet tags cfg.tag).isEmpty) = true
    · simp only [hc, if_true]
      show fieldsLoop cfg sn cus rest st = runS (sFields cfg sn cus rest) (replay [] st)
      exact fieldsLoop_spec cfg sn cus rest st
    · have hc' : (!ex || tt || (if (!(rmGet cus name).isEmpty) = true then rmGet cus name else tagGet tags cfg.tag).isEmpty) = false := by
        simpa using hc
      simp only [hc', Bool.false_eq_true, if_false]
      rw [fieldRules_spec _ _ _ _ _ _ _ _ (fun a b c st => existTop_spec cfg sn name v a b c st)]
      congr 1
      funext st'
      exact fieldsLoop_spec cfg sn cus rest st'

theorem existTop_spec (cfg : StructCfg) (sn fname : Bytes) (v : GoVal) (k skip : Bool) (cus : Bytes) (st : WSt) :
    existTop cfg sn fname v k skip cus st = runS (sExistTop cfg sn fname v k skip cus) st := by
  cases v with
  | ptr t tgt =>
    cases tgt with
    | none => rw [existTop, sExistTop]; rfl
    | some x => rw [existTop, sExistTop]; exact existStripped_spec cfg sn fname x k skip cus st
  | struct t n tm fs =>
    rw [existTop, sExistTop]
    exact ite_spec _ (fun st => pure st) (fieldsLoop cfg _ _ fs) _ _ st rfl (fieldsLoop_spec cfg _ _ fs st)
  | slice t e n es =>
    rw [existTop, sExistTop]
    exact ite_spec _ (fun st => pure st) (elemsLoop cfg _ 0 es) _ _ st rfl (elemsLoop_spec cfg _ 0 es st)
  | array t e es =>
    rw [existTop, sExistTop]
    exact ite_spec _ (fun st => pure st) (elemsLoop cfg _ 0 es) _ _ st rfl (elemsLoop_spec cfg _ 0 es st)
  | map t ks n es =>
    rw [existTop, sExistTop]
    refine ite_spec _ (fun st => pure st) (fun st => entriesLoop cfg _ es (st.mark 0)) _ _ st rfl ?_
    show entriesLoop cfg _ es (st.mark 0) = _
    rw [entriesLoop_spec cfg _ es (st.mark 0), mark0_spec]
  | str s => rw [existTop, sExistTop]; exact existScalar_spec_if _ _ _ _ _ _ st
  | bool s => rw [existTop, sExistTop]; exact existScalar_spec_if _ _ _ _ _ _ st
  | int _ _ => rw [existTop, sExistTop]; exact existScalar_spec_if _ _ _ _ _ _ st
  | uint _ _ => rw [existTop, sExistTop]; exact existScalar_spec_if _ _ _ _ _ _ st
  | float _ _ _ _ => rw [existTop, sExistTop]; exact existScalar_spec_if _ _ _ _ _ _ st
  | iface _ _ => rw [existTop, sExistTop]; exact existScalar_spec_if _ _ _ _ _ _ st
  | other _ _ _ _ => rw [existTop, sExistTop]; exact existScalar_spec_if _ _ _ _ _ _ st

theorem existStripped_spec (cfg : StructCfg) (sn fname : Bytes) (v : GoVal) (k skip : Bool) (cus : Bytes) (st : WSt) :
    existStripped cfg sn fname v k skip cus st = runS (sExistStripped cfg sn fname v k skip cus) st := by
  cases v with
  | ptr t tgt =>
    cases tgt with
    | none => rw [existStripped, sExistStripped]; rfl
    | some x => rw [existStripped, sExistStripped]; exact existStripped_spec cfg sn fname x k skip cus st
  | struct t n tm fs =>
    rw [existStripped, sExistStripped]
    exact ite_spec _ (fun st => pure st) (fieldsLoop cfg _ _ fs) _ _ st rfl (fieldsLoop_spec cfg _ _ fs st)
  | slice t e n es =>
    rw [existStripped, sExistStripped]
    exact ite_spec _ (fun st => pure st) (elemsLoop cfg _ 0 es) _ _ st rfl (elemsLoop_spec cfg _ 0 es st)
  | array t e es =>
    rw [existStripped, sExistStripped]
    exact ite_spec _ (fun st => pure st) (elemsLoop cfg _ 0 es) _ _ st rfl (elemsLoop_spec cfg _ 0 es st)
  | map t ks n es =>
    rw [existStripped, sExistStripped]
    refine ite_spec _ (fun st => pure st) (fun st => entriesLoop cfg _ es (st.mark 0)) _ _ st rfl ?_
    show entriesLoop cfg _ es (st.mark 0) = _
    rw [entriesLoop_spec cfg _ es (st.mark 0), mark0_spec]
  | str s => rw [existStripped, sExistStripped]; show Except.ok _ = _; rw [existScalar_spec]; rfl
  | bool s => rw [existStripped, sExistStripped]; show Except.ok _ = _; rw [existScalar_spec]; rfl
  | int _ _ => rw [existStripped, sExistStripped]; show Except.ok _ = _; rw [existScalar_spec]; rfl
  | uint _ _ => rw [existStripped, sExistStripped]; show Except.ok _ = _; rw [existScalar_spec]; rfl
  | float _ _ _ _ => rw [existStripped, sExistStripped]; show Except.ok _ = _; rw [existScalar_spec]; rfl
  | iface _ _ => rw [existStripped, sExistStripped]; show Except.ok _ = _; rw [existScalar_spec]; rfl
  | other _ _ _ _ => rw [existStripped, sExistStripped]; show Except.ok _ = _; rw [existScalar_spec]; rfl

theorem elemsLoop_spec (cfg : StructCfg) (path : Bytes) (i : Nat) (es : GoVals) (st : WSt) :
    elemsLoop cfg path i es st = runS (sElems cfg path i es) st := by
  cases es with
  | nil => rw [elemsLoop, sElems]; rfl
  | cons v rest =>
    rw [elemsLoop, sElems, runS_seq, validate_spec cfg _ v true st]
    congr 1
    funext st'
    exact elemsLoop_spec cfg path (i + 1) rest st'

theorem entriesLoop_spec (cfg : StructCfg) (pathOpen : Bytes) (es : Entries) (st : WSt) :
    entriesLoop cfg pathOpen es st = runS (sEntries cfg pathOpen es) st := by
  cases es with
  | nil => rw [entriesLoop, sEntries]; rfl
  | cons k v rest =>
    rw [entriesLoop, sEntries]
    cases keyStr cfg.ext k with
    | error e => rfl
    | ok ks =>
      show (validate cfg (pathOpen ++ ks ++ [93]) v true (st.mark 1) >>= fun st1 => entriesLoop cfg pathOpen rest st1)
        = runS (sValidate cfg (pathOpen ++ ks ++ [93]) v true >>= fun a =>
                  sEntries cfg pathOpen rest >>= fun b => pure (.mark 1 :: a ++ b)) st
      rw [validate_spec cfg _ v true (st.mark 1)]
      have : ∀ st', entriesLoop cfg pathOpen rest st' = runS (sEntries cfg pathOpen rest) st' :=
        fun st' => entriesLoop_spec cfg pathOpen rest st'
      simp only [this]
      cases sValidate cfg (pathOpen ++ ks ++ [93]) v true with
      | error e => rfl
      | ok a =>
        cases sEntries cfg pathOpen rest with
        | error e => rfl
        | ok b =>
          show Except.ok (replay b (replay a (st.mark 1))) = Except.ok (replay (.mark 1 :: a ++ b) st)
          rw [List.cons_append, replay_cons, replay_append]; rfl
end

end PGV.Proofs.Tree
