import PGV.Spec.Json

namespace PGV.Proofs.Dump
open PGV PGV.Model PGV.Spec.Json

@[simp] theorem w_buf (st : DSt) (t : Bytes) : (st.w t).buf = st.buf ++ t := rfl
@[simp] theorem mark_buf (st : DSt) (k : Nat) : (st.mark k).buf = st.buf := rfl

/-- separator in front of the remaining members when something was already written -/
def sepIf (nc : Bool) (ms : JMembers) : Bytes :=
  match ms with
  | .nil => []
  | _ => if nc then [44] else []

theorem printMembers_cons (k : Bytes) (v : JVal) (rest : JMembers) :
    printMembers (.cons k v rest) = jq k ++ [58] ++ print v ++ sepIf true rest ++ printMembers rest := by
  cases rest with
  | nil => simp [printMembers, sepIf]
  | cons k2 v2 r => simp [printMembers, sepIf]

theorem printItems_cons (v : JVal) (rest : JVals) :
    printItems (.cons v rest) = print v ++ (match rest with | .nil => [] | _ => [44]) ++ printItems rest := by
  cases rest with
  | nil => simp [printItems]
  | cons v2 r => simp [printItems]

theorem dumpName_buf (name : Bytes) (tt : Bool) (st : DSt) :
    (dumpName (some (name, tt)) st).buf = st.buf ++ jq name ++ [58] := by simp [dumpName]

theorem dumpLeaf_buf (field : Option (Bytes × Bool)) (text : Bytes) (st : DSt) (h : dumpIsTimeField field = false) :
    (dumpLeaf field text st).buf = (dumpName field st).buf ++ text := by simp [dumpLeaf, h]

/-- the name part written for a field -/
def namePart (field : Option (Bytes × Bool)) : Bytes :=
  match field with
  | some (name, _) => jq name ++ [58]
  | none => []

theorem dumpName_buf' (field : Option (Bytes × Bool)) (st : DSt) : (dumpName field st).buf = st.buf ++ namePart field := by
  cases field with
  | none => simp [dumpName, namePart]
  | some p => rcases p with ⟨n, t⟩; simp [dumpName, namePart]

mutual
theorem dumpH_slice (v : GoVal) (h : inScope v = true) (st : DSt) :
    (dumpH v true st).buf = st.buf ++ print (doc v) := by
  cases v with
  | str s => simp [dumpH, doc, print]
  | bool x => simp [dumpH, doc, print]
  | int b z => simp [dumpH, doc, print]
  | uint b n => simp [dumpH, doc, print]
  | float b f a c => simp [dumpH, doc, print]
  | ptr t x =>
    cases x with
    | none => simp [dumpH, doc, print]
    | some y =>
      rw [dumpH, doc]
      rw [inScope] at h
      exact dumpH_ptr y h true st
  | struct t n tm fs =>
    rw [inScope] at h
    simp only [Bool.and_eq_true, Bool.not_eq_true'] at h
    rw [dumpH, doc, print, dumpObj_buf fs h.2 st]
    simp
  | slice t e n es =>
    rw [inScope] at h
    simp only [dumpH, if_true, doc, print, w_buf, dumpElems_buf es h]
    simp
  | array t e es =>
    rw [inScope] at h
    simp only [dumpH, if_true, doc, print, w_buf, dumpElems_buf es h]
    simp
  | map t k n es =>
    rw [inScope] at h
    simp only [dumpH, if_true, doc, print, w_buf, mark_buf, dumpEntries_buf es h]
    simp
  | iface _ d => simp [inScope] at h
  | other k t n z => simp [inScope] at h

/-- through pointers down to a struct (or nil): the same text whether or not it is a collection element -/
theorem dumpH_ptr (v : GoVal) (h : ptrTarget v = true) (s : Bool) (st : DSt) :
    (dumpH v s st).buf = st.buf ++ print (doc v) := by
  cases v with
  | ptr t x =>
    cases x with
    | none => simp [dumpH, doc, print]
    | some y =>
      rw [dumpH, doc]
      rw [ptrTarget] at h
      exact dumpH_ptr y h s st
  | struct t n tm fs =>
    rw [ptrTarget] at h
    simp only [Bool.and_eq_true, Bool.not_eq_true'] at h
    rw [dumpH, doc, print, dumpObj_buf fs h.2 st]
    simp
  | str s => simp [ptrTarget] at h
  | bool x => simp [ptrTarget] at h
  | int b z => simp [ptrTarget] at h
  | uint b n => simp [ptrTarget] at h
  | float b f a c => simp [ptrTarget] at h
  | slice t e n es => simp [ptrTarget] at h
  | array t e es => simp [ptrTarget] at h
  | map t k n es => simp [ptrTarget] at h
  | iface _ d => simp [ptrTarget] at h
  | other k t n z => simp [ptrTarget] at h

theorem dumpObj_buf (fs : Fields) (h : inScopeFields fs = true) (st : DSt) :
    (dumpObj fs st).buf = st.buf ++ [123] ++ printMembers (docFields fs) ++ [125] := by
  cases fs with
  | nil => simp [dumpObj, docFields, printMembers]
  | cons name ex tt tags v rest =>
    rw [inScopeFields] at h
    simp only [Bool.and_eq_true, Bool.or_eq_true, Bool.not_eq_true'] at h
    rw [dumpObj]
    simp only [w_buf]
    cases ex with
    | false =>
      simp only [Bool.false_eq_true, if_false, docFields]
      rw [dumpFields_buf rest h.2 false]
      simp [sepIf]
      cases docFields rest <;> simp [sepIf]
    | true =>
      have hv := h.1
      simp only [Bool.true_eq_false, false_or, Bool.and_eq_true, Bool.not_eq_true'] at hv
      simp only [if_true, docFields]
      rw [dumpFields_buf rest h.2 true, dumpKV_buf (some (name, tt)) v hv.1 (show dumpIsTimeField (some (name, tt)) = false from hv.2)]
      rw [printMembers_cons]
      simp [namePart]

theorem dumpFields_buf (fs : Fields) (h : inScopeFields fs = true) (nc : Bool) (st : DSt) :
    (dumpFields fs nc st).buf = st.buf ++ sepIf nc (docFields fs) ++ printMembers (docFields fs) := by
  cases fs with
  | nil => simp [dumpFields, docFields, printMembers, sepIf]
  | cons name ex tt tags v rest =>
    rw [inScopeFields] at h
    simp only [Bool.and_eq_true, Bool.or_eq_true, Bool.not_eq_true'] at h
    rw [dumpFields]
    cases ex with
    | false =>
      simp only [Bool.not_false, if_true, docFields]
      exact dumpFields_buf rest h.2 nc st
    | true =>
      have hv := h.1
      simp only [Bool.true_eq_false, false_or, Bool.and_eq_true, Bool.not_eq_true'] at hv
      simp only [Bool.not_true, Bool.false_eq_true, if_false, if_true, docFields]
      rw [dumpFields_buf rest h.2 true, dumpKV_buf (some (name, tt)) v hv.1 (show dumpIsTimeField (some (name, tt)) = false from hv.2)]
      rw [printMembers_cons]
      cases nc <;> simp [sepIf, namePart]

theorem dumpKV_buf (field : Option (Bytes × Bool)) (v : GoVal) (h : inScope v = true)
    (ht : dumpIsTimeField field = false) (st : DSt) :
    (dumpKV field v st).buf = st.buf ++ namePart field ++ print (doc v) := by
  cases v with
  | str s => simp [dumpKV, dumpLeaf_buf _ _ _ ht, dumpName_buf', doc, print]
  | bool x => simp [dumpKV, dumpLeaf_buf _ _ _ ht, dumpName_buf', doc, print]
  | int b z => simp [dumpKV, dumpLeaf_buf _ _ _ ht, dumpName_buf', doc, print]
  | uint b n => simp [dumpKV, dumpLeaf_buf _ _ _ ht, dumpName_buf', doc, print]
  | float b f a c => simp [dumpKV, dumpLeaf_buf _ _ _ ht, dumpName_buf', doc, print]
  | ptr t x =>
    cases x with
    | none => simp [dumpKV, dumpLeaf_buf _ _ _ ht, dumpName_buf', doc, print]
    | some y =>
      rw [inScope] at h
      rw [dumpKV, doc]
      simp only [ht, Bool.false_eq_true, if_false]
      rw [dumpH_ptr y h false, dumpName_buf']
  | struct t n tm fs =>
    rw [inScope] at h
    simp only [Bool.and_eq_true, Bool.not_eq_true'] at h
    rw [dumpKV, doc, print]
    simp only [ht, Bool.false_eq_true, if_false]
    rw [dumpObj_buf fs h.2, dumpName_buf']
    simp
  | slice t e n es =>
    rw [inScope] at h
    rw [dumpKV, doc, print]
    simp only [ht, Bool.false_eq_true, if_false, w_buf, dumpElems_buf es h, dumpName_buf']
    simp
  | array t e es =>
    rw [inScope] at h
    rw [dumpKV, doc, print]
    simp only [ht, Bool.false_eq_true, if_false, w_buf, dumpElems_buf es h, dumpName_buf']
    simp
  | map t k n es =>
    rw [inScope] at h
    rw [dumpKV, doc, print]
    simp only [ht, Bool.false_eq_true, if_false, w_buf, mark_buf, dumpEntries_buf es h, dumpName_buf']
    simp
  | iface _ d => simp [inScope] at h
  | other k t n z => simp [inScope] at h

theorem dumpElems_buf (es : GoVals) (h : inScopeElems es = true) (st : DSt) :
    (dumpElems es st).buf = st.buf ++ printItems (docElems es) := by
  cases es with
  | nil => simp [dumpElems, docElems, printItems]
  | cons v rest =>
    rw [inScopeElems] at h
    simp only [Bool.and_eq_true] at h
    cases rest with
    | nil => simp [dumpElems, docElems, printItems, dumpH_slice v h.1]
    | cons v2 r =>
      rw [dumpElems, dumpElems_buf (.cons v2 r) h.2]
      simp only [w_buf, dumpH_slice v h.1, docElems, printItems]
      simp

theorem dumpEntries_buf (es : Entries) (h : inScopeEntries es = true) (st : DSt) :
    (dumpEntries es st).buf = st.buf ++ printMembers (docEntries es) := by
  cases es with
  | nil => simp [dumpEntries, docEntries, printMembers]
  | cons k v rest =>
    rw [inScopeEntries] at h
    simp only [Bool.and_eq_true] at h
    have hv := h.1.2
    have hr := h.2
    have hk : ∀ st0 : DSt, (dumpKey k st0).buf = st0.buf ++ jq (keyText k) := by
      intro st0
      have hk0 := h.1.1
      cases k <;> simp [keyOk] at hk0 <;> simp [dumpKey, keyText, jq, scalarText]
    cases rest with
    | nil =>
      simp only [dumpEntries, docEntries, printMembers]
      rw [dumpKV_buf none v hv rfl]
      simp only [w_buf, hk, mark_buf, namePart]
      simp
    | cons k2 v2 r =>
      rw [dumpEntries, dumpEntries_buf (.cons k2 v2 r) hr]
      simp only [w_buf]
      rw [dumpKV_buf none v hv rfl]
      simp only [w_buf, hk, mark_buf, namePart]
      rw [docEntries, printMembers_cons, docEntries, printMembers_cons]
      simp [sepIf]
      rw [docEntries, printMembers_cons]
      simp [sepIf]
end

end PGV.Proofs.Dump
