import PGV.Proofs.Accepts
import PGV.Proofs.TimeParse

/-! The four date rules decide, on strings, what `Spec.Lang.accepts` says — no residual involved:
`parseTimeStrict` is the transcription of `time.Parse` / `Format` and equals the independent reading. -/

namespace PGV.Proofs.AcceptsDate
open PGV PGV.Model PGV.Spec PGV.Spec.Lang PGV.Proofs.RuleText PGV.Proofs.Accepts

theorem strRule_verdict' (text obj field s dflt : Bytes) (chk : Bytes → M Bool) (b : Bool) (h : chk s = pure b) :
    Verdict (strRule text obj field (.str s) chk dflt) b := by
  simp only [strRule, checkFieldIsStr, bind, Except.bind, h, pure, Except.pure]
  cases b with
  | true => exact ⟨[], by simp, by simp⟩
  | false =>
    simp only [Bool.false_eq_true, if_false]
    exact ⟨_, rfl, by simp [PGV.Proofs.Size.violClause_ne_nil]⟩

theorem timeOk_of (ext : Ext) (layout s : Bytes) (b : Bool) (h : TimeParse.parseStrict layout s = some b) :
    timeOk ext layout s = pure b := by
  simp only [timeOk, h]

theorem fmt_year : getTimeFmt 1 [] = [50, 48, 48, 54] := by decide
theorem fmt_y2m (sep : Bytes) : getTimeFmt 3 [sep] = [50, 48, 48, 54] ++ sep ++ [48, 49] := by simp [getTimeFmt]
theorem fmt_date (sep : Bytes) : getTimeFmt 7 [sep] = [50, 48, 48, 54] ++ sep ++ [48, 49] ++ sep ++ [48, 50] := by
  simp [getTimeFmt]
theorem fmt_datetime (d t c : Bytes) : getTimeFmt 63 [d, t, c] =
    [50, 48, 48, 54] ++ d ++ [48, 49] ++ d ++ [48, 50] ++ t ++ [49, 53] ++ c ++ [48, 52] ++ c ++ [48, 53] := by
  simp [getTimeFmt]

section
variable (ext : Ext) (obj field s arg msg : Bytes) (b : Bool)

theorem sound_year (hs : Shape (b! "year") arg) (h : accepts (mkText (b! "year") arg msg) s = some b) :
    ∃ run, builtin (b! "year") = some (.fn run) ∧ Verdict (run ext (mkText (b! "year") arg msg) obj field (.str s)) b := by
  refine ⟨_, rfl, ?_⟩
  unfold accepts at h; rw [ruleParts_mkText _ arg msg hs] at h
  simp (decide := true) only [if_true, if_false, Bool.false_eq_true, Option.some.injEq] at h
  simp only [ruleYear]
  exact strRule_verdict' _ obj field s _ _ b (timeOk_of ext _ s b (by rw [fmt_year, ← h]; exact PGV.Proofs.TimeParse.strict_year s))

theorem sep_case (arg : Bytes) : ∃ sep, (if arg.isEmpty then [45] else unq arg) = sep ∧
    (if arg.isEmpty then [45] else Bytes.trimByte QUOTE arg) = sep := ⟨_, rfl, rfl⟩

theorem sound_year2month (hs : Shape (b! "year2month") arg) (h : accepts (mkText (b! "year2month") arg msg) s = some b) :
    ∃ run, builtin (b! "year2month") = some (.fn run) ∧ Verdict (run ext (mkText (b! "year2month") arg msg) obj field (.str s)) b := by
  refine ⟨_, rfl, ?_⟩
  unfold accepts at h; rw [ruleParts_mkText _ arg msg hs] at h
  simp (decide := true) only [if_true, if_false, Bool.false_eq_true] at h
  obtain ⟨sep, e1, e2⟩ := sep_case arg
  rw [e1] at h
  by_cases hok : sepOK sep = true
  · simp only [hok, if_true, Option.some.injEq] at h
    simp only [ruleYear2Month, parse_mkText _ arg msg hs]
    rw [e2]
    refine strRule_verdict' _ obj field s _ _ b (timeOk_of ext _ s b ?_)
    rw [fmt_y2m, ← h]
    exact PGV.Proofs.TimeParse.strict_y2m _ s hok
  · simp [hok] at h

theorem sound_date (hs : Shape (b! "date") arg) (h : accepts (mkText (b! "date") arg msg) s = some b) :
    ∃ run, builtin (b! "date") = some (.fn run) ∧ Verdict (run ext (mkText (b! "date") arg msg) obj field (.str s)) b := by
  refine ⟨_, rfl, ?_⟩
  unfold accepts at h; rw [ruleParts_mkText _ arg msg hs] at h
  simp (decide := true) only [if_true, if_false, Bool.false_eq_true] at h
  obtain ⟨sep, e1, e2⟩ := sep_case arg
  rw [e1] at h
  by_cases hok : sepOK sep = true
  · simp only [hok, if_true, Option.some.injEq] at h
    simp only [ruleDate, parse_mkText _ arg msg hs]
    rw [e2]
    refine strRule_verdict' _ obj field s _ _ b (timeOk_of ext _ s b ?_)
    rw [fmt_date, ← h]
    exact PGV.Proofs.TimeParse.strict_date _ s hok
  · simp [hok] at h

theorem given_case (arg : Bytes) : ∃ given, (if arg.isEmpty then [] else Bytes.splitByte 44 (unq arg)) = given ∧
    (if arg.isEmpty then [] else Bytes.splitByte COMMA (Bytes.trimByte QUOTE arg)) = given := ⟨_, rfl, rfl⟩

theorem pick_getD (given : List Bytes) (i : Nat) (d : Bytes) :
    (match given[i]? with | some s => s | none => d) = given[i]?.getD d := by
  cases given[i]? <;> rfl

theorem sound_datetime (hs : Shape (b! "datetime") arg) (h : accepts (mkText (b! "datetime") arg msg) s = some b) :
    ∃ run, builtin (b! "datetime") = some (.fn run) ∧ Verdict (run ext (mkText (b! "datetime") arg msg) obj field (.str s)) b := by
  refine ⟨_, rfl, ?_⟩
  unfold accepts at h; rw [ruleParts_mkText _ arg msg hs] at h
  simp (decide := true) only [if_true, if_false, Bool.false_eq_true] at h
  obtain ⟨given, e1, e2⟩ := given_case arg
  rw [e1] at h
  split at h
  · simp at h
  · split at h
    · rename_i hok
      simp only [Bool.and_eq_true] at hok
      simp only [Option.some.injEq] at h
      simp only [ruleDatetime, parse_mkText _ arg msg hs]
      rw [e2]
      refine strRule_verdict' _ obj field s _ _ b (timeOk_of ext _ s b ?_)
      rw [fmt_datetime, ← h]
      rcases h0 : given[0]? with _ | g0 <;> rcases h1 : given[1]? with _ | g1 <;> rcases h2 : given[2]? with _ | g2 <;>
        simp only [h0, h1, h2, Option.getD] at hok ⊢ <;>
        exact PGV.Proofs.TimeParse.strict_datetime _ _ _ s hok.1.1.1 hok.1.1.2 hok.1.2
    · simp at h

end
end PGV.Proofs.AcceptsDate
