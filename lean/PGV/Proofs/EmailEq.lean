import PGV.Proofs.LangEq

/-! The model's transcription of the e-mail pattern (`wordsSep`, a fuel-driven scanner) recognises the
same language as the independent reading in `Spec.Lang` (`splitAny`: cut at every separator, then
every piece is a word). -/

namespace PGV.Proofs.EmailEq
open PGV PGV.Model PGV.Model.Lang PGV.Spec.Lang PGV.Proofs.LangEq PGV.Proofs.RuleText

theorem isWord_eq (c : UInt8) : isWord c = wordc c := by
  simp [isWord, wordc, isDigit, digit, letter, Bool.or_assoc]

theorem splitAny_cons (isSep : UInt8 → Bool) (c : UInt8) (t : Bytes) :
    splitAny isSep (c :: t) =
      if isSep c then ([] :: (splitAny isSep t).1, c :: (splitAny isSep t).2)
      else match (splitAny isSep t).1 with
        | [] => ([[c]], (splitAny isSep t).2)
        | w :: r => ((c :: w) :: r, (splitAny isSep t).2) := by
  rw [splitAny]
  rcases splitAny isSep t with ⟨ws, ss⟩
  rfl

theorem splitAny_ne_nil (isSep : UInt8 → Bool) (x : Bytes) : (splitAny isSep x).1 ≠ [] := by
  cases x with
  | nil => simp [splitAny]
  | cons c t =>
    rw [splitAny_cons]
    split
    · simp
    · split <;> simp

/-- a run of non-separators in front joins the first piece -/
theorem splitAny_append (isSep : UInt8 → Bool) (w d : Bytes) (hw : ∀ c ∈ w, isSep c = false) :
    ∃ h t, (splitAny isSep d).1 = h :: t ∧
      splitAny isSep (w ++ d) = ((w ++ h) :: t, (splitAny isSep d).2) := by
  induction w with
  | nil =>
    cases hs : (splitAny isSep d).1 with
    | nil => exact absurd hs (splitAny_ne_nil isSep d)
    | cons h t => exact ⟨h, t, rfl, by simp only [List.nil_append]; rw [← hs]⟩
  | cons a r ih =>
    obtain ⟨h, t, e1, e2⟩ := ih (fun c hc => hw c (List.mem_cons_of_mem _ hc))
    refine ⟨h, t, e1, ?_⟩
    have ha : isSep a = false := hw a (by simp)
    rw [List.cons_append, splitAny_cons, ha, e2]
    rfl

theorem word_cons_false (c : UInt8) (r : Bytes) (h : wordc c = false) : word (c :: r) = false := by
  simp [word, h]

theorem word_append_bad (w : Bytes) (c : UInt8) (r : Bytes) (h : wordc c = false) : word (w ++ c :: r) = false := by
  simp [word, h]

/-- a text that does not start with a word character has a first piece that is not a word -/
theorem not_word_start (isSep : UInt8 → Bool) (x : Bytes) (h : x.takeWhile isWord = []) :
    (splitAny isSep x).1.all word = false := by
  cases x with
  | nil => rfl
  | cons d t =>
    have hd : wordc d = false := by
      rw [← isWord_eq]
      simp only [List.takeWhile_cons] at h
      split at h
      · cases h
      · rename_i hh; simpa using hh
    rw [splitAny_cons]
    split
    · simp [word]
    · split
      · simp [word, hd]
      · simp [word, hd]

/-- a byte that is not a separator survives in some piece -/
theorem piece_of_mem (isSep : UInt8 → Bool) (x : Bytes) (c : UInt8) (hc : c ∈ x) (h1 : isSep c = false) :
    ∃ w ∈ (splitAny isSep x).1, c ∈ w := by
  induction x with
  | nil => cases hc
  | cons a t ih =>
    rw [splitAny_cons]
    rcases List.mem_cons.mp hc with e | hm
    · subst e
      simp only [h1, Bool.false_eq_true, if_false]
      split
      · exact ⟨[c], by simp, by simp⟩
      · rename_i w r _; exact ⟨c :: w, by simp, by simp⟩
    · obtain ⟨w, hw, hcw⟩ := ih hm
      split
      · exact ⟨w, List.mem_cons_of_mem _ hw, hcw⟩
      · split
        · rename_i hs; exact absurd hs (splitAny_ne_nil isSep t)
        · rename_i w0 r hs
          rw [hs] at hw
          rcases List.mem_cons.mp hw with e | e
          · subst e; exact ⟨a :: w, by simp, List.mem_cons_of_mem _ hcw⟩
          · exact ⟨w, List.mem_cons_of_mem _ e, hcw⟩

/-- a byte that is neither a separator nor a word character spoils some piece -/
theorem bad_byte (isSep : UInt8 → Bool) (x : Bytes) (c : UInt8) (hc : c ∈ x) (h1 : isSep c = false) (h2 : wordc c = false) :
    (splitAny isSep x).1.all word = false := by
  obtain ⟨w, hw, hcw⟩ := piece_of_mem isSep x c hc h1
  cases hall : (splitAny isSep x).1.all word with
  | false => rfl
  | true =>
    have hword := List.all_eq_true.mp hall w hw
    simp only [word, Bool.and_eq_true] at hword
    have := List.all_eq_true.mp hword.2 c hcw
    rw [h2] at this; cases this

theorem length_dropWhile_le (p : UInt8 → Bool) (s : Bytes) : (s.dropWhile p).length ≤ s.length := by
  induction s with
  | nil => simp
  | cons a t ih =>
    simp only [List.dropWhile_cons]
    split
    · simp only [List.length_cons]; omega
    · simp

/-- what the scanner's loop computes, stated on the pieces -/
def tailSpec (isSep : UInt8 → Bool) (x : Bytes) (acc : List UInt8) : Option (List UInt8) :=
  match x with
  | [] => some acc.reverse
  | c :: r => if isSep c && (splitAny isSep r).1.all word then some (acc.reverse ++ c :: (splitAny isSep r).2) else none

theorem word_of_all (w : Bytes) (hne : w ≠ []) (hw : w.all isWord = true) : word w = true := by
  have : w.all wordc = true := by
    rw [List.all_eq_true] at hw ⊢
    intro c hc; rw [← isWord_eq]; exact hw c hc
  cases w with
  | nil => exact absurd rfl hne
  | cons a r => simp only [word, List.isEmpty_cons, Bool.not_false, Bool.true_and]; exact this

/-- a word followed by the rest of the text: the rest decides -/
theorem after_word (isSep : UInt8 → Bool) (hsep : ∀ c, isSep c = true → isWord c = false)
    (w d : Bytes) (acc : List UInt8) (hne : w ≠ []) (hw : w.all isWord = true)
    (hd : ∀ x t, d = x :: t → isWord x = false) :
    tailSpec isSep d acc =
      if (splitAny isSep (w ++ d)).1.all word then some (acc.reverse ++ (splitAny isSep (w ++ d)).2) else none := by
  have hwsep : ∀ c ∈ w, isSep c = false := by
    intro c hc
    have := List.all_eq_true.mp hw c hc
    cases h : isSep c with
    | false => rfl
    | true => rw [hsep c h] at this; cases this
  obtain ⟨h, t, e1, e2⟩ := splitAny_append isSep w d hwsep
  rw [e2]
  cases d with
  | nil =>
    simp only [splitAny] at e1 ⊢
    injection e1 with eh et
    subst eh et
    simp [tailSpec, word_of_all w hne hw]
  | cons x r =>
    have hx : isWord x = false := hd x r rfl
    rw [splitAny_cons] at e1 ⊢
    by_cases hs : isSep x = true
    · simp only [hs, if_true] at e1 ⊢
      injection e1 with eh et
      subst eh et
      simp [tailSpec, hs, word_of_all w hne hw]
    · have hs' : isSep x = false := by simpa using hs
      simp only [hs', Bool.false_eq_true, if_false] at e1 ⊢
      have hbad : word (w ++ h) = false := by
        split at e1
        · injection e1 with eh _; subst eh
          exact word_append_bad w x [] (by rw [← isWord_eq]; exact hx)
        · injection e1 with eh _; subst eh
          exact word_append_bad w x _ (by rw [← isWord_eq]; exact hx)
      simp [tailSpec, hs', hbad]

theorem go_spec (isSep : UInt8 → Bool) (hsep : ∀ c, isSep c = true → isWord c = false) :
    ∀ (fuel : Nat) (x : Bytes) (acc : List UInt8), x.length ≤ fuel →
      wordsSep.go isSep fuel x acc = tailSpec isSep x acc := by
  intro fuel
  induction fuel with
  | zero =>
    intro x acc hl
    cases x with
    | nil => rfl
    | cons _ _ => simp at hl
  | succ f ih =>
    intro x acc hl
    cases x with
    | nil => rfl
    | cons c rest =>
      rw [wordsSep.go]
      by_cases hs : isSep c = true
      · simp only [hs, if_true]
        by_cases hw : (rest.takeWhile isWord).isEmpty = true
        · simp only [hw, if_true]
          have : rest.takeWhile isWord = [] := by simpa using hw
          simp [tailSpec, hs, not_word_start isSep rest this]
        · simp only [hw, Bool.false_eq_true, if_false]
          have hne : rest.takeWhile isWord ≠ [] := by simpa using hw
          have hlen : (rest.dropWhile isWord).length ≤ f := by
            have := length_dropWhile_le isWord rest
            simp only [List.length_cons] at hl
            omega
          rw [ih _ _ hlen]
          rw [after_word isSep hsep (rest.takeWhile isWord) (rest.dropWhile isWord) (c :: acc) hne
              (all_takeWhile isWord rest) (fun x t h => dropWhile_head isWord rest x t h)]
          rw [takeWhile_drop']
          simp [tailSpec, hs]
      · have hs' : isSep c = false := by simpa using hs
        simp [hs', tailSpec]

/-- the scanner = "cut at every separator; every piece is a word; return the separators" -/
theorem wordsSep_spec (isSep : UInt8 → Bool) (hsep : ∀ c, isSep c = true → isWord c = false) (s : Bytes) :
    wordsSep isSep s = if (splitAny isSep s).1.all word then some (splitAny isSep s).2 else none := by
  rw [wordsSep]
  by_cases hw : (s.takeWhile isWord).isEmpty = true
  · simp only [hw, if_true]
    have : s.takeWhile isWord = [] := by simpa using hw
    simp [not_word_start isSep s this]
  · simp only [hw, Bool.false_eq_true, if_false]
    have hne : s.takeWhile isWord ≠ [] := by simpa using hw
    rw [go_spec isSep hsep _ _ _ (length_dropWhile_le isWord s)]
    rw [after_word isSep hsep (s.takeWhile isWord) (s.dropWhile isWord) [] hne
        (all_takeWhile isWord s) (fun x t h => dropWhile_head isWord s x t h)]
    rw [takeWhile_drop']
    simp

theorem indexByte?_none (c : UInt8) (s : Bytes) (h : Bytes.indexByte? c s = none) : c ∉ s := by
  induction s with
  | nil => simp
  | cons x t ih =>
    rw [Bytes.indexByte?] at h
    split at h
    · cases h
    · rename_i hx
      have ht : Bytes.indexByte? c t = none := by
        cases hh : Bytes.indexByte? c t with
        | none => rfl
        | some _ => rw [hh] at h; cases h
      intro hm
      rcases List.mem_cons.mp hm with e | e
      · subst e; simp at hx
      · exact ih ht e

theorem indexByte?_some (c : UInt8) (s : Bytes) (i : Nat) (h : Bytes.indexByte? c s = some i) :
    s = s.take i ++ c :: s.drop (i + 1) ∧ c ∉ s.take i := by
  induction s generalizing i with
  | nil => cases h
  | cons x t ih =>
    rw [Bytes.indexByte?] at h
    split at h
    · rename_i hx
      injection h with h; subst h
      have : x = c := eq_of_beq hx
      subst this
      simp
    · rename_i hx
      cases hh : Bytes.indexByte? c t with
      | none => rw [hh] at h; cases h
      | some j =>
        rw [hh] at h
        simp only [Option.map_some, Option.some.injEq] at h
        subst h
        obtain ⟨e1, e2⟩ := ih j hh
        constructor
        · simp only [List.take_succ_cons, List.drop_succ_cons, List.cons_append]
          rw [← e1]
        · simp only [List.take_succ_cons]
          intro hm
          rcases List.mem_cons.mp hm with e | e
          · subst e; simp at hx
          · exact e2 e

def sep1 : UInt8 → Bool := fun c => c == 45 || c == 43 || c == 46
def sep2 : UInt8 → Bool := fun c => c == 45 || c == 46

theorem sep1_not_word (c : UInt8) (h : sep1 c = true) : isWord c = false := by
  simp only [sep1, Bool.or_eq_true, beq_iff_eq] at h
  rcases h with (h | h) | h <;> subst h <;> decide

theorem sep2_not_word (c : UInt8) (h : sep2 c = true) : isWord c = false := by
  simp only [sep2, Bool.or_eq_true, beq_iff_eq] at h
  rcases h with h | h <;> subst h <;> decide

/-- **the e-mail recogniser of the model = the independent reading**, for every byte string -/
theorem email_eq (s : Bytes) : emailRe s = Spec.Lang.email s := by
  unfold emailRe Spec.Lang.email
  cases hi : Bytes.indexByte? 64 s with
  | none =>
    rw [splitByte_not_mem 64 s (indexByte?_none 64 s hi)]
  | some i =>
    obtain ⟨hs, hloc⟩ := indexByte?_some 64 s i hi
    simp only
    generalize s.take i = loc at hs hloc
    generalize s.drop (i + 1) = dom at hs
    rw [hs, splitByte_append 64 loc dom hloc]
    have e1 := wordsSep_spec (fun c => c == 45 || c == 43 || c == 46) sep1_not_word loc
    have e2 := wordsSep_spec (fun c => c == 45 || c == 46) sep2_not_word dom
    rw [e1, e2]
    by_cases hd : (64 : UInt8) ∈ dom
    · have hbad := bad_byte (fun c => c == 45 || c == 46) dom 64 hd (by decide) (by decide)
      have hlen := splitByte_mem_len 64 dom hd
      rw [hbad]
      cases hsp : Bytes.splitByte 64 dom with
      | nil => simp [hsp] at hlen
      | cons p ps =>
        cases ps with
        | nil => simp [hsp] at hlen
        | cons q qs => simp
    · rw [splitByte_not_mem 64 dom hd]
      simp only
      by_cases h1 : (splitAny (fun c => c == 45 || c == 43 || c == 46) loc).1.all word = true <;>
      by_cases h2 : (splitAny (fun c => c == 45 || c == 46) dom).1.all word = true <;>
        simp [h1, h2]

end PGV.Proofs.EmailEq
