import PGV.Model.LRU
import PGV.Spec.LRU

/-!
# Helper lemmas for C09 (LRU cache refinement)
-/

namespace PGV.Proofs.LRU
open PGV.Model.LRU

/-! ## generic association-list facts -/

section Generic
variable {β : Type}

theorem find_fst_eq_some (l : List (Nat × β)) (a : Nat) (b : β)
    (hn : (l.map (·.1)).Nodup) : l.find? (·.1 == a) = some (a, b) ↔ (a, b) ∈ l := by
  induction l with
  | nil => simp
  | cons x t ih =>
    obtain ⟨a', b'⟩ := x
    simp only [List.map_cons, List.nodup_cons, List.mem_map] at hn
    by_cases h : a' = a
    · subst h
      have : (a', b) ∉ t := fun hm => hn.1 ⟨_, hm, rfl⟩
      simp [this, eq_comm]
    · have hne : ¬ (a = a') := fun e => h e.symm
      simp [h, hne, ih hn.2]

theorem find_fst_eq_none (l : List (Nat × β)) (a : Nat) :
    l.find? (·.1 == a) = none ↔ a ∉ l.map (·.1) := by
  simp [List.find?_eq_none]
  constructor
  · intro h b hb; exact h _ _ hb rfl
  · intro h a' b hb e; subst e; exact h b hb

theorem find_snd_eq_some (l : List (β × Nat)) (a : Nat) (b : β)
    (hn : (l.map (·.2)).Nodup) : l.find? (·.2 == a) = some (b, a) ↔ (b, a) ∈ l := by
  induction l with
  | nil => simp
  | cons x t ih =>
    obtain ⟨b', a'⟩ := x
    simp only [List.map_cons, List.nodup_cons, List.mem_map] at hn
    by_cases h : a' = a
    · subst h
      have : (b, a') ∉ t := fun hm => hn.1 ⟨_, hm, rfl⟩
      simp [this, eq_comm]
    · have hne : ¬ (a = a') := fun e => h e.symm
      simp [h, hne, ih hn.2]

/-- removing the (unique) entry with first component `a` shortens the list by exactly one -/
theorem length_filter_fst_ne (l : List (Nat × β)) (a : Nat)
    (hn : (l.map (·.1)).Nodup) (ha : a ∈ l.map (·.1)) :
    (l.filter (·.1 != a)).length + 1 = l.length := by
  induction l with
  | nil => simp at ha
  | cons x t ih =>
    obtain ⟨a', b'⟩ := x
    simp only [List.map_cons, List.nodup_cons] at hn
    by_cases h : a' = a
    · subst h
      have : t.filter (·.1 != a') = t := by
        rw [List.filter_eq_self]
        intro y hy
        have : y.1 ≠ a' := fun e => hn.1 (e ▸ List.mem_map_of_mem hy)
        simpa using this
      simp [this]
    · have hat : a ∈ t.map (·.1) := by
        simp only [List.map_cons, List.mem_cons] at ha
        rcases ha with e | e
        · exact absurd e.symm h
        · exact e
      simp [h, ih hn.2 hat]

/-- if the last entry is the unique one with first component `a`, filtering it out is `dropLast` -/
theorem filter_fst_ne_concat (l : List (Nat × β)) (a : Nat) (b : β)
    (hn : ((l ++ [(a, b)]).map (·.1)).Nodup) :
    (l ++ [(a, b)]).filter (·.1 != a) = l := by
  have hnot : ∀ y ∈ l, y.1 ≠ a := by
    intro y hy e
    simp only [List.map_append, List.map_cons, List.map_nil] at hn
    have := (List.nodup_append.1 hn).2.2 y.1 (List.mem_map_of_mem hy) a (by simp)
    exact this e
  rw [List.filter_append]
  have : l.filter (·.1 != a) = l := by
    rw [List.filter_eq_self]; intro y hy; simpa using hnot y hy
  simp [this]

theorem filterMap_filter_comm {α γ : Type} (f : α → Option γ) (p : α → Bool) (q : γ → Bool)
    (l : List α) (h : ∀ x ∈ l, ∀ y, f x = some y → p x = q y) :
    (l.filter p).filterMap f = (l.filterMap f).filter q := by
  induction l with
  | nil => rfl
  | cons x t ih =>
    have iht := ih (fun x hx => h x (List.mem_cons_of_mem _ hx))
    have hx := h x (List.mem_cons_self)
    cases hfx : f x with
    | none =>
      by_cases hp : p x <;> simp [hp, hfx, iht]
    | some y =>
      have := hx y hfx
      by_cases hp : p x
      · have hq : q y = true := by rw [← this]; exact hp
        simp [hp, hfx, iht, hq]
      · have hq : ¬ q y = true := by rw [← this]; exact hp
        simp [hp, hfx, iht, hq]

theorem fst_unique (l : List (Nat × β)) (hn : (l.map (·.1)).Nodup) {a : Nat} {b b' : β}
    (h : (a, b) ∈ l) (h' : (a, b') ∈ l) : b = b' := by
  have e := (find_fst_eq_some l a b hn).2 h
  rw [(find_fst_eq_some l a b' hn).2 h'] at e
  cases e; rfl

theorem snd_unique (l : List (β × Nat)) (hn : (l.map (·.2)).Nodup) {a : Nat} {b b' : β}
    (h : (b, a) ∈ l) (h' : (b', a) ∈ l) : b = b' := by
  have e := (find_snd_eq_some l a b hn).2 h
  rw [(find_snd_eq_some l a b' hn).2 h'] at e
  cases e; rfl

theorem mem_map_fst_filter (l : List (Nat × β)) (a a' : Nat) :
    a' ∈ (l.filter (·.1 != a)).map (·.1) ↔ a' ∈ l.map (·.1) ∧ a' ≠ a := by
  simp only [List.mem_map, List.mem_filter]
  constructor
  · rintro ⟨x, ⟨hx, hne⟩, e⟩
    subst e
    exact ⟨⟨x, hx, rfl⟩, by simpa using hne⟩
  · rintro ⟨⟨x, hx, e⟩, hne⟩
    subst e
    exact ⟨x, ⟨hx, by simpa using hne⟩, rfl⟩

theorem filterMap_congr' {α γ : Type} (f g : α → Option γ) (l : List α)
    (h : ∀ x ∈ l, f x = g x) : l.filterMap f = l.filterMap g := by
  induction l with
  | nil => rfl
  | cons x t ih =>
    rw [List.filterMap_cons, List.filterMap_cons, h x List.mem_cons_self,
      ih (fun y hy => h y (List.mem_cons_of_mem _ hy))]

end Generic

/-! ## the invariant and the abstraction function -/

/-- internal consistency of the two-structure representation -/
structure Inv (s : St) : Prop where
  keys_nodup : (s.nodeMap.map (·.1)).Nodup
  ids_nodup  : (s.nodeMap.map (·.2)).Nodup
  list_nodup : (s.list.map (·.1)).Nodup
  same_ids   : ∀ id, id ∈ s.nodeMap.map (·.2) ↔ id ∈ s.list.map (·.1)
  bound      : s.list.length ≤ s.cap
  fresh      : ∀ id ∈ s.list.map (·.1), id < s.next

/-- abstraction: the recency list with each element's key looked up in the index -/
def abs (s : St) : PGV.Spec.LRU.Sp :=
  s.list.filterMap fun (id, v) => (keyOf s.nodeMap id).map fun k => (k, v)

/-- the element-wise abstraction map -/
def absF (nm : List (Key × ElemId)) (p : ElemId × Val) : Option (Key × Val) :=
  (keyOf nm p.1).map fun k => (k, p.2)

def absL (nm : List (Key × ElemId)) (l : List (ElemId × Val)) : List (Key × Val) :=
  l.filterMap (absF nm)

theorem abs_eq (s : St) : abs s = absL s.nodeMap s.list := rfl

/-- the part of the invariant that relates index and recency list (no bound, no freshness) -/
structure WInv (nm : List (Key × ElemId)) (l : List (ElemId × Val)) : Prop where
  keys_nodup : (nm.map (·.1)).Nodup
  ids_nodup  : (nm.map (·.2)).Nodup
  list_nodup : (l.map (·.1)).Nodup
  same_ids   : ∀ id, id ∈ nm.map (·.2) ↔ id ∈ l.map (·.1)

theorem Inv.winv {s : St} (h : Inv s) : WInv s.nodeMap s.list :=
  ⟨h.keys_nodup, h.ids_nodup, h.list_nodup, h.same_ids⟩

/-! ## point lookups -/

theorem lookup_none (nm : List (Key × ElemId)) (k : Key) :
    lookup nm k = none ↔ k ∉ nm.map (·.1) := by
  unfold lookup
  rw [Option.map_eq_none_iff]
  exact find_fst_eq_none nm k

theorem keyOf_none (nm : List (Key × ElemId)) (id : ElemId) :
    keyOf nm id = none ↔ id ∉ nm.map (·.2) := by
  unfold keyOf
  rw [Option.map_eq_none_iff]
  simp [List.find?_eq_none]
  constructor
  · intro h b hb; exact h _ _ hb rfl
  · intro h a' b hb e; subst e; exact h a' hb

theorem lookup_some {nm : List (Key × ElemId)} (hn : (nm.map (·.1)).Nodup) (k : Key) (id : ElemId) :
    lookup nm k = some id ↔ (k, id) ∈ nm := by
  unfold lookup
  constructor
  · intro h
    rw [Option.map_eq_some_iff] at h
    obtain ⟨⟨k', id'⟩, hf, e⟩ := h
    have hk : k' = k := by simpa using List.find?_some hf
    have := List.mem_of_find?_eq_some hf
    simp only at e
    subst hk; subst e; exact this
  · intro h
    rw [(find_fst_eq_some nm k id hn).2 h]; rfl

theorem keyOf_some {nm : List (Key × ElemId)} (hn : (nm.map (·.2)).Nodup) (id : ElemId) (k : Key) :
    keyOf nm id = some k ↔ (k, id) ∈ nm := by
  unfold keyOf
  constructor
  · intro h
    rw [Option.map_eq_some_iff] at h
    obtain ⟨⟨k', id'⟩, hf, e⟩ := h
    have hk : id' = id := by simpa using List.find?_some hf
    have := List.mem_of_find?_eq_some hf
    simp only at e
    subst hk; subst e; exact this
  · intro h
    rw [(find_snd_eq_some nm id k hn).2 h]; rfl

theorem valOf_some {l : List (ElemId × Val)} (hn : (l.map (·.1)).Nodup) (id : ElemId) (v : Val) :
    valOf l id = some v ↔ (id, v) ∈ l :=
  lookup_some (nm := l) hn id v

/-! ## consequences of `WInv` -/

namespace WInv
variable {nm : List (Key × ElemId)} {l : List (ElemId × Val)}

/-- the index is a bijection between keys and ids -/
theorem inj (W : WInv nm l) {k k' : Key} {id id' : ElemId}
    (h : (k, id) ∈ nm) (h' : (k', id') ∈ nm) : k = k' ↔ id = id' := by
  constructor
  · intro e; subst e; exact fst_unique nm W.keys_nodup h h'
  · intro e; subst e; exact snd_unique nm W.ids_nodup h h'

theorem key_of_mem (W : WInv nm l) {id : ElemId} {v : Val} (h : (id, v) ∈ l) :
    ∃ k, (k, id) ∈ nm := by
  have : id ∈ nm.map (·.2) := (W.same_ids id).2 (List.mem_map_of_mem (f := (·.1)) h)
  obtain ⟨⟨k, id'⟩, hm, e⟩ := List.mem_map.1 this
  simp only at e; subst e
  exact ⟨k, hm⟩

theorem val_of_mem (W : WInv nm l) {k : Key} {id : ElemId} (h : (k, id) ∈ nm) :
    ∃ v, (id, v) ∈ l := by
  have : id ∈ l.map (·.1) := (W.same_ids id).1 (List.mem_map_of_mem (f := (·.2)) h)
  obtain ⟨⟨id', v⟩, hm, e⟩ := List.mem_map.1 this
  simp only at e; subst e
  exact ⟨v, hm⟩

theorem absF_some (W : WInv nm l) {k : Key} {id : ElemId} (h : (k, id) ∈ nm) (v : Val) :
    absF nm (id, v) = some (k, v) := by
  unfold absF
  rw [(keyOf_some W.ids_nodup id k).2 h]; rfl

theorem absF_eq_some (W : WInv nm l) (x : ElemId × Val) (y : Key × Val) :
    absF nm x = some y ↔ (y.1, x.1) ∈ nm ∧ y.2 = x.2 := by
  unfold absF
  rw [Option.map_eq_some_iff]
  constructor
  · rintro ⟨k, hk, e⟩
    subst e
    exact ⟨(keyOf_some W.ids_nodup _ _).1 hk, rfl⟩
  · rintro ⟨h1, h2⟩
    refine ⟨y.1, (keyOf_some W.ids_nodup _ _).2 h1, ?_⟩
    rw [← h2]

theorem mem_absL (W : WInv nm l) (k : Key) (v : Val) :
    (k, v) ∈ absL nm l ↔ ∃ id, (id, v) ∈ l ∧ (k, id) ∈ nm := by
  unfold absL
  rw [List.mem_filterMap]
  constructor
  · rintro ⟨⟨id, v'⟩, hm, hf⟩
    obtain ⟨h1, h2⟩ := (W.absF_eq_some _ _).1 hf
    simp only at h1 h2; subst h2
    exact ⟨id, hm, h1⟩
  · rintro ⟨id, hm, hk⟩
    exact ⟨(id, v), hm, W.absF_some hk v⟩

/-- every element of the recency list survives the abstraction, with its value -/
theorem absL_sub (W : WInv nm l) (l' : List (ElemId × Val)) (hsub : ∀ x ∈ l', x ∈ l) :
    (l'.filterMap (absF nm)).length = l'.length ∧
    (l'.filterMap (absF nm)).map (·.2) = l'.map (·.2) := by
  induction l' with
  | nil => exact ⟨rfl, rfl⟩
  | cons x t ih =>
    obtain ⟨id, v⟩ := x
    obtain ⟨k, hk⟩ := W.key_of_mem (hsub _ List.mem_cons_self)
    have iht := ih (fun y hy => hsub y (List.mem_cons_of_mem _ hy))
    rw [List.filterMap_cons, W.absF_some hk v]
    simp [iht.1, iht.2]

theorem absL_length (W : WInv nm l) : (absL nm l).length = l.length :=
  (W.absL_sub l (fun _ h => h)).1

theorem absL_map_snd (W : WInv nm l) : (absL nm l).map (·.2) = l.map (·.2) :=
  (W.absL_sub l (fun _ h => h)).2

theorem absL_keys_nodup (W : WInv nm l) : ((absL nm l).map (·.1)).Nodup := by
  have h0 : l.Pairwise (fun a b => a.1 ≠ b.1) := by
    have := W.list_nodup
    unfold List.Nodup at this
    rwa [List.pairwise_map] at this
  have h1 : (absL nm l).Pairwise (fun a b => a.1 ≠ b.1) := by
    unfold absL
    refine List.Pairwise.filterMap (absF nm) ?_ h0
    intro a a' hne b hb b' hb' e
    obtain ⟨m1, _⟩ := (W.absF_eq_some _ _).1 hb
    obtain ⟨m2, _⟩ := (W.absF_eq_some _ _).1 hb'
    exact hne ((W.inj m1 m2).1 e)
  unfold List.Nodup
  rwa [List.pairwise_map]

theorem key_mem_absL (W : WInv nm l) (k : Key) :
    k ∈ (absL nm l).map (·.1) ↔ k ∈ nm.map (·.1) := by
  constructor
  · intro h
    obtain ⟨⟨k', v⟩, hm, e⟩ := List.mem_map.1 h
    simp only at e; subst e
    obtain ⟨id, _, hk⟩ := (W.mem_absL _ _).1 hm
    exact List.mem_map_of_mem (f := (·.1)) hk
  · intro h
    obtain ⟨⟨k', id⟩, hm, e⟩ := List.mem_map.1 h
    simp only at e; subst e
    obtain ⟨v, hv⟩ := W.val_of_mem hm
    exact List.mem_map_of_mem (f := (·.1)) ((W.mem_absL _ _).2 ⟨id, hv, hm⟩)

/-- a hit in the abstract state finds exactly the value stored in the recency list -/
theorem find_absL (W : WInv nm l) {k : Key} {id : ElemId} {v : Val}
    (hk : (k, id) ∈ nm) (hv : (id, v) ∈ l) :
    (absL nm l).find? (·.1 == k) = some (k, v) :=
  (find_fst_eq_some _ k v W.absL_keys_nodup).2 ((W.mem_absL k v).2 ⟨id, hv, hk⟩)

/-! ### `MoveToFront` -/

theorem moveFront_winv (W : WInv nm l) {id : ElemId} (hid : id ∈ l.map (·.1)) (v : Val) :
    WInv nm (moveFront l id v) := by
  refine ⟨W.keys_nodup, W.ids_nodup, ?_, ?_⟩
  · unfold moveFront
    rw [List.map_cons, List.nodup_cons]
    refine ⟨?_, W.list_nodup.sublist (List.filter_sublist.map _)⟩
    intro h
    exact ((mem_map_fst_filter l id id).1 h).2 rfl
  · intro id'
    rw [W.same_ids id']
    unfold moveFront
    rw [List.map_cons, List.mem_cons, mem_map_fst_filter]
    constructor
    · intro h
      by_cases e : id' = id
      · exact Or.inl e
      · exact Or.inr ⟨h, e⟩
    · rintro (e | ⟨h, _⟩)
      · exact e ▸ hid
      · exact h

theorem moveFront_length (W : WInv nm l) {id : ElemId} (hid : id ∈ l.map (·.1)) (v : Val) :
    (moveFront l id v).length = l.length := by
  unfold moveFront
  rw [List.length_cons]
  exact length_filter_fst_ne l id W.list_nodup hid

theorem absL_filter (W : WInv nm l) {k : Key} {id : ElemId} (hk : (k, id) ∈ nm) :
    (l.filter (·.1 != id)).filterMap (absF nm) = (absL nm l).filter (·.1 != k) := by
  unfold absL
  apply filterMap_filter_comm
  intro x _ y hf
  obtain ⟨m, _⟩ := (W.absF_eq_some x y).1 hf
  have := W.inj m hk
  by_cases e : x.1 = id
  · have e' := this.2 e
    simp [e, e']
  · have e' : ¬ y.1 = k := fun h => e (this.1 h)
    have h1 : (x.1 != id) = true := by simpa using e
    have h2 : (y.1 != k) = true := by simpa using e'
    show (x.1 != id) = (y.1 != k)
    rw [h1, h2]

theorem absL_moveFront (W : WInv nm l) {k : Key} {id : ElemId} (hk : (k, id) ∈ nm) (v : Val) :
    absL nm (moveFront l id v) = (k, v) :: (absL nm l).filter (·.1 != k) := by
  show ((id, v) :: l.filter (·.1 != id)).filterMap (absF nm) = _
  rw [List.filterMap_cons, W.absF_some hk v, W.absL_filter hk]

/-! ### removing an entry from both structures -/

theorem remove_winv (W : WInv nm l) {k : Key} {id : ElemId} (hk : (k, id) ∈ nm) :
    WInv (nm.filter (·.1 != k)) (l.filter (·.1 != id)) := by
  refine ⟨W.keys_nodup.sublist (List.filter_sublist.map _),
    W.ids_nodup.sublist (List.filter_sublist.map _),
    W.list_nodup.sublist (List.filter_sublist.map _), ?_⟩
  intro id'
  rw [mem_map_fst_filter, ← W.same_ids id']
  simp only [List.mem_map, List.mem_filter]
  constructor
  · rintro ⟨⟨k', i⟩, ⟨hm, hne⟩, e⟩
    simp only at e; subst e
    refine ⟨⟨_, hm, rfl⟩, ?_⟩
    intro e
    have : k' = k := (W.inj hm hk).2 e
    simp [this] at hne
  · rintro ⟨⟨⟨k', i⟩, hm, e⟩, hne⟩
    simp only at e; subst e
    refine ⟨_, ⟨hm, ?_⟩, rfl⟩
    have : ¬ k' = k := fun e => hne ((W.inj hm hk).1 e)
    simpa using this

theorem absL_remove (W : WInv nm l) {k : Key} {id : ElemId} (hk : (k, id) ∈ nm) :
    absL (nm.filter (·.1 != k)) (l.filter (·.1 != id)) = (absL nm l).filter (·.1 != k) := by
  rw [← W.absL_filter hk]
  unfold absL
  apply filterMap_congr'
  rintro ⟨i, v⟩ hx
  rw [List.mem_filter] at hx
  obtain ⟨hx, hne⟩ := hx
  have hne' : ¬ i = id := by simpa using hne
  obtain ⟨k', hk'⟩ := W.key_of_mem hx
  have hkk : ¬ k' = k := fun e => hne' ((W.inj hk' hk).1 e)
  have hm' : (k', i) ∈ nm.filter (·.1 != k) := by
    rw [List.mem_filter]; exact ⟨hk', by simpa using hkk⟩
  rw [(W.remove_winv hk).absF_some hm' v, W.absF_some hk' v]

/-! ### inserting a fresh entry at the front -/

theorem insert_winv (W : WInv nm l) {k : Key} {id : ElemId}
    (hk : k ∉ nm.map (·.1)) (hid : id ∉ l.map (·.1)) (v : Val) :
    WInv ((k, id) :: nm) ((id, v) :: l) := by
  refine ⟨?_, ?_, ?_, ?_⟩
  · rw [List.map_cons, List.nodup_cons]; exact ⟨hk, W.keys_nodup⟩
  · rw [List.map_cons, List.nodup_cons]
    exact ⟨fun h => hid ((W.same_ids id).1 h), W.ids_nodup⟩
  · rw [List.map_cons, List.nodup_cons]; exact ⟨hid, W.list_nodup⟩
  · intro id'
    rw [List.map_cons, List.map_cons, List.mem_cons, List.mem_cons, W.same_ids id']

theorem absL_insert (W : WInv nm l) {k : Key} {id : ElemId}
    (hk : k ∉ nm.map (·.1)) (hid : id ∉ l.map (·.1)) (v : Val) :
    absL ((k, id) :: nm) ((id, v) :: l) = (k, v) :: absL nm l := by
  have W1 := W.insert_winv hk hid v
  unfold absL
  rw [List.filterMap_cons, W1.absF_some List.mem_cons_self v]
  show (k, v) :: _ = _
  congr 1
  apply filterMap_congr'
  rintro ⟨i, v'⟩ hx
  obtain ⟨k', hk'⟩ := W.key_of_mem hx
  rw [W1.absF_some (List.mem_cons_of_mem _ hk') v', W.absF_some hk' v']

end WInv

theorem WInv.length_eq {nm : List (Key × ElemId)} {l : List (ElemId × Val)} (W : WInv nm l) :
    nm.length = l.length := by
  have := ((List.perm_ext_iff_of_nodup W.ids_nodup W.list_nodup).2 W.same_ids).length_eq
  simpa using this

theorem Inv.of_winv {s : St} (W : WInv s.nodeMap s.list) (hb : s.list.length ≤ s.cap)
    (hf : ∀ id ∈ s.list.map (·.1), id < s.next) : Inv s :=
  ⟨W.keys_nodup, W.ids_nodup, W.list_nodup, W.same_ids, hb, hf⟩

/-! ## `deleteNode` -/

theorem deleteNode_eq (s : St) (W : WInv s.nodeMap s.list) {k : Key} {id : ElemId} {v : Val}
    (hk : (k, id) ∈ s.nodeMap) (hv : (id, v) ∈ s.list) :
    deleteNode s id =
      ({ s with nodeMap := s.nodeMap.filter (·.1 != k), list := s.list.filter (·.1 != id),
                delMapCount := if s.delMapCount > 2 * s.cap then 0 else s.delMapCount + 1 },
       [(k, v)]) := by
  unfold deleteNode
  rw [(keyOf_some W.ids_nodup id k).2 hk, (valOf_some W.list_nodup id v).2 hv]

/-- deleting the back element of the recency list is `dropLast` on the abstract state -/
theorem evict_back (s : St) (W : WInv s.nodeMap s.list) (l0 : List (ElemId × Val))
    (bid : ElemId) (bv : Val) (hl : s.list = l0 ++ [(bid, bv)]) :
    ∃ kb, (kb, bid) ∈ s.nodeMap ∧ (bid, bv) ∈ s.list ∧
      (abs s).dropLast = (abs s).filter (·.1 != kb) ∧ (abs s).getLast?.toList = [(kb, bv)] := by
  have hm : (bid, bv) ∈ s.list := by rw [hl]; simp
  obtain ⟨kb, hkb⟩ := W.key_of_mem hm
  refine ⟨kb, hkb, hm, ?_⟩
  have hA : abs s = l0.filterMap (absF s.nodeMap) ++ [(kb, bv)] := by
    rw [abs_eq]; unfold absL
    rw [hl, List.filterMap_append, List.filterMap_cons, W.absF_some hkb bv]; rfl
  have hn := W.absL_keys_nodup
  rw [← abs_eq, hA] at hn
  rw [hA, filter_fst_ne_concat _ kb bv hn, List.dropLast_concat, List.getLast?_concat]
  exact ⟨rfl, rfl⟩


/-! ## one-step simulation -/

/-- one step preserves the invariant and the capacity, produces the spec's output, and commutes
with `abs` -/
def Sim (s : St) (op : Op) : Prop :=
  Inv (step s op).1 ∧ (step s op).1.cap = s.cap ∧
  (step s op).2 = (PGV.Spec.LRU.step s.cap (abs s) op).2 ∧
  abs (step s op).1 = (PGV.Spec.LRU.step s.cap (abs s) op).1

theorem sim_of_eq {s : St} {op : Op} {s' : St} {o : Out}
    (hm : step s op = (s', o)) (hs : PGV.Spec.LRU.step s.cap (abs s) op = (abs s', o))
    (hi : Inv s') (hc : s'.cap = s.cap) : Sim s op := by
  unfold Sim
  rw [hm, hs]
  exact ⟨hi, hc, rfl, rfl⟩

theorem moveFront_inv {s : St} (I : Inv s) {id : ElemId} (hid : id ∈ s.list.map (·.1)) (v : Val) :
    Inv { s with list := moveFront s.list id v } := by
  have W := I.winv
  have W' := W.moveFront_winv hid v
  refine Inv.of_winv W' ?_ ?_
  · show (moveFront s.list id v).length ≤ s.cap
    rw [W.moveFront_length hid v]; exact I.bound
  · intro id' h
    exact I.fresh id' ((W.same_ids id').1 ((W'.same_ids id').2 h))

theorem store_hit_sim {s : St} (I : Inv s) (k : Key) (v : Val) (id : ElemId)
    (hl : lookup s.nodeMap k = some id) : Sim s (.store k v) := by
  have W := I.winv
  have hk := (lookup_some W.keys_nodup k id).1 hl
  obtain ⟨v0, hv0⟩ := W.val_of_mem hk
  have hid : id ∈ s.list.map (·.1) := List.mem_map_of_mem (f := (·.1)) hv0
  have hany : (abs s).any (·.1 == k) = true := by
    rw [List.any_eq_true]
    exact ⟨(k, v0), (W.mem_absL k v0).2 ⟨id, hv0, hk⟩, by simp⟩
  apply sim_of_eq (s' := { s with list := moveFront s.list id v }) (o := .cbs [])
  · show store s k v = _
    unfold store; rw [hl]
  · show (if (abs s).any (·.1 == k) then _ else _) = _
    rw [if_pos hany, abs_eq, abs_eq]
    show _ = (absL s.nodeMap (moveFront s.list id v), _)
    rw [W.absL_moveFront hk v]
  · exact moveFront_inv I hid v
  · rfl

theorem load_sim {s : St} (I : Inv s) (k : Key) : Sim s (.load k) := by
  have W := I.winv
  cases hl : lookup s.nodeMap k with
  | none =>
    have hkn := (lookup_none _ _).1 hl
    have hf : (abs s).find? (·.1 == k) = none := by
      rw [find_fst_eq_none, abs_eq, W.key_mem_absL]; exact hkn
    apply sim_of_eq (s' := s) (o := .miss)
    · show load s k = _
      unfold load; rw [hl]
    · show (match (abs s).find? (·.1 == k) with | some (_, v) => _ | none => _) = _
      rw [hf]
    · exact I
    · rfl
  | some id =>
    have hk := (lookup_some W.keys_nodup k id).1 hl
    obtain ⟨v, hv⟩ := W.val_of_mem hk
    have hid : id ∈ s.list.map (·.1) := List.mem_map_of_mem (f := (·.1)) hv
    have hf : (abs s).find? (·.1 == k) = some (k, v) := W.find_absL hk hv
    apply sim_of_eq (s' := { s with list := moveFront s.list id v }) (o := .hit v)
    · show load s k = _
      unfold load; rw [hl]; simp only; rw [(valOf_some W.list_nodup id v).2 hv]
    · show (match (abs s).find? (·.1 == k) with | some (_, v) => _ | none => _) = _
      rw [hf, abs_eq, abs_eq]
      show _ = (absL s.nodeMap (moveFront s.list id v), _)
      rw [W.absL_moveFront hk v]
    · exact moveFront_inv I hid v
    · rfl

theorem len_sim {s : St} (I : Inv s) : Sim s .len := by
  have W := I.winv
  apply sim_of_eq (s' := s) (o := .len s.list.length)
  · show len s = _
    unfold len
    have : (s.list.length != s.nodeMap.length) = false := by
      rw [W.length_eq]; simp
    rw [this]; rfl
  · show (abs s, Out.len (abs s).length) = _
    rw [abs_eq, W.absL_length]
  · exact I
  · rfl

theorem dump_sim {s : St} (I : Inv s) : Sim s .dump := by
  have W := I.winv
  apply sim_of_eq (s' := s) (o := .dump (s.list.map (·.2)))
  · rfl
  · show (abs s, Out.dump ((abs s).map (·.2))) = _
    rw [abs_eq, W.absL_map_snd]
  · exact I
  · rfl

theorem mem_ids_of_filter {l : List (ElemId × Val)} {id id' : ElemId}
    (h : id' ∈ (l.filter (·.1 != id)).map (·.1)) : id' ∈ l.map (·.1) :=
  ((mem_map_fst_filter l id id').1 h).1

theorem delete_sim {s : St} (I : Inv s) (k : Key) : Sim s (.delete k) := by
  have W := I.winv
  cases hl : lookup s.nodeMap k with
  | none =>
    have hkn := (lookup_none _ _).1 hl
    have hf : (abs s).find? (·.1 == k) = none := by
      rw [find_fst_eq_none, abs_eq, W.key_mem_absL]; exact hkn
    apply sim_of_eq (s' := s) (o := .cbs [])
    · show delete s k = _
      unfold delete; rw [hl]
    · show (match (abs s).find? (·.1 == k) with | some (_, v) => _ | none => _) = _
      rw [hf]
    · exact I
    · rfl
  | some id =>
    have hk := (lookup_some W.keys_nodup k id).1 hl
    obtain ⟨v, hv⟩ := W.val_of_mem hk
    have hf : (abs s).find? (·.1 == k) = some (k, v) := W.find_absL hk hv
    have W' := W.remove_winv hk
    apply sim_of_eq (o := .cbs [(k, v)])
      (s' := { s with nodeMap := s.nodeMap.filter (·.1 != k), list := s.list.filter (·.1 != id),
                      delMapCount := if s.delMapCount > 2 * s.cap then 0 else s.delMapCount + 1 })
    · show delete s k = _
      unfold delete; rw [hl]; simp only; rw [deleteNode_eq s W hk hv]
    · show (match (abs s).find? (·.1 == k) with | some (_, v) => _ | none => _) = _
      rw [hf, abs_eq, abs_eq]
      show _ = (absL (s.nodeMap.filter (·.1 != k)) (s.list.filter (·.1 != id)), _)
      rw [W.absL_remove hk]
    · refine Inv.of_winv W' ?_ ?_
      · exact Nat.le_trans (List.length_filter_le _ _) I.bound
      · intro id' h
        exact I.fresh id' (mem_ids_of_filter h)
    · rfl

theorem store_miss_sim {s : St} (I : Inv s) (k : Key) (v : Val)
    (hl : lookup s.nodeMap k = none) : Sim s (.store k v) := by
  have W := I.winv
  have hkn := (lookup_none _ _).1 hl
  have hfr : s.next ∉ s.list.map (·.1) := fun h => Nat.lt_irrefl _ (I.fresh _ h)
  have W1 := W.insert_winv hkn hfr v
  have hA1 := W.absL_insert hkn hfr v
  have hany : ¬ ((abs s).any (·.1 == k) = true) := by
    rw [List.any_eq_true]
    rintro ⟨⟨k', v'⟩, hm, e⟩
    have e' : k' = k := by simpa using e
    subst e'
    exact hkn ((W.key_mem_absL k').1 (List.mem_map_of_mem (f := (·.1)) hm))
  have hlen : (abs s).length = s.list.length := W.absL_length
  have hfresh1 : ∀ id ∈ ((s.next, v) :: s.list).map (·.1), id < s.next + 1 := by
    intro id' h
    rw [List.map_cons, List.mem_cons] at h
    rcases h with e | h
    · rw [e]; exact Nat.lt_succ_self _
    · exact Nat.lt_succ_of_lt (I.fresh _ h)
  by_cases hov : s.list.length + 1 > s.cap
  · -- overflow: evict the back element
    obtain ⟨⟨bid, bv⟩, hlast⟩ : ∃ x, ((s.next, v) :: s.list).getLast? = some x := by
      rw [List.getLast?_eq_some_getLast (by simp)]; exact ⟨_, rfl⟩
    obtain ⟨l0, hl0⟩ := List.getLast?_eq_some_iff.1 hlast
    let s1 : St := { s with list := (s.next, v) :: s.list, nodeMap := (k, s.next) :: s.nodeMap,
                            next := s.next + 1 }
    obtain ⟨kb, hkb, hbm, hdrop, hget⟩ := evict_back s1 W1 l0 bid bv hl0
    have habs1 : abs s1 = (k, v) :: abs s := hA1
    apply sim_of_eq (o := .cbs [(kb, bv)])
      (s' := { s1 with nodeMap := s1.nodeMap.filter (·.1 != kb), list := s1.list.filter (·.1 != bid),
                       delMapCount := if s1.delMapCount > 2 * s1.cap then 0 else s1.delMapCount + 1 })
    · show store s k v = _
      unfold store; rw [hl]; simp only
      rw [if_pos (by simpa using hov), hlast]; simp only
      rw [deleteNode_eq s1 W1 hkb hbm]
    · show (if (abs s).any (·.1 == k) then _ else _) = _
      rw [if_neg hany]
      show (if ((k, v) :: abs s).length > s.cap then _ else _) = _
      rw [if_pos (by rw [List.length_cons, hlen]; exact hov), ← habs1, hdrop, hget, abs_eq s1,
        ← W1.absL_remove hkb]
      rfl
    · refine Inv.of_winv (W1.remove_winv hkb) ?_ ?_
      · show (s1.list.filter (·.1 != bid)).length ≤ s.cap
        have h1 : (s1.list.filter (·.1 != bid)).length + 1 = s.list.length + 1 :=
          length_filter_fst_ne s1.list bid W1.list_nodup (List.mem_map_of_mem (f := (·.1)) hbm)
        exact Nat.le_trans (Nat.le_of_eq (Nat.succ.inj h1)) I.bound
      · intro id' h
        exact hfresh1 id' (mem_ids_of_filter h)
    · rfl
  · apply sim_of_eq (o := .cbs [])
      (s' := { s with list := (s.next, v) :: s.list, nodeMap := (k, s.next) :: s.nodeMap,
                      next := s.next + 1 })
    · show store s k v = _
      unfold store; rw [hl]; simp only
      rw [if_neg (by simpa using hov)]
    · show (if (abs s).any (·.1 == k) then _ else _) = _
      rw [if_neg hany]
      show (if ((k, v) :: abs s).length > s.cap then _ else _) = _
      rw [if_neg (by rw [List.length_cons, hlen]; exact hov)]
      show _ = (absL _ _, _)
      rw [hA1]; rfl
    · refine Inv.of_winv W1 ?_ hfresh1
      show s.list.length + 1 ≤ s.cap
      omega
    · rfl

theorem step_sim {s : St} (I : Inv s) (op : Op) : Sim s op := by
  cases op with
  | store k v =>
    cases hl : lookup s.nodeMap k with
    | none => exact store_miss_sim I k v hl
    | some id => exact store_hit_sim I k v id hl
  | load k => exact load_sim I k
  | delete k => exact delete_sim I k
  | len => exact len_sim I
  | dump => exact dump_sim I

/-! ## whole runs -/

theorem run_sim (ops : List Op) : ∀ (s : St), Inv s →
    Inv (run s ops).1 ∧ (run s ops).1.cap = s.cap ∧
    (run s ops).2 = (PGV.Spec.LRU.run s.cap (abs s) ops).2 ∧
    abs (run s ops).1 = (PGV.Spec.LRU.run s.cap (abs s) ops).1 := by
  induction ops with
  | nil => intro s I; exact ⟨I, rfl, rfl, rfl⟩
  | cons o os ih =>
    intro s I
    obtain ⟨I1, hc, ho, ha⟩ := step_sim I o
    obtain ⟨I2, hc2, ho2, ha2⟩ := ih (step s o).1 I1
    rw [hc, ha] at ho2 ha2
    refine ⟨I2, hc2.trans hc, ?_, ha2⟩
    show (step s o).2 :: (run (step s o).1 os).2 = _ :: _
    rw [ho, ho2]

theorem new_inv (cap : Nat) : Inv (new cap) :=
  ⟨List.nodup_nil, List.nodup_nil, List.nodup_nil, fun _ => Iff.rfl, Nat.zero_le _,
   fun _ h => nomatch h⟩

theorem run_new_sim (cap : Nat) (ops : List Op) :
    Inv (run (new cap) ops).1 ∧ (run (new cap) ops).1.cap = cap ∧
    (run (new cap) ops).2 = (PGV.Spec.LRU.run cap [] ops).2 ∧
    abs (run (new cap) ops).1 = (PGV.Spec.LRU.run cap [] ops).1 :=
  run_sim ops (new cap) (new_inv cap)

/-- the abstract state reached by the spec is bounded and has unique keys -/
theorem spec_run_bound (cap : Nat) (ops : List Op) :
    (PGV.Spec.LRU.run cap [] ops).1.length ≤ cap ∧
    ((PGV.Spec.LRU.run cap [] ops).1.map (·.1)).Nodup := by
  obtain ⟨I, hc, _, ha⟩ := run_new_sim cap ops
  rw [← ha, abs_eq]
  constructor
  · rw [I.winv.absL_length]
    have hb := I.bound
    rw [hc] at hb
    exact hb
  · exact I.winv.absL_keys_nodup

/-! ## facts about the spec alone -/

theorem spec_run_append (cap : Nat) (a b : List Op) : ∀ (s : PGV.Spec.LRU.Sp),
    PGV.Spec.LRU.run cap s (a ++ b) =
      ((PGV.Spec.LRU.run cap (PGV.Spec.LRU.run cap s a).1 b).1,
       (PGV.Spec.LRU.run cap s a).2 ++ (PGV.Spec.LRU.run cap (PGV.Spec.LRU.run cap s a).1 b).2) := by
  induction a with
  | nil => intro s; rfl
  | cons o os ih =>
    intro s
    show ((PGV.Spec.LRU.run cap (PGV.Spec.LRU.step cap s o).1 (os ++ b)).1,
          (PGV.Spec.LRU.step cap s o).2 :: (PGV.Spec.LRU.run cap (PGV.Spec.LRU.step cap s o).1 (os ++ b)).2) = _
    rw [ih]; rfl

/-- after `store k v` (capacity at least one) the entry `(k, v)` is at the front -/
theorem spec_store_head (cap : Nat) (hc : 0 < cap) (s : PGV.Spec.LRU.Sp) (k : Key) (v : Val) :
    ∃ t, (PGV.Spec.LRU.step cap s (.store k v)).1 = (k, v) :: t := by
  show ∃ t, (if s.any (·.1 == k) then _ else _ : PGV.Spec.LRU.Sp × Out).1 = _
  split
  · exact ⟨_, rfl⟩
  · show ∃ t, (if ((k, v) :: s).length > cap then _ else _ : PGV.Spec.LRU.Sp × Out).1 = _
    split
    · cases s with
      | nil => rename_i h; simp at h; omega
      | cons x t => exact ⟨_, rfl⟩
    · exact ⟨_, rfl⟩

theorem spec_load_head (cap : Nat) (t : PGV.Spec.LRU.Sp) (k : Key) (v : Val) :
    (PGV.Spec.LRU.step cap ((k, v) :: t) (.load k)).2 = .hit v := by
  show (match ((k, v) :: t).find? (·.1 == k) with
    | some (_, v) => _ | none => _ : PGV.Spec.LRU.Sp × Out).2 = _
  rw [List.find?_cons_of_pos (by simp)]

/-- storing a new key: push at the front, and on overflow drop exactly the last entry -/
theorem spec_store_new (cap : Nat) (s : PGV.Spec.LRU.Sp) (k : Key) (v : Val)
    (hk : k ∉ s.map (·.1)) :
    PGV.Spec.LRU.step cap s (.store k v) =
      if s.length < cap then ((k, v) :: s, .cbs [])
      else (((k, v) :: s).dropLast, .cbs [((k, v) :: s).getLast (by simp)]) := by
  have hany : ¬ (s.any (·.1 == k) = true) := by
    rw [List.any_eq_true]
    rintro ⟨x, hx, e⟩
    have e' : x.1 = k := by simpa using e
    exact hk (e' ▸ List.mem_map_of_mem (f := (·.1)) hx)
  show (if s.any (·.1 == k) then _ else _) = _
  rw [if_neg hany]
  show (if ((k, v) :: s).length > cap then _ else _) = _
  by_cases h : s.length < cap
  · rw [if_pos h, if_neg (by rw [List.length_cons]; omega)]
  · rw [if_neg h, if_pos (by rw [List.length_cons]; omega),
      List.getLast?_eq_some_getLast (by simp)]
    rfl

/-- what `find?` by key returns, and the length bookkeeping that goes with it -/
theorem spec_find_some (s : PGV.Spec.LRU.Sp) (hn : (s.map (·.1)).Nodup) (k k' : Key) (v : Val)
    (hf : s.find? (·.1 == k) = some (k', v)) :
    k' = k ∧ k ∈ s.map (·.1) ∧ (s.filter (·.1 != k)).length + 1 = s.length := by
  have hk : k' = k := by simpa using List.find?_some hf
  have hm := List.mem_of_find?_eq_some hf
  subst hk
  have hmem : k' ∈ s.map (·.1) := List.mem_map_of_mem (f := (·.1)) hm
  exact ⟨rfl, hmem, length_filter_fst_ne s k' hn hmem⟩

theorem spec_load_none (cap : Nat) (s : PGV.Spec.LRU.Sp) (k : Key)
    (hf : s.find? (·.1 == k) = none) : PGV.Spec.LRU.step cap s (.load k) = (s, .miss) := by
  show (match s.find? (·.1 == k) with | some (_, v) => _ | none => _) = _
  rw [hf]

theorem spec_load_some (cap : Nat) (s : PGV.Spec.LRU.Sp) (k k' : Key) (v : Val)
    (hf : s.find? (·.1 == k) = some (k', v)) :
    PGV.Spec.LRU.step cap s (.load k) = ((k, v) :: s.filter (·.1 != k), .hit v) := by
  show (match s.find? (·.1 == k) with | some (_, v) => _ | none => _) = _
  rw [hf]

theorem spec_delete_none (cap : Nat) (s : PGV.Spec.LRU.Sp) (k : Key)
    (hf : s.find? (·.1 == k) = none) : PGV.Spec.LRU.step cap s (.delete k) = (s, .cbs []) := by
  show (match s.find? (·.1 == k) with | some (_, v) => _ | none => _) = _
  rw [hf]

theorem spec_delete_some (cap : Nat) (s : PGV.Spec.LRU.Sp) (k k' : Key) (v : Val)
    (hf : s.find? (·.1 == k) = some (k', v)) :
    PGV.Spec.LRU.step cap s (.delete k) = (s.filter (·.1 != k), .cbs [(k, v)]) := by
  show (match s.find? (·.1 == k) with | some (_, v) => _ | none => _) = _
  rw [hf]

end PGV.Proofs.LRU
