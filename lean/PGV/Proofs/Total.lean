import PGV.Model.Walker

/-!
# No modelled panic is reachable (helper lemmas for C13)

`NP x`: the computation `x` does not end in `.error (.panic _)`.
-/

namespace PGV.Proofs.Total
open PGV PGV.Model

structure NP {α} (x : M α) : Prop where
  np : ∀ w, x ≠ .error (.panic w)

theorem NP_pure {α} (a : α) : NP (pure a : M α) := ⟨by intro w h; cases h⟩
theorem NP_ok {α} (a : α) : NP (.ok a : M α) := ⟨by intro w h; cases h⟩
theorem NP_need {α} (q : ExtQ) : NP (throw (.need q) : M α) := ⟨by intro w h; cases h⟩
theorem NP_unmodelled {α} (s : String) : NP (throw (.unmodelled s) : M α) := ⟨by intro w h; cases h⟩
theorem NP_bind {α β} (x : M α) (f : α → M β) (hx : NP x) (hf : ∀ a, NP (f a)) : NP (x >>= f) := by
  refine ⟨?_⟩
  intro w h
  cases x with
  | error e =>
    cases e with
    | panic w' => exact hx.np w' rfl
    | need q => cases h
    | unmodelled s => cases h
  | ok a => exact (hf a).np w h
theorem NP_map {α β} (x : M α) (f : α → β) (hx : NP x) : NP (f <$> x) := by
  refine ⟨?_⟩
  intro w h
  cases x with
  | error e =>
    cases e with
    | panic w' => exact hx.np w' rfl
    | need q => cases h
    | unmodelled s => cases h
  | ok a => cases h
theorem NP_ite {α} (c : Prop) [Decidable c] (x y : M α) (hx : NP x) (hy : NP y) : NP (if c then x else y) := by
  split <;> assumption

theorem NP_ite' {α} (c : Prop) [Decidable c] (x y : M α) (hx : c → NP x) (hy : ¬c → NP y) : NP (if c then x else y) := by
  split
  · exact hx ‹_›
  · exact hy ‹_›

theorem NP_askExt (ext : Ext) (q : ExtQ) : NP (askExt ext q) := by
  unfold askExt; split
  · exact NP_pure _
  · exact NP_need _

theorem NP_mapM {α β} (f : α → M β) (l : List α) (hf : ∀ a, NP (f a)) : NP (l.mapM f) := by
  induction l with
  | nil => exact NP_pure _
  | cons a l ih =>
    rw [List.mapM_cons]
    exact NP_bind _ _ (hf a) fun b => NP_bind _ _ ih fun bs => NP_pure _

macro "np_step" : tactic => `(tactic| first
  | exact NP_pure _ | exact NP_ok _ | exact NP_need _ | exact NP_unmodelled _ | exact NP_askExt _ _
  | assumption
  | (refine NP_bind _ _ ?_ ?_) | (refine NP_ite _ _ _ ?_ ?_) | (refine NP_map _ _ ?_) | (refine NP_mapM _ _ ?_) | (intro _) | split)
macro "np" : tactic => `(tactic| repeat np_step)

theorem NP_sprintExt (e : Ext) (v : GoVal) : NP (sprintExt e v) := by unfold sprintExt; np

theorem NP_toStrDyn (e : Ext) (v : GoVal) : NP (toStrDyn e v) := by
  have := fun x => NP_sprintExt e x
  unfold toStrDyn; np

theorem NP_toStrIface (e : Ext) (v : GoVal) : NP (toStrIface e v) := by
  unfold toStrIface
  split
  · exact NP_toStrDyn e _
  · exact NP_pure _
  · exact NP_toStrDyn e _

theorem NP_parseTagTo (e : Ext) (t : Bytes) (h : Bool) : NP (parseTagTo e t h) := by unfold parseTagTo; np

theorem NP_ruleTo (e : Ext) (a c d : Bytes) (v : GoVal) (h : Bool) : NP (ruleTo e a c d v h) := by
  unfold ruleTo
  rcases parseValidNameKV a with ⟨k, tv, cm⟩
  simp only
  refine NP_bind _ _ (NP_parseTagTo _ _ _) ?_
  intro r
  cases r with
  | error e => exact NP_pure _
  | ok p =>
    rcases p with ⟨mn, mx⟩
    simp only
    np

theorem NP_ruleEq (e : Ext) (a c d : Bytes) (v : GoVal) (w : Bool) : NP (ruleEq e a c d v w) := by
  unfold ruleEq
  have := NP_toStrIface e v
  rcases eqCore a v with ⟨x, u, cm, iseq⟩
  simp only
  np

theorem indexByte?_spec (c : UInt8) (s : Bytes) (i : Nat) (h : Bytes.indexByte? c s = some i) :
    i < s.length ∧ s[i]? = some c := by
  induction s generalizing i with
  | nil => simp [Bytes.indexByte?] at h
  | cons x t ih =>
    simp only [Bytes.indexByte?] at h
    split at h
    · rename_i hx; injection h with h; subst h; simp at hx; simp [hx]
    · cases ht : Bytes.indexByte? c t with
      | none => simp [ht] at h
      | some j =>
        simp [ht] at h; subst h
        have := ih j ht
        refine ⟨by simp; omega, ?_⟩
        rw [List.getElem?_cons_succ]; exact this.2

theorem lastIndexByte?_spec (c : UInt8) (s : Bytes) (r : Nat) (h : Bytes.lastIndexByte? c s = some r) :
    r < s.length ∧ s[r]? = some c := by
  unfold Bytes.lastIndexByte? at h
  cases hi : Bytes.indexByte? c s.reverse with
  | none => simp [hi] at h
  | some i =>
    simp [hi] at h; subst h
    have := indexByte?_spec c s.reverse i hi
    simp at this
    refine ⟨by omega, ?_⟩
    have h2 := this.2
    rw [List.getElem?_reverse this.1] at h2
    exact h2

theorem NP_sliceM (s : Bytes) (lo hi : Nat) (h : lo ≤ hi ∧ hi ≤ s.length) : NP (sliceM s lo hi) := by
  unfold sliceM Bytes.slice?
  simp [h]; exact NP_pure _

theorem reScan_bound (rest : Bytes) (i0 : Nat) (acc pat : Bytes) (i : Nat) (h : reScan rest i0 acc = some (pat, i)) :
    i + 1 < i0 + rest.length := by
  induction rest generalizing i0 acc with
  | nil => simp [reScan] at h
  | cons v t ih =>
    cases t with
    | nil => simp [reScan] at h
    | cons nx t' =>
      rw [reScan] at h
      split at h
      · injection h with h; injection h with h1 h2; subst h2; simp
      · have := ih (i0 + 1) (v :: acc) h
        simp at this ⊢; omega

theorem NP_ruleIn (e : Ext) (a c d : Bytes) (v : GoVal) : NP (ruleIn e a c d v) := by
  unfold ruleIn
  rcases parseValidNameKV a with ⟨k, tv, cm⟩
  simp only
  have := NP_toStrIface e v
  cases hl : Bytes.indexByte? 40 tv <;> cases hr : lastIndexByte 41 tv <;> simp only
  · exact NP_pure _
  · exact NP_pure _
  · exact NP_pure _
  · rename_i l r
    have hl' := indexByte?_spec 40 tv l hl
    have hr' := lastIndexByte?_spec 41 tv r hr
    refine NP_ite' _ _ _ (fun _ => NP_pure _) fun hlt => ?_
    refine NP_bind _ _ (NP_sliceM _ _ _ ?_) ?_
    · have : l ≠ r := by
        intro e; subst e
        have h1 := hl'.2; have h2 := hr'.2
        rw [h1] at h2; simp at h2
      omega
    · intro; np

theorem NP_strRule (a c d : Bytes) (v : GoVal) (ok : Bytes → M Bool) (dflt : Bytes) (hok : ∀ s, NP (ok s)) :
    NP (strRule a c d v ok dflt) := by
  unfold strRule
  cases checkFieldIsStr c d v with
  | some e => exact NP_pure _
  | none =>
    simp only
    refine NP_bind _ _ (hok _) ?_
    intro r
    rcases parseValidNameKV a with ⟨k, tv, cm⟩
    np

theorem NP_timeOk (e : Ext) (l s : Bytes) : NP (timeOk e l s) := by
  unfold timeOk; split
  · exact NP_pure _
  · np

theorem NP_rulePhone (a c d : Bytes) (v : GoVal) : NP (rulePhone a c d v) := NP_strRule _ _ _ _ _ _ fun _ => NP_pure _
theorem NP_ruleEmail (a c d : Bytes) (v : GoVal) : NP (ruleEmail a c d v) := NP_strRule _ _ _ _ _ _ fun _ => NP_pure _
theorem NP_ruleIDCard (a c d : Bytes) (v : GoVal) : NP (ruleIDCard a c d v) := NP_strRule _ _ _ _ _ _ fun _ => NP_pure _
theorem NP_ruleIp (e : Ext) (a c d : Bytes) (v : GoVal) (w : Nat) : NP (ruleIp e a c d v w) :=
  NP_strRule _ _ _ _ _ _ fun _ => NP_bind _ _ (NP_askExt _ _) fun _ => NP_pure _
theorem NP_ruleYear (e : Ext) (a c d : Bytes) (v : GoVal) : NP (ruleYear e a c d v) := NP_strRule _ _ _ _ _ _ fun _ => NP_timeOk _ _ _
theorem NP_ruleYear2Month (e : Ext) (a c d : Bytes) (v : GoVal) : NP (ruleYear2Month e a c d v) := by
  unfold ruleYear2Month
  rcases parseValidNameKV a with ⟨k, tv, cm⟩
  exact NP_strRule _ _ _ _ _ _ fun _ => NP_timeOk _ _ _
theorem NP_ruleDate (e : Ext) (a c d : Bytes) (v : GoVal) : NP (ruleDate e a c d v) := by
  unfold ruleDate
  rcases parseValidNameKV a with ⟨k, tv, cm⟩
  exact NP_strRule _ _ _ _ _ _ fun _ => NP_timeOk _ _ _
theorem NP_ruleDatetime (e : Ext) (a c d : Bytes) (v : GoVal) : NP (ruleDatetime e a c d v) := by
  unfold ruleDatetime
  rcases parseValidNameKV a with ⟨k, tv, cm⟩
  exact NP_strRule _ _ _ _ _ _ fun _ => NP_timeOk _ _ _
theorem NP_rulePrefix (a c d : Bytes) (v : GoVal) (p : Bool) : NP (rulePrefix a c d v p) := by
  unfold rulePrefix
  rcases parseValidNameKV a with ⟨k, tv, cm⟩
  exact NP_strRule _ _ _ _ _ _ fun _ => NP_pure _

theorem NP_ruleRe (e : Ext) (a c d : Bytes) (v : GoVal) : NP (ruleRe e a c d v) := by
  unfold ruleRe
  cases checkFieldIsStr c d v with
  | some x => exact NP_pure _
  | none =>
    simp only
    cases hq : Bytes.indexByte? QUOTE a with
    | none => exact NP_pure _
    | some qi =>
      simp only
      have hq' := indexByte?_spec QUOTE a qi hq
      cases hs : reScan (a.drop (qi + 1)) (qi + 1) [] with
      | none => exact NP_pure _
      | some p =>
        rcases p with ⟨pat, i⟩
        simp only
        have hb := reScan_bound _ _ _ _ _ hs
        simp at hb
        refine NP_bind _ _ (NP_sliceM _ _ _ (by omega)) fun x => ?_
        refine NP_bind _ _ (NP_sliceM _ _ _ (by omega)) fun y => ?_
        rcases parseValidNameKV (x ++ y) with ⟨k, tv, cm⟩
        np

theorem NP_ruleInt (e : Ext) (a c d : Bytes) (v : GoVal) : NP (ruleInt e a c d v) := by
  unfold ruleInt
  rcases parseValidNameKV a with ⟨k, tv, cm⟩
  have := NP_toStrIface e v
  cases v <;> simp only <;> np

theorem NP_ruleFloat (e : Ext) (a c d : Bytes) (v : GoVal) : NP (ruleFloat e a c d v) := by
  unfold ruleFloat
  rcases parseValidNameKV a with ⟨k, tv, cm⟩
  have := NP_toStrIface e v
  cases v <;> simp only <;> np

theorem NP_ruleInts (e : Ext) (a c d : Bytes) (v : GoVal) : NP (ruleInts e a c d v) := by
  unfold ruleInts
  rcases parseValidNameKV a with ⟨k, tv, cm⟩
  have h := fun x => NP_toStrIface e x
  cases v <;> simp only <;> np

theorem NP_ruleUnique (e : Ext) (a c d : Bytes) (v : GoVal) : NP (ruleUnique e a c d v) := by
  unfold ruleUnique
  rcases parseValidNameKV a with ⟨k, tv, cm⟩
  have h := fun x => NP_toStrIface e x
  cases v <;> simp only <;> np

theorem NP_ruleJson (e : Ext) (a c d : Bytes) (v : GoVal) : NP (ruleJson e a c d v) := by
  unfold ruleJson
  cases checkFieldIsStr c d v with
  | some x => exact NP_pure _
  | none =>
    simp only
    refine NP_bind _ _ (NP_askExt _ _) ?_
    intro r
    rcases parseValidNameKV a with ⟨k, tv, cm⟩
    np

theorem NP_ruleFileDir (e : Ext) (a c d : Bytes) (v : GoVal) (w : Bool) : NP (ruleFileDir e a c d v w) := by
  unfold ruleFileDir
  cases checkFieldIsStr c d v with
  | some x => exact NP_pure _
  | none =>
    simp only
    refine NP_bind _ _ (NP_askExt _ _) ?_
    intro r
    rcases parseValidNameKV a with ⟨k, tv, cm⟩
    np

/-- every function of the global rule table -/
theorem NP_builtinTable : ∀ p ∈ builtinTable, ∀ run, p.2 = .fn run → ∀ (e : Ext) (a c d : Bytes) (v : GoVal), NP (run e a c d v) := by
  intro p hp run hrun e a c d v
  simp only [builtinTable, List.mem_cons, List.not_mem_nil, or_false] at hp
  rcases hp with rfl | rfl | rfl | rfl | rfl | rfl | rfl | rfl | rfl | rfl | rfl | rfl | rfl | rfl | rfl | rfl | rfl
    | rfl | rfl | rfl | rfl | rfl | rfl | rfl | rfl | rfl | rfl | rfl | rfl | rfl | rfl | rfl | rfl | rfl
  · cases hrun
  · cases hrun
  · cases hrun
  · cases hrun
  · injection hrun with hrun; subst hrun; exact NP_ruleTo _ _ _ _ _ _
  · injection hrun with hrun; subst hrun; exact NP_ruleTo _ _ _ _ _ _
  · injection hrun with hrun; subst hrun; exact NP_pure _
  · injection hrun with hrun; subst hrun; exact NP_pure _
  · injection hrun with hrun; subst hrun; exact NP_pure _
  · injection hrun with hrun; subst hrun; exact NP_pure _
  · injection hrun with hrun; subst hrun; exact NP_ruleEq _ _ _ _ _ _
  · injection hrun with hrun; subst hrun; exact NP_ruleEq _ _ _ _ _ _
  · injection hrun with hrun; subst hrun; exact NP_ruleIn _ _ _ _ _
  · injection hrun with hrun; subst hrun; exact NP_ruleIn _ _ _ _ _
  · injection hrun with hrun; subst hrun; exact NP_rulePhone _ _ _ _
  · injection hrun with hrun; subst hrun; exact NP_ruleEmail _ _ _ _
  · injection hrun with hrun; subst hrun; exact NP_ruleIDCard _ _ _ _
  · injection hrun with hrun; subst hrun; exact NP_ruleYear _ _ _ _ _
  · injection hrun with hrun; subst hrun; exact NP_ruleYear2Month _ _ _ _ _
  · injection hrun with hrun; subst hrun; exact NP_ruleDate _ _ _ _ _
  · injection hrun with hrun; subst hrun; exact NP_ruleDatetime _ _ _ _ _
  · injection hrun with hrun; subst hrun; exact NP_ruleInt _ _ _ _ _
  · injection hrun with hrun; subst hrun; exact NP_ruleInts _ _ _ _ _
  · injection hrun with hrun; subst hrun; exact NP_ruleFloat _ _ _ _ _
  · injection hrun with hrun; subst hrun; exact NP_ruleRe _ _ _ _ _
  · injection hrun with hrun; subst hrun; exact NP_ruleIp _ _ _ _ _ _
  · injection hrun with hrun; subst hrun; exact NP_ruleIp _ _ _ _ _ _
  · injection hrun with hrun; subst hrun; exact NP_ruleIp _ _ _ _ _ _
  · injection hrun with hrun; subst hrun; exact NP_ruleUnique _ _ _ _ _
  · injection hrun with hrun; subst hrun; exact NP_ruleJson _ _ _ _ _
  · injection hrun with hrun; subst hrun; exact NP_rulePrefix _ _ _ _ _
  · injection hrun with hrun; subst hrun; exact NP_rulePrefix _ _ _ _ _
  · injection hrun with hrun; subst hrun; exact NP_ruleFileDir _ _ _ _ _ _
  · injection hrun with hrun; subst hrun; exact NP_ruleFileDir _ _ _ _ _ _

theorem lookup_mem {α β} [BEq α] [LawfulBEq α] (l : List (α × β)) (k : α) (v : β) (h : l.lookup k = some v) : (k, v) ∈ l := by
  induction l with
  | nil => simp at h
  | cons p l ih =>
    rcases p with ⟨k', v'⟩
    simp only [List.lookup_cons] at h
    split at h
    · rename_i hk; injection h with h; subst h; have := eq_of_beq hk; subst this; simp
    · exact List.mem_cons_of_mem _ (ih h)

theorem NP_builtin (key : Bytes) (run) (h : builtin key = some (.fn run)) (e : Ext) (a c d : Bytes) (v : GoVal) :
    NP (run e a c d v) :=
  NP_builtinTable (key, .fn run) (lookup_mem _ _ _ h) run rfl e a c d v

theorem NP_resolved_builtin (t : FnTables) (key : Bytes) (run) (h : resolveFn t key = .builtin run)
    (e : Ext) (a c d : Bytes) (v : GoVal) : NP (run e a c d v) := by
  unfold resolveFn at h
  split at h
  · cases h
  · split at h
    · cases h
    · split at h
      · cases h
      · rename_i hb; injection h with h; subst h; exact NP_builtin _ _ hb _ _ _ _ _
      · cases h

/-! ### the rule loops -/

theorem NP_fieldRules (ext : Ext) (fns : FnTables) (scope sn fname : Bytes) (v : GoVal)
    (descend : Bool → Bool → Bytes → WSt → M WSt) (hd : ∀ a b c st, NP (descend a b c st))
    (rs : List Bytes) (d : Bool) (st : WSt) : NP (fieldRules ext fns scope sn fname v descend rs d st) := by
  induction rs generalizing d st with
  | nil => rw [fieldRules]; exact NP_pure _
  | cons r rs ih =>
    rw [fieldRules]
    refine NP_ite _ _ _ (ih _ _) ?_
    rcases parseValidNameKV r with ⟨k, tv, cm⟩
    simp only
    cases hres : resolveFn fns k with
    | unknown => exact ih _ _
    | structural =>
      simp only
      refine NP_ite _ _ _ ?_ (NP_ite _ _ _ ?_ (ih _ _))
      · refine NP_ite _ _ _ (ih _ _) (NP_bind _ _ (hd _ _ _ _) fun _ => ih _ _)
      · exact NP_bind _ _ (hd _ _ _ _) fun _ => ih _ _
    | custom mk => exact NP_ite _ _ _ (ih _ _) (ih _ _)
    | builtin run =>
      exact NP_ite _ _ _ (ih _ _) (NP_bind _ _ (NP_resolved_builtin fns k run hres _ _ _ _ _) fun _ => ih _ _)

theorem NP_flatRules (c : FlatCfg) (scope ne nc : Bytes) (v : GoVal) (rs : List Bytes) (st : WSt) :
    NP (flatRules c scope ne nc v rs st) := by
  induction rs generalizing st with
  | nil => rw [flatRules]; exact NP_pure _
  | cons r rs ih =>
    rw [flatRules]
    refine NP_ite _ _ _ (ih _) ?_
    rcases parseValidNameKV r with ⟨k, tv, cm⟩
    simp only
    cases hres : resolveFn c.fns k with
    | unknown => exact ih _
    | structural =>
      simp only
      exact NP_ite _ _ _ (NP_ite _ _ _ (ih _) (ih _)) (NP_ite _ _ _ (ih _) (ih _))
    | custom mk => exact NP_ite _ _ _ (ih _) (ih _)
    | builtin run =>
      exact NP_ite _ _ _ (ih _) (NP_bind _ _ (NP_resolved_builtin c.fns k run hres _ _ _ _ _) fun _ => ih _)

end PGV.Proofs.Total

namespace PGV.Proofs.Total
open PGV PGV.Model

theorem NP_keyStr (e : Ext) (k : GoVal) : NP (keyStr e k) := by
  have hs := fun x => NP_sprintExt e x
  unfold keyStr
  split
  · exact NP_pure _
  · split
    · split
      · exact NP_pure _
      · exact hs _
    · exact hs _
theorem NP_nonStruct (n : Bytes) (v : GoVal) (g : Bool) (st : WSt) : NP (nonStruct n v g st) := by unfold nonStruct; np

mutual
theorem NP_validate (cfg : StructCfg) (name : Bytes) (v : GoVal) (g : Bool) (st : WSt) : NP (validate cfg name v g st) := by
  cases v with
  | ptr t tgt =>
    cases tgt with
    | none => rw [validate]; exact NP_pure _
    | some x => rw [validate]; exact NP_validate cfg name x g st
  | struct t n tm fs => rw [validate]; exact NP_fieldsLoop cfg _ _ fs st
  | str s => rw [validate]; exact NP_nonStruct _ _ _ _
  | bool s => rw [validate]; exact NP_nonStruct _ _ _ _
  | int _ _ => rw [validate]; exact NP_nonStruct _ _ _ _
  | uint _ _ => rw [validate]; exact NP_nonStruct _ _ _ _
  | float _ _ _ _ => rw [validate]; exact NP_nonStruct _ _ _ _
  | iface _ _ => rw [validate]; exact NP_nonStruct _ _ _ _
  | slice _ _ _ _ => rw [validate]; exact NP_nonStruct _ _ _ _
  | array _ _ _ => rw [validate]; exact NP_nonStruct _ _ _ _
  | map _ _ _ _ => rw [validate]; exact NP_nonStruct _ _ _ _
  | other _ _ _ _ => rw [validate]; exact NP_nonStruct _ _ _ _
theorem NP_fieldsLoop (cfg : StructCfg) (sn : Bytes) (cus : RM) (fs : Fields) (st : WSt) : NP (fieldsLoop cfg sn cus fs st) := by
  cases fs with
  | nil => rw [fieldsLoop]; exact NP_pure _
  | cons name ex tt tags v rest =>
    rw [fieldsLoop]
    refine NP_ite _ _ _ ?_ ?_
    · exact NP_bind _ _ (NP_pure _) (fun st1 => NP_fieldsLoop cfg sn cus rest st1)
    · exact NP_bind _ _ (NP_fieldRules _ _ _ _ _ _ _ (fun a b c st => NP_existTop cfg sn name v a b c st) _ _ _)
        (fun st1 => NP_fieldsLoop cfg sn cus rest st1)
theorem NP_existTop (cfg : StructCfg) (sn fname : Bytes) (v : GoVal) (k skip : Bool) (cus : Bytes) (st : WSt) :
    NP (existTop cfg sn fname v k skip cus st) := by
  cases v with
  | ptr t tgt =>
    cases tgt with
    | none => rw [existTop]; exact NP_pure _
    | some x => rw [existTop]; exact NP_existStripped cfg sn fname x k skip cus st
  | struct t n tm fs => rw [existTop]; exact NP_ite _ _ _ (NP_pure _) (NP_fieldsLoop cfg _ _ fs st)
  | slice t e n es => rw [existTop]; exact NP_ite _ _ _ (NP_pure _) (NP_elemsLoop cfg _ 0 es st)
  | array t e es => rw [existTop]; exact NP_ite _ _ _ (NP_pure _) (NP_elemsLoop cfg _ 0 es st)
  | map t ks n es => rw [existTop]; exact NP_ite _ _ _ (NP_pure _) (NP_entriesLoop cfg _ es _)
  | str s => rw [existTop]; exact NP_pure _
  | bool s => rw [existTop]; exact NP_pure _
  | int _ _ => rw [existTop]; exact NP_pure _
  | uint _ _ => rw [existTop]; exact NP_pure _
  | float _ _ _ _ => rw [existTop]; exact NP_pure _
  | iface _ _ => rw [existTop]; exact NP_pure _
  | other _ _ _ _ => rw [existTop]; exact NP_pure _
theorem NP_existStripped (cfg : StructCfg) (sn fname : Bytes) (v : GoVal) (k skip : Bool) (cus : Bytes) (st : WSt) :
    NP (existStripped cfg sn fname v k skip cus st) := by
  cases v with
  | ptr t tgt =>
    cases tgt with
    | none => rw [existStripped]; exact NP_pure _
    | some x => rw [existStripped]; exact NP_existStripped cfg sn fname x k skip cus st
  | struct t n tm fs => rw [existStripped]; exact NP_ite _ _ _ (NP_pure _) (NP_fieldsLoop cfg _ _ fs st)
  | slice t e n es => rw [existStripped]; exact NP_ite _ _ _ (NP_pure _) (NP_elemsLoop cfg _ 0 es st)
  | array t e es => rw [existStripped]; exact NP_ite _ _ _ (NP_pure _) (NP_elemsLoop cfg _ 0 es st)
  | map t ks n es => rw [existStripped]; exact NP_ite _ _ _ (NP_pure _) (NP_entriesLoop cfg _ es _)
  | str s => rw [existStripped]; exact NP_pure _
  | bool s => rw [existStripped]; exact NP_pure _
  | int _ _ => rw [existStripped]; exact NP_pure _
  | uint _ _ => rw [existStripped]; exact NP_pure _
  | float _ _ _ _ => rw [existStripped]; exact NP_pure _
  | iface _ _ => rw [existStripped]; exact NP_pure _
  | other _ _ _ _ => rw [existStripped]; exact NP_pure _
theorem NP_elemsLoop (cfg : StructCfg) (path : Bytes) (i : Nat) (es : GoVals) (st : WSt) : NP (elemsLoop cfg path i es st) := by
  cases es with
  | nil => rw [elemsLoop]; exact NP_pure _
  | cons v rest =>
    rw [elemsLoop]
    exact NP_bind _ _ (NP_validate cfg _ v true st) fun st1 => NP_elemsLoop cfg path (i + 1) rest st1
theorem NP_entriesLoop (cfg : StructCfg) (pathOpen : Bytes) (es : Entries) (st : WSt) : NP (entriesLoop cfg pathOpen es st) := by
  cases es with
  | nil => rw [entriesLoop]; exact NP_pure _
  | cons k v rest =>
    rw [entriesLoop]
    exact NP_bind _ _ (NP_keyStr _ k) fun ks =>
      NP_bind _ _ (NP_validate cfg _ v true _) fun st1 => NP_entriesLoop cfg pathOpen rest st1
end

end PGV.Proofs.Total

namespace PGV.Proofs.Total
open PGV PGV.Model

theorem NP_deepEq (e : Ext) (a c : GoVal) : NP (deepEq e a c) := by unfold deepEq; np

theorem NP_bothEqClause (e : Ext) (ms : List Member) : NP (bothEqClause e ms) := by
  have := fun a c => NP_deepEq e a c
  unfold bothEqClause; np
  · exact this _ _
  · np

theorem NP_groupClauses (e : Ext) (ms : List Member) : NP (groupClauses e ms) := by
  unfold groupClauses
  refine NP_mapM _ _ ?_
  intro g
  cases g with
  | nil => exact NP_pure _
  | cons m rest =>
    simp only
    rcases parseValidNameKV m.validName with ⟨k, tv, cm⟩
    simp only
    exact NP_ite _ _ _ (NP_pure _) (NP_ite _ _ _ (NP_bothEqClause _ _) (NP_pure _))

theorem NP_finish (e : Ext) (st : WSt) : NP (finish e st) := by
  unfold finish
  exact NP_bind _ _ (NP_groupClauses _ _) fun _ => NP_pure _

theorem NP_structValid (cfg : StructCfg) (src : Src) : NP (structValid cfg src) := by
  unfold structValid
  cases src with
  | untypedNil => exact NP_pure _
  | val t v =>
    simp only
    cases v.stripPtr with
    | none => exact NP_pure _
    | some rv =>
      cases rv <;> simp only
      all_goals first
        | exact NP_bind _ _ (NP_validate _ _ _ _ _) fun _ => NP_finish _ _
        | exact NP_bind _ _ (NP_elemsLoop _ _ _ _ _) fun _ => NP_finish _ _
        | exact NP_bind _ _ (NP_entriesLoop _ _ _ _) fun _ => NP_finish _ _

theorem NP_varValid (ext : Ext) (fns : FnTables) (rules : List Bytes) (src : Src) : NP (varValid ext fns rules src) := by
  unfold varValid
  cases src with
  | untypedNil => exact NP_pure _
  | val t v =>
    simp only
    cases v.stripPtr with
    | none => exact NP_pure _
    | some rv =>
      simp only
      refine NP_ite _ _ _ (NP_pure _) (NP_ite _ _ _ (NP_pure _) ?_)
      exact NP_bind _ _ (NP_flatRules _ _ _ _ _ _ _) fun _ => NP_pure _

theorem NP_mapEntries (c : FlatCfg) (rm : RM) (pre : Bytes) (es : Entries) (st : WSt) : NP (mapEntries c rm pre es st) := by
  cases es with
  | nil => rw [mapEntries]; exact NP_pure _
  | cons k v rest =>
    unfold mapEntries
    have hjp : ∀ key, NP (if (rmGet rm key).isEmpty = true then (pure (st.mark 1) >>= fun st1 => mapEntries c rm pre rest st1)
        else (flatRules c pre key (mapGetKey pre key) v (validNamesSplit (rmGet rm key)) (st.mark 1) >>= fun st1 => mapEntries c rm pre rest st1)) :=
      fun key => NP_ite _ _ _ (NP_bind _ _ (NP_pure _) fun st1 => NP_mapEntries c rm pre rest st1)
        (NP_bind _ _ (NP_flatRules _ _ _ _ _ _ _) fun st1 => NP_mapEntries c rm pre rest st1)
    cases k <;> first
      | exact NP_bind _ _ (NP_pure _) fun key => hjp key
      | exact NP_bind _ _ (NP_unmodelled _) fun key => hjp key

theorem NP_mapValidate (c : FlatCfg) (rm : RM) (pre : Bytes) (tv : GoVal) (st : WSt) : NP (mapValidate c rm pre tv st) := by
  unfold mapValidate
  cases tv <;> simp only <;> try exact NP_pure _
  refine NP_ite _ _ _ (NP_pure _) ?_
  refine NP_bind _ _ (NP_mapM _ _ ?_) fun present => NP_mapEntries _ _ _ _ _
  intro kv
  rcases kv with ⟨k, v⟩
  cases k <;> first | exact NP_pure _ | exact NP_unmodelled _

theorem NP_mapElems (c : FlatCfg) (rm : RM) (i : Nat) (es : GoVals) (st : WSt) : NP (mapElems c rm i es st) := by
  cases es with
  | nil => rw [mapElems]; exact NP_pure _
  | cons v rest =>
    rw [mapElems]
    exact NP_bind _ _ (NP_mapValidate _ _ _ _ _) fun st1 => NP_mapElems c rm (i + 1) rest st1

theorem NP_mapValid (ext : Ext) (fns : FnTables) (rm : RM) (src : Src) : NP (mapValid ext fns rm src) := by
  unfold mapValid
  cases src with
  | untypedNil => exact NP_pure _
  | val t v =>
    simp only
    refine NP_ite _ _ _ (NP_pure _) ?_
    cases v.stripPtr with
    | none => exact NP_pure _
    | some rv =>
      cases rv <;> simp only
      all_goals first
        | exact NP_bind _ _ (NP_mapValidate _ _ _ _ _) fun _ => NP_finish _ _
        | exact NP_bind _ _ (NP_mapElems _ _ _ _ _) fun _ => NP_finish _ _

theorem NP_urlParams (c : FlatCfg) (rm : RM) (ps : List Bytes) (st : WSt) : NP (urlParams c rm ps st) := by
  induction ps generalizing st with
  | nil => rw [urlParams]; exact NP_pure _
  | cons q rest ih =>
    rw [urlParams]
    exact NP_ite _ _ _ (NP_bind _ _ (NP_pure _) fun st1 => ih st1)
      (NP_bind _ _ (NP_flatRules _ _ _ _ _ _ _) fun st1 => ih st1)

theorem NP_urlValid (ext : Ext) (fns : FnTables) (rm : RM) (src : UrlSrc) : NP (urlValid ext fns rm src) := by
  unfold urlValid
  cases src with
  | untypedNil => exact NP_pure _
  | nilPtr => exact NP_pure _
  | notString => exact NP_pure _
  | str s =>
    simp only
    cases queryUnescape s with
    | none => exact NP_bind _ _ (NP_askExt _ _) fun _ => NP_finish _ _
    | some dec => exact NP_bind _ _ (NP_urlParams _ _ _ _) fun _ => NP_finish _ _

end PGV.Proofs.Total
