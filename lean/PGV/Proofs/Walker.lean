import PGV.Model.Walker

/-!
# One-step equations of the walkers' rule loops

`fieldRules` (struct fields) and `flatRules` (`Var` / `Map` / `Url`) are folds over the rule items of
one field; each lemma says what one item does, for every continuation, state and configuration.
-/

namespace PGV.Proofs.Walker
open PGV PGV.Model

section struct
variable (ext : Ext) (fns : FnTables) (scope sn fname : Bytes) (v : GoVal)
  (descend : Bool → Bool → Bytes → WSt → M WSt)

theorem fieldRules_nil (d : Bool) (st : WSt) :
    fieldRules ext fns scope sn fname v descend [] d st = pure st := by simp [fieldRules]

theorem fieldRules_empty (rs : List Bytes) (d : Bool) (st : WSt) :
    fieldRules ext fns scope sn fname v descend ([] :: rs) d st
      = fieldRules ext fns scope sn fname v descend rs d st := by simp [fieldRules]

theorem isEmpty_false {r : Bytes} (hr : r ≠ []) : r.isEmpty = false := by cases r <;> simp_all

/-- an unknown rule name: exactly one clause, the remaining rules of the field still run -/
theorem fieldRules_unknown (r : Bytes) (rs : List Bytes) (d : Bool) (st : WSt) (hr : r ≠ [])
    (hk : resolveFn fns (parseValidNameKV r).1 = .unknown) :
    fieldRules ext fns scope sn fname v descend (r :: rs) d st
      = fieldRules ext fns scope sn fname v descend rs d
          (st.write (getJoinFieldErr sn fname (unknownFnMsg (parseValidNameKV r).1))) := by
  rw [fieldRules]
  simp only [isEmpty_false hr, Bool.false_eq_true, if_false]
  rcases hp : parseValidNameKV r with ⟨k, a, m⟩
  rw [hp] at hk
  simp only at hk
  simp only [hk]

/-- `required` on an empty value: the `required` clause (custom message verbatim), no descent -/
theorem fieldRules_required_empty (r : Bytes) (rs : List Bytes) (d : Bool) (st : WSt) (hr : r ≠ [])
    (hk : resolveFn fns (parseValidNameKV r).1 = .structural) (hreq : (parseValidNameKV r).1 = requiredB)
    (hz : requiredEmpty v = true) :
    fieldRules ext fns scope sn fname v descend (r :: rs) d st
      = fieldRules ext fns scope sn fname v descend rs true
          (st.write (requiredClause sn fname (parseValidNameKV r).2.2)) := by
  rw [fieldRules]
  simp only [isEmpty_false hr, Bool.false_eq_true, if_false]
  rcases hp : parseValidNameKV r with ⟨k, a, m⟩
  rw [hp] at hk hreq
  simp only at hk hreq
  subst hreq
  simp only [hk]
  simp [hz]

/-- `required` on a supplied value: no clause of its own; the value is descended into (once per field) -/
theorem fieldRules_required_supplied (r : Bytes) (rs : List Bytes) (d : Bool) (st : WSt) (hr : r ≠ [])
    (hk : resolveFn fns (parseValidNameKV r).1 = .structural) (hreq : (parseValidNameKV r).1 = requiredB)
    (hz : requiredEmpty v = false) :
    fieldRules ext fns scope sn fname v descend (r :: rs) d st
      = (descend false d (parseValidNameKV r).2.2 st >>= fun st' =>
          fieldRules ext fns scope sn fname v descend rs true st') := by
  rw [fieldRules]
  simp only [isEmpty_false hr, Bool.false_eq_true, if_false]
  rcases hp : parseValidNameKV r with ⟨k, a, m⟩
  rw [hp] at hk hreq
  simp only at hk hreq
  subst hreq
  simp only [hk]
  simp [hz]

/-- `exist`: descent only -/
theorem fieldRules_exist (r : Bytes) (rs : List Bytes) (d : Bool) (st : WSt) (hr : r ≠ [])
    (hk : resolveFn fns (parseValidNameKV r).1 = .structural) (hex : (parseValidNameKV r).1 = existB) :
    fieldRules ext fns scope sn fname v descend (r :: rs) d st
      = (descend true d (parseValidNameKV r).2.2 st >>= fun st' =>
          fieldRules ext fns scope sn fname v descend rs true st') := by
  rw [fieldRules]
  simp only [isEmpty_false hr, Bool.false_eq_true, if_false]
  rcases hp : parseValidNameKV r with ⟨k, a, m⟩
  rw [hp] at hk hex
  simp only at hk hex
  subst hex
  simp only [hk]
  have : (existB == requiredB) = false := by decide
  simp [this]

/-- `either` / `botheq`: the field joins the group of its object (`scope`) and rule text; no clause now -/
theorem fieldRules_group (r : Bytes) (rs : List Bytes) (d : Bool) (st : WSt) (hr : r ≠ [])
    (hk : resolveFn fns (parseValidNameKV r).1 = .structural)
    (h1 : (parseValidNameKV r).1 ≠ requiredB) (h2 : (parseValidNameKV r).1 ≠ existB) :
    fieldRules ext fns scope sn fname v descend (r :: rs) d st
      = fieldRules ext fns scope sn fname v descend rs d
          { st with members := st.members ++ [{ scope := scope, validName := r, objName := sn, fieldName := fname, val := v }] } := by
  rw [fieldRules]
  simp only [isEmpty_false hr, Bool.false_eq_true, if_false]
  rcases hp : parseValidNameKV r with ⟨k, a, m⟩
  rw [hp] at hk h1 h2
  simp only at hk h1 h2
  simp only [hk]
  simp [h1, h2]

/-- every rule that is dispatched through a function table is skipped on a zero value -/
theorem fieldRules_custom_zero (r mk : Bytes) (rs : List Bytes) (d : Bool) (st : WSt) (hr : r ≠ [])
    (hk : resolveFn fns (parseValidNameKV r).1 = .custom mk) (hz : v.isZero = true) :
    fieldRules ext fns scope sn fname v descend (r :: rs) d st
      = fieldRules ext fns scope sn fname v descend rs d st := by
  rw [fieldRules]
  simp only [isEmpty_false hr, Bool.false_eq_true, if_false]
  rcases hp : parseValidNameKV r with ⟨k, a, m⟩
  rw [hp] at hk
  simp only at hk
  simp only [hk, hz, if_true]

theorem fieldRules_builtin_zero (r : Bytes) (run) (rs : List Bytes) (d : Bool) (st : WSt) (hr : r ≠ [])
    (hk : resolveFn fns (parseValidNameKV r).1 = .builtin run) (hz : v.isZero = true) :
    fieldRules ext fns scope sn fname v descend (r :: rs) d st
      = fieldRules ext fns scope sn fname v descend rs d st := by
  rw [fieldRules]
  simp only [isEmpty_false hr, Bool.false_eq_true, if_false]
  rcases hp : parseValidNameKV r with ⟨k, a, m⟩
  rw [hp] at hk
  simp only at hk
  simp only [hk, hz, if_true]

/-- a registered / per-call function on a non-zero value: it runs (here: the harness's marker clause) -/
theorem fieldRules_custom (r mk : Bytes) (rs : List Bytes) (d : Bool) (st : WSt) (hr : r ≠ [])
    (hk : resolveFn fns (parseValidNameKV r).1 = .custom mk) (hz : v.isZero = false) :
    fieldRules ext fns scope sn fname v descend (r :: rs) d st
      = fieldRules ext fns scope sn fname v descend rs d (st.write (customClause mk r sn fname)) := by
  rw [fieldRules]
  simp only [isEmpty_false hr, Bool.false_eq_true, if_false]
  rcases hp : parseValidNameKV r with ⟨k, a, m⟩
  rw [hp] at hk
  simp only at hk
  simp only [hk, hz, Bool.false_eq_true, if_false]

/-- a built-in rule on a non-zero value: the text of its rule function is appended -/
theorem fieldRules_builtin (r : Bytes) (run) (rs : List Bytes) (d : Bool) (st : WSt) (hr : r ≠ [])
    (hk : resolveFn fns (parseValidNameKV r).1 = .builtin run) (hz : v.isZero = false) :
    fieldRules ext fns scope sn fname v descend (r :: rs) d st
      = (run ext r sn fname v >>= fun t =>
          fieldRules ext fns scope sn fname v descend rs d (st.write t)) := by
  rw [fieldRules]
  simp only [isEmpty_false hr, Bool.false_eq_true, if_false]
  rcases hp : parseValidNameKV r with ⟨k, a, m⟩
  rw [hp] at hk
  simp only at hk
  simp only [hk, hz, Bool.false_eq_true, if_false]

end struct

/-! ### the field loop -/

/-- a field that is unexported, of type `time.Time`, or without rules is skipped -/
theorem fieldsLoop_skip (cfg : StructCfg) (sn : Bytes) (cus : RM) (name : Bytes) (ex tt : Bool)
    (tags : List (Bytes × Bytes)) (v : GoVal) (rest : Fields) (st : WSt)
    (h : ex = false ∨ tt = true ∨ (rmGet cus name = [] ∧ tagGet tags cfg.tag = [])) :
    fieldsLoop cfg sn cus (.cons name ex tt tags v rest) st = fieldsLoop cfg sn cus rest st := by
  rw [fieldsLoop]
  rcases h with h | h | ⟨h1, h2⟩
  · simp [h]
  · simp [h]
  · simp [h1, h2]

/-- the rule list of a field: the rule set's rule for that name if non-empty, else the tag rule -/
def effectiveRule (cfg : StructCfg) (cus : RM) (name : Bytes) (tags : List (Bytes × Bytes)) : Bytes :=
  if !(rmGet cus name).isEmpty then rmGet cus name else tagGet tags cfg.tag

theorem fieldsLoop_rules (cfg : StructCfg) (sn : Bytes) (cus : RM) (name : Bytes)
    (tags : List (Bytes × Bytes)) (v : GoVal) (rest : Fields) (st : WSt) :
    fieldsLoop cfg sn cus (.cons name true false tags v rest) st
      = ((if (effectiveRule cfg cus name tags).isEmpty then pure st
          else fieldRules cfg.ext cfg.fns sn sn name v
            (fun isValidTvKind skip cusMsg st => existTop cfg sn name v isValidTvKind skip cusMsg st)
            (validNamesSplit (effectiveRule cfg cus name tags)) false st) >>= fun st1 => fieldsLoop cfg sn cus rest st1) := by
  rw [fieldsLoop]; simp [effectiveRule]
  split
  · split <;> simp_all
  · rfl

/-! ### function resolution (`getValidFn`): per-call table, then registered functions, then built-ins -/

theorem resolve_local (t : FnTables) (key mk : Bytes) (h : t.localFns.lookup key = some mk) :
    resolveFn t key = .custom mk := by simp [resolveFn, h]

theorem resolve_global (t : FnTables) (key mk : Bytes) (h1 : t.localFns.lookup key = none)
    (h2 : t.globalFns.lookup key = some mk) : resolveFn t key = .custom mk := by simp [resolveFn, h1, h2]

theorem resolve_builtin (t : FnTables) (key : Bytes) (h1 : t.localFns.lookup key = none)
    (h2 : t.globalFns.lookup key = none) :
    resolveFn t key = (match builtin key with
      | some .structural => .structural
      | some (.fn run) => .builtin run
      | none => .unknown) := by
  simp only [resolveFn, h1, h2]
  cases builtin key with
  | none => rfl
  | some x => cases x <;> rfl

end PGV.Proofs.Walker

namespace PGV.Proofs.Walker
open PGV PGV.Model

/-! ### the flat rule loop (`Var`, `Map`, `Url`) -/

section flat
variable (c : FlatCfg) (scope nameErr nameClause : Bytes) (v : GoVal)

theorem flatRules_nil (st : WSt) : flatRules c scope nameErr nameClause v [] st = pure st := by simp [flatRules]

theorem flatRules_empty (rs : List Bytes) (st : WSt) :
    flatRules c scope nameErr nameClause v ([] :: rs) st = flatRules c scope nameErr nameClause v rs st := by
  simp [flatRules]

theorem flatRules_unknown (r : Bytes) (rs : List Bytes) (st : WSt) (hr : r ≠ [])
    (hk : resolveFn c.fns (parseValidNameKV r).1 = .unknown) :
    flatRules c scope nameErr nameClause v (r :: rs) st
      = flatRules c scope nameErr nameClause v rs
          (st.write (getJoinFieldErr [] nameErr (unknownFnMsg (parseValidNameKV r).1))) := by
  rw [flatRules]
  simp only [isEmpty_false hr, Bool.false_eq_true, if_false]
  rcases hp : parseValidNameKV r with ⟨k, a, m⟩
  rw [hp] at hk
  simp only at hk
  simp only [hk]

theorem flatRules_required (r : Bytes) (rs : List Bytes) (st : WSt) (hr : r ≠ [])
    (hk : resolveFn c.fns (parseValidNameKV r).1 = .structural) (hreq : (parseValidNameKV r).1 = requiredB) :
    flatRules c scope nameErr nameClause v (r :: rs) st
      = flatRules c scope nameErr nameClause v rs
          (if c.requiredViolated v then st.write (requiredClause [] nameClause (parseValidNameKV r).2.2) else st) := by
  rw [flatRules]
  simp only [isEmpty_false hr, Bool.false_eq_true, if_false]
  rcases hp : parseValidNameKV r with ⟨k, a, m⟩
  rw [hp] at hk hreq
  simp only at hk hreq
  subst hreq
  simp only [hk]
  have : (requiredB == requiredB) = true := by decide
  simp only [this, if_true]
  split <;> rfl

theorem flatRules_custom_zero (r mk : Bytes) (rs : List Bytes) (st : WSt) (hr : r ≠ [])
    (hk : resolveFn c.fns (parseValidNameKV r).1 = .custom mk) (hz : c.isEmpty v = true) :
    flatRules c scope nameErr nameClause v (r :: rs) st = flatRules c scope nameErr nameClause v rs st := by
  rw [flatRules]
  simp only [isEmpty_false hr, Bool.false_eq_true, if_false]
  rcases hp : parseValidNameKV r with ⟨k, a, m⟩
  rw [hp] at hk
  simp only at hk
  simp only [hk, hz, if_true]

theorem flatRules_builtin_zero (r : Bytes) (run) (rs : List Bytes) (st : WSt) (hr : r ≠ [])
    (hk : resolveFn c.fns (parseValidNameKV r).1 = .builtin run) (hz : c.isEmpty v = true) :
    flatRules c scope nameErr nameClause v (r :: rs) st = flatRules c scope nameErr nameClause v rs st := by
  rw [flatRules]
  simp only [isEmpty_false hr, Bool.false_eq_true, if_false]
  rcases hp : parseValidNameKV r with ⟨k, a, m⟩
  rw [hp] at hk
  simp only at hk
  simp only [hk, hz, if_true]

theorem flatRules_builtin (r : Bytes) (run) (rs : List Bytes) (st : WSt) (hr : r ≠ [])
    (hk : resolveFn c.fns (parseValidNameKV r).1 = .builtin run) (hz : c.isEmpty v = false) :
    flatRules c scope nameErr nameClause v (r :: rs) st
      = (run c.ext r [] nameClause v >>= fun t => flatRules c scope nameErr nameClause v rs (st.write t)) := by
  rw [flatRules]
  simp only [isEmpty_false hr, Bool.false_eq_true, if_false]
  rcases hp : parseValidNameKV r with ⟨k, a, m⟩
  rw [hp] at hk
  simp only at hk
  simp only [hk, hz, Bool.false_eq_true, if_false]

theorem flatRules_custom (r mk : Bytes) (rs : List Bytes) (st : WSt) (hr : r ≠ [])
    (hk : resolveFn c.fns (parseValidNameKV r).1 = .custom mk) (hz : c.isEmpty v = false) :
    flatRules c scope nameErr nameClause v (r :: rs) st
      = flatRules c scope nameErr nameClause v rs (st.write (customClause mk r [] nameClause)) := by
  rw [flatRules]
  simp only [isEmpty_false hr, Bool.false_eq_true, if_false]
  rcases hp : parseValidNameKV r with ⟨k, a, m⟩
  rw [hp] at hk
  simp only at hk
  simp only [hk, hz, Bool.false_eq_true, if_false]

/-- a structural rule other than `required`: `either` / `botheq` register the value (Map, Url); anything
else (`exist`, or groups under `Var`) is "no support": one clause -/
theorem flatRules_structural_other (r : Bytes) (rs : List Bytes) (st : WSt) (hr : r ≠ [])
    (hk : resolveFn c.fns (parseValidNameKV r).1 = .structural) (hreq : (parseValidNameKV r).1 ≠ requiredB) :
    flatRules c scope nameErr nameClause v (r :: rs) st
      = flatRules c scope nameErr nameClause v rs
          (if c.supportsGroups && ((parseValidNameKV r).1 == eitherB || (parseValidNameKV r).1 == bothEqB) then
             { st with members := st.members ++ [{ scope := scope, validName := r, objName := [], fieldName := nameErr, val := v }] }
           else st.write (getJoinFieldErr [] nameClause (b! "valid \"" ++ r ++ b! "\" is no support"))) := by
  rw [flatRules]
  simp only [isEmpty_false hr, Bool.false_eq_true, if_false]
  rcases hp : parseValidNameKV r with ⟨k, a, m⟩
  rw [hp] at hk hreq
  simp only at hk hreq
  simp only [hk]
  have : (k == requiredB) = false := by simpa using hreq
  simp only [this, Bool.false_eq_true, if_false]
  split <;> rfl

end flat

end PGV.Proofs.Walker
