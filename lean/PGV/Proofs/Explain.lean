import PGV.Spec.Explain

namespace PGV.Proofs.Explain
open PGV PGV.Model PGV.Spec.Explain

theorem splitEnd_ne_nil (s : Bytes) : splitEnd s ≠ [] := by
  match s with
  | [] => simp [splitEnd]
  | [x] => simp [splitEnd]
  | x :: y :: rest =>
    rw [splitEnd]
    split
    · simp
    · have := splitEnd_ne_nil (y :: rest)
      split <;> simp

theorem splitEnd_noSep (p : Bytes) (h : noSep p = true) : splitEnd p = [p] := by
  match p with
  | [] => rfl
  | [x] => rfl
  | x :: y :: r =>
    rw [noSep] at h
    simp only [Bool.and_eq_true, Bool.not_eq_true'] at h
    rw [splitEnd, h.1]
    simp [splitEnd_noSep (y :: r) h.2]

theorem splitEnd_append (p q : Bytes) (h : noSep p = true) :
    splitEnd (p ++ errEndFlag ++ q) = p :: splitEnd q := by
  match p with
  | [] => simp [errEndFlag, splitEnd]
  | [x] =>
    simp only [errEndFlag, List.cons_append, List.nil_append]
    rw [splitEnd]
    have : (x == 59 && (59 : UInt8) == 32) = false := by
      have : ((59 : UInt8) == 32) = false := by decide
      simp [this]
    rw [this]
    simp [splitEnd]
  | x :: y :: r =>
    rw [noSep] at h
    simp only [Bool.and_eq_true, Bool.not_eq_true'] at h
    have ih := splitEnd_append (y :: r) q h.2
    simp only [List.cons_append, List.append_assoc] at ih ⊢
    rw [splitEnd, h.1]
    simp [ih]

theorem splitEnd_render (cs : List Clause) (hne : cs ≠ []) (h : ∀ c ∈ cs, noSep c.text = true) :
    splitEnd (render cs) = cs.map Clause.text := by
  induction cs with
  | nil => exact absurd rfl hne
  | cons c rest ih =>
    cases rest with
    | nil => simp [render, Bytes.join]; exact splitEnd_noSep _ (h c (by simp))
    | cons c2 rest2 =>
      have : render (c :: c2 :: rest2) = c.text ++ errEndFlag ++ render (c2 :: rest2) := by
        simp [render, Bytes.join]
      rw [this, splitEnd_append _ _ (h c (by simp)), ih (by simp) (fun c' hc' => h c' (by simp [hc']))]
      rfl

end PGV.Proofs.Explain
